(* Proofs for the TAPE path of the text serde deserializer (TextDeTape) against the specification
   TextDeSpec.spec_value, over the core grammar (scalars, objects of key-op-value fields, arrays). *)
From JV Require Import Bytes Utf8 Scalar TextTok TextDoc SerdeShape TextDeCommon TextDeTape TextDeSpec.
From JV.proofs Require Import TextParseProofs.
Require Import Lia.
Open Scope nat_scope.

(* ------------------------------------------------------------------ a sub-tape located at an index *)
Definition at_ (t : ttape) (off : nat) (l : ttape) : Prop :=
  exists pre post, t = pre ++ l ++ post /\ length pre = off.

Lemma at_nth t off x l : at_ t off (x :: l) -> nth_error t off = Some x.
Proof.
  intros (pre & post & -> & <-). rewrite nth_error_app2 by lia. now rewrite Nat.sub_diag.
Qed.

Lemma at_app_l t off a b : at_ t off (a ++ b) -> at_ t off a.
Proof. intros (pre & post & -> & <-). exists pre, (b ++ post). now rewrite <- app_assoc. Qed.

Lemma at_app_r t off a b : at_ t off (a ++ b) -> at_ t (off + length a) b.
Proof.
  intros (pre & post & -> & <-). exists (pre ++ a), post. rewrite <- !app_assoc. split; auto.
  now rewrite app_length.
Qed.

Lemma at_cons t off x l : at_ t off (x :: l) -> at_ t (S off) l.
Proof. intros H. apply (at_app_r t off [x] l) in H. now rewrite Nat.add_1_r in H. Qed.

Lemma at_skipn t off l : at_ t off l -> exists post, skipn off t = l ++ post.
Proof.
  intros (pre & post & -> & <-). exists post.
  rewrite skipn_app, Nat.sub_diag, skipn_all. reflexivity.
Qed.

Lemma at_len t off l : at_ t off l -> off + length l <= length t.
Proof. intros (pre & post & -> & <-). rewrite !app_length. lia. Qed.

Lemma at_root t : at_ t 0 t.
Proof. exists [], []. now rewrite app_nil_r. Qed.

Lemma tget_at t off x l : at_ t off (x :: l) -> tget t off = Ok x.
Proof. intros H. unfold tget. now rewrite (at_nth _ _ _ _ H). Qed.

(* ------------------------------------------------------------------ the DOM index functions on a value *)
Lemma core_head off v : core_value v = true ->
  exists x r, flat_value off v = x :: r /\
    (forall o, x <> TOperator o) /\ x <> TMixedContainer /\ (forall s, x <> THeader s) /\
    match x with
    | TArray e _ | TObject e _ => S e = off + vlen v
    | _ => vlen v = 1
    end.
Proof.
  destruct v as [k s | fs tl | items | items kvs | name v']; try discriminate; intros _.
  - exists (scalar_tok k s), []. unfold vlen. cbn. destruct k; cbn; repeat split; congruence.
  - unfold vlen. cbn [flat_value]. eexists _, _. split; [reflexivity|]. repeat split; try congruence.
    cbn [length]. rewrite !app_length. cbn [length].
    rewrite !flat_fields_len. destruct tl; cbn [length]; rewrite ?flat_values_len; lia.
  - unfold vlen. cbn [flat_value]. eexists _, _. split; [reflexivity|]. repeat split; try congruence.
    cbn [length]. rewrite !app_length. cbn [length]. rewrite !flat_values_len. lia.
Qed.

Lemma next_idx_value t off v : core_value v = true -> at_ t off (flat_value off v) ->
  next_idx t off = Ok (off + vlen v).
Proof.
  intros Hc Ha. destruct (core_head off v Hc) as (x & r & E & Hop & Hm & Hh & Hx).
  rewrite E in Ha. destruct (at_skipn _ _ _ Ha) as (post & Hs).
  unfold next_idx. rewrite Hs. cbn [app next_idx_l].
  destruct x; try (rewrite Hx; f_equal; lia); try (f_equal; lia).
  - now destruct (Hop o).
  - now destruct (Hh s).
Qed.

Lemma next_idx_values_value t off v : core_value v = true -> at_ t off (flat_value off v) ->
  next_idx_values t off = Ok (off + vlen v).
Proof.
  intros Hc Ha. destruct (core_head off v Hc) as (x & r & E & Hop & Hm & Hh & Hx).
  rewrite E in Ha. unfold next_idx_values. rewrite (tget_at _ _ _ _ Ha). cbn [obind].
  destruct x; try (rewrite Hx; f_equal; lia); try (f_equal; lia).
Qed.

Definition fop (op : option operator) : option operator :=
  match op with Some Equal | None => None | Some o => Some o end.

Lemma fop_equal op : match fop op with Some o => o | None => Equal end = op_or_equal op.
Proof. destruct op as [[]|]; reflexivity. Qed.

Lemma fields_next_field t ti en k key op v rest :
  core_value v = true ->
  at_ t ti (flat_field false ti (Field k key op v) ++ rest) -> ti < en ->
  fields_next t ti en =
    Ok (Some (key, fop op, S ti + length (op_toks false op), S ti + length (op_toks false op) + vlen v)).
Proof.
  intros Hc Ha Hlt. unfold fields_next.
  replace (en <=? ti) with false by (symmetry; apply Nat.leb_gt; lia).
  cbn [flat_field] in Ha. rewrite <- app_comm_cons in Ha.
  rewrite (tget_at _ _ _ _ Ha).
  apply at_cons in Ha. rewrite <- app_assoc in Ha.
  assert (Hv : at_ t (S ti + length (op_toks false op)) (flat_value (S ti + length (op_toks false op)) v)).
  { apply at_app_r in Ha. now apply at_app_l in Ha. }
  pose proof (next_idx_value _ _ _ Hc Hv) as Hn.
  destruct (core_head (S ti + length (op_toks false op)) v Hc) as (x & r & E & Hop & _).
  assert (Hk : forall (P : bytes -> outcome (option (bytes * option operator * nat * nat))),
            match scalar_tok k key with
            | TQuoted s | TUnquoted s | TParameter s | TUndefinedParameter s => P s
            | _ => Ok None end = P key) by (intros P; destruct k; reflexivity).
  cbn [obind]. rewrite Hk. clear Hk.
  destruct op as [[]|]; cbn [op_toks app length fop] in *;
    try (rewrite (tget_at _ _ _ _ Ha); cbn [obind]; replace (ti + 2) with (S ti + 1) by lia; rewrite Hn; reflexivity).
  - rewrite Nat.add_0_r in *. rewrite E in Ha. rewrite (tget_at _ _ _ _ Ha). cbn [obind].
    destruct x; try (rewrite Hn; reflexivity). now destruct (Hop o).
  - rewrite Nat.add_0_r in *. rewrite E in Ha. rewrite (tget_at _ _ _ _ Ha). cbn [obind].
    destruct x; try (rewrite Hn; reflexivity). now destruct (Hop o).
Qed.

Lemma fields_next_end t ti en : en <= ti -> fields_next t ti en = Ok None.
Proof. intros H. unfold fields_next. now replace (en <=? ti) with true by (symmetry; apply Nat.leb_le; lia). Qed.

(* the end of an object's fields: no remainder *)
Definition rem_empty (t : ttape) (en : nat) : Prop :=
  nth_error t en = None \/
  exists y e m, nth_error t en = Some (TEnd y) /\ nth_error t y = Some (TObject e m).

Lemma remainder_empty t en : rem_empty t en ->
  let '(rs, re) := remainder t en en in values_len t (S (length t)) rs re = Ok 0.
Proof.
  intros [H | (y & e & m & H1 & H2)]; unfold remainder.
  - rewrite H. cbn [values_len]. now rewrite Nat.ltb_irrefl.
  - rewrite H1, H2. cbn [values_len]. now rewrite Nat.ltb_irrefl.
Qed.

(* ------------------------------------------------------------------ entry: only the values matter *)
Definition wm_size (m : wmode) : nat :=
  match m with
  | WMap s => S (shape_size s)
  | WStruct t fs => shape_size (ShStruct t fs)
  | WAny => 1
  | WProp s => S (shape_size s)
  end.
Definition m_core (m : wmode) : bool := match m with WMap _ | WStruct _ _ => true | _ => false end.

Lemma find_name_in fs kb i0 i f : find_name fs kb i0 = Some (i, f) -> In f fs.
Proof.
  revert i0. induction fs as [|g fs IH]; intros i0; cbn [find_name]; [discriminate|].
  destruct (beqb (f_name g) kb).
  - intros [= _ ->]. now left.
  - intros H. right. eauto.
Qed.

Lemma field_size_lt (t : bool) fs (f : SerdeShape.field) : In f fs -> shape_size (f_shape f) < shape_size (ShStruct t fs).
Proof.
  cbn [shape_size]. induction fs as [|g fs IH]; [easy|]. intros [-> | H]; cbn [fold_right].
  - unfold f_shape. lia.
  - specialize (IH H). lia.
Qed.

Lemma entry_ext X1 X2 (rec1 : shape -> X1 -> unit -> outcome (dval * unit)) rop1
      (rec2 : shape -> X2 -> unit -> outcome (dval * unit)) rop2 m a kb knum x1 x2 :
  m_core m = true ->
  (forall sh', sh' = ShIgn \/ shape_size sh' < wm_size m ->
     rec2 sh' x2 tt <> Err EC_UNFIT -> rec1 sh' x1 tt = rec2 sh' x2 tt) ->
  entry rec2 rop2 m a kb knum x2 tt <> Err EC_UNFIT ->
  entry rec1 rop1 m a kb knum x1 tt = entry rec2 rop2 m a kb knum x2 tt.
Proof.
  intros Hm Hrec Hne.
  assert (Hstep : forall sh' (K : dval * unit -> outcome (acc * unit)),
            (sh' = ShIgn \/ shape_size sh' < wm_size m) ->
            (do r <- rec2 sh' x2 tt; K r) <> Err EC_UNFIT ->
            (do r <- rec1 sh' x1 tt; K r) = (do r <- rec2 sh' x2 tt; K r)).
  { intros sh' K Hs Hk. rewrite Hrec; auto. intros E. rewrite E in Hk. now apply Hk. }
  destruct m as [s | tk fs | | s]; try discriminate; unfold entry in *.
  - apply Hstep; [right; cbn; lia | exact Hne].
  - destruct (tk && knum); [reflexivity|].
    destruct (find_name fs kb 0) as [[i f]|] eqn:Ef.
    + pose proof (field_size_lt tk _ _ (find_name_in _ _ _ _ _ Ef)) as Hlt.
      destruct (f_mode f); try (apply Hstep; [right; exact Hlt | exact Hne]).
      destruct (slot_full a i); [reflexivity|]. apply Hstep; [right; exact Hlt | exact Hne].
    + apply Hstep; [now left | exact Hne].
Qed.

Local Opaque tget.

Lemma obind_ret {A} (x : outcome A) : (do a <- x; Ok a) = x.
Proof. now destruct x. Qed.

Section Main.
  Variable decode : bytes -> cow.
  Variable pf : bytes -> outcome N.
  Variable F : fops.
  Variable t : ttape.

  Notation de := (TextDeTape.de decode pf F t).
  Notation twalk := (TextDeTape.twalk decode pf F t).
  Notation seq_all := (TextDeTape.seq_all decode pf F t).
  Notation seq_tup := (TextDeTape.seq_tup decode pf F t).
  Notation spec_v := (TextDeSpec.spec_v decode pf F).
  Notation spec_items := (TextDeSpec.spec_items decode pf F).
  Notation spec_tuple := (TextDeSpec.spec_tuple decode pf F).
  Notation spec_fields := (TextDeSpec.spec_fields decode pf F).
  Notation spec_scalar := (TextDeSpec.spec_scalar decode pf F).

  Definition kind (o : option operator) (off : nat) : vkind :=
    match o with Some op => KOpVal op off | None => KVal off end.

  Definition is_wrapper (sh : shape) : bool := match sh with ShOpt _ | ShProp _ => true | _ => false end.

  Definition hint_scalar (h : thint) : bool :=
    match h with
    | THAny | THBool | THI64 | THU64 | THF64 | THStr | THString | THBytes | THUnit | THIgnored => true
    | _ => false
    end.

  Lemma tape_visit_scalar h k raw r off o :
    at_ t off (scalar_tok k raw :: r) -> hint_scalar h = true ->
    tape_visit decode pf t h (kind o off) = Ok (TVPrim (scalar_prim decode pf true h raw)).
  Proof.
    intros Ha Hh. pose proof (tget_at _ _ _ _ Ha) as Hg.
    assert (Hany : tv_any decode t (kind o off) = Ok (TVPrim (pstr (decode raw)))).
    { destruct o; cbn [kind tv_any]; unfold tv_any_at; rewrite Hg; destruct k; reflexivity. }
    assert (Hsc : k_read_scalar t (kind o off) = Ok (Some raw)).
    { destruct o; cbn [kind k_read_scalar]; rewrite Hg; destruct k; reflexivity. }
    assert (Hst : k_read_str decode t (kind o off) = Ok (Some (decode raw))).
    { destruct o; cbn [kind k_read_str]; rewrite Hg; destruct k; reflexivity. }
    assert (Hk : forall (A : Type) (a : bytes -> A) (b : A),
               match kind o off with KStatic s => a s | _ => b end = b) by (intros; now destruct o).
    unfold tape_visit. rewrite Hk. unfold pstr in Hany.
    destruct h; try discriminate; unfold tv_scalar_hint; rewrite ?Hsc, ?Hst, ?Hany; cbn [obind]; try reflexivity;
      unfold scalar_prim.
    - destruct (to_bool raw); try reflexivity; rewrite Hany; reflexivity.
    - destruct (to_i64 raw); try reflexivity; rewrite Hany; reflexivity.
    - destruct (to_u64 raw); try reflexivity; rewrite Hany; reflexivity.
    - destruct (pf raw); try reflexivity; rewrite Hany; reflexivity.
  Qed.

  Definition shape_scalar (c : shape) : bool :=
    match c with
    | ShStr | ShBool | ShU _ | ShI _ | ShF32 | ShF64 | ShDate | ShDateHour | ShAny | ShIgn => true
    | _ => false
    end.

  Lemma de_scalar k raw r off c o f :
    at_ t off (scalar_tok k raw :: r) -> is_wrapper c = false ->
    spec_scalar c raw <> Err EC_UNFIT ->
    de (S f) c (kind o off) = match c with ShIgn => Ok DIgn | _ => spec_scalar c raw end.
  Proof.
    intros Ha Hw Hne.
    destruct (shape_scalar c) eqn:Hs.
    - assert (Hh : hint_scalar (thint_of c) = true) by (destruct c; try discriminate; reflexivity).
      cbn [TextDeTape.de]. rewrite (tape_visit_scalar _ _ _ _ _ o Ha Hh). cbn [obind].
      destruct c; try discriminate; reflexivity.
    - destruct c; try discriminate; try (now destruct Hne).
      (* enum *)
      pose proof (tget_at _ _ _ _ Ha) as Hg.
      cbn [TextDeTape.de thint_of].
      assert (Hv : tape_visit decode pf t THEnum (kind o off) = Ok (TVEnum off None)).
      { destruct o; cbn [kind tape_visit]; rewrite Hg; cbn [obind]; destruct k; reflexivity. }
      rewrite Hv. cbn [obind].
      pose proof (tape_visit_scalar THStr _ _ _ _ None Ha eq_refl) as H2. cbn [kind] in H2.
      rewrite H2. cbn [obind].
      unfold spec_scalar, scalar_prim, pstr. cbn [andb].
      destruct (tvisit_variant variants _); reflexivity.
  Qed.

  (* ---------------------------------------------------------------- Option / Property wrappers *)
  Definition spec_core (v : value) (c : shape) : outcome dval :=
    match c with
    | ShIgn => Ok DIgn
    | _ =>
      match v with
      | VScalar _ raw => spec_scalar c raw
      | VArray items =>
          match c with
          | ShSeq s => omap DSeq (spec_items items s)
          | ShTup ss => omap DSeq (spec_tuple items ss)
          | _ => Err EC_UNFIT
          end
      | VObject fs VNil =>
          match wmode_core c with
          | Some m => do a <- spec_fields fs m (acc0 m); finish m a
          | None => Err EC_UNFIT
          end
      | _ => Err EC_UNFIT
      end
    end.

  Lemma spec_v_eq v sh o : spec_v v sh o = rewrap (fst (unwrap sh)) o (spec_core v (snd (unwrap sh))).
  Proof. destruct v; cbn [TextDeSpec.spec_v]; destruct (unwrap sh); reflexivity. Qed.

  Lemma omap_unfit {A B} (f : A -> B) (x : outcome A) : omap f x <> Err EC_UNFIT -> x <> Err EC_UNFIT.
  Proof. intros H E. apply H. now rewrite E. Qed.

  Lemma de_wrappers off (sc : shape -> outcome dval) B :
    (forall c o fuel, is_wrapper c = false -> B + shape_size c <= fuel -> sc c <> Err EC_UNFIT ->
       de fuel c (kind o off) = sc c) ->
    forall sh o fuel, B + shape_size sh <= fuel ->
      rewrap (fst (unwrap sh)) o (sc (snd (unwrap sh))) <> Err EC_UNFIT ->
      de fuel sh (kind o off) = rewrap (fst (unwrap sh)) o (sc (snd (unwrap sh))).
  Proof.
    intros Hc. induction sh; intros o fuel Hf Hne; try (apply Hc; auto; fail).
    - cbn [unwrap] in *. destruct (unwrap sh) as [w c] eqn:E. cbn [fst snd rewrap] in *.
      destruct fuel as [|f]; [cbn [shape_size] in Hf; lia|]. cbn [shape_size] in Hf.
      cbn [TextDeTape.de thint_of].
      assert (Hv : tape_visit decode pf t THOption (kind o off) = Ok (TVSome (kind o off))) by (now destruct o).
      rewrite Hv. cbn [obind]. rewrite IHsh; [reflexivity | lia | now apply omap_unfit in Hne].
    - cbn [unwrap] in *. destruct (unwrap sh) as [w c] eqn:E. cbn [fst snd rewrap] in *.
      destruct fuel as [|f]; [cbn [shape_size] in Hf; lia|]. cbn [shape_size] in Hf.
      destruct o as [op|]; [|now destruct Hne].
      cbn [TextDeTape.de thint_of kind tape_visit obind].
      pose proof (IHsh None f) as IH. cbn [kind] in IH.
      rewrite IH; [reflexivity | lia | now apply omap_unfit in Hne].
  Qed.

  (* ---------------------------------------------------------------- fuel *)
  Fixpoint cv (v : value) : nat :=
    match v with
    | VObject fs _ => 1 + cfs fs
    | VArray items => 1 + cvs items
    | _ => 1
    end
  with cf (f : TextDoc.field) : nat := match f with Field _ _ _ v => cv v | _ => 0 end
  with cfs (fs : fields) : nat := match fs with FNil => 1 | FCons f fs' => 1 + cf f + cfs fs' end
  with cvs (vs : values) : nat := match vs with VNil => 1 | VCons v vs' => 1 + cv v + cvs vs' end.

  Lemma de_ign off o f : de (S f) ShIgn (kind o off) = Ok DIgn.
  Proof. destruct o; reflexivity. Qed.

  (* ---------------------------------------------------------------- the walk over a document *)
  Definition full_v (v : value) : Prop :=
    forall off, at_ t off (flat_value off v) -> forall sh o fuel,
      cv v + shape_size sh <= fuel -> spec_v v sh o <> Err EC_UNFIT -> de fuel sh (kind o off) = spec_v v sh o.
  Definition Pv (v : value) : Prop := core_value v = true -> full_v v.
  Definition Pf (f : TextDoc.field) : Prop :=
    match f with Field _ _ _ v => core_value v = true -> full_v v | _ => True end.
  Definition Pfs (fs : fields) : Prop :=
    core_fields fs = true -> forall ti en, at_ t ti (flat_fields false ti fs) -> en = ti + fslen false fs ->
    rem_empty t en -> forall m a fuel, m_core m = true -> cfs fs + wm_size m <= fuel ->
    spec_fields fs m a <> Err EC_UNFIT -> twalk fuel m a ti en = spec_fields fs m a.
  Definition Pvs (vs : values) : Prop :=
    core_values vs = true -> forall ti en, at_ t ti (flat_values ti vs) -> en = ti + vslen vs ->
    (forall s fuel, cvs vs + shape_size s <= fuel -> spec_items vs s <> Err EC_UNFIT ->
       seq_all fuel s ti en = spec_items vs s) /\
    (forall ss fuel, cvs vs + shape_size (ShTup ss) <= fuel -> spec_tuple vs ss <> Err EC_UNFIT ->
       seq_tup fuel ss ti en = spec_tuple vs ss).

  Lemma wrap_core v B :
    (forall off, at_ t off (flat_value off v) -> forall c o fuel, is_wrapper c = false -> B + shape_size c <= fuel ->
       spec_core v c <> Err EC_UNFIT -> de fuel c (kind o off) = spec_core v c) ->
    B = cv v -> full_v v.
  Proof.
    intros H -> off Ha sh o fuel Hf Hne. rewrite spec_v_eq in *.
    apply (de_wrappers off (spec_core v) (cv v)); auto.
  Qed.

  (* unfolding equations (the siblings of a mutual fixpoint are not refolded by cbn) *)
  Lemma de_map f sh k st en m :
    tape_visit decode pf t (thint_of sh) k = Ok (TVMap st en) -> wmode_of sh = Some m ->
    de (S f) sh k = (do a <- twalk f m (acc0 m) st en; finish m a).
  Proof. intros H1 H2. cbn [TextDeTape.de]. rewrite H1. cbn [obind]. rewrite H2. reflexivity. Qed.

  Lemma de_seq f s k st en :
    tape_visit decode pf t THSeq k = Ok (TVSeq st en) -> de (S f) (ShSeq s) k = omap DSeq (seq_all f s st en).
  Proof. intros H1. cbn [TextDeTape.de thint_of]. rewrite H1. reflexivity. Qed.

  Lemma de_tup f ss k st en :
    tape_visit decode pf t THSeq k = Ok (TVSeq st en) -> de (S f) (ShTup ss) k = omap DSeq (seq_tup f ss st en).
  Proof. intros H1. cbn [TextDeTape.de thint_of]. rewrite H1. reflexivity. Qed.

  Lemma seq_all_eq f s ti en :
    seq_all (S f) s ti en =
      if ti <? en then
        do nx <- next_idx_values t ti; do v <- de f s (KVal ti); do r <- seq_all f s nx en; Ok (v :: r)
      else Ok [].
  Proof. reflexivity. Qed.

  Lemma seq_tup_eq f ss ti en :
    seq_tup (S f) ss ti en =
      match ss with
      | [] => Ok []
      | s :: ss' =>
          if ti <? en then
            do nx <- next_idx_values t ti; do v <- de f s (KVal ti); do r <- seq_tup f ss' nx en; Ok (v :: r)
          else Err EC_DE
      end.
  Proof. reflexivity. Qed.

  Definition trec (f : nat) := fun sh k (_ : unit) => omap (fun v => (v, tt)) (de f sh k).
  Definition trec_op := fun k (_ : unit) =>
    do vo <- tape_visit decode pf t THStr k;
    match vo with TVPrim p => omap (fun o => (o, tt)) (visit_operator p) | _ => Err EC_DE end.

  Lemma twalk_eq f m a ti en :
    twalk (S f) m a ti en =
      do fn <- fields_next t ti en;
      match fn with
      | Some (key, op, vi, ti') =>
          let '(kb, knum) := key_info decode (KScalar key) in
          do r <- entry (trec f) trec_op m a kb knum (KOpVal (match op with Some o => o | None => Equal end) vi) tt;
          twalk f m (fst r) ti' en
      | None =>
          let '(rs, re) := remainder t ti en in
          do n <- values_len t (S (length t)) rs re;
          match n with
          | O => Ok a
          | S _ => do r <- entry (trec f) trec_op m a STR_REMAINDER false (KArr rs re) tt; Ok (fst r)
          end
      end.
  Proof. reflexivity. Qed.

  Lemma spec_fields_cons k key op v fs m a :
    spec_fields (FCons (Field k key op v) fs) m a =
      do r <- entry (fun sh' (_ _ : unit) => omap (fun d => (d, tt)) (spec_v v sh' (Some (op_or_equal op))))
                    (fun _ _ => Err EC_UNFIT) m a (cow_bytes (decode key)) (is_ok (to_u64 key)) tt tt;
      spec_fields fs m (fst r).
  Proof. reflexivity. Qed.

  Lemma spec_items_cons v vs s :
    spec_items (VCons v vs) s = do x <- spec_v v s None; do r <- spec_items vs s; Ok (x :: r).
  Proof. reflexivity. Qed.

  Lemma spec_tuple_cons v vs ss :
    spec_tuple (VCons v vs) ss =
      match ss with
      | [] => Err EC_UNFIT
      | s :: ss' => do x <- spec_v v s None; do r <- spec_tuple vs ss'; Ok (x :: r)
      end.
  Proof. reflexivity. Qed.

  Lemma vlen_pos v : core_value v = true -> 1 <= vlen v.
  Proof.
    intros Hc. destruct (core_head 0 v Hc) as (x & r & E & _). unfold vlen. rewrite E. cbn. lia.
  Qed.

  Lemma case_scalar k s : Pv (VScalar k s).
  Proof.
    intros _. apply (wrap_core _ 1); [|reflexivity].
    intros off Ha c o fuel Hw Hf Hne. cbn [flat_value] in Ha.
    destruct fuel as [|f]; [lia|].
    assert (Hs : spec_scalar c s <> Err EC_UNFIT).
    { unfold spec_core in Hne. destruct c; try exact Hne; discriminate. }
    rewrite (de_scalar _ _ _ _ _ o f Ha Hw Hs). unfold spec_core. now destruct c.
  Qed.

  Lemma case_object fs tl : Pfs fs -> Pvs tl -> Pv (VObject fs tl).
  Proof.
    intros Hfs _ Hc. destruct tl; [|discriminate]. cbn [core_value] in Hc.
    apply (wrap_core _ (cv (VObject fs VNil))); [|reflexivity].
    intros off Ha c o fuel Hw Hf Hne.
    destruct fuel as [|f]; [cbn [cv] in Hf; lia|].
    cbn [flat_value] in Ha. cbn [app length values_nonempty] in Ha.
    set (body := flat_fields false (S off) fs) in *.
    set (e := S off + length body + 0) in *.
    pose proof (tget_at _ _ _ _ Ha) as Hg.
    assert (Hbody : at_ t (S off) body) by (apply at_cons in Ha; now apply at_app_l in Ha).
    assert (He : e = S off + fslen false fs) by (subst e body; rewrite flat_fields_len; lia).
    assert (Hrem : rem_empty t e).
    { right. exists off, e, false. split; [|now apply at_nth in Ha].
      apply at_cons in Ha. apply at_app_r in Ha. apply at_nth in Ha.
      replace e with (S off + length body) by (subst e; lia). exact Ha. }
    assert (Hvis : forall h, h = THMap \/ h = THStruct false ->
              tape_visit decode pf t h (kind o off) = Ok (TVMap (S off) e)).
    { intros h [-> | ->]; destruct o; cbn [kind tape_visit tv_map]; rewrite Hg; reflexivity. }
    unfold spec_core in *.
    destruct c; try discriminate Hw; try (now destruct Hne); try (apply de_ign).
    - (* ShMap *)
      cbn [wmode_core] in *. rewrite (de_map f _ _ (S off) e (WMap c)); [|apply Hvis; auto|reflexivity].
      rewrite (Hfs Hc (S off) e Hbody He Hrem (WMap c) (acc0 (WMap c)) f eq_refl).
      + reflexivity.
      + cbn [cv shape_size wm_size] in *. lia.
      + intros E. rewrite E in Hne. now apply Hne.
    - (* ShStruct *)
      cbn [wmode_core] in *. rewrite (de_map f _ _ (S off) e (WStruct token fields)); [|apply Hvis; auto|reflexivity].
      rewrite (Hfs Hc (S off) e Hbody He Hrem (WStruct token fields) (acc0 (WStruct token fields)) f eq_refl).
      + reflexivity.
      + cbn [cv wm_size] in *. lia.
      + intros E. rewrite E in Hne. now apply Hne.
  Qed.

  Lemma case_array items : Pvs items -> Pv (VArray items).
  Proof.
    intros Hvs Hc. cbn [core_value] in Hc.
    apply (wrap_core _ (cv (VArray items))); [|reflexivity].
    intros off Ha c o fuel Hw Hf Hne.
    destruct fuel as [|f]; [cbn [cv] in Hf; lia|].
    cbn [flat_value] in Ha.
    set (body := flat_values (S off) items) in *.
    set (e := S off + length body) in *.
    pose proof (tget_at _ _ _ _ Ha) as Hg.
    assert (Hbody : at_ t (S off) body) by (apply at_cons in Ha; now apply at_app_l in Ha).
    assert (He : e = S off + vslen items) by (subst e body; rewrite flat_values_len; lia).
    assert (Hvis : tape_visit decode pf t THSeq (kind o off) = Ok (TVSeq (S off) e)).
    { destruct o; cbn [kind tape_visit]; unfold tv_seq_at; rewrite Hg; reflexivity. }
    destruct (Hvs Hc (S off) e Hbody He) as [Hall Htup].
    unfold spec_core in *.
    destruct c; try discriminate Hw; try (now destruct Hne); try (apply de_ign).
    - rewrite (de_seq f c _ _ _ Hvis). rewrite Hall; [reflexivity | cbn [cv shape_size] in *; lia | now apply omap_unfit in Hne].
    - rewrite (de_tup f ss _ _ _ Hvis). rewrite Htup; [reflexivity | cbn [cv] in *; lia | now apply omap_unfit in Hne].
  Qed.

  Lemma case_fnil : Pfs FNil.
  Proof.
    intros _ ti en Ha -> Hrem m a fuel Hm Hf Hne. unfold fslen in *. cbn [flat_fields length] in *.
    rewrite Nat.add_0_r in *.
    destruct fuel as [|f]; [cbn [cfs] in Hf; lia|].
    rewrite twalk_eq, fields_next_end by lia. cbn [obind].
    pose proof (remainder_empty _ _ Hrem) as Hr. destruct (remainder t ti ti) as [rs re].
    rewrite Hr. reflexivity.
  Qed.

  Lemma wm_size_pos m : 1 <= wm_size m.
  Proof. destruct m; cbn; lia. Qed.

  Lemma case_fcons f fs : Pf f -> Pfs fs -> Pfs (FCons f fs).
  Proof.
    intros Hf Hfs Hc ti en Ha -> Hrem m a fuel Hm Hfu Hne.
    cbn [core_fields] in Hc. apply andb_prop in Hc as [Hcf Hcfs].
    destruct f as [k key op v| |]; try discriminate. cbn [core_field] in Hcf. cbn [Pf] in Hf.
    specialize (Hf Hcf).
    destruct fuel as [|fu]; [cbn [cfs] in Hfu; lia|].
    cbn [flat_fields] in Ha.
    set (vi := S ti + length (op_toks false op)) in *.
    assert (Hlen : length (flat_field false ti (Field k key op v)) = S (length (op_toks false op)) + vlen v).
    { cbn [flat_field length]. rewrite app_length, flat_value_len. lia. }
    assert (Hfl : fslen false (FCons (Field k key op v) fs) = S (length (op_toks false op)) + vlen v + fslen false fs).
    { unfold fslen at 1. cbn [flat_fields flat_field]. rewrite app_length. cbn [length].
      rewrite app_length, flat_value_len, flat_fields_len. lia. }
    pose proof (vlen_pos v Hcf) as Hvp.
    rewrite twalk_eq.
    rewrite (fields_next_field t ti _ k key op v _ Hcf Ha) by lia. cbn [obind key_info].
    rewrite fop_equal. fold vi.
    assert (Hv : at_ t vi (flat_value vi v)).
    { apply at_app_l in Ha. cbn [flat_field] in Ha. apply at_cons in Ha. apply at_app_r in Ha. exact Ha. }
    rewrite spec_fields_cons in *.
    set (rec2 := fun sh' (_ _ : unit) => omap (fun d => (d, tt)) (spec_v v sh' (Some (op_or_equal op)))) in *.
    assert (Hent : entry (trec fu) trec_op m a (cow_bytes (decode key)) (is_ok (to_u64 key)) (KOpVal (op_or_equal op) vi) tt
                 = entry rec2 (fun _ _ => Err EC_UNFIT) m a (cow_bytes (decode key)) (is_ok (to_u64 key)) tt tt).
    { apply entry_ext; auto.
      - intros sh' Hs Hn. unfold trec, rec2 in *. f_equal.
        apply (Hf vi Hv sh' (Some (op_or_equal op)) fu).
        + pose proof (wm_size_pos m). cbn [cfs cf] in Hfu. destruct Hs as [-> | Hs]; cbn [shape_size]; lia.
        + now apply omap_unfit in Hn.
      - intros E. rewrite E in Hne. now apply Hne. }
    rewrite Hent.
    destruct (entry rec2 _ m a _ _ tt tt) as [r| | | |] eqn:Er; cbn [obind] in *; try reflexivity.
    cbn [cfs cf] in Hfu.
    apply Hfs; auto; try (subst vi; lia).
    apply at_app_r in Ha. rewrite Hlen in Ha.
    replace (vi + vlen v) with (ti + (S (length (op_toks false op)) + vlen v)) by (subst vi; lia). exact Ha.
  Qed.

  Lemma case_vnil : Pvs VNil.
  Proof.
    intros _ ti en _ ->. unfold vslen. cbn [flat_values length]. rewrite Nat.add_0_r. split.
    - intros s fuel Hf _. destruct fuel as [|f]; [cbn [cvs] in Hf; lia|].
      rewrite seq_all_eq, Nat.ltb_irrefl. reflexivity.
    - intros ss fuel Hf _. destruct fuel as [|f]; [cbn [cvs] in Hf; lia|].
      rewrite seq_tup_eq, Nat.ltb_irrefl. destruct ss; reflexivity.
  Qed.

  Lemma case_vcons v vs : Pv v -> Pvs vs -> Pvs (VCons v vs).
  Proof.
    intros Hv Hvs Hc ti en Ha ->.
    cbn [core_values] in Hc. apply andb_prop in Hc as [Hcv Hcvs].
    specialize (Hv Hcv).
    cbn [flat_values] in Ha.
    assert (Hvl : vslen (VCons v vs) = vlen v + vslen vs).
    { unfold vslen at 1. cbn [flat_values]. now rewrite app_length, flat_value_len, flat_values_len. }
    pose proof (vlen_pos v Hcv) as Hvp.
    assert (Ha1 : at_ t ti (flat_value ti v)) by now apply at_app_l in Ha.
    assert (Ha2 : at_ t (ti + vlen v) (flat_values (ti + vlen v) vs)).
    { apply at_app_r in Ha. now rewrite flat_value_len in Ha. }
    destruct (Hvs Hcvs (ti + vlen v) (ti + vslen (VCons v vs)) Ha2 ltac:(lia)) as [Hall Htup].
    pose proof (next_idx_values_value t ti v Hcv Ha1) as Hn.
    assert (Hlt : (ti <? ti + vslen (VCons v vs)) = true) by (apply Nat.ltb_lt; lia).
    split.
    - intros s fuel Hf Hne. destruct fuel as [|f]; [cbn [cvs] in Hf; lia|].
      rewrite seq_all_eq, Hlt, Hn. rewrite spec_items_cons in *. cbn [obind] in *.
      pose proof (Hv ti Ha1 s None f) as Hd. cbn [kind] in Hd.
      rewrite Hd; [|cbn [cvs] in Hf; lia|intros E; rewrite E in Hne; now apply Hne].
      destruct (spec_v v s None) as [x| | | |]; cbn [obind] in *; try reflexivity.
      rewrite Hall; [reflexivity | cbn [cvs] in Hf; lia |].
      intros E. rewrite E in Hne. now apply Hne.
    - intros ss fuel Hf Hne. destruct fuel as [|f]; [cbn [cvs] in Hf; lia|].
      rewrite seq_tup_eq. rewrite spec_tuple_cons in *.
      destruct ss as [|s ss']; [now destruct Hne|].
      rewrite Hlt, Hn. cbn [obind].
      pose proof (Hv ti Ha1 s None f) as Hd. cbn [kind] in Hd.
      cbn [shape_size fold_right] in Hf.
      rewrite Hd; [|cbn [cvs] in Hf; lia|intros E; rewrite E in Hne; now apply Hne].
      destruct (spec_v v s None) as [x| | | |]; cbn [obind] in *; try reflexivity.
      rewrite Htup; [reflexivity | cbn [cvs shape_size] in *; lia |].
      intros E. rewrite E in Hne. now apply Hne.
  Qed.

  Lemma walk_all : (forall v, Pv v) /\ (forall f, Pf f) /\ (forall fs, Pfs fs) /\ (forall vs, Pvs vs).
  Proof.
    apply doc_mutind.
    - apply case_scalar.
    - intros fs Hfs tl Htl. now apply case_object.
    - apply case_array.
    - intros; intros Hc; discriminate.
    - intros; intros Hc; discriminate.
    - intros k key op v H. exact H.
    - intros; exact I.
    - intros; exact I.
    - apply case_fnil.
    - intros f Hf fs Hfs. now apply case_fcons.
    - apply case_vnil.
    - intros v Hv vs Hvs. now apply case_vcons.
  Qed.
End Main.

(* ------------------------------------------------------------------ root and default fuel *)
Lemma vlen_object fs : vlen (VObject fs VNil) = 2 + fslen false fs.
Proof. unfold vlen. cbn [flat_value length]. rewrite !app_length. cbn [length]. rewrite flat_fields_len. lia. Qed.
Lemma vlen_array items : vlen (VArray items) = 2 + vslen items.
Proof. unfold vlen. cbn [flat_value length]. rewrite !app_length. cbn [length]. rewrite flat_values_len. lia. Qed.
Lemma fslen_cons k key op v fs :
  fslen false (FCons (Field k key op v) fs) = S (length (op_toks false op)) + vlen v + fslen false fs.
Proof.
  unfold fslen at 1. cbn [flat_fields flat_field]. rewrite app_length. cbn [length].
  rewrite app_length, flat_value_len, flat_fields_len. lia.
Qed.
Lemma vslen_cons v vs : vslen (VCons v vs) = vlen v + vslen vs.
Proof. unfold vslen at 1. cbn [flat_values]. now rewrite app_length, flat_value_len, flat_values_len. Qed.

Lemma cost_bound :
  (forall v, core_value v = true -> cv v + 1 <= 2 * vlen v) /\
  (forall f, match f with Field _ _ _ v => core_value v = true -> cv v + 1 <= 2 * vlen v | _ => True end) /\
  (forall fs, core_fields fs = true -> cfs fs <= 2 * fslen false fs + 1) /\
  (forall vs, core_values vs = true -> cvs vs <= 2 * vslen vs + 1).
Proof.
  apply doc_mutind.
  - intros k s _. unfold vlen. cbn. lia.
  - intros fs Hfs tl _ Hc. destruct tl; [|discriminate]. cbn [core_value] in Hc.
    specialize (Hfs Hc). rewrite vlen_object. cbn [cv]. lia.
  - intros items Hvs Hc. cbn [core_value] in Hc. specialize (Hvs Hc). rewrite vlen_array. cbn [cv]. lia.
  - intros; discriminate.
  - intros; discriminate.
  - intros k key op v H. exact H.
  - intros; exact I.
  - intros; exact I.
  - intros _. unfold fslen. cbn. lia.
  - intros f Hf fs Hfs Hc. cbn [core_fields] in Hc. apply andb_prop in Hc as [H1 H2].
    destruct f as [k key op v| |]; try discriminate. cbn [core_field] in H1.
    specialize (Hf H1). specialize (Hfs H2). rewrite fslen_cons. cbn [cfs cf]. lia.
  - intros _. unfold vslen. cbn. lia.
  - intros v Hv vs Hvs Hc. cbn [core_values] in Hc. apply andb_prop in Hc as [H1 H2].
    specialize (Hv H1). specialize (Hvs H2). rewrite vslen_cons. cbn [cvs]. lia.
Qed.

Theorem tape_root_spec decode pf F sh d fuel :
  core_fields d = true -> cfs d + shape_size sh <= fuel ->
  spec_value decode pf F sh d <> Err EC_UNFIT ->
  de_root decode pf F (flatten d) fuel sh 0 (length (flatten d)) = spec_value decode pf F sh d.
Proof.
  intros Hc Hf Hne.
  pose proof (proj1 (proj2 (proj2 (walk_all decode pf F (flatten d)))) d Hc 0 (length (flatten d))) as H.
  assert (Hrem : rem_empty (flatten d) (length (flatten d))) by (left; apply nth_error_None; lia).
  specialize (H (at_root _) eq_refl Hrem).
  unfold spec_value, de_root in *.
  destruct sh; try (now destruct Hne); cbn [thint_of wmode_of wmode_core] in *.
  - rewrite H; auto. intros E. rewrite E in Hne. now apply Hne.
  - rewrite H; auto. intros E. rewrite E in Hne. now apply Hne.
Qed.

Theorem tape_path_spec_core decode pf F sh d :
  core_fields d = true -> fits decode pf F sh d ->
  deser_tape decode pf F sh (flatten d) = spec_value decode pf F sh d.
Proof.
  intros Hc Hfit. unfold deser_tape. apply tape_root_spec; auto.
  pose proof (proj1 (proj2 (proj2 cost_bound)) d Hc) as Hb.
  unfold tape_fuel. change (length (flatten d)) with (fslen false d). lia.
Qed.
