(* Proofs about Json (C16). *)
From JV Require Import Bytes Tables Scalar TextTok TapeWf Dom Json.
From JV.proofs Require Import DomProofs.
Require Import Lia.
Open Scope nat_scope.

(* ================================================================ the recursion is extensional *)
Section Ext.
  Variable dec : bytes -> bytes.
  Variable dbg : bool.
  Variable o : options.
  Variable t : ttape.
  Variables rec1 rec2 : nat -> outcome json.
  Hypothesis REC : forall v, rec1 v = rec2 v.

  Lemma ser_opvalue_ext : forall ov, ser_opvalue rec1 ov = ser_opvalue rec2 ov.
  Proof. intros [op v]. unfold ser_opvalue. cbn [fst snd]. rewrite REC. reflexivity. Qed.

  Lemma omapM_ext : forall {A B} (f g : A -> outcome B) l, (forall a, f a = g a) -> omapM f l = omapM g l.
  Proof. induction l; intro H; cbn [omapM]; auto. rewrite H, IHl; auto. Qed.

  Lemma ser_single_ext : forall k op v, ser_single dec t rec1 k op v = ser_single dec t rec2 k op v.
  Proof. intros. unfold ser_single. rewrite ser_opvalue_ext. reflexivity. Qed.

  Lemma ser_window_ext : forall n l, length l <= n -> ser_window dec t rec1 l = ser_window dec t rec2 l.
  Proof.
    induction n; intros l L.
    - destruct l; [reflexivity | cbn in L; lia].
    - destruct l as [|a rest]; [reflexivity|]. cbn [length] in L.
      cbn [ser_window].
      assert (R1 : ser_window dec t rec1 rest = ser_window dec t rec2 rest) by (apply IHn; lia).
      destruct (value_token t a) as [ka| | | |]; cbn [obind]; auto.
      destruct rest as [|ob [|v rest']].
      + destruct ka; auto; rewrite ser_opvalue_ext; reflexivity.
      + destruct ka; auto; rewrite ser_opvalue_ext, R1; reflexivity.
      + assert (R2 : ser_window dec t rec1 rest' = ser_window dec t rec2 rest')
          by (apply IHn; cbn [length] in L; lia).
        destruct ka; auto;
          (destruct (value_token t ob) as [kb| | | |]; cbn [obind]; auto;
           destruct kb; rewrite ?ser_single_ext, ?ser_opvalue_ext, ?R1, ?R2; reflexivity).
  Qed.

  Lemma ser_inner_array_ext : forall r, ser_inner_array dec t rec1 r = ser_inner_array dec t rec2 r.
  Proof.
    intro r. unfold ser_inner_array. destruct (values_all t r); cbn [obind]; auto.
    rewrite (ser_window_ext (length a)); auto.
  Qed.

  Lemma ser_array_builder_ext : forall r, ser_array_builder dec o t rec1 r = ser_array_builder dec o t rec2 r.
  Proof. intro r. unfold ser_array_builder. rewrite ser_inner_array_ext. reflexivity. Qed.

  Lemma ser_remainder_ext : forall a b, ser_remainder dec t rec1 a b = ser_remainder dec t rec2 a b.
  Proof. intros. unfold ser_remainder. destruct (array_is_empty _ _); cbn [obind]; auto. rewrite ser_inner_array_ext. reflexivity. Qed.

  Lemma ser_object_builder_ext : forall r,
    ser_object_builder dec dbg o t rec1 r = ser_object_builder dec dbg o t rec2 r.
  Proof.
    intro r. unfold ser_object_builder.
    destruct (duplicate_keys o).
    - destruct (field_groups dbg t r) as [[[gs gh] last]| | | |]; cbn [obind]; auto.
      rewrite (omapM_ext (ser_group dec rec1) (ser_group dec rec2)).
      + rewrite ser_remainder_ext. reflexivity.
      + intro g. unfold ser_group. destruct (g_vals g) as [|one [|two more]];
          rewrite ?ser_opvalue_ext; auto;
          rewrite (omapM_ext (ser_opvalue rec1) (ser_opvalue rec2)); auto using ser_opvalue_ext.
    - destruct (fields_all dbg t r) as [[fs last]| | | |]; cbn [obind]; auto.
      rewrite (omapM_ext (ser_field dec rec1) (ser_field dec rec2)).
      + rewrite ser_remainder_ext. reflexivity.
      + intro f. unfold ser_field. rewrite ser_opvalue_ext. reflexivity.
    - destruct (fields_all dbg t r) as [[fs last]| | | |]; cbn [obind]; auto.
      rewrite (omapM_ext (ser_field_pair dec rec1) (ser_field_pair dec rec2)).
      + rewrite ser_remainder_ext. reflexivity.
      + intro f. unfold ser_field_pair. rewrite ser_opvalue_ext. reflexivity.
  Qed.

  Lemma ser_value_step_ext : forall v,
    ser_value_step dec dbg o t rec1 v = ser_value_step dec dbg o t rec2 v.
  Proof.
    intro v. unfold ser_value_step.
    destruct (value_token t v) as [k| | | |]; cbn [obind]; auto.
    destruct k; auto.
    - destruct (unwrap P_read_array_unwrap (read_array t v)); cbn [obind]; auto. apply ser_array_builder_ext.
    - destruct (unwrap P_read_object_unwrap (read_object t v)); cbn [obind]; auto. apply ser_object_builder_ext.
    - destruct (unwrap P_read_array_unwrap (read_array t v)); cbn [obind]; auto.
      destruct (Nat.ltb (a_start a) (a_end a)); auto.
      destruct (next_idx_values t (a_start a)) as [n1| | | |]; cbn [obind]; auto.
      destruct (Nat.ltb n1 (a_end a)); auto. rewrite REC. reflexivity.
  Qed.
End Ext.

(* ================================================================ pretty is irrelevant *)
(* [ser] reads only the fields duplicate_keys and type_narrowing of the options: both sides are
   convertible once the record is opened *)
Lemma ser_value_pretty : forall dec dbg o t b fuel v,
  ser_value dec dbg (with_pretty b o) t fuel v = ser_value dec dbg o t fuel v.
Proof. intros dec dbg [p d n] t b fuel v. reflexivity. Qed.

Theorem pretty_irrelevant : forall dec dbg o t b,
  (forall v, json_value dec dbg (with_pretty b o) t v = json_value dec dbg o t v) /\
  (forall r, json_object dec dbg (with_pretty b o) t r = json_object dec dbg o t r) /\
  (forall r, json_array dec dbg (with_pretty b o) t r = json_array dec dbg o t r).
Proof. intros dec dbg [p d n] t b. repeat split; intros; reflexivity. Qed.

(* ================================================================ totality *)
(* index of the last token of the value that starts at [a] *)
Definition vend (t : ttape) (a : nat) : nat :=
  match tget t a with
  | Some (TArray e _) | Some (TObject e _) => e
  | Some (THeader _) =>
      match tget t (S a) with
      | Some (TArray e _) | Some (TObject e _) => e
      | _ => a
      end
  | _ => a
  end.
Definition vspan (t : ttape) (a : nat) : nat := vend t a - a.

Lemma value_end_vend : forall t u n, value_end t u = Some n -> n = S (vend t u).
Proof.
  intros t u n H. unfold value_end in H. unfold vend.
  destruct (tget t u) as [k|]; try discriminate.
  destruct k; cbn [is_key] in H; try discriminate; try (inversion H; reflexivity).
  destruct (tget t (S u)) as [k'|]; try discriminate.
  destruct k'; try discriminate; inversion H; reflexivity.
Qed.

Lemma vend_lt_len : forall t a, conts_ok t -> a < length t -> vend t a < length t.
Proof.
  intros t a W L. unfold vend. destruct (tget t a) as [k|] eqn:K; auto.
  destruct k; auto.
  - destruct (cont_lt t a _ e W K eq_refl); lia.
  - destruct (cont_lt t a _ e W K eq_refl); lia.
  - destruct (tget t (S a)) as [k'|] eqn:K'; auto. destruct k'; auto.
    + destruct (cont_lt t (S a) _ e W K' eq_refl); lia.
    + destruct (cont_lt t (S a) _ e W K' eq_refl); lia.
Qed.

Lemma vend_ge_len : forall t a, length t <= a -> vend t a = a.
Proof. intros t a L. unfold vend. replace (tget t a) with (@None ttok); auto. symmetry. apply nth_error_None. lia. Qed.

Lemma dyck_vend : forall t a e, conts_ok t -> dyck t a e -> a < e -> vend t a < e.
Proof.
  intros t a e W D L. unfold vend. destruct (tget t a) as [k|] eqn:K; auto.
  destruct k; auto.
  - destruct (dyck_inv_cont t a e _ e0 D L K eq_refl) as (_ & A & _). exact A.
  - destruct (dyck_inv_cont t a e _ e0 D L K eq_refl) as (_ & A & _). exact A.
  - destruct (dyck_inv_header t a e s D L K) as (D1 & L1 & k' & K' & C'). rewrite K'.
    destruct k'; try discriminate.
    + destruct (dyck_inv_cont t (S a) e _ e0 D1 L1 K' eq_refl) as (_ & A & _). exact A.
    + destruct (dyck_inv_cont t (S a) e _ e0 D1 L1 K' eq_refl) as (_ & A & _). exact A.
Qed.

Lemma items_dyck : forall t s e l, items t s e l -> dyck t s e -> forall a, In a l -> dyck t a e /\ a < e.
Proof.
  induction 1; intros D a IN; cbn in IN; try contradiction.
  - assert (D1 : dyck t (S i) e).
    { inversion D; subst; try lia; auto.
      rewrite H in H3. inversion H3; subst. rewrite H0 in H4. discriminate. }
    destruct IN as [<- | IN]; auto.
  - destruct (dyck_inv_cont t i e k e' D ltac:(lia) H H0) as (_ & _ & _ & _ & D2).
    destruct IN as [<- | IN]; [split; auto; lia | auto].
Qed.

Lemma fields_spec_vals : forall t i e r l, fields_spec t i e r l ->
  forall f, In f l -> i < f_val f /\ vend t (f_val f) < e.
Proof.
  induction 1; intros f IN; cbn in IN; try contradiction.
  destruct IN as [<- | IN].
  - cbn [f_val]. pose proof (value_ind_gt t i). pose proof (value_end_vend _ _ _ H1). split; lia.
  - destruct (IHfields_spec f IN). split; auto. lia.
Qed.

Lemma omapM_total : forall {A B} (f : A -> outcome B) l,
  (forall x, In x l -> exists y, f x = Ok y) -> exists ys, omapM f l = Ok ys.
Proof.
  induction l; intro H; cbn [omapM]; eauto.
  destruct (H a (or_introl eq_refl)) as [y Y]. rewrite Y. cbn [obind].
  destruct IHl as [ys YS]; [intros; apply H; right; auto|]. rewrite YS. cbn [obind]. eauto.
Qed.

Section Total.
  Variable dec : bytes -> bytes.
  Variable dbg : bool.
  Variable o : options.
  Variable t : ttape.
  Hypothesis WF : tape_wf t.
  Variable rec : nat -> outcome json.

  Lemma WFC : conts_ok t.
  Proof. destruct WF as (_ & _ & W & _). exact W. Qed.

  Lemma opvalue_total : forall op v, (exists j, rec v = Ok j) -> exists j, ser_opvalue rec (op, v) = Ok j.
  Proof. intros op v [j J]. unfold ser_opvalue. cbn [fst snd]. rewrite J. destruct op; cbn [obind]; eauto. Qed.

  Lemma value_token_ok : forall a, a < length t -> exists k, value_token t a = Ok k /\ tget t a = Some k.
  Proof.
    intros a L. destruct (tget t a) as [k|] eqn:K.
    - exists k. split; auto. unfold value_token. apply tok_at_some. exact K.
    - apply nth_error_None in K. lia.
  Qed.

  Lemma single_total : forall a op v, a < length t -> (exists j, rec v = Ok j) ->
    exists j, ser_single dec t rec a op v = Ok j.
  Proof.
    intros a op v L R. unfold ser_single.
    destruct (value_token_ok a L) as (k & VT & _).
    assert (exists x, match read_str dec t a with Ok x => Ok x | Err _ => Ok s_invalid_key | other => other end = Ok x) as [x X].
    { unfold read_str. rewrite VT. cbn [obind]. destruct k; eauto. }
    rewrite X. cbn [obind].
    destruct (opvalue_total (if op_is_equal op then None else Some op) v R) as [j J]. rewrite J. cbn [obind]. eauto.
  Qed.

  Lemma window_total : forall n l, length l <= n ->
    (forall a, In a l -> a < length t /\ exists j, rec a = Ok j) ->
    exists js, ser_window dec t rec l = Ok js.
  Proof.
    induction n; intros l L H.
    - destruct l; [cbn; eauto | cbn in L; lia].
    - destruct l as [|a rest]; [cbn; eauto|]. cbn [length] in L.
      destruct (H a (or_introl eq_refl)) as [LA RA].
      destruct (value_token_ok a LA) as (ka & VA & _).
      assert (IR : exists js, ser_window dec t rec rest = Ok js).
      { apply IHn; [lia | intros; apply H; right; auto]. }
      destruct IR as [jr JR]. destruct (opvalue_total None a RA) as [ja JA].
      assert (PLAIN : exists js, (do j <- ser_opvalue rec (None, a); do js <- ser_window dec t rec rest; Ok (j :: js)) = Ok js).
      { rewrite JA. cbn [obind]. rewrite JR. cbn [obind]. eauto. }
      cbn [ser_window]. rewrite VA. cbn [obind].
      destruct rest as [|ob [|v rest']].
      + destruct ka; eauto.
      + destruct ka; eauto.
      + destruct (H ob (or_intror (or_introl eq_refl))) as [LO _].
        destruct (H v (or_intror (or_intror (or_introl eq_refl)))) as [_ RV].
        destruct (value_token_ok ob LO) as (kb & VB & _).
        assert (IR2 : exists js, ser_window dec t rec rest' = Ok js).
        { apply IHn; [cbn [length] in L; lia | intros; apply H; right; right; right; auto]. }
        destruct IR2 as [jr2 JR2].
        assert (SINGLE : forall op, exists js, (do j <- ser_single dec t rec a op v; do js <- ser_window dec t rec rest'; Ok (j :: js)) = Ok js).
        { intro op. destruct (single_total a op v LA RV) as [j1 J1]. rewrite J1. cbn [obind]. rewrite JR2. cbn [obind]. eauto. }
        destruct ka; eauto; rewrite VB; cbn [obind]; destruct kb; eauto.
  Qed.

  Lemma inner_array_total : forall r, arr_ok t r ->
    (forall a, a_start r <= a -> vend t a < a_end r -> exists j, rec a = Ok j) ->
    exists j, ser_inner_array dec t rec r = Ok j.
  Proof.
    intros r A H. destruct (values_agree t r A) as (l & I & VA & _).
    unfold ser_inner_array. rewrite VA. cbn [obind].
    destruct A as [D LE].
    destruct (window_total (length l) l (le_n _)) as [js JS].
    - intros a IN. pose proof (items_in _ _ _ _ I a IN). split; [lia|].
      destruct (items_dyck _ _ _ _ I D a IN) as [DA LA].
      apply H; [lia|]. apply dyck_vend; auto using WFC.
    - rewrite JS. cbn [obind]. eauto.
  Qed.

  Lemma array_builder_total : forall r, arr_ok t r ->
    (forall a, a_start r <= a -> vend t a < a_end r -> exists j, rec a = Ok j) ->
    exists j, ser_array_builder dec o t rec r = Ok j.
  Proof.
    intros r A H. unfold ser_array_builder. destruct (inner_array_total r A H) as [j J]. rewrite J. cbn [obind].
    destruct (duplicate_keys o); eauto.
  Qed.

  Lemma remainder_total : forall r l last, obj_node t r -> fields_all dbg t r = Ok (l, last) ->
    o_start r <= last <= o_end r ->
    (forall a, o_start r <= a -> vend t a < o_end r -> exists j, rec a = Ok j) ->
    exists x, ser_remainder dec t rec last (o_end r) = Ok x.
  Proof.
    intros r l last N FA LB H. destruct (remainder_is_tail dbg t r l last WF N FA) as (R & A & _).
    unfold ser_remainder. rewrite R.
    destruct (values_agree t _ A) as (vs & _ & _ & _ & EM & _). rewrite EM. cbn [obind].
    destruct (Nat.eqb (length vs) 0); eauto.
    destruct (inner_array_total _ A) as [j J].
    - intros a S E. unfold tail_reader in S, E.
      destruct (Nat.ltb last (o_end r)) eqn:LT; cbn [a_start a_end] in S, E; apply H; auto; lia.
    - rewrite J. cbn [obind]. eauto.
  Qed.

  Lemma object_builder_total : forall r, obj_node t r ->
    (forall a, o_start r <= a -> vend t a < o_end r -> exists j, rec a = Ok j) ->
    exists j, ser_object_builder dec dbg o t rec r = Ok j.
  Proof.
    intros r N H.
    destruct (fields_agree dbg t r WF N) as (l & last & S0 & FA & _).
    destruct (groups_partition dbg t r WF N) as (l' & last' & FA' & FG).
    rewrite FA in FA'. inversion FA'; subst l' last'. clear FA'.
    pose proof (fields_spec_bounds _ _ _ _ _ S0) as B.
    destruct (remainder_total r l last N FA ltac:(lia) H) as [rem REM].
    assert (OV : forall f, In f l -> exists j, ser_opvalue rec (f_op f, f_val f) = Ok j).
    { intros f IN. apply opvalue_total. destruct (fields_spec_vals _ _ _ _ _ S0 f IN). apply H; auto. lia. }
    unfold ser_object_builder. destruct (duplicate_keys o).
    - rewrite FG. cbn [obind].
      destruct (omapM_total (ser_group dec rec) (groups_spec l)) as [es ES].
      + intros g IN. unfold groups_spec in IN. apply in_map_iff in IN. destruct IN as (f0 & <- & IN0).
        cbn [g_vals g_key].
        assert (ALL : forall ov, In ov (vals_of (field_kb f0) l) -> exists j, ser_opvalue rec ov = Ok j).
        { intros ov IV. unfold vals_of in IV. apply in_map_iff in IV. destruct IV as (f1 & <- & IF).
          apply filter_In in IF. apply OV. apply IF. }
        unfold ser_group. cbn [g_vals g_key].
        destruct (vals_of (field_kb f0) l) as [|one [|two more]] eqn:VS.
        * cbn [omapM obind]. eauto.
        * destruct (ALL one (or_introl eq_refl)) as [j J]. rewrite J. cbn [obind]. eauto.
        * destruct (omapM_total (ser_opvalue rec) (one :: two :: more) ALL) as [js JS]. rewrite JS. cbn [obind]. eauto.
      + rewrite ES. cbn [obind]. rewrite REM. cbn [obind]. eauto.
    - rewrite FA. cbn [obind].
      destruct (omapM_total (ser_field dec rec) l) as [es ES].
      + intros f IN. unfold ser_field. destruct (OV f IN) as [j J]. rewrite J. cbn [obind]. eauto.
      + rewrite ES. cbn [obind]. rewrite REM. cbn [obind]. eauto.
    - rewrite FA. cbn [obind].
      destruct (omapM_total (ser_field_pair dec rec) l) as [es ES].
      + intros f IN. unfold ser_field_pair. destruct (OV f IN) as [j J]. rewrite J. cbn [obind]. eauto.
      + rewrite ES. cbn [obind]. rewrite REM. cbn [obind]. eauto.
  Qed.
End Total.

Lemma serialize_scalar_total : forall dec t v s x,
  read_scalar t v = Ok s -> read_str dec t v = Ok x ->
  exists j, serialize_scalar dec t v = Ok j.
Proof.
  intros dec t v s x RS RX. unfold serialize_scalar. rewrite RS, RX. cbn [unwrap obind].
  destruct (to_bool s); eauto; destruct (to_i64 s), (to_u64 s), (to_f64 s); cbn [obind]; eauto.
Qed.

Lemma step_total : forall dec dbg o t rec v, tape_wf t -> v < length t ->
  (forall a, a < length t -> vspan t a < vspan t v -> exists j, rec a = Ok j) ->
  exists j, ser_value_step dec dbg o t rec v = Ok j.
Proof.
  intros dec dbg o t rec v WF L H. pose proof (WFC t WF) as W.
  destruct (value_token_ok t v L) as (k & VT & K).
  assert (INSIDE : forall a e, vend t v = e -> v < e -> v < a -> vend t a <= e -> exists j, rec a = Ok j).
  { intros a e VE LE LA VA.
    destruct (Nat.le_gt_cases (length t) a) as [G | G].
    - rewrite vend_ge_len in VA by auto. pose proof (vend_lt_len t v W L). lia.
    - apply H; auto. unfold vspan. rewrite VE.
      assert (a <= vend t a).
      { unfold vend. destruct (tget t a) as [ka|] eqn:KA; auto. destruct ka; auto.
        - destruct (cont_lt t a _ e0 W KA eq_refl); lia.
        - destruct (cont_lt t a _ e0 W KA eq_refl); lia.
        - destruct (tget t (S a)) as [kb|] eqn:KB; auto. destruct kb; auto.
          + destruct (cont_lt t (S a) _ e0 W KB eq_refl); lia.
          + destruct (cont_lt t (S a) _ e0 W KB eq_refl); lia. }
      lia. }
  unfold ser_value_step. rewrite VT. cbn [obind].
  destruct k; eauto.
  - (* array *)
    destruct (cont_lt t v _ e W K eq_refl) as (A & B & E & DD).
    unfold read_array. rewrite VT. cbn [obind unwrap].
    apply array_builder_total; auto.
    + split; cbn [a_start a_end]; auto. lia.
    + cbn [a_start a_end]. intros a SA EA. apply (INSIDE a e); try lia. unfold vend. rewrite K. reflexivity.
  - (* object *)
    destruct (cont_lt t v _ e W K eq_refl) as (A & B & E & DD).
    unfold read_object. rewrite VT. cbn [obind unwrap].
    apply object_builder_total; auto.
    + eapply on_obj; eauto.
    + cbn [o_start o_end]. intros a SA EA. apply (INSIDE a e); try lia. unfold vend. rewrite K. reflexivity.
  - (* unquoted *)
    assert (RS : read_scalar t v = Ok s) by (unfold read_scalar; rewrite VT; reflexivity).
    assert (RX : read_str dec t v = Ok (dec s)) by (unfold read_str; rewrite VT; reflexivity).
    destruct (type_narrowing o); try (eapply serialize_scalar_total; eauto).
    rewrite RX. cbn [unwrap obind]. eauto.
  - (* quoted *)
    assert (RS : read_scalar t v = Ok s) by (unfold read_scalar; rewrite VT; reflexivity).
    assert (RX : read_str dec t v = Ok (dec s)) by (unfold read_str; rewrite VT; reflexivity).
    destruct (type_narrowing o); try (eapply serialize_scalar_total; eauto);
      rewrite RX; cbn [unwrap obind]; eauto.
  - (* header *)
    pose proof (W v L) as C. unfold cont_ok in C. rewrite K in C.
    destruct (tget t (S v)) as [k'|] eqn:K'; try contradiction.
    assert (exists e, container_end k' = Some e) as [e CE] by (destruct k'; try discriminate; cbn; eauto).
    destruct (cont_lt t (S v) _ e W K' CE) as (A & B & E & DD).
    assert (NI : next_idx t (S v) = Ok (S e)).
    { rewrite (next_idx_unfold _ _ _ K'). destruct k'; try discriminate; inversion CE; reflexivity. }
    unfold read_array. rewrite VT. cbn [obind]. rewrite NI. cbn [obind unwrap a_start a_end].
    replace (Nat.ltb v (S e)) with true by (symmetry; apply Nat.ltb_lt; lia).
    rewrite (next_idx_values_one _ _ _ K eq_refl). cbn [obind].
    replace (Nat.ltb (S v) (S e)) with true by (symmetry; apply Nat.ltb_lt; lia).
    rewrite (next_idx_values_cont _ _ _ _ K' CE). cbn [obind].
    unfold read_str. rewrite VT. cbn [obind unwrap].
    destruct (INSIDE (S v) e) as [j J]; try lia.
    + unfold vend. rewrite K, K'. destruct k'; try discriminate; inversion CE; reflexivity.
    + unfold vend. rewrite K'. destruct k'; try discriminate; inversion CE; lia.
    + rewrite J. cbn [obind]. eauto.
Qed.

Lemma ser_value_total_fuel : forall dec dbg o t, tape_wf t ->
  forall fuel v, v < length t -> vspan t v < fuel -> exists j, ser_value dec dbg o t fuel v = Ok j.
Proof.
  intros dec dbg o t WF. induction fuel; intros v L S; [lia|].
  cbn [ser_value]. apply step_total; auto.
  intros a LA SA. apply IHfuel; auto. lia.
Qed.

Lemma ser_value_total : forall dec dbg o t, tape_wf t ->
  forall v, v < length t -> exists j, ser_value dec dbg o t (ser_fuel t) v = Ok j.
Proof.
  intros dec dbg o t WF v L. apply ser_value_total_fuel; auto.
  unfold vspan, ser_fuel. pose proof (vend_lt_len t v (WFC t WF) L). lia.
Qed.

(* json_total: the three entry points never panic, never run out of fuel, on any well-formed tape,
   for all options, encodings and build profiles *)
Theorem json_value_total : forall dec dbg o t v, tape_wf t -> v < length t ->
  exists j, json_value dec dbg o t v = Ok j.
Proof.
  intros dec dbg o t v WF L. unfold json_value.
  destruct (value_token_ok t v L) as (k & VT & K).
  assert (exists n, value_tokens_len t v = Ok n) as [n N].
  { unfold value_tokens_len. rewrite VT. cbn [obind].
    destruct k; eauto; destruct (cont_lt t v _ e (WFC t WF) K eq_refl) as (A & _); unfold sub_usize;
      replace (Nat.ltb e v) with false by (symmetry; apply Nat.ltb_ge; lia); cbn [obind];
      replace (Nat.ltb (e - v) 1) with false by (symmetry; apply Nat.ltb_ge; lia); eauto. }
  rewrite N. cbn [obind]. apply ser_value_total; auto.
Qed.

Theorem json_object_total : forall dec dbg o t r, tape_wf t -> obj_node t r ->
  exists j, json_object dec dbg o t r = Ok j.
Proof.
  intros dec dbg o t r WF N. unfold json_object.
  destruct (obj_node_facts t r WF N) as (D & L & _). pose proof (dyck_le _ _ _ D).
  unfold object_tokens_len, sub_usize.
  replace (Nat.ltb (o_end r) (o_start r)) with false by (symmetry; apply Nat.ltb_ge; lia). cbn [obind].
  apply object_builder_total; auto.
  intros a SA EA. apply ser_value_total; auto.
  destruct (Nat.le_gt_cases (length t) a) as [G | G]; auto. rewrite vend_ge_len in EA by auto. lia.
Qed.

Theorem json_array_total : forall dec dbg o t r, tape_wf t -> arr_ok t r ->
  exists j, json_array dec dbg o t r = Ok j.
Proof.
  intros dec dbg o t r WF A. unfold json_array.
  destruct A as [D L]. pose proof (dyck_le _ _ _ D).
  unfold array_tokens_len, sub_usize.
  replace (Nat.ltb (a_end r) (a_start r)) with false by (symmetry; apply Nat.ltb_ge; lia). cbn [obind].
  apply array_builder_total; auto; [split; auto|].
  intros a SA EA. apply ser_value_total; auto.
  destruct (Nat.le_gt_cases (length t) a) as [G | G]; auto. rewrite vend_ge_len in EA by auto. lia.
Qed.

(* ================================================================ narrowing *)
Lemma is_digit_range : forall c, is_digit c = true -> (48 <= c <= 57)%N.
Proof. intros c H. unfold is_digit in H. apply andb_true_iff in H. destruct H. apply N.leb_le in H, H0. lia. Qed.

Lemma to_u64_t2_digit_head : forall c data, is_digit c = true ->
  to_u64_t2 (c :: data) 0 = to_u64_t2 data (c - 48)%N.
Proof.
  intros c data D. cbn [to_u64_t2]. rewrite D. pose proof (is_digit_range c D).
  unfold overflow_mul_add. cbn [N.mul].
  replace (U64_LIM <=? 0)%N with false by reflexivity.
  replace (0 mod U64_LIM)%N with 0%N by reflexivity. cbn [N.add orb].
  replace (U64_LIM <=? c - 48)%N with false; auto.
  symmetry. apply N.leb_gt. unfold U64_LIM. lia.
Qed.

Lemma to_u64_t2_nondigit_head : forall c data start, is_digit c = false ->
  to_u64_t2 (c :: data) start = Ok (start, c :: data).
Proof. intros. cbn [to_u64_t2]. rewrite H. reflexivity. Qed.

(* whenever the integer conversion and the float conversion both succeed, the integer is one that
   binary64 represents exactly: |x| <= 2^53 - 1 *)
Ltac fin_guard G val :=
  clear - G; apply N.ltb_ge in G; apply N2Z.inj_le in G; pose proof (N2Z.is_nonneg val);
  destruct (Z.of_N val); cbn [Z.mul Z.abs Pos.mul Z.opp] in *; lia.

Lemma i64_f64_exact : forall s x b, to_i64 s = Ok x -> to_f64 s = Ok b ->
  (Z.abs x <= Z.of_N f64_int_guard)%Z.
Proof.
  intros s x b HI HF. unfold to_i64, to_i64_t in HI. unfold to_f64 in HF.
  destruct s as [|c data]; try discriminate.
  destruct (is_digit c) eqn:DC.
  - (* leading digit *)
    pose proof (is_digit_range c DC) as R.
    replace (c =? 45)%N with false in * by (symmetry; apply N.eqb_neq; lia).
    cbn [orb] in HI. rewrite DC in HF.
    destruct (to_u64_t2 data (c - 48)%N) as [[val rest]| | | |]; cbn [obind] in *; try discriminate.
    destruct (val <=? I64_MAX)%N; try discriminate. cbn [obind] in HI.
    destruct rest; try discriminate. inversion HI; subst x.
    destruct (f64_int_guard <? val)%N eqn:G; try discriminate.
    fin_guard G val.
  - cbn [orb] in HI. destruct (c =? 45)%N eqn:C45.
    + (* minus *)
      apply N.eqb_eq in C45. subst c. cbn [orb] in HI.
      destruct data as [|c1 data1]; try discriminate.
      destruct (is_digit c1) eqn:D1.
      * rewrite (to_u64_t2_digit_head c1 data1 D1) in HI.
        destruct (to_u64_t2 data1 (c1 - 48)%N) as [[val rest]| | | |]; cbn [obind] in *; try discriminate.
        destruct (val <=? I64_MAX)%N; try discriminate. cbn [obind] in HI.
        destruct rest; try discriminate. inversion HI; subst x.
        destruct (f64_int_guard <? val)%N eqn:G; try discriminate.
        fin_guard G val.
      * rewrite (to_u64_t2_nondigit_head c1 data1 _ D1) in HI. cbn [obind] in HI.
        replace (0 <=? I64_MAX)%N with true in HI by reflexivity. cbn [obind] in HI. discriminate.
    + destruct (c =? 43)%N eqn:C43; cbn [orb] in HI; try discriminate.
      apply N.eqb_eq in C43. subst c.
      replace (43 =? 45)%N with false in HF by reflexivity. cbv beta iota in HF. rewrite DC in HF.
      replace (43 =? 46)%N with false in HF by reflexivity. replace (43 =? 43)%N with true in HF by reflexivity.
      destruct (to_u64_t2 data 0%N) as [[val rest]| | | |]; cbn [obind] in *; try discriminate.
      destruct (val <=? I64_MAX)%N; try discriminate. cbn [obind] in HI.
      destruct rest; try discriminate. inversion HI; subst x.
      destruct (f64_int_guard <? val)%N eqn:G; try discriminate.
      fin_guard G val.
Qed.

Lemma u64_f64_exact : forall s n b, to_u64 s = Ok n -> to_f64 s = Ok b -> (n <= f64_int_guard)%N.
Proof.
  intros s n b HU HF. unfold to_u64 in HU. unfold to_f64 in HF.
  destruct s as [|c data]; try discriminate.
  destruct (is_digit c) eqn:DC.
  - pose proof (is_digit_range c DC) as R.
    replace (c =? 45)%N with false in * by (symmetry; apply N.eqb_neq; lia).
    cbn [orb] in HU. rewrite DC in HF.
    destruct (to_u64_t2 data (c - 48)%N) as [[val rest]| | | |]; cbn [obind] in *; try discriminate.
    destruct rest; try discriminate. inversion HU; subst n.
    destruct (f64_int_guard <? val)%N eqn:G; try discriminate. apply N.ltb_ge in G. exact G.
  - cbn [orb] in HU. destruct (c =? 43)%N eqn:C43; try discriminate.
    apply N.eqb_eq in C43. subst c.
    replace (43 =? 45)%N with false in HF by reflexivity. cbv beta iota in HF. rewrite DC in HF.
    replace (43 =? 46)%N with false in HF by reflexivity. replace (43 =? 43)%N with true in HF by reflexivity.
    destruct (to_u64_t2 data 0%N) as [[val rest]| | | |]; cbn [obind] in *; try discriminate.
    destruct rest; try discriminate. inversion HU; subst n.
    destruct (f64_int_guard <? val)%N eqn:G; try discriminate. apply N.ltb_ge in G. exact G.
Qed.

(* narrowing_spec: what serialize_scalar returns, in terms of Scalar's conversions *)
Theorem narrowing_spec : forall dec t v s j,
  read_scalar t v = Ok s -> serialize_scalar dec t v = Ok j ->
  match j with
  | JBool b => to_bool s = Ok b
  | JI64 x => is_ok (to_bool s) = false /\ to_i64 s = Ok x /\ (Z.abs x <= Z.of_N f64_int_guard)%Z
  | JU64 n => is_ok (to_bool s) = false /\ is_ok (to_i64 s) = false /\ to_u64 s = Ok n /\ (n <= f64_int_guard)%N
  | JF64 b => is_ok (to_bool s) = false /\ is_ok (to_i64 s) = false /\ is_ok (to_u64 s) = false /\ to_f64 s = Ok b
  | JStr x => is_ok (to_bool s) = false /\ is_ok (to_f64 s) = false /\ read_str dec t v = Ok x
  | _ => False
  end.
Proof.
  intros dec t v s j RS H. unfold serialize_scalar in H. rewrite RS in H. cbn [unwrap obind] in H.
  destruct (to_bool s) as [b| | | |] eqn:TB.
  { inversion H; subst. reflexivity. }
  all: destruct (to_i64 s) as [x| | | |] eqn:TI; destruct (to_u64 s) as [n| | | |] eqn:TU;
    destruct (to_f64 s) as [f| | | |] eqn:TF;
    try (inversion H; subst; cbn [is_ok]; repeat split; eauto using i64_f64_exact, u64_f64_exact; fail);
    try (destruct (read_str dec t v) as [x'| | | |] eqn:RX; cbn [unwrap obind] in H; try discriminate;
         inversion H; subst; cbn [is_ok]; repeat split; auto; fail).
Qed.

(* ================================================================ content *)
Lemma omapM_length : forall {A B} (f : A -> outcome B) l ys, omapM f l = Ok ys -> length ys = length l.
Proof.
  induction l; intros ys H; cbn [omapM] in H.
  - inversion H. reflexivity.
  - destruct (f a); cbn [obind] in H; try discriminate.
    destruct (omapM f l) eqn:E; cbn [obind] in H; try discriminate.
    inversion H; subst. cbn [length]. rewrite (IHl _ eq_refl). reflexivity.
Qed.

Lemma omapM_map : forall {A B C} (g : A -> B) (f : B -> outcome C) l,
  omapM f (map g l) = omapM (fun a => f (g a)) l.
Proof. induction l; cbn [map omapM]; auto. rewrite IHl. reflexivity. Qed.

Lemma omapM_filter : forall {A B} (f : A -> outcome B) (p : A -> bool) l ys,
  omapM f l = Ok ys ->
  omapM f (filter p l) = Ok (map snd (filter (fun q => p (fst q)) (combine l ys))).
Proof.
  induction l; intros ys H; cbn [omapM] in H.
  - inversion H. reflexivity.
  - destruct (f a) eqn:FA; cbn [obind] in H; try discriminate.
    destruct (omapM f l) eqn:E; cbn [obind] in H; try discriminate.
    inversion H; subst. cbn [filter combine fst].
    destruct (p a); cbn [omapM map snd].
    + rewrite FA. cbn [obind]. rewrite (IHl _ eq_refl). reflexivity.
    + apply IHl. reflexivity.
Qed.

Section Content.
  Variable dec : bytes -> bytes.
  Variable rec : nat -> outcome json.

  Lemma omapM_ser_field : forall l vals,
    omapM (fun f => ser_opvalue rec (field_ov f)) l = Ok vals ->
    omapM (ser_field dec rec) l = Ok (combine (map (fun f => key_string dec (f_key f)) l) vals).
  Proof.
    induction l; intros vals H; cbn [omapM] in *.
    - inversion H. reflexivity.
    - unfold ser_field at 1. change (f_op a, f_val a) with (field_ov a).
      destruct (ser_opvalue rec (field_ov a)); cbn [obind] in *; try discriminate.
      destruct (omapM (fun f => ser_opvalue rec (field_ov f)) l) eqn:E; cbn [obind] in H; try discriminate.
      inversion H; subst. rewrite (IHl _ eq_refl). reflexivity.
  Qed.

  Lemma omapM_ser_field_pair : forall l vals,
    omapM (fun f => ser_opvalue rec (field_ov f)) l = Ok vals ->
    omapM (ser_field_pair dec rec) l =
    Ok (map (fun p => JArr [JStr (key_string dec (f_key (fst p))); snd p]) (combine l vals)).
  Proof.
    induction l; intros vals H; cbn [omapM] in *.
    - inversion H. reflexivity.
    - unfold ser_field_pair at 1. change (f_op a, f_val a) with (field_ov a).
      destruct (ser_opvalue rec (field_ov a)); cbn [obind] in *; try discriminate.
      destruct (omapM (fun f => ser_opvalue rec (field_ov f)) l) eqn:E; cbn [obind] in H; try discriminate.
      inversion H; subst. rewrite (IHl _ eq_refl). reflexivity.
  Qed.

  Lemma ser_group_wrap : forall g js,
    omapM (ser_opvalue rec) (g_vals g) = Ok js ->
    ser_group dec rec g = Ok (key_string dec (g_key g), wrap_group js).
  Proof.
    intros g js H. unfold ser_group. destruct (g_vals g) as [|one [|two more]].
    - cbn [omapM] in *. inversion H. reflexivity.
    - cbn [omapM] in H. destruct (ser_opvalue rec one); cbn [obind] in *; try discriminate.
      inversion H. reflexivity.
    - rewrite H. cbn [obind]. cbn [omapM] in H.
      destruct (ser_opvalue rec one); cbn [obind] in H; try discriminate.
      destruct (ser_opvalue rec two); cbn [obind] in H; try discriminate.
      destruct (omapM (ser_opvalue rec) more); cbn [obind] in H; try discriminate.
      inversion H. reflexivity.
  Qed.

  Lemma omapM_ser_group : forall l vals,
    omapM (fun f => ser_opvalue rec (field_ov f)) l = Ok vals ->
    forall fs,
    omapM (ser_group dec rec) (map (fun f => mk_group (f_key f) (vals_of (field_kb f) l)) fs) =
    Ok (map (fun f => (key_string dec (f_key f), wrap_group (select_vals (field_kb f) l vals))) fs).
  Proof.
    intros l vals H. induction fs as [|f fs IH]; cbn [map omapM]; auto.
    rewrite (ser_group_wrap _ (select_vals (field_kb f) l vals)).
    - cbn [obind g_key]. rewrite IH. reflexivity.
    - cbn [g_vals]. unfold vals_of, select_vals. rewrite omapM_map.
      apply (omapM_filter (fun a => ser_opvalue rec (field_ov a)) (fun a => beqb (field_kb a) (field_kb f))).
      exact H.
  Qed.
End Content.

(* json_content: the JSON of an object node carries exactly the fields of the object grammar:
   Preserve: the fields' keys and serialized values in document order; Group: one entry per distinct
   raw key in order of first appearance, holding the serialized values of that key's fields in
   document order (a bare value when there is one, an array otherwise); KeyValuePairs: the list of
   [key, value] pairs in document order; each followed by the serialized remainder when the
   container is mixed.  [vals] has one serialized value per field: nothing is lost. *)
Theorem object_builder_content : forall dec dbg o t rec r, tape_wf t -> obj_node t r ->
  (forall a, o_start r <= a -> vend t a < o_end r -> exists j, rec a = Ok j) ->
  exists l last vals rem,
    fields_spec t (o_start r) (o_end r) last l /\
    fields_all dbg t r = Ok (l, last) /\
    omapM (fun f => ser_opvalue rec (field_ov f)) l = Ok vals /\ length vals = length l /\
    ser_remainder dec t rec last (o_end r) = Ok rem /\
    ser_object_builder dec dbg o t rec r = Ok (content_tree dec (duplicate_keys o) l vals rem).
Proof.
  intros dec dbg o t rec r WF N H.
  destruct (fields_agree dbg t r WF N) as (l & last & S0 & FA & _).
  destruct (groups_partition dbg t r WF N) as (l' & last' & FA' & FG).
  rewrite FA in FA'. inversion FA'; subst l' last'. clear FA'.
  pose proof (fields_spec_bounds _ _ _ _ _ S0) as B.
  destruct (remainder_total dec dbg t WF rec r l last N FA ltac:(lia) H) as [rem REM].
  destruct (omapM_total (fun f => ser_opvalue rec (field_ov f)) l) as [vals VALS].
  { intros f IN. apply opvalue_total. destruct (fields_spec_vals _ _ _ _ _ S0 f IN). apply H; auto. lia. }
  exists l, last, vals, rem. repeat split; auto.
  { eapply omapM_length; eauto. }
  unfold ser_object_builder, content_tree. destruct (duplicate_keys o).
  - rewrite FG. cbn [obind]. unfold groups_spec. rewrite (omapM_ser_group dec rec l vals VALS). cbn [obind].
    rewrite REM. cbn [obind]. destruct rem; reflexivity.
  - rewrite FA. cbn [obind]. rewrite (omapM_ser_field dec rec l vals VALS). cbn [obind].
    rewrite REM. cbn [obind]. destruct rem; reflexivity.
  - rewrite FA. cbn [obind]. rewrite (omapM_ser_field_pair dec rec l vals VALS). cbn [obind].
    rewrite REM. cbn [obind]. destruct rem; reflexivity.
Qed.

Theorem json_content : forall dec dbg o t r, tape_wf t -> obj_node t r ->
  let rec := ser_value dec dbg o t (ser_fuel t) in
  exists l last vals rem,
    fields_spec t (o_start r) (o_end r) last l /\
    fields_all dbg t r = Ok (l, last) /\
    omapM (fun f => ser_opvalue rec (field_ov f)) l = Ok vals /\ length vals = length l /\
    ser_remainder dec t rec last (o_end r) = Ok rem /\
    json_object dec dbg o t r = Ok (content_tree dec (duplicate_keys o) l vals rem).
Proof.
  intros dec dbg o t r WF N rec.
  destruct (object_builder_content dec dbg o t rec r WF N) as (l & last & vals & rem & A & B & C & D & E & F).
  { intros a SA EA. apply ser_value_total; auto.
    destruct (obj_node_facts t r WF N) as (_ & L & _).
    destruct (Nat.le_gt_cases (length t) a) as [G | G]; auto. rewrite vend_ge_len in EA by auto. lia. }
  exists l, last, vals, rem. repeat split; auto.
  unfold json_object. destruct (obj_node_facts t r WF N) as (DD & L & _). pose proof (dyck_le _ _ _ DD).
  unfold object_tokens_len, sub_usize.
  replace (Nat.ltb (o_end r) (o_start r)) with false by (symmetry; apply Nat.ltb_ge; lia). cbn [obind].
  exact F.
Qed.

(* Group loses no value: the per-key selections partition [vals] *)
Lemma select_vals_length : forall k l vals, length vals = length l ->
  length (select_vals k l vals) = length (vals_of k l).
Proof.
  intros k l. induction l as [|f l IH]; intros vals H; destruct vals as [|v vals]; cbn [length] in H; try discriminate; auto.
  unfold select_vals, vals_of in *. cbn [combine filter fst].
  destruct (beqb (field_kb f) k); cbn [map length]; rewrite IH; auto.
Qed.
