(* C02, wave 4 (a_c02): the STREAM path of the text serde deserializer (TextDeStream, token-list
   instance) against TextDeSpec2.spec_value2 false, over EVERY document the token reader can express
   (TextDeSpec2.sx_fields: objects with tails, arrays, key-value arrays, headers; no parameter blocks).
   New with respect to TextDeStreamProofs (core grammar): headers -- the value deserializer reads the
   header's NAME and leaves the header's container in the stream, TextReaderMap::next_key_seed then
   skips it as a ghost object (skip_container) --, `{}` where a map / struct is asked for, and
   everything that is only specified where it is ignored (tails, key-value arrays). *)
From JV Require Import Bytes Utf8 Scalar TextTok TextReader TextDoc SerdeShape TextDeCommon TextDeTape TextDeStream TextDeSpec TextDeSpec2.
From JV.proofs Require Import TextParseProofs TextDeTapeProofs TextDeStreamProofs TextDeMoreTape TextDeExtSpec.
Require Import Lia.
Open Scope nat_scope.

(* ------------------------------------------------------------------ skip_container on a balanced body *)
Lemma skip_bal2 :
  (forall v, sx_value v = true -> forall rest d, l_skip_depth (rtoks_value v ++ rest) d = l_skip_depth rest d) /\
  (forall f, sx_field f = true -> forall rest d, l_skip_depth (rtoks_field f ++ rest) d = l_skip_depth rest d) /\
  (forall fs, sx_fields fs = true -> forall rest d, l_skip_depth (rtoks_fields fs ++ rest) d = l_skip_depth rest d) /\
  (forall vs, sx_items vs = true -> forall rest d, l_skip_depth (rtoks_values vs ++ rest) d = l_skip_depth rest d).
Proof.
  apply doc_mutind.
  - intros k s _ rest d. cbn [rtoks_value app]. apply scalar_rtok_skip.
  - intros fs Hfs tl Htl Hc rest d. cbn [sx_value] in Hc. apply andb_prop in Hc as [H1 H2].
    cbn [rtoks_value app l_skip_depth]. rewrite <- !app_assoc. rewrite Hfs by auto. rewrite Htl by auto. reflexivity.
  - intros items Hvs Hc rest d. cbn [sx_value] in Hc.
    cbn [rtoks_value app l_skip_depth]. rewrite <- app_assoc. rewrite Hvs by auto. reflexivity.
  - intros items Hvs kvs Hk Hc rest d. cbn [sx_value] in Hc. apply andb_prop in Hc as [H1 H2].
    cbn [rtoks_value app l_skip_depth]. rewrite <- !app_assoc. rewrite Hvs by auto. rewrite Hk by auto. reflexivity.
  - intros name v Hv Hc rest d. cbn [sx_value] in Hc. apply andb_prop in Hc as [H1 H2].
    cbn [rtoks_value app l_skip_depth]. now rewrite Hv.
  - intros k key op v Hv Hc rest d. cbn [sx_field] in Hc. cbn [rtoks_field app].
    rewrite scalar_rtok_skip. rewrite <- app_assoc. destruct op; cbn [app l_skip_depth]; now rewrite Hv.
  - intros; discriminate.
  - intros; discriminate.
  - intros _ rest d. reflexivity.
  - intros f Hf fs Hfs Hc rest d. cbn [sx_fields] in Hc. apply andb_prop in Hc as [H1 H2].
    cbn [rtoks_fields]. rewrite <- app_assoc. now rewrite Hf, Hfs.
  - intros _ rest d. reflexivity.
  - intros v Hv vs Hvs Hc rest d. cbn [sx_items] in Hc. apply andb_prop in Hc as [H1 H2]. apply andb_prop in H1 as [H0 H1].
    cbn [rtoks_values]. rewrite <- app_assoc. now rewrite Hv, Hvs.
Qed.

(* a container's tokens: Open, a balanced body, Close *)
Lemma container_toks v : is_container v = true -> sx_value v = true ->
  exists body, rtoks_value v = ROpen :: body ++ [RClose] /\
               forall rest, l_skip_depth (body ++ RClose :: rest) 0 = Some rest.
Proof.
  intros Hc Hs. pose proof (proj1 skip_bal2 v Hs) as Hb.
  destruct v as [k s | fs tl | items | items kvs | name v']; try discriminate; cbn [rtoks_value] in *.
  - exists (rtoks_fields fs ++ rtoks_values tl). split; [now rewrite <- app_assoc|].
    intros rest. specialize (Hb rest 0). cbn [app l_skip_depth] in Hb.
    rewrite <- !app_assoc in *. cbn [app] in *.
    cbn [sx_value] in Hs. apply andb_prop in Hs as [H1 H2].
    rewrite (proj1 (proj2 (proj2 skip_bal2)) fs H1). rewrite (proj2 (proj2 (proj2 skip_bal2)) tl H2). reflexivity.
  - exists (rtoks_values items). split; [reflexivity|].
    intros rest. cbn [sx_value] in Hs. rewrite (proj2 (proj2 (proj2 skip_bal2)) items Hs). reflexivity.
  - exists (rtoks_values items ++ rtoks_fields kvs). split; [now rewrite <- app_assoc|].
    intros rest. rewrite <- !app_assoc.
    cbn [sx_value] in Hs. apply andb_prop in Hs as [H1 H2].
    rewrite (proj2 (proj2 (proj2 skip_bal2)) items H1). rewrite (proj1 (proj2 (proj2 skip_bal2)) kvs H2). reflexivity.
Qed.

(* ------------------------------------------------------------------ cost against the number of tokens *)
Lemma cost_rtoks :
  (forall v, sx_value v = true -> cv2 v + 1 <= 2 * length (rtoks_value v)) /\
  (forall f, sx_field f = true -> cf2 f + 2 <= 2 * length (rtoks_field f)) /\
  (forall fs, sx_fields fs = true -> cfs2 fs <= 2 * length (rtoks_fields fs) + 1) /\
  (forall vs, sx_items vs = true -> cvs2 vs <= 2 * length (rtoks_values vs) + 1).
Proof.
  apply doc_mutind.
  - intros k s _. cbn. lia.
  - intros fs Hfs tl Htl Hc. cbn [sx_value] in Hc. apply andb_prop in Hc as [H1 H2].
    specialize (Hfs H1). specialize (Htl H2). cbn [cv2 rtoks_value length]. rewrite !app_length. cbn [length]. lia.
  - intros items Hvs Hc. cbn [sx_value] in Hc. specialize (Hvs Hc).
    cbn [cv2 rtoks_value length]. rewrite !app_length. cbn [length]. lia.
  - intros items _ kvs _ _. cbn [cv2 rtoks_value length]. lia.
  - intros name v Hv Hc. cbn [sx_value] in Hc. apply andb_prop in Hc as [H1 H2]. specialize (Hv H2).
    cbn [cv2 rtoks_value length]. lia.
  - intros k key op v Hv Hc. cbn [sx_field] in Hc. specialize (Hv Hc).
    cbn [cf2 rtoks_field length]. rewrite !app_length. lia.
  - intros; discriminate.
  - intros; discriminate.
  - intros _. cbn. lia.
  - intros f Hf fs Hfs Hc. cbn [sx_fields] in Hc. apply andb_prop in Hc as [H1 H2].
    specialize (Hf H1). specialize (Hfs H2). cbn [cfs2 rtoks_fields]. rewrite app_length. lia.
  - intros _. cbn. lia.
  - intros v Hv vs Hvs Hc. cbn [sx_items] in Hc. apply andb_prop in Hc as [H1 H2]. apply andb_prop in H1 as [H0 H1].
    specialize (Hv H1). specialize (Hvs H2). cbn [cvs2 rtoks_values]. rewrite app_length. lia.
Qed.

(* iterations of the key loop over a field list: one per field, one more per header (its ghost container) *)
Fixpoint steps (fs : fields) : nat :=
  match fs with
  | FNil => 0
  | FCons (Field _ _ _ v) fs' => (if is_header v then 2 else 1) + steps fs'
  | FCons _ fs' => 1 + steps fs'
  end.

Lemma steps_lt fs : steps fs + 1 <= cfs2 fs.
Proof.
  induction fs as [|f fs IH]; [cbn; lia|]. destruct f as [k key op v| |]; cbn [steps cfs2 cf2]; try lia.
  destruct v; cbn [is_header cv2]; lia.
Qed.

Section StreamExt.
  Variable decode : bytes -> cow.
  Variable pf : bytes -> outcome N.
  Variable F : fops.

  Notation sde := (TextDeStream.sde decode pf F ltoks l_next l_skip l_read).
  Notation swalk := (TextDeStream.swalk decode pf F ltoks l_next l_skip l_read).
  Notation sseq_all := (TextDeStream.sseq_all decode pf F ltoks l_next l_skip l_read).
  Notation sseq_tup := (TextDeStream.sseq_tup decode pf F ltoks l_next l_skip l_read).
  Notation spec_v2 := (TextDeSpec2.spec_v2 false decode pf F).
  Notation spec_items2 := (TextDeSpec2.spec_items2 false decode pf F).
  Notation spec_tuple2 := (TextDeSpec2.spec_tuple2 false decode pf F).
  Notation spec_fields2 := (TextDeSpec2.spec_fields2 false decode pf F).
  Notation spec_scalar := (TextDeSpec.spec_scalar decode pf F).
  Notation spec_core2 := (TextDeMoreTape.spec_core2 false decode pf F).
  Notation hname_core := (TextDeSpec2.hname_core decode pf F).
  Notation srec := (TextDeStreamProofs.srec decode pf F).
  Notation srec_op := (TextDeStreamProofs.srec_op decode pf).

  (* ---------------------------------------------------------------- the statements *)
  (* a value that is not a header: its tokens are consumed exactly *)
  Definition full_sv2 (v : value) : Prop :=
    forall tk more, rtoks_value v = tk :: more -> forall rest e sh o fuel,
      cv2 v + shape_size sh <= fuel -> spec_v2 v sh o <> Err EC_UNFIT ->
      sde fuel sh tk (op_or_equal o) (more ++ rest, e) = ret (rest, e) (spec_v2 v sh o).
  Definition SPv2 (v : value) : Prop := sx_value v = true -> is_header v = false -> full_sv2 v.
  Definition SPf2 (f : TextDoc.field) : Prop :=
    match f with Field _ _ _ v => SPv2 v | _ => True end.
  (* the key loop reads the fields and goes on with what follows them (the container's Close, the end of the
     input, or -- where the specification has already failed -- anything) *)
  Definition SPfs2 (fs : fields) : Prop :=
    sx_fields fs = true -> forall root tail e m a fuel, m_core m = true -> cfs2 fs + wm_size m <= fuel ->
    spec_fields2 fs m a <> Err EC_UNFIT ->
    swalk fuel root m a (rtoks_fields fs ++ tail, e) =
      (do a' <- spec_fields2 fs m a; swalk (fuel - steps fs) root m a' (tail, e)).
  Definition SPvs2 (vs : values) : Prop :=
    sx_items vs = true -> forall rest e,
    (forall s fuel, cvs2 vs + shape_size s <= fuel -> spec_items2 vs s <> Err EC_UNFIT ->
       sseq_all fuel s (rtoks_values vs ++ RClose :: rest, e) = ret (rest, e) (spec_items2 vs s)) /\
    (forall ss fuel, cvs2 vs + shape_size (ShTup ss) <= fuel -> spec_tuple2 vs ss <> Err EC_UNFIT ->
       sseq_tup fuel ss (rtoks_values vs ++ RClose :: rest, e) = ret (RClose :: rest, e) (spec_tuple2 vs ss)).

  (* a field's value: the value deserializer consumes [tk :: more] and leaves the ghost [gh] (the
     container of a header, else nothing) to the key loop *)
  Definition fstep (v : value) : Prop :=
    exists tk more gh,
      rtoks_value v = tk :: more ++ gh /\
      (tk = ROpen \/ exists k s, tk = scalar_rtok k s) /\
      (forall rest e sh o fuel, cv2 v + shape_size sh <= fuel -> spec_v2 v sh o <> Err EC_UNFIT ->
         sde fuel sh tk (op_or_equal o) (more ++ gh ++ rest, e) = ret (gh ++ rest, e) (spec_v2 v sh o)) /\
      ((is_header v = false /\ gh = []) \/
       (is_header v = true /\ 3 <= cv2 v /\ exists body, gh = ROpen :: body ++ [RClose] /\
                    forall rest, l_skip_depth (body ++ RClose :: rest) 0 = Some rest)).

  Lemma swrap_core2 v B :
    (forall tk more, rtoks_value v = tk :: more -> forall rest e c op fuel, is_wrapper c = false -> B + shape_size c <= fuel ->
       spec_core2 v c <> Err EC_UNFIT -> sde fuel c tk op (more ++ rest, e) = ret (rest, e) (spec_core2 v c)) ->
    B = cv2 v -> full_sv2 v.
  Proof.
    intros H -> tk more Ht rest e sh o fuel Hf Hne. rewrite (spec_v2_eq false decode pf F) in *.
    apply (sde_wrappers decode pf F tk (more ++ rest, e) (rest, e) (spec_core2 v) (cv2 v)); auto.
  Qed.

  Lemma rhead2 v : is_header v = false ->
    exists tk more, rtoks_value v = tk :: more /\ (tk = ROpen \/ exists k s, tk = scalar_rtok k s).
  Proof.
    destruct v as [k s | fs tl | items | items kvs | name v']; try discriminate; intros _; cbn [rtoks_value];
      eexists _, _; (split; [reflexivity|]); try (now left).
    right. now exists k, s.
  Qed.

  (* ---------------------------------------------------------------- values *)
  Lemma scase_scalar2 k s : SPv2 (VScalar k s).
  Proof.
    intros _ _. apply (swrap_core2 _ 1); [|reflexivity].
    intros tk more Ht rest e c op fuel Hw Hf Hne. cbn [rtoks_value] in Ht. injection Ht as <- <-.
    destruct fuel as [|f]; [lia|]. cbn [app].
    assert (Hs : spec_scalar c s <> Err EC_UNFIT).
    { unfold TextDeMoreTape.spec_core2 in Hne. destruct c; try exact Hne; discriminate. }
    rewrite (sde_scalar decode pf F k s c op (rest, e) f Hw Hs). unfold TextDeMoreTape.spec_core2. now destruct c.
  Qed.

  Lemma sde_ign_open2 f op body rest e :
    l_skip_depth (body ++ RClose :: rest) 0 = Some rest ->
    sde (S f) ShIgn ROpen op (body ++ RClose :: rest, e) = ret (rest, e) (Ok DIgn).
  Proof. apply (sde_ign_open decode pf F). Qed.

  Lemma sde_map_end f sh op rest e m :
    (thint_of sh = THMap \/ thint_of sh = THStruct false) -> wmode_of sh = Some m ->
    sde (S (S f)) sh ROpen op (RClose :: rest, e) = ret (rest, e) (finish m (acc0 m)).
  Proof.
    intros Hh Hm. rewrite (sde_map decode pf F (S f) sh op _ m Hh Hm).
    rewrite (swalk_eq decode pf F). cbn [l_next obind]. unfold ret. destruct (finish m (acc0 m)); reflexivity.
  Qed.

  Lemma scase_object2 fs tl : SPfs2 fs -> SPv2 (VObject fs tl).
  Proof.
    intros Hfs Hc _. cbn [sx_value] in Hc. apply andb_prop in Hc as [Hc1 Hc2].
    apply (swrap_core2 _ (cv2 (VObject fs tl))); [|reflexivity].
    intros tk more Ht rest e c op fuel Hw Hf Hne.
    cbn [rtoks_value] in Ht. injection Ht as <- <-.
    destruct fuel as [|f]; [cbn [cv2] in Hf; lia|].
    rewrite <- !app_assoc. cbn [app].
    assert (Hskip : l_skip_depth (rtoks_fields fs ++ rtoks_values tl ++ RClose :: rest) 0 = Some rest).
    { rewrite (proj1 (proj2 (proj2 skip_bal2)) fs Hc1). rewrite (proj2 (proj2 (proj2 skip_bal2)) tl Hc2). reflexivity. }
    unfold TextDeMoreTape.spec_core2 in *.
    destruct c; try discriminate Hw; try (now destruct Hne);
      try (rewrite (app_assoc (rtoks_fields fs)) in *; now apply sde_ign_open2).
    - (* map *)
      cbn [wmode_core] in *.
      rewrite (sde_map decode pf F f _ op _ (WMap c)); [|now left|reflexivity].
      rewrite (Hfs Hc1 false _ e (WMap c) (acc0 (WMap c)) f eq_refl);
        [| cbn [cv2 shape_size wm_size] in *; lia | now apply bind_unfit_l in Hne].
      destruct (TextDeSpec2.spec_fields2 false decode pf F fs (WMap c) (acc0 (WMap c))) as [a| | | |]; try reflexivity.
      cbn [obind] in *. unfold tail_step in *. destruct tl as [|t0 tl']; [|now destruct Hne].
      cbn [rtoks_values app obind].
      pose proof (steps_lt fs). destruct (f - steps fs) as [|g] eqn:Eg; [cbn [cv2 shape_size] in Hf; lia|].
      rewrite (swalk_eq decode pf F). cbn [l_next obind]. unfold ret. destruct (finish (WMap c) a); reflexivity.
    - (* struct *)
      cbn [wmode_core] in *.
      rewrite (sde_map decode pf F f _ op _ (WStruct token fields)); [|now right|reflexivity].
      rewrite (Hfs Hc1 false _ e (WStruct token fields) (acc0 (WStruct token fields)) f eq_refl);
        [| cbn [cv2 wm_size] in *; lia | now apply bind_unfit_l in Hne].
      destruct (TextDeSpec2.spec_fields2 false decode pf F fs (WStruct token fields) (acc0 (WStruct token fields))) as [a| | | |]; try reflexivity.
      cbn [obind] in *. unfold tail_step in *. destruct tl as [|t0 tl']; [|now destruct Hne].
      cbn [rtoks_values app obind].
      pose proof (steps_lt fs). pose proof (wm_size_pos (WStruct token fields)) as Hp. cbn [wm_size] in Hp.
      destruct (f - steps fs) as [|g] eqn:Eg; [cbn [cv2] in Hf; lia|].
      rewrite (swalk_eq decode pf F). cbn [l_next obind]. unfold ret. destruct (finish (WStruct token fields) a); reflexivity.
  Qed.

  Lemma scase_array2 items : SPvs2 items -> SPv2 (VArray items).
  Proof.
    intros Hvs Hc _. cbn [sx_value] in Hc.
    apply (swrap_core2 _ (cv2 (VArray items))); [|reflexivity].
    intros tk more Ht rest e c op fuel Hw Hf Hne.
    cbn [rtoks_value] in Ht. injection Ht as <- <-.
    destruct fuel as [|f]; [cbn [cv2] in Hf; lia|].
    rewrite <- app_assoc. cbn [app].
    assert (Hskip : l_skip_depth (rtoks_values items ++ RClose :: rest) 0 = Some rest).
    { rewrite (proj2 (proj2 (proj2 skip_bal2)) items Hc). reflexivity. }
    destruct (Hvs Hc rest e) as [Hall Htup].
    unfold TextDeMoreTape.spec_core2 in *.
    destruct c; try discriminate Hw; try (now destruct Hne); try (now apply sde_ign_open2).
    - rewrite (sde_seq decode pf F), Hall; [apply ret_bind | cbn [cv2 shape_size] in *; lia | now apply omap_unfit_l in Hne].
    - rewrite (sde_tup decode pf F), Htup; [| cbn [cv2] in *; lia | now apply omap_unfit_l in Hne].
      destruct (TextDeSpec2.spec_tuple2 false decode pf F items ss); reflexivity.
    - (* map on `{}` *)
      cbn [wmode_core] in *. unfold tail_step in *. destruct items as [|i0 items']; [|now destruct Hne].
      cbn [rtoks_values app]. destruct f as [|f]; [cbn [cv2 cvs2] in Hf; lia|].
      rewrite (sde_map_end f _ op rest e (WMap c)); [reflexivity | now left | reflexivity].
    - cbn [wmode_core] in *. unfold tail_step in *. destruct items as [|i0 items']; [|now destruct Hne].
      cbn [rtoks_values app]. destruct f as [|f]; [cbn [cv2 cvs2] in Hf; lia|].
      rewrite (sde_map_end f _ op rest e (WStruct token fields)); [reflexivity | now right | reflexivity].
  Qed.

  Lemma scase_arraykv2 items kvs : SPv2 (VArrayKv items kvs).
  Proof.
    intros Hc _.
    apply (swrap_core2 _ (cv2 (VArrayKv items kvs))); [|reflexivity].
    intros tk more Ht rest e c op fuel Hw Hf Hne.
    destruct (container_toks (VArrayKv items kvs) eq_refl Hc) as (body & Hb & Hskip).
    rewrite Hb in Ht. injection Ht as <- <-.
    destruct fuel as [|f]; [cbn [cv2] in Hf; lia|].
    rewrite <- app_assoc. cbn [app].
    unfold TextDeMoreTape.spec_core2 in *.
    destruct c; try discriminate Hw; try (now destruct Hne). now apply sde_ign_open2.
  Qed.

  (* ---------------------------------------------------------------- a field's value *)
  Lemma fstep_plain v : sx_value v = true -> is_header v = false -> SPv2 v -> fstep v.
  Proof.
    intros Hs Hh Hv. destruct (rhead2 v Hh) as (tk & more & Ev & Htk).
    exists tk, more, []. split; [now rewrite app_nil_r|]. split; [exact Htk|]. split; [|left; now split].
    intros rest e sh o fuel Hf Hne. cbn [app]. exact (Hv Hs Hh tk more Ev rest e sh o fuel Hf Hne).
  Qed.

  Lemma fstep_header name v : sx_value (VHeader name v) = true -> fstep (VHeader name v).
  Proof.
    intros Hs. cbn [sx_value] in Hs. apply andb_prop in Hs as [Hc Hs].
    destruct (container_toks v Hc Hs) as (body & Hb & Hskip).
    exists (RUnq name), [], (rtoks_value v). split; [reflexivity|]. split; [right; now exists Unq, name|].
    split.
    - intros rest e sh o fuel Hf Hne. cbn [app].
      rewrite (spec_v2_eq false decode pf F) in *.
      apply (sde_wrappers decode pf F (RUnq name) (rtoks_value v ++ rest, e) (rtoks_value v ++ rest, e)
               (spec_core2 (VHeader name v)) (cv2 (VHeader name v))); auto.
      intros c op fu Hw Hfu Hn. unfold TextDeMoreTape.spec_core2 in *.
      destruct fu as [|fu]; [cbn [cv2] in Hfu; lia|].
      assert (Hsc : forall c', is_wrapper c' = false -> hname_core c' name <> Err EC_UNFIT ->
                 sde (S fu) c' (RUnq name) op (rtoks_value v ++ rest, e) =
                 ret (rtoks_value v ++ rest, e) (match c' with ShIgn => Ok DIgn | _ => hname_core c' name end)).
      { intros c' Hw' Hn'. unfold TextDeSpec2.hname_core in *.
        destruct c'; try (now destruct Hn'); try discriminate Hw';
          exact (sde_scalar decode pf F Unq name _ op (rtoks_value v ++ rest, e) fu Hw' Hn'). }
      destruct c; try discriminate Hw; try (now destruct Hn); try (apply Hsc; [reflexivity | exact Hn]).
      destruct ss as [|s1 [|s2 ss']]; now destruct Hn.
    - right. split; [reflexivity|]. split; [cbn [cv2]; pose proof (cvs2_pos VNil); destruct v; cbn [cv2]; lia|].
      exists body. split; [exact Hb | exact Hskip].
  Qed.

  (* ---------------------------------------------------------------- the key loop *)
  Lemma scase_fnil2 : SPfs2 FNil.
  Proof.
    intros _ root tail e m a fuel Hm Hf Hne. cbn [rtoks_fields app steps TextDeSpec2.spec_fields2 obind].
    now rewrite Nat.sub_0_r.
  Qed.

  Lemma scase_fcons2 f fs : (match f with Field _ _ _ v => sx_value v = true -> fstep v | _ => True end) ->
    SPfs2 fs -> SPfs2 (FCons f fs).
  Proof.
    intros Hf Hfs Hc root tail e m a fuel Hm Hfu Hne.
    cbn [sx_fields] in Hc. apply andb_prop in Hc as [Hcf Hcfs].
    destruct f as [k key op v| |]; try discriminate. cbn [sx_field] in Hcf.
    destruct (Hf Hcf) as (tk & more & gh & Ev & Htk & Hd & Hgh).
    destruct fuel as [|fu]; [cbn [cfs2] in Hfu; lia|].
    cbn [cfs2 cf2] in Hfu.
    cbn [rtoks_fields rtoks_field]. rewrite Ev. rewrite <- !app_assoc.
    rewrite (spec_fields2_cons false decode pf F) in *. cbn [is_param andb fval fkey] in *.
    set (rec2 := fun sh' (_ _ : unit) => omap (fun d => (d, tt)) (spec_v2 v sh' (Some (op_or_equal op)))) in *.
    set (s1' := (gh ++ rtoks_fields fs ++ tail, e)).
    set (r1 := ((match op with Some o => [ROp o] | None => [] end ++ tk :: more ++ gh) ++ rtoks_fields fs ++ tail, e)).
    assert (Hnext : l_next ((scalar_rtok k key :: match op with Some o => [ROp o] | None => [] end ++ tk :: more ++ gh) ++ rtoks_fields fs ++ tail, e)
                    = Ok (Some (scalar_rtok k key), r1)) by reflexivity.
    change ((scalar_rtok k key :: match op with Some o => [ROp o] | None => [] end ++ (tk :: more) ++ gh) ++ rtoks_fields fs ++ tail)
      with ((scalar_rtok k key :: match op with Some o => [ROp o] | None => [] end ++ tk :: more ++ gh) ++ rtoks_fields fs ++ tail).
    rewrite (swalk_eq decode pf F), Hnext. cbn [obind].
    assert (Hent : entry (srec fu) srec_op m a (cow_bytes (decode key)) (is_ok (to_u64 key)) tt r1
                 = (do r <- entry rec2 no_op m a (cow_bytes (decode key)) (is_ok (to_u64 key)) tt tt;
                    Ok (fst r, s1'))).
    { apply entry_ext_s; auto.
      - intros sh' Hs Hn. unfold rec2 in *. apply omap_unfit_l in Hn.
        assert (Hfuel : cv2 v + shape_size sh' <= fu).
        { pose proof (wm_size_pos m). destruct Hs as [-> | Hs]; cbn [shape_size]; lia. }
        pose proof (Hd (rtoks_fields fs ++ tail) e sh' (Some (op_or_equal op)) fu Hfuel Hn) as Hd'.
        cbn [op_or_equal] in Hd'.
        unfold TextDeStreamProofs.srec, svalue, r1.
        destruct op as [o|]; cbn [app op_or_equal] in *.
        + rewrite <- !app_assoc. cbn [app].
          change (l_read (ROp o :: tk :: more ++ gh ++ rtoks_fields fs ++ tail, e))
            with (Ok (ROp o, (tk :: more ++ gh ++ rtoks_fields fs ++ tail, e)) : outcome (TextReader.rtok * ltoks)).
          cbn [obind]. rewrite (rread_cons). cbn [obind]. rewrite Hd'.
          unfold ret, s1'. destruct (spec_v2 v sh' (Some o)); reflexivity.
        + rewrite <- !app_assoc. cbn [app].
          change (l_read (tk :: more ++ gh ++ rtoks_fields fs ++ tail, e))
            with (Ok (tk, (more ++ gh ++ rtoks_fields fs ++ tail, e)) : outcome (TextReader.rtok * ltoks)).
          cbn [obind].
          assert (Hm2 : forall (A : Type) (x : operator -> A) (y : A), match tk with ROp o => x o | _ => y end = y).
          { intros. destruct Htk as [-> | (k' & s' & ->)]; [reflexivity | now destruct k']. }
          rewrite Hm2, Hd'. unfold ret, s1'. destruct (spec_v2 v sh' (Some Equal)); reflexivity.
      - intros E. rewrite E in Hne. now apply Hne. }
    assert (Hki : TextDeStream.key_info decode (scalar_rtok k key) = (cow_bytes (decode key), is_ok (to_u64 key)))
      by now destruct k.
    (* what the loop does after the entry: skip the ghost container, go on with the next field *)
    assert (Hrest : forall a', spec_fields2 fs m a' <> Err EC_UNFIT ->
              swalk fu root m a' s1' =
              (do a'' <- spec_fields2 fs m a'; swalk (S fu - steps (FCons (Field k key op v) fs)) root m a'' (tail, e))).
    { intros a' Hn'. unfold s1'. cbn [steps]. destruct Hgh as [(Hh & Eg) | (Hh & Hcost & body & Eg & Hskip)].
      - rewrite Hh. subst gh. cbn [app]. rewrite (Hfs Hcfs root tail e m a' fu Hm ltac:(lia) Hn').
        replace (S fu - (1 + steps fs)) with (fu - steps fs) by lia. reflexivity.
      - rewrite Hh. subst gh.
        destruct fu as [|fu']; [lia|].
        assert (Hsk : l_skip (body ++ RClose :: rtoks_fields fs ++ tail, e) = Ok (rtoks_fields fs ++ tail, e))
          by (unfold l_skip; cbn [fst snd]; now rewrite Hskip).
        rewrite (swalk_eq decode pf F). cbn [app l_next obind].
        rewrite <- app_assoc. cbn [app]. rewrite Hsk. cbn [obind].
        rewrite (Hfs Hcfs root tail e m a' fu' Hm ltac:(lia) Hn').
        replace (S (S fu') - (2 + steps fs)) with (fu' - steps fs) by lia. reflexivity. }
    destruct k; cbn [scalar_rtok] in *; rewrite Hki; rewrite Hent;
      (destruct (entry rec2 no_op m a _ _ tt tt) as [r| | | |] eqn:Er; cbn [obind] in *; try reflexivity;
       apply Hrest; exact Hne).
  Qed.

  (* ---------------------------------------------------------------- sequences *)
  Lemma scase_vnil2 : SPvs2 VNil.
  Proof.
    intros _ rest e. cbn [rtoks_values app]. split.
    - intros s fuel Hf _. destruct fuel as [|f]; [cbn [cvs2] in Hf; lia|]. reflexivity.
    - intros ss fuel Hf _. destruct fuel as [|f]; [cbn [cvs2] in Hf; lia|]. rewrite (sseq_tup_eq decode pf F). now destruct ss.
  Qed.

  Lemma scase_vcons2 v vs : SPv2 v -> SPvs2 vs -> SPvs2 (VCons v vs).
  Proof.
    intros Hv Hvs Hc rest e.
    cbn [sx_items] in Hc. apply andb_prop in Hc as [Hc1 Hcvs]. apply andb_prop in Hc1 as [Hnh Hcv].
    apply Bool.negb_true_iff in Hnh.
    specialize (Hv Hcv Hnh). destruct (Hvs Hcvs rest e) as [Hall Htup].
    destruct (rhead2 v Hnh) as (tk & more & Ev & Htk).
    cbn [rtoks_values]. rewrite Ev. rewrite <- app_assoc. rewrite <- app_comm_cons.
    assert (Hm2 : forall (A : Type) (x y : A), match tk with RClose => x | _ => y end = y).
    { intros. destruct Htk as [-> | (k' & s' & ->)]; [reflexivity | now destruct k']. }
    split.
    - intros s fuel Hf Hne. destruct fuel as [|f]; [cbn [cvs2] in Hf; lia|].
      rewrite (sseq_all_eq decode pf F), rread_cons. cbn [obind]. rewrite Hm2.
      rewrite (spec_items2_cons false decode pf F) in *.
      pose proof (Hv tk more Ev (rtoks_values vs ++ RClose :: rest) e s None f) as Hd. cbn [op_or_equal] in Hd.
      rewrite Hd; [|cbn [cvs2] in Hf; lia|intros E; rewrite E in Hne; now apply Hne].
      destruct (spec_v2 v s None) as [x| | | |]; cbn [obind ret omap] in *; try reflexivity.
      rewrite Hall; [|cbn [cvs2] in Hf; lia|intros E; rewrite E in Hne; now apply Hne].
      destruct (TextDeSpec2.spec_items2 false decode pf F vs s); reflexivity.
    - intros ss fuel Hf Hne. destruct fuel as [|f]; [cbn [cvs2] in Hf; lia|].
      rewrite (sseq_tup_eq decode pf F). rewrite (spec_tuple2_cons false decode pf F) in *.
      destruct ss as [|s ss']; [now destruct Hne|].
      rewrite rread_cons. cbn [obind]. rewrite Hm2.
      cbn [shape_size fold_right] in Hf.
      pose proof (Hv tk more Ev (rtoks_values vs ++ RClose :: rest) e s None f) as Hd. cbn [op_or_equal] in Hd.
      rewrite Hd; [|cbn [cvs2] in Hf; lia|intros E; rewrite E in Hne; now apply Hne].
      destruct (spec_v2 v s None) as [x| | | |]; cbn [obind ret omap] in *; try reflexivity.
      rewrite Htup; [|cbn [cvs2 shape_size] in *; lia|intros E; rewrite E in Hne; now apply Hne].
      destruct (TextDeSpec2.spec_tuple2 false decode pf F vs ss'); reflexivity.
  Qed.

  Lemma swalk_all2 : (forall v, SPv2 v) /\ (forall f, SPf2 f) /\ (forall fs, SPfs2 fs) /\ (forall vs, SPvs2 vs).
  Proof.
    apply doc_mutind.
    - apply scase_scalar2.
    - intros fs Hfs tl _. now apply scase_object2.
    - apply scase_array2.
    - intros items _ kvs _. apply scase_arraykv2.
    - intros name v _ _ Hh. discriminate Hh.
    - intros k key op v H. exact H.
    - intros; exact I.
    - intros; exact I.
    - apply scase_fnil2.
    - intros f Hf fs Hfs. apply scase_fcons2; [|exact Hfs].
      destruct f as [k key op v| |]; try exact I. cbn [SPf2] in Hf. intros Hs.
      destruct (is_header v) eqn:Hh.
      + destruct v; try discriminate Hh. now apply fstep_header.
      + now apply fstep_plain.
    - apply scase_vnil2.
    - intros v Hv vs Hvs. now apply scase_vcons2.
  Qed.
End StreamExt.

(* ------------------------------------------------------------------ root and default fuel *)
Theorem stream_path_spec2 decode pf F sh d :
  sx_fields d = true -> fits2 false decode pf F sh d ->
  deser_stream decode pf F sh (tokens d) = spec_value2 false decode pf F sh d.
Proof.
  intros Hc Hfit. unfold fits2 in Hfit. unfold deser_stream, tokens, sde_root. cbn [fst].
  pose proof (proj1 (proj2 (proj2 (swalk_all2 decode pf F))) d Hc true [] None) as H.
  rewrite app_nil_r in H.
  pose proof (proj1 (proj2 (proj2 cost_rtoks)) d Hc) as Hb.
  pose proof (steps_lt d) as Hs.
  unfold spec_value2 in *.
  assert (Hend : forall m a' g, swalk decode pf F ltoks l_next l_skip l_read (S g) true m a' ([], None) = Ok (a', ([], None)))
    by reflexivity.
  destruct sh; try (now destruct Hfit); cbn [thint_of wmode_of wmode_core] in *.
  - rewrite H; auto.
    + destruct (spec_fields2 false decode pf F d (WMap sh) (acc0 (WMap sh))) as [a| | | |]; try reflexivity.
      cbn [obind]. destruct (stream_fuel (ShMap sh) (rtoks_fields d) - steps d) as [|g] eqn:Eg;
        [unfold stream_fuel in Eg; lia|]. rewrite Hend. reflexivity.
    + unfold stream_fuel. cbn [wm_size shape_size]. lia.
    + intros E. rewrite E in Hfit. now apply Hfit.
  - rewrite H; auto.
    + destruct (spec_fields2 false decode pf F d (WStruct token fields) (acc0 (WStruct token fields))) as [a| | | |]; try reflexivity.
      cbn [obind]. destruct (stream_fuel (ShStruct token fields) (rtoks_fields d) - steps d) as [|g] eqn:Eg;
        [unfold stream_fuel in Eg; lia|]. rewrite Hend. reflexivity.
    + unfold stream_fuel. cbn [wm_size]. lia.
    + intros E. rewrite E in Hfit. now apply Hfit.
Qed.

Lemma sx_ext :
  (forall v, sx_value v = true -> ext_value v = true) /\
  (forall f, sx_field f = true -> ext_field f = true) /\
  (forall fs, sx_fields fs = true -> ext_fields fs = true) /\
  (forall vs, sx_items vs = true -> ext_items vs = true).
Proof.
  apply doc_mutind.
  - reflexivity.
  - intros fs Hfs tl Htl Hc. cbn [sx_value ext_value] in *. apply andb_prop in Hc as [H1 H2]. now rewrite Hfs, Htl.
  - intros items H Hc. cbn [sx_value ext_value] in *. auto.
  - reflexivity.
  - intros name v H Hc. cbn [sx_value ext_value] in *. apply andb_prop in Hc as [H1 H2]. now rewrite H1, H.
  - intros k key op v H Hc. cbn [sx_field ext_field] in *. auto.
  - intros; discriminate.
  - intros; discriminate.
  - reflexivity.
  - intros f Hf fs Hfs Hc. cbn [sx_fields ext_fields] in *. apply andb_prop in Hc as [H1 H2]. now rewrite Hf, Hfs.
  - reflexivity.
  - intros v Hv vs Hvs Hc. cbn [sx_items ext_items] in *. apply andb_prop in Hc as [H1 H2]. apply andb_prop in H1 as [H0 H1].
    now rewrite H0, Hv, Hvs.
Qed.

(* both paths, everything the token reader can express, wherever the common specification fits *)
Theorem paths_agree_ext decode pf F sh d :
  sx_fields d = true -> fits2 false decode pf F sh d ->
  deser_tape decode pf F sh (flatten d) = deser_stream decode pf F sh (tokens d).
Proof.
  intros Hc Hf. rewrite stream_path_spec2 by assumption.
  apply tape_path_spec2; [apply (proj1 (proj2 (proj2 sx_ext))); exact Hc | exact Hf].
Qed.
