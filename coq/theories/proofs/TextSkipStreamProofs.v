(* C09 (text half), part 2: skip_container on the streaming reader = the byte-level reference on
   the remaining stream, for every schedule without I/O failure and every buffer that can hold
   the Quote state's look-ahead. *)
From JV Require Import Bytes Tables U64Swar BufWin TextTok TextReader TextRef TextSkipRef.
From JV.proofs Require Import BufWinProofs TextReaderProofs TextRefProofs TextFbProofs TextReaderMainProofs TextSkipProofs.
From Coq Require Import Lia List Arith ZArith.
Import ListNotations.
Open Scope nat_scope.

(* the running count only shifts the result *)
Lemma sref_shift_gen : forall n s st d k, length s <= n ->
  sref s st d k = option_map (fun m => m + k) (sref s st d 0).
Proof.
  induction n as [|n IH]; intros s st d k Hl.
  - destruct s; [reflexivity|cbn [length] in Hl; lia].
  - destruct s as [|c s]; [reflexivity|]. cbn [length] in Hl.
    assert (IH1 : forall st' d' k', sref s st' d' k' = option_map (fun m => m + k') (sref s st' d' 0)) by (intros; apply IH; lia).
    assert (Hc : forall st' d', sref s st' d' (S k) = option_map (fun m => m + k) (sref s st' d' 1)).
    { intros st' d'. rewrite (IH1 st' d' (S k)), (IH1 st' d' 1). destruct (sref s st' d' 0); cbn [option_map]; [f_equal; lia|reflexivity]. }
    destruct st; cbn [sref].
    + repeat match goal with |- context [if ?b then _ else _] => destruct b end; try apply Hc.
      cbn [option_map]. reflexivity.
    + destruct (b_is c 92).
      * destruct s as [|c2 s2]; [reflexivity|]. cbn [length] in Hl.
        rewrite (IH s2 SkQuote d (S (S k))) by lia. rewrite (IH s2 SkQuote d 2) by lia.
        destruct (sref s2 SkQuote d 0); cbn [option_map]; [f_equal; lia|reflexivity].
      * destruct (b_is c 34); apply Hc.
    + destruct (b_is c 10); apply Hc.
Qed.

Lemma sref_shift s st d k : sref s st d k = option_map (fun m => m + k) (sref s st d 0).
Proof. apply (sref_shift_gen (length s)). lia. Qed.

(* the outcome of a successful skip of n bytes of the stream *)
Definition skip_lands (input : bytes) (r : reader) (n : nat) (out : outcome reader) : Prop :=
  exists r', out = Ok r' /\ rok input r' /\ stream_of r' = skipn n (stream_of r) /\
             reader_position r' = reader_position r + n /\ cap (rbw r') = cap (rbw r).

(* capacity condition at scan state (ptr, st, d): the slice window, or a real buffer that holds
   three bytes if the scan is going to stand on a backslash inside a quote *)
Definition skcap (r : reader) (ptr : nat) (st : skst) (d : Z) : Prop :=
  (cap (rbw r) = 0 /\ rest (rrd r) = []) \/
  (0 < cap (rbw r) /\ (sesc (skipn ptr (stream_of r)) st d = true -> 3 <= cap (rbw r))).

Lemma sesc_on_backslash (s : bytes) p c d :
  nth_error s p = Some c -> b_is c 92 = true -> sesc (skipn p s) SkQuote d = true.
Proof. intros Hn Hb. rewrite (skipn_nth_cons _ _ _ Hn). cbn [sesc]. rewrite Hb. reflexivity. Qed.

Theorem skip_loop_spec input : wf_bytes input -> forall fuel r ptr st d,
  rok input r -> ptr <= length (win (rbw r)) -> skcap r ptr st d ->
  length (rest (rrd r)) < fuel ->
  match sref (skipn ptr (stream_of r)) st d 0 with
  | Some n => skip_lands input r (ptr + n) (skip_container_loop fuel r ptr st d)
  | None => skip_container_loop fuel r ptr st d = Err E_Eof
  end.
Proof.
  intros Hwf. induction fuel as [|f IH]; intros r ptr st d Hrok Hp Hcap Hf; [lia|].
  destruct r as [b rd0 bom]. unfold skcap in Hcap. unfold stream_of in *. cbn [rbw rrd] in *.
  cbn [skip_container_loop rbw rrd rbom].
  pose proof (rok_wf input _ Hwf Hrok) as Hww. cbn [rbw] in Hww.
  set (w := win b) in *.
  rewrite (sk_scan_wide_eq_bytes (S (S (length w))) (S (S (length w))) w ptr st d Hww) by lia.
  pose proof (scan_window (S (S (length w))) w (rest rd0) ptr st d Hp ltac:(lia)) as Hscan.
  destruct (sk_scan_bytes (S (S (length w))) w ptr st d) as [adv|p st' d'|s]; cbn [wpost] in Hscan; [| |contradiction].
  - (* the close is in the window *)
    destruct Hscan as [Ha Hk]. rewrite Hk. cbn [Nat.add].
    destruct (rok_advance input b rd0 bom bom adv Hrok ltac:(fold w; lia)) as [Hadv Hr3].
    rewrite Hadv. eexists. split; [reflexivity|]. split; [exact Hr3|].
    unfold stream_of, reader_position, bw_position. cbn [rbw rrd win with_bw cap prior consumed].
    fold w. replace (ptr + (adv - ptr)) with adv by lia.
    split; [rewrite skipn_app_le by lia; reflexivity|]. split; [lia|reflexivity].
  - (* refill *)
    destruct Hscan as (Ha & Hk & Hc & Hes).
    destruct (rok_advance input b rd0 bom bom p Hrok ltac:(fold w; lia)) as [Hadv _].
    rewrite Hadv. fold w.
    pose proof (refill_fill input b rd0 bom (length w - p) Hrok ltac:(fold w; lia)) as Hfill.
    fold w in Hfill. cbv zeta in Hfill.
    replace (length w - (length w - p)) with p in Hfill by lia.
    destruct Hfill as [Hcb Hfill].
    rewrite (Hk 0). cbn [Nat.add].
    (* what the reference does from p when nothing follows the window *)
    assert (Hend : rest rd0 = [] -> sref (skipn p (w ++ rest rd0)) st' d' (p - ptr) = None).
    { intros Hr. rewrite Hr, app_nil_r. destruct Hc as [->|(-> & (c & Hn & Hb) & Hl)].
      - rewrite skipn_all. reflexivity.
      - apply (sref_esc_short _ c); [|exact Hb|rewrite skipn_length; exact Hl].
        rewrite (skipn_nth_cons _ _ _ Hn). reflexivity. }
    destruct (bw_fill_buf (mkbw (cap b) (skipn p w) (consumed b + p) (prior b)) rd0) as [n b2 d2|b2 d2|b2 d2];
      [|contradiction|].
    + destruct Hfill as (bs & Hbs & Hrest & Hwin2 & Hcap2 & Hpos2 & Hrok2 & Hz).
      destruct n as [|n].
      * (* end of the data *)
        rewrite Hend; [reflexivity|].
        destruct Hcap as [[_ Hr]|[Hc1 _]]; [exact Hr|]. destruct (Hz eq_refl) as [Hc0|[Hr _]]; [lia|exact Hr].
      * (* more data: continue at the start of the new window *)
        assert (Hstream : win b2 ++ rest d2 = skipn p (w ++ rest rd0)).
        { rewrite Hwin2, Hrest, <- app_assoc. rewrite skipn_app_le by lia. reflexivity. }
        specialize (IH (mkreader b2 d2 bom) 0 st' d' (Hrok2 bom) ltac:(lia)).
        unfold stream_of in IH. cbn [rbw rrd skipn] in IH. rewrite Hstream in IH.
        assert (Hcap' : skcap (mkreader b2 d2 bom) 0 st' d').
        { unfold skcap, stream_of. cbn [rbw rrd skipn]. rewrite Hstream, Hcap2.
          destruct Hcap as [[Hc0 Hr]|[Hc1 Hc3]].
          - rewrite Hr in Hrest. destruct bs; [discriminate|discriminate].
          - right. split; [exact Hc1|]. intros He. apply Hc3, Hes, He. }
        specialize (IH Hcap').
        assert (Hlen : length (rest d2) < f).
        { rewrite Hrest, app_length, Hbs in Hf. lia. }
        specialize (IH Hlen).
        rewrite (sref_shift _ st' d' (p - ptr)).
        destruct (sref (skipn p (w ++ rest rd0)) st' d' 0) as [m|]; cbn [option_map]; [|exact IH].
        destruct IH as (r' & Hout & Hr' & Hs' & Hpos' & Hcap'').
        exists r'. split; [exact Hout|]. split; [exact Hr'|].
        unfold stream_of, reader_position in *. cbn [rbw rrd Nat.add] in *.
        replace (ptr + (m + (p - ptr))) with (m + p) by lia.
        split; [rewrite Hs', Hstream, skipn_skipn; reflexivity|]. split; [rewrite Hpos', Hpos2; lia|].
        rewrite Hcap'', Hcap2. reflexivity.
    + (* a full buffer: only possible on a backslash, excluded by the capacity condition *)
      exfalso. destruct Hcap as [[Hc0 _]|[Hc1 Hc3]]; [lia|].
      destruct Hc as [->|(-> & (c & Hn & Hb) & Hl)]; [lia|].
      assert (3 <= cap b); [|lia].
      apply Hc3, Hes. apply (sesc_on_backslash _ p c).
      * rewrite nth_error_app1; [exact Hn|]. apply nth_error_Some. congruence.
      * exact Hb.
Qed.

(* Theorem 3 *)
Definition skip_cap_ok (r : reader) : Prop :=
  (cap (rbw r) = 0 /\ rest (rrd r) = []) \/ skip_need (stream_of r) <= cap (rbw r).

Theorem skip_container_stream input fuel r :
  wf_bytes input -> rok input r -> skip_cap_ok r -> length (rest (rrd r)) < fuel ->
  match skip_ref (stream_of r) with
  | Some n => skip_lands input r n (skip_container fuel r)
  | None => skip_container fuel r = Err E_Eof
  end.
Proof.
  intros Hwf Hrok Hcap Hf.
  assert (Hc : skcap r 0 SkNone 1%Z).
  { destruct Hcap as [H|H]; [left; exact H|right]. unfold skip_need in H. cbn [skipn].
    destruct (sesc (stream_of r) SkNone 1%Z); [split; [lia|intros _; exact H]|split; [lia|discriminate]]. }
  pose proof (skip_loop_spec input Hwf fuel r 0 SkNone 1%Z Hrok ltac:(lia) Hc Hf) as H.
  cbn [skipn Nat.add] in H. exact H.
Qed.

(* ------------------------------------------------------------------ a buffer that is too small *)
(* in a window of at most two bytes the scan never steps over a backslash *)
Lemma scan_small : forall fuel w x ptr st d,
  ptr <= length w -> length w - ptr < fuel -> length w <= 2 ->
  match sk_scan_bytes fuel w ptr st d with
  | SkDone _ => sesc (skipn ptr (w ++ x)) st d = false
  | SkRefill p st' d' => sesc (skipn ptr (w ++ x)) st d = sesc (skipn p (w ++ x)) st' d'
  | SkCrash _ => True
  end.
Proof.
  induction fuel as [|f IH]; intros w x ptr st d Hp Hf Hw; [lia|].
  cbn [sk_scan_bytes].
  destruct (nth_error w ptr) as [c|] eqn:En.
  2:{ destruct st; reflexivity. }
  assert (Hlt : ptr < length w) by (apply nth_error_Some; congruence).
  pose proof (skipn_app_cons w x ptr c En) as Hsk.
  assert (Hone : forall st' d', sesc (skipn ptr (w ++ x)) st d = sesc (skipn (S ptr) (w ++ x)) st' d' ->
     match sk_scan_bytes f w (S ptr) st' d' with
     | SkDone _ => sesc (skipn ptr (w ++ x)) st d = false
     | SkRefill p st2 d2 => sesc (skipn ptr (w ++ x)) st d = sesc (skipn p (w ++ x)) st2 d2
     | SkCrash _ => True
     end).
  { intros st' d' H1. specialize (IH w x (S ptr) st' d' ltac:(lia) ltac:(lia) Hw).
    destruct (sk_scan_bytes f w (S ptr) st' d'); [congruence|congruence|exact I]. }
  destruct st.
  - destruct (b_is c 123) eqn:E1.
    { apply Hone. rewrite Hsk. cbn [sesc]. rewrite E1. reflexivity. }
    destruct (b_is c 125) eqn:E2.
    { destruct (d - 1 =? 0)%Z eqn:Ez.
      - rewrite Hsk. cbn [sesc]. rewrite E1, E2, Ez. reflexivity.
      - apply Hone. rewrite Hsk. cbn [sesc]. rewrite E1, E2, Ez. reflexivity. }
    destruct (b_is c 34) eqn:E3.
    { apply Hone. rewrite Hsk. cbn [sesc]. rewrite E1, E2, E3. reflexivity. }
    destruct (b_is c 35) eqn:E4.
    { apply Hone. rewrite Hsk. cbn [sesc]. rewrite E1, E2, E3, E4. reflexivity. }
    apply Hone. rewrite Hsk. cbn [sesc]. rewrite E1, E2, E3, E4. reflexivity.
  - destruct (b_is c 92) eqn:E1.
    { replace (Nat.leb (length w - ptr) 2) with true by (symmetry; apply Nat.leb_le; lia). reflexivity. }
    destruct (b_is c 34) eqn:E2.
    { apply Hone. rewrite Hsk. cbn [sesc]. rewrite E1, E2. reflexivity. }
    apply Hone. rewrite Hsk. cbn [sesc]. rewrite E1, E2. reflexivity.
  - destruct (b_is c 10) eqn:E1.
    { apply Hone. rewrite Hsk. cbn [sesc]. rewrite E1. reflexivity. }
    apply Hone. rewrite Hsk. cbn [sesc]. rewrite E1. reflexivity.
Qed.

Theorem skip_loop_full input : wf_bytes input -> forall fuel r ptr st d,
  rok input r -> ptr <= length (win (rbw r)) -> 0 < cap (rbw r) < 3 ->
  sesc (skipn ptr (stream_of r)) st d = true ->
  length (rest (rrd r)) < fuel ->
  skip_container_loop fuel r ptr st d = Err E_BufferFull \/
  (skip_container_loop fuel r ptr st d = Err E_Eof /\ sref (skipn ptr (stream_of r)) st d 0 = None).
Proof.
  intros Hwf. induction fuel as [|f IH]; intros r ptr st d Hrok Hp Hcap Hesc Hf; [lia|].
  destruct r as [b rd0 bom]. unfold stream_of in *. cbn [rbw rrd] in *.
  cbn [skip_container_loop rbw rrd rbom].
  pose proof (rok_wf input _ Hwf Hrok) as Hww. cbn [rbw] in Hww.
  assert (Hw2 : length (win b) <= 2) by (destruct Hrok as (_ & _ & [H|H]); cbn [rbw] in H; lia).
  set (w := win b) in *.
  rewrite (sk_scan_wide_eq_bytes (S (S (length w))) (S (S (length w))) w ptr st d Hww) by lia.
  pose proof (scan_window (S (S (length w))) w (rest rd0) ptr st d Hp ltac:(lia)) as Hscan.
  pose proof (scan_small (S (S (length w))) w (rest rd0) ptr st d Hp ltac:(lia) Hw2) as Hsm.
  destruct (sk_scan_bytes (S (S (length w))) w ptr st d) as [adv|p st' d'|s]; cbn [wpost] in Hscan; [congruence| |contradiction].
  destruct Hscan as (Ha & Hk & Hc & _).
  destruct (rok_advance input b rd0 bom bom p Hrok ltac:(fold w; lia)) as [Hadv _].
  rewrite Hadv. fold w.
  pose proof (refill_fill input b rd0 bom (length w - p) Hrok ltac:(fold w; lia)) as Hfill.
  fold w in Hfill. cbv zeta in Hfill.
  replace (length w - (length w - p)) with p in Hfill by lia.
  destruct Hfill as [Hcb Hfill].
  rewrite (Hk 0). cbn [Nat.add].
  assert (Hend : rest rd0 = [] -> sref (skipn p (w ++ rest rd0)) st' d' (p - ptr) = None).
  { intros Hr. rewrite Hr, app_nil_r. destruct Hc as [->|(-> & (c & Hn & Hb) & Hl)].
    - rewrite skipn_all. reflexivity.
    - apply (sref_esc_short _ c); [|exact Hb|rewrite skipn_length; exact Hl].
      rewrite (skipn_nth_cons _ _ _ Hn). reflexivity. }
  destruct (bw_fill_buf (mkbw (cap b) (skipn p w) (consumed b + p) (prior b)) rd0) as [n b2 d2|b2 d2|b2 d2];
    [|contradiction|left; reflexivity].
  destruct Hfill as (bs & Hbs & Hrest & Hwin2 & Hcap2 & Hpos2 & Hrok2 & Hz).
  destruct n as [|n].
  - right. split; [reflexivity|]. apply Hend. destruct (Hz eq_refl) as [Hc0|[Hr _]]; [lia|exact Hr].
  - assert (Hstream : win b2 ++ rest d2 = skipn p (w ++ rest rd0)).
    { rewrite Hwin2, Hrest, <- app_assoc. rewrite skipn_app_le by lia. reflexivity. }
    specialize (IH (mkreader b2 d2 bom) 0 st' d' (Hrok2 bom) ltac:(lia)).
    unfold stream_of in IH. cbn [rbw rrd skipn] in IH. rewrite Hstream, Hcap2 in IH.
    specialize (IH Hcap ltac:(congruence)).
    assert (Hlen : length (rest d2) < f) by (rewrite Hrest, app_length, Hbs in Hf; lia).
    destruct (IH Hlen) as [H|[H1 H2]]; [left; exact H|right]. split; [exact H1|].
    rewrite sref_shift, H2. reflexivity.
Qed.

Theorem skip_container_full input fuel r :
  wf_bytes input -> rok input r -> 0 < cap (rbw r) < skip_need (stream_of r) ->
  length (rest (rrd r)) < fuel ->
  skip_container fuel r = Err E_BufferFull \/
  (skip_container fuel r = Err E_Eof /\ skip_ref (stream_of r) = None).
Proof.
  intros Hwf Hrok Hcap Hf. unfold skip_need in Hcap.
  destruct (sesc (stream_of r) SkNone 1%Z) eqn:He; [|lia].
  apply (skip_loop_full input Hwf fuel r 0 SkNone 1%Z Hrok ltac:(lia) Hcap He Hf).
Qed.

(* ------------------------------------------------------------------ from a fresh reader *)
Lemma rok_new input capv sch : no_fail sch -> rok input (reader_new capv input sch).
Proof.
  intros Hnf. unfold rok, reader_new. cbn [rbw rrd bw_new sched cap win length].
  split; [exists []; cbn [app win rest bw_new]; split; reflexivity|]. split; [exact Hnf|right; lia].
Qed.

Lemma skip_need_le s : 1 <= skip_need s <= 3.
Proof. unfold skip_need. destruct (sesc s SkNone 1%Z); lia. Qed.
