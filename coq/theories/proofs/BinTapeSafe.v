(* No unchecked access, unreachable!, debug_assert! or fuel exhaustion of the binary tape parser is
   ever reached (the binary-tape part of C05; J2/J3 of DESIGN A.2): under the loop invariant one
   reference iteration never crashes, and the optimised interpretation inherits it through the
   simulation (its result is the result of a reference iteration, up to [obs]). *)
From JV Require Import Bytes Tables BinPrim BinTape BinTapeWf.
From JV.proofs Require Import BinTapeWfProofs BinTapeInv BinTapeSim.
Require Import Lia.
Open Scope nat_scope.

Lemma push_end_no_crash : forall par t, open_inv par t -> is_crash (push_end par t) = false.
Proof.
  intros par t Ho. unfold push_end. destruct (nth_error t par) as [c|] eqn:En; [|reflexivity].
  assert (K : forall c' g, container_end c = Some g -> container_end c' = Some (length t) ->
              is_crash (push_end_fin c' g par t) = false).
  { intros c' g Hc Hc'. unfold push_end_fin.
    pose proof (open_inv_close _ _ _ _ _ Ho En Hc Hc') as Hcl. fold (push (upd t par c') (TEnd par)) in Hcl.
    destruct (nth_error (push (upd t par c') (TEnd par)) g) as [x|] eqn:Eg; [destruct x; reflexivity|].
    exfalso. destruct (Nat.eq_dec g 0) as [->|Hg].
    - apply nth_error_None in Eg. rewrite push_length in Eg. lia.
    - destruct (open_inv_parent _ _ Hcl Hg) as (c1 & g1 & A & _). congruence. }
  destruct c; try reflexivity; eapply K; reflexivity.
Qed.

Lemma scalar_arm_no_crash : forall k d ps par t, is_crash (scalar_arm k d ps par t) = false.
Proof.
  intros. unfold scalar_arm. destruct (read_scalar_cases k d) as [(v & r & E & _)|(e & E)]; rewrite E; cbn [obind]; [|reflexivity].
  rewrite next_state_ok. reflexivity.
Qed.

Lemma slow_ref_no_crash : forall d id ps par t,
  open_inv par t -> st_ok ps par t -> is_crash (slow false d id ps par t) = false.
Proof.
  intros d id ps0 par t0 Ho0 Hs0. unfold slow.
  assert (exists ps t, (match ps0 with
                        | ObjectToArray => do t' <- mixed_insert2 t0; Ok (ArrayValueMixed, t')
                        | _ => Ok (ps0, t0) end) = Ok (ps, t) /\ open_inv par t /\ st_ok ps par t /\ ps <> ObjectToArray)
    as (ps & t & E & Ho & Hs & Hne).
  { destruct ps0; try (eexists _, t0; split; [reflexivity|]; split; [assumption|]; split; [assumption|discriminate]).
    cbn in Hs0. pose proof Hs0 as (tt & x & y & -> & _).
    change (tt ++ [x; y]) with (tt ++ [x] ++ [y]) in *. rewrite app_assoc in *.
    destruct (mixed_insert2 ((tt ++ [x]) ++ [y])) as [t1| | | |] eqn:Em;
      try (unfold mixed_insert2 in Em; rewrite !pop_snoc in Em; discriminate).
    destruct (mixed_insert2_inv _ _ _ Ho0 Hs0 Em). exists ArrayValueMixed, t1. repeat split; auto. discriminate. }
  rewrite E. cbn [obind]. clear E Ho0 Hs0.
  destruct (classify id); try apply scalar_arm_no_crash; try (rewrite next_state_ok; reflexivity).
  - pose proof (scalar_arm_no_crash KI32 d ps par t). destruct (scalar_arm KI32 d ps par t); auto.
  - destruct (negb (is_key ps)); [reflexivity|]. destruct t; [reflexivity|].
    destruct (read_id_cases d) as [(i2 & r2 & E & _)|E]; rewrite E; cbn [obind]; [|reflexivity].
    destruct (N.eqb i2 L_CLOSE); reflexivity.
  - assert ((exists t1, (match ps with KeyValueSeparator => mixed_insert1 t | ObjectValue => Err E_Syntax | _ => Ok t end) = Ok t1
                        /\ open_inv par t1) \/ ps = ObjectValue) as [(t1 & E1 & Ho1)| ->].
    { destruct ps; try (left; exists t; split; auto; fail); [right; reflexivity|left].
      cbn in Hs. destruct Hs as [_ Hs]. pose proof Hs as (tt & x & -> & _).
      unfold mixed_insert1 at 1. rewrite pop_snoc. eexists. split; [reflexivity|].
      eapply mixed_insert1_inv; eauto. unfold mixed_insert1. now rewrite pop_snoc. }
    + rewrite E1. cbn [obind]. pose proof (push_end_no_crash _ _ Ho1).
      destruct (push_end par t1) as [[r t']| | | |]; auto.
    + reflexivity.
  - destruct ps; try reflexivity.
    + cbn in Hs. destruct Hs as [g Hg].
      destruct (pop t) as [[t1 last]|] eqn:Ep.
      * apply pop_some in Ep. subst t. destruct (is_array_or_end last) eqn:Ea; [reflexivity|].
        destruct (open_inv_last_in_array _ _ _ _ Ho Hg Ea) as [Hl Hlen].
        rewrite nth_error_app1 in Hg by lia.
        destruct (only_empties par t1); [|reflexivity].
        unfold set_parent_to_object. rewrite Hg. reflexivity.
      * apply pop_none in Ep. subst. destruct par; discriminate.
    + cbn in Hs. destruct Hs as [g Hg]. unfold set_parent_to_object. rewrite Hg. reflexivity.
  - destruct ps; try (rewrite next_state_ok; reflexivity).
    destruct (read_scalar_cases KRgb d) as [(v & r & E & _)|(e & E)]; rewrite E; reflexivity.
Qed.

Lemma iter_ref_no_crash : forall s r, Inv s -> iter false false s = Done r -> is_crash r = false.
Proof.
  intros s r [Ho Hs] H. destruct (get_split 2 (s_data s)) as [[h d]|] eqn:Eg.
  - rewrite (iter_ref_unfold _ _ _ Eg) in H.
    pose proof (slow_ref_no_crash d (le_word 2 h) _ _ _ Ho Hs) as Hn.
    destruct (slow false d (le_word 2 h) (s_ps s) (s_par s) (s_tape s)); try discriminate; inversion H; reflexivity.
  - unfold iter in H. rewrite Eg in H. inversion H. unfold finish. destruct (s_par s); [destruct (s_ps s)|]; reflexivity.
Qed.

Theorem parse_no_crash : forall fx opt d, is_crash (parse fx opt d) = false.
Proof.
  intros fx opt d. destruct opt.
  - unfold parse.
    pose proof (opt_halts fx (S (length d)) (init d) (Inv_init d) (Nat.lt_succ_diag_r _)) as (s' & r & A & B & C).
    apply iter_ref_no_crash in B; [|eapply xstar_inv; eauto; apply Inv_init].
    destruct (loop fx true (S (length d)) (init d)); try reflexivity; destruct r; discriminate.
  - unfold parse. assert (G : forall f s, Inv s -> length (s_data s) < f -> is_crash (loop fx false f s) = false).
    { induction f; intros s HI Hl; [lia|]. cbn [loop]. rewrite iter_fx_irrelevant.
      destruct (iter false false s) as [s1|r] eqn:E.
      - apply IHf; [eapply iter_ref_inv; eauto|].
        assert (xstep true s s1) by (left; exact E). apply xstep_data_lt in H. lia.
      - eapply iter_ref_no_crash; eauto. }
    apply G; [apply Inv_init | cbn; lia].
Qed.
