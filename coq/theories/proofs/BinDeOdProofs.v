(* The on-demand deserializer (BinDeOndemand.v) simulates the specification walk over documents
   (BinDoc.ops_doc): [ops_sim] instance for the generic theorem of BinDeSim.v, then
   deser_ondemand (enc_doc d) = spec_value d on every document the shape fits. *)
From JV Require Import Bytes Tables BinPrim BinLexer SerdeShape BinDeCommon BinDeOndemand BinDoc.
From JV.proofs Require Import BinLexProofs BinRoundProofs BinSkipProofs BinSkipValueProofs BinDeSim BinDocProofs.
Open Scope N_scope.

Section OdSim.
  Variable cfg : bcfg.

  Definition R_od (phi : frame) (l : lexer) (c : dcur) : Prop :=
    wf_cur c = true /\ lx_data l = tail phi c.
  Definition RT_od (phi : frame) (tok : N) (l : lexer) (v : bval) (c : dcur) : Prop :=
    wf_val v = true /\ wf_cur c = true /\
    read_id (wbytes (toks_val v) ++ tail phi c) = Ok (tok, lx_data l).

  (* ---------- small facts about the lexer wrappers ---------- *)
  Lemma lift_lx {A} (f : bytes -> outcome (A * bytes)) l a r :
    f (lx_data l) = Ok (a, r) -> lift (lx_lift f l) = Ok (a, mklx r (lx_orig l)).
  Proof. intros H. unfold lift, lx_lift. rewrite H. reflexivity. Qed.

  Lemma od_prim_ok {A} (f : bytes -> outcome (A * bytes)) (g : A -> prim) l a r :
    f (lx_data l) = Ok (a, r) -> od_prim g (lx_lift f l) = Ok (APrim (g a), mklx r (lx_orig l)).
  Proof. intros H. unfold od_prim. rewrite (lift_lx _ _ _ _ H). reflexivity. Qed.

  (* the token that starts a value, and where the value's first token ends *)
  Lemma head_shape phi tok l v c : RT_od phi tok l v c ->
    exists ts, toks_val v = head_tok v :: ts /\ tok_shape (head_tok v) tok (lx_data l) (wbytes ts ++ tail phi c).
  Proof.
    intros (Wv & Wc & Hid). destruct (toks_val_head v) as [ts E]. exists ts. split; [exact E|].
    pose proof (wf_val_toks v Wv) as WT. rewrite E in WT, Hid. inversion WT as [|? ? Wh _]; subst.
    pose proof (read_token_wbytes (head_tok v) ts (tail phi c) Wh) as RTk.
    destruct (read_token_inv _ _ _ RTk) as (id & d1 & Ei & Hs).
    rewrite Hid in Ei. inversion Ei; subst. exact Hs.
  Qed.

  Ltac id_facts H :=
    let F := fresh "F" in
    pose proof (is_id_false_all _ H) as F;
    destruct F as (?&?&?&?&?&?&?&?&?&?&?&?&?).
  Ltac rw_false := repeat match goal with E : (_ =? _)%N = false |- _ => rewrite E; clear E end; cbn [orb].

  Lemma od_deser_scalar s tok l r : wf_scalar s = true -> tok_shape (tok_of s) tok (lx_data l) r ->
    od_deser cfg tok l = do p <- scalar_prim cfg s; Ok (APrim p, mklx r (lx_orig l)).
  Proof.
    intros W H. destruct s; cbn [tok_of tok_shape scalar_prim] in *.
    1:{ destruct H as (-> & Hi & ->). id_facts Hi. unfold od_deser. rw_false. destruct l; reflexivity. }
    all: destruct H as [-> H]; unfold od_deser; eval_ids.
    all: unfold od_string, lx_read_string, lx_read_i32, lx_read_u32, lx_read_u64, lx_read_i64, lx_read_bool, lx_read_f32, lx_read_f64.
    1,2: rewrite (lift_lx _ _ _ _ H); reflexivity.
    all: rewrite (od_prim_ok _ _ _ _ _ H); reflexivity.
  Qed.

  Lemma od_dispatch_scalar iskey h s tok l r : wf_scalar s = true -> tok_shape (tok_of s) tok (lx_data l) r ->
    h <> HIgnored -> (forall id, h = HU16 -> s <> SId id) ->
    od_dispatch cfg iskey h tok l = od_deser cfg tok l.
  Proof.
    intros W H NI NU. destruct s; cbn [tok_of tok_shape] in *.
    1:{ destruct H as (-> & Hi & ->). id_facts Hi.
        destruct h; unfold od_dispatch; rw_false; try reflexivity; try congruence.
        exfalso. eapply NU; reflexivity. }
    all: destruct H as [-> H]; destruct h; try congruence; unfold od_dispatch, od_deser; eval_ids; reflexivity.
  Qed.

  Notation AR := (act_rel (ops_od cfg) (ops_doc cfg) R_od cur_done is_root (fun (_ : hint) (a b : prim) => a = b)).

  Lemma od_ignored phi iskey tok l v c : RT_od phi tok l v c ->
    od_dispatch cfg iskey HIgnored tok l = Ok (APrim PUnit, mklx (tail phi c) (lx_orig l)).
  Proof.
    intros (Wv & Wc & Hid). unfold od_dispatch.
    pose proof (lexer_skip_value_lands _ _ _ _ (lx_orig l) Hid (value_read_val v _ Wv)) as E.
    destruct l as [d o]. cbn [lx_data lx_orig] in *. unfold lift. rewrite E. reflexivity.
  Qed.

  Lemma doc_dispatch_scalar iskey h s c : h <> HIgnored -> (forall id, h = HU16 -> s <> SId id) ->
    doc_dispatch cfg iskey h (VScalar s) c = do p <- scalar_prim cfg s; Ok (APrim p, c).
  Proof.
    intros NI NU. destruct h; try congruence; destruct s; try reflexivity.
    exfalso. eapply NU; reflexivity.
  Qed.

  Lemma hint_ign_dec (h : hint) : {h = HIgnored} + {h <> HIgnored}.
  Proof. destruct h; (left; reflexivity) || (right; discriminate). Qed.
  Lemma hint_map_dec (h : hint) : {h = HMap} + {h <> HMap}.
  Proof. destruct h; (left; reflexivity) || (right; discriminate). Qed.
  Lemma hint_u16_dec (h : hint) : {h = HU16} + {h <> HU16}.
  Proof. destruct h; (left; reflexivity) || (right; discriminate). Qed.

  Lemma R_od_intro phi d o c : wf_cur c = true -> d = tail phi c -> R_od phi (mklx d o) c.
  Proof. intros W E. split; [exact W|exact E]. Qed.

  (* leaving a nested access whose document cursor is exhausted *)
  Lemma exit_done phi c l' sub2 : wf_cur c = true -> R_od (FIn (tail phi c)) l' sub2 -> cur_done sub2 ->
    R_od phi l' c.
  Proof. intros W (_ & E) D. red in D. subst. split; [exact W|]. rewrite E. reflexivity. Qed.

  Lemma od_H_disp phi iskey h tok l v c : RT_od phi tok l v c ->
    sim (AR phi h) (od_dispatch cfg iskey h tok l) (doc_dispatch cfg iskey h v c).
  Proof.
    intros HRT. destruct (head_shape _ _ _ _ _ HRT) as (ts & E & Hs).
    pose proof HRT as (Wv & Wc & Hid).
    destruct v as [s|c0|vs|fs g]; cbn [head_tok toks_val] in E, Hs; inversion E; subst ts; clear E.
    - (* scalar *)
      cbn [wbytes map concat app] in Hs. cbn [wf_val] in Wv.
      destruct (hint_ign_dec h) as [->|NI].
      { destruct iskey; [left; destruct s; reflexivity|].
        rewrite (od_ignored _ _ _ _ _ _ HRT). replace (doc_dispatch cfg false HIgnored (VScalar s) c) with (Ok (APrim (S:=dcur) (C:=rgb) PUnit, c)) by (destruct s; reflexivity).
        apply sim_ok. split; [reflexivity|apply R_od_intro; [exact Wc|reflexivity]]. }
      destruct (hint_u16_dec h) as [->|NU].
      { destruct s; try (rewrite (od_dispatch_scalar iskey HU16 _ _ _ _ Wv Hs) by (try discriminate; intros; discriminate);
                         rewrite (od_deser_scalar _ _ _ _ Wv Hs), doc_dispatch_scalar by (try discriminate; intros; discriminate);
                         destruct (scalar_prim cfg _); cbn [obind]; try (right; reflexivity); try (right; exact I);
                         apply sim_ok; split; [reflexivity|apply R_od_intro; [exact Wc|reflexivity]]).
        destruct iskey; [|left; reflexivity].
        cbn [tok_of tok_shape] in Hs. destruct Hs as (-> & Hi & Hd).
        unfold od_dispatch. rewrite Hi. cbn [doc_dispatch]. apply sim_ok. split; [reflexivity|].
        split; [exact Wc|symmetry; exact Hd]. }
      rewrite (od_dispatch_scalar iskey h _ _ _ _ Wv Hs) by (try assumption; intros; congruence).
      rewrite (od_deser_scalar _ _ _ _ Wv Hs), doc_dispatch_scalar by (try assumption; intros; congruence).
      destruct (scalar_prim cfg s); cbn [obind]; try (right; reflexivity); try (right; exact I).
      apply sim_ok. split; [reflexivity|apply R_od_intro; [exact Wc|reflexivity]].
    - (* rgb *)
      cbn [wbytes map concat app] in Hs. cbn [tok_shape] in Hs. destruct Hs as [-> Hr].
      destruct iskey; [left; reflexivity|].
      destruct (hint_ign_dec h) as [->|NI].
      { rewrite (od_ignored _ _ _ _ _ _ HRT). apply sim_ok. split; [reflexivity|apply R_od_intro; [exact Wc|reflexivity]]. }
      destruct (hint_map_dec h) as [->|NM]; [left; reflexivity|].
      assert (Eo : od_dispatch cfg false h L_RGB l = Ok (AColor c0, mklx (tail phi c) (lx_orig l))).
      { assert (Er : od_rgb l = Ok (AColor (S:=lexer) c0, mklx (tail phi c) (lx_orig l))).
        { unfold od_rgb, lx_read_rgb. rewrite (lift_lx _ _ _ _ Hr). reflexivity. }
        destruct h; try congruence; unfold od_dispatch, od_deser; eval_ids; exact Er. }
      rewrite Eo. replace (doc_dispatch cfg false h (VRgb c0) c) with (Ok (AColor (S:=dcur) c0, c)) by (destruct h; try reflexivity; congruence).
      apply sim_ok. split; [reflexivity|apply R_od_intro; [exact Wc|reflexivity]].
    - (* array *)
      cbn [tok_shape] in Hs. destruct Hs as [-> Hd].
      destruct iskey; [left; reflexivity|].
      destruct (hint_ign_dec h) as [->|NI].
      { rewrite (od_ignored _ _ _ _ _ _ HRT). apply sim_ok. split; [reflexivity|apply R_od_intro; [exact Wc|reflexivity]]. }
      assert (HI : R_od (FIn (tail phi c)) l (CSeq vs)).
      { split; [exact Wv|]. rewrite <- Hd. reflexivity. }
      destruct (hint_map_dec h) as [->|NM].
      + destruct vs as [|v0 vs]; [|left; reflexivity].
        unfold od_dispatch. eval_ids. cbn [doc_dispatch]. apply sim_ok.
        exists (FIn (tail phi c)). split; [reflexivity|]. split.
        * split; [reflexivity|]. destruct HI as [_ HI]. rewrite HI. unfold tail. cbn [cur_toks pend_toks frame_rest flat_map close_toks ghost_toks toks_fields app]. reflexivity.
        * intros sub1' sub2' HR' HD. cbn [snd p_map_exit ops_od ops_doc]. apply sim_ok.
          eapply exit_done; eassumption.
      + assert (Eo : od_dispatch cfg false h L_OPEN l = Ok (ASeq l, l)).
        { destruct h; try congruence; unfold od_dispatch, od_deser; eval_ids; reflexivity. }
        rewrite Eo. replace (doc_dispatch cfg false h (VArr vs) c) with (Ok (ASeq (C:=rgb) (CSeq vs), c)) by (destruct h; try reflexivity; congruence).
        apply sim_ok. exists (FIn (tail phi c)). split; [exact HI|].
        intros sub1' sub2' dr HR' HD HF. cbn [snd p_seq_exit ops_od ops_doc].
        destruct dr.
        * replace (od_seq_exit h l sub1' true) with (Ok (A:=lexer) sub1') by (destruct h; reflexivity).
          replace (doc_seq_exit h c sub2' true) with (Ok (A:=dcur) c) by (destruct h; reflexivity).
          apply sim_ok. eapply exit_done; [exact Wc|exact HR'|apply HD; reflexivity].
        * rewrite (HF eq_refl). cbn [od_seq_exit doc_seq_exit].
          destruct sub2' as [[|x xs]|? ? ?|]; try (left; reflexivity).
          destruct HR' as [_ HR']. rewrite tail_seq_nil in HR'. cbn [frame_rest] in HR'.
          unfold lx_read_id. rewrite (lift_lx _ _ L_CLOSE (tail phi c)) by (rewrite HR'; apply read_id_w16; reflexivity).
          cbn [obind]. eval_ids. apply sim_ok. apply R_od_intro; [exact Wc|reflexivity].
    - (* object *)
      cbn [tok_shape] in Hs. destruct Hs as [-> Hd].
      destruct iskey; [left; reflexivity|].
      destruct (hint_ign_dec h) as [->|NI].
      { rewrite (od_ignored _ _ _ _ _ _ HRT). apply sim_ok. split; [reflexivity|apply R_od_intro; [exact Wc|reflexivity]]. }
      destruct (hint_map_dec h) as [->|NM]; [|left; destruct h; try reflexivity; congruence].
      unfold od_dispatch. eval_ids. cbn [doc_dispatch]. apply sim_ok.
      exists (FIn (tail phi c)). split; [reflexivity|]. split.
      * split.
        { cbn [wf_val] in Wv. apply andb_prop in Wv as [_ Wv]. cbn [wf_cur]. rewrite andb_true_r. exact Wv. }
        rewrite <- Hd. unfold tail. cbn [cur_toks pend_toks frame_rest close_toks app]. reflexivity.
      * intros sub1' sub2' HR' HD. cbn [snd p_map_exit ops_od ops_doc]. apply sim_ok.
        eapply exit_done; eassumption.
  Qed.

  (* ---------- reading the id that starts an encoded value ---------- *)
  Lemma read_id_val v X : wf_val v = true ->
    exists id d1, read_id (wbytes (toks_val v) ++ X) = Ok (id, d1) /\
                  (id =? L_CLOSE) = false /\ (id =? L_EQUAL) = false /\
                  (match v with VScalar s => key_kind s = true -> (id =? L_OPEN) = false | _ => True end).
  Proof.
    intros Wv. destruct (toks_val_head v) as [ts E]. pose proof (wf_val_toks v Wv) as WT.
    rewrite E in WT |- *. inversion WT as [|? ? Wh _]; subst.
    destruct (read_token_inv _ _ _ (read_token_wbytes (head_tok v) ts X Wh)) as (id & d1 & Ei & Hs).
    exists id, d1. split; [exact Ei|].
    destruct v as [s|c0|vs|fs g]; cbn [head_tok tok_shape] in Hs.
    - destruct s; cbn [tok_of tok_shape] in Hs.
      1:{ destruct Hs as (-> & Hi & _). id_facts Hi. repeat split; intros; assumption. }
      all: destruct Hs as [-> _]; repeat split; try reflexivity; intros K; try discriminate K; reflexivity.
    - destruct Hs as [-> _]. repeat split; reflexivity.
    - destruct Hs as [-> _]. repeat split; reflexivity.
    - destruct Hs as [-> _]. repeat split; reflexivity.
  Qed.

  Notation TR := (tok_rel R_od RT_od cur_done).

  Lemma od_H_elem phi l c : R_od phi l c -> sim (TR phi) (od_next_elem l) (doc_next_elem c).
  Proof.
    intros (Wc & Hd). destruct c as [[|v vs]|? ? ?|]; try (left; reflexivity).
    - rewrite tail_seq_nil in Hd. cbn [doc_next_elem]. unfold od_next_elem, lx_read_id.
      rewrite (lift_lx _ _ L_CLOSE (frame_rest phi)) by (rewrite Hd; apply read_id_w16; reflexivity).
      cbn [obind]. eval_ids. apply sim_ok. split; [|reflexivity]. split; reflexivity.
    - rewrite tail_seq_cons in Hd. cbn [wf_cur forallb] in Wc. apply andb_prop in Wc as [Wv Wvs].
      destruct (read_id_val v (tail phi (CSeq vs)) Wv) as (id & d1 & Ei & NC & _).
      cbn [doc_next_elem]. unfold od_next_elem, lx_read_id.
      rewrite (lift_lx _ _ id d1) by (rewrite Hd; exact Ei).
      cbn [obind]. rewrite NC. apply sim_ok. unfold tok_rel. cbn [fst snd].
      split; [exact Wv|]. split; [exact Wvs|exact Ei].
  Qed.

  Lemma od_H_val phi l c : R_od phi l c ->
    sim (fun p1 p2 => RT_od phi (fst p1) (snd p1) (fst p2) (snd p2)) (od_next_value l) (doc_next_value c).
  Proof.
    intros (Wc & Hd). destruct c as [?|fs g [v|]|]; try (left; reflexivity).
    rewrite tail_map_pending in Hd. cbn [wf_cur] in Wc. apply andb_prop in Wc as [Wf Wv].
    destruct (read_id_val v (tail phi (CMap fs g None)) Wv) as (id & d1 & Ei & _).
    cbn [doc_next_value]. unfold od_next_value, lx_read_id.
    rewrite (lift_lx _ _ L_EQUAL (wbytes (toks_val v) ++ tail phi (CMap fs g None))) by (rewrite Hd; apply read_id_w16; reflexivity).
    cbn [obind]. eval_ids.
    rewrite (lift_lx read_id (mklx _ _) id d1) by exact Ei.
    apply sim_ok. cbn [fst snd]. split; [exact Wv|]. split; [|exact Ei].
    cbn [wf_cur]. rewrite Wf. reflexivity.
  Qed.

  (* ---------- the key loop ---------- *)
  Lemma key_loop_ghost f root l X : lx_data l = wbytes [BOpen; BClose] ++ X ->
    od_key_loop (S f) root l = od_key_loop f root (mklx X (lx_orig l)).
  Proof.
    intros Hd. cbn [od_key_loop]. unfold lx_read_id at 1, lx_lift. rewrite Hd.
    change (wbytes [BOpen; BClose] ++ X) with (w16 L_OPEN ++ (w16 L_CLOSE ++ []) ++ X).
    rewrite read_id_w16 by reflexivity. eval_ids.
    unfold lx_read_id. rewrite (lift_lx _ _ L_CLOSE X) by (cbn [lx_data]; rewrite app_nil_r; apply read_id_w16; reflexivity).
    reflexivity.
  Qed.

  Lemma key_loop_ghost_opt f root l g X : lx_data l = wbytes (ghost_toks g) ++ X -> (1 <= f)%nat ->
    exists f' l', od_key_loop (S f) root l = od_key_loop (S f') root l' /\ lx_data l' = X /\ lx_orig l' = lx_orig l.
  Proof.
    intros Hd Lf. destruct g.
    - destruct f as [|f]; [lia|]. exists f, (mklx X (lx_orig l)). split; [apply key_loop_ghost, Hd|split; reflexivity].
    - exists f, l. split; [reflexivity|split; [exact Hd|reflexivity]].
  Qed.

  Lemma key_loop_key f root l id d1 : read_id (lx_data l) = Ok (id, d1) ->
    (id =? L_CLOSE) = false -> (id =? L_OPEN) = false ->
    od_key_loop (S f) root l = Ok (Some id, mklx d1 (lx_orig l)).
  Proof.
    intros Ei NC NO. cbn [od_key_loop]. unfold lx_read_id, lx_lift. rewrite Ei, NC, NO. reflexivity.
  Qed.

  Lemma ghost_len g : (length (wbytes (ghost_toks g)) = if g then 4 else 0)%nat.
  Proof. destruct g; reflexivity. Qed.

  Lemma od_H_key phi root l c : is_root root phi -> R_od phi l c ->
    sim (TR phi) (od_next_key root l) (doc_next_key root c).
  Proof.
    intros HI (Wc & Hd). destruct c as [?|[|f fs] g [v|]|]; try (left; reflexivity).
    - (* no field left: a possible ghost, then the close / the end of the input *)
      rewrite tail_map_nil in Hd. cbn [doc_next_key]. unfold od_next_key.
      destruct phi as [|rest]; cbn [close_toks frame_rest is_root] in *.
      + subst root. cbn [wbytes map concat app] in Hd. rewrite app_nil_r in Hd.
        assert (Lf : (1 <= length (lx_data l) \/ g = false)%nat).
        { destruct g; [left; rewrite Hd; cbn; lia|right; reflexivity]. }
        assert (E : od_key_loop (S (length (lx_data l))) true l = Ok (None, mklx [] (lx_orig l))).
        { destruct g.
          - rewrite Hd at 1. cbn [length wbytes ghost_toks map concat app write_token w16 word_bytes].
            rewrite (key_loop_ghost _ true l []) by (rewrite Hd; rewrite app_nil_r; reflexivity).
            reflexivity.
          - cbn in Hd. rewrite Hd. cbn [length od_key_loop]. unfold lx_read_id, lx_lift. rewrite Hd. cbn. destruct l; cbn in *; subst; reflexivity. }
        rewrite E. apply sim_ok. split; [|reflexivity]. split; reflexivity.
      + subst root.
        destruct (key_loop_ghost_opt (length (lx_data l)) false l g (wbytes [BClose] ++ rest) Hd) as (f' & l' & E & Hd' & Ho).
        { rewrite Hd, app_length. cbn. destruct g; cbn; lia. }
        rewrite E. cbn [od_key_loop]. unfold lx_read_id, lx_lift. rewrite Hd'.
        change (wbytes [BClose] ++ rest) with (w16 L_CLOSE ++ [] ++ rest). cbn [app].
        rewrite read_id_w16 by reflexivity. eval_ids.
        apply sim_ok. split; [|reflexivity]. split; reflexivity.
    - (* a field: a possible ghost, then the key *)
      rewrite tail_map_cons in Hd. cbn [doc_next_key]. unfold od_next_key.
      cbn [wf_cur forallb] in Wc. rewrite andb_true_r in Wc. apply andb_prop in Wc as [Wf Wfs].
      unfold wf_field in Wf. apply andb_prop in Wf as [Wk Wv]. apply andb_prop in Wk as [Kk Wk].
      destruct (read_id_val (VScalar (bf_key f)) (tail phi (CMap fs g (Some (bf_val f)))) Wk) as (id & d1 & Ei & NC & _ & NO).
      specialize (NO Kk).
      destruct (key_loop_ghost_opt (length (lx_data l)) root l (bf_ghost f) _ Hd) as (f' & l' & E & Hd' & Ho).
      { rewrite Hd, !app_length. pose proof (write_token_len (tok_of (bf_key f))). lia. }
      rewrite E. cbn [toks_val wbytes map concat] in Ei. rewrite app_nil_r in Ei.
      rewrite (key_loop_key f' root l' id d1) by (try assumption; rewrite Hd'; exact Ei).
      apply sim_ok. unfold tok_rel. cbn [fst snd lx_data]. split; [exact Wk|]. split.
      + cbn [wf_cur]. rewrite Wfs, Wv. reflexivity.
      + cbn [toks_val wbytes map concat]. rewrite app_nil_r. exact Ei.
  Qed.

  Theorem od_ops_sim : ops_sim (c_fops cfg) (ops_od cfg) (ops_doc cfg) R_od RT_od cur_done is_root (fun (_ : hint) (a b : prim) => a = b).
  Proof.
    constructor.
    - intros. apply od_H_disp. assumption.
    - intros. apply od_H_elem. assumption.
    - intros. apply od_H_key; assumption.
    - intros. apply od_H_val. assumption.
    - reflexivity.
    - intros; subst; reflexivity.
    - intros; subst; reflexivity.
    - intros; subst; reflexivity.
  Qed.

  (* ---------- the on-demand path computes the specified value ---------- *)
  Theorem ondemand_eq_spec_fuel fuel sh fs g : wf_doc fs g = true ->
    sim eq (walk_root (c_fops cfg) (ops_od cfg) fuel sh (lx_new (enc_doc fs g))) (spec_value cfg fuel sh fs g).
  Proof.
    intros W. unfold spec_value.
    apply (walk_root_sim (c_fops cfg) (ops_od cfg) (ops_doc cfg) R_od RT_od cur_done is_root (fun (_ : hint) (a b : prim) => a = b) od_ops_sim fuel FRoot).
    - reflexivity.
    - unfold wf_doc in W. apply andb_prop in W as [W _]. apply andb_prop in W as [_ W].
      split; [cbn [wf_cur]; rewrite W; reflexivity|].
      unfold lx_new, enc_doc, tail. cbn [lx_data cur_toks pend_toks close_toks frame_rest app].
      rewrite !app_nil_r. reflexivity.
  Qed.
End OdSim.
