(* C05 for the streaming TEXT reader (TextReader.v over BufWin.v): no entry point reaches a crash
   constructor (NCrash / OCrash / SkCrash -> Panic / OOB) or runs out of fuel, for every input,
   every read schedule (Fail events included), every buffer capacity > 0 and the slice window.

   next_opt / run_next / run_stream / run_slice: through fault erasure (FaultProofs.run_lockstep,
     next_opt_erase) onto the fault-free twin, where either the C07 step theorem applies (the
     pending atom fits the buffer: next_opt_step / run_spec) or the buffer is too small
     (next_opt_full / run_full: BufferFull).  The crash constructors of the model include fuel
     exhaustion (NCrash 7003 = refill ran out of fuel, OCrash 7099 = run_next ran out of
     iterations, ACrash 7001 / SkCrash 7030 = scan loops), so "no crash" is also termination.
   read_bytes / skip_container / skip_unquoted_value: direct inductions, no hypothesis on the
     reader state at all (any window, any capacity incl. 0, any schedule), with the explicit fuel
     bounds  |unread| < fuel  (|unread| + 1 < fuel for skip_unquoted_value, which hands its
     remaining fuel to skip_container). *)
From JV Require Import Bytes Tables U64Swar BufWin TextTok TextReader TextRef.
From JV.proofs Require Import BufWinProofs TextReaderProofs TextRefProofs TextFbProofs TextFastProofs
  TextReaderMainProofs TextReaderFullProofs FaultProofs.
From Coq Require Import Lia List Arith.
Import ListNotations.
Open Scope nat_scope.

(* ---------- the buffer: a non-empty fill takes its bytes from the unread data ---------- *)
Lemma fill_ok_rest b d n b2 d2 :
  bw_fill_buf b d = FillOk n b2 d2 -> length (rest d2) + n = length (rest d).
Proof.
  unfold bw_fill_buf. destruct (Nat.leb (cap b) (length (win b))).
  - destruct (Nat.eqb (cap b) 0); [|discriminate]. intros H. inversion H; subst. lia.
  - destruct (rd_read d (cap b - length (win b))) as [[bs d']| | | |] eqn:E; try discriminate.
    intros H. inversion H; subst. destruct (rd_read_split _ _ _ _ E) as (Hs & _). rewrite Hs, app_length. lia.
Qed.

(* ---------- read_bytes ---------- *)
Theorem read_bytes_nocrash : forall fuel r n,
  length (rest (rrd r)) < fuel -> is_crash (read_bytes fuel r n) = false.
Proof.
  induction fuel as [|f IH]; intros r n Hf; [lia|].
  cbn [read_bytes]. destruct (Nat.ltb (length (win (rbw r))) n) eqn:E.
  - destruct (bw_fill_buf (rbw r) (rrd r)) as [k b2 d2|b2 d2|b2 d2] eqn:Ef; [|reflexivity|reflexivity].
    destruct k as [|k]; [reflexivity|]. apply IH. cbn [rrd]. apply fill_ok_rest in Ef. lia.
  - unfold bw_advance. rewrite E. reflexivity.
Qed.

(* ---------- skip_container ---------- *)
Lemma sk_scan_ok : forall fuel w ptr st depth, ptr <= length w -> length w - ptr < fuel ->
  match sk_scan fuel w ptr st depth with
  | SkDone adv => adv <= length w
  | SkRefill p _ _ => p <= length w
  | SkCrash _ => False
  end.
Proof.
  induction fuel as [|f IH]; intros w ptr st depth Hp Hf; [lia|].
  cbn [sk_scan]. destruct st.
  - match goal with |- context [match ?W with Some d' => _ | None => _ end] => destruct W as [d'|] eqn:Ew end.
    + destruct (Nat.ltb 8 (length w - ptr)) eqn:E8; [|discriminate]. apply Nat.ltb_lt in E8. apply IH; lia.
    + destruct (nth_error w ptr) as [c|] eqn:En; [|exact Hp].
      assert (Hlt : ptr < length w) by (apply nth_error_Some; rewrite En; discriminate).
      destruct (b_is c 123); [apply IH; lia|].
      destruct (b_is c 125). { destruct (depth - 1 =? 0)%Z; [lia|apply IH; lia]. }
      destruct (b_is c 34); [apply IH; lia|]. destruct (b_is c 35); apply IH; lia.
  - destruct (nth_error w ptr) as [c|] eqn:En; [|exact Hp].
    assert (Hlt : ptr < length w) by (apply nth_error_Some; rewrite En; discriminate).
    destruct (b_is c 92).
    { destruct (Nat.leb (length w - ptr) 2) eqn:E2; [exact Hp|]. apply Nat.leb_gt in E2. apply IH; lia. }
    destruct (b_is c 34); apply IH; lia.
  - destruct (nth_error w ptr) as [c|] eqn:En; [|exact Hp].
    assert (Hlt : ptr < length w) by (apply nth_error_Some; rewrite En; discriminate).
    destruct (b_is c 10); apply IH; lia.
Qed.

Theorem skip_container_loop_nocrash : forall fuel r ptr st depth,
  ptr <= length (win (rbw r)) -> length (rest (rrd r)) < fuel ->
  is_crash (skip_container_loop fuel r ptr st depth) = false.
Proof.
  induction fuel as [|f IH]; intros r ptr st depth Hp Hf; [lia|].
  cbn [skip_container_loop].
  pose proof (sk_scan_ok (S (S (length (win (rbw r))))) (win (rbw r)) ptr st depth Hp ltac:(lia)) as Hs.
  destruct (sk_scan _ _ _ _ _) as [adv|p st' d'|s]; [| |contradiction].
  - unfold bw_advance. replace (Nat.ltb (length (win (rbw r))) adv) with false by (symmetry; apply Nat.ltb_ge; exact Hs). reflexivity.
  - unfold bw_advance. replace (Nat.ltb (length (win (rbw r))) p) with false by (symmetry; apply Nat.ltb_ge; exact Hs).
    destruct (bw_fill_buf _ (rrd r)) as [k b2 d2|b2 d2|b2 d2] eqn:Ef; [|reflexivity|reflexivity].
    destruct k as [|k]; [reflexivity|]. apply IH; cbn [rbw rrd]; [lia|]. apply fill_ok_rest in Ef. lia.
Qed.

Theorem skip_container_nocrash : forall fuel r,
  length (rest (rrd r)) < fuel -> is_crash (skip_container fuel r) = false.
Proof. intros fuel r Hf. apply skip_container_loop_nocrash; [lia|exact Hf]. Qed.

(* ---------- skip_unquoted_value ---------- *)
Lemma suv_scan_bounds : forall l ptr ic b i, suv_scan l ptr ic = inl (Some (b, i)) -> ptr <= i < ptr + length l.
Proof.
  induction l as [|c l IH]; intros ptr ic b i; cbn [suv_scan]; [discriminate|].
  destruct ic. { intros H. apply IH in H. cbn [length]. lia. }
  destruct (b_is c 123). { intros H. inversion H; subst. cbn [length]. lia. }
  destruct (is_ws c). { intros H. apply IH in H. cbn [length]. lia. }
  destruct (b_is c 35). { intros H. apply IH in H. cbn [length]. lia. }
  intros H. inversion H; subst. cbn [length]. lia.
Qed.

Theorem skip_unquoted_value_loop_nocrash : forall fuel r ic,
  length (rest (rrd r)) + 1 < fuel -> is_crash (skip_unquoted_value_loop fuel r ic) = false.
Proof.
  induction fuel as [|f IH]; intros r ic Hf; [lia|].
  cbn [skip_unquoted_value_loop].
  set (w := win (rbw r)).
  set (p0 := if negb ic && Nat.leb 4 (length w) && N.eqb (le_word 4 w) 151587082 then 4 else 0).
  assert (Hp0 : p0 <= length w).
  { unfold p0. destruct (negb ic); cbn [andb]; [|lia]. destruct (Nat.leb 4 (length w)) eqn:E4; cbn [andb]; [|lia].
    apply Nat.leb_le in E4. destruct (N.eqb _ _); lia. }
  destruct (suv_scan (skipn p0 w) p0 ic) as [[[[|] i]|]|ic'] eqn:Es.
  - apply suv_scan_bounds in Es. rewrite skipn_length in Es.
    unfold bw_advance. fold w. replace (Nat.ltb (length w) (S i)) with false by (symmetry; apply Nat.ltb_ge; lia).
    apply skip_container_nocrash. unfold with_bw. cbn [rrd]. lia.
  - apply suv_scan_bounds in Es. rewrite skipn_length in Es.
    unfold bw_advance. fold w. replace (Nat.ltb (length w) i) with false by (symmetry; apply Nat.ltb_ge; lia). reflexivity.
  - reflexivity.
  - unfold bw_advance. fold w. rewrite Nat.ltb_irrefl.
    destruct (bw_fill_buf _ (rrd r)) as [k b2 d2|b2 d2|b2 d2] eqn:Ef; [|reflexivity|reflexivity].
    destruct k as [|k]; [reflexivity|]. apply IH. cbn [rrd]. apply fill_ok_rest in Ef. lia.
Qed.

Theorem skip_unquoted_value_nocrash : forall fuel r,
  length (rest (rrd r)) + 1 < fuel -> is_crash (skip_unquoted_value fuel r) = false.
Proof. intros. apply skip_unquoted_value_loop_nocrash. assumption. Qed.

(* ---------- next_opt ---------- *)
Definition ncrash (o : nres) : Prop := match o with NCrash _ => True | _ => False end.

Lemma nreq_ncrash o1 o2 : nreq o1 o2 -> ~ ncrash o2 -> ~ ncrash o1.
Proof. destruct o1, o2; cbn [nreq ncrash]; tauto. Qed.

Lemma stepres_ws_ncrash input capv nr res out : stepres_ws input capv nr res out -> ~ ncrash out.
Proof.
  destruct res as [t s'| |k]; cbn [stepres_ws stepres].
  - intros (r' & -> & _) H. exact H.
  - intros (r' & -> & _) H. exact H.
  - intros (r' & -> & _) H. exact H.
Qed.

(* the fault-free reader: the atom fits (C07 step theorem) or it does not (BufferFull) *)
Lemma next_opt_nocrash_nofail input fuel r :
  wf_bytes input -> rok input r -> length (rest (rrd r)) + 2 <= fuel ->
  (cap (rbw r) = 0 -> rest (rrd r) = []) -> ~ ncrash (next_opt fuel r).
Proof.
  intros Hwf Hrok Hfuel Hc0.
  destruct (Nat.eq_dec (cap (rbw r)) 0) as [Hz|Hnz].
  - eapply stepres_ws_ncrash. apply (next_opt_step input fuel r Hwf Hrok Hfuel). left. auto.
  - destruct (le_lt_dec (snd (tk (startb r) (stream_of r))) (cap (rbw r))) as [Hfit|Hbig].
    + eapply stepres_ws_ncrash. apply (next_opt_step input fuel r Hwf Hrok Hfuel). right. lia.
    + destruct (next_opt_full input fuel r Hwf Hrok ltac:(lia) Hfuel Hbig) as [r' ->]. intros H. exact H.
Qed.

(* every schedule *)
Theorem next_opt_nocrash input fuel r :
  wf_bytes input -> rokf input r -> length (rest (rrd r)) + 2 <= fuel ->
  (cap (rbw r) = 0 -> rest (rrd r) = []) -> ~ ncrash (next_opt fuel r).
Proof.
  intros Hwf Hrok Hfuel Hc0.
  destruct (next_opt_erase fuel r) as [[r' ->]|Hq]; [intros H; exact H|].
  eapply nreq_ncrash; [exact Hq|].
  apply (next_opt_nocrash_nofail input); [exact Hwf|apply rok_erase; exact Hrok|exact Hfuel|exact Hc0].
Qed.

(* ---------- run_next, run_stream, run_slice ---------- *)
Definition rout_ok (o : rout) : Prop := match o with OCrash _ => False | _ => True end.

Lemma tok_list_ok pre x : rout_ok x -> Forall rout_ok (map OTok pre ++ [x]).
Proof.
  intros Hx. apply Forall_app. split; [|constructor; [exact Hx|constructor]].
  apply Forall_forall. intros o Ho. apply in_map_iff in Ho as (t & <- & _). exact I.
Qed.

Lemma rr_ok start s : Forall rout_ok (fst (fst (rr start s))).
Proof.
  destruct (rr_shape (length s) start s (le_n _)) as (pre & x & -> & [->| ->]); apply tok_list_ok; exact I.
Qed.

Lemma run_next_nocrash_nofail input : wf_bytes input -> forall n fuel r start sref,
  rok input r -> srel r start sref -> length sref < n -> length input + 2 <= fuel ->
  (cap (rbw r) = 0 -> rest (rrd r) = []) -> Forall rout_ok (fst (run_next n fuel r)).
Proof.
  intros Hwf n fuel r start sref Hrok Hrel Hn Hfuel Hc0.
  destruct (Nat.eq_dec (cap (rbw r)) 0) as [Hz|Hnz].
  - rewrite (run_spec input Hwf n fuel r start sref Hrok Hrel Hn Hfuel); [apply rr_ok|]. left. auto.
  - destruct (le_lt_dec (snd (rr start sref)) (cap (rbw r))) as [Hfit|Hbig].
    + rewrite (run_spec input Hwf n fuel r start sref Hrok Hrel Hn Hfuel); [apply rr_ok|]. right. lia.
    + destruct (run_full input Hwf n fuel r start sref Hrok ltac:(lia) Hrel Hn Hfuel Hbig) as (pre & suf & p & -> & _).
      apply tok_list_ok. exact I.
Qed.

Lemma srel_erase r start sref : srel r start sref -> srel (erase r) start sref.
Proof. intros H. exact H. Qed.

Theorem run_next_nocrash input : wf_bytes input -> forall n fuel r start sref,
  rokf input r -> srel r start sref -> length sref < n -> length input + 2 <= fuel ->
  (cap (rbw r) = 0 -> rest (rrd r) = []) -> Forall rout_ok (fst (run_next n fuel r)).
Proof.
  intros Hwf n fuel r start sref Hrok Hrel Hn Hfuel Hc0.
  pose proof (run_next_nocrash_nofail input Hwf n fuel (erase r) start sref (rok_erase _ _ Hrok)
                (srel_erase _ _ _ Hrel) Hn Hfuel Hc0) as Htwin.
  destruct (run_lockstep n fuel r (erase r) (readeq_erase r)) as [->|(pre & suf & p & -> & _)]; [exact Htwin|].
  apply tok_list_ok. exact I.
Qed.

Theorem run_stream_nocrash : forall input sch capv, wf_bytes input -> 0 < capv ->
  Forall rout_ok (fst (run_stream capv sch input)).
Proof.
  intros input sch capv Hwf Hcap. unfold run_stream.
  apply (run_next_nocrash input Hwf _ _ _ true input).
  - apply rokf_new.
  - left. split; reflexivity.
  - lia.
  - unfold default_fuel. lia.
  - cbn. lia.
Qed.

Theorem run_slice_nocrash : forall input, wf_bytes input -> Forall rout_ok (fst (run_slice input)).
Proof.
  intros input Hwf. rewrite slice_eq_tok by exact Hwf. cbn [fst]. unfold tokens_of, ref_tokens.
  change (ref_run (S (length input)) true input) with (rr true input). apply rr_ok.
Qed.

(* the run always ends with an end / error marker after tokens only: position is meaningful *)
Theorem run_stream_shape : forall input sch capv, wf_bytes input -> 0 < capv ->
  exists pre x, fst (run_stream capv sch input) = map OTok pre ++ [x] /\
    (x = OEnd \/ x = OErr E_Eof \/ x = OErr E_Io \/ x = OErr E_BufferFull).
Proof.
  intros input sch capv Hwf Hcap.
  assert (Htwin : exists pre x, fst (run_next (length input + 2) (default_fuel input sch) (reader_new capv input (clean sch)))
                                = map OTok pre ++ [x] /\ (x = OEnd \/ x = OErr E_Eof \/ x = OErr E_Io \/ x = OErr E_BufferFull)).
  { assert (Hrok : rok input (reader_new capv input (clean sch))).
    { split; [exists []; cbn; auto|]. split; [apply clean_no_fail|right; cbn; lia]. }
    assert (Hrel : srel (reader_new capv input (clean sch)) true input) by (left; split; reflexivity).
    destruct (le_lt_dec (snd (rr true input)) capv) as [Hfit|Hbig].
    - rewrite (run_spec input Hwf (length input + 2) (default_fuel input sch) _ true input Hrok Hrel ltac:(lia) ltac:(unfold default_fuel; lia)); [|right; split; [exact Hcap|exact Hfit]].
      cbn [fst]. destruct (rr_shape (length input) true input (le_n _)) as (pre & x & -> & Hx). exists pre, x. tauto.
    - assert (Hc : cap (rbw (reader_new capv input (clean sch))) = capv) by reflexivity.
      destruct (run_full input Hwf (length input + 2) (default_fuel input sch) _ true input Hrok ltac:(rewrite Hc; exact Hcap) Hrel ltac:(lia)
                  ltac:(unfold default_fuel; lia) ltac:(rewrite Hc; exact Hbig)) as (pre & suf & p & -> & _).
      exists pre, (OErr E_BufferFull). cbn [fst]. tauto. }
  destruct (stream_lockstep capv sch input) as [->|(pre & suf & p & -> & _)]; [exact Htwin|].
  exists pre, (OErr E_Io). cbn [fst]. tauto.
Qed.
