(* C15, wave 5 (w_wr): the side condition `wf_doc d` of the parse-back theorems, discharged for every text the
   writer produces ITSELF.

   PLAN.  C15_calls_parse_back_partial / C15_mixed_calls_parse_back assume wf_doc d, which for a scalar written
   by a typed call (write_i32 .. write_u64, write_bool, write_date, write_binary of the same, unknown tokens)
   asks that the printed text be a bare word (TextDoc.wf_word: non-empty, no boundary byte, not starting with
   a quote or `;`, not a lone `@`).  Here:
     1. [plain]: every byte is a non-boundary byte other than the double quote, `;` and `@`; a non-empty plain string is a wf_word;
     2. the decimal printer (Date.fmt_int = itoa / `{}` / `{:0w}`), Date.game_fmt, Date.iso_fmt, `yes`/`no`,
        `__unknown_0x{:x}` only produce non-empty plain strings -- for ALL integers and ALL raw dates;
     3. write_quoted: escape p is wf_quo (WriterCallsLayoutProofs.escape_wf_quo);
     4. floats: Display is an oracle; its contract is the decidable predicate WriterMix.wf_word_text on the
        printed string ([float_contract]); stream `wfword` (props/C15_w5.py) evaluates it on every float text
        the C15 streams write AND compares TextDoc.wf_word with the real scanner (`a=<s> b=c` is read as four
        unquoted scalars) on those texts and on adversarial byte strings.
   Result: [generated_text_wf] -- for every call whose text the caller does not supply verbatim, wf_scalar holds. *)
From JV Require Import Bytes Tables TextTok TextTape TextDoc Date Writer WriterMix.
From JV.proofs Require Import WriterProofs TextScanProofs TextParseProofs WriterLayoutDefs WriterLayoutProofs WriterCallsLayoutProofs.
Require Import Lia.
Open Scope nat_scope.

Definition plain_byte (b : N) : bool :=
  negb (is_boundary b) && negb (N.eqb b 34) && negb (N.eqb b 59) && negb (N.eqb b 64).
Definition plain (s : bytes) : bool := forallb plain_byte s.

Lemma plain_app a b : plain (a ++ b) = plain a && plain b.
Proof. apply forallb_app. Qed.
Lemma plain_cons x s : plain (x :: s) = plain_byte x && plain s.
Proof. reflexivity. Qed.

Lemma plain_nb s : plain s = true -> forallb (fun b => negb (is_boundary b)) s = true.
Proof.
  induction s as [|b s IH]; [reflexivity|]. rewrite plain_cons. intros H. apply andb_prop in H as [Hb Hs].
  unfold plain_byte in Hb. andb_split. cbn [forallb]. rewrite IH by assumption.
  match goal with H : negb (is_boundary b) = true |- _ => rewrite H end. reflexivity.
Qed.

Lemma plain_word s : s <> [] -> plain s = true -> wf_word s = true.
Proof.
  destruct s as [|c r]; [congruence|]. intros _ H. pose proof (plain_nb _ H) as Hn.
  rewrite plain_cons in H. apply andb_prop in H as [Hb _]. unfold plain_byte in Hb. andb_split.
  unfold wf_word. rewrite Hn.
  repeat match goal with H : negb _ = true |- _ => apply Bool.negb_true_iff in H end.
  repeat match goal with H : N.eqb c _ = false |- _ => rewrite H end. reflexivity.
Qed.

(* ---- decimal digits *)
Lemma digit_plain m : (m < 10)%N -> plain_byte (48 + m) = true.
Proof.
  intros H. rewrite <- (N2Nat.id m). assert (Hn : N.to_nat m < 10) by lia.
  destruct (N.to_nat m) as [|[|[|[|[|[|[|[|[|[|k]]]]]]]]]]; try reflexivity; lia.
Qed.

Lemma digits_plain fuel : forall n acc, plain acc = true -> plain (digits_fuel fuel n acc) = true.
Proof.
  induction fuel as [|f IH]; intros n acc H; cbn [digits_fuel]; [exact H|].
  assert (H' : plain ((48 + n mod 10)%N :: acc) = true).
  { rewrite plain_cons, digit_plain, H by (apply N.mod_lt; discriminate). reflexivity. }
  destruct (n <? 10)%N; [exact H'|apply IH, H'].
Qed.
Lemma digits_ne fuel : forall n acc, acc <> [] -> digits_fuel fuel n acc <> [].
Proof.
  induction fuel as [|f IH]; intros n acc H; cbn [digits_fuel]; [exact H|].
  destruct (n <? 10)%N; [discriminate|apply IH; discriminate].
Qed.
Lemma dec_N_plain n : plain (dec_N n) = true.
Proof. apply digits_plain. reflexivity. Qed.
Lemma digits_ne_S f n acc : digits_fuel (S f) n acc <> [].
Proof. cbn [digits_fuel]. destruct (n <? 10)%N; [discriminate|apply digits_ne; discriminate]. Qed.
Lemma dec_N_ne n : dec_N n <> [].
Proof. exact (digits_ne_S 39 n []). Qed.

Lemma pad0_plain k d : plain d = true -> plain (pad0 k d) = true.
Proof. intros H. induction k as [|k IH]; cbn [pad0]; [exact H|]. rewrite plain_cons, IH. reflexivity. Qed.
Lemma pad0_ne k d : d <> [] -> pad0 k d <> [].
Proof. intros H. destruct k; cbn [pad0]; [exact H|discriminate]. Qed.

Lemma fmt_int_plain w z : plain (fmt_int w z) = true.
Proof.
  unfold fmt_int. destruct (z <? 0)%Z.
  - rewrite plain_cons, pad0_plain by apply dec_N_plain. reflexivity.
  - apply pad0_plain, dec_N_plain.
Qed.
Lemma fmt_int_ne w z : fmt_int w z <> [].
Proof. unfold fmt_int. destruct (z <? 0)%Z; [discriminate|apply pad0_ne, dec_N_ne]. Qed.

Lemma app_ne_l {A} (a b : list A) : a <> [] -> a ++ b <> [].
Proof. destruct a; [congruence|discriminate]. Qed.

(* ---- dates *)
Lemma game_fmt_plain wide r : plain (game_fmt wide r) = true.
Proof.
  unfold game_fmt. rewrite !plain_app, !fmt_int_plain. destruct (raw_has_hour r); [rewrite plain_app, fmt_int_plain|]; reflexivity.
Qed.
Lemma game_fmt_ne wide r : game_fmt wide r <> [].
Proof. unfold game_fmt. apply app_ne_l, fmt_int_ne. Qed.
Lemma iso_fmt_plain r : plain (iso_fmt r) = true.
Proof.
  unfold iso_fmt. rewrite !plain_app, !fmt_int_plain. destruct (raw_has_hour r); [rewrite plain_app, fmt_int_plain|]; reflexivity.
Qed.
Lemma iso_fmt_ne r : iso_fmt r <> [].
Proof. unfold iso_fmt. apply app_ne_l, fmt_int_ne. Qed.

(* ---- {:x} *)
Lemma hex_digit_plain m : (m < 16)%N -> plain_byte (hex_digit m) = true.
Proof.
  intros H. rewrite <- (N2Nat.id m). assert (Hn : N.to_nat m < 16) by lia.
  destruct (N.to_nat m) as [|[|[|[|[|[|[|[|[|[|[|[|[|[|[|[|k]]]]]]]]]]]]]]]]; try reflexivity; lia.
Qed.
Lemma hex_plain fuel : forall n acc, plain acc = true -> plain (hex_fuel fuel n acc) = true.
Proof.
  induction fuel as [|f IH]; intros n acc H; cbn [hex_fuel]; [exact H|].
  assert (H' : plain (hex_digit (n mod 16) :: acc) = true).
  { rewrite plain_cons, hex_digit_plain, H by (apply N.mod_lt; discriminate). reflexivity. }
  destruct (n <? 16)%N; [exact H'|apply IH, H'].
Qed.
Lemma unknown_plain id : plain (UNKNOWN_PREFIX ++ hex_N id) = true.
Proof. rewrite plain_app. unfold hex_N. rewrite hex_plain by reflexivity. reflexivity. Qed.

(* ---- the statement *)
Theorem int_text_wf : forall z, wf_word (dec_Z z) = true.
Proof. intros z. apply plain_word; [apply fmt_int_ne|apply fmt_int_plain]. Qed.
Theorem uint_text_wf : forall n, wf_word (dec_N' n) = true.
Proof. intros n. apply plain_word; [apply fmt_int_ne|apply fmt_int_plain]. Qed.
Theorem date_text_wf : forall wide r, wf_word (game_fmt wide r) = true.
Proof. intros. apply plain_word; [apply game_fmt_ne|apply game_fmt_plain]. Qed.
Theorem iso_text_wf : forall r, wf_word (iso_fmt r) = true.
Proof. intros. apply plain_word; [apply iso_fmt_ne|apply iso_fmt_plain]. Qed.
Theorem unknown_text_wf : forall id, wf_word (UNKNOWN_PREFIX ++ hex_N id) = true.
Proof. intros. apply plain_word; [apply app_ne_l; discriminate|apply unknown_plain]. Qed.

(* the Display contract assumed of the float oracle: a decidable predicate on the printed string *)
Definition float_contract (fdisp : bool -> N -> option N -> bytes) : Prop :=
  forall is64 bits p, wf_word_text (fdisp is64 bits p) = true.

(* calls whose text is supplied verbatim by the caller (write_unquoted, write_fmt, write_binary(Unquoted)) *)
Definition verbatim_call (k : call) : bool :=
  match k with CUnquoted _ | CFmt _ | CBinary (BUnquoted _) => true | _ => false end.
Definition float_call (k : call) : bool :=
  match k with CF32 _ | CF64 _ | CF32p _ _ | CF64p _ _ | CBinary (BF32 _) | CBinary (BF64 _) => true | _ => false end.

Theorem generated_text_wf fdisp : forall k kd s,
  verbatim_call k = false -> (float_call k = true -> float_contract fdisp) ->
  call_text fdisp k = Some (kd, s) -> wf_scalar kd s = true.
Proof.
  intros k kd s Hv Hf E.
  assert (W : forall x, wf_word x = true -> wf_scalar Unq x = true) by (intros x Hx; cbn [wf_scalar]; unfold wf_unq; rewrite Hx; reflexivity).
  destruct k as [u|p| | | | | | |b|z|n|n|z|bits|bits|bits pr|bits pr|wide r| | |u|t]; cbn [call_text verbatim_call] in *;
    try discriminate; inversion E; subst; clear E.
  - apply escape_wf_quo.
  - apply W. destruct b; reflexivity.
  - apply W, int_text_wf.
  - apply W, uint_text_wf.
  - apply W, uint_text_wf.
  - apply W, int_text_wf.
  - apply W, (Hf eq_refl).
  - apply W, (Hf eq_refl).
  - apply W, (Hf eq_refl).
  - apply W, (Hf eq_refl).
  - apply W, date_text_wf.
  - destruct t; try discriminate; cbn [float_call] in *; match goal with H : Some _ = Some _ |- _ => inversion H; subst; clear H end.
    + apply W. destruct b; reflexivity.
    + apply W, uint_text_wf.
    + apply W, uint_text_wf.
    + apply W, int_text_wf.
    + apply W, int_text_wf.
    + apply escape_wf_quo.
    + apply W, (Hf eq_refl).
    + apply W, (Hf eq_refl).
    + apply W, unknown_text_wf.
Qed.
