(* C08 (wave 4): any mix of next/read/read_bytes on the streaming reader = the same mix on the slice lexer *)
From JV Require Import Bytes Tables BinPrim BufWin BinLexer BinReader BinOps.
From JV.proofs Require Import BinLexProofs BinStreamProofs BinStreamMoreProofs BinLexCursorProofs BinSkipProofs.
From Coq Require Import List NArith ZArith Bool Lia Arith.
Import ListNotations.
Open Scope nat_scope.

Lemma lx_inv_len D l : lx_inv D l -> length (lx_data l) <= lx_orig l.
Proof. intros [Ho [p Hp]]. rewrite Ho, Hp, app_length. lia. Qed.

Lemma lx_op_inv D op l : lx_inv D l -> lx_inv D (snd (lx_op op l)).
Proof.
  intros H. pose proof (lexer_methods_keep_position_law D l H) as K.
  destruct K as (_ & _ & K1 & K2 & _ & _ & _ & _ & _ & _ & _ & _ & _ & K3 & _).
  destruct op; cbn [lx_op snd]; auto.
Qed.

Lemma op_eq D c op s l :
  lx_inv D l -> st_ok s (lx_data l) (lx_position l) c -> op_fits c op (lx_data l) = true ->
  fst (rdr_op op s) = fst (lx_op op l) /\
  st_ok (snd (rdr_op op s)) (lx_data (snd (lx_op op l))) (lx_position (snd (lx_op op l))) c.
Proof.
  intros Hi Hok Hf. pose proof (lx_inv_len _ _ Hi) as Hl.
  destruct op; cbn [rdr_op lx_op op_fits fst snd] in *.
  - destruct (next_eq_lexer s l c Hok Hl Hf) as [s' [E Hok']]. rewrite E. cbn [fst snd]. auto.
  - destruct (read_eq_lexer s l c Hok Hl Hf) as [s' [E Hok']]. rewrite E. cbn [fst snd]. auto.
  - destruct (read_bytes_eq_lexer n s l c Hok Hl) as [s' [E Hok']].
    + intros Hn. apply Nat.leb_le in Hn. rewrite Hn in Hf. apply Nat.leb_le. assumption.
    + intros Hn. apply Nat.leb_gt in Hn. rewrite Hn in Hf. apply Nat.ltb_lt. assumption.
    + rewrite E. cbn [fst snd]. auto.
Qed.

Lemma ops_eq D c : forall ops s l,
  lx_inv D l -> st_ok s (lx_data l) (lx_position l) c -> ops_fit c ops l = true ->
  run_rops ops s = run_lops ops l.
Proof.
  induction ops as [|op ops IH]; intros s l Hi Hok Hf; [reflexivity|].
  cbn [ops_fit] in Hf. apply andb_prop in Hf as [Hf1 Hf2].
  destruct (op_eq D c op s l Hi Hok Hf1) as [E Hok'].
  cbn [run_rops run_lops]. rewrite E. f_equal.
  - f_equal. destruct Hok' as (_ & Hp & _). assumption.
  - apply IH; [apply lx_op_inv | |]; assumption.
Qed.

Theorem reader_ops_eq_lexer_ops input sched cap ops :
  no_fail sched = true -> ops_fit cap ops (lx_new input) = true ->
  reader_ops cap sched input ops = lexer_ops input ops.
Proof.
  intros Hnf Hf. unfold reader_ops, lexer_ops. apply (ops_eq input cap); [apply lx_inv_new | | assumption].
  unfold lx_new, lx_position. cbn [lx_data lx_orig]. rewrite Nat.sub_diag. apply st_ok_new. assumption.
Qed.

(* a buffer larger than the whole input fits every mix *)
Lemma tok_fits_big c d : length d < c -> tok_fits c d = true.
Proof.
  intros H. unfold tok_fits. destruct (is_eof (read_token d)) eqn:E.
  - apply Nat.ltb_lt. assumption.
  - rewrite firstn_all2 by lia. rewrite E. reflexivity.
Qed.

Lemma ops_fit_big D c : length D < c -> forall ops l, lx_inv D l -> ops_fit c ops l = true.
Proof.
  intros Hc. induction ops as [|op ops IH]; intros l Hi; [reflexivity|].
  cbn [ops_fit]. apply andb_true_intro. split; [|apply IH, lx_op_inv; assumption].
  assert (L : length (lx_data l) < c).
  { destruct Hi as [_ [p Hp]]. rewrite Hp, app_length in Hc. lia. }
  destruct op; cbn [op_fits]; try (apply tok_fits_big; assumption).
  destruct (Nat.leb n (length (lx_data l))) eqn:E.
  - apply Nat.leb_le in E. apply Nat.leb_le. lia.
  - apply Nat.ltb_lt. assumption.
Qed.

Theorem reader_ops_eq_lexer_ops_big input sched cap ops :
  no_fail sched = true -> length input < cap ->
  reader_ops cap sched input ops = lexer_ops input ops.
Proof.
  intros Hnf Hc. apply reader_ops_eq_lexer_ops; [assumption|].
  apply (ops_fit_big input); [assumption | apply lx_inv_new].
Qed.
