(* C09 (text half), part 3: the byte-level reference lands where counting the Open and Close
   tokens of the reference tokenizer (TextRef.tk) lands, provided no unquoted token on the way
   holds a brace, a double quote or a hash. *)
From JV Require Import Bytes Tables U64Swar BufWin TextTok TextReader TextRef TextSkipRef.
From JV.proofs Require Import TextReaderProofs TextRefProofs TextFbProofs TextSkipProofs TextSkipStreamProofs.
From Coq Require Import Lia List Arith ZArith.
Import ListNotations.
Open Scope nat_scope.

(* what reading token t (from s, leaving s') means for the byte skipper standing at s *)
Definition tok_eff (t : rtok) (s s' : bytes) : Prop :=
  forall d k,
    sref s SkNone d k =
    match t with
    | ROpen => sref s' SkNone (d + 1)%Z (k + (length s - length s'))
    | RClose => if (d - 1 =? 0)%Z then Some (k + (length s - length s'))
                else sref s' SkNone (d - 1)%Z (k + (length s - length s'))
    | _ => sref s' SkNone d (k + (length s - length s'))
    end.
Definition skip_eff (s s' : bytes) : Prop :=
  forall d k, sref s SkNone d k = sref s' SkNone d (k + (length s - length s')).

Lemma special_false c : sk_special c = false ->
  b_is c 123 = false /\ b_is c 125 = false /\ b_is c 34 = false /\ b_is c 35 = false.
Proof.
  unfold sk_special. intros H. repeat (apply orb_false_iff in H; destruct H as [H ?]). auto.
Qed.

(* bytes that mean nothing to the skipper are stepped over *)
Lemma plain_run : forall u s' d k, forallb (fun c => negb (sk_special c)) u = true ->
  sref (u ++ s') SkNone d k = sref s' SkNone d (k + length u).
Proof.
  induction u as [|c u IH]; intros s' d k H.
  - cbn [app length]. f_equal. lia.
  - cbn [forallb] in H. apply andb_true_iff in H. destruct H as [Hc Hu]. apply negb_true_iff in Hc.
    destruct (special_false c Hc) as (E1 & E2 & E3 & E4).
    cbn [app sref length]. rewrite E1, E2, E3, E4, IH by exact Hu. f_equal. lia.
Qed.

Lemma plain_split n (s : bytes) d k : n <= length s ->
  forallb (fun c => negb (sk_special c)) (firstn n s) = true ->
  sref s SkNone d k = sref (skipn n s) SkNone d (k + (length s - length (skipn n s))).
Proof.
  intros Hn H. rewrite <- (firstn_skipn n s) at 1. rewrite plain_run by exact H.
  rewrite firstn_length, skipn_length. f_equal. lia.
Qed.

(* a quoted string: the Quote state leaves exactly where the tokenizer's quote scan finds the close *)
Lemma quote_run : forall n l j i d k, length l <= n -> rq_scan l j = inl i ->
  j <= i /\ i - j < length l /\ sref l SkQuote d k = sref (skipn (S (i - j)) l) SkNone d (k + S (i - j)).
Proof.
  induction n as [|n IH]; intros l j i d k Hl H.
  - destruct l; [discriminate|cbn [length] in Hl; lia].
  - destruct l as [|c l]; [discriminate|]. cbn [length] in Hl. cbn [rq_scan] in H. cbn [sref].
    destruct (b_is c 92).
    + destruct l as [|c2 l2]; [discriminate|]. cbn [length] in Hl.
      destruct (IH l2 (S (S j)) i d (S (S k)) ltac:(lia) H) as (H1 & H2 & H3).
      split; [lia|]. split; [cbn [length]; lia|]. rewrite H3.
      replace (S (i - j)) with (S (S (S (i - S (S j))))) by lia. cbn [skipn]. f_equal. lia.
    + destruct (b_is c 34).
      * inversion H; subst. rewrite Nat.sub_diag. cbn [skipn length]. split; [lia|]. split; [lia|]. f_equal. lia.
      * destruct (IH l (S j) i d (S k) ltac:(lia) H) as (H1 & H2 & H3).
        split; [lia|]. split; [cbn [length]; lia|]. rewrite H3.
        replace (S (i - j)) with (S (S (i - S j))) by lia. cbn [skipn]. f_equal. lia.
Qed.

(* a comment: the tokenizer stops in front of the LF, the Comment state steps over it -- and so
   does the None state, for which LF is an ordinary byte *)
Lemma comment_run : forall l j i d k, find_from (fun x => b_is x 10) l j = Some i ->
  j <= i /\ i - j < length l /\ sref l SkComment d k = sref (skipn (i - j) l) SkNone d (k + (i - j)).
Proof.
  induction l as [|c l IH]; intros j i d k H; [discriminate|].
  cbn [find_from] in H. cbn [sref]. destruct (b_is c 10) eqn:E.
  - inversion H; subst. rewrite Nat.sub_diag. cbn [skipn length]. split; [lia|]. split; [lia|].
    apply b_is_true in E. subst c. cbn [sref b_is N.eqb Pos.eqb]. f_equal. lia.
  - destruct (IH (S j) i d (S k) H) as (H1 & H2 & H3). split; [lia|]. split; [cbn [length]; lia|].
    rewrite H3. replace (i - j) with (S (i - S j)) by lia. cbn [skipn]. f_equal. lia.
Qed.

Lemma ws_not_special c : is_ws c = true -> sk_special c = false.
Proof.
  unfold is_ws, sk_special, b_is. intros H.
  repeat (apply orb_true_iff in H; destruct H as [H|H]); apply N.eqb_eq in H; subst; reflexivity.
Qed.

Lemma find_from_lt p (l : bytes) i : find_from p l 0 = Some i -> i < length l.
Proof. intros H. apply find_from_bounds in H. lia. Qed.

(* an unquoted item whose token is plain *)
Lemma unq_item_eff s : s <> [] ->
  match unq_item s with
  | ISkip s' _ => skip_eff s s'
  | ITok t s' _ => tok_plain t = true -> tok_eff t s s'
  | ITokEof t _ => tok_plain t = true -> tok_eff t s []
  | _ => True
  end.
Proof.
  intros Hs. unfold unq_item. destruct (find_from is_boundary (tl s) 0) as [j|] eqn:E.
  - cbn [tok_plain]. intros Hp d k. apply find_from_lt in E.
    apply plain_split; [|exact Hp]. destruct s; [congruence|]. cbn [tl length] in *. lia.
  - cbn [tok_plain]. intros Hp d k. rewrite <- (app_nil_r s) at 1. rewrite plain_run by exact Hp.
    cbn [length]. f_equal. lia.
Qed.

Lemma op_item_eff c s0 a b : sk_special c = false ->
  match op_item s0 a b with
  | ITok t s' _ => tok_eff t (c :: s0) s'
  | _ => True
  end.
Proof.
  intros Hc.
  unfold op_item. destruct s0 as [|c2 s1]; [exact I|].
  destruct (b_is c2 61) eqn:E.
  - apply b_is_true in E. subst c2. intros d k. change (c :: 61%N :: s1) with ([c; 61%N] ++ s1).
    rewrite plain_run by (cbn [forallb]; rewrite Hc; reflexivity).
    rewrite app_length. cbn [length]. f_equal. lia.
  - intros d k. change (c :: c2 :: s1) with ([c] ++ c2 :: s1).
    rewrite plain_run by (cbn [forallb]; rewrite Hc; reflexivity).
    rewrite app_length. cbn [length]. f_equal. lia.
Qed.

Lemma is_special_of c x : b_is c x = true -> sk_special x = false -> sk_special c = false.
Proof. intros H. apply b_is_true in H. subst. auto. Qed.

(* one item of the tokenizer, seen by the skipper *)
Lemma item_eff s :
  match item false s with
  | ISkip s' _ => skip_eff s s'
  | ITok t s' _ => tok_plain t = true -> tok_eff t s s'
  | ITokEof t _ => tok_plain t = true -> tok_eff t s []
  | _ => True
  end.
Proof.
  destruct s as [|c s0]; [exact I|]. cbn [item].
  destruct (is_ws c) eqn:Ew.
  { intros d k. destruct (special_false c (ws_not_special c Ew)) as (E1 & E2 & E3 & E4).
    cbn [sref length]. rewrite E1, E2, E3, E4. f_equal. lia. }
  destruct (b_is c 35) eqn:E35.
  { destruct (find_from (fun x => b_is x 10) s0 0) as [j|] eqn:Ef; [|exact I].
    intros d k. apply comment_run with (d := d) (k := S k) in Ef. destruct Ef as (_ & Hj & Hr).
    rewrite Nat.sub_0_r in *. apply b_is_true in E35. subst c.
    cbn [sref b_is N.eqb Pos.eqb]. rewrite Hr. rewrite skipn_length. cbn [length]. f_equal. lia. }
  destruct (b_is c 123) eqn:E123.
  { intros _ d k. cbn [sref length]. rewrite E123. f_equal. lia. }
  destruct (b_is c 125) eqn:E125.
  { intros _ d k. cbn [sref length]. rewrite E123, E125. replace (k + (S (length s0) - length s0)) with (S k) by lia. reflexivity. }
  destruct (b_is c 34) eqn:E34.
  { destruct (rq_scan s0 0) as [i|o] eqn:Eq; [|exact I].
    intros _ d k. apply quote_run with (n := length s0) (d := d) (k := S k) in Eq; [|lia].
    destruct Eq as (_ & Hi & Hr). rewrite Nat.sub_0_r in *.
    cbn [sref]. rewrite E123, E125, E34, Hr. rewrite skipn_length. cbn [length]. f_equal. lia. }
  destruct (b_is c 64) eqn:E64.
  { destruct s0 as [|c2 s1]; [exact I|]. destruct (b_is c2 91).
    - destruct (find_from (fun x => b_is x 93) s1 0) as [j|] eqn:Ef; [|exact I].
      cbn [tok_plain]. intros Hp d k. apply find_from_lt in Ef. apply plain_split; [cbn [length]; lia|exact Hp].
    - apply unq_item_eff. discriminate. }
  assert (Ho : forall x a b, b_is c x = true -> sk_special x = false ->
     match op_item s0 a b with
     | ISkip s' _ => skip_eff (c :: s0) s'
     | ITok t s' _ => tok_plain t = true -> tok_eff t (c :: s0) s'
     | ITokEof t _ => tok_plain t = true -> tok_eff t (c :: s0) []
     | _ => True
     end).
  { intros x a b Hx Hsx. pose proof (op_item_eff c s0 a b (is_special_of c x Hx Hsx)) as H.
    pose proof (op_item_noskip s0 a b) as Hn.
    destruct (op_item s0 a b) eqn:E; auto.
    - exfalso. eapply Hn. reflexivity.
    - unfold op_item in E. destruct s0 as [|? ?]; [discriminate|]. destruct (b_is _ 61); discriminate. }
  destruct (b_is c 61) eqn:E61; [apply (Ho 61%N); [exact E61|reflexivity]|].
  destruct (b_is c 60) eqn:E60; [apply (Ho 60%N); [exact E60|reflexivity]|].
  destruct (b_is c 33) eqn:E33; [apply (Ho 33%N); [exact E33|reflexivity]|].
  destruct (b_is c 63) eqn:E63; [apply (Ho 63%N); [exact E63|reflexivity]|].
  destruct (b_is c 62) eqn:E62; [apply (Ho 62%N); [exact E62|reflexivity]|].
  rewrite andb_false_r.
  apply unq_item_eff. discriminate.
Qed.

Lemma skip_tok_eff t s s2 s' : length s' <= length s2 <= length s ->
  skip_eff s s2 -> tok_eff t s2 s' -> tok_eff t s s'.
Proof.
  intros Hl Hs Ht d k. rewrite Hs, Ht.
  replace (k + (length s - length s2) + (length s2 - length s')) with (k + (length s - length s')) by lia.
  reflexivity.
Qed.

(* one token of the tokenizer *)
Lemma tk_eff : forall n s t s' m, length s <= n ->
  tk false s = (RTok t s', m) -> tok_plain t = true -> tok_eff t s s' /\ length s' < length s.
Proof.
  induction n as [|n IH]; intros s t s' m Hn.
  - destruct s; [|cbn in Hn; lia]. rewrite tk_unfold. cbn. discriminate.
  - rewrite tk_unfold. pose proof (item_eff s) as He.
    destruct (item false s) as [s2 k|t2 s2 k|t2 k|k|k0 k] eqn:E; try discriminate.
    + pose proof (item_skip_shrinks _ _ _ _ E) as Hs. destruct (tk false s2) as [res m2] eqn:E2.
      unfold bump; cbn [fst snd]. intros H Hp; inversion H; subst.
      destruct (IH s2 t s' m2 ltac:(lia) E2 Hp) as [H1 H2]. split; [|lia].
      apply (skip_tok_eff t s s2 s'); [lia|exact He|exact H1].
    + intros H Hp; inversion H; subst. split; [exact (He Hp)|]. eapply item_tok_shrinks; eauto.
    + intros H Hp; inversion H; subst. split; [exact (He Hp)|]. destruct s; [discriminate|]. cbn [length]. lia.
Qed.

(* Theorem 4 *)
Theorem tok_count_sref : forall fuel depth s toks r,
  tok_count fuel depth s = Some (toks, r) -> 1 <= depth -> forallb tok_plain toks = true ->
  length r <= length s /\
  forall k, sref s SkNone (Z.of_nat depth) k = Some (k + (length s - length r)).
Proof.
  induction fuel as [|f IH]; intros depth s toks r H Hd Hp; [discriminate|].
  cbn [tok_count] in H. destruct (tk false s) as [res m] eqn:E. cbn [fst] in H.
  destruct res as [t s'| |k0]; [|discriminate|discriminate].
  assert (Hrec : forall dep l, tok_count f dep s' = Some (l, r) -> toks = t :: l -> 1 <= dep ->
            (forall k, sref s SkNone (Z.of_nat depth) k = sref s' SkNone (Z.of_nat dep) (k + (length s - length s'))) ->
            length s' < length s ->
            length r <= length s /\ forall k, sref s SkNone (Z.of_nat depth) k = Some (k + (length s - length r))).
  { intros dep l Hc Ht Hdep Hs Hlt. subst toks. cbn [forallb] in Hp. apply andb_true_iff in Hp. destruct Hp as [_ Hp].
    destruct (IH dep s' l r Hc Hdep Hp) as [Hl Hk]. split; [lia|]. intros k. rewrite Hs, Hk. f_equal. lia. }
  assert (Hpt : forall l, toks = t :: l -> tok_plain t = true).
  { intros l ->. cbn [forallb] in Hp. apply andb_true_iff in Hp. apply Hp. }
  destruct t as [| |o|u|q].
  - destruct (tok_count f (S depth) s') as [[l r']|] eqn:Ec; [|discriminate]. inversion H; subst.
    destruct (tk_eff (length s) s ROpen s' m ltac:(lia) E eq_refl) as [He Hlt].
    apply (Hrec (S depth) l Ec eq_refl ltac:(lia)); [|exact Hlt].
    intros k. rewrite He. f_equal. lia.
  - destruct (tk_eff (length s) s RClose s' m ltac:(lia) E eq_refl) as [He Hlt].
    destruct (Nat.leb depth 1) eqn:E1.
    + apply Nat.leb_le in E1. inversion H; subst. split; [lia|]. intros k. rewrite He.
      replace (Z.of_nat depth - 1 =? 0)%Z with true by (symmetry; apply Z.eqb_eq; lia). reflexivity.
    + apply Nat.leb_gt in E1.
      destruct (tok_count f (depth - 1) s') as [[l r']|] eqn:Ec; [|discriminate]. inversion H; subst.
      apply (Hrec (depth - 1) l Ec eq_refl ltac:(lia)); [|exact Hlt].
      intros k. rewrite He.
      replace (Z.of_nat depth - 1 =? 0)%Z with false by (symmetry; apply Z.eqb_neq; lia). f_equal. lia.
  - destruct (tok_count f depth s') as [[l r']|] eqn:Ec; [|discriminate]. inversion H; subst.
    destruct (tk_eff (length s) s (ROp o) s' m ltac:(lia) E eq_refl) as [He Hlt].
    apply (Hrec depth l Ec eq_refl Hd); [|exact Hlt]. intros k. rewrite He. reflexivity.
  - destruct (tok_count f depth s') as [[l r']|] eqn:Ec; [|discriminate]. inversion H; subst.
    destruct (tk_eff (length s) s (RUnq u) s' m ltac:(lia) E (Hpt l eq_refl)) as [He Hlt].
    apply (Hrec depth l Ec eq_refl Hd); [|exact Hlt]. intros k. rewrite He. reflexivity.
  - destruct (tok_count f depth s') as [[l r']|] eqn:Ec; [|discriminate]. inversion H; subst.
    destruct (tk_eff (length s) s (RQuo q) s' m ltac:(lia) E eq_refl) as [He Hlt].
    apply (Hrec depth l Ec eq_refl Hd); [|exact Hlt]. intros k. rewrite He. reflexivity.
Qed.

Theorem token_skip_is_skip_ref : forall s toks r,
  token_skip s = Some (toks, r) -> forallb tok_plain toks = true ->
  length r <= length s /\ skip_ref s = Some (length s - length r).
Proof.
  intros s toks r H Hp. unfold token_skip in H.
  destruct (tok_count_sref _ _ _ _ _ H ltac:(lia) Hp) as [Hl Hk]. split; [exact Hl|].
  unfold skip_ref. change 1%Z with (Z.of_nat 1). rewrite Hk. reflexivity.
Qed.
