(* C07 main theorems: one call of next_opt on the streaming reader returns what the reference
   tokenizer returns on the remaining stream, for every read schedule without I/O failures and
   every buffer that can hold the longest atom; hence run_stream = run_slice. *)
From JV Require Import Bytes Tables U64Swar BufWin TextTok TextReader TextRef.
From JV.proofs Require Import BufWinProofs TextReaderProofs TextRefProofs TextFbProofs SwarLaneProofs TextFastProofs.
From Coq Require Import Lia List Arith.
Import ListNotations.
Open Scope nat_scope.

Definition rok (input : bytes) (r : reader) : Prop :=
  stream_inv input (rbw r) (rrd r) /\ no_fail (sched (rrd r)) /\
  (cap (rbw r) = 0 \/ length (win (rbw r)) <= cap (rbw r)).

Definition capok (b : bufwin) (d : rd) (n : nat) : Prop :=
  (cap b = 0 /\ rest d = []) \/ (0 < cap b /\ n <= cap b).

Definition stream_of (r : reader) : bytes := win (rbw r) ++ rest (rrd r).

Definition stepres (input : bytes) (capv nr : nat) (res : tres) (out : nres) : Prop :=
  match res with
  | RTok t s' => exists r', out = NTok t r' /\ rok input r' /\ stream_of r' = s' /\
                            cap (rbw r') = capv /\ length (rest (rrd r')) <= nr
  | REnd => exists r', out = NEnd r' /\ rok input r' /\ stream_of r' = []
  | REof k => exists r', out = NErr E_Eof r' /\ rok input r' /\ length (stream_of r') = k
  end.

Lemma stepres_mono input capv nr nr' res out : nr <= nr' -> stepres input capv nr res out -> stepres input capv nr' res out.
Proof.
  intros Hle. destruct res as [t s'| |k]; cbn [stepres]; [|auto|auto].
  intros (r' & H1 & H2 & H3 & H4 & H5). exists r'. repeat split; try assumption; try apply H2. lia.
Qed.

(* ---------- the buffer ---------- *)
Lemma fill_cases b d : no_fail (sched d) ->
  match bw_fill_buf b d with
  | FillOk n b' d' => exists bs, length bs = n /\ rest d = bs ++ rest d' /\ win b' = win b ++ bs /\
        cap b' = cap b /\ bw_position b' = bw_position b /\ no_fail (sched d') /\
        (n = 0 -> cap b = 0 \/ (rest d = [] /\ length (win b) < cap b)) /\ (cap b = 0 \/ length (win b') <= cap b)
  | FillIo _ _ => False
  | FillFull _ _ => 0 < cap b <= length (win b)
  end.
Proof.
  intros Hnf. unfold bw_fill_buf.
  destruct (Nat.leb (cap b) (length (win b))) eqn:Hfull.
  - apply Nat.leb_le in Hfull. destruct (Nat.eqb (cap b) 0) eqn:Hz.
    + apply Nat.eqb_eq in Hz. exists []. rewrite app_nil_r. cbn [app length]. auto 12.
    + apply Nat.eqb_neq in Hz. lia.
  - apply Nat.leb_gt in Hfull.
    destruct (rd_read d (cap b - length (win b))) as [[bs d']| | | |] eqn:Hrd.
    + destruct (rd_read_split _ _ _ _ Hrd) as (Hsplit & Hle & Hz).
      exists bs. split; [reflexivity|]. split; [exact Hsplit|]. cbn [win cap]. split; [reflexivity|]. split; [reflexivity|].
      split; [unfold bw_position; cbn [prior consumed]; lia|]. split.
      * unfold rd_read in Hrd. destruct (match sched d with [] => _ | e :: _ => e end); [|discriminate].
        inversion Hrd; subst. cbn [sched]. intros Hin. apply Hnf. destruct (sched d); [exact Hin|right; exact Hin].
      * split; [intros H0; destruct (Hz H0) as [Hf|Hr]; [lia|right; split; [exact Hr|lia]]|].
        right. rewrite app_length. lia.
    + unfold rd_read in Hrd. destruct (sched d) as [|ev sc] eqn:Es; [discriminate|].
      destruct ev; [discriminate|]. apply Hnf. left. reflexivity.
    + unfold rd_read in Hrd. destruct (match sched d with [] => _ | e :: _ => e end); discriminate.
    + unfold rd_read in Hrd. destruct (match sched d with [] => _ | e :: _ => e end); discriminate.
    + unfold rd_read in Hrd. destruct (match sched d with [] => _ | e :: _ => e end); discriminate.
Qed.

Lemma rok_advance input b d bom bom' adv :
  rok input (mkreader b d bom) -> adv <= length (win b) ->
  bw_advance b adv = Ok (mkbw (cap b) (skipn adv (win b)) (consumed b + adv) (prior b)) /\
  rok input (mkreader (mkbw (cap b) (skipn adv (win b)) (consumed b + adv) (prior b)) d bom').
Proof.
  intros [(pre & Hin & Hlen) [Hnf Hwin]] Hadv. cbn [rbw rrd] in *. split.
  - unfold bw_advance. replace (Nat.ltb (length (win b)) adv) with false; [reflexivity|].
    symmetry. apply Nat.ltb_ge. exact Hadv.
  - split; [|split; [exact Hnf|cbn [rbw cap win]; rewrite skipn_length; lia]].
    cbn [rbw rrd]. exists (pre ++ firstn adv (win b)). cbn [win]. split.
    + rewrite <- app_assoc. rewrite (app_assoc (firstn adv (win b))), firstn_skipn. exact Hin.
    + rewrite app_length, firstn_length. unfold bw_position in *. cbn [prior consumed]. lia.
Qed.

(* the state after advance_to(end - carry) and fill_buf *)
Lemma refill_fill input b d bom c :
  rok input (mkreader b d bom) -> c <= length (win b) ->
  let cb := skipn (length (win b) - c) (win b) in
  let b1 := mkbw (cap b) cb (consumed b + (length (win b) - c)) (prior b) in
  length cb = c /\
  match bw_fill_buf b1 d with
  | FillOk n b2 d2 => exists bs, length bs = n /\ rest d = bs ++ rest d2 /\ win b2 = cb ++ bs /\
        cap b2 = cap b /\ bw_position b2 = bw_position b + (length (win b) - c) /\
        (forall bom', rok input (mkreader b2 d2 bom')) /\
        (n = 0 -> cap b = 0 \/ (rest d = [] /\ c < cap b))
  | FillIo _ _ => False
  | FillFull _ _ => 0 < cap b <= c
  end.
Proof.
  intros Hrok Hc cb b1.
  assert (Hcb : length cb = c) by (unfold cb; rewrite skipn_length; lia).
  split; [exact Hcb|].
  destruct (rok_advance input b d bom bom (length (win b) - c) Hrok ltac:(lia)) as [_ [Hinv [Hnf Hwin]]].
  fold cb in Hinv. fold b1 in Hinv. cbn [rbw rrd] in Hinv, Hnf.
  pose proof (fill_cases b1 d Hnf) as H. pose proof (fill_buf_preserves input b1 d Hinv) as Hp.
  destruct (bw_fill_buf b1 d) as [n b2 d2|b2 d2|b2 d2]; [|exact H|].
  - destruct H as (bs & H1 & H2 & H3 & H4 & H5 & H6 & H7 & H8). exists bs.
    split; [exact H1|]. split; [exact H2|]. split; [exact H3|]. split; [exact H4|].
    split; [rewrite H5; unfold bw_position, b1; cbn [prior consumed]; lia|].
    split; [|intros H0; destruct (H7 H0) as [H9|[H9 H10]]; [left; exact H9|right; split; [exact H9|unfold b1 in H10; cbn [win cap] in H10; lia]]].
    intros bom'. split; [exact (proj1 Hp)|]. split; [exact H6|].
    cbn [rbw]. rewrite H4. exact H8.
  - unfold b1 in H. cbn [cap win] in H. lia.
Qed.

(* ---------- what a pending atom needs ---------- *)
Lemma pend_need st start cb o y :
  pend st start cb o -> cb = [] \/ length cb < snd (tk start (patom st cb ++ y)).
Proof.
  destruct st; cbn [pend patom].
  - intros [_ [H|H]]; [left; exact H|right]. pose proof (tk_need_ge start (cb ++ y)). specialize (H y). lia.
  - intros [-> (Ho & Hres & Hge)]. right. pose proof (tk_need_ge false ((34%N :: cb) ++ y)) as Hn.
    cbn [app] in Hn |- *. rewrite item_quote in Hn. destruct (rq_scan (cb ++ y) 0) as [i|o2] eqn:E.
    + apply Hge in E. cbn [inee] in Hn. lia.
    + cbn [inee] in Hn. rewrite app_length in Hn. lia.
  - intros [(Hne & Hfind & Hit) _]. right. pose proof (tk_need_ge start (cb ++ y)) as Hn.
    destruct (Hit y) as (m & _ & Hm). rewrite Hm in Hn. destruct cb as [|a cb']; [congruence|].
    unfold unq_item in Hn. cbn [app tl] in Hn, Hfind |- *. rewrite (find_from_none_app _ cb' y 0 Hfind) in Hn.
    destruct (find_from is_boundary y (0 + length cb')) as [k|] eqn:Ey.
    + apply find_from_bounds in Ey. cbn [bump_item inee] in Hn. cbn [length]. lia.
    + cbn [bump_item inee length] in Hn. rewrite app_length in Hn. cbn [length]. lia.
Qed.

Lemma item_end_cases start cb n : item start cb = IEnd n -> cb = [] \/ exists t, cb = 35%N :: t.
Proof.
  destruct cb as [|c s0]; [left; reflexivity|]. intros H. right. cbn [item] in H.
  destruct (is_ws c); [discriminate|]. destruct (b_is c 35) eqn:E35; [apply b_is_eq in E35; subst; eauto|].
  exfalso.
  destruct (b_is c 123); [discriminate|]. destruct (b_is c 125); [discriminate|].
  destruct (b_is c 34). { destruct (rq_scan s0 0); discriminate. }
  assert (Hu : forall s m, bump_item m (unq_item s) <> IEnd n).
  { intros s m. unfold unq_item. destruct (find_from is_boundary (tl s) 0); discriminate. }
  assert (Ho : forall a b, op_item s0 a b <> IEnd n).
  { intros a b. unfold op_item. destruct s0 as [|c3 s1]; [discriminate|]. destruct (b_is c3 61); discriminate. }
  destruct (b_is c 64).
  { destruct s0 as [|c2 s1]; [discriminate|]. destruct (b_is c2 91).
    - destruct (find_from _ s1 0); discriminate.
    - apply (Hu (c :: c2 :: s1) 0). rewrite bump_item_0. exact H. }
  destruct (b_is c 61); [eapply Ho; eauto|]. destruct (b_is c 60); [eapply Ho; eauto|].
  destruct (b_is c 33); [eapply Ho; eauto|]. destruct (b_is c 63); [eapply Ho; eauto|].
  destruct (b_is c 62); [eapply Ho; eauto|].
  destruct (b_is c 239 && start).
  { destruct s0 as [|b1 [|b2 s3]]; try discriminate. destruct (b_is b1 187 && b_is b2 191); [discriminate|].
    eapply Hu; eauto. }
  apply (Hu (c :: s0) 0). rewrite bump_item_0. exact H.
Qed.

Lemma item_eof_nothash start cb k n : item start cb = IEof k n ->
  match cb with c0 :: _ => b_is c0 35 = false | [] => False end.
Proof.
  destruct cb as [|c s0]; [discriminate|]. cbn [item].
  destruct (is_ws c); [discriminate|]. destruct (b_is c 35) eqn:E35; [|reflexivity].
  destruct (find_from _ s0 0); discriminate.
Qed.

Lemma snd_bump m p : snd p <= snd (bump m p).
Proof. unfold bump. cbn [snd]. lia. Qed.
Lemma fst_bump m p : fst (bump m p) = fst p.
Proof. reflexivity. Qed.

Lemma capok_mono b d b' d' n n' :
  capok b d n -> cap b' = cap b -> n' <= n -> (rest d = [] -> rest d' = []) -> capok b' d' n'.
Proof. intros [[H1 H2]|[H1 H2]] Hc Hn Hr; [left; rewrite Hc; auto|right; rewrite Hc; split; lia]. Qed.

(* ---------- next_opt_refill ---------- *)
Theorem refill_spec input : forall nrest fuel r st c o start',
  length (rest (rrd r)) <= nrest -> nrest + 2 <= fuel ->
  rok input r -> c <= length (win (rbw r)) ->
  pend st start' (skipn (length (win (rbw r)) - c) (win (rbw r))) o ->
  (st = PNone -> start' = Nat.eqb (reader_position r + (length (win (rbw r)) - c)) 0 && N.eqb (rbom r) 0) ->
  capok (rbw r) (rrd r)
        (snd (tk start' (patom st (skipn (length (win (rbw r)) - c) (win (rbw r))) ++ rest (rrd r)))) ->
  stepres input (cap (rbw r)) (length (rest (rrd r)))
        (fst (tk start' (patom st (skipn (length (win (rbw r)) - c) (win (rbw r))) ++ rest (rrd r))))
        (refill fuel r st c o).
Proof.
  induction nrest as [nrest IH] using lt_wf_ind.
  intros fuel r st c o start' Hrest Hfuel Hrok Hc Hpend Hstart Hcap.
  destruct fuel as [|f]; [lia|]. destruct r as [b d bom]. cbn [rbw rrd rbom] in *.
  cbn [refill rbw rrd rbom].
  replace (Nat.ltb (length (win b)) c) with false by (symmetry; apply Nat.ltb_ge; exact Hc).
  destruct (refill_fill input b d bom c Hrok Hc) as [Hcb Hfill]. cbv zeta in Hcb, Hfill.
  remember (skipn (length (win b) - c) (win b)) as cb eqn:Ecbdef. clear Ecbdef.
  pose proof (pend_need st start' cb o (rest d) Hpend) as Hneed.
  destruct (bw_fill_buf _ d) as [n b2 d2|b2 d2|b2 d2]; [|contradiction|].
  2:{ (* a full buffer contradicts the capacity hypothesis *)
      exfalso. destruct Hcap as [[H0 _]|[H0 H1]]; [lia|].
      destruct Hneed as [Hn|Hn]; [rewrite Hn in Hcb; cbn in Hcb; lia|lia]. }
  destruct Hfill as (bs & Hbs & Hsplit & Hw2 & Hcap2 & Hpos2 & Hrok2 & Hzero).
  destruct n as [|n].
  - (* end of the stream *)
    destruct bs; [|discriminate]. rewrite app_nil_r in Hw2. cbn [app] in Hsplit.
    assert (Hr : rest d = []).
    { destruct (Hzero eq_refl) as [H0|[H0 _]]; [|exact H0]. destruct Hcap as [[_ H1]|[H1 _]]; [exact H1|lia]. }
    assert (Hr2 : rest d2 = []) by congruence.
    rewrite Hr, app_nil_r. clear Hneed.
    destruct st; cbn [pend patom] in *.
    + (* None *)
      destruct Hpend as [Hit _]. rewrite tk_unfold. rewrite Hw2.
      destruct (item start' cb) as [s2 k|t2 s2 k|t2 k|k|k0 k] eqn:Ei; try contradiction.
      * cbn [fst stepres]. destruct (item_end_cases _ _ _ Ei) as [Hnil|(t & Ht)].
        -- rewrite Hnil in Hcb. cbn [length] in Hcb. subst c. cbn [Nat.eqb orb].
           destruct (rok_advance input b2 d2 bom bom 0 (Hrok2 bom) ltac:(lia)) as [Hadv Hr3].
           rewrite Hadv. eexists. split; [reflexivity|]. split; [exact Hr3|].
           unfold stream_of. cbn [rbw rrd win with_bw]. rewrite Hw2, Hnil, Hr2. reflexivity.
        -- rewrite Ht. replace (b_is 35 35) with true by reflexivity. rewrite orb_true_r.
           destruct (rok_advance input b2 d2 bom bom c (Hrok2 bom) ltac:(rewrite Hw2; lia)) as [Hadv Hr3].
           rewrite Hadv. eexists. split; [reflexivity|]. split; [exact Hr3|].
           unfold stream_of. cbn [rbw rrd win with_bw]. rewrite Hw2, Hr2, app_nil_r. apply skipn_all2. lia.
      * cbn [fst stepres]. destruct Hit as [Hk0 _]. subst k0. pose proof (item_eof_nothash _ _ _ _ Ei) as Hh.
        destruct cb as [|c0 cb']; [contradiction|]. rewrite Hh.
        replace (Nat.eqb c 0) with false by (symmetry; apply Nat.eqb_neq; cbn [length] in Hcb; lia).
        cbn [orb]. eexists. split; [reflexivity|]. split; [apply Hrok2|].
        unfold stream_of. cbn [rbw rrd]. rewrite Hw2, Hr2, app_nil_r. reflexivity.
    + (* Quote *)
      destruct Hpend as [-> (Ho & Hres & Hge)]. rewrite tk_unfold, item_quote.
      destruct (rq_scan cb 0) as [i|o2] eqn:E.
      * exfalso. pose proof (rq_scan_bounds (length cb) cb 0 i (le_n _) E).
        specialize (Hge [] i). rewrite app_nil_r in Hge. specialize (Hge E). lia.
      * cbn [fst stepres]. eexists. split; [reflexivity|]. split; [apply Hrok2|].
        unfold stream_of. cbn [rbw rrd]. rewrite Hw2, Hr2, app_nil_r. reflexivity.
    + (* Unquoted *)
      destruct Hpend as [(Hne & Hfind & Hit) _]. rewrite tk_unfold.
      destruct (Hit []) as (m & _ & Hm). rewrite app_nil_r in Hm. rewrite Hm. unfold unq_item. rewrite Hfind.
      cbn [bump_item fst stepres].
      destruct (rok_advance input b2 d2 bom bom (length (win b2)) (Hrok2 bom) (le_n _)) as [Hadv Hr3].
      rewrite Hadv. eexists. split; [|split; [exact Hr3|]].
      * rewrite Hw2. rewrite firstn_all2 by lia. reflexivity.
      * unfold stream_of. cbn [rbw rrd win with_bw cap]. rewrite skipn_all, Hr2. split; [reflexivity|]. split; [exact Hcap2|]. lia.
  - (* more data arrived *)
    assert (Hbsne : bs <> []) by (intros ->; discriminate).
    assert (Hlt : length (rest d2) < nrest).
    { assert (length (rest d) = length bs + length (rest d2)) by (rewrite Hsplit, app_length; reflexivity). lia. }
    assert (Hrn : rest d = [] -> rest d2 = []).
    { intros H0. rewrite H0 in Hsplit. destruct bs; [congruence|discriminate]. }
    destruct st; cbn [pend patom] in *.
    + (* None: rescan the window from its start *)
      cbn [rbw rrd rbom].
      pose proof (fb_sound (S (S (length (win b2)))) (Nat.eqb (bw_position b2) 0) (win b2) (win b2) 0 bom (rest d2)
                    eq_refl ltac:(lia) ltac:(destruct (N.eqb bom 0); lia)) as Hfb.
      rewrite Nat.eqb_refl, andb_true_r in Hfb.
      assert (Hst : Nat.eqb (bw_position b2) 0 && N.eqb bom 0 = start').
      { rewrite Hstart by reflexivity. rewrite Hpos2. reflexivity. }
      rewrite Hst in Hfb.
      assert (Hstream : cb ++ rest d = win b2 ++ rest d2) by (rewrite Hw2, Hsplit, app_assoc; reflexivity).
      rewrite Hstream in *.
      destruct (fb _ _ _ _ _ _) as [a bom'] eqn:Efb. destruct Hfb as [Hb1 Hfb]. cbn [fst snd] in Hb1, Hfb.
      destruct a as [st' c' o'|t adv|site]; [| |contradiction].
      * destruct Hfb as (Hc' & Hp' & Hb2 & (m & Hmle & Hm)).
        rewrite Hm, fst_bump.
        replace (cap b) with (cap (rbw (mkreader b2 d2 bom'))) by exact Hcap2.
        apply (stepres_mono _ _ (length (rest (rrd (mkreader b2 d2 bom'))))); [cbn [rrd]; rewrite Hsplit, app_length; lia|].
        apply (IH (length (rest d2)) Hlt f (mkreader b2 d2 bom') st' c' o'); cbn [rbw rrd rbom].
        -- lia.
        -- lia.
        -- apply Hrok2.
        -- exact Hc'.
        -- exact Hp'.
        -- intros Hs. unfold reader_position. cbn [rbw].
           destruct (Nat.eqb c' (length (win b2))) eqn:Ec.
           ++ apply Nat.eqb_eq in Ec. rewrite Ec, Nat.sub_diag, Nat.add_0_r, andb_true_r.
              destruct start' eqn:Es.
              ** rewrite (Hb2 Hs eq_refl). symmetry. exact Hst.
              ** destruct (Nat.eqb (bw_position b2) 0); [|reflexivity]. cbn [andb] in Hst |- *.
                 rewrite (Hb1 Hst). symmetry. exact Hst.
           ++ apply Nat.eqb_neq in Ec. rewrite andb_false_r. symmetry.
              replace (Nat.eqb (bw_position b2 + (length (win b2) - c')) 0) with false; [reflexivity|].
              symmetry. apply Nat.eqb_neq. lia.
        -- eapply capok_mono; [exact Hcap|exact Hcap2| |exact Hrn]. rewrite Hm. apply snd_bump.
      * destruct Hfb as (k & m & Hadv & Hk & Hmle & Hm). cbn [Nat.add] in Hadv. subst adv.
        rewrite Hm. cbn [fst stepres]. unfold emit. cbn [rbw].
        destruct (rok_advance input b2 d2 bom' bom' k (Hrok2 bom') ltac:(lia)) as [Hadv Hr3].
        rewrite Hadv. eexists. split; [reflexivity|]. split; [exact Hr3|].
        unfold stream_of. cbn [rbw rrd win with_bw cap]. split; [|split; [exact Hcap2|rewrite Hsplit, app_length; lia]].
        rewrite skipn_app_le by lia. reflexivity.
    + (* Quote: resume the scan at offset *)
      destruct Hpend as [-> (Ho & Hres & Hge)]. cbn [rbw rrd rbom].
      replace (Nat.ltb (length (win b2)) o) with false by (symmetry; apply Nat.ltb_ge; rewrite Hw2, app_length; lia).
      assert (Hstream : cb ++ rest d = win b2 ++ rest d2) by (rewrite Hw2, Hsplit, app_assoc; reflexivity).
      assert (Ho2 : o <= length (win b2)) by (rewrite Hw2, app_length; lia).
      unfold refill_quote_scan.
      pose proof (rq_scan_app_gen (length (skipn o (win b2))) (skipn o (win b2)) (rest d2) o (le_n _)) as Hgen.
      assert (Hall : rq_scan (win b2 ++ rest d2) 0 = rq_scan (skipn o (win b2) ++ rest d2) o).
      { rewrite <- Hstream, Hres, Hstream, skipn_app_le by lia. reflexivity. }
      destruct (rq_scan (skipn o (win b2)) o) as [i|o2] eqn:Escan.
      * pose proof (rq_scan_bounds _ _ _ _ (le_n _) Escan) as Hi. rewrite skipn_length in Hi.
        cbn [app]. rewrite Hstream. rewrite tk_unfold, item_quote, Hall, Hgen.
        cbn [fst stepres]. unfold emit. cbn [rbw].
        destruct (rok_advance input b2 d2 bom bom (S i) (Hrok2 bom) ltac:(lia)) as [Hadv Hr3].
        rewrite Hadv. eexists. split; [|split; [exact Hr3|]].
        -- rewrite firstn_app_le by lia. reflexivity.
        -- unfold stream_of. cbn [rbw rrd win with_bw cap]. split; [|split; [exact Hcap2|rewrite Hsplit, app_length; lia]].
           rewrite skipn_app_le by lia. reflexivity.
      * (* still open: carry the whole window, resume where the scan stopped *)
        destruct Hgen as (j & Hj1 & Hj2 & Hj3). rewrite skipn_length in Hj2.
        replace (cap b) with (cap (rbw (mkreader b2 d2 bom))) by exact Hcap2.
        apply (stepres_mono _ _ (length (rest (rrd (mkreader b2 d2 bom))))); [cbn [rrd]; rewrite Hsplit, app_length; lia|].
        assert (Hpat : (34%N :: cb) ++ rest d = patom PQuote (skipn (length (win b2) - length (win b2)) (win b2)) ++ rest d2).
        { rewrite Nat.sub_diag. cbn [skipn patom app]. rewrite Hstream. reflexivity. }
        rewrite Hpat in *.
        apply (IH (length (rest d2)) Hlt f (mkreader b2 d2 bom) PQuote (length (win b2)) o2); cbn [rbw rrd rbom].
        -- lia.
        -- lia.
        -- apply Hrok2.
        -- lia.
        -- rewrite Nat.sub_diag. cbn [skipn pend]. split; [reflexivity|]. split; [lia|]. split.
           ++ intros y.
              pose proof (rq_scan_app_gen (length (skipn o (win b2))) (skipn o (win b2)) y o (le_n _)) as Hy.
              rewrite Escan in Hy. destruct Hy as (j' & Hy1 & Hy2 & Hy3).
              assert (j' = j) by lia. subst j'.
              rewrite Hw2, <- app_assoc, Hres, app_assoc, <- Hw2.
              rewrite skipn_app_le by lia. rewrite Hy3. rewrite <- skipn_app_le by lia.
              rewrite skipn_skipn. f_equal. f_equal. lia.
           ++ intros y i Hy.
              rewrite Hw2, <- app_assoc, Hres, app_assoc, <- Hw2 in Hy. rewrite skipn_app_le in Hy by lia.
              pose proof (rq_scan_inr_ge _ _ _ _ _ _ (le_n _) Escan Hy) as Hge2. rewrite skipn_length in Hge2. lia.
        -- discriminate.
        -- eapply capok_mono; [exact Hcap|exact Hcap2|lia|exact Hrn].
    + (* Unquoted: resume the boundary scan at the old window length *)
      destruct Hpend as [(Hne & Hfind & Hit) ->]. cbn [rbw rrd rbom].
      replace (Nat.ltb (length (win b2)) (length cb)) with false by (symmetry; apply Nat.ltb_ge; rewrite Hw2, app_length; lia).
      assert (Hstream : cb ++ rest d = win b2 ++ rest d2) by (rewrite Hw2, Hsplit, app_assoc; reflexivity).
      assert (Hsk : skipn (length cb) (win b2) = bs) by (rewrite Hw2, skipn_app_le, skipn_all by lia; reflexivity).
      unfold refill_unq_scan. rewrite Hsk.
      destruct cb as [|a cb'] eqn:Ecb; [congruence|]. rewrite <- Ecb in *.
      assert (Hfind' : find_from is_boundary cb' 0 = None) by (rewrite Ecb in Hfind; exact Hfind).
      assert (Hlen : length cb = S (length cb')) by (rewrite Ecb; reflexivity).
      assert (Htl : forall z, find_from is_boundary (tl (cb ++ z)) 0 = find_from is_boundary z (length cb')).
      { intros z. rewrite Ecb. cbn [app tl]. rewrite (find_from_none_app _ cb' z 0 Hfind'). reflexivity. }
      assert (Hsh : forall z, find_from is_boundary z (length cb) = option_map (fun i => i + 1) (find_from is_boundary z (length cb'))).
      { intros z. rewrite Hlen. replace (S (length cb')) with (length cb' + 1) by lia. apply find_from_shift. }
      destruct (find_from is_boundary bs (length cb)) as [i|] eqn:Escan.
      * pose proof (find_from_bounds _ _ _ _ Escan) as Hi.
        rewrite Hsh in Escan. destruct (find_from is_boundary bs (length cb')) as [i0|] eqn:E0; [|discriminate].
        cbn [option_map] in Escan. assert (i = S i0) by (inversion Escan; lia). subst i.
        rewrite tk_unfold. destruct (Hit (rest d)) as (m & _ & Hm). rewrite Hm. unfold unq_item.
        rewrite Htl, Hsplit, (find_from_some_app _ bs (rest d2) _ _ E0). cbn [bump_item fst stepres].
        unfold emit. cbn [rbw].
        destruct (rok_advance input b2 d2 bom bom (S i0) (Hrok2 bom) ltac:(rewrite Hw2, app_length; lia)) as [Hadv Hr3].
        rewrite Hadv. rewrite <- Hsplit, Hstream. eexists. split; [|split; [exact Hr3|]].
        -- rewrite firstn_app_le by (rewrite Hw2, app_length; lia). reflexivity.
        -- unfold stream_of. cbn [rbw rrd win with_bw cap]. split; [|split; [exact Hcap2|rewrite Hsplit, app_length; lia]].
           rewrite skipn_app_le by (rewrite Hw2, app_length; lia). reflexivity.
      * rewrite Hsh in Escan. destruct (find_from is_boundary bs (length cb')) as [i0|] eqn:E0; [discriminate|].
        replace (cap b) with (cap (rbw (mkreader b2 d2 bom))) by exact Hcap2.
        apply (stepres_mono _ _ (length (rest (rrd (mkreader b2 d2 bom))))); [cbn [rrd]; rewrite Hsplit, app_length; lia|].
        assert (Hpat : cb ++ rest d = patom PUnq (skipn (length (win b2) - length (win b2)) (win b2)) ++ rest d2).
        { rewrite Nat.sub_diag. cbn [skipn patom]. exact Hstream. }
        rewrite Hpat in *.
        apply (IH (length (rest d2)) Hlt f (mkreader b2 d2 bom) PUnq (length (win b2)) (length (win b2))); cbn [rbw rrd rbom].
        -- lia.
        -- lia.
        -- apply Hrok2.
        -- lia.
        -- rewrite Nat.sub_diag. cbn [skipn pend]. split; [|reflexivity]. split; [|split].
           ++ rewrite Hw2. intros H0. apply app_eq_nil in H0. destruct H0; congruence.
           ++ rewrite Hw2, Htl. replace (length cb') with (0 + length cb') by lia.
              rewrite find_from_shift, <- (find_from_shift _ _ 0 (length cb')). cbn [Nat.add]. exact E0.
           ++ intros y. destruct (Hit (bs ++ y)) as (m & Hm1 & Hm2). exists m.
              rewrite Hw2, <- app_assoc. split; [rewrite app_length; lia|exact Hm2].
        -- discriminate.
        -- eapply capok_mono; [exact Hcap|exact Hcap2|lia|exact Hrn].
Qed.

(* ---------- one call of next_opt_fallback / next_opt ---------- *)
Definition startb (r : reader) : bool := Nat.eqb (reader_position r) 0 && N.eqb (rbom r) 0.

Lemma start_after pos bom bom' c wl :
  c <= wl ->
  (N.eqb bom 0 = false -> bom' = bom) ->
  (Nat.eqb pos 0 && N.eqb bom 0 && Nat.eqb c wl = true -> bom' = bom) ->
  Nat.eqb pos 0 && N.eqb bom 0 && Nat.eqb c wl = Nat.eqb (pos + (wl - c)) 0 && N.eqb bom' 0.
Proof.
  intros Hc H1 H2. destruct (Nat.eqb c wl) eqn:Ec.
  - apply Nat.eqb_eq in Ec. subst c. rewrite Nat.sub_diag, Nat.add_0_r, andb_true_r in *.
    destruct (Nat.eqb pos 0); [|reflexivity]. cbn [andb] in *.
    destruct (N.eqb bom 0) eqn:Eb.
    + rewrite (H2 eq_refl). symmetry. exact Eb.
    + rewrite (H1 eq_refl). symmetry. exact Eb.
  - apply Nat.eqb_neq in Ec. rewrite andb_false_r. symmetry.
    replace (Nat.eqb (pos + (wl - c)) 0) with false; [reflexivity|]. symmetry. apply Nat.eqb_neq. lia.
Qed.

Theorem fallback_step input fuel r :
  rok input r -> length (rest (rrd r)) + 2 <= fuel ->
  capok (rbw r) (rrd r) (snd (tk (startb r) (stream_of r))) ->
  stepres input (cap (rbw r)) (length (rest (rrd r))) (fst (tk (startb r) (stream_of r))) (fallback fuel r).
Proof.
  intros Hrok Hfuel Hcap. destruct r as [b d bom]. unfold fallback, startb, stream_of, reader_position in *.
  cbn [rbw rrd rbom] in *.
  pose proof (fb_sound (S (S (length (win b)))) (Nat.eqb (bw_position b) 0) (win b) (win b) 0 bom (rest d)
                eq_refl ltac:(lia) ltac:(destruct (N.eqb bom 0); lia)) as Hfb.
  rewrite Nat.eqb_refl, andb_true_r in Hfb.
  destruct (fb _ _ _ _ _ _) as [a bom'] eqn:Efb. destruct Hfb as [Hb1 Hfb]. cbn [fst snd] in Hb1, Hfb.
  destruct a as [st' c' o'|t adv|site]; [| |contradiction].
  - destruct Hfb as (Hc' & Hp' & Hb2 & (m & Hmle & Hm)). rewrite Hm, fst_bump.
    apply (refill_spec input (length (rest d)) fuel (mkreader b d bom') st' c' o'); cbn [rbw rrd rbom].
    + lia.
    + lia.
    + destruct Hrok as [H1 H2]. split; [exact H1|exact H2].
    + exact Hc'.
    + exact Hp'.
    + intros Hs. unfold reader_position. cbn [rbw]. apply start_after; [exact Hc'|exact Hb1|apply Hb2; exact Hs].
    + eapply capok_mono; [exact Hcap|reflexivity| |auto]. rewrite Hm. apply snd_bump.
  - destruct Hfb as (k & m & Hadv & Hk & Hmle & Hm). cbn [Nat.add] in Hadv. subst adv.
    rewrite Hm. cbn [fst stepres]. unfold emit. cbn [rbw].
    assert (Hrok' : rok input (mkreader b d bom')) by (destruct Hrok as [H1 H2]; split; [exact H1|exact H2]).
    destruct (rok_advance input b d bom' bom' k Hrok' ltac:(lia)) as [Hadv Hr3].
    rewrite Hadv. eexists. split; [reflexivity|]. split; [exact Hr3|].
    unfold stream_of. cbn [rbw rrd win with_bw cap]. split; [|split; [reflexivity|lia]].
    rewrite skipn_app_le by lia. reflexivity.
Qed.

Lemma rok_wf input r : wf_bytes input -> rok input r -> wf_bytes (win (rbw r)).
Proof.
  intros Hwf [(pre & Hin & _) _]. unfold wf_bytes in *. rewrite Hin in Hwf.
  apply Forall_app in Hwf as [_ Hwf]. apply Forall_app in Hwf as [Hwf _]. exact Hwf.
Qed.

Definition stepres_ws (input : bytes) (capv nr : nat) (res : tres) (out : nres) : Prop :=
  match res with
  | RTok t s' => exists r', out = NTok t r' /\ rok input r' /\
                            (stream_of r' = s' \/ s' = 32%N :: stream_of r') /\
                            cap (rbw r') = capv /\ length (rest (rrd r')) <= nr
  | _ => stepres input capv nr res out
  end.

Theorem next_opt_step input fuel r :
  wf_bytes input -> rok input r -> length (rest (rrd r)) + 2 <= fuel ->
  capok (rbw r) (rrd r) (snd (tk (startb r) (stream_of r))) ->
  stepres_ws input (cap (rbw r)) (length (rest (rrd r))) (fst (tk (startb r) (stream_of r))) (next_opt fuel r).
Proof.
  intros Hwf Hrok Hfuel Hcap. pose proof (fallback_step input fuel r Hrok Hfuel Hcap) as Hfb.
  destruct (next_opt_fast_eq_fallback fuel r (rok_wf _ _ Hwf Hrok)) as [Heq|(t & i & Hnth & Hf & Hn)].
  - rewrite Heq. destruct (fst (tk (startb r) (stream_of r))) as [t s'| |k]; cbn [stepres stepres_ws] in *; [|exact Hfb|exact Hfb].
    destruct Hfb as (r' & H1 & H2 & H3 & H4 & H5). exists r'. auto 10.
  - rewrite Hf in Hfb. rewrite Hn. unfold emit in *.
    destruct (bw_advance (rbw r) i) as [bi| | | |] eqn:Eadv.
    2-5: destruct (fst (tk (startb r) (stream_of r))); cbn [stepres] in Hfb; destruct Hfb as (r' & H1 & _); discriminate.
    destruct (fst (tk (startb r) (stream_of r))) as [t0 s'| |k]; cbn [stepres stepres_ws] in *;
      [|destruct Hfb as (r' & H1 & _); discriminate|destruct Hfb as (r' & H1 & _); discriminate].
    destruct Hfb as (r' & H1 & H2 & H3 & H4 & H5). inversion H1; subst t0 r'. clear H1.
    assert (Hi : i < length (win (rbw r))) by (apply nth_error_Some; rewrite Hnth; discriminate).
    destruct r as [b d bom]. cbn [rbw rrd rbom] in *.
    destruct (rok_advance input b d bom bom (S i) Hrok ltac:(lia)) as [Hadv Hr3].
    rewrite Hadv. eexists. split; [reflexivity|]. split; [exact Hr3|].
    unfold stream_of, with_bw in *. cbn [rbw rrd win cap] in *.
    unfold bw_advance in Eadv. destruct (Nat.ltb (length (win b)) i); [discriminate|]. inversion Eadv; subst bi. cbn [win cap] in *.
    split; [|split; [reflexivity|lia]]. right. rewrite <- H3. rewrite (skipn_nth_cons _ _ _ Hnth). reflexivity.
Qed.

(* ---------- the whole run ---------- *)
Lemma rok_pos input r : rok input r -> reader_position r + length (stream_of r) = length input.
Proof.
  intros [(pre & Hin & Hlen) _]. unfold reader_position, stream_of. rewrite Hin, !app_length. lia.
Qed.

Lemma startb_pos r : reader_position r > 0 -> startb r = false.
Proof. unfold startb. intros H. replace (Nat.eqb (reader_position r) 0) with false; [reflexivity|]. symmetry. apply Nat.eqb_neq. lia. Qed.

Definition srel (r : reader) (start : bool) (sref : bytes) : Prop :=
  (sref = stream_of r /\ start = startb r) \/
  (sref = 32%N :: stream_of r /\ start = false /\ reader_position r > 0).

Theorem run_spec input : wf_bytes input -> forall n fuel r start sref,
  rok input r -> srel r start sref ->
  length sref < n -> length input + 2 <= fuel ->
  capok (rbw r) (rrd r) (snd (rr start sref)) ->
  run_next n fuel r = (fst (fst (rr start sref)), length input - snd (fst (rr start sref))).
Proof.
  intros Hwf. induction n as [|n IH]; intros fuel r start sref Hrok Hrel Hn Hfuel Hcap; [lia|].
  cbn [run_next].
  pose proof (rok_pos input r Hrok) as Hpos.
  assert (Hrest : length (rest (rrd r)) <= length input).
  { unfold stream_of in Hpos. rewrite app_length in Hpos. lia. }
  assert (Htk : fst (tk (startb r) (stream_of r)) = fst (tk start sref) /\
                snd (tk (startb r) (stream_of r)) <= snd (tk start sref)).
  { destruct Hrel as [[-> ->]|(-> & -> & Hp)]; [split; [reflexivity|lia]|].
    rewrite (startb_pos r Hp), tk_space. split; [reflexivity|apply snd_bump]. }
  destruct Htk as [Htk1 Htk2].
  rewrite rr_unfold in Hcap |- *.
  assert (Hcap1 : capok (rbw r) (rrd r) (snd (tk (startb r) (stream_of r)))).
  { eapply capok_mono; [exact Hcap|reflexivity| |auto].
    destruct (tk start sref) as [[t s'| |k] nd0]; cbn [snd] in *; [|lia|lia].
    destruct (rr false s') as [[l rem] m]. cbn [snd]. lia. }
  pose proof (next_opt_step input fuel r Hwf Hrok ltac:(lia) Hcap1) as Hstep.
  rewrite Htk1 in Hstep.
  destruct (tk start sref) as [[t s'| |k] nd0] eqn:Etk; cbn [fst snd stepres_ws stepres] in Hstep.
  - destruct Hstep as (r' & Hno & Hrok' & Hs' & Hc' & Hr').
    rewrite Hno.
    pose proof (tk_tok_shrinks (length sref) start sref t s' nd0 (le_n _) Etk) as Hshr.
    pose proof (rok_pos input r' Hrok') as Hpos'.
    assert (Hlen' : length (stream_of r') <= length s').
    { destruct Hs' as [<- | ->]; cbn [length]; lia. }
    assert (Hp' : reader_position r' > 0).
    { destruct Hrel as [[-> ->]|(-> & -> & Hp)]; cbn [length] in *; lia. }
    assert (Hrel' : srel r' false s').
    { destruct Hs' as [<- | ->]; [left; split; [reflexivity|symmetry; apply startb_pos; exact Hp']|right; auto]. }
    specialize (IH fuel r' false s' Hrok' Hrel' ltac:(lia) Hfuel).
    destruct (rr false s') as [[l rem] m] eqn:Err. cbn [fst snd] in *.
    rewrite IH; [reflexivity|].
    eapply capok_mono; [exact Hcap|exact Hc'|lia|].
    intros H0. rewrite H0 in Hr'. cbn [length] in Hr'. destruct (rest (rrd r')); [reflexivity|cbn [length] in Hr'; lia].
  - destruct Hstep as (r' & Hno & Hrok' & Hs'). rewrite Hno. cbn [fst snd].
    pose proof (rok_pos input r' Hrok') as Hpos'. rewrite Hs' in Hpos'. cbn [length] in Hpos'. f_equal. lia.
  - destruct Hstep as (r' & Hno & Hrok' & Hs'). rewrite Hno. cbn [fst snd].
    pose proof (rok_pos input r' Hrok') as Hpos'. f_equal. lia.
Qed.

(* ---------- Theorem 2: the zero-copy reader is the reference tokenizer ---------- *)
Theorem slice_eq_tok : forall input, wf_bytes input ->
  run_slice input = (tokens_of input, length input - leftover input).
Proof.
  intros input Hwf. unfold run_slice, tokens_of, leftover, ref_tokens.
  change (ref_run (S (length input)) true input) with (rr true input).
  apply (run_spec input Hwf).
  - split; [|split; [intros H; exact H|left; reflexivity]]. exists []. cbn. rewrite app_nil_r. auto.
  - left. split; [unfold stream_of; cbn; rewrite app_nil_r; reflexivity|reflexivity].
  - lia.
  - unfold default_fuel. lia.
  - left. split; reflexivity.
Qed.

(* ---------- Theorem 3: the streaming reader is the reference tokenizer, hence the slice reader ---------- *)
Theorem stream_eq_tok : forall input sch capv, wf_bytes input -> no_fail sch -> need input <= capv ->
  run_stream capv sch input = (tokens_of input, length input - leftover input).
Proof.
  intros input sch capv Hwf Hnf Hneed. unfold run_stream, tokens_of, leftover, need, ref_tokens in *.
  change (ref_run (S (length input)) true input) with (rr true input) in *.
  apply (run_spec input Hwf).
  - split; [|split; [exact Hnf|right; cbn; lia]]. exists []. cbn. auto.
  - left. split; reflexivity.
  - cbn. lia.
  - unfold default_fuel. lia.
  - cbn [reader_new rbw rrd bw_new cap rest]. destruct capv as [|cv].
    + left. split; [reflexivity|]. destruct input as [|c0 input']; [reflexivity|]. exfalso.
      rewrite rr_unfold in Hneed. pose proof (tk_need_ge true (c0 :: input')) as Hge.
      assert (H1 : 1 <= inee (item true (c0 :: input'))).
      { clear. cbn [item]. destruct (is_ws c0); [cbn; lia|].
        destruct (b_is c0 35). { destruct (find_from _ input' 0); cbn [inee]; lia. }
        destruct (b_is c0 123); [cbn; lia|]. destruct (b_is c0 125); [cbn; lia|].
        destruct (b_is c0 34). { destruct (rq_scan input' 0); cbn [inee]; lia. }
        assert (Hu : forall m, 1 <= inee (bump_item m (unq_item (c0 :: input')))).
        { intros m. unfold unq_item. destruct (find_from _ _ 0); cbn [bump_item inee]; lia. }
        assert (Ho : forall a b, 1 <= inee (op_item input' a b)).
        { intros a b. unfold op_item. destruct input' as [|c3 s1]; [cbn; lia|]. destruct (b_is c3 61); cbn; lia. }
        destruct (b_is c0 64).
        { destruct input' as [|c2 s1]; [cbn; lia|]. destruct (b_is c2 91).
          - destruct (find_from _ s1 0); cbn [inee]; lia.
          - specialize (Hu 0). rewrite bump_item_0 in Hu. exact Hu. }
        destruct (b_is c0 61); [apply Ho|]. destruct (b_is c0 60); [apply Ho|]. destruct (b_is c0 33); [apply Ho|].
        destruct (b_is c0 63); [apply Ho|]. destruct (b_is c0 62); [apply Ho|].
        destruct (b_is c0 239 && true).
        { destruct input' as [|b1 [|b2 s3]]; [cbn; lia|cbn; lia|]. destruct (b_is b1 187 && b_is b2 191); [cbn; lia|apply Hu]. }
        specialize (Hu 0). rewrite bump_item_0 in Hu. exact Hu. }
      destruct (tk true (c0 :: input')) as [[t s'| |k] nd0]; cbn [snd] in *; [|lia|lia].
      destruct (rr false s') as [[l rem] m]. cbn [snd] in Hneed. lia.
    + right. unfold bw_new. cbn [cap]. split; [lia|exact Hneed].
Qed.

Theorem stream_eq_slice : forall input sch capv, wf_bytes input -> no_fail sch -> need input <= capv ->
  run_stream capv sch input = run_slice input.
Proof.
  intros. rewrite stream_eq_tok, slice_eq_tok by assumption. reflexivity.
Qed.
