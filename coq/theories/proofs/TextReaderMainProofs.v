(* C07 main theorems: one call of next_opt on the streaming reader returns what the reference
   tokenizer returns on the remaining stream, for every read schedule without I/O failures and
   every buffer that can hold the longest atom; hence run_stream = run_slice. *)
From JV Require Import Bytes Tables U64Swar BufWin TextTok TextReader TextRef.
From JV.proofs Require Import BufWinProofs TextReaderProofs TextRefProofs TextFbProofs.
From Coq Require Import Lia List Arith.
Import ListNotations.
Open Scope nat_scope.

Definition rok (input : bytes) (r : reader) : Prop :=
  stream_inv input (rbw r) (rrd r) /\ no_fail (sched (rrd r)).

Definition capok (b : bufwin) (d : rd) (n : nat) : Prop :=
  (cap b = 0 /\ rest d = []) \/ (0 < cap b /\ n <= cap b).

Definition stream_of (r : reader) : bytes := win (rbw r) ++ rest (rrd r).

Definition stepres (input : bytes) (capv : nat) (res : tres) (out : nres) : Prop :=
  match res with
  | RTok t s' => exists r', out = NTok t r' /\ rok input r' /\ stream_of r' = s' /\ cap (rbw r') = capv
  | REnd => exists r', out = NEnd r' /\ rok input r' /\ stream_of r' = []
  | REof k => exists r', out = NErr E_Eof r' /\ rok input r' /\ length (stream_of r') = k
  end.

(* ---------- the buffer ---------- *)
Lemma fill_cases b d : no_fail (sched d) ->
  match bw_fill_buf b d with
  | FillOk n b' d' => exists bs, length bs = n /\ rest d = bs ++ rest d' /\ win b' = win b ++ bs /\
        cap b' = cap b /\ bw_position b' = bw_position b /\ no_fail (sched d') /\
        (n = 0 -> cap b = 0 \/ rest d = [])
  | FillIo _ _ => False
  | FillFull _ _ => 0 < cap b <= length (win b)
  end.
Proof.
  intros Hnf. unfold bw_fill_buf.
  destruct (Nat.leb (cap b) (length (win b))) eqn:Hfull.
  - apply Nat.leb_le in Hfull. destruct (Nat.eqb (cap b) 0) eqn:Hz.
    + apply Nat.eqb_eq in Hz. exists []. rewrite app_nil_r. cbn [app length]. auto 10.
    + apply Nat.eqb_neq in Hz. lia.
  - apply Nat.leb_gt in Hfull.
    destruct (rd_read d (cap b - length (win b))) as [[bs d']| | | |] eqn:Hrd.
    + destruct (rd_read_split _ _ _ _ Hrd) as (Hsplit & Hle & Hz).
      exists bs. split; [reflexivity|]. split; [exact Hsplit|]. cbn [win cap]. split; [reflexivity|]. split; [reflexivity|].
      split; [unfold bw_position; cbn [prior consumed]; lia|]. split.
      * unfold rd_read in Hrd. destruct (match sched d with [] => _ | e :: _ => e end); [|discriminate].
        inversion Hrd; subst. cbn [sched]. intros Hin. apply Hnf. destruct (sched d); [exact Hin|right; exact Hin].
      * intros H0. destruct (Hz H0) as [Hf|Hr]; [lia|right; exact Hr].
    + unfold rd_read in Hrd. destruct (sched d) as [|ev sc] eqn:Es; [discriminate|].
      destruct ev; [discriminate|]. apply Hnf. left. reflexivity.
    + unfold rd_read in Hrd. destruct (match sched d with [] => _ | e :: _ => e end); discriminate.
    + unfold rd_read in Hrd. destruct (match sched d with [] => _ | e :: _ => e end); discriminate.
    + unfold rd_read in Hrd. destruct (match sched d with [] => _ | e :: _ => e end); discriminate.
Qed.

Lemma rok_advance input b d bom bom' adv :
  rok input (mkreader b d bom) -> adv <= length (win b) ->
  bw_advance b adv = Ok (mkbw (cap b) (skipn adv (win b)) (consumed b + adv) (prior b)) /\
  rok input (mkreader (mkbw (cap b) (skipn adv (win b)) (consumed b + adv) (prior b)) d bom').
Proof.
  intros [(pre & Hin & Hlen) Hnf] Hadv. cbn [rbw rrd] in *. split.
  - unfold bw_advance. replace (Nat.ltb (length (win b)) adv) with false; [reflexivity|].
    symmetry. apply Nat.ltb_ge. exact Hadv.
  - split; [|exact Hnf]. cbn [rbw rrd]. exists (pre ++ firstn adv (win b)). cbn [win]. split.
    + rewrite <- app_assoc. rewrite (app_assoc (firstn adv (win b))), firstn_skipn. exact Hin.
    + rewrite app_length, firstn_length. unfold bw_position in *. cbn [prior consumed]. lia.
Qed.

(* the state after advance_to(end - carry) and fill_buf *)
Lemma refill_fill input b d bom c :
  rok input (mkreader b d bom) -> c <= length (win b) ->
  let cb := skipn (length (win b) - c) (win b) in
  let b1 := mkbw (cap b) cb (consumed b + (length (win b) - c)) (prior b) in
  length cb = c /\
  match bw_fill_buf b1 d with
  | FillOk n b2 d2 => exists bs, length bs = n /\ rest d = bs ++ rest d2 /\ win b2 = cb ++ bs /\
        cap b2 = cap b /\ bw_position b2 = bw_position b + (length (win b) - c) /\
        (forall bom', rok input (mkreader b2 d2 bom')) /\
        (n = 0 -> cap b = 0 \/ rest d = [])
  | FillIo _ _ => False
  | FillFull _ _ => 0 < cap b <= c
  end.
Proof.
  intros Hrok Hc cb b1.
  assert (Hcb : length cb = c) by (unfold cb; rewrite skipn_length; lia).
  split; [exact Hcb|].
  destruct (rok_advance input b d bom bom (length (win b) - c) Hrok ltac:(lia)) as [_ [Hinv Hnf]].
  fold cb in Hinv. fold b1 in Hinv. cbn [rbw rrd] in Hinv, Hnf.
  pose proof (fill_cases b1 d Hnf) as H. pose proof (fill_buf_preserves input b1 d Hinv) as Hp.
  destruct (bw_fill_buf b1 d) as [n b2 d2|b2 d2|b2 d2]; [|exact H|].
  - destruct H as (bs & H1 & H2 & H3 & H4 & H5 & H6 & H7). exists bs.
    split; [exact H1|]. split; [exact H2|]. split; [exact H3|]. split; [exact H4|].
    split; [rewrite H5; unfold bw_position, b1; cbn [prior consumed]; lia|].
    split; [|exact H7]. intros bom'. split; [exact (proj1 Hp)|exact H6].
  - unfold b1 in H. cbn [cap win] in H. lia.
Qed.

(* ---------- what a pending atom needs ---------- *)
Lemma pend_need st start cb o y :
  pend st start cb o -> cb = [] \/ length cb < snd (tk start (patom st cb ++ y)).
Proof.
  destruct st; cbn [pend patom].
  - intros [_ [H|H]]; [left; exact H|right]. pose proof (tk_need_ge start (cb ++ y)). specialize (H y). lia.
  - intros [-> (Ho & Hres & Hge)]. right. pose proof (tk_need_ge false ((34%N :: cb) ++ y)) as Hn.
    cbn [app] in Hn |- *. rewrite item_quote in Hn. destruct (rq_scan (cb ++ y) 0) as [i|o2] eqn:E.
    + apply Hge in E. cbn [inee] in Hn. lia.
    + cbn [inee] in Hn. rewrite app_length in Hn. lia.
  - intros [(Hne & Hfind & Hit) _]. right. pose proof (tk_need_ge start (cb ++ y)) as Hn.
    destruct (Hit y) as (m & _ & Hm). rewrite Hm in Hn. destruct cb as [|a cb']; [congruence|].
    unfold unq_item in Hn. cbn [app tl] in Hn, Hfind. rewrite (find_from_none_app _ cb' y 0 Hfind) in Hn.
    destruct (find_from is_boundary y (0 + length cb')) as [k|] eqn:Ey.
    + apply find_from_bounds in Ey. cbn [bump_item inee] in Hn. cbn [length]. lia.
    + cbn [bump_item inee length] in Hn. rewrite app_length in Hn. cbn [length]. lia.
Qed.

Lemma item_end_cases start cb n : item start cb = IEnd n -> cb = [] \/ exists t, cb = 35%N :: t.
Proof.
  destruct cb as [|c s0]; [left; reflexivity|]. intros H. right. cbn [item] in H.
  destruct (is_ws c); [discriminate|]. destruct (b_is c 35) eqn:E35; [apply b_is_eq in E35; subst; eauto|].
  exfalso.
  destruct (b_is c 123); [discriminate|]. destruct (b_is c 125); [discriminate|].
  destruct (b_is c 34). { destruct (rq_scan s0 0); discriminate. }
  assert (Hu : forall s m, bump_item m (unq_item s) <> IEnd n).
  { intros s m. unfold unq_item. destruct (find_from is_boundary (tl s) 0); discriminate. }
  assert (Ho : forall a b, op_item s0 a b <> IEnd n).
  { intros a b. unfold op_item. destruct s0 as [|c3 s1]; [discriminate|]. destruct (b_is c3 61); discriminate. }
  destruct (b_is c 64).
  { destruct s0 as [|c2 s1]; [discriminate|]. destruct (b_is c2 91).
    - destruct (find_from _ s1 0); discriminate.
    - apply (Hu (c :: c2 :: s1) 0). rewrite bump_item_0. exact H. }
  destruct (b_is c 61); [eapply Ho; eauto|]. destruct (b_is c 60); [eapply Ho; eauto|].
  destruct (b_is c 33); [eapply Ho; eauto|]. destruct (b_is c 63); [eapply Ho; eauto|].
  destruct (b_is c 62); [eapply Ho; eauto|].
  destruct (b_is c 239 && start).
  { destruct s0 as [|b1 [|b2 s3]]; try discriminate. destruct (b_is b1 187 && b_is b2 191); [discriminate|].
    eapply Hu; eauto. }
  apply (Hu (c :: s0) 0). rewrite bump_item_0. exact H.
Qed.

Lemma item_eof_nothash start cb k n : item start cb = IEof k n ->
  match cb with c0 :: _ => b_is c0 35 = false | [] => False end.
Proof.
  destruct cb as [|c s0]; [discriminate|]. cbn [item].
  destruct (is_ws c); [discriminate|]. destruct (b_is c 35) eqn:E35; [|reflexivity].
  destruct (find_from _ s0 0); discriminate.
Qed.
