(* C10 (wave 5): concrete parameters and documents for the non-vacuity Examples of Props/C10_ext.v.
   The float side conditions of LogicDoc (float_ok / int_float_ok: "there is a double that the numeral parses to and
   that the flavor / serde's casts produce") are shown SATISFIABLE with the real thing: Scalar::to_f64 is
   ScalarF64.to_f64_bits (C11's model), serde's `as` casts are IEEE-754 conversions built from Flocq's
   binary_normalize (round to nearest even), the flavor reads the payloads as little-endian IEEE bits (the `raw`
   flavor of the harness).  The refuted witnesses (colour as an array element, colour captured through the text
   stream path, colour into a String) are computed here as well. *)
From Flocq Require Import Core.Zaux IEEE754.BinarySingleNaN IEEE754.Binary IEEE754.Bits.
From JV Require Import Bytes Tables Utf8 Scalar ScalarF64 Date TextTok BinPrim BufWin BinLexer BinReader SerdeShape
  TextDeCommon BinDeCommon TextDeSpec TextDeSpec2 TextDeTape TextDeStream TextDeBytes BinDeOndemand BinDeReader BinDeTape LogicDoc LogicDocX.
From JV Require TextDoc BinDoc TextRef.
From JV.proofs Require Import C10RgbProofs.
From Coq Require Import NArith ZArith Lia List Bool.
Import ListNotations.
Open Scope N_scope.

(* ------------------------------------------------------------------ real float parameters *)
Definition f32_of_Z (z : Z) : binary32 := binary_normalize 24 128 eq_refl eq_refl mode_NE z 0 false.
Definition conv_64_32 (x : binary64) : binary32 :=
  match x with
  | B754_zero _ _ s => B754_zero _ _ s
  | B754_infinity _ _ s => B754_infinity _ _ s
  | B754_nan _ _ s _ _ => B754_zero _ _ s           (* not reached by the examples *)
  | B754_finite _ _ s m e _ => binary_normalize 24 128 eq_refl eq_refl mode_NE (cond_Zopp s (Zpos m)) e s
  end.
Definition conv_32_64 (x : binary32) : binary64 :=
  match x with
  | B754_zero _ _ s => B754_zero _ _ s
  | B754_infinity _ _ s => B754_infinity _ _ s
  | B754_nan _ _ s _ _ => B754_zero _ _ s
  | B754_finite _ _ s m e _ => binary_normalize 53 1024 eq_refl eq_refl mode_NE (cond_Zopp s (Zpos m)) e s
  end.
(* serde's casts: `v as f32`, `v as f64` *)
Definition real_fops : fops := mkfops
  (fun b => Z.to_N (bits_of_b32 (conv_64_32 (b64_of_bits (Z.of_N b)))))
  (fun b => Z.to_N (bits_of_b64 (conv_32_64 (b32_of_bits (Z.of_N b)))))
  (fun z => Z.to_N (bits_of_b32 (f32_of_Z z)))
  (fun z => Z.to_N (bits_of_b64 (f64_of_Z z))).
(* Scalar::to_f64, as bits *)
Definition real_pf (d : bytes) : outcome N := omap Z.to_N (to_f64_bits d).
(* f32::from_le_bytes / f64::from_le_bytes, as bits *)
Definition le_bits (d : bytes) : N := fold_right (fun b acc => b + 256 * acc) 0 d.

Definition b_colors : bytes := [99; 111; 108; 111; 114; 115].
(* resolver: 0x2d00 -> "colors"; strategy Error; identity string decoder; raw flavor; real casts *)
Definition real_cfg : bcfg :=
  mkcfg (fun id => if id =? 11520 then Some b_colors else None) SError (fun d => Ok d) le_bits le_bits real_fops.

(* ------------------------------------------------------------------ a document with everything
   name = "x y"  when = 1444.11.11.12
   colors = { main = rgb { 110 27 255 } alt = rgb { 1 2 3 4 } }
   list = { { at = 1.1.1.1 tint = rgb { 0 0 0 } w = 1.5 } { at = "32767.12.31.24" tint = rgb { 9 9 9 300 } w = 0.25 } }
   n = 7  f = 1.5  skip = rgb { 9 9 9 }
   binary: `when` as the I32 of DateHour::to_binary, the two `at` as string tokens (unquoted / quoted); key `colors` as the
   token 0x2d00; 7 as U64; f as F32, the two w as F64; a ghost `{ }` before `list` and before the closing brace of `colors`
   into struct { name: String, when: DateHour, colors: { main: (String, Vec<u8>), alt: Option<((), Vec<f32>)> },
                 list: Vec<{ at: DateHour, tint: (String, ()), w: f64 }>, n: f64, f: f32 }          -- skip is unknown *)
Definition k_name : bytes := [110; 97; 109; 101].   Definition k_when : bytes := [119; 104; 101; 110].
Definition k_main : bytes := [109; 97; 105; 110].   Definition k_alt : bytes := [97; 108; 116].
Definition k_list : bytes := [108; 105; 115; 116]. Definition k_at : bytes := [97; 116].
Definition k_tint : bytes := [116; 105; 110; 116]. Definition k_w : bytes := [119].
Definition k_n : bytes := [110]. Definition k_f : bytes := [102]. Definition k_skip : bytes := [115; 107; 105; 112].

Definition xs (l : lscalar) : xval := XScalar (XBase l).
Definition fl15 : lscalar := LFloat [49; 46; 53] [0; 0; 192; 63] [0; 0; 0; 0; 0; 0; 248; 63].
Definition fl025 : lscalar := LFloat [48; 46; 50; 53] [0; 0; 128; 62] [0; 0; 0; 0; 0; 0; 208; 63].

Definition big_doc : xdoc :=
  [ (Unq, k_name, xs (LStr Quo [120; 32; 121]));
    (Unq, k_when, XScalar (XDateHour 1444 11 11 12 false false));
    (Unq, b_colors, XObj [ (Unq, k_main, XRgb (mkrgb 110 27 255 None)); (Unq, k_alt, XRgb (mkrgb 1 2 3 (Some 4))) ]);
    (Unq, k_list, XArr [ XObj [ (Unq, k_at, XScalar (XDateHour 1 1 1 1 false false)); (Unq, k_tint, XRgb (mkrgb 0 0 0 None)); (Unq, k_w, xs fl15) ];
                         XObj [ (Unq, k_at, XScalar (XDateHour 32767 12 31 24 false true)); (Unq, k_tint, XRgb (mkrgb 9 9 9 (Some 300))); (Unq, k_w, xs fl025) ] ]);
    (Unq, k_n, xs (LInt 7));
    (Unq, k_f, xs fl15);
    (Unq, k_skip, XRgb (mkrgb 9 9 9 None)) ].

Definition t_rgb8 : shape := ShTup [ShStr; ShSeq (ShU 8)].
Definition big_shape : shape :=
  ShStruct false
    [ (k_name, None, MOnce, ShStr);
      (k_when, None, MOnce, ShDateHour);
      (b_colors, None, MOnce, ShStruct false [ (k_main, None, MOnce, t_rgb8); (k_alt, None, MOnce, ShOpt (ShTup [ShIgn; ShSeq ShF32])) ]);
      (k_list, None, MOnce, ShSeq (ShStruct false [ (k_at, None, MOnce, ShDateHour); (k_tint, None, MOnce, ShTup [ShStr; ShIgn]); (k_w, None, MOnce, ShF64) ]));
      (k_n, None, MOnce, ShF64);
      (k_f, None, MOnce, ShF32) ].

Definition c0 : choice := mkchoice WI32 FQuoted true false FUnquoted false false.
Definition big_enc : enc_choice := fun p =>
  match p with
  | [2%nat] => mkchoice WI32 FQuoted true false (FId 11520) false true          (* colors: key as token id, ghost before its `}` *)
  | [3%nat] => mkchoice WI32 FQuoted true false FQuoted true false              (* list: quoted key, ghost before the field *)
  | [3%nat; 0%nat; 0%nat] => mkchoice WI32 FUnquoted false false FUnquoted false false   (* first `at`: unquoted string *)
  | [3%nat; 1%nat; 0%nat] => mkchoice WI32 FQuoted false false FQuoted false false       (* second `at`: quoted string *)
  | [4%nat] => mkchoice WU64 FQuoted true false FUnquoted false false           (* n: U64 *)
  | [5%nat] => mkchoice WI32 FQuoted true true FUnquoted false false            (* f: F32 *)
  | _ => c0
  end.

(* 1.5f32 = 0x3fc00000, 1.5f64 = 0x3ff8.., 0.25f64 = 0x3fd0.., 7.0f64 = 0x401c..; the alpha channel 4 as f32 = 0x40800000 *)
Definition big_value : dval :=
  DStruct [ (k_name, DStr [120; 32; 121]);
            (k_when, DDate 1444 11 11 12);
            (b_colors, DStruct [ (k_main, DSeq [DStr RGB_NAME; DSeq [DU 110; DU 27; DU 255]]);
                                 (k_alt, DSome (DSeq [DIgn; DSeq [DF32 1065353216; DF32 1073741824; DF32 1077936128; DF32 1082130432]])) ]);
            (k_list, DSeq [ DStruct [ (k_at, DDate 1 1 1 1); (k_tint, DSeq [DStr RGB_NAME; DIgn]); (k_w, DF64 4609434218613702656) ];
                            DStruct [ (k_at, DDate 32767 12 31 24); (k_tint, DSeq [DStr RGB_NAME; DIgn]); (k_w, DF64 4598175219545276416) ] ]);
            (k_n, DF64 4619567317775286272);
            (k_f, DF32 1069547520) ].

(* one space in every gap, no BOM *)
Definition sp_layout : TextDoc.layout := TextDoc.mkLayout false (fun _ => [32]).

Lemma sp_layout_wf d : TextDoc.sep_ok (TextDoc.gap sp_layout) (TextDoc.toks_fields d) 0 ->
  TextDoc.has_bom (TextDoc.render d sp_layout) = false -> TextDoc.wf_layout d sp_layout.
Proof.
  intros H1 H2. split; [intros i; apply TextDoc.gap_ws; [reflexivity|apply TextDoc.gap_nil]|]. split; [exact H1|intros _; exact H2].
Qed.

(* the float side conditions hold for the real parameters *)
Lemma float_ok_15 : float_ok real_pf real_cfg [49; 46; 53] [0; 0; 192; 63] [0; 0; 0; 0; 0; 0; 248; 63].
Proof. exists 4609434218613702656. repeat split; vm_compute; reflexivity. Qed.
Lemma float_ok_025 : float_ok real_pf real_cfg [48; 46; 50; 53] [0; 0; 128; 62] [0; 0; 0; 0; 0; 0; 208; 63].
Proof. exists 4598175219545276416. repeat split; vm_compute; reflexivity. Qed.
Lemma int_float_ok_small z : (z = 1 \/ z = 2 \/ z = 3 \/ z = 4 \/ z = 7)%Z -> int_float_ok real_pf real_cfg z.
Proof.
  intros [-> | [-> | [-> | [-> | ->]]]];
    [exists 4607182418800017408|exists 4611686018427387904|exists 4613937818241073152|exists 4616189618054758400|exists 4619567317775286272];
    repeat split; vm_compute; reflexivity.
Qed.

(* ------------------------------------------------------------------ a colour-free variant that the text STREAM path reads too
   (xshared false): the same document with the colours only where they are skipped *)
Definition plain_shape : shape :=
  ShStruct false
    [ (k_name, None, MOnce, ShStr);
      (k_when, None, MOnce, ShDateHour);
      (b_colors, None, MOnce, ShStruct false [ (k_main, None, MOnce, ShIgn); (k_alt, None, MOnce, ShOpt ShIgn) ]);
      (k_list, None, MOnce, ShSeq (ShStruct false [ (k_at, None, MOnce, ShDateHour); (k_w, None, MOnce, ShF64) ]));
      (k_n, None, MOnce, ShF64);
      (k_f, None, MOnce, ShF32) ].
Definition plain_value : dval :=
  DStruct [ (k_name, DStr [120; 32; 121]);
            (k_when, DDate 1444 11 11 12);
            (b_colors, DStruct [ (k_main, DIgn); (k_alt, DSome DIgn) ]);
            (k_list, DSeq [ DStruct [ (k_at, DDate 1 1 1 1); (k_w, DF64 4609434218613702656) ];
                            DStruct [ (k_at, DDate 32767 12 31 24); (k_w, DF64 4598175219545276416) ] ]);
            (k_n, DF64 4619567317775286272);
            (k_f, DF32 1069547520) ].

(* ------------------------------------------------------------------ refuted witnesses (computed) *)
Definition pf_none : bytes -> outcome N := fun _ => Err 1.
Definition F_id : fops := c_fops cfg_id.

(* a colour as an ARRAY ELEMENT:  x = { rgb { 1 2 3 } }  into  struct { x: Vec<(String, Vec<u8>)> } *)
Definition arr_doc : xdoc := [ (Unq, [120], XArr [XRgb (mkrgb 1 2 3 None)]) ].
Definition arr_shape : shape := ShStruct false [ ([120], None, MOnce, ShSeq t_rgb8) ].
Definition arr_text : bytes := [32; 120; 32; 61; 32; 123; 32; 114; 103; 98; 32; 123; 32; 49; 32; 50; 32; 51; 32; 125; 32; 125; 32].
Definition arr_value : dval := DStruct [ ([120], DSeq [DSeq [DStr RGB_NAME; DSeq [DU 1; DU 2; DU 3]]]) ].
Lemma rgb_in_array_witness :
  TextDoc.render (to_textx arr_doc) sp_layout = arr_text /\
  TextDeBytes.deser_slice id_dec pf_none F_id arr_shape arr_text = Err EC_DE /\
  TextDeBytes.deser_reader id_dec pf_none F_id arr_shape 64 [] arr_text = Err EC_DE /\
  BinDeTape.deser_tape cfg_id arr_shape (binx_bytes rgb_enc arr_doc) = Err EC_UNKTOKEN /\
  BinDeOndemand.deser_ondemand cfg_id arr_shape (binx_bytes rgb_enc arr_doc) = Ok arr_value /\
  BinDeReader.deser_reader cfg_id 64 [] arr_shape (binx_bytes rgb_enc arr_doc) = Ok arr_value.
Proof. repeat split; vm_compute; reflexivity. Qed.

(* a colour captured as (String, Vec<u8>) through the text STREAM path (finding H-stream-header seen from C10) *)
Definition col_doc : xdoc := [ (Unq, b_color, XRgb (mkrgb 1 2 3 None)) ].
Definition col_value : dval := DStruct [ (b_color, DSeq [DStr RGB_NAME; DSeq [DU 1; DU 2; DU 3]]) ].
Lemma rgb_stream_witness :
  let t := TextDoc.render (to_textx col_doc) sp_layout in
  TextDeBytes.deser_slice id_dec pf_none F_id (rgb_shape 8) t = Ok col_value /\
  TextDeBytes.deser_reader id_dec pf_none F_id (rgb_shape 8) 64 [] t = Err EC_DE /\
  TextDeStream.deser_stream id_dec pf_none F_id (rgb_shape 8) (tokens (to_textx col_doc)) = Err EC_DE /\
  BinDeTape.deser_tape cfg_id (rgb_shape 8) (binx_bytes rgb_enc col_doc) = Ok col_value /\
  BinDeOndemand.deser_ondemand cfg_id (rgb_shape 8) (binx_bytes rgb_enc col_doc) = Ok col_value /\
  BinDeReader.deser_reader cfg_id 64 [] (rgb_shape 8) (binx_bytes rgb_enc col_doc) = Ok col_value.
Proof. repeat split; vm_compute; reflexivity. Qed.

(* a colour into a String: both text paths read the header's NAME and drop the channels, the binary paths refuse *)
Definition str_shape : shape := ShStruct false [ (b_color, None, MOnce, ShStr) ].
Lemma rgb_string_witness :
  let t := TextDoc.render (to_textx col_doc) sp_layout in
  TextDeBytes.deser_slice id_dec pf_none F_id str_shape t = Ok (DStruct [ (b_color, DStr RGB_NAME) ]) /\
  TextDeBytes.deser_reader id_dec pf_none F_id str_shape 64 [] t = Ok (DStruct [ (b_color, DStr RGB_NAME) ]) /\
  BinDeTape.deser_tape cfg_id str_shape (binx_bytes rgb_enc col_doc) = Err EC_DE /\
  BinDeOndemand.deser_ondemand cfg_id str_shape (binx_bytes rgb_enc col_doc) = Err EC_DE /\
  BinDeReader.deser_reader cfg_id 64 [] str_shape (binx_bytes rgb_enc col_doc) = Err EC_DE.
Proof. repeat split; vm_compute; reflexivity. Qed.
