(* C03 "mirrors the token stream": every tape the binary tape parser accepts, related to the raw token
   sequence of the same bytes (BinTapeMirror.v).  One proof, generic in the relation R between the
   stream (without `=`) and the tape's token sequence (without `=`); instantiated twice:
     subseq        the tape is a subsequence of the stream
     ghost_groups  the stream is the tape plus inserted [Open; Close] pairs
   Both unconditional since the fix for finding L (only_empties also requires an even remainder:
   `pairs.remainder().is_empty()`); before it the second one needed the run never to meet an odd
   remainder, and `a = { {} x y = z }` lost x. *)
From JV Require Import Bytes Tables BinPrim BinTape BinTapeWf BinTapeMirror.
From JV.proofs Require Import BinLexProofs BinRoundProofs BinTapeWfProofs BinTapeInv BinTapeSim.
Require Import Lia List.
Import ListNotations.
Open Scope nat_scope.

(* ------------------------------------------------------------------ list plumbing *)
Lemma noeq_app : forall a b, noeq (a ++ b) = noeq a ++ noeq b.
Proof. intros. unfold noeq. apply filter_app. Qed.

Lemma untape_app : forall a b, untape (a ++ b) = untape a ++ untape b.
Proof. intros. unfold untape. apply flat_map_app. Qed.

Definition NU (t : tape) : list btoken := noeq (untape t).

Lemma NU_app : forall a b, NU (a ++ b) = NU a ++ NU b.
Proof. intros. unfold NU. rewrite untape_app. apply noeq_app. Qed.

Lemma NU_push : forall t x, NU (push t x) = NU t ++ noeq (untape1 x).
Proof. intros. unfold push. rewrite NU_app. unfold NU, untape. cbn [flat_map]. now rewrite app_nil_r. Qed.

Lemma untape_upd : forall t i c x, nth_error t i = Some c -> untape1 c = untape1 x -> untape (upd t i x) = untape t.
Proof.
  induction t as [|y t IH]; intros i c x H E; [reflexivity|].
  destruct i; cbn in H |- *.
  - inversion H; subst. unfold untape. cbn [flat_map]. now rewrite E.
  - unfold untape in *. cbn [flat_map]. f_equal. eapply IH; eauto.
Qed.

Lemma NU_upd : forall t i c x, nth_error t i = Some c -> untape1 c = untape1 x -> NU (upd t i x) = NU t.
Proof. intros. unfold NU. erewrite untape_upd; eauto. Qed.

(* ------------------------------------------------------------------ the two relations *)
Lemma ss_refl : forall l, subseq l l.
Proof. induction l; constructor; auto. Qed.
Lemma ss_nil : forall l, subseq l [].
Proof. induction l; constructor; auto. Qed.
Lemma ss_app : forall a b, subseq a b -> forall c d, subseq c d -> subseq (a ++ c) (b ++ d).
Proof. induction 1; intros; cbn; auto; constructor; auto. Qed.
Lemma ss_trans : forall a b, subseq a b -> forall c, subseq b c -> subseq a c.
Proof.
  induction 1; intros c Hc; auto.
  - inversion Hc; subst; constructor; auto.
  - constructor; auto.
Qed.

Lemma gg_trans : forall a b, ghost_groups a b -> forall c, ghost_groups b c -> ghost_groups a c.
Proof. induction 1; intros; auto. constructor. auto. Qed.
Lemma gg_app_r : forall a b, ghost_groups a b -> forall c, ghost_groups (a ++ c) (b ++ c).
Proof.
  induction 1; intros c; [constructor|].
  rewrite <- app_assoc. cbn [app]. constructor. rewrite app_assoc. apply IHghost_groups.
Qed.
Lemma gg_app_l : forall a b, ghost_groups a b -> forall c, ghost_groups (c ++ a) (c ++ b).
Proof.
  induction 1; intros c; [constructor|].
  rewrite app_assoc. constructor. rewrite <- app_assoc. apply IHghost_groups.
Qed.
Lemma gg_app : forall a b, ghost_groups a b -> forall c d, ghost_groups c d -> ghost_groups (a ++ c) (b ++ d).
Proof. intros a b H c d H'. eapply gg_trans. apply gg_app_r; eauto. now apply gg_app_l. Qed.

Definition ghosts (k : nat) : list btoken := concat (repeat [BOpen; BClose] k).
Lemma gg_ghosts : forall k, ghost_groups (ghosts k) [].
Proof.
  induction k; [constructor|]. unfold ghosts. cbn [repeat concat app].
  apply (GG_ins [] (ghosts k) []). exact IHk.
Qed.

(* the strict relation (adjacent, un-nested pairs only) implies the one the theorem is about *)
Lemma ge_gg : forall s t, ghost_erase s t -> ghost_groups s t.
Proof.
  induction 1.
  - constructor.
  - apply (gg_app_l _ _ IHghost_erase [x]).
  - apply (GG_ins [] s t). exact IHghost_erase.
Qed.

(* ------------------------------------------------------------------ the deciders *)
Lemma opt_eqb_eq : forall a b, opt_eqb a b = true -> a = b.
Proof. intros [x|] [y|] H; cbn in H; try discriminate; auto. apply N.eqb_eq in H. now subst. Qed.

Lemma beqb_eq' : forall a b : bytes, beqb a b = true -> a = b.
Proof.
  induction a as [|x a IH]; destruct b as [|y b]; cbn; intros H; try discriminate; auto.
  apply andb_prop in H as [H1 H2]. apply N.eqb_eq in H1. subst. f_equal. auto.
Qed.
Lemma beqb_refl' : forall a : bytes, beqb a a = true.
Proof. induction a; cbn; auto. now rewrite N.eqb_refl. Qed.

Lemma btoken_eqb_eq : forall a b, btoken_eqb a b = true -> a = b.
Proof.
  intros a b H. destruct a, b; cbn in H; try discriminate; auto;
    try (apply N.eqb_eq in H; now subst);
    try (apply Z.eqb_eq in H; now subst);
    try (apply beqb_eq' in H; now subst).
  - apply Bool.eqb_prop in H. now subst.
  - unfold rgb_eqb in H. destruct c, c0; cbn in H.
    apply andb_prop in H as [H H4]. apply andb_prop in H as [H H3]. apply andb_prop in H as [H1 H2].
    apply N.eqb_eq in H1, H2, H3. apply opt_eqb_eq in H4. now subst.
Qed.

Lemma btoken_eqb_refl : forall a, btoken_eqb a a = true.
Proof.
  destruct a; cbn; auto using N.eqb_refl, Z.eqb_refl, beqb_refl', Bool.eqb_reflx.
  unfold rgb_eqb. rewrite !N.eqb_refl. cbn. destruct (rgb_a c); cbn; auto using N.eqb_refl.
Qed.

Lemma geb_sound : forall s t, geb s t = true -> ghost_erase s t.
Proof.
  fix IH 1. intros s t H. destruct s as [|x s'].
  - destruct t; [constructor|discriminate].
  - cbn [geb] in H.
    destruct (match t with
              | [] => false
              | y :: t' => if btoken_eqb x y then geb s' t' else false
              end) eqn:E.
    + destruct t as [|y t']; [discriminate|]. destruct (btoken_eqb x y) eqn:Exy; [|discriminate].
      apply btoken_eqb_eq in Exy. subst. constructor. apply IH. exact E.
    + destruct x; try discriminate. destruct s' as [|c s'']; [discriminate|]. destruct c; try discriminate.
      constructor. apply IH. exact H.
Qed.

Lemma geb_complete : forall s t, ghost_erase s t -> geb s t = true.
Proof.
  induction 1.
  - reflexivity.
  - cbn [geb]. rewrite btoken_eqb_refl, IHghost_erase. reflexivity.
  - cbn [geb]. match goal with |- (if ?c then true else _) = true => destruct c end; [reflexivity|].
    exact IHghost_erase.
Qed.

Lemma subb_sound : forall s t, subb s t = true -> subseq s t.
Proof.
  induction s as [|x s IH]; intros t H.
  - destruct t; [constructor|discriminate].
  - destruct t as [|y t']; [apply ss_nil|]. cbn [subb] in H.
    destruct (btoken_eqb x y) eqn:E.
    + apply btoken_eqb_eq in E. subst. constructor. auto.
    + constructor. auto.
Qed.

(* ------------------------------------------------------------------ raw lexing as a relation *)
Inductive lexes : bytes -> list btoken -> Prop :=
| LX_end : forall d, length d < 2 -> lexes d []
| LX_tok : forall d t r ts, raw_token d = Ok (t, r) -> lexes r ts -> lexes d (t :: ts).

Lemma raw_token_len : forall d t r, raw_token d = Ok (t, r) -> 2 + length r <= length d.
Proof.
  intros d t r H. unfold raw_token in H.
  destruct (read_id d) as [[id d1]| | | |] eqn:E; cbn [obind] in H; try discriminate.
  destruct (N.eqb id L_RGB).
  - inversion H; subst. apply read_id_len in E. lia.
  - eapply read_token_len; eauto.
Qed.

Lemma lexes_fuel : forall d ts, lexes d ts -> forall fuel, length d < fuel -> raw_lex_fuel fuel d = Some ts.
Proof.
  induction 1; intros fuel Hf; (destruct fuel; [lia|]); cbn [raw_lex_fuel].
  - replace (Nat.ltb (length d) 2) with true by (symmetry; apply Nat.ltb_lt; lia). reflexivity.
  - pose proof (raw_token_len _ _ _ H) as L.
    replace (Nat.ltb (length d) 2) with false by (symmetry; apply Nat.ltb_ge; lia).
    rewrite H, IHlexes by lia. reflexivity.
Qed.

Lemma lexes_raw_lex : forall d ts, lexes d ts -> raw_lex d = Some ts.
Proof. intros. unfold raw_lex. apply lexes_fuel; auto. Qed.

(* ------------------------------------------------------------------ raw_token by id class *)
Definition class_kind (c : idclass) : option skind :=
  match c with
  | CU32 => Some KU32 | CU64 => Some KU64 | CI32 => Some KI32 | CBool => Some KBool
  | CQuoted => Some KQuoted | CUnquoted => Some KUnquoted | CF32 => Some KF32 | CF64 => Some KF64
  | CI64 => Some KI64
  | _ => None
  end.

Ltac rt_scalar lem Hid Hr rd :=
  unfold raw_token; rewrite Hid; cbn [obind]; change (N.eqb _ L_RGB) with false; cbv iota;
  rewrite (lem _ _ Hid); unfold read_scalar in Hr;
  destruct rd as [[x r']| | | |]; try discriminate; cbn in Hr; inversion Hr; subst;
  eexists; split; [reflexivity|split; reflexivity].

Lemma raw_token_scalar : forall data id d k v r,
  read_id data = Ok (id, d) -> class_kind (classify id) = Some k -> read_scalar k d = Ok (v, r) ->
  exists tk, raw_token data = Ok (tk, r) /\ untape1 v = [tk] /\ is_eq tk = false.
Proof.
  intros data id d k v r Hid Hc Hr. unfold classify in Hc.
  destruct (N.eqb id L_U32) eqn:E1.
  { apply N.eqb_eq in E1. subst id. inversion Hc; subst k. rt_scalar rt_u32 Hid Hr (read_u32 d). }
  destruct (N.eqb id L_U64) eqn:E2.
  { apply N.eqb_eq in E2. subst id. inversion Hc; subst k. rt_scalar rt_u64 Hid Hr (read_u64 d). }
  destruct (N.eqb id L_I32) eqn:E3.
  { apply N.eqb_eq in E3. subst id. inversion Hc; subst k. rt_scalar rt_i32 Hid Hr (read_i32 d). }
  destruct (N.eqb id L_BOOL) eqn:E4.
  { apply N.eqb_eq in E4. subst id. inversion Hc; subst k. rt_scalar rt_bool Hid Hr (read_bool d). }
  destruct (N.eqb id L_QUOTED) eqn:E5.
  { apply N.eqb_eq in E5. subst id. inversion Hc; subst k. rt_scalar rt_quoted Hid Hr (read_string d). }
  destruct (N.eqb id L_UNQUOTED) eqn:E6.
  { apply N.eqb_eq in E6. subst id. inversion Hc; subst k. rt_scalar rt_unquoted Hid Hr (read_string d). }
  destruct (N.eqb id L_F32) eqn:E7.
  { apply N.eqb_eq in E7. subst id. inversion Hc; subst k. rt_scalar rt_f32 Hid Hr (read_f32 d). }
  destruct (N.eqb id L_F64) eqn:E8.
  { apply N.eqb_eq in E8. subst id. inversion Hc; subst k. rt_scalar rt_f64 Hid Hr (read_f64 d). }
  destruct (N.eqb id L_OPEN); [discriminate|]. destruct (N.eqb id L_CLOSE); [discriminate|].
  destruct (N.eqb id L_EQUAL); [discriminate|]. destruct (N.eqb id L_RGB); [discriminate|].
  destruct (N.eqb id L_I64) eqn:E9; [|discriminate].
  apply N.eqb_eq in E9. subst id. inversion Hc; subst k. rt_scalar rt_i64 Hid Hr (read_i64 d).
Qed.

Lemma raw_token_open : forall data d, read_id data = Ok (L_OPEN, d) -> raw_token data = Ok (BOpen, d).
Proof. intros. unfold raw_token. rewrite H. cbn [obind]. change (N.eqb L_OPEN L_RGB) with false. cbv iota. now apply rt_open. Qed.
Lemma raw_token_close : forall data d, read_id data = Ok (L_CLOSE, d) -> raw_token data = Ok (BClose, d).
Proof. intros. unfold raw_token. rewrite H. cbn [obind]. change (N.eqb L_CLOSE L_RGB) with false. cbv iota. now apply rt_close. Qed.
Lemma raw_token_equal : forall data d, read_id data = Ok (L_EQUAL, d) -> raw_token data = Ok (BEqual, d).
Proof. intros. unfold raw_token. rewrite H. cbn [obind]. change (N.eqb L_EQUAL L_RGB) with false. cbv iota. now apply rt_equal. Qed.
Lemma raw_token_u32 : forall data d x r, read_id data = Ok (L_U32, d) -> read_u32 d = Ok (x, r) -> raw_token data = Ok (BU32 x, r).
Proof.
  intros. unfold raw_token. rewrite H. cbn [obind]. change (N.eqb L_U32 L_RGB) with false. cbv iota.
  rewrite (rt_u32 _ _ H), H0. reflexivity.
Qed.

(* an id that is none of the thirteen lexemes, or the RGB id: a plain token *)
Lemma raw_token_id : forall data id d, read_id data = Ok (id, d) ->
  classify id = COther \/ classify id = CRgb -> raw_token data = Ok (BId id, d).
Proof.
  intros data id d Hid Hc. unfold raw_token. rewrite Hid. cbn [obind].
  destruct (N.eqb id L_RGB) eqn:Er; [reflexivity|].
  unfold read_token. rewrite Hid. cbn [obind]. unfold classify in Hc. rewrite Er in Hc.
  destruct (N.eqb id L_U32); [destruct Hc; discriminate|]. destruct (N.eqb id L_U64); [destruct Hc; discriminate|].
  destruct (N.eqb id L_I32); [destruct Hc; discriminate|]. destruct (N.eqb id L_BOOL); [destruct Hc; discriminate|].
  destruct (N.eqb id L_QUOTED); [destruct Hc; discriminate|]. destruct (N.eqb id L_UNQUOTED); [destruct Hc; discriminate|].
  destruct (N.eqb id L_F32); [destruct Hc; discriminate|]. destruct (N.eqb id L_F64); [destruct Hc; discriminate|].
  destruct (N.eqb id L_OPEN); [destruct Hc; discriminate|]. destruct (N.eqb id L_CLOSE); [destruct Hc; discriminate|].
  destruct (N.eqb id L_EQUAL); [destruct Hc; discriminate|].
  destruct (N.eqb id L_I64); [destruct Hc; discriminate|]. rewrite ?Er. reflexivity.
Qed.

Lemma classify_eq : forall id, match classify id with
                               | COpen => id = L_OPEN | CClose => id = L_CLOSE | CEqual => id = L_EQUAL
                               | CRgb => id = L_RGB | _ => True end.
Proof.
  intros id. unfold classify.
  repeat match goal with |- context [N.eqb id ?c] => destruct (N.eqb id c) eqn:?; [try exact I; try (now apply N.eqb_eq)|] end.
  exact I.
Qed.

(* the rgb block read in object-value position is the RGB id followed by seven / eight raw tokens *)
Lemma rgb_block_lexes : forall data d c r ts,
  read_id data = Ok (L_RGB, d) -> read_rgb d = Ok (c, r) -> lexes r ts -> lexes data (rgb_toks c ++ ts).
Proof.
  intros data d c r ts Hid Hr Hl. unfold read_rgb in Hr.
  destruct (read_id d) as [[i0 d0]| | | |] eqn:R0; cbn [obind] in Hr; try discriminate.
  destruct (read_id d0) as [[i1 d1]| | | |] eqn:R1; cbn [obind] in Hr; try discriminate.
  destruct (read_u32 d1) as [[x1 d2]| | | |] eqn:R2; cbn [obind] in Hr; try discriminate.
  destruct (read_id d2) as [[i2 d3]| | | |] eqn:R3; cbn [obind] in Hr; try discriminate.
  destruct (read_u32 d3) as [[x2 d4]| | | |] eqn:R4; cbn [obind] in Hr; try discriminate.
  destruct (read_id d4) as [[i3 d5]| | | |] eqn:R5; cbn [obind] in Hr; try discriminate.
  destruct (read_u32 d5) as [[x3 d6]| | | |] eqn:R6; cbn [obind] in Hr; try discriminate.
  destruct (read_id d6) as [[i4 d7]| | | |] eqn:R7; cbn [obind] in Hr; try discriminate.
  destruct (N.eqb i0 L_OPEN) eqn:E0; [|discriminate]. destruct (N.eqb i1 L_U32) eqn:E1; [|discriminate].
  destruct (N.eqb i2 L_U32) eqn:E2; [|discriminate]. destruct (N.eqb i3 L_U32) eqn:E3; [|discriminate].
  cbn [andb] in Hr. apply N.eqb_eq in E0, E1, E2, E3. subst i0 i1 i2 i3.
  assert (T0 : raw_token data = Ok (BId L_RGB, d)) by (apply raw_token_id; auto).
  pose proof (raw_token_open _ _ R0) as T1.
  pose proof (raw_token_u32 _ _ _ _ R1 R2) as T2.
  pose proof (raw_token_u32 _ _ _ _ R3 R4) as T3.
  pose proof (raw_token_u32 _ _ _ _ R5 R6) as T4.
  destruct (N.eqb i4 L_CLOSE) eqn:E4.
  - apply N.eqb_eq in E4. subst i4. inversion Hr; subst. unfold rgb_toks. cbn [rgb_r rgb_g rgb_b rgb_a app].
    repeat (eapply LX_tok; [eassumption|]). eapply LX_tok; [apply raw_token_close; eassumption|]. exact Hl.
  - destruct (N.eqb i4 L_U32) eqn:E5; [|discriminate]. apply N.eqb_eq in E5. subst i4.
    destruct (read_u32 d7) as [[x4 d8]| | | |] eqn:R8; cbn [obind] in Hr; try discriminate.
    destruct (read_id d8) as [[i5 d9]| | | |] eqn:R9; cbn [obind] in Hr; try discriminate.
    destruct (N.eqb i5 L_CLOSE) eqn:E6; [|discriminate]. apply N.eqb_eq in E6. subst i5. inversion Hr; subst.
    pose proof (raw_token_u32 _ _ _ _ R7 R8) as T5.
    unfold rgb_toks. cbn [rgb_r rgb_g rgb_b rgb_a app].
    repeat (eapply LX_tok; [eassumption|]). eapply LX_tok; [apply raw_token_close; eassumption|]. exact Hl.
Qed.

Lemma noeq_rgb : forall c, noeq (rgb_toks c) = rgb_toks c.
Proof. intros c. unfold rgb_toks. destruct (rgb_a c); reflexivity. Qed.

(* ------------------------------------------------------------------ tape surgery leaves NU alone *)
Lemma NU_mixed_insert1 : forall t t', mixed_insert1 t = Ok t' -> NU t' = NU t.
Proof.
  intros t t' H. unfold mixed_insert1 in H. destruct (pop t) as [[t1 s1]|] eqn:E; [|discriminate].
  apply pop_some in E. subst. inversion H; subst. rewrite !NU_push. unfold push. rewrite NU_app.
  unfold NU at 3. unfold untape. cbn [flat_map]. rewrite app_nil_r. cbn [untape1 noeq filter]. rewrite ?app_nil_r. reflexivity.
Qed.

Lemma NU_mixed_insert2 : forall t t', mixed_insert2 t = Ok t' -> NU t' = NU t.
Proof.
  intros t t' H. unfold mixed_insert2 in H. destruct (pop t) as [[t1 s1]|] eqn:E; [|discriminate].
  destruct (pop t1) as [[t2 s2]|] eqn:E2; [|discriminate].
  apply pop_some in E, E2. subst. inversion H; subst. rewrite !NU_push. unfold push. rewrite !NU_app.
  unfold NU at 3 4. unfold untape. cbn [flat_map]. rewrite !app_nil_r. cbn [untape1 noeq filter].
  rewrite ?app_nil_r. reflexivity.
Qed.

Lemma NU_set_parent : forall par t t', set_parent_to_object par t = Ok t' -> NU t' = NU t.
Proof.
  intros par t t' H. unfold set_parent_to_object in H.
  destruct (nth_error t par) as [[]|] eqn:E; try discriminate. inversion H; subst.
  eapply NU_upd; eauto.
Qed.

Lemma NU_push_end : forall par t ps g t', push_end par t = Ok (ps, g, t') -> NU t' = NU t ++ [BClose].
Proof.
  intros par t ps g t' H. unfold push_end in H.
  destruct (nth_error t par) as [[]|] eqn:E; try discriminate; unfold push_end_fin in H;
    match type of H with context [nth_error ?x ?y] => destruct (nth_error x y) as [[]|]; try discriminate end;
    inversion H; subst; rewrite NU_push; (erewrite NU_upd; [reflexivity|eassumption|reflexivity]).
Qed.

(* tape[par+1..] made of [Array; End] pairs only, an even number of tokens: its token sequence is ghosts *)
Lemma all_empty_pairs_ghosts : forall l, all_empty_pairs l = true -> Nat.even (length l) = true ->
  exists k, NU l = ghosts k.
Proof.
  fix IH 1. intros l H Hev. destruct l as [|a [|b r]].
  - exists 0. reflexivity.
  - discriminate.
  - cbn [all_empty_pairs] in H. destruct a; try discriminate. destruct b; try discriminate.
    apply andb_prop in H as [_ H]. destruct (IH r H) as [k Hk]. { exact Hev. }
    exists (S k). change (TArray e :: TEnd i :: r) with ([TArray e; TEnd i] ++ r). rewrite NU_app, Hk. reflexivity.
Qed.

(* ------------------------------------------------------------------ the generic simulation *)
Section Mirror.
  Variable R : list btoken -> list btoken -> Prop.
  Hypothesis R_refl : forall l, R l l.
  Hypothesis R_trans : forall a b c, R a b -> R b c -> R a c.
  Hypothesis R_app : forall a b c d, R a b -> R c d -> R (a ++ c) (b ++ d).
  Hypothesis R_ghosts : forall k, R (ghosts k) [].

  Lemma R_snoc : forall pre t tk, R (noeq pre) (NU t) -> is_eq tk = false -> forall x, noeq (untape1 x) = [tk] ->
    R (noeq (pre ++ [tk])) (NU (push t x)).
  Proof.
    intros pre t tk H He x Hx. rewrite noeq_app, NU_push, Hx. apply R_app; auto.
    unfold noeq. cbn [filter]. rewrite He. cbn. apply R_refl.
  Qed.

  Lemma R_drop : forall s a g l, R g [] -> R s (a ++ g ++ l) -> R s (a ++ l).
  Proof.
    intros s a g l Hg H. eapply R_trans; [exact H|]. apply R_app; [apply R_refl|].
    change l with ([] ++ l) at 2. apply R_app; auto.
  Qed.

  Lemma slow_ref_mirror : forall data h d ps par t s' pre,
    get_split 2 data = Some (h, d) ->
    slow false d (le_word 2 h) ps par t = Ok s' ->
    R (noeq pre) (NU t) ->
    exists tks, (forall ts, lexes (s_data s') ts -> lexes data (tks ++ ts)) /\ R (noeq (pre ++ tks)) (NU (s_tape s')).
  Proof.
    intros data h d ps0 par t0 s' pre Hg H HR.
    set (id := le_word 2 h) in *.
    assert (Hid : read_id data = Ok (id, d)) by (unfold read_id; now rewrite Hg).
    unfold slow in H.
    assert (exists ps t, (match ps0 with
                          | ObjectToArray => do t' <- mixed_insert2 t0; Ok (ArrayValueMixed, t')
                          | _ => Ok (ps0, t0) end) = Ok (ps, t) /\ NU t = NU t0 /\ (ps0 = ArrayValue -> ps = ArrayValue /\ t = t0)
                         /\ (ps = ArrayValue -> ps0 = ArrayValue))
      as (ps & t & E & Et & Eav & Eav').
    { destruct ps0;
        try (eexists _, t0; split; [reflexivity|]; split; [reflexivity|];
             split; [intros Q; split; [exact Q|reflexivity]|intros Q; exact Q]; fail).
      destruct (mixed_insert2 t0) as [t1| | | |] eqn:Em; try discriminate.
      exists ArrayValueMixed, t1. split; [reflexivity|]. split; [now apply NU_mixed_insert2|].
      split; intros Q; discriminate. }
    rewrite E in H. cbn [obind] in H. rewrite <- Et in HR. clear E.
    (* a scalar arm *)
    assert (Hsc : forall k, class_kind (classify id) = Some k -> forall s1, scalar_arm k d ps par t = Ok s1 ->
              exists tks, (forall ts, lexes (s_data s1) ts -> lexes data (tks ++ ts)) /\ R (noeq (pre ++ tks)) (NU (s_tape s1))).
    { intros k Hk s1 Hs. unfold scalar_arm in Hs.
      destruct (read_scalar k d) as [[v r]| | | |] eqn:Er; try discriminate. cbn [obind] in Hs.
      rewrite next_state_ok in Hs. cbn [obind] in Hs. inversion Hs; subst; clear Hs.
      destruct (raw_token_scalar _ _ _ _ _ _ Hid Hk Er) as (tk & Ht & Hu & He).
      exists [tk]. split.
      - intros ts Hl. cbn [s_data app]. eapply LX_tok; [exact Ht|exact Hl].
      - cbn [s_tape]. apply R_snoc; auto. rewrite Hu. unfold noeq. cbn [filter]. now rewrite He. }
    (* a plain token *)
    assert (Htk : (classify id = COther \/ classify id = CRgb) -> forall s1,
              (do ps' <- next_state ps; Ok (mkst d ps' par (push t (TToken id)))) = Ok s1 ->
              exists tks, (forall ts, lexes (s_data s1) ts -> lexes data (tks ++ ts)) /\ R (noeq (pre ++ tks)) (NU (s_tape s1))).
    { intros Hc s1 Hs. rewrite next_state_ok in Hs. cbn [obind] in Hs. inversion Hs; subst; clear Hs.
      exists [BId id]. split.
      - intros ts Hl. cbn [s_data app]. eapply LX_tok; [apply raw_token_id; eassumption|exact Hl].
      - cbn [s_tape]. apply R_snoc; auto. }
    pose proof (classify_eq id) as Hce.
    destruct (classify id) eqn:Ec;
      try (eapply Hsc; [reflexivity|exact H]; fail);
      try (eapply Htk; [auto|exact H]; fail).
    - (* I32 *)
      destruct (scalar_arm KI32 d ps par t) as [s1| | | |] eqn:Es; try discriminate. cbn [obind] in H.
      inversion H; subst. eapply Hsc; [reflexivity|exact Es].
    - (* Open *)
      subst id. rewrite Hce in Hid.
      destruct (is_key ps) eqn:Ek; cbn [negb] in H.
      + destruct t as [|a t']; [discriminate|].
        destruct (read_id d) as [[id2 nd]| | | |] eqn:E2; try discriminate. cbn [obind] in H.
        destruct (N.eqb id2 L_CLOSE) eqn:Ecl; [|discriminate]. apply N.eqb_eq in Ecl. subst id2.
        inversion H; subst; clear H. exists [BOpen; BClose]. split.
        * intros ts Hl. cbn [s_data app]. eapply LX_tok; [apply raw_token_open; eassumption|].
          eapply LX_tok; [apply raw_token_close; eassumption|]. exact Hl.
        * cbn [s_tape]. rewrite noeq_app. rewrite <- (app_nil_r (NU (a :: t'))). apply R_app; auto.
          apply (R_ghosts 1).
      + inversion H; subst; clear H. exists [BOpen]. split.
        * intros ts Hl. cbn [s_data app]. eapply LX_tok; [apply raw_token_open; eassumption|exact Hl].
        * cbn [s_tape]. apply R_snoc; auto.
    - (* Close *)
      subst id. rewrite Hce in Hid.
      assert (exists t1, (match ps with KeyValueSeparator => mixed_insert1 t | ObjectValue => Err E_Syntax | _ => Ok t end) = Ok t1
                         /\ NU t1 = NU t) as (t1 & E1 & Hn1).
      { destruct ps; try (exists t; split; auto; fail).
        - cbn [obind] in H. discriminate.
        - destruct (mixed_insert1 t) as [t1| | | |] eqn:Em; try discriminate.
          exists t1. split; auto. now apply NU_mixed_insert1. }
      rewrite E1 in H. cbn [obind] in H.
      destruct (push_end par t1) as [[[ps' g] t']| | | |] eqn:Ep; try discriminate. cbn [obind fst snd] in H.
      inversion H; subst; clear H. exists [BClose]. split.
      * intros ts Hl. cbn [s_data app]. eapply LX_tok; [apply raw_token_close; eassumption|exact Hl].
      * cbn [s_tape]. rewrite (NU_push_end _ _ _ _ _ Ep), Hn1, noeq_app. apply R_app; auto.
    - (* Equal *)
      subst id. rewrite Hce in Hid.
      assert (Hlex : forall ts, lexes d ts -> lexes data ([BEqual] ++ ts)).
      { intros ts Hl. cbn [app]. eapply LX_tok; [apply raw_token_equal; eassumption|exact Hl]. }
      assert (Hpre : noeq (pre ++ [BEqual]) = noeq pre).
      { rewrite noeq_app. unfold noeq at 2. cbn. apply app_nil_r. }
      destruct ps; try discriminate.
      + (* ArrayValue *)
        pose proof (Eav' eq_refl) as Q0. subst ps0. destruct (Eav eq_refl) as [_ ->]. clear Eav Eav'.
        destruct (pop t0) as [[t1 last]|] eqn:Ep; [|discriminate].
        pose proof (pop_some _ _ _ Ep) as Ht0. subst t0.
        destruct (is_array_or_end last) eqn:Ea; [discriminate|].
        destruct (only_empties par t1) eqn:Eo.
        * destruct (set_parent_to_object par t1) as [t2| | | |] eqn:Es; try discriminate. cbn [obind] in H.
          inversion H; subst; clear H. exists [BEqual]. split; [exact Hlex|].
          cbn [s_tape]. rewrite Hpre. unfold push.
          (* t2 = firstn (S par) t2 ++ skipn (S par) t2, the second part is what set_len drops *)
          assert (Hn2 : NU t2 = NU t1) by (eapply NU_set_parent; eauto).
          assert (Hsk : skipn (S par) t2 = skipn (S par) t1).
          { unfold set_parent_to_object in Es. destruct (nth_error t1 par) as [[]|] eqn:En; try discriminate.
            inversion Es; subst. clear. revert par. induction t1 as [|y t1 IH]; intros par; [now destruct par|].
            destruct par; [reflexivity|]. cbn [upd]. cbn [skipn]. apply IH. }
          rewrite NU_app in HR |- *. rewrite <- Hn2, <- (firstn_skipn (S par) t2), NU_app, <- app_assoc in HR.
          eapply R_drop; [|exact HR].
          rewrite Hsk. unfold only_empties in Eo. apply andb_prop in Eo as [Eo Ep2]. apply andb_prop in Eo as [_ Eev].
          destruct (all_empty_pairs_ghosts _ Ep2 Eev) as [k Hk]. rewrite Hk. apply R_ghosts.
        * inversion H; subst; clear H. exists [BEqual]. split; [exact Hlex|].
          cbn [s_tape]. rewrite Hpre. rewrite !NU_push. unfold push in HR. rewrite NU_app in HR.
          cbn [untape1 noeq filter is_eq negb]. rewrite !app_nil_r.
          unfold NU at 2 in HR. unfold untape in HR. cbn [flat_map] in HR. rewrite app_nil_r in HR. exact HR.
      + (* ArrayValueMixed *)
        inversion H; subst; clear H. exists [BEqual]. split; [exact Hlex|].
        cbn [s_tape]. rewrite Hpre, NU_push. cbn [untape1 noeq filter is_eq negb]. now rewrite app_nil_r.
      + (* KeyValueSeparator *)
        inversion H; subst; clear H. exists [BEqual]. split; [exact Hlex|]. cbn [s_tape]. now rewrite Hpre.
      + (* OpenSecond *)
        destruct (set_parent_to_object par t) as [t1| | | |] eqn:Es; try discriminate. cbn [obind] in H.
        inversion H; subst; clear H. exists [BEqual]. split; [exact Hlex|]. cbn [s_tape].
        rewrite Hpre, (NU_set_parent _ _ _ Es). exact HR.
    - (* Rgb *)
      subst id. rewrite Hce in Hid.
      destruct ps; try (eapply Htk; [auto|exact H]; fail).
      destruct (read_scalar KRgb d) as [[v r]| | | |] eqn:Er; try discriminate. cbn [obind] in H.
      inversion H; subst; clear H. unfold read_scalar in Er.
      destruct (read_rgb d) as [[c r']| | | |] eqn:Erg; try discriminate. cbn in Er. inversion Er; subst; clear Er.
      exists (rgb_toks c). split.
      * intros ts Hl. cbn [s_data]. eapply rgb_block_lexes; eauto.
      * cbn [s_tape]. rewrite noeq_app, NU_push. apply R_app; [exact HR|]. cbn [untape1]. rewrite noeq_rgb. apply R_refl.
  Qed.

  Lemma loop_mirror : forall fuel s t pre,
    loop false false fuel s = Ok t -> R (noeq pre) (NU (s_tape s)) ->
    exists ts, lexes (s_data s) ts /\ R (noeq (pre ++ ts)) (NU t).
  Proof.
    induction fuel as [|f IH]; intros s t pre H HR; [discriminate|].
    cbn [loop] in H.
    destruct (get_split 2 (s_data s)) as [[h d]|] eqn:Eg.
    - rewrite (iter_ref_unfold _ _ _ Eg) in H.
      destruct (slow false d (le_word 2 h) (s_ps s) (s_par s) (s_tape s)) as [s1| | | |] eqn:Es;
        try (cbn in H; discriminate).
      destruct s as [sd sps spar stp]. cbn [s_data s_ps s_par s_tape] in *.
      destruct (slow_ref_mirror sd h d sps spar stp s1 pre Eg Es HR) as (tks & Hl & HR1).
      destruct (IH s1 t (pre ++ tks) H HR1) as (ts & Hts & HRt).
      exists (tks ++ ts). split; [now apply Hl|]. now rewrite app_assoc.
    - unfold iter in H. rewrite Eg in H. unfold finish in H.
      destruct (s_par s); [|discriminate]. destruct (s_ps s); try discriminate. inversion H; subst.
      exists []. split; [|now rewrite app_nil_r].
      constructor. apply get_split_none in Eg. exact Eg.
  Qed.

  Theorem parse_ref_mirror : forall bytes t, parse_ref bytes = Ok t ->
    exists toks, raw_lex bytes = Some toks /\ R (noeq toks) (noeq (untape t)).
  Proof.
    intros bytes t H. unfold parse_ref, parse in H.
    destruct (loop_mirror (S (length bytes)) (init bytes) t [] H) as (ts & Hl & HR).
    { cbn. apply R_refl. }
    exists ts. split; [now apply lexes_raw_lex|exact HR].
  Qed.
End Mirror.

(* ------------------------------------------------------------------ the two instances *)
Theorem ref_tape_subseq : forall bytes t, parse_ref bytes = Ok t ->
  exists toks, raw_lex bytes = Some toks /\ subseq (noeq toks) (noeq (untape t)).
Proof.
  intros bytes t H. apply (parse_ref_mirror subseq); auto.
  - apply ss_refl.
  - intros a b c H1 H2. eapply ss_trans; eauto.
  - intros a b c d H1 H2. now apply ss_app.
  - intros k. apply ss_nil.
Qed.

Theorem ref_tape_mirror : forall bytes t, parse_ref bytes = Ok t ->
  exists toks, raw_lex bytes = Some toks /\ ghost_groups (noeq toks) (noeq (untape t)).
Proof.
  intros bytes t H. apply (parse_ref_mirror ghost_groups); auto.
  - constructor.
  - intros a b c H1 H2. eapply gg_trans; eauto.
  - intros a b c d H1 H2. now apply gg_app.
  - apply gg_ghosts.
Qed.

(* the optimised parser: through fast = reference (BinTapeSim) *)
Lemma opt_ok_ref_ok : forall bytes t, parse_opt bytes = Ok t -> parse_ref bytes = Ok t.
Proof.
  intros bytes t H.
  assert (E : obs (parse_opt bytes) = obs (parse_ref bytes)).
  { unfold parse_opt, parse_ref. change fast_path_excludes_i64 with true.
    rewrite <- (ref_fx_irrelevant true). apply fast_eq_ref_fixed. }
  rewrite H in E. destruct (parse_ref bytes) as [t1| | | |]; cbn [obs] in E; try discriminate. inversion E; reflexivity.
Qed.

Theorem opt_tape_subseq : forall bytes t, parse_opt bytes = Ok t ->
  exists toks, raw_lex bytes = Some toks /\ subseq (noeq toks) (noeq (untape t)).
Proof. intros. apply ref_tape_subseq. now apply opt_ok_ref_ok. Qed.

Theorem opt_tape_mirror : forall bytes t, parse_opt bytes = Ok t ->
  exists toks, raw_lex bytes = Some toks /\ ghost_groups (noeq toks) (noeq (untape t)).
Proof. intros. apply ref_tape_mirror; auto. now apply opt_ok_ref_ok. Qed.

(* consequence: every token of the stream other than `{`, `}` and `=` is on the tape *)
Lemma gg_in : forall s t, ghost_groups s t -> forall x, In x s -> x = BOpen \/ x = BClose \/ In x t.
Proof.
  induction 1; intros x Hx; [auto|].
  apply in_app_or in Hx. destruct Hx as [Hx|[Hx|[Hx|Hx]]]; auto.
  - apply IHghost_groups. apply in_or_app. auto.
  - apply IHghost_groups. apply in_or_app. auto.
Qed.

Theorem tape_keeps_payloads : forall bytes t, parse_opt bytes = Ok t \/ parse_ref bytes = Ok t ->
  exists toks, raw_lex bytes = Some toks /\
    forall x, In x toks -> x <> BOpen -> x <> BClose -> x <> BEqual -> In x (untape t).
Proof.
  intros bytes t H.
  assert (Hr : parse_ref bytes = Ok t) by (destruct H; auto using opt_ok_ref_ok).
  destruct (ref_tape_mirror _ _ Hr) as (toks & Hl & Hg). exists toks. split; auto.
  intros x Hx Ho Hc He.
  assert (Hn : In x (noeq toks)).
  { unfold noeq. apply filter_In. split; auto. destruct x; try reflexivity. exfalso. now apply He. }
  destruct (gg_in _ _ Hg x Hn) as [Q|[Q|Q]]; try congruence.
  unfold noeq in Q. apply filter_In in Q. tauto.
Qed.

(* regression example for finding L: `a = { {} x y = z }` used to lose x (only_empties ignored the odd
   trailing token); with `pairs.remainder().is_empty()` the container is a mixed array that keeps
   the leading `{}` and x, and the strict decider says yes *)
Definition witness_L : bytes :=
  [130;45; 1;0; 3;0; 3;0; 4;0; 131;45; 132;45; 1;0; 133;45; 4;0]%N.

Theorem witness_L_mirrors : exists t toks,
  parse_ref witness_L = Ok t /\ parse_opt witness_L = Ok t /\ raw_lex witness_L = Some toks /\
  t = [TToken 11650%N; TArray 9; TArray 3; TEnd 2; TToken 11651%N; TMixed; TToken 11652%N; TEqual; TToken 11653%N; TEnd 1] /\
  In (BId 11651%N) toks /\ In (TToken 11651%N) t /\ mirrorb toks t = true.
Proof.
  eexists. eexists. split; [vm_compute; reflexivity|]. split; [vm_compute; reflexivity|].
  split; [vm_compute; reflexivity|]. split; [reflexivity|]. split; [cbn; tauto|]. split; [cbn; tauto|].
  vm_compute. reflexivity.
Qed.

(* the deciders run on the real tapes (kind bt.mir) decide the strict relation, which implies ghost_groups *)
Theorem mirrorb_strict : forall toks t, mirrorb toks t = true <-> ghost_erase (noeq toks) (noeq (untape t)).
Proof. intros. unfold mirrorb. split; [apply geb_sound|apply geb_complete]. Qed.

Theorem mirrorb_groups : forall toks t, mirrorb toks t = true -> ghost_groups (noeq toks) (noeq (untape t)).
Proof. intros. apply ge_gg. now apply mirrorb_strict. Qed.

Theorem submirrorb_sound : forall toks t, submirrorb toks t = true -> subseq (noeq toks) (noeq (untape t)).
Proof. intros. now apply subb_sound. Qed.
