(* C10, the text <-> binary link at the document level: the specification of the text walks
   (TextDeSpec.spec_value over TextDoc) on the text rendering of a logical document equals the
   specification of the binary walks (BinDoc.spec_value = SerdeShape.walk over the document) on ANY binary
   rendering of it, for every shared target shape. *)
From JV Require Import Bytes Tables Utf8 Scalar Date TextTok BinPrim SerdeShape TextDeCommon BinDeCommon TextDeSpec LogicDoc.
From JV Require TextDoc BinDoc.
From JV.proofs Require Import C10LinkProofs.
From Coq Require Import NArith ZArith Lia List Bool.
Import ListNotations.
Open Scope N_scope.

Notation bsize := BinDeCommon.shape_size.

(* ------------------------------------------------------------------ induction on logical values *)
Section LvalInd.
  Variable P : lval -> Prop.
  Hypothesis HS : forall l, P (LScalar l).
  Hypothesis HR : forall c, P (LRgb c).
  Hypothesis HA : forall vs, Forall P vs -> P (LArr vs).
  Hypothesis HO : forall fs, Forall (fun f : lfield => P (lf_val f)) fs -> P (LObj fs).
  Fixpoint lval_ind' (v : lval) : P v :=
    match v with
    | LScalar l => HS l
    | LRgb c => HR c
    | LArr vs => HA vs ((fix go (l : list lval) : Forall P l :=
                           match l with [] => Forall_nil _ | x :: r => Forall_cons _ (lval_ind' x) (go r) end) vs)
    | LObj fs => HO fs ((fix go (l : list lfield) : Forall (fun f : lfield => P (lf_val f)) l :=
                           match l with [] => Forall_nil _ | x :: r => Forall_cons _ (lval_ind' (lf_val x)) (go r) end) fs)
    end.
End LvalInd.

(* ------------------------------------------------------------------ the local fixpoints are the list functions *)
Lemma to_text_arr vs : to_text_val (LArr vs) = TextDoc.VArray (to_text_vals vs).
Proof. reflexivity. Qed.
Lemma to_text_obj fs : to_text_val (LObj fs) = TextDoc.VObject (to_text_fields fs) TextDoc.VNil.
Proof. reflexivity. Qed.

Lemma to_bin_arr e vs : to_bin_val e (LArr vs) = BinDoc.VArr (to_bin_vals e 0 vs).
Proof.
  cbn [to_bin_val]. f_equal. generalize 0%nat. induction vs as [|x r IH]; intros i; [reflexivity|].
  cbn [to_bin_vals]. rewrite <- IH. reflexivity.
Qed.
Lemma to_bin_obj e fs : to_bin_val e (LObj fs) = BinDoc.VObj (to_bin_fields e 0 fs) (ch_ghost (e [])).
Proof.
  cbn [to_bin_val]. f_equal. generalize 0%nat. induction fs as [|x r IH]; intros i; [reflexivity|].
  cbn [to_bin_fields]. rewrite <- IH. reflexivity.
Qed.

Lemma lsize_arr vs : lsize (LArr vs) = (2 + lsize_vals vs)%nat.
Proof. reflexivity. Qed.
Lemma lsize_obj fs : lsize (LObj fs) = (2 + lsize_fields fs)%nat.
Proof. reflexivity. Qed.

Lemma lsize_pos v : (1 <= lsize v)%nat.
Proof. destruct v; cbn [lsize]; lia. Qed.
Lemma lsize_vals_len vs : (length vs <= lsize_vals vs)%nat.
Proof. induction vs as [|x r IH]; [reflexivity|]. cbn [lsize_vals length]. pose proof (lsize_pos x). lia. Qed.
Lemma lsize_fields_len fs : (2 * length fs <= lsize_fields fs)%nat.
Proof. induction fs as [|x r IH]; [reflexivity|]. cbn [lsize_fields length]. lia. Qed.

Section EncOk.
  Variable decode : bytes -> cow.
  Variable cfg : bcfg.
  Lemma enc_ok_arr e vs : enc_ok_v decode cfg e (LArr vs) <-> enc_ok_vals decode cfg e 0 vs.
  Proof.
    cbn [enc_ok_v]. generalize 0%nat. induction vs as [|x r IH]; intros i; [reflexivity|].
    cbn [enc_ok_vals]. rewrite <- IH. reflexivity.
  Qed.
  Lemma enc_ok_obj e fs : enc_ok_v decode cfg e (LObj fs) <-> ch_kghost (e [0%nat]) = false /\ enc_ok_fields decode cfg e 0 fs.
  Proof.
    cbn [enc_ok_v]. apply and_iff_compat_l. generalize 0%nat. induction fs as [|x r IH]; intros i; [reflexivity|].
    cbn [enc_ok_fields]. rewrite <- IH. reflexivity.
  Qed.
End EncOk.

Section SharedEq.
  Variable decode : bytes -> cow.
  Variable pf : bytes -> outcome N.
  Variable cfg : bcfg.
  Notation shv := (shared_v decode pf cfg).

  Lemma shared_opt s v : shv (ShOpt s) v <-> shv s v.
  Proof. destruct v; reflexivity. Qed.

  Lemma shared_ign v sh : strip_opt sh = ShIgn -> shv sh v <-> True.
  Proof. intros H. destruct v; cbn [shared_v]; rewrite H; reflexivity. Qed.

  Lemma shared_scalar sh l : strip_opt sh <> ShIgn ->
    shv sh (LScalar l) <-> scalar_shared decode pf cfg (strip_opt sh) l.
  Proof. intros H. cbn [shared_v]. destruct (strip_opt sh); try reflexivity. congruence. Qed.

  Lemma shared_seq_eq s vs : shv (ShSeq s) (LArr vs) <-> shared_seq decode pf cfg s vs.
  Proof. cbn [shared_v strip_opt]. induction vs as [|x r IH]; [reflexivity|]. cbn [shared_seq]. rewrite <- IH. reflexivity. Qed.
  Lemma shared_tup_eq ss vs : shv (ShTup ss) (LArr vs) <-> shared_tup decode pf cfg vs ss.
  Proof.
    cbn [shared_v strip_opt]. revert ss. induction vs as [|x r IH]; intros ss; [reflexivity|].
    cbn [shared_tup]. destruct ss as [|s ss']; [reflexivity|]. rewrite <- IH. reflexivity.
  Qed.
  Lemma shared_map_eq s fs : shv (ShMap s) (LObj fs) <-> fs <> [] /\ shared_map decode pf cfg s fs.
  Proof.
    cbn [shared_v strip_opt]. apply and_iff_compat_l. induction fs as [|x r IH]; [reflexivity|].
    cbn [shared_map]. rewrite <- IH. reflexivity.
  Qed.
  Lemma shared_struct_eq fds fs : shv (ShStruct false fds) (LObj fs) <-> fs <> [] /\ shared_struct decode pf cfg fds fs.
  Proof.
    cbn [shared_v strip_opt]. apply and_iff_compat_l. induction fs as [|x r IH]; [reflexivity|].
    cbn [shared_struct]. rewrite <- IH. reflexivity.
  Qed.

  Lemma strip_opt_not_opt s s' : strip_opt s <> ShOpt s'.
  Proof. induction s; cbn [strip_opt]; try discriminate. exact IHs. Qed.
  Lemma shape_eq_ign (s : shape) : s = ShIgn \/ s <> ShIgn.
  Proof. destruct s; try (right; discriminate). left; reflexivity. Qed.
  Lemma strip_opt_idem s : strip_opt (strip_opt s) = strip_opt s.
  Proof. induction s; cbn [strip_opt]; try reflexivity. exact IHs. Qed.
End SharedEq.

(* ------------------------------------------------------------------ struct accumulation: text acc vs binary slots *)
Definition conv (x : option dval * list dval) : option dval * list dval := (fst x, rev (snd x)).
Definition bsl (a : acc) : slots := map conv (a_slots a).

Lemma bsl_init tk fds : slots_init fds = bsl (acc0 (WStruct tk fds)).
Proof. unfold slots_init, bsl. cbn [acc0 a_slots]. rewrite map_map. reflexivity. Qed.

Lemma nth_error_conv l i : nth_error (map conv l) i = option_map conv (nth_error l i).
Proof. apply nth_error_map. Qed.

Lemma slot_pre_once a i : slot_pre (bsl a) MOnce i = if slot_full a i then Err EC_DUP else Ok tt.
Proof.
  unfold slot_pre, slot_full, bsl. rewrite nth_error_conv.
  destruct (nth_error (a_slots a) i) as [[[x|] c]|]; reflexivity.
Qed.

Lemma slot_upd_map l i (f g : option dval * list dval -> option dval * list dval) :
  (forall x, f (conv x) = conv (g x)) -> slot_upd (map conv l) i f = map conv (upd l i g).
Proof.
  intros H. revert i. induction l as [|x l IH]; intros i; [destruct i; reflexivity|].
  destruct i; cbn [map slot_upd upd]; [rewrite H; reflexivity|rewrite IH; reflexivity].
Qed.

Lemma slot_put_set a m i v : m <> MCollect -> slot_put (bsl a) m i v = bsl (slot_set a i v).
Proof.
  intros H. unfold bsl, slot_set. cbn [a_slots].
  destruct m; try congruence; cbn [slot_put]; apply slot_upd_map; intros x; reflexivity.
Qed.
Lemma slot_put_push a i v : slot_put (bsl a) MCollect i v = bsl (slot_push a i v).
Proof.
  unfold bsl, slot_push. cbn [a_slots slot_put]. apply slot_upd_map. intros x. unfold conv. cbn [fst snd rev]. reflexivity.
Qed.

Lemma upd_length {A} (l : list A) f : forall i, length (upd l i f) = length l.
Proof. induction l as [|x l IH]; intros i; [destruct i; reflexivity|]. destruct i; cbn [upd length]; [reflexivity|rewrite IH; reflexivity]. Qed.

Lemma finish_slots fds : forall sl, length sl = length fds -> slots_finish fds (map conv sl) = finish_fields fds sl.
Proof.
  induction fds as [|f fds IH]; intros sl Hl; [reflexivity|].
  destruct sl as [|x sl]; [discriminate|]. cbn [map slots_finish finish_fields]. rewrite IH by (cbn [length] in Hl; lia).
  destruct x as [o c]. unfold conv at 1 2. cbn [fst snd].
  destruct (f_mode f); destruct o; try reflexivity; unfold is_opt; destruct (f_shape f); reflexivity.
Qed.

Lemma field_by_name_find fds kb : forall i, field_by_name fds kb i = option_map fst (find_name fds kb i).
Proof.
  induction fds as [|f fds IH]; intros i; [reflexivity|]. cbn [field_by_name find_name].
  destruct (beqb (f_name f) kb); [reflexivity|apply IH].
Qed.

Lemma find_name_nth fds kb : forall i j fd, find_name fds kb i = Some (j, fd) ->
  (i <= j)%nat /\ nth_error fds (j - i) = Some fd.
Proof.
  induction fds as [|f fds IH]; intros i j fd; [discriminate|]. cbn [find_name].
  destruct (beqb (f_name f) kb).
  - intros H. injection H as <- <-. rewrite Nat.sub_diag. split; [lia|reflexivity].
  - intros H. destruct (IH _ _ _ H) as [Hle Hn]. split; [lia|].
    replace (j - i)%nat with (S (j - S i)) by lia. exact Hn.
Qed.

Definition ssum (fds : list field) : nat := fold_right (fun f n => (bsize (snd f) + n)%nat) 0%nat fds.
Lemma find_name_size fds kb : forall i j fd, find_name fds kb i = Some (j, fd) -> (bsize (f_shape fd) <= ssum fds)%nat.
Proof.
  induction fds as [|f fds IH]; intros i j fd; [discriminate|]. cbn [find_name ssum fold_right].
  destruct (beqb (f_name f) kb).
  - intros H. injection H as _ <-. unfold f_shape. lia.
  - intros H. specialize (IH _ _ _ H). unfold ssum in IH. lia.
Qed.

(* ------------------------------------------------------------------ the two specifications *)
Section Agree.
  Variable decode : bytes -> cow.
  Variable pf : bytes -> outcome N.
  Variable cfg : bcfg.
  Notation F := (c_fops cfg).
  Notation tspec_v := (TextDeSpec.spec_v decode pf F).
  Notation ops := (BinDoc.ops_doc cfg).
  Notation bwalk := (walk F ops).
  Notation shv := (shared_v decode pf cfg).
  Notation eok := (enc_ok_v decode cfg).
  Notation dcur := BinDoc.dcur.

  Definition st_pair (st : dcur) (d : dval) : dval * dcur := (d, st).

  (* ---- text side: wrappers ---- *)
  Lemma tspec_opt v s o : tspec_v v (ShOpt s) o = omap DSome (tspec_v v s o).
  Proof. destruct v; cbn [spec_v unwrap]; destruct (unwrap s) as [w core]; reflexivity. Qed.

  Lemma tspec_ign v o : tspec_v v ShIgn o = Ok DIgn.
  Proof. destruct v; reflexivity. Qed.

  Definition is_core (sh : shape) : Prop := match sh with ShOpt _ | ShProp _ => False | _ => True end.
  Lemma unwrap_core sh : is_core sh -> unwrap sh = ([], sh).
  Proof. destruct sh; cbn [is_core]; try contradiction; reflexivity. Qed.

  Lemma tspec_scalar k raw sh o : is_core sh -> sh <> ShIgn ->
    tspec_v (TextDoc.VScalar k raw) sh o = spec_scalar decode pf F sh raw.
  Proof. intros Hc Hi. cbn [spec_v]. rewrite (unwrap_core sh Hc). cbn [rewrap]. destruct sh; try reflexivity; cbn [is_core] in Hc; contradiction. Qed.

  Lemma tspec_seq items s o : tspec_v (TextDoc.VArray items) (ShSeq s) o = omap DSeq (spec_items decode pf F items s).
  Proof. reflexivity. Qed.
  Lemma tspec_tup items ss o : tspec_v (TextDoc.VArray items) (ShTup ss) o = omap DSeq (spec_tuple decode pf F items ss).
  Proof. reflexivity. Qed.
  Lemma tspec_map fs s o : tspec_v (TextDoc.VObject fs TextDoc.VNil) (ShMap s) o =
    (do a <- spec_fields decode pf F fs (WMap s) (acc0 (WMap s)); finish (WMap s) a).
  Proof. reflexivity. Qed.
  Lemma tspec_struct fs tk fds o : tspec_v (TextDoc.VObject fs TextDoc.VNil) (ShStruct tk fds) o =
    (do a <- spec_fields decode pf F fs (WStruct tk fds) (acc0 (WStruct tk fds)); finish (WStruct tk fds) a).
  Proof. reflexivity. Qed.

  Lemma spec_items_cons v vs s : spec_items decode pf F (TextDoc.VCons v vs) s =
    (do x <- tspec_v v s None; do r <- spec_items decode pf F vs s; Ok (x :: r)).
  Proof. reflexivity. Qed.
  Lemma spec_tuple_cons v vs s ss : spec_tuple decode pf F (TextDoc.VCons v vs) (s :: ss) =
    (do x <- tspec_v v s None; do r <- spec_tuple decode pf F vs ss; Ok (x :: r)).
  Proof. reflexivity. Qed.
  Lemma spec_fields_cons k key op v fs m a : spec_fields decode pf F (TextDoc.FCons (TextDoc.Field k key op v) fs) m a =
    (do r <- entry (fun sh' (_ : unit) (_ : unit) => omap (fun d => (d, tt)) (tspec_v v sh' (Some (op_or_equal op))))
                   (fun _ _ => Err EC_UNFIT) m a (cow_bytes (decode key)) (is_ok (to_u64 key)) tt tt;
     spec_fields decode pf F fs m (fst r)).
  Proof. reflexivity. Qed.

  (* ---- binary side: one step of the walk ---- *)
  Lemma bwalk_opt f s tok st : bwalk (S f) false (ShOpt s) tok st = (do (v, st') <- bwalk f false s tok st; Ok (DSome v, st')).
  Proof. reflexivity. Qed.

  Lemma bwalk_plain f iskey sh tok st : match sh with ShOpt _ | ShEnum _ | ShProp _ => False | _ => True end ->
    bwalk (S f) iskey sh tok st = walk_plain F ops (bwalk f) f iskey sh tok st.
  Proof. destruct sh; try contradiction; reflexivity. Qed.

  Lemma bwalk_ign f v st : bwalk (S f) false ShIgn v st = Ok (DIgn, st).
  Proof.
    rewrite bwalk_plain by exact I. unfold walk_plain. cbn [hint_of p_dispatch ops BinDoc.ops_doc].
    destruct v as [s|c|vs|fs g]; cbn [BinDoc.doc_dispatch]; try reflexivity.
  Qed.

  Lemma dispatch_scalar iskey h s st : h <> HIgnored -> (h = HU16 -> forall id, s <> BinDoc.SId id) ->
    BinDoc.doc_dispatch cfg iskey h (BinDoc.VScalar s) st = (do p <- BinDoc.scalar_prim cfg s; Ok (APrim p, st)).
  Proof.
    intros H1 H2. destruct h; try congruence; try reflexivity.
    destruct s; try reflexivity. exfalso. eapply H2; reflexivity.
  Qed.

  (* ---- scalars ---- *)
  Lemma walk_scalar_plain f core s st :
    match core with ShOpt _ | ShEnum _ | ShProp _ => False | _ => True end ->
    hint_of core <> HIgnored -> (hint_of core = HU16 -> forall id, s <> BinDoc.SId id) ->
    bwalk (S f) false core (BinDoc.VScalar s) st = omap (st_pair st) (bin_visit cfg core s).
  Proof.
    intros Hp H1 H2. rewrite bwalk_plain by exact Hp. unfold walk_plain. cbn [p_dispatch ops BinDoc.ops_doc].
    rewrite dispatch_scalar by assumption. unfold bin_visit.
    destruct (BinDoc.scalar_prim cfg s) as [p| | | |]; cbn [obind omap]; try reflexivity.
  Qed.

  Lemma scalar_hint core c l : scalar_shared decode pf cfg core l ->
    hint_of core <> HIgnored /\ (hint_of core = HU16 -> forall id, bin_scalar c l <> BinDoc.SId id).
  Proof.
    intros H. split.
    - destruct l; destruct core; cbn [scalar_shared] in H; try tauto; cbn [hint_of]; try discriminate;
        repeat match goal with |- context [if ?b then _ else _] => destruct b end; discriminate.
    - intros Hh id. destruct l as [z|b|k s|y m d wide q|raw p32 p64]; cbn [bin_scalar].
      + destruct (ch_int c); discriminate.
      + discriminate.
      + destruct core; cbn [scalar_shared] in H; try contradiction; cbn [hint_of] in Hh; try discriminate.
        * destruct H as [Hb _]. destruct (bits =? 8); [discriminate|]. destruct (bits =? 16) eqn:E; [apply N.eqb_eq in E; contradiction|].
          destruct (bits =? 32); discriminate.
        * repeat match type of Hh with context [if ?b then _ else _] => destruct b end; discriminate.
      + destruct core; cbn [scalar_shared] in H; try contradiction. discriminate.
      + destruct core; cbn [scalar_shared] in H; try contradiction; discriminate.
  Qed.

  Lemma walk_scalar f core c l st o :
    is_core core -> core <> ShIgn -> scalar_shared decode pf cfg core l -> scalar_enc_ok decode cfg c l ->
    bwalk (S f) false core (BinDoc.VScalar (bin_scalar c l)) st = omap (st_pair st) (tspec_v (to_text_val (LScalar l)) core o).
  Proof.
    intros Hc Hi Hs He. cbn [to_text_val]. rewrite tspec_scalar by assumption.
    destruct (scalar_hint core c l Hs) as [H1 H2].
    assert (Hen : (exists names, core = ShEnum names) \/ forall names, core <> ShEnum names).
    { destruct core; try (right; discriminate). left. eauto. }
    destruct Hen as [[names ->]|Hne].
    - destruct l; cbn [scalar_shared] in Hs; try tauto. cbn [text_scalar snd bin_scalar scalar_enc_ok] in *.
      cbn [walk]. unfold walk_enum. cbn [p_dispatch ops BinDoc.ops_doc].
      rewrite dispatch_scalar by (try discriminate). rewrite (str_prim_ok decode cfg _ _ _ He). cbn [obind spec_scalar].
      unfold tvisit_variant, pstr. cbn [sprim]. fold (tdec decode (text_raw k s)).
      destruct (visit_variant names (PStr (tdec decode (text_raw k s)))); reflexivity.
    - rewrite walk_scalar_plain; [| |assumption|apply H2].
      + rewrite <- (scalar_agree decode pf cfg core c l Hne Hs He).
        f_equal. unfold text_visit.
        destruct l; destruct core; cbn [scalar_shared] in Hs; try tauto; try (exfalso; eapply Hne; reflexivity); reflexivity.
      + destruct core; try exact I; cbn [is_core] in Hc; try contradiction. exfalso. eapply Hne. reflexivity.
  Qed.

  (* ---- the statement proved by induction on the logical value ---- *)
  Definition agree_at (v : lval) : Prop :=
    forall sh e fuel st o, shv sh v -> eok e v -> (bsize sh + lsize v <= fuel)%nat ->
      bwalk fuel false sh (to_bin_val e v) st = omap (st_pair st) (tspec_v (to_text_val v) sh o).

  Notation elem := (elem_of ops).
  Notation keyf := (key_of ops).
  Notation valf := (value_of ops).

  Lemma seq_loop_agree f s vs : Forall agree_at vs ->
    forall n e i acc, shared_seq decode pf cfg s vs -> enc_ok_vals decode cfg e i vs ->
      (bsize s + lsize_vals vs <= f)%nat -> (length vs < n)%nat ->
      seq_loop (elem (bwalk f)) n s (BinDoc.CSeq (to_bin_vals e i vs)) acc
      = omap (fun r => (rev acc ++ r, BinDoc.CDone)) (spec_items decode pf F (to_text_vals vs) s).
  Proof.
    induction 1 as [|x r Hx Hr IH]; intros n e i acc Hs He Hf Hn; (destruct n as [|n]; [cbn [length] in Hn; lia|]).
    - cbn. rewrite app_nil_r. reflexivity.
    - cbn [shared_seq enc_ok_vals lsize_vals length to_bin_vals to_text_vals] in *.
      destruct Hs as [Hs1 Hs2]. destruct He as [He1 He2].
      cbn [seq_loop]. unfold elem_of at 1. cbn [p_next_elem ops BinDoc.ops_doc BinDoc.doc_next_elem obind].
      rewrite (Hx s (sub e i) f _ None Hs1 He1) by lia.
      rewrite spec_items_cons. destruct (tspec_v (to_text_val x) s None) as [d| | | |]; unfold st_pair; cbn [omap obind]; try reflexivity.
      rewrite (IH n e (S i) (d :: acc) Hs2 He2) by lia.
      destruct (spec_items decode pf F (to_text_vals r) s); cbn [omap obind rev]; try reflexivity.
      rewrite <- app_assoc. reflexivity.
  Qed.

  Lemma tup_loop_agree f vs : Forall agree_at vs ->
    forall ss e i acc, shared_tup decode pf cfg vs ss -> enc_ok_vals decode cfg e i vs ->
      (fold_right (fun s n => (bsize s + n)%nat) 0%nat ss + lsize_vals vs <= f)%nat ->
      tup_loop (elem (bwalk f)) ss (BinDoc.CSeq (to_bin_vals e i vs)) acc
      = omap (fun r => (rev acc ++ r, BinDoc.CSeq [])) (spec_tuple decode pf F (to_text_vals vs) ss).
  Proof.
    induction 1 as [|x r Hx Hr IH]; intros ss e i acc Hs He Hf.
    - destruct ss as [|s ss]; cbn; [rewrite app_nil_r|]; reflexivity.
    - destruct ss as [|s ss]; [contradiction|].
      cbn [shared_tup enc_ok_vals lsize_vals length to_bin_vals to_text_vals fold_right] in *.
      destruct Hs as [Hs1 Hs2]. destruct He as [He1 He2].
      cbn [tup_loop]. unfold elem_of at 1. cbn [p_next_elem ops BinDoc.ops_doc BinDoc.doc_next_elem obind].
      rewrite (Hx s (sub e i) f _ None Hs1 He1) by lia.
      rewrite spec_tuple_cons. destruct (tspec_v (to_text_val x) s None) as [d| | | |]; unfold st_pair; cbn [omap obind]; try reflexivity.
      rewrite (IH ss e (S i) (d :: acc) Hs2 He2) by lia.
      destruct (spec_tuple decode pf F (to_text_vals r) ss); cbn [omap obind rev]; try reflexivity.
      rewrite <- app_assoc. reflexivity.
  Qed.

  (* the key of a field, read as a string / a field name *)
  Lemma key_prim e i fl : key_ok decode cfg e i fl ->
    BinDoc.scalar_prim cfg (bin_str (ch_key (e [i])) (lf_key fl)) = Ok (PStr (tdec decode (text_raw (lf_kind fl) (lf_key fl)))).
  Proof. apply str_prim_ok. Qed.

  Lemma key_str_walk f e i fl st : key_ok decode cfg e i fl ->
    bwalk (S f) true ShStr (BinDoc.VScalar (bin_str (ch_key (e [i])) (lf_key fl))) st
    = Ok (DStr (tdec decode (text_raw (lf_kind fl) (lf_key fl))), st).
  Proof.
    intros Hk. rewrite bwalk_plain by exact I. unfold walk_plain. cbn [hint_of p_dispatch ops BinDoc.ops_doc].
    rewrite dispatch_scalar by discriminate. rewrite (key_prim e i fl Hk). reflexivity.
  Qed.

  Lemma map_loop_agree f s fs : Forall (fun fl => agree_at (lf_val fl)) fs ->
    forall n e i g acc am sl rt, shared_map decode pf cfg s fs -> enc_ok_fields decode cfg e i fs ->
      (bsize s + lsize_fields fs <= f)%nat -> (1 <= f)%nat -> (length fs < n)%nat ->
      map_loop (keyf (bwalk f) rt) (valf (bwalk f)) n s (BinDoc.CMap (to_bin_fields e i fs) g None) acc
      = omap (fun a => (rev (a_map a), BinDoc.CDone)) (spec_fields decode pf F (to_text_fields fs) (WMap s) (mkacc acc am sl)).
  Proof.
    induction 1 as [|x r Hx Hr IH]; intros n e i g acc am sl rt Hs He Hf H1 Hn; (destruct n as [|n]; [cbn [length] in Hn; lia|]).
    - reflexivity.
    - cbn [shared_map enc_ok_fields lsize_fields length to_bin_fields to_text_fields] in *.
      destruct Hs as [Hs1 Hs2]. destruct He as [[Hk He1] He2].
      destruct f as [|f']; [lia|].
      cbn [map_loop]. unfold key_of at 1.
      cbn [p_next_key ops BinDoc.ops_doc BinDoc.doc_next_key obind bin_field BinDoc.bf_key BinDoc.bf_val fst snd].
      rewrite (key_str_walk f' e i x _ Hk). cbn [obind].
      unfold value_of at 1. cbn [p_next_value ops BinDoc.ops_doc BinDoc.doc_next_value obind].
      rewrite (Hx s (sub e i) (S f') _ (Some Equal) Hs1 He1) by lia.
      unfold to_text_field. rewrite spec_fields_cons. cbn [entry op_or_equal].
      destruct (tspec_v (to_text_val (lf_val x)) s (Some Equal)) as [d| | | |]; unfold st_pair; cbn [omap obind]; try reflexivity.
      cbn [fst a_map a_amap a_slots].
      apply (IH n e (S i) g _ am sl rt Hs2 He2); lia.
  Qed.

  (* the struct accumulators keep one slot per declared field *)
  Lemma entry_struct_len tk fds (rec : shape -> unit -> unit -> outcome (dval * unit)) rop a kb knum r :
    entry rec rop (WStruct tk fds) a kb knum tt tt = Ok r -> length (a_slots (fst r)) = length (a_slots a).
  Proof.
    cbn [entry]. destruct (tk && knum); [discriminate|].
    destruct (find_name fds kb 0) as [[j fd]|].
    - destruct (f_mode fd); [destruct (slot_full a j); [discriminate|]| |];
        destruct (rec (f_shape fd) tt tt) as [[v s']| | | |]; cbn [obind]; try discriminate;
        intros H; injection H as <-; cbn [fst slot_set slot_push a_slots]; apply upd_length.
    - destruct (rec ShIgn tt tt) as [[v s']| | | |]; cbn [obind]; try discriminate. intros H; injection H as <-. reflexivity.
  Qed.

  Lemma spec_fields_len tk fds fs : forall a a', spec_fields decode pf F fs (WStruct tk fds) a = Ok a' ->
    length (a_slots a') = length (a_slots a).
  Proof.
    induction fs as [|fl fs IH]; intros a a'.
    - intros H. injection H as <-. reflexivity.
    - destruct fl as [k key op v| |]; try discriminate. rewrite spec_fields_cons.
      destruct (entry _ _ (WStruct tk fds) a _ _ tt tt) as [r| | | |] eqn:E; cbn [obind]; try discriminate.
      intros H. rewrite (IH _ _ H). eapply entry_struct_len. exact E.
  Qed.

  Lemma struct_loop_agree f fds fs : Forall (fun fl => agree_at (lf_val fl)) fs ->
    forall n e i g a rt, shared_struct decode pf cfg fds fs -> enc_ok_fields decode cfg e i fs ->
      (ssum fds + lsize_fields fs <= f)%nat -> (1 <= f)%nat -> (length fs < n)%nat ->
      struct_loop (keyf (bwalk f) rt) (valf (bwalk f)) n false fds (BinDoc.CMap (to_bin_fields e i fs) g None) (bsl a)
      = omap (fun a' => (bsl a', BinDoc.CDone)) (spec_fields decode pf F (to_text_fields fs) (WStruct false fds) a).
  Proof.
    induction 1 as [|x r Hx Hr IH]; intros n e i g a rt Hs He Hf H1 Hn; (destruct n as [|n]; [cbn [length] in Hn; lia|]).
    - reflexivity.
    - cbn [shared_struct enc_ok_fields lsize_fields length to_bin_fields to_text_fields] in *.
      destruct Hs as [Hs1 Hs2]. destruct He as [[Hk He1] He2].
      destruct f as [|f']; [lia|].
      cbn [struct_loop]. unfold key_of at 1.
      cbn [p_next_key p_dispatch ops BinDoc.ops_doc BinDoc.doc_next_key obind bin_field BinDoc.bf_key BinDoc.bf_val fst snd].
      rewrite dispatch_scalar by discriminate. rewrite (key_prim e i x Hk). cbn [obind visit_field].
      rewrite field_by_name_find.
      unfold to_text_field. rewrite spec_fields_cons. cbn [entry andb op_or_equal].
      fold (tdec decode (text_raw (lf_kind x) (lf_key x))).
      destruct (find_name fds (tdec decode (text_raw (lf_kind x) (lf_key x))) 0) as [[j fd]|] eqn:Ef; cbn [option_map fst].
      + destruct (find_name_nth _ _ _ _ _ Ef) as [_ Hnth]. rewrite Nat.sub_0_r in Hnth. rewrite Hnth.
        pose proof (find_name_size _ _ _ _ _ Ef) as Hsz.
        unfold value_of at 1. cbn [p_next_value ops BinDoc.ops_doc BinDoc.doc_next_value obind].
        assert (Hv : bwalk (S f') false (f_shape fd) (to_bin_val (sub e i) (lf_val x)) (BinDoc.CMap (to_bin_fields e (S i) r) g None)
                     = omap (st_pair (BinDoc.CMap (to_bin_fields e (S i) r) g None)) (tspec_v (to_text_val (lf_val x)) (f_shape fd) (Some Equal)))
          by (apply Hx; [exact Hs1|exact He1|lia]).
        destruct (f_mode fd) eqn:Em.
        * rewrite slot_pre_once. destruct (slot_full a j); [reflexivity|]. cbn [obind].
          rewrite Hv. destruct (tspec_v (to_text_val (lf_val x)) (f_shape fd) (Some Equal)) as [d| | | |]; unfold st_pair; cbn [omap obind]; try reflexivity.
          rewrite slot_put_set by discriminate. cbn [fst]. apply (IH n e (S i) g _ rt Hs2 He2); lia.
        * cbn [slot_pre obind]. rewrite Hv.
          destruct (tspec_v (to_text_val (lf_val x)) (f_shape fd) (Some Equal)) as [d| | | |]; unfold st_pair; cbn [omap obind]; try reflexivity.
          rewrite slot_put_push. cbn [fst]. apply (IH n e (S i) g _ rt Hs2 He2); lia.
        * cbn [slot_pre obind]. rewrite Hv.
          destruct (tspec_v (to_text_val (lf_val x)) (f_shape fd) (Some Equal)) as [d| | | |]; unfold st_pair; cbn [omap obind]; try reflexivity.
          rewrite slot_put_set by discriminate. cbn [fst]. apply (IH n e (S i) g _ rt Hs2 He2); lia.
      + unfold value_of at 1. cbn [p_next_value ops BinDoc.ops_doc BinDoc.doc_next_value obind].
        rewrite bwalk_ign. rewrite tspec_ign. cbn [omap obind fst]. apply (IH n e (S i) g _ rt Hs2 He2); lia.
  Qed.

  Lemma bsize_pos sh : (1 <= bsize sh)%nat.
  Proof. destruct sh; cbn [BinDeCommon.shape_size]; lia. Qed.

  (* a core (Option-free) shape is handled; Option wrappers follow by induction on the shape *)
  Lemma agree_opt_lift v :
    (forall sh e fuel st o, strip_opt sh = sh -> shv sh v -> eok e v -> (bsize sh + lsize v <= fuel)%nat ->
       bwalk fuel false sh (to_bin_val e v) st = omap (st_pair st) (tspec_v (to_text_val v) sh o)) -> agree_at v.
  Proof.
    intros Hcore sh. induction sh; intros e fuel st o Hs He Hf; try (apply Hcore; [reflexivity|assumption..]).
    apply -> (shared_opt decode pf cfg) in Hs. cbn [BinDeCommon.shape_size] in Hf.
    destruct fuel as [|fuel]; [lia|]. rewrite bwalk_opt, tspec_opt.
    rewrite (IHsh e fuel st o Hs He) by lia.
    destruct (tspec_v (to_text_val v) sh o); reflexivity.
  Qed.

  Theorem val_agree v : agree_at v.
  Proof.
    induction v as [l|c|vs IH|fs IH] using lval_ind'; apply agree_opt_lift; intros sh e fuel st o Hc Hs He Hf;
      (destruct fuel as [|f]; [pose proof (bsize_pos sh); lia|]);
      (destruct (shape_eq_ign sh) as [-> | Hni]; [rewrite bwalk_ign, tspec_ign; reflexivity|]).
    - (* scalar *)
      apply shared_scalar in Hs; [|rewrite Hc; exact Hni]. rewrite Hc in Hs.
      apply walk_scalar; [| assumption | exact Hs | exact He].
      destruct sh; try exact I.
      + exfalso. eapply strip_opt_not_opt. exact Hc.
      + destruct l; cbn [scalar_shared] in Hs; tauto.
    - (* rgb: only ignored *)
      exfalso. cbn [shared_v] in Hs. rewrite Hc in Hs. destruct sh; try contradiction; congruence.
    - (* array *)
      rewrite to_bin_arr, to_text_arr. rewrite lsize_arr in Hf. apply enc_ok_arr in He.
      destruct sh; try (exfalso; cbn [shared_v strip_opt] in Hs; try contradiction; try congruence; eapply strip_opt_not_opt; exact Hc).
      + (* ShSeq *)
        apply shared_seq_eq in Hs. cbn [BinDeCommon.shape_size] in Hf.
        rewrite bwalk_plain by exact I. unfold walk_plain.
        cbn [hint_of p_dispatch ops BinDoc.ops_doc BinDoc.doc_dispatch obind visit_seq].
        rewrite (seq_loop_agree f sh vs IH f e 0%nat [] Hs He) by (pose proof (lsize_vals_len vs); lia).
        rewrite tspec_seq. destruct (spec_items decode pf F (to_text_vals vs) sh); reflexivity.
      + (* ShTup *)
        apply shared_tup_eq in Hs. cbn [BinDeCommon.shape_size] in Hf.
        rewrite bwalk_plain by exact I. unfold walk_plain.
        cbn [hint_of p_dispatch ops BinDoc.ops_doc BinDoc.doc_dispatch obind visit_seq].
        rewrite (tup_loop_agree f vs IH ss e 0%nat [] Hs He) by lia.
        rewrite tspec_tup. destruct (spec_tuple decode pf F (to_text_vals vs) ss); reflexivity.
    - (* object *)
      rewrite to_bin_obj, to_text_obj. rewrite lsize_obj in Hf. apply enc_ok_obj in He. destruct He as [_ He].
      destruct sh; try (exfalso; eapply strip_opt_not_opt; exact Hc);
        try (exfalso; cbn [shared_v strip_opt] in Hs; destruct Hs as [_ Hs]; try contradiction; congruence).
      + (* ShMap *)
        apply shared_map_eq in Hs. destruct Hs as [_ Hs]. cbn [BinDeCommon.shape_size] in Hf.
        rewrite bwalk_plain by exact I. unfold walk_plain.
        cbn [hint_of p_dispatch ops BinDoc.ops_doc BinDoc.doc_dispatch obind visit_map].
        rewrite (map_loop_agree f sh fs IH f e 0%nat _ [] [] [] false Hs He) by (pose proof (lsize_fields_len fs); lia).
        rewrite tspec_map. change (acc0 (WMap sh)) with (mkacc [] [] []).
        destruct (spec_fields decode pf F (to_text_fields fs) (WMap sh) (mkacc [] [] [])); reflexivity.
      + (* ShStruct *)
        destruct token; [exfalso; cbn [shared_v strip_opt] in Hs; tauto|].
        apply shared_struct_eq in Hs. destruct Hs as [_ Hs]. cbn [BinDeCommon.shape_size] in Hf. fold (ssum fields) in Hf.
        rewrite bwalk_plain by exact I. unfold walk_plain.
        cbn [hint_of p_dispatch ops BinDoc.ops_doc BinDoc.doc_dispatch obind visit_map].
        rewrite (bsl_init false fields).
        rewrite (struct_loop_agree f fields fs IH f e 0%nat _ _ false Hs He) by (pose proof (lsize_fields_len fs); lia).
        rewrite tspec_struct.
        destruct (spec_fields decode pf F (to_text_fields fs) (WStruct false fields) (acc0 (WStruct false fields))) as [a'| | | |] eqn:E; try reflexivity.
        cbn [omap obind finish]. unfold bsl. rewrite finish_slots.
        * destruct (finish_fields fields (a_slots a')); reflexivity.
        * rewrite (spec_fields_len _ _ _ _ _ E). cbn [acc0 a_slots]. apply map_length.
  Qed.

  Lemma Forall_agree_fields (d : ldoc) : Forall (fun fl : lfield => agree_at (lf_val fl)) d.
  Proof. apply Forall_forall. intros x _. apply val_agree. Qed.

  (* ---- the root ---- *)
  Theorem spec_agree sh d e fuel :
    shared decode pf cfg sh d -> enc_ok decode cfg e d -> (bsize sh + lsize_fields d < fuel)%nat ->
    TextDeSpec.spec_value decode pf F sh (to_text d)
    = BinDoc.spec_value cfg fuel sh (fst (to_bin e d)) (snd (to_bin e d)).
  Proof.
    intros Hs (_ & _ & He) Hf. unfold BinDoc.spec_value, walk_root, TextDeSpec.spec_value, to_text, to_bin. cbn [fst snd].
    destruct sh; cbn [shared] in Hs; try contradiction.
    - (* map *)
      cbn [BinDeCommon.shape_size] in Hf. cbn [wmode_core visit_map].
      rewrite (map_loop_agree fuel sh d (Forall_agree_fields d) fuel e 0%nat _ [] [] [] true Hs He) by (pose proof (lsize_fields_len d); lia).
      change (acc0 (WMap sh)) with (mkacc [] [] []).
      destruct (spec_fields decode pf F (to_text_fields d) (WMap sh) (mkacc [] [] [])); reflexivity.
    - (* struct *)
      destruct token; [contradiction|].
      cbn [BinDeCommon.shape_size] in Hf. fold (ssum fields) in Hf. cbn [wmode_core visit_map].
      rewrite (bsl_init false fields).
      rewrite (struct_loop_agree fuel fields d (Forall_agree_fields d) fuel e 0%nat _ _ true Hs He) by (pose proof (lsize_fields_len d); lia).
      destruct (spec_fields decode pf F (to_text_fields d) (WStruct false fields) (acc0 (WStruct false fields))) as [a'| | | |] eqn:E; try reflexivity.
      cbn [omap obind finish]. unfold bsl. rewrite finish_slots.
      + destruct (finish_fields fields (a_slots a')); reflexivity.
      + rewrite (spec_fields_len _ _ _ _ _ E). cbn [acc0 a_slots]. apply map_length.
  Qed.
End Agree.
