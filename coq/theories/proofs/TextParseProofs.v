(* text/tape.rs main loop: token-step lemmas on top of `step`, then induction over the document:
   parse (render d l) = Ok (flatten d, bom l). *)
From JV Require Import Bytes Tables TextTok TextTape TextDoc.
From JV.proofs Require Import TextScanProofs.
From Coq Require Import Lia List Arith.
Import ListNotations.
Open Scope nat_scope.

(* ------------------------------------------------------------------ runs of the machine *)
(* potential: the two states from which an iteration may consume no byte *)
Definition phi (st : pst) : nat := match st with SKvs | SOpen => 1 | _ => 0 end.
Definition meas (s : pstate) : nat := 2 * length (pdata s) + phi (pst_ s).

Inductive run : nat -> pstate -> pstate -> Prop :=
| run0 s : run 0 s s
| runS n s s1 s2 : step s = Next s1 -> run n s1 s2 -> run (S n) s s2.

(* states that differ only in white space / comments at the head of the data *)
Definition same_upto_ws (s s' : pstate) : Prop :=
  pst_ s = pst_ s' /\ pmixed s = pmixed s' /\ pparent s = pparent s' /\ ptape s = ptape s' /\
  skip_ws_t (pdata s) = skip_ws_t (pdata s').

Definition reaches (s s' : pstate) : Prop :=
  exists n s'', run n s s'' /\ same_upto_ws s'' s' /\ n + meas s' <= meas s.

Lemma same_upto_ws_refl s : same_upto_ws s s.
Proof. repeat split. Qed.

Lemma same_upto_ws_trans a b c : same_upto_ws a b -> same_upto_ws b c -> same_upto_ws a c.
Proof. unfold same_upto_ws. intuition congruence. Qed.

Lemma step_same s s' : same_upto_ws s s' -> step s = step s'.
Proof.
  destruct s as [d st m p t], s' as [d' st' m' p' t']. unfold same_upto_ws. cbn [pdata pst_ pmixed pparent ptape].
  intros (-> & -> & -> & -> & H). unfold step. cbn [pdata pst_ pmixed pparent ptape]. rewrite H. reflexivity.
Qed.

Lemma run_app n1 n2 a b c : run n1 a b -> run n2 b c -> run (n1 + n2) a c.
Proof. intros H. induction H; intros H2; [exact H2|]. cbn. econstructor; eauto. Qed.

Lemma reaches_refl s : reaches s s.
Proof. exists 0, s. split; [constructor|]. split; [apply same_upto_ws_refl | lia]. Qed.

Lemma reaches_trans a b c : reaches a b -> reaches b c -> reaches a c.
Proof.
  intros (n1 & b' & R1 & E1 & M1) (n2 & c' & R2 & E2 & M2).
  inversion R2; subst.
  - exists n1, b'. split; [exact R1|]. split; [eapply same_upto_ws_trans; eauto | lia].
  - exists (n1 + S n), c'. split.
    + eapply run_app; [exact R1|]. econstructor; [|eassumption]. rewrite (step_same _ _ E1). assumption.
    + split; [exact E2 | lia].
Qed.

Lemma reaches_eq a b b' : reaches a b -> b = b' -> reaches a b'.
Proof. intros H <-. exact H. Qed.

Lemma reaches_step s s1 s' :
  step s = Next s1 -> same_upto_ws s1 s' -> 1 + meas s' <= meas s -> reaches s s'.
Proof.
  intros H E M. exists 1, s1. split; [econstructor; [exact H | constructor]|]. split; assumption.
Qed.

Lemma ploop_run n : forall s s' f, run n s s' -> ploop (n + f) s = ploop f s'.
Proof.
  induction n as [|n IH]; intros s s' f H; inversion H; subst; [reflexivity|].
  cbn [Nat.add ploop]. rewrite H1. apply IH. assumption.
Qed.

Lemma ploop_reaches s s' t fuel :
  reaches s s' -> step s' = Done t -> meas s < fuel -> ploop fuel s = Ok t.
Proof.
  intros (n & s'' & R & E & M) Hd Hf.
  replace fuel with (n + S (fuel - n - 1)) by lia.
  rewrite (ploop_run _ _ _ _ R). cbn [ploop]. rewrite (step_same _ _ E), Hd. reflexivity.
Qed.

(* ------------------------------------------------------------------ first bytes *)
(* first byte of a scalar token: significant and none of the structural bytes the arms test *)
Definition scalar_start (c : N) : bool :=
  significant c && negb (beq c 125) && negb (beq c 93) && negb (beq c 123) && negb (beq c 91) &&
  negb (beq c 60) && negb (beq c 62) && negb (beq c 33) && negb (beq c 61).

Lemma nonboundary_scalar_start c : is_boundary c = false -> c <> 59%N -> scalar_start c = true.
Proof.
  intros H H59. unfold scalar_start, significant, is_ws_t, beq.
  repeat match goal with
  | |- context [N.eqb c ?x] => destruct (N.eqb_spec c x); [subst; (vm_compute in H; discriminate) || congruence |]
  end. reflexivity.
Qed.

Lemma scalar_start_facts c : scalar_start c = true ->
  significant c = true /\ beq c 125 = false /\ beq c 93 = false /\ beq c 123 = false /\ beq c 91 = false /\
  beq c 60 = false /\ beq c 62 = false /\ beq c 33 = false /\ beq c 61 = false.
Proof.
  unfold scalar_start. intros H.
  repeat (apply andb_prop in H; destruct H as [H ?]).
  repeat match goal with H : negb _ = true |- _ => apply Bool.negb_true_iff in H end.
  repeat split; try assumption. unfold significant.
  repeat match goal with H : _ = false |- _ => rewrite H; clear H end. reflexivity.
Qed.

Lemma scalar_start_ne c x : scalar_start c = true -> scalar_start x = false -> c <> x.
Proof. intros H1 H2 ->. congruence. Qed.

Lemma scalar_step_ok k s rest :
  wf_scalar k s = true -> (k = Unq -> starts_boundary rest) ->
  exists c d1, scalar_bytes k s ++ rest = c :: d1 /\ scalar_start c = true /\
               scalar_step (c :: d1) c = Ok (scalar_tok k s, rest).
Proof.
  intros Hwf Hsep. destruct k; cbn [wf_scalar scalar_bytes scalar_tok] in *.
  - specialize (Hsep eq_refl). destruct s as [|c s']; [discriminate|].
    unfold wf_unq in Hwf.
    apply andb_prop in Hwf. destruct Hwf as [Hwf Hall].
    apply andb_prop in Hwf. destruct Hwf as [Hwf Hat].
    apply andb_prop in Hwf. destruct Hwf as [H34 H59].
    apply Bool.negb_true_iff in H34, H59, Hat.
    assert (Hc : is_boundary c = false).
    { cbn [forallb] in Hall. apply andb_prop in Hall. destruct Hall as [Hc _]. apply Bool.negb_true_iff in Hc. exact Hc. }
    exists c, (s' ++ rest). split; [reflexivity|]. split.
    + apply nonboundary_scalar_start; [exact Hc|]. intros ->. discriminate.
    + assert (Hsplit : split_at_scalar (c :: s' ++ rest) = Ok (c :: s', rest)).
      { apply (split_at_scalar_word (c :: s') rest); [discriminate | exact Hall | exact Hsep]. }
      unfold scalar_step, beq. rewrite H34.
      destruct (N.eqb c 64) eqn:E64.
      * destruct s' as [|c1 s'']; [discriminate|].
        cbn [app parse_variable].
        assert (Hc1 : beq c1 91 = false).
        { cbn [forallb] in Hall. apply andb_prop in Hall. destruct Hall as [_ Hall].
          apply andb_prop in Hall. destruct Hall as [Hc1 _]. apply Bool.negb_true_iff in Hc1.
          unfold beq. destruct (N.eqb_spec c1 91); [subst; vm_compute in Hc1; discriminate | reflexivity]. }
        rewrite Hc1. cbn [app] in Hsplit. rewrite Hsplit. reflexivity.
      * rewrite Hsplit. reflexivity.
  - exists 34%N, (s ++ 34%N :: rest). split; [cbn [app]; rewrite <- app_assoc; reflexivity|]. split; [reflexivity|].
    unfold scalar_step. cbn [beq N.eqb Pos.eqb]. rewrite parse_quote_scalar_wf by exact Hwf. reflexivity.
Qed.

(* first byte of a gap followed by something *)
Definition hdP (P : N -> Prop) (l : bytes) : Prop := match l with [] => True | c :: _ => P c end.

Lemma hdP_gap (P : N -> Prop) g rest :
  gap_ok g -> (forall c, is_ws_t c = true -> P c) -> P 35%N -> hdP P rest -> hdP P (g ++ rest).
Proof. intros Hg Hws H35 Hr. destruct Hg; cbn; auto. Qed.

(* ------------------------------------------------------------------ tape helpers *)
Lemma tset_app T x U y : tset (T ++ x :: U) (length T) y = Some (T ++ y :: U).
Proof. induction T as [|a T IH]; cbn [app length tset]; [reflexivity|]. rewrite IH. reflexivity. Qed.

(* ------------------------------------------------------------------ token steps: scalars and operators *)
Ltac use_start H :=
  let Hs := fresh "Hsig" in
  destruct (scalar_start_facts _ H) as (Hs & ?H125 & ?H93 & ?H123 & ?H91 & ?H60 & ?H62 & ?H33 & ?H61).

Lemma step_key_scalar g k s rest m p t :
  gap_ok g -> wf_scalar k s = true -> (k = Unq -> starts_boundary rest) ->
  step (mkps (g ++ scalar_bytes k s ++ rest) SKey m p t) = Next (mkps rest SKvs m p (tpush t (scalar_tok k s))).
Proof.
  intros Hg Hwf Hsep. destruct (scalar_step_ok k s rest Hwf Hsep) as (c & d1 & -> & Hst & Hstep).
  use_start Hst. unfold step. cbn [pdata pst_ pmixed pparent ptape].
  rewrite skip_ws_gap_sig by assumption. rewrite H125, H93, H123, H91. cbn [orb]. rewrite Hstep. reflexivity.
Qed.

Lemma step_objval_scalar g k s rest m p t :
  gap_ok g -> wf_scalar k s = true -> (k = Unq -> starts_boundary rest) ->
  step (mkps (g ++ scalar_bytes k s ++ rest) SObjVal m p t) = Next (mkps rest SKey m p (tpush t (scalar_tok k s))).
Proof.
  intros Hg Hwf Hsep. destruct (scalar_step_ok k s rest Hwf Hsep) as (c & d1 & -> & Hst & Hstep).
  use_start Hst. unfold step. cbn [pdata pst_ pmixed pparent ptape].
  rewrite skip_ws_gap_sig by assumption. rewrite H125, H123. rewrite Hstep. reflexivity.
Qed.

Lemma step_arrval_scalar g k s rest m p t :
  gap_ok g -> wf_scalar k s = true -> (k = Unq -> starts_boundary rest) ->
  step (mkps (g ++ scalar_bytes k s ++ rest) SArrVal m p t) = Next (mkps rest SArrVal m p (tpush t (scalar_tok k s))).
Proof.
  intros Hg Hwf Hsep. destruct (scalar_step_ok k s rest Hwf Hsep) as (c & d1 & -> & Hst & Hstep).
  use_start Hst. unfold step. cbn [pdata pst_ pmixed pparent ptape].
  rewrite skip_ws_gap_sig by assumption. rewrite H125, H123, H60, H62, H33, H61. cbn [orb].
  rewrite Hstep. destruct (beq c 34 || beq c 64); reflexivity.
Qed.

(* the operator after a key in an ordinary object; the next byte must not turn `<` into `<=` etc. *)
Lemma step_kvs_op g o rest p t :
  gap_ok g -> hdP (fun c => c <> 61%N) rest ->
  step (mkps (g ++ op_symbol o ++ rest) SKvs false p t) = Next (mkps rest SObjVal false p (t ++ op_toks false (Some o))).
Proof.
  intros Hg Hr. unfold step. cbn [pdata pst_ pmixed pparent ptape].
  destruct o; cbn [op_symbol app]; rewrite skip_ws_gap_sig by (assumption || reflexivity);
    cbn [op_toks tpush]; rewrite ?app_nil_r;
    try reflexivity;
    (destruct rest as [|c r]; [reflexivity|]; cbn [hdP] in Hr;
     cbn [op2]; destruct c as [|pc]; [reflexivity|];
     repeat (destruct pc as [pc|pc|]; try reflexivity); congruence).
Qed.

(* ------------------------------------------------------------------ rendering facts *)
Lemma render_toks_cons g t ts i : render_toks g (t :: ts) i = g i ++ fst t ++ render_toks g ts (S i).
Proof. reflexivity. Qed.

Lemma hd_render_toks (P : N -> Prop) g ts i :
  (forall j, gap_ok (g j)) -> (forall c, is_ws_t c = true -> P c) -> P 35%N ->
  match ts with [] => True | t :: _ => hdP P (fst t) /\ fst t <> [] end ->
  hdP P (render_toks g ts i).
Proof.
  intros Hg Hws H35 Ht. destruct ts as [|t ts]; cbn [render_toks].
  - rewrite <- (app_nil_r (g i)). apply hdP_gap; auto; exact I.
  - apply hdP_gap; auto. destruct Ht as [Ht Hne]. destruct (fst t); [congruence | exact Ht].
Qed.

Lemma scalar_bytes_hd k s : wf_scalar k s = true ->
  exists c r, scalar_bytes k s = c :: r /\ scalar_start c = true.
Proof.
  intros H. destruct (scalar_step_ok k s [] H) as (c & d1 & E & Hst & _).
  - intros _. exact I.
  - rewrite app_nil_r in E. eauto.
Qed.

(* ------------------------------------------------------------------ stage 1: flat documents *)
Lemma meas_len d st m p t d' st' m' p' t' k :
  length d = k + length d' -> 2 * k >= 1 + phi st' ->
  1 + meas (mkps d' st' m' p' t') <= meas (mkps d st m p t) + phi st' + phi st' - phi st' - phi st'.
Proof. unfold meas. cbn [pdata pst_]. lia. Qed.

Lemma flat_fields_reach : forall fs, flat_doc fs = true -> wf_fields fs = true ->
  forall g i T, (forall j, gap_ok (g j)) -> sep_ok g (toks_fields fs) i ->
  reaches (mkps (render_toks g (toks_fields fs) i) SKey false 0 T)
          (mkps (g (i + length (toks_fields fs))) SKey false 0 (T ++ flat_fields false (length T) fs)).
Proof.
  induction fs as [|f fs IH]; intros Hflat Hwf g i T Hg Hsep.
  - cbn [toks_fields render_toks length flat_fields]. rewrite Nat.add_0_r, app_nil_r. apply reaches_refl.
  - destruct f as [k key [o|] v| |]; try discriminate. destruct v as [k' s| | | |]; try discriminate.
    cbn [flat_doc] in Hflat. cbn [wf_fields wf_field wf_value] in Hwf.
    apply andb_prop in Hwf. destruct Hwf as [Hwf Hwfs].
    apply andb_prop in Hwf. destruct Hwf as [Hwf _].
    apply andb_prop in Hwf. destruct Hwf as [Hkey Hval].
    cbn [toks_fields toks_field toks_value optok app] in *.
    cbn [sep_ok] in Hsep. destruct Hsep as (Hs1 & _ & Hs3 & Hsep).
    destruct (scalar_bytes_hd _ _ Hkey) as (ck & rk & Ek & Hck).
    destruct (scalar_bytes_hd _ _ Hval) as (cv & rv & Ev & Hcv).
    rewrite !render_toks_cons. cbn [fst stok].
    (* key *)
    eapply reaches_trans.
    { eapply reaches_step; [apply step_key_scalar; [apply Hg | exact Hkey |] | apply same_upto_ws_refl |].
      - intros ->. apply Hs1. reflexivity.
      - unfold meas. cbn [pdata pst_ phi]. rewrite !app_length, Ek. cbn [length]. lia. }
    (* operator *)
    eapply reaches_trans.
    { eapply reaches_step; [apply step_kvs_op; [apply Hg|] | apply same_upto_ws_refl |].
      - apply hdP_gap; [apply Hg | | discriminate |].
        + intros c Hc ->. discriminate.
        + rewrite Ev. cbn. intros ->. discriminate.
      - unfold meas. cbn [pdata pst_ phi]. rewrite !app_length. destruct o; cbn [op_symbol length]; lia. }
    (* value *)
    eapply reaches_trans.
    { eapply reaches_step; [apply step_objval_scalar; [apply Hg | exact Hval |] | apply same_upto_ws_refl |].
      - intros ->. apply Hs3. reflexivity.
      - unfold meas. cbn [pdata pst_ phi]. rewrite !app_length, Ev. cbn [length]. lia. }
    (* the remaining fields *)
    eapply reaches_eq; [apply (IH Hflat Hwfs g (S (S (S i))) _ Hg Hsep)|].
    cbn [flat_fields flat_field flat_value length]. unfold tpush.
    rewrite !app_length. cbn [length]. rewrite <- !app_assoc. cbn [app]. rewrite <- !app_assoc. cbn [app].
    f_equal; [f_equal; lia|]. do 5 f_equal. lia.
Qed.

(* ------------------------------------------------------------------ from a run to `parse` *)
Lemma parse_unfold input :
  parse input =
  omap (fun t => (t, has_bom input))
       (ploop (2 * length input + 8) (mkps (if has_bom input then skipn 3 input else input) SKey false 0 [])).
Proof. reflexivity. Qed.

Lemma step_end g T : gap_ok g -> step (mkps g SKey false 0 T) = Done T.
Proof.
  intros Hg. unfold step. cbn [pdata pst_ pmixed pparent ptape]. rewrite skip_ws_gap_end by exact Hg. reflexivity.
Qed.

Lemma parse_of_reaches d l n T :
  wf_layout d l ->
  reaches (mkps (render_toks (gap l) (toks_fields d) 0) SKey false 0 [])
          (mkps (gap l n) SKey false 0 T) ->
  parse (render d l) = Ok (T, bom l).
Proof.
  intros (Hg & _ & Hbom) Hr. rewrite parse_unfold. unfold render in *.
  destruct (bom l) eqn:Eb.
  - cbn [bom_bytes app has_bom skipn length].
    erewrite ploop_reaches; [reflexivity | exact Hr | apply step_end, Hg |].
    unfold meas. cbn [pdata pst_ phi]. lia.
  - cbn [app] in *. rewrite (Hbom eq_refl).
    erewrite ploop_reaches; [reflexivity | exact Hr | apply step_end, Hg |].
    unfold meas. cbn [pdata pst_ phi]. lia.
Qed.

Theorem parse_render_flat : forall d l,
  flat_doc d = true -> wf_doc d -> wf_layout d l -> parse (render d l) = Ok (flatten d, bom l).
Proof.
  intros d l Hflat Hwf Hl. eapply parse_of_reaches; [exact Hl|].
  destruct Hl as (Hg & Hsep & _).
  apply (flat_fields_reach d Hflat Hwf (gap l) 0 [] Hg Hsep).
Qed.
