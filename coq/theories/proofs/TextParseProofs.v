(* text/tape.rs main loop: token-step lemmas on top of `step`, then induction over the document:
   parse (render d l) = Ok (flatten d, bom l). *)
From JV Require Import Bytes Tables TextTok TextTape TextDoc.
From JV.proofs Require Import TextScanProofs.
From Coq Require Import Lia List Arith.
Import ListNotations.
Open Scope nat_scope.

(* ------------------------------------------------------------------ runs of the machine *)
(* potential: the two states from which an iteration may consume no byte *)
Definition phi (st : pst) : nat := match st with SKvs | SOpen => 1 | _ => 0 end.
Definition meas (s : pstate) : nat := 2 * length (pdata s) + phi (pst_ s).

Inductive run : nat -> pstate -> pstate -> Prop :=
| run0 s : run 0 s s
| runS n s s1 s2 : step s = Next s1 -> run n s1 s2 -> run (S n) s s2.

(* states that differ only in white space / comments at the head of the data *)
Definition same_upto_ws (s s' : pstate) : Prop :=
  pst_ s = pst_ s' /\ pmixed s = pmixed s' /\ pparent s = pparent s' /\ ptape s = ptape s' /\
  skip_ws_t (pdata s) = skip_ws_t (pdata s').

Definition reaches (s s' : pstate) : Prop :=
  exists n s'', run n s s'' /\ same_upto_ws s'' s' /\ n + meas s' <= meas s.

Lemma same_upto_ws_refl s : same_upto_ws s s.
Proof. repeat split. Qed.

Lemma same_upto_ws_trans a b c : same_upto_ws a b -> same_upto_ws b c -> same_upto_ws a c.
Proof. unfold same_upto_ws. intuition congruence. Qed.

Lemma step_same s s' : same_upto_ws s s' -> step s = step s'.
Proof.
  destruct s as [d st m p t], s' as [d' st' m' p' t']. unfold same_upto_ws. cbn [pdata pst_ pmixed pparent ptape].
  intros (-> & -> & -> & -> & H). unfold step. cbn [pdata pst_ pmixed pparent ptape]. rewrite H. reflexivity.
Qed.

Lemma run_app n1 n2 a b c : run n1 a b -> run n2 b c -> run (n1 + n2) a c.
Proof. intros H. induction H; intros H2; [exact H2|]. cbn. econstructor; eauto. Qed.

Lemma reaches_refl s : reaches s s.
Proof. exists 0, s. split; [constructor|]. split; [apply same_upto_ws_refl | lia]. Qed.

Lemma reaches_trans a b c : reaches a b -> reaches b c -> reaches a c.
Proof.
  intros (n1 & b' & R1 & E1 & M1) (n2 & c' & R2 & E2 & M2).
  inversion R2; subst.
  - exists n1, b'. split; [exact R1|]. split; [eapply same_upto_ws_trans; eauto | lia].
  - exists (n1 + S n), c'. split.
    + eapply run_app; [exact R1|]. econstructor; [|eassumption]. rewrite (step_same _ _ E1). assumption.
    + split; [exact E2 | lia].
Qed.

Lemma reaches_eq a b b' : reaches a b -> b = b' -> reaches a b'.
Proof. intros H <-. exact H. Qed.

Lemma reaches_step s s1 s' :
  step s = Next s1 -> same_upto_ws s1 s' -> 1 + meas s' <= meas s -> reaches s s'.
Proof.
  intros H E M. exists 1, s1. split; [econstructor; [exact H | constructor]|]. split; assumption.
Qed.

Lemma ploop_run n : forall s s' f, run n s s' -> ploop (n + f) s = ploop f s'.
Proof.
  induction n as [|n IH]; intros s s' f H; inversion H; subst; [reflexivity|].
  cbn [Nat.add ploop]. rewrite H1. apply IH. assumption.
Qed.

Lemma ploop_reaches s s' t fuel :
  reaches s s' -> step s' = Done t -> meas s < fuel -> ploop fuel s = Ok t.
Proof.
  intros (n & s'' & R & E & M) Hd Hf.
  replace fuel with (n + S (fuel - n - 1)) by lia.
  rewrite (ploop_run _ _ _ _ R). cbn [ploop]. rewrite (step_same _ _ E), Hd. reflexivity.
Qed.

(* ------------------------------------------------------------------ first bytes *)
(* first byte of a scalar token: significant and none of the structural bytes the arms test *)
Definition scalar_start (c : N) : bool :=
  significant c && negb (beq c 125) && negb (beq c 93) && negb (beq c 123) && negb (beq c 91) &&
  negb (beq c 60) && negb (beq c 62) && negb (beq c 33) && negb (beq c 61).

Lemma nonboundary_scalar_start c : is_boundary c = false -> c <> 59%N -> scalar_start c = true.
Proof.
  intros H H59. unfold scalar_start, significant, is_ws_t, beq.
  repeat match goal with
  | |- context [N.eqb c ?x] => destruct (N.eqb_spec c x); [subst; (vm_compute in H; discriminate) || congruence |]
  end. reflexivity.
Qed.

Lemma scalar_start_facts c : scalar_start c = true ->
  significant c = true /\ beq c 125 = false /\ beq c 93 = false /\ beq c 123 = false /\ beq c 91 = false /\
  beq c 60 = false /\ beq c 62 = false /\ beq c 33 = false /\ beq c 61 = false.
Proof.
  unfold scalar_start. intros H.
  repeat (apply andb_prop in H; destruct H as [H ?]).
  repeat match goal with H : negb _ = true |- _ => apply Bool.negb_true_iff in H end.
  repeat split; try assumption. unfold significant.
  repeat match goal with H : _ = false |- _ => rewrite H; clear H end. reflexivity.
Qed.

Lemma scalar_start_ne c x : scalar_start c = true -> scalar_start x = false -> c <> x.
Proof. intros H1 H2 ->. congruence. Qed.

Lemma find_idx_cons_false (p : N -> bool) c l k : p c = false -> find_idx p (c :: l) k = find_idx p l (S k).
Proof. intros H. cbn [find_idx]. rewrite H. reflexivity. Qed.

Lemma closes_at_end_find r : forall rest k, closes_at_end r = true ->
  find_idx (fun b => beq b 93) (r ++ rest) k = Some (k + length r - 1).
Proof.
  induction r as [|c r IH]; intros rest k H; [discriminate|].
  cbn [closes_at_end] in H. destruct r as [|c' r'].
  - cbn [app find_idx length]. unfold beq. rewrite H. f_equal. lia.
  - apply andb_prop in H. destruct H as [Hc Hr]. apply Bool.negb_true_iff in Hc.
    change ((c :: c' :: r') ++ rest) with (c :: ((c' :: r') ++ rest)).
    rewrite find_idx_cons_false by exact Hc.
    rewrite IH by exact Hr. cbn [length]. f_equal. lia.
Qed.

Lemma closes_at_end_len r : closes_at_end r = true -> 1 <= length r.
Proof. destruct r; [discriminate | cbn; lia]. Qed.

Lemma wf_word_unq s : wf_word s = true -> wf_unq s = true.
Proof. intros H. unfold wf_unq. rewrite H. reflexivity. Qed.

Lemma scalar_step_ok k s rest :
  wf_scalar k s = true -> (k = Unq -> starts_boundary rest) ->
  exists c d1, scalar_bytes k s ++ rest = c :: d1 /\ scalar_start c = true /\
               scalar_step (c :: d1) c = Ok (scalar_tok k s, rest).
Proof.
  intros Hwf Hsep. destruct k; cbn [wf_scalar scalar_bytes scalar_tok] in *.
  - specialize (Hsep eq_refl). unfold wf_unq in Hwf. apply Bool.orb_true_iff in Hwf. destruct Hwf as [Hwf|Hwf].
    + destruct s as [|c s']; [discriminate|].
      unfold wf_word in Hwf.
      apply andb_prop in Hwf. destruct Hwf as [Hwf Hall].
      apply andb_prop in Hwf. destruct Hwf as [Hwf Hat].
      apply andb_prop in Hwf. destruct Hwf as [H34 H59].
      apply Bool.negb_true_iff in H34, H59, Hat.
      assert (Hc : is_boundary c = false).
      { cbn [forallb] in Hall. apply andb_prop in Hall. destruct Hall as [Hc _]. apply Bool.negb_true_iff in Hc. exact Hc. }
      exists c, (s' ++ rest). split; [reflexivity|]. split.
      * apply nonboundary_scalar_start; [exact Hc|]. intros ->. discriminate.
      * assert (Hsplit : split_at_scalar (c :: s' ++ rest) = Ok (c :: s', rest)).
        { apply (split_at_scalar_word (c :: s') rest); [discriminate | exact Hall | exact Hsep]. }
        unfold scalar_step, beq. rewrite H34.
        destruct (N.eqb c 64) eqn:E64.
        -- destruct s' as [|c1 s'']; [discriminate|].
           cbn [app parse_variable].
           assert (Hc1 : beq c1 91 = false).
           { cbn [forallb] in Hall. apply andb_prop in Hall. destruct Hall as [_ Hall].
             apply andb_prop in Hall. destruct Hall as [Hc1 _]. apply Bool.negb_true_iff in Hc1.
             unfold beq. destruct (N.eqb_spec c1 91); [subst; vm_compute in Hc1; discriminate | reflexivity]. }
           rewrite Hc1. cbn [app] in Hsplit. rewrite Hsplit. reflexivity.
        -- rewrite Hsplit. reflexivity.
    + (* @[ body ] *)
      unfold wf_varexpr in Hwf.
      destruct s as [|c0 s0]; [discriminate|]. destruct c0 as [|p0]; [discriminate|].
      do 7 (destruct p0 as [p0|p0|]; try discriminate).
      destruct s0 as [|c1 r]; [discriminate|]. destruct c1 as [|p1]; [discriminate|].
      do 7 (destruct p1 as [p1|p1|]; try discriminate).
      exists 64%N, (91%N :: r ++ rest). split; [reflexivity|]. split; [reflexivity|].
      unfold scalar_step. cbn [beq N.eqb Pos.eqb]. cbn [parse_variable]. cbn [beq N.eqb Pos.eqb].
      rewrite closes_at_end_find by exact Hwf. pose proof (closes_at_end_len r Hwf) as Hl.
      replace (S (2 + length r - 1)) with (length (64%N :: 91%N :: r)) by (cbn [length]; lia).
      change (64%N :: 91%N :: r ++ rest) with ((64%N :: 91%N :: r) ++ rest).
      rewrite firstn_app, Nat.sub_diag, firstn_all, skipn_app, Nat.sub_diag, skipn_all. cbn [firstn skipn app]. rewrite app_nil_r. reflexivity.
  - exists 34%N, (s ++ 34%N :: rest). split; [cbn [app]; rewrite <- app_assoc; reflexivity|]. split; [reflexivity|].
    unfold scalar_step. cbn [beq N.eqb Pos.eqb]. rewrite parse_quote_scalar_wf by exact Hwf. reflexivity.
Qed.

(* first byte of a gap followed by something *)
Definition hdP (P : N -> Prop) (l : bytes) : Prop := match l with [] => True | c :: _ => P c end.

Lemma hdP_gap (P : N -> Prop) g rest :
  gap_ok g -> (forall c, is_ws_t c = true -> P c) -> P 35%N -> hdP P rest -> hdP P (g ++ rest).
Proof. intros Hg Hws H35 Hr. destruct Hg; cbn; auto. Qed.

(* ------------------------------------------------------------------ tape helpers *)
Lemma tset_app T x U y : tset (T ++ x :: U) (length T) y = Some (T ++ y :: U).
Proof. induction T as [|a T IH]; cbn [app length tset]; [reflexivity|]. rewrite IH. reflexivity. Qed.

(* ------------------------------------------------------------------ token steps: scalars and operators *)
Ltac use_start H :=
  let Hs := fresh "Hsig" in
  destruct (scalar_start_facts _ H) as (Hs & ?H125 & ?H93 & ?H123 & ?H91 & ?H60 & ?H62 & ?H33 & ?H61).

Lemma step_key_scalar g k s rest m p t :
  gap_ok g -> wf_scalar k s = true -> (k = Unq -> starts_boundary rest) ->
  step (mkps (g ++ scalar_bytes k s ++ rest) SKey m p t) = Next (mkps rest SKvs m p (tpush t (scalar_tok k s))).
Proof.
  intros Hg Hwf Hsep. destruct (scalar_step_ok k s rest Hwf Hsep) as (c & d1 & -> & Hst & Hstep).
  use_start Hst. unfold step. cbn [pdata pst_ pmixed pparent ptape].
  rewrite skip_ws_gap_sig by assumption. rewrite H125, H93, H123, H91. cbn [orb]. rewrite Hstep. reflexivity.
Qed.

Lemma step_objval_scalar g k s rest m p t :
  gap_ok g -> wf_scalar k s = true -> (k = Unq -> starts_boundary rest) ->
  step (mkps (g ++ scalar_bytes k s ++ rest) SObjVal m p t) = Next (mkps rest SKey m p (tpush t (scalar_tok k s))).
Proof.
  intros Hg Hwf Hsep. destruct (scalar_step_ok k s rest Hwf Hsep) as (c & d1 & -> & Hst & Hstep).
  use_start Hst. unfold step. cbn [pdata pst_ pmixed pparent ptape].
  rewrite skip_ws_gap_sig by assumption. rewrite H125, H123. rewrite Hstep. reflexivity.
Qed.

Lemma step_arrval_scalar g k s rest m p t :
  gap_ok g -> wf_scalar k s = true -> (k = Unq -> starts_boundary rest) ->
  step (mkps (g ++ scalar_bytes k s ++ rest) SArrVal m p t) = Next (mkps rest SArrVal m p (tpush t (scalar_tok k s))).
Proof.
  intros Hg Hwf Hsep. destruct (scalar_step_ok k s rest Hwf Hsep) as (c & d1 & -> & Hst & Hstep).
  use_start Hst. unfold step. cbn [pdata pst_ pmixed pparent ptape].
  rewrite skip_ws_gap_sig by assumption. rewrite H125, H123, H60, H62, H33, H61. cbn [orb].
  rewrite Hstep. destruct (beq c 34 || beq c 64); reflexivity.
Qed.

(* the operator after a key in an ordinary object; the next byte must not turn `<` into `<=` etc. *)
Lemma step_kvs_op g o rest p t :
  gap_ok g -> hdP (fun c => c <> 61%N) rest ->
  step (mkps (g ++ op_symbol o ++ rest) SKvs false p t) = Next (mkps rest SObjVal false p (t ++ op_toks false (Some o))).
Proof.
  intros Hg Hr. unfold step. cbn [pdata pst_ pmixed pparent ptape].
  destruct o; cbn [op_symbol app]; rewrite skip_ws_gap_sig by (assumption || reflexivity);
    cbn [op_toks tpush]; rewrite ?app_nil_r;
    try reflexivity;
    (destruct rest as [|c r]; [reflexivity|]; cbn [hdP] in Hr;
     cbn [op2]; destruct c as [|pc]; [reflexivity|];
     repeat (destruct pc as [pc|pc|]; try reflexivity); congruence).
Qed.

(* ------------------------------------------------------------------ rendering facts *)
Lemma render_toks_cons g t ts i : render_toks g (t :: ts) i = g i ++ fst t ++ render_toks g ts (S i).
Proof. reflexivity. Qed.

Lemma hd_render_toks (P : N -> Prop) g ts i :
  (forall j, gap_ok (g j)) -> (forall c, is_ws_t c = true -> P c) -> P 35%N ->
  match ts with [] => True | t :: _ => hdP P (fst t) /\ fst t <> [] end ->
  hdP P (render_toks g ts i).
Proof.
  intros Hg Hws H35 Ht. destruct ts as [|t ts]; cbn [render_toks].
  - rewrite <- (app_nil_r (g i)). apply hdP_gap; auto; exact I.
  - apply hdP_gap; auto. destruct Ht as [Ht Hne]. destruct (fst t); [congruence | exact Ht].
Qed.

Lemma scalar_bytes_hd k s : wf_scalar k s = true ->
  exists c r, scalar_bytes k s = c :: r /\ scalar_start c = true.
Proof.
  intros H. destruct (scalar_step_ok k s [] H) as (c & d1 & E & Hst & _).
  - intros _. exact I.
  - rewrite app_nil_r in E. eauto.
Qed.

(* ------------------------------------------------------------------ from a run to `parse` *)
Lemma parse_unfold input :
  parse input =
  omap (fun t => (t, has_bom input))
       (ploop (2 * length input + 8) (mkps (if has_bom input then skipn 3 input else input) SKey false 0 [])).
Proof. reflexivity. Qed.

Lemma step_end g T : gap_ok g -> step (mkps g SKey false 0 T) = Done T.
Proof.
  intros Hg. unfold step. cbn [pdata pst_ pmixed pparent ptape]. rewrite skip_ws_gap_end by exact Hg. reflexivity.
Qed.

Lemma parse_of_reaches d l n T :
  wf_layout d l ->
  reaches (mkps (render_toks (gap l) (toks_fields d) 0) SKey false 0 [])
          (mkps (gap l n) SKey false 0 T) ->
  parse (render d l) = Ok (T, bom l).
Proof.
  intros (Hg & _ & Hbom) Hr. rewrite parse_unfold. unfold render in *.
  destruct (bom l) eqn:Eb.
  - cbn [bom_bytes app has_bom skipn length].
    erewrite ploop_reaches; [reflexivity | exact Hr | apply step_end, Hg |].
    unfold meas. cbn [pdata pst_ phi]. lia.
  - cbn [app] in *. rewrite (Hbom eq_refl).
    erewrite ploop_reaches; [reflexivity | exact Hr | apply step_end, Hg |].
    unfold meas. cbn [pdata pst_ phi]. lia.
Qed.

(* ------------------------------------------------------------------ token steps: containers *)
Lemma step_kvs_brace g rest m p t :
  gap_ok g ->
  step (mkps (g ++ 123%N :: rest) SKvs m p t) = Next (mkps (123%N :: rest) SObjVal m p t).
Proof.
  intros Hg. unfold step. cbn [pdata pst_ pmixed pparent ptape].
  rewrite skip_ws_gap_sig by (assumption || reflexivity). reflexivity.
Qed.

Lemma step_objval_open g rest m p t :
  gap_ok g ->
  step (mkps (g ++ 123%N :: rest) SObjVal m p t) = Next (mkps rest SOpen m p (tpush t (TArray 0 false))).
Proof.
  intros Hg. unfold step. cbn [pdata pst_ pmixed pparent ptape].
  rewrite skip_ws_gap_sig by (assumption || reflexivity). reflexivity.
Qed.

Lemma step_arrval_open g rest m p t :
  gap_ok g ->
  step (mkps (g ++ 123%N :: rest) SArrVal m p t) = Next (mkps rest SOpen m p (tpush t (TArray 0 false))).
Proof.
  intros Hg. unfold step. cbn [pdata pst_ pmixed pparent ptape].
  rewrite skip_ws_gap_sig by (assumption || reflexivity). reflexivity.
Qed.

Lemma length_snoc {A} (T : list A) x : length (T ++ [x]) = S (length T).
Proof. rewrite app_length. cbn. lia. Qed.

(* `{}`: the pending placeholder is closed at once *)
Lemma step_open_close g rest m p T x st' m' :
  gap_ok g -> restore (T ++ [x]) p = (st', m') ->
  step (mkps (g ++ 125%N :: rest) SOpen m p (T ++ [x])) =
  Next (mkps rest st' m' p (T ++ [TArray (S (length T)) false; TEnd (length T)])).
Proof.
  intros Hg Hr. unfold step. cbn [pdata pst_ pmixed pparent ptape].
  rewrite skip_ws_gap_sig by (assumption || reflexivity).
  cbn [beq N.eqb Pos.eqb]. rewrite length_snoc, Hr, tset_app. unfold tpush. rewrite <- app_assoc. reflexivity.
Qed.

Definition obj_byte (c : N) : bool := beq c 61 || beq c 62 || beq c 60.

(* first scalar after `{`: the next significant byte decides object / array *)
Lemma step_open_scalar g k s rest p T x c2 r2 :
  gap_ok g -> wf_scalar k s = true -> (k = Unq -> starts_boundary rest) ->
  skip_ws_t rest = Some (c2 :: r2) ->
  step (mkps (g ++ scalar_bytes k s ++ rest) SOpen false p (T ++ [x])) =
  Next (if obj_byte c2
        then mkps (c2 :: r2) SKvs false (length T) (T ++ [TObject p false; scalar_tok k s])
        else mkps (c2 :: r2) SArrVal false (length T) (T ++ [TArray p false; scalar_tok k s])).
Proof.
  intros Hg Hwf Hsep Hsk. destruct (scalar_step_ok k s rest Hwf Hsep) as (c & d1 & -> & Hst & Hstep).
  use_start Hst. unfold step. cbn [pdata pst_ pmixed pparent ptape].
  rewrite skip_ws_gap_sig by assumption. rewrite H125, H91, H123, Hstep, Hsk.
  unfold tpush. rewrite <- app_assoc. cbn [app].
  assert (Hlen : length (T ++ [x; scalar_tok k s]) = S (S (length T))) by (rewrite app_length; cbn; lia).
  rewrite Hlen. cbn [Nat.ltb Nat.leb Nat.sub]. rewrite Nat.sub_0_r.
  unfold obj_byte. destruct (beq c2 61 || beq c2 62 || beq c2 60); rewrite tset_app; reflexivity.
Qed.

(* `{` directly after `{` (not a ghost `{}`): the outer one is an array *)
Lemma step_open_brace g rest m p T x c2 r2 :
  gap_ok g -> skip_ws_t rest = Some (c2 :: r2) -> c2 <> 125%N ->
  step (mkps (g ++ 123%N :: rest) SOpen m p (T ++ [x])) =
  Next (mkps (123%N :: rest) SArrVal false (length T) (T ++ [TArray p false])).
Proof.
  intros Hg Hsk Hc2. unfold step. cbn [pdata pst_ pmixed pparent ptape].
  rewrite skip_ws_gap_sig by (assumption || reflexivity).
  cbn [beq N.eqb Pos.eqb]. rewrite Hsk.
  assert (E : match c2 :: r2 with 125%N :: d3 => Next (mkps d3 SOpen m p (T ++ [x])) | _ =>
              match length (T ++ [x]) with
              | 0 => Crash 3029
              | S ind => match tset (T ++ [x]) ind (TArray p false) with
                         | Some t' => Next (mkps (123%N :: rest) SArrVal false ind t')
                         | None => Crash 3030 end end end =
              Next (mkps (123%N :: rest) SArrVal false (length T) (T ++ [TArray p false]))).
  { rewrite length_snoc, tset_app.
    destruct c2 as [|pc]; [reflexivity|]. repeat (destruct pc as [pc|pc|]; try reflexivity). congruence. }
  exact E.
Qed.

Lemma nth_error_mid {A} (T : list A) x U : nth_error (T ++ x :: U) (length T) = Some x.
Proof. rewrite nth_error_app2 by lia. rewrite Nat.sub_diag. reflexivity. Qed.

(* `}` closing an object (state Key) *)
Lemma step_key_close g rest m T gp U st' m' :
  gap_ok g -> T <> [] -> restore (T ++ TObject gp false :: U) gp = (st', m') ->
  step (mkps (g ++ 125%N :: rest) SKey m (length T) (T ++ TObject gp false :: U)) =
  Next (mkps rest st' m' gp (T ++ TObject (length T + 1 + length U) m :: U ++ [TEnd (length T)])).
Proof.
  intros Hg HT Hr. unfold step. cbn [pdata pst_ pmixed pparent ptape].
  rewrite skip_ws_gap_sig by (assumption || reflexivity).
  cbn [beq N.eqb Pos.eqb orb]. unfold slot, tget. rewrite nth_error_mid, Hr.
  assert (length T =? 0 = false) as -> by (apply Nat.eqb_neq; destruct T; [congruence | discriminate]).
  cbn [andb]. unfold tpush. rewrite <- app_assoc. cbn [app]. rewrite tset_app.
  rewrite !app_length. cbn [length].
  replace (length T + S (length U)) with (length T + 1 + length U) by lia. reflexivity.
Qed.

(* `}` closing an array or a mixed container (state ArrayValue) *)
Lemma step_arrval_close g rest m T gp f U st' m' (is_arr : bool) :
  gap_ok g -> T <> [] ->
  restore (T ++ (if is_arr then TArray gp f else TObject gp f) :: U) gp = (st', m') ->
  step (mkps (g ++ 125%N :: rest) SArrVal m (length T) (T ++ (if is_arr then TArray gp f else TObject gp f) :: U)) =
  Next (mkps rest st' m' gp
          (T ++ (if is_arr then TArray (length T + 1 + length U) m else TObject (length T + 1 + length U) m) :: U ++ [TEnd (length T)])).
Proof.
  intros Hg HT Hr. unfold step. cbn [pdata pst_ pmixed pparent ptape].
  rewrite skip_ws_gap_sig by (assumption || reflexivity).
  cbn [beq N.eqb Pos.eqb orb]. unfold tget. rewrite nth_error_mid.
  assert (Hn : length T =? 0 = false) by (apply Nat.eqb_neq; destruct T; [congruence | discriminate]).
  destruct is_arr; rewrite Hr, Hn; cbn [andb]; rewrite tset_app; unfold tpush;
    rewrite !app_length; cbn [length]; rewrite <- app_assoc; cbn [app];
    replace (length T + S (length U)) with (length T + 1 + length U) by lia; reflexivity.
Qed.

(* `{` in state Key after an unquoted value: the value becomes a header *)
Lemma step_key_header g rest m p T h c2 r2 :
  gap_ok g -> skip_ws_t rest = Some (c2 :: r2) -> c2 <> 125%N ->
  step (mkps (g ++ 123%N :: rest) SKey m p (T ++ [TUnquoted h])) =
  Next (mkps (c2 :: r2) SOpen m p (T ++ [THeader h; TArray 0 false])).
Proof.
  intros Hg Hsk Hc2. unfold step. cbn [pdata pst_ pmixed pparent ptape].
  rewrite skip_ws_gap_sig by (assumption || reflexivity).
  cbn [beq N.eqb Pos.eqb orb]. rewrite Hsk.
  assert (E : forall X, match c2 :: r2 with 125%N :: d3 => Next (mkps d3 SKey m p (T ++ [TUnquoted h])) | _ => X end = X).
  { intros X. destruct c2 as [|pc]; [reflexivity|]. repeat (destruct pc as [pc|pc|]; try reflexivity). congruence. }
  rewrite E. unfold tlast. rewrite length_snoc. cbn [Nat.sub]. rewrite Nat.sub_0_r, nth_error_mid, tset_app.
  unfold tpush. rewrite <- app_assoc. reflexivity.
Qed.

(* ------------------------------------------------------------------ reach versions (with the measure) *)
Lemma skip_ws_idem d d' : skip_ws_t d = Some d' -> skip_ws_t d' = skip_ws_t d.
Proof. intros H. rewrite H. eapply skip_ws_c_some. exact H. Qed.

Ltac meas_tac := unfold meas; cbn [pdata pst_ phi]; rewrite ?app_length; cbn [length]; try lia.

Lemma phi_le1 st : phi st <= 1.
Proof. destruct st; cbn; lia. Qed.

Lemma reach_scalar (c : pst) g k s rest m p t st' :
  gap_ok g -> wf_scalar k s = true -> (k = Unq -> starts_boundary rest) ->
  step (mkps (g ++ scalar_bytes k s ++ rest) c m p t) = Next (mkps rest st' m p (tpush t (scalar_tok k s))) ->
  reaches (mkps (g ++ scalar_bytes k s ++ rest) c m p t) (mkps rest st' m p (tpush t (scalar_tok k s))).
Proof.
  intros Hg Hwf Hsep Hstep. eapply reaches_step; [exact Hstep | apply same_upto_ws_refl |].
  destruct (scalar_bytes_hd _ _ Hwf) as (ck & rk & Ek & _). meas_tac. rewrite Ek. cbn [length].
  pose proof (phi_le1 st'). lia.
Qed.

Lemma reach_key_scalar g k s rest m p t :
  gap_ok g -> wf_scalar k s = true -> (k = Unq -> starts_boundary rest) ->
  reaches (mkps (g ++ scalar_bytes k s ++ rest) SKey m p t) (mkps rest SKvs m p (tpush t (scalar_tok k s))).
Proof. intros. apply reach_scalar; auto. apply step_key_scalar; auto. Qed.

Lemma reach_objval_scalar g k s rest m p t :
  gap_ok g -> wf_scalar k s = true -> (k = Unq -> starts_boundary rest) ->
  reaches (mkps (g ++ scalar_bytes k s ++ rest) SObjVal m p t) (mkps rest SKey m p (tpush t (scalar_tok k s))).
Proof. intros. apply reach_scalar; auto. apply step_objval_scalar; auto. Qed.

Lemma reach_arrval_scalar g k s rest m p t :
  gap_ok g -> wf_scalar k s = true -> (k = Unq -> starts_boundary rest) ->
  reaches (mkps (g ++ scalar_bytes k s ++ rest) SArrVal m p t) (mkps rest SArrVal m p (tpush t (scalar_tok k s))).
Proof. intros. apply reach_scalar; auto. apply step_arrval_scalar; auto. Qed.

Lemma reach_kvs_op g o rest p t :
  gap_ok g -> hdP (fun c => c <> 61%N) rest ->
  reaches (mkps (g ++ op_symbol o ++ rest) SKvs false p t) (mkps rest SObjVal false p (t ++ op_toks false (Some o))).
Proof.
  intros Hg Hr. eapply reaches_step; [apply step_kvs_op; assumption | apply same_upto_ws_refl |].
  meas_tac.
Qed.

Lemma reach_kvs_brace g rest m p t :
  gap_ok g ->
  reaches (mkps (g ++ 123%N :: rest) SKvs m p t) (mkps (g ++ 123%N :: rest) SObjVal m p t).
Proof.
  intros Hg. eapply reaches_step; [apply step_kvs_brace; assumption | | meas_tac].
  repeat split. cbn [pdata]. rewrite skip_ws_gap_sig by (assumption || reflexivity). reflexivity.
Qed.

Lemma reach_val_open (c : bool) g rest m p t :
  gap_ok g ->
  reaches (mkps (g ++ 123%N :: rest) (if c then SObjVal else SArrVal) m p t) (mkps rest SOpen m p (tpush t (TArray 0 false))).
Proof.
  intros Hg. eapply reaches_step; [| apply same_upto_ws_refl |].
  - destruct c; [apply step_objval_open | apply step_arrval_open]; assumption.
  - meas_tac.
Qed.

Lemma reach_open_close g rest m p T x st' m' :
  gap_ok g -> restore (T ++ [x]) p = (st', m') ->
  reaches (mkps (g ++ 125%N :: rest) SOpen m p (T ++ [x]))
          (mkps rest st' m' p (T ++ [TArray (S (length T)) false; TEnd (length T)])).
Proof.
  intros Hg Hr. eapply reaches_step; [apply step_open_close; eassumption | apply same_upto_ws_refl |].
  meas_tac. pose proof (phi_le1 st'). lia.
Qed.

Lemma reach_open_scalar g k s rest p T x c2 r2 :
  gap_ok g -> wf_scalar k s = true -> (k = Unq -> starts_boundary rest) ->
  skip_ws_t rest = Some (c2 :: r2) ->
  reaches (mkps (g ++ scalar_bytes k s ++ rest) SOpen false p (T ++ [x]))
          (if obj_byte c2
           then mkps rest SKvs false (length T) (T ++ [TObject p false; scalar_tok k s])
           else mkps rest SArrVal false (length T) (T ++ [TArray p false; scalar_tok k s])).
Proof.
  intros Hg Hwf Hsep Hsk. eapply reaches_step; [apply step_open_scalar; eassumption | |].
  - destruct (obj_byte c2); repeat split; cbn [pdata]; apply skip_ws_idem; exact Hsk.
  - destruct (scalar_bytes_hd _ _ Hwf) as (ck & rk & Ek & _).
    destruct (obj_byte c2); meas_tac; rewrite Ek; cbn [length]; lia.
Qed.

Lemma reach_open_brace g rest m p T x c2 r2 :
  gap_ok g -> skip_ws_t rest = Some (c2 :: r2) -> c2 <> 125%N ->
  reaches (mkps (g ++ 123%N :: rest) SOpen m p (T ++ [x]))
          (mkps (g ++ 123%N :: rest) SArrVal false (length T) (T ++ [TArray p false])).
Proof.
  intros Hg Hsk Hc2. eapply reaches_step; [eapply step_open_brace; eassumption | | meas_tac].
  repeat split. cbn [pdata]. rewrite skip_ws_gap_sig by (assumption || reflexivity). reflexivity.
Qed.

Lemma reach_key_close g rest m T gp U st' m' :
  gap_ok g -> T <> [] -> restore (T ++ TObject gp false :: U) gp = (st', m') ->
  reaches (mkps (g ++ 125%N :: rest) SKey m (length T) (T ++ TObject gp false :: U))
          (mkps rest st' m' gp (T ++ TObject (length T + 1 + length U) m :: U ++ [TEnd (length T)])).
Proof.
  intros Hg HT Hr. eapply reaches_step; [apply step_key_close; eassumption | apply same_upto_ws_refl |].
  meas_tac. pose proof (phi_le1 st'). lia.
Qed.

Lemma reach_arrval_close g rest m T gp f U st' m' (is_arr : bool) :
  gap_ok g -> T <> [] ->
  restore (T ++ (if is_arr then TArray gp f else TObject gp f) :: U) gp = (st', m') ->
  reaches (mkps (g ++ 125%N :: rest) SArrVal m (length T) (T ++ (if is_arr then TArray gp f else TObject gp f) :: U))
          (mkps rest st' m' gp
             (T ++ (if is_arr then TArray (length T + 1 + length U) m else TObject (length T + 1 + length U) m) :: U ++ [TEnd (length T)])).
Proof.
  intros Hg HT Hr. eapply reaches_step; [apply step_arrval_close; eassumption | apply same_upto_ws_refl |].
  meas_tac. pose proof (phi_le1 st'). lia.
Qed.

Lemma reach_key_header g rest m p T h c2 r2 :
  gap_ok g -> skip_ws_t rest = Some (c2 :: r2) -> c2 <> 125%N ->
  reaches (mkps (g ++ 123%N :: rest) SKey m p (T ++ [TUnquoted h]))
          (mkps rest SOpen m p (T ++ [THeader h; TArray 0 false])).
Proof.
  intros Hg Hsk Hc2. eapply reaches_step; [eapply step_key_header; eassumption | | meas_tac].
  repeat split. cbn [pdata]. apply skip_ws_idem. exact Hsk.
Qed.

(* ------------------------------------------------------------------ value contexts *)
(* a value is read either as the value of a field (ObjVal -> Key) or as an array item
   (ArrVal -> ArrVal); [ctx_ok] is what the restore-after-close code needs to come back there *)
Inductive vctx := CObj | CArr.
Definition pre_st (c : vctx) : pst := match c with CObj => SObjVal | CArr => SArrVal end.
Definition post_st (c : vctx) : pst := match c with CObj => SKey | CArr => SArrVal end.
Definition is_cont_tok (x : ttok) : bool := match x with TArray _ _ | TObject _ _ => true | _ => false end.

Definition ctx_ok (c : vctx) (T : ttape) (p : nat) : Prop :=
  match c with
  | CObj => (p = 0 /\ exists x T', T = x :: T' /\ is_cont_tok x = false) \/
            (exists gp, nth_error T p = Some (TObject gp false))
  | CArr => exists gp, nth_error T p = Some (TArray gp false)
  end.

Lemma nth_error_app_some {A} (T X : list A) p x : nth_error T p = Some x -> nth_error (T ++ X) p = Some x.
Proof. intros H. rewrite nth_error_app1; [exact H|]. apply nth_error_Some. congruence. Qed.

Lemma ctx_ok_app c T p X : ctx_ok c T p -> ctx_ok c (T ++ X) p.
Proof.
  destruct c; cbn [ctx_ok].
  - intros [(-> & x & T' & -> & Hx) | (gp & H)].
    + left. split; [reflexivity|]. exists x, (T' ++ X). split; [reflexivity | exact Hx].
    + right. exists gp. apply nth_error_app_some. exact H.
  - intros (gp & H). exists gp. apply nth_error_app_some. exact H.
Qed.

Lemma ctx_ok_ne c T p : ctx_ok c T p -> T <> [].
Proof.
  destruct c; cbn [ctx_ok].
  - intros [(_ & x & T' & -> & _) | (gp & H)]; [discriminate|]. intros ->. destruct p; discriminate.
  - intros (gp & H) ->. destruct p; discriminate.
Qed.

Lemma ctx_ok_restore c T p : ctx_ok c T p -> restore T p = (post_st c, false).
Proof.
  destruct c; cbn [ctx_ok]; unfold restore, tget.
  - intros [(-> & x & T' & -> & Hx) | (gp & H)].
    + cbn. destruct x; try reflexivity; discriminate.
    + rewrite H. reflexivity.
  - intros (gp & H). rewrite H. reflexivity.
Qed.

Definition fctx (T : ttape) (p : nat) : Prop := (p = 0 /\ T = []) \/ ctx_ok CObj T p.

Lemma fctx_push T p x X : fctx T p -> is_cont_tok x = false -> ctx_ok CObj (T ++ x :: X) p.
Proof.
  intros [(-> & ->) | H] Hx.
  - left. split; [reflexivity|]. exists x, X. split; [reflexivity | exact Hx].
  - apply ctx_ok_app. exact H.
Qed.

Lemma reach_val_open' c g rest m p t :
  gap_ok g ->
  reaches (mkps (g ++ 123%N :: rest) (pre_st c) m p t) (mkps rest SOpen m p (tpush t (TArray 0 false))).
Proof. intros Hg. destruct c; [apply (reach_val_open true) | apply (reach_val_open false)]; exact Hg. Qed.

(* ------------------------------------------------------------------ first tokens *)
Definition tok_starts (P : N -> Prop) (ts : list rtok) : Prop :=
  match ts with [] => False | t :: _ => exists c r, fst t = c :: r /\ P c end.

Lemma tok_starts_impl (P Q : N -> Prop) ts : (forall c, P c -> Q c) -> tok_starts P ts -> tok_starts Q ts.
Proof. intros H. destruct ts as [|t ts]; [exact (fun x => x)|]. intros (c & r & E & Hc). exists c, r. auto. Qed.

Definition value_start (c : N) : Prop := scalar_start c = true \/ c = 123%N.

Lemma value_start_sig c : value_start c -> significant c = true.
Proof. intros [H| ->]; [apply scalar_start_facts in H; tauto | reflexivity]. Qed.

Lemma value_first v more : wf_value v = true -> tok_starts value_start (toks_value v ++ more).
Proof.
  intros H. destruct v; cbn [toks_value app tok_starts lbrace fst].
  - cbn [wf_value] in H. destruct (scalar_bytes_hd _ _ H) as (c & r & E & Hc). exists c, r. split; [exact E | left; exact Hc].
  - exists 123%N, []. split; [reflexivity | right; reflexivity].
  - exists 123%N, []. split; [reflexivity | right; reflexivity].
  - exists 123%N, []. split; [reflexivity | right; reflexivity].
  - cbn [wf_value] in H. repeat (apply andb_prop in H; destruct H as [H ?]).
    destruct (scalar_bytes_hd Unq name (wf_word_unq name H)) as (c & r & E & Hc). exists c, r. split; [exact E | left; exact Hc].
Qed.

Lemma render_skip (P : N -> Prop) g ts i :
  (forall j, gap_ok (g j)) -> (forall c, P c -> significant c = true) -> tok_starts P ts ->
  exists c r, skip_ws_t (render_toks g ts i) = Some (c :: r) /\ P c.
Proof.
  intros Hg Hs Ht. destruct ts as [|t ts]; [destruct Ht|]. destruct Ht as (c & r & E & Hc).
  exists c, (r ++ render_toks g ts (S i)). split; [|exact Hc].
  cbn [render_toks]. rewrite E. cbn [app]. apply skip_ws_gap_sig; auto.
Qed.

Lemma render_hdP (P : N -> Prop) g ts i :
  (forall j, gap_ok (g j)) -> (forall c, is_ws_t c = true -> P c) -> P 35%N -> tok_starts P ts ->
  hdP P (render_toks g ts i).
Proof.
  intros Hg Hws H35 Ht. destruct ts as [|t ts]; [destruct Ht|]. destruct Ht as (c & r & E & Hc).
  cbn [render_toks]. rewrite E. apply hdP_gap; auto.
Qed.

Lemma sep_ok_app g a : forall b i, sep_ok g (a ++ b) i -> sep_ok g b (i + length a).
Proof.
  induction a as [|t a IH]; intros b i H; cbn [app length] in *.
  - rewrite Nat.add_0_r. exact H.
  - cbn [sep_ok] in H. destruct H as [_ H]. apply IH in H. replace (i + S (length a)) with (S i + length a) by lia. exact H.
Qed.

(* ------------------------------------------------------------------ the per-construct statements *)
Definition Vlemma (c : vctx) (v : value) : Prop :=
  forall g i more T p, (forall j, gap_ok (g j)) -> sep_ok g (toks_value v ++ more) i -> ctx_ok c T p ->
  reaches (mkps (render_toks g (toks_value v ++ more) i) (pre_st c) false p T)
          (mkps (render_toks g more (i + length (toks_value v))) (post_st c) false p (T ++ flat_value (length T) v)).

(* after the opening brace has been consumed and the placeholder pushed *)
Definition Blemma (c : vctx) (v : value) : Prop :=
  forall g i more T p, (forall j, gap_ok (g j)) -> sep_ok g (tl (toks_value v) ++ more) i -> ctx_ok c T p ->
  reaches (mkps (render_toks g (tl (toks_value v) ++ more) i) SOpen false p (T ++ [TArray 0 false]))
          (mkps (render_toks g more (i + length (tl (toks_value v)))) (post_st c) false p (T ++ flat_value (length T) v)).

(* operator and value of a field, the key being on the tape already *)
Definition FRlemma (op : option operator) (v : value) : Prop :=
  forall g i more T p, (forall j, gap_ok (g j)) -> sep_ok g (optok op ++ toks_value v ++ more) i -> ctx_ok CObj T p ->
  reaches (mkps (render_toks g (optok op ++ toks_value v ++ more) i) SKvs false p T)
          (mkps (render_toks g more (i + length (optok op) + length (toks_value v))) SKey false p
                (T ++ op_toks false op ++ flat_value (length T + length (op_toks false op)) v)).

Definition F1lemma (f : field) : Prop :=
  forall g i more T p, (forall j, gap_ok (g j)) -> sep_ok g (toks_field f ++ more) i -> fctx T p ->
  reaches (mkps (render_toks g (toks_field f ++ more) i) SKey false p T)
          (mkps (render_toks g more (i + length (toks_field f))) SKey false p (T ++ flat_field false (length T) f)).

Definition Flemma (fs : fields) : Prop :=
  forall g i more T p, (forall j, gap_ok (g j)) -> sep_ok g (toks_fields fs ++ more) i -> fctx T p ->
  reaches (mkps (render_toks g (toks_fields fs ++ more) i) SKey false p T)
          (mkps (render_toks g more (i + length (toks_fields fs))) SKey false p (T ++ flat_fields false (length T) fs)).

Definition Ilemma (vs : values) : Prop :=
  forall g i more T p, (forall j, gap_ok (g j)) -> sep_ok g (toks_values vs ++ more) i -> ctx_ok CArr T p ->
  reaches (mkps (render_toks g (toks_values vs ++ more) i) SArrVal false p T)
          (mkps (render_toks g more (i + length (toks_values vs))) SArrVal false p (T ++ flat_values (length T) vs)).

Lemma op_first_not_eq o : obj_first_op (Some o) = true ->
  exists c r, op_symbol o = c :: r /\ obj_byte c = true /\ significant c = true.
Proof. destruct o; cbn; try discriminate; intros _; eexists _, _; repeat split. Qed.

(* operator + value, from the value lemma *)
Lemma FR_of_V op v : wf_value v = true -> (op = None -> is_container v = true) -> Vlemma CObj v -> FRlemma op v.
Proof.
  intros Hwf Hop HV g i more T p Hg Hsep Hctx. destruct op as [o|]; cbn [optok app op_toks] in *.
  - cbn [sep_ok] in Hsep. destruct Hsep as [_ Hsep]. rewrite render_toks_cons. cbn [fst].
    eapply reaches_trans.
    { apply reach_kvs_op; [apply Hg|]. apply render_hdP; [exact Hg | | discriminate |].
      - intros c Hc ->. discriminate.
      - eapply tok_starts_impl; [|apply value_first; exact Hwf].
        intros c [Hc| ->]; [|discriminate]. intros ->. discriminate. }
    eapply reaches_eq; [apply (HV g (S i) more (T ++ op_toks false (Some o)) p Hg Hsep); apply ctx_ok_app; exact Hctx|].
    rewrite app_length, <- app_assoc. cbn [length]. f_equal. f_equal. lia.
  - specialize (Hop eq_refl).
    assert (exists body, toks_value v = lbrace :: body) as (body & Ebody) by (destruct v; try discriminate; eexists; reflexivity).
    assert (Hd : render_toks g (toks_value v ++ more) i = g i ++ 123%N :: render_toks g (body ++ more) (S i))
      by (rewrite Ebody; reflexivity).
    eapply reaches_trans.
    { rewrite Hd. apply reach_kvs_brace. apply Hg. }
    rewrite <- Hd.
    eapply reaches_eq; [apply (HV g i more T p Hg Hsep Hctx)|].
    cbn [length app]. rewrite !Nat.add_0_r. reflexivity.
Qed.

(* ------------------------------------------------------------------ per-construct lemmas *)
Scheme value_mind := Induction for value Sort Prop
with field_mind := Induction for field Sort Prop
with fields_mind := Induction for fields Sort Prop
with values_mind := Induction for values Sort Prop.
Combined Scheme doc_mutind from value_mind, field_mind, fields_mind, values_mind.

(* the number of tape tokens does not depend on where the construct starts *)
Lemma flat_len_indep :
  (forall v a b, length (flat_value a v) = length (flat_value b v)) /\
  (forall f m a b, length (flat_field m a f) = length (flat_field m b f)) /\
  (forall fs m a b, length (flat_fields m a fs) = length (flat_fields m b fs)) /\
  (forall vs a b, length (flat_values a vs) = length (flat_values b vs)).
Proof.
  apply doc_mutind.
  - reflexivity.
  - intros fs Hfs tl Htl a b. cbn [flat_value]. cbn [length]. rewrite !app_length. rewrite (Hfs false (S a) (S b)).
    f_equal. f_equal. f_equal. destruct tl; [reflexivity|]. cbn [length]. f_equal. apply Htl.
  - intros items H a b. cbn [flat_value length]. rewrite !app_length. rewrite (H (S a) (S b)). reflexivity.
  - intros items H kvs Hk a b. cbn [flat_value length]. rewrite !app_length. cbn [length]. rewrite !app_length.
    rewrite (H (S a) (S b)). f_equal. f_equal. f_equal. f_equal. apply Hk.
  - intros name v H a b. cbn [flat_value length]. f_equal. apply H.
  - intros k key op v H m a b. cbn [flat_field length]. rewrite !app_length. f_equal. f_equal. apply H.
  - reflexivity.
  - intros name u fs H m a b. cbn [flat_field length]. rewrite !app_length. f_equal. f_equal. f_equal. apply H.
  - reflexivity.
  - intros f Hf fs Hfs m a b. cbn [flat_fields]. rewrite !app_length. rewrite (Hf m a b). f_equal. apply Hfs.
  - reflexivity.
  - intros v Hv vs Hvs a b. cbn [flat_values]. rewrite !app_length. rewrite (Hv a b). f_equal. apply Hvs.
Qed.

Definition vlen (v : value) : nat := length (flat_value 0 v).
Definition fslen (m : bool) (fs : fields) : nat := length (flat_fields m 0 fs).
Definition vslen (vs : values) : nat := length (flat_values 0 vs).
Lemma flat_value_len a v : length (flat_value a v) = vlen v.
Proof. apply (proj1 flat_len_indep). Qed.
Lemma flat_fields_len m a fs : length (flat_fields m a fs) = fslen m fs.
Proof. apply (proj1 (proj2 (proj2 flat_len_indep))). Qed.
Lemma flat_values_len a vs : length (flat_values a vs) = vslen vs.
Proof. apply (proj2 (proj2 (proj2 flat_len_indep))). Qed.

(* equalities between final states: same shape, offsets equal up to linear arithmetic *)
Ltac tape_eq :=
  rewrite <- ?app_assoc; cbn [app]; rewrite <- ?app_assoc;
  rewrite ?flat_value_len, ?flat_fields_len, ?flat_values_len;
  repeat match goal with
  | |- @eq nat _ _ => lia
  | |- _ => progress f_equal
  end.

Lemma V_scalar c k s : wf_scalar k s = true -> Vlemma c (VScalar k s).
Proof.
  intros Hwf g i more T p Hg Hsep Hctx. cbn [toks_value app length flat_value] in *.
  cbn [sep_ok] in Hsep. destruct Hsep as [Hs _]. rewrite render_toks_cons. cbn [fst stok].
  assert (Hb : k = Unq -> starts_boundary (render_toks g more (S i))) by (intros ->; apply Hs; reflexivity).
  rewrite Nat.add_1_r. destruct c; [apply reach_objval_scalar | apply reach_arrval_scalar]; auto.
Qed.

Lemma V_of_B c v : is_container v = true -> Blemma c v -> Vlemma c v.
Proof.
  intros Hc HB g i more T p Hg Hsep Hctx.
  assert (exists body, toks_value v = lbrace :: body) as (body & Ebody) by (destruct v; try discriminate; eexists; reflexivity).
  unfold Blemma in HB. rewrite Ebody in *. cbn [tl app length] in *.
  cbn [sep_ok] in Hsep. destruct Hsep as [_ Hsep].
  rewrite render_toks_cons. cbn [fst lbrace app].
  eapply reaches_trans; [apply reach_val_open'; apply Hg|].
  eapply reaches_eq; [apply (HB g (S i) more T p Hg Hsep Hctx)|].
  f_equal. f_equal. lia.
Qed.

Lemma B_array_nil c : Blemma c (VArray VNil).
Proof.
  intros g i more T p Hg Hsep Hctx. cbn [toks_value tl toks_values app length] in *.
  rewrite render_toks_cons. cbn [fst rbrace app].
  eapply reaches_eq; [apply reach_open_close; [apply Hg | apply ctx_ok_restore, ctx_ok_app, Hctx]|].
  cbn [flat_value flat_values length app]. rewrite Nat.add_0_r, Nat.add_1_r. reflexivity.
Qed.

Lemma items_first vs more : wf_items vs = true ->
  tok_starts (fun c => value_start c \/ c = 125%N) (toks_values vs ++ rbrace :: more).
Proof.
  destruct vs as [|v vs]; cbn [toks_values app wf_items].
  - intros _. exists 125%N, []. split; [reflexivity | right; reflexivity].
  - intros H. repeat (apply andb_prop in H; destruct H as [H ?]).
    rewrite <- app_assoc. eapply tok_starts_impl; [|apply value_first; assumption]. intros c Hc. left. exact Hc.
Qed.

Lemma nth_error_mid2 {A} (T : list A) x U X : nth_error ((T ++ x :: U) ++ X) (length T) = Some x.
Proof. rewrite <- app_assoc. cbn [app]. apply nth_error_mid. Qed.

Lemma value_start_not_obj c : value_start c \/ c = 125%N -> obj_byte c = false.
Proof.
  unfold obj_byte. intros [[H| ->]| ->]; [|reflexivity|reflexivity].
  apply scalar_start_facts in H. destruct H as (_ & _ & _ & _ & _ & H60 & H62 & _ & H61). rewrite H60, H62, H61. reflexivity.
Qed.

Lemma value_start_or_close_sig c : value_start c \/ c = 125%N -> significant c = true.
Proof. intros [H| ->]; [apply value_start_sig; exact H | reflexivity]. Qed.

(* array whose first item is a scalar *)
Lemma B_array_scalar c k s vs :
  wf_scalar k s = true -> wf_items vs = true -> Ilemma vs -> Blemma c (VArray (VCons (VScalar k s) vs)).
Proof.
  intros Hwf Hwfs HI g i more T p Hg Hsep Hctx.
  cbn [toks_value tl toks_values app length] in *. rewrite <- app_assoc in *. cbn [app] in *.
  cbn [sep_ok] in Hsep. destruct Hsep as [Hs Hsep]. rewrite render_toks_cons. cbn [fst stok].
  assert (Hb : k = Unq -> starts_boundary (render_toks g (toks_values vs ++ rbrace :: more) (S i))) by (intros ->; apply Hs; reflexivity).
  destruct (render_skip _ g _ (S i) Hg value_start_or_close_sig (items_first vs more Hwfs))
    as (c2 & r2 & Hsk & Hc2).
  eapply reaches_trans.
  { eapply reaches_eq; [apply (reach_open_scalar (g i) k s _ p T (TArray 0 false) c2 r2 (Hg i) Hwf Hb Hsk)|].
    rewrite (value_start_not_obj _ Hc2). reflexivity. }
  eapply reaches_trans.
  { apply (HI g (S i) (rbrace :: more) (T ++ [TArray p false; scalar_tok k s]) (length T) Hg Hsep).
    exists p. apply nth_error_mid. }
  apply sep_ok_app in Hsep. rewrite render_toks_cons. cbn [fst rbrace app].
  eapply reaches_eq.
  { rewrite <- app_assoc. cbn [app].
    apply (reach_arrval_close (g (S i + length (toks_values vs))) _ false T p false _ (post_st c) false true (Hg _)).
    - eapply ctx_ok_ne; eassumption.
    - apply (ctx_ok_restore c). apply (ctx_ok_app c T p _ Hctx). }
  cbn [flat_value flat_values app length]. rewrite !app_length. cbn [length app].
  replace (S (length T) + 1) with (length T + 2) by lia.
  repeat (f_equal; try lia).
Qed.

Definition body_start (c : N) : Prop := scalar_start c = true \/ c = 123%N \/ c = 91%N.

Lemma body_start_sig c : body_start c -> significant c = true.
Proof. intros [H|[->| ->]]; [apply scalar_start_facts in H; tauto | reflexivity | reflexivity]. Qed.

Lemma body_start_not_close c : body_start c -> c <> 125%N.
Proof. intros [H|[->| ->]]; [|discriminate|discriminate]. intros ->. discriminate. Qed.

Lemma field_first f more : wf_field f = true ->
  tok_starts (fun c => scalar_start c = true \/ c = 91%N) (toks_field f ++ more).
Proof.
  destruct f; cbn [toks_field app tok_starts wf_field fst stok].
  - intros H. repeat (apply andb_prop in H; destruct H as [H ?]).
    destruct (scalar_bytes_hd _ _ H) as (c & r & E & Hc). exists c, r. split; [exact E | left; exact Hc].
  - intros _. eexists _, _. split; [reflexivity | right; reflexivity].
  - intros _. eexists _, _. split; [reflexivity | right; reflexivity].
Qed.

(* what follows the opening brace of a non-empty container *)
Ltac andb_split := repeat match goal with H : andb _ _ = true |- _ => apply andb_prop in H; destruct H end.

Lemma body_first v more : wf_value v = true -> is_container v = true -> is_empty_array v = false ->
  tok_starts body_start (tl (toks_value v) ++ more).
Proof.
  intros Hwf Hc Hne. destruct v as [| fs tlv | items | items kvs |]; try discriminate; cbn [toks_value tl wf_value] in *.
  - andb_split. destruct fs as [|f fs]; [discriminate|]. cbn [toks_fields wf_fields] in *. andb_split.
    rewrite <- !app_assoc. eapply tok_starts_impl; [|apply field_first; eassumption].
    intros c [Hx| ->]; [left; exact Hx | right; right; reflexivity].
  - destruct items as [|v vs]; [discriminate|]. cbn [toks_values wf_items] in *. andb_split.
    rewrite <- !app_assoc. eapply tok_starts_impl; [|apply value_first; eassumption].
    intros c [Hx| ->]; [left; exact Hx | right; left; reflexivity].
  - andb_split. destruct items as [|v vs]; [discriminate|]. cbn [toks_values wf_items] in *. andb_split.
    rewrite <- !app_assoc. eapply tok_starts_impl; [|apply value_first; eassumption].
    intros c [Hx| ->]; [left; exact Hx | right; left; reflexivity].
Qed.

(* array whose first item is a container *)
Lemma B_array_cont c v vs :
  wf_value v = true -> is_container v = true -> is_empty_array v = false ->
  Ilemma (VCons v vs) -> Blemma c (VArray (VCons v vs)).
Proof.
  intros Hwf Hcont Hne HI g i more T p Hg Hsep Hctx.
  cbn [toks_value tl] in *. rewrite <- app_assoc in *. cbn [app] in *.
  assert (exists body, toks_value v = lbrace :: body) as (body & Ebody) by (destruct v; try discriminate; eexists; reflexivity).
  assert (Hd : render_toks g (toks_values (VCons v vs) ++ rbrace :: more) i =
               g i ++ 123%N :: render_toks g (body ++ toks_values vs ++ rbrace :: more) (S i)).
  { cbn [toks_values]. rewrite Ebody. cbn [app]. rewrite <- app_assoc. reflexivity. }
  destruct (render_skip _ g _ (S i) Hg body_start_sig (body_first v (toks_values vs ++ rbrace :: more) Hwf Hcont Hne))
    as (c2 & r2 & Hsk & Hc2).
  rewrite Ebody in Hsk. cbn [tl] in Hsk.
  eapply reaches_trans.
  { rewrite Hd. apply (reach_open_brace (g i) _ false p T (TArray 0 false) c2 r2 (Hg i) Hsk). apply body_start_not_close. exact Hc2. }
  rewrite <- Hd.
  eapply reaches_trans.
  { apply (HI g i (rbrace :: more) (T ++ [TArray p false]) (length T) Hg Hsep). exists p. apply nth_error_mid. }
  apply sep_ok_app in Hsep. rewrite render_toks_cons. cbn [fst rbrace app].
  eapply reaches_eq.
  { rewrite <- app_assoc. cbn [app].
    apply (reach_arrval_close (g (i + length (toks_values (VCons v vs)))) _ false T p false _ (post_st c) false true (Hg _)).
    - eapply ctx_ok_ne; eassumption.
    - apply (ctx_ok_restore c). apply (ctx_ok_app c T p _ Hctx). }
  cbn [flat_value]. rewrite !app_length. cbn [length app].
  replace (length T + 1) with (S (length T)) by lia.
  repeat (f_equal; try lia).
Qed.

(* object: first field `key op value` with op one of = == < <= > >= *)
Lemma B_object c k key o v fs :
  wf_scalar k key = true -> obj_first_op (Some o) = true -> FRlemma (Some o) v -> Flemma fs ->
  Blemma c (VObject (FCons (Field k key (Some o) v) fs) VNil).
Proof.
  intros Hkey Hop HFR HF g i more T p Hg Hsep Hctx.
  cbn [toks_value tl toks_fields toks_field toks_values app] in *.
  rewrite <- ?app_assoc in *. cbn [app] in *. rewrite <- ?app_assoc in *.
  cbn [sep_ok] in Hsep. destruct Hsep as [Hs Hsep]. rewrite render_toks_cons. cbn [fst stok].
  assert (Hb : k = Unq -> starts_boundary (render_toks g (optok (Some o) ++ toks_value v ++ toks_fields fs ++ rbrace :: more) (S i)))
    by (intros ->; apply Hs; reflexivity).
  destruct (op_first_not_eq o Hop) as (c2 & r2 & Eo & Hobj & Hsig).
  assert (Hsk : skip_ws_t (render_toks g (optok (Some o) ++ toks_value v ++ toks_fields fs ++ rbrace :: more) (S i)) =
                Some (c2 :: r2 ++ render_toks g (toks_value v ++ toks_fields fs ++ rbrace :: more) (S (S i)))).
  { cbn [optok app render_toks fst]. rewrite Eo. cbn [app]. apply skip_ws_gap_sig; [apply Hg | exact Hsig]. }
  eapply reaches_trans.
  { eapply reaches_eq; [apply (reach_open_scalar (g i) k key _ p T (TArray 0 false) _ _ (Hg i) Hkey Hb Hsk)|].
    rewrite Hobj. reflexivity. }
  eapply reaches_trans.
  { apply (HFR g (S i) (toks_fields fs ++ rbrace :: more) (T ++ [TObject p false; scalar_tok k key]) (length T) Hg Hsep).
    right. exists p. apply nth_error_mid. }
  apply sep_ok_app in Hsep. apply sep_ok_app in Hsep.
  eapply reaches_trans.
  { apply (HF g _ (rbrace :: more) _ (length T) Hg Hsep).
    right. right. exists p. rewrite <- app_assoc. cbn [app]. apply nth_error_mid. }
  apply sep_ok_app in Hsep. rewrite render_toks_cons. cbn [fst rbrace app].
  eapply reaches_eq.
  { rewrite <- !app_assoc. cbn [app].
    apply (reach_key_close (g _) _ false T p _ (post_st c) false (Hg _)).
    - eapply ctx_ok_ne; eassumption.
    - apply (ctx_ok_restore c). apply (ctx_ok_app c T p _ Hctx). }
  cbn [flat_value flat_fields flat_field values_nonempty]. rewrite !app_length. cbn [length app]. rewrite !app_length. cbn [length].
  tape_eq.
Qed.

(* header: bare word, then `{` seen in state Key rewrites the word into a Header token *)
Lemma V_header name v :
  wf_unq name = true -> wf_value v = true -> is_container v = true -> is_empty_array v = false ->
  Blemma CObj v -> Vlemma CObj (VHeader name v).
Proof.
  intros Hname Hwf Hcont Hne HB g i more T p Hg Hsep Hctx.
  assert (exists body, toks_value v = lbrace :: body) as (body & Ebody) by (destruct v; try discriminate; eexists; reflexivity).
  unfold Blemma in HB. cbn [toks_value app length] in *. rewrite Ebody in *. cbn [tl app length] in *.
  cbn [sep_ok] in Hsep. destruct Hsep as (Hs & _ & Hsep).
  rewrite !render_toks_cons. cbn [fst lbrace app].
  eapply reaches_trans.
  { apply (reach_objval_scalar (g i) Unq name _ false p T (Hg i) Hname). intros _. apply Hs. reflexivity. }
  destruct (render_skip _ g _ (S (S i)) Hg body_start_sig (body_first v more Hwf Hcont Hne)) as (c2 & r2 & Hsk & Hc2).
  rewrite Ebody in Hsk. cbn [tl] in Hsk.
  eapply reaches_trans.
  { apply (reach_key_header (g (S i)) _ false p T name c2 r2 (Hg _) Hsk). apply body_start_not_close. exact Hc2. }
  eapply reaches_eq.
  { replace (T ++ [THeader name; TArray 0 false]) with ((T ++ [THeader name]) ++ [TArray 0 false]) by (rewrite <- app_assoc; reflexivity).
    apply (HB g (S (S i)) more (T ++ [THeader name]) p Hg Hsep). apply ctx_ok_app. exact Hctx. }
  cbn [flat_value post_st]. rewrite app_length. cbn [length]. tape_eq.
Qed.

Lemma F1_field k key op v : wf_scalar k key = true -> FRlemma op v -> F1lemma (Field k key op v).
Proof.
  intros Hkey HFR g i more T p Hg Hsep Hctx.
  cbn [toks_field app] in *. rewrite <- ?app_assoc in *.
  cbn [sep_ok] in Hsep. destruct Hsep as [Hs Hsep]. rewrite render_toks_cons. cbn [fst stok].
  eapply reaches_trans.
  { apply (reach_key_scalar (g i) k key _ false p T (Hg i) Hkey). intros ->. apply Hs. reflexivity. }
  eapply reaches_eq.
  { apply (HFR g (S i) more _ p Hg Hsep). unfold tpush. apply fctx_push; [exact Hctx|]. destruct k; reflexivity. }
  cbn [flat_field length]. unfold tpush. rewrite !app_length. cbn [length]. tape_eq.
Qed.

Lemma F_cons f fs :
  (exists x X, forall off, flat_field false off f = x :: X off /\ is_cont_tok x = false) ->
  F1lemma f -> Flemma fs -> Flemma (FCons f fs).
Proof.
  intros Hhd H1 HF g i more T p Hg Hsep Hctx.
  cbn [toks_fields] in *. rewrite <- ?app_assoc in *.
  eapply reaches_trans; [apply (H1 g i (toks_fields fs ++ more) T p Hg Hsep Hctx)|].
  apply sep_ok_app in Hsep.
  eapply reaches_eq.
  { apply (HF g _ more _ p Hg Hsep). right. destruct Hhd as (x & X & Hx). destruct (Hx (length T)) as [-> Hc].
    apply fctx_push; assumption. }
  cbn [flat_fields]. rewrite !app_length. tape_eq.
Qed.

Lemma I_cons v vs : Vlemma CArr v -> Ilemma vs -> Ilemma (VCons v vs).
Proof.
  intros HV HI g i more T p Hg Hsep Hctx.
  cbn [toks_values] in *. rewrite <- ?app_assoc in *.
  eapply reaches_trans; [apply (HV g i (toks_values vs ++ more) T p Hg Hsep Hctx)|].
  apply sep_ok_app in Hsep.
  eapply reaches_eq.
  { apply (HI g _ more _ p Hg Hsep). apply (ctx_ok_app CArr). exact Hctx. }
  cbn [flat_values]. rewrite !app_length. tape_eq.
Qed.

Lemma F_nil : Flemma FNil.
Proof.
  intros g i more T p Hg Hsep Hctx. cbn [toks_fields app length flat_fields]. rewrite Nat.add_0_r, app_nil_r. apply reaches_refl.
Qed.

Lemma I_nil : Ilemma VNil.
Proof.
  intros g i more T p Hg Hsep Hctx. cbn [toks_values app length flat_values]. rewrite Nat.add_0_r, app_nil_r. apply reaches_refl.
Qed.

(* ------------------------------------------------------------------ mixed containers: token steps *)
Lemma op2_none c d1 :
  beq c 60 = false -> beq c 62 = false -> beq c 33 = false -> beq c 61 = false -> op2 (c :: d1) = None.
Proof.
  intros H60 H62 H33 H61. destruct c as [|pc]; [reflexivity|].
  repeat (destruct pc as [pc|pc|]; try reflexivity); discriminate.
Qed.

Lemma tinsert_snoc T x y : tinsert_before_last (T ++ [x]) y = Some (T ++ [y; x]).
Proof.
  unfold tinsert_before_last. rewrite length_snoc.
  rewrite firstn_app, Nat.sub_diag, firstn_all, skipn_app, Nat.sub_diag, skipn_all. cbn. rewrite app_nil_r. reflexivity.
Qed.

(* a second bare value where an operator is expected: the object turns into a mixed container *)
Lemma step_kvs_to_mixed g c d1 p T x :
  gap_ok g -> scalar_start c = true \/ c = 125%N ->
  ~ (c = 63%N /\ exists r, d1 = 61%N :: r) ->
  step (mkps (g ++ c :: d1) SKvs false p (T ++ [x])) = Next (mkps (c :: d1) SArrVal true p (T ++ [TMixedContainer; x])).
Proof.
  intros Hg Hc Hq.
  assert (Hsig : significant c = true) by (apply value_start_or_close_sig; destruct Hc as [H| ->]; [left; left; exact H | right; reflexivity]).
  assert (Hfacts : beq c 60 = false /\ beq c 62 = false /\ beq c 33 = false /\ beq c 61 = false /\ beq c 123 = false).
  { destruct Hc as [H| ->]; [|repeat split; reflexivity]. apply scalar_start_facts in H. tauto. }
  destruct Hfacts as (H60 & H62 & H33 & H61 & H123).
  unfold step. cbn [pdata pst_ pmixed pparent ptape].
  rewrite skip_ws_gap_sig by assumption. rewrite op2_none by assumption. rewrite H123, tinsert_snoc.
  destruct (beq c 63) eqn:E63; [|reflexivity]. cbn [andb].
  destruct d1 as [|c1 r]; [reflexivity|].
  destruct (N.eqb_spec c1 61) as [->|Hne].
  - exfalso. apply Hq. split; [apply N.eqb_eq; exact E63 | eexists; reflexivity].
  - destruct c1 as [|pc]; [reflexivity|]. repeat (destruct pc as [pc|pc|]; try reflexivity). congruence.
Qed.

Lemma reach_kvs_to_mixed g c d1 p T x :
  gap_ok g -> scalar_start c = true \/ c = 125%N ->
  ~ (c = 63%N /\ exists r, d1 = 61%N :: r) ->
  reaches (mkps (g ++ c :: d1) SKvs false p (T ++ [x])) (mkps (g ++ c :: d1) SArrVal true p (T ++ [TMixedContainer; x])).
Proof.
  intros Hg Hc Hq. eapply reaches_step; [apply step_kvs_to_mixed; assumption | | meas_tac].
  assert (Hsig : significant c = true).
  { apply value_start_or_close_sig. destruct Hc as [H| ->]; [left; left; exact H | right; reflexivity]. }
  repeat split. cbn [pdata]. rewrite skip_ws_gap_sig by assumption. rewrite skip_ws_significant by assumption. reflexivity.
Qed.

Lemma op2_symbol o rest : o <> TextTok.Exists -> hdP (fun c => c <> 61%N) rest ->
  op2 (op_symbol o ++ rest) = Some (o, length (op_symbol o)).
Proof.
  intros Ho Hr. destruct o; cbn [op_symbol app length]; try reflexivity; try congruence;
    (destruct rest as [|c r]; [reflexivity|]; cbn [hdP] in Hr; cbn [op2];
     destruct c as [|pc]; [reflexivity|]; repeat (destruct pc as [pc|pc|]; try reflexivity); congruence).
Qed.

(* an operator in an array: the array turns into (or already is) a key-value list *)
Lemma step_arrval_op g o rest (m : bool) p T x :
  gap_ok g -> o <> TextTok.Exists -> hdP (fun c => c <> 61%N) rest -> is_scalar_tok x = true ->
  step (mkps (g ++ op_symbol o ++ rest) SArrVal m p (T ++ [x])) =
  Next (mkps rest SArrVal true p ((if m then T ++ [x] else T ++ [TMixedContainer; x]) ++ [TOperator o])).
Proof.
  intros Hg Ho Hr Hx.
  assert (exists c r, op_symbol o = c :: r /\ significant c = true /\ beq c 123 = false /\ beq c 125 = false /\
                      (beq c 34 || beq c 64) = false /\ (beq c 60 || beq c 62 || beq c 33 || beq c 61) = true)
    as (c & r & Eo & Hsig & H123 & H125 & Hq & Hop).
  { destruct o; try congruence; eexists _, _; repeat split. }
  unfold step. cbn [pdata pst_ pmixed pparent ptape].
  pose proof (op2_symbol o rest Ho Hr) as Hop2. rewrite Eo in *. cbn [app] in *.
  rewrite skip_ws_gap_sig by assumption. rewrite H123, H125, Hq, Hop, Hop2.
  assert (Hskip : skipn (length (c :: r)) (c :: r ++ rest) = rest).
  { change (c :: r ++ rest) with ((c :: r) ++ rest). rewrite skipn_app, Nat.sub_diag, skipn_all. reflexivity. }
  destruct m.
  - rewrite Hskip. reflexivity.
  - unfold tlast. rewrite length_snoc. cbn [Nat.sub]. rewrite Nat.sub_0_r, nth_error_mid, Hx, tinsert_snoc, Hskip. reflexivity.
Qed.

Lemma reach_arrval_op g o rest (m : bool) p T x :
  gap_ok g -> o <> TextTok.Exists -> hdP (fun c => c <> 61%N) rest -> is_scalar_tok x = true ->
  reaches (mkps (g ++ op_symbol o ++ rest) SArrVal m p (T ++ [x]))
          (mkps rest SArrVal true p ((if m then T ++ [x] else T ++ [TMixedContainer; x]) ++ [TOperator o])).
Proof.
  intros Hg Ho Hr Hx. eapply reaches_step; [apply step_arrval_op; assumption | apply same_upto_ws_refl |].
  meas_tac. destruct o; cbn [op_symbol length]; lia.
Qed.

(* ------------------------------------------------------------------ objects with a tail of bare values *)
Definition OHlemma (fs : fields) : Prop :=
  forall g i more T p, (forall j, gap_ok (g j)) -> sep_ok g (toks_fields fs ++ more) i -> T <> [] ->
  reaches (mkps (render_toks g (toks_fields fs ++ more) i) SOpen false p (T ++ [TArray 0 false]))
          (mkps (render_toks g more (i + length (toks_fields fs))) SKey false (length T)
                (T ++ TObject p false :: flat_fields false (S (length T)) fs)).

Lemma OH_field k key o v fs :
  wf_scalar k key = true -> obj_first_op (Some o) = true -> FRlemma (Some o) v -> Flemma fs ->
  OHlemma (FCons (Field k key (Some o) v) fs).
Proof.
  intros Hkey Hop HFR HF g i more T p Hg Hsep HT.
  cbn [toks_fields toks_field app] in *.
  rewrite <- ?app_assoc in *. cbn [app] in *. rewrite <- ?app_assoc in *.
  cbn [sep_ok] in Hsep. destruct Hsep as [Hs Hsep]. rewrite render_toks_cons. cbn [fst stok].
  assert (Hb : k = Unq -> starts_boundary (render_toks g (optok (Some o) ++ toks_value v ++ toks_fields fs ++ more) (S i)))
    by (intros ->; apply Hs; reflexivity).
  destruct (op_first_not_eq o Hop) as (c2 & r2 & Eo & Hobj & Hsig).
  assert (Hsk : skip_ws_t (render_toks g (optok (Some o) ++ toks_value v ++ toks_fields fs ++ more) (S i)) =
                Some (c2 :: r2 ++ render_toks g (toks_value v ++ toks_fields fs ++ more) (S (S i)))).
  { cbn [optok app render_toks fst]. rewrite Eo. cbn [app]. apply skip_ws_gap_sig; [apply Hg | exact Hsig]. }
  eapply reaches_trans.
  { eapply reaches_eq; [apply (reach_open_scalar (g i) k key _ p T (TArray 0 false) _ _ (Hg i) Hkey Hb Hsk)|].
    rewrite Hobj. reflexivity. }
  eapply reaches_trans.
  { apply (HFR g (S i) (toks_fields fs ++ more) (T ++ [TObject p false; scalar_tok k key]) (length T) Hg Hsep).
    right. exists p. apply nth_error_mid. }
  apply sep_ok_app in Hsep. apply sep_ok_app in Hsep.
  eapply reaches_eq.
  { apply (HF g _ more _ (length T) Hg Hsep).
    right. right. exists p. rewrite <- app_assoc. cbn [app]. apply nth_error_mid. }
  cbn [flat_fields flat_field]. rewrite !app_length. cbn [length app]. rewrite !app_length. cbn [length].
  tape_eq.
Qed.

Definition tail_toks (off : nat) (tl : values) : ttape :=
  match tl with VNil => [] | VCons _ _ => TMixedContainer :: flat_values (S off) tl end.

Definition OElemma (c : vctx) (tl : values) : Prop :=
  forall g i more T p U, (forall j, gap_ok (g j)) -> sep_ok g (toks_values tl ++ rbrace :: more) i -> ctx_ok c T p ->
  reaches (mkps (render_toks g (toks_values tl ++ rbrace :: more) i) SKey false (length T) (T ++ TObject p false :: U))
          (mkps (render_toks g more (i + length (toks_values tl) + 1)) (post_st c) false p
                (T ++ TObject (length T + 1 + length U + length (tail_toks (length T + 1 + length U) tl)) (values_nonempty tl)
                   :: U ++ tail_toks (length T + 1 + length U) tl ++ [TEnd (length T)])).

Lemma B_object_gen c fs tv : OHlemma fs -> OElemma c tv -> Blemma c (VObject fs tv).
Proof.
  intros HOH HOE g i more T p Hg Hsep Hctx.
  cbn [toks_value tl] in *. rewrite <- ?app_assoc in *. cbn [app] in *.
  eapply reaches_trans; [apply (HOH g i _ T p Hg Hsep); eapply ctx_ok_ne; eassumption|].
  apply sep_ok_app in Hsep.
  eapply reaches_eq; [apply (HOE g _ more T p _ Hg Hsep Hctx)|].
  cbn [flat_value]. rewrite !app_length. cbn [length]. rewrite ?flat_fields_len.
  destruct tv; cbn [tail_toks length toks_values app]; tape_eq.
Qed.

Lemma OE_nil c : OElemma c VNil.
Proof.
  intros g i more T p U Hg Hsep Hctx. cbn [toks_values app length tail_toks values_nonempty] in *.
  rewrite render_toks_cons. cbn [fst rbrace app].
  eapply reaches_eq.
  { apply (reach_key_close (g i) _ false T p U (post_st c) false (Hg i)).
    - eapply ctx_ok_ne; eassumption.
    - apply (ctx_ok_restore c). apply (ctx_ok_app c T p _ Hctx). }
  tape_eq.
Qed.

(* bare values in a mixed container *)
Lemma T_all : forall vs, wf_tail vs = true ->
  forall g i more T p, (forall j, gap_ok (g j)) -> sep_ok g (toks_values vs ++ more) i ->
  reaches (mkps (render_toks g (toks_values vs ++ more) i) SArrVal true p T)
          (mkps (render_toks g more (i + length (toks_values vs))) SArrVal true p (T ++ flat_values (length T) vs)).
Proof.
  induction vs as [|v vs IH]; intros Hwf g i more T p Hg Hsep.
  - cbn [toks_values app length flat_values]. rewrite Nat.add_0_r, app_nil_r. apply reaches_refl.
  - cbn [wf_tail] in Hwf. andb_split. destruct v as [k s| | | |]; try discriminate.
    cbn [toks_values toks_value app wf_value] in *. cbn [sep_ok] in Hsep. destruct Hsep as [Hs Hsep].
    rewrite render_toks_cons. cbn [fst stok].
    eapply reaches_trans.
    { apply (reach_arrval_scalar (g i) k s _ true p T (Hg i)); [assumption|]. intros ->. apply Hs. reflexivity. }
    eapply reaches_eq; [apply (IH ltac:(assumption) g (S i) more _ p Hg Hsep)|].
    unfold tpush. cbn [flat_values flat_value length app]. rewrite !app_length. cbn [length]. tape_eq.
Qed.

Lemma wf_unq_second c r : wf_unq (c :: r) = true -> hdP (fun x => x <> 61%N) r.
Proof.
  unfold wf_unq. intros H. apply Bool.orb_true_iff in H. destruct H as [H|H].
  - unfold wf_word in H. andb_split. destruct r as [|x r]; [exact I|]. cbn [hdP].
    cbn [forallb] in *. andb_split. intros ->. discriminate.
  - unfold wf_varexpr in H. destruct c as [|p0]; [discriminate|].
    do 7 (destruct p0 as [p0|p0|]; try discriminate).
    destruct r as [|c1 r]; [exact I|]. cbn [hdP]. intros ->. discriminate.
Qed.

Definition close_or_scalar (c : N) : Prop := scalar_start c = true \/ c = 125%N.

Lemma tail_first vs more : wf_tail vs = true -> tok_starts close_or_scalar (toks_values vs ++ rbrace :: more).
Proof.
  destruct vs as [|v vs]; cbn [toks_values app wf_tail].
  - intros _. exists 125%N, []. split; [reflexivity | right; reflexivity].
  - intros H. andb_split. destruct v as [k s| | | |]; try discriminate. cbn [toks_value app wf_value] in *.
    destruct (scalar_bytes_hd _ _ ltac:(eassumption)) as (c & r & E & Hc). exists c, r. split; [exact E | left; exact Hc].
Qed.

(* the token after the first bare value: never read as an operator *)
Lemma tail_next vs more g j : (forall j, gap_ok (g j)) -> wf_tail vs = true ->
  exists c d1, render_toks g (toks_values vs ++ rbrace :: more) j = g j ++ c :: d1 /\ close_or_scalar c /\
               ~ (c = 63%N /\ exists r, d1 = 61%N :: r).
Proof.
  intros Hg Hwf. destruct vs as [|v vs]; cbn [toks_values app wf_tail] in *.
  - exists 125%N, (render_toks g more (S j)). split; [reflexivity|]. split; [right; reflexivity|]. intros [H _]. discriminate.
  - andb_split. destruct v as [k s| | | |]; try discriminate. cbn [toks_value app wf_value] in *.
    destruct (scalar_bytes_hd k s ltac:(assumption)) as (c & r & E & Hc).
    exists c, (r ++ render_toks g (toks_values vs ++ rbrace :: more) (S j)).
    split; [rewrite render_toks_cons; cbn [fst stok]; rewrite E; reflexivity|]. split; [left; exact Hc|].
    intros (-> & r' & Er).
    destruct k; cbn [scalar_bytes wf_scalar] in *; [|discriminate].
    subst s. pose proof (wf_unq_second _ _ ltac:(eassumption)) as H2.
    destruct r as [|x r]; cbn [app] in Er.
    + assert (H3 : hdP (fun x => x <> 61%N) (render_toks g (toks_values vs ++ rbrace :: more) (S j))).
      { apply render_hdP; [exact Hg | | discriminate |].
        - intros c Hc' ->. discriminate.
        - eapply tok_starts_impl; [|apply tail_first; assumption]. intros c [Hc'| ->]; [|discriminate]. intros ->. discriminate. }
      rewrite Er in H3. apply H3. reflexivity.
    + inversion Er. subst. apply H2. reflexivity.
Qed.

Lemma OE_tail c k s tl : wf_scalar k s = true -> wf_tail tl = true -> OElemma c (VCons (VScalar k s) tl).
Proof.
  intros Hwf Hwft g i more T p U Hg Hsep Hctx.
  cbn [toks_values toks_value app length values_nonempty] in *.
  cbn [sep_ok] in Hsep. destruct Hsep as [Hs Hsep]. rewrite render_toks_cons. cbn [fst stok].
  eapply reaches_trans.
  { apply (reach_key_scalar (g i) k s _ false (length T) _ (Hg i) Hwf). intros ->. apply Hs. reflexivity. }
  destruct (tail_next tl more g (S i) Hg Hwft) as (c2 & d1 & Ed & Hc2 & Hq).
  eapply reaches_trans.
  { rewrite Ed. unfold tpush. apply (reach_kvs_to_mixed (g (S i)) c2 d1 (length T) _ _ (Hg _) Hc2 Hq). }
  rewrite <- Ed.
  eapply reaches_trans; [apply (T_all tl Hwft g (S i) (rbrace :: more) _ (length T) Hg Hsep)|].
  apply sep_ok_app in Hsep. rewrite render_toks_cons. cbn [fst rbrace app].
  eapply reaches_eq.
  { rewrite <- !app_assoc. cbn [app].
    apply (reach_arrval_close (g _) _ true T p false _ (post_st c) false false (Hg _)).
    - eapply ctx_ok_ne; eassumption.
    - apply (ctx_ok_restore c). apply (ctx_ok_app c T p _ Hctx). }
  cbn [tail_toks flat_values flat_value]. rewrite !app_length. cbn [length app]. rewrite !app_length. cbn [length].
  tape_eq.
Qed.

(* ------------------------------------------------------------------ arrays that turn into key-value lists *)
Lemma is_scalar_tok_scalar k s : is_scalar_tok (scalar_tok k s) = true.
Proof. destruct k; reflexivity. Qed.

(* one `key op scalar` inside an array; m = the marker is already there *)
Lemma KV1 (m : bool) k key o kv sv :
  wf_scalar k key = true -> o <> TextTok.Exists -> wf_scalar kv sv = true ->
  forall g i more T p, (forall j, gap_ok (g j)) ->
  sep_ok g (stok k key :: (op_symbol o, false) :: stok kv sv :: more) i ->
  reaches (mkps (render_toks g (stok k key :: (op_symbol o, false) :: stok kv sv :: more) i) SArrVal m p T)
          (mkps (render_toks g more (S (S (S i)))) SArrVal true p
                (T ++ (if m then [] else [TMixedContainer]) ++ [scalar_tok k key; TOperator o; scalar_tok kv sv])).
Proof.
  intros Hkey Ho Hval g i more T p Hg Hsep.
  cbn [sep_ok] in Hsep. destruct Hsep as (Hs1 & _ & Hs3 & _).
  rewrite !render_toks_cons. cbn [fst stok].
  eapply reaches_trans.
  { apply (reach_arrval_scalar (g i) k key _ m p T (Hg i) Hkey). intros ->. apply Hs1. reflexivity. }
  eapply reaches_trans.
  { unfold tpush. apply (reach_arrval_op (g (S i)) o _ m p T _ (Hg _) Ho); [|apply is_scalar_tok_scalar].
    destruct (scalar_bytes_hd _ _ Hval) as (cv & rv & Ev & Hcv). rewrite Ev.
    apply hdP_gap; [apply Hg | | discriminate |].
    - intros c Hc ->. discriminate.
    - cbn. intros ->. discriminate. }
  eapply reaches_eq.
  { apply (reach_arrval_scalar (g (S (S i))) kv sv _ true p _ (Hg _) Hval). intros ->. apply Hs3. reflexivity. }
  unfold tpush. destruct m; tape_eq.
Qed.

Lemma KV_all : forall kvs, wf_kvs kvs = true ->
  forall g i more T p, (forall j, gap_ok (g j)) -> sep_ok g (toks_fields kvs ++ more) i ->
  reaches (mkps (render_toks g (toks_fields kvs ++ more) i) SArrVal true p T)
          (mkps (render_toks g more (i + length (toks_fields kvs))) SArrVal true p (T ++ flat_fields true (length T) kvs)).
Proof.
  induction kvs as [|f kvs IH]; intros Hwf g i more T p Hg Hsep.
  - cbn [toks_fields app length flat_fields]. rewrite Nat.add_0_r, app_nil_r. apply reaches_refl.
  - destruct f as [k key op v| |]; try discriminate. cbn [wf_kvs] in Hwf. andb_split.
    destruct v as [kv sv| | | |]; try discriminate. destruct op as [o|]; [|discriminate].
    cbn [toks_fields toks_field toks_value optok app wf_value] in *.
    assert (Ho : o <> TextTok.Exists) by (intros ->; discriminate).
    eapply reaches_trans; [apply (KV1 true k key o kv sv ltac:(assumption) Ho ltac:(assumption) g i _ T p Hg Hsep)|].
    cbn [sep_ok] in Hsep. destruct Hsep as (_ & _ & _ & Hsep).
    eapply reaches_eq; [apply (IH ltac:(assumption) g _ more _ p Hg Hsep)|].
    assert (E : op_toks true (Some o) = [TOperator o]) by (destruct o; reflexivity).
    cbn [flat_fields flat_field flat_value length app]. rewrite E. rewrite !app_length. cbn [length app].
    tape_eq.
Qed.

Lemma akv_first items kvs more : wf_items items = true -> wf_kvs kvs = true -> kvs_nonempty kvs = true ->
  tok_starts value_start (toks_values items ++ toks_fields kvs ++ rbrace :: more).
Proof.
  intros Hi Hk Hne. destruct items as [|v vs]; cbn [toks_values app wf_items] in *.
  - destruct kvs as [|f kvs]; [discriminate|]. destruct f as [k key op v| |]; try discriminate.
    cbn [wf_kvs toks_fields toks_field app] in *. andb_split.
    destruct (scalar_bytes_hd k key ltac:(assumption)) as (c & r & E & Hc). exists c, r. split; [exact E | left; exact Hc].
  - andb_split. rewrite <- app_assoc. apply value_first. assumption.
Qed.

Lemma B_arraykv c k s items kvs :
  wf_scalar k s = true -> wf_items items = true -> wf_kvs kvs = true -> kvs_nonempty kvs = true ->
  Ilemma items -> Blemma c (VArrayKv (VCons (VScalar k s) items) kvs).
Proof.
  intros Hwf Hwfi Hwfk Hne HI g i more T p Hg Hsep Hctx.
  cbn [toks_value tl toks_values toks_value app] in *. rewrite <- ?app_assoc in *. cbn [app] in *.
  cbn [sep_ok] in Hsep. destruct Hsep as [Hs Hsep]. rewrite render_toks_cons. cbn [fst stok].
  assert (Hb : k = Unq -> starts_boundary (render_toks g (toks_values items ++ toks_fields kvs ++ rbrace :: more) (S i)))
    by (intros ->; apply Hs; reflexivity).
  destruct (render_skip _ g _ (S i) Hg value_start_sig (akv_first items kvs more Hwfi Hwfk Hne)) as (c2 & r2 & Hsk & Hc2).
  eapply reaches_trans.
  { eapply reaches_eq; [apply (reach_open_scalar (g i) k s _ p T (TArray 0 false) c2 r2 (Hg i) Hwf Hb Hsk)|].
    rewrite (value_start_not_obj c2 (or_introl Hc2)). reflexivity. }
  eapply reaches_trans.
  { apply (HI g (S i) _ (T ++ [TArray p false; scalar_tok k s]) (length T) Hg Hsep). exists p. apply nth_error_mid. }
  apply sep_ok_app in Hsep.
  destruct kvs as [|f kvs]; [discriminate|]. destruct f as [kk key op v| |]; try discriminate.
  cbn [wf_kvs] in Hwfk. andb_split. destruct v as [kv sv| | | |]; try discriminate. destruct op as [o|]; [|discriminate].
  cbn [toks_fields toks_field toks_value optok app wf_value] in *. rewrite <- ?app_assoc in *. cbn [app] in *.
  assert (Ho : o <> TextTok.Exists) by (intros ->; discriminate).
  eapply reaches_trans; [apply (KV1 false kk key o kv sv ltac:(assumption) Ho ltac:(assumption) g _ _ _ (length T) Hg Hsep)|].
  cbn [sep_ok] in Hsep. destruct Hsep as (_ & _ & _ & Hsep).
  eapply reaches_trans; [apply (KV_all kvs ltac:(assumption) g _ (rbrace :: more) _ (length T) Hg Hsep)|].
  apply sep_ok_app in Hsep. rewrite render_toks_cons. cbn [fst rbrace app].
  eapply reaches_eq.
  { rewrite <- ?app_assoc. cbn [app]. rewrite <- ?app_assoc. cbn [app].
    apply (reach_arrval_close (g _) _ true T p false _ (post_st c) false true (Hg _)).
    - eapply ctx_ok_ne; eassumption.
    - apply (ctx_ok_restore c). apply (ctx_ok_app c T p _ Hctx). }
  assert (E : op_toks true (Some o) = [TOperator o]) by (destruct o; reflexivity).
  cbn [flat_value flat_values flat_fields flat_field flat_value]. rewrite E.
  rewrite !app_length. cbn [length app]. rewrite !app_length. cbn [length app]. rewrite !app_length. cbn [length app].
  tape_eq.
Qed.

(* ------------------------------------------------------------------ parameters: [[name] value ]  [[!name] k = v .. ] *)
Lemma not33 (n : N) : n <> 33%N -> match Some n with Some 33%N => true | _ => false end = false.
Proof.
  intros H. destruct n as [|p]; [reflexivity|]. repeat (destruct p as [p|p|]; try reflexivity). congruence.
Qed.

Lemma wf_pname_facts name : wf_pname name = true ->
  exists n0 name', name = n0 :: name' /\ n0 <> 33%N /\ forallb (fun b => negb (is_boundary b)) name = true.
Proof.
  unfold wf_pname. destruct name as [|n0 name']; [discriminate|]. intros H. exists n0, name'. split; [reflexivity|]. split; [|exact H].
  cbn [forallb] in H. andb_split. intros ->. discriminate.
Qed.

(* the part of parse_parameter_definition up to and including the closing bracket of the name *)
Lemma parse_param_name u name rest p st t :
  wf_pname name = true ->
  parse_param (pname_bytes u name ++ rest) p st t false =
  let t1 := tpush t (param_tok u name) in
  match skip_ws_t rest with
  | None => Fail E_TextErr
  | Some d =>
      match split_at_scalar d with
      | Ok (kv, d) =>
          match skip_ws_t d with
          | None => Fail E_TextErr
          | Some d =>
              match d with
              | 93%N :: d' => Next (mkps d' SKey false p (tpush t1 (TUnquoted kv)))
              | _ => Next (mkps d SKvs false (length t1) (tpush (tpush t1 (TObject p false)) (TUnquoted kv)))
              end
          end
      | _ => Crash 3011%N
      end
  end.
Proof.
  intros Hn. destruct (wf_pname_facts name Hn) as (n0 & name' & -> & Hn0 & Hall).
  assert (Hsplit : split_at_scalar ((n0 :: name') ++ 93%N :: rest) = Ok (n0 :: name', 93%N :: rest)).
  { apply split_at_scalar_word; [discriminate | exact Hall | reflexivity]. }
  unfold parse_param, pname_bytes. destruct u.
  - cbn [app nth_error]. cbn [length Nat.ltb Nat.leb skipn]. rewrite <- app_assoc. cbn [app] in *. rewrite Hsplit. reflexivity.
  - cbn [app nth_error]. rewrite (not33 n0 Hn0). cbn [length Nat.ltb Nat.leb skipn]. rewrite <- app_assoc. cbn [app] in *.
    rewrite Hsplit. reflexivity.
Qed.

Lemma wf_unq_word s : wf_word s = true ->
  exists c r, s = c :: r /\ scalar_start c = true /\ forallb (fun b => negb (is_boundary b)) s = true.
Proof.
  intros H. destruct (scalar_bytes_hd Unq s (wf_word_unq s H)) as (c & r & E & Hc). exists c, r. cbn in E. split; [exact E|]. split; [exact Hc|].
  subst s. unfold wf_word in H. andb_split. assumption.
Qed.

Lemma parse_param_value u name g1 s g2 rest p st t :
  wf_pname name = true -> wf_word s = true -> gap_ok g1 -> gap_ok g2 -> starts_boundary (g2 ++ 93%N :: rest) ->
  parse_param (pname_bytes u name ++ g1 ++ s ++ g2 ++ 93%N :: rest) p st t false =
  Next (mkps rest SKey false p (t ++ [param_tok u name; TUnquoted s])).
Proof.
  intros Hn Hs Hg1 Hg2 Hb. rewrite parse_param_name by exact Hn. cbv zeta.
  destruct (wf_unq_word s Hs) as (c & r & -> & Hc & Hall).
  cbn [app]. rewrite skip_ws_gap_sig; [|exact Hg1 | apply scalar_start_facts in Hc; tauto].
  change (c :: r ++ g2 ++ 93%N :: rest) with ((c :: r) ++ g2 ++ 93%N :: rest).
  rewrite split_at_scalar_word; [|discriminate | exact Hall | exact Hb].
  rewrite skip_ws_gap_sig by (assumption || reflexivity). unfold tpush. rewrite <- app_assoc. reflexivity.
Qed.

Lemma parse_param_object u name g1 s rest c2 r2 p st t :
  wf_pname name = true -> wf_word s = true -> gap_ok g1 -> starts_boundary rest ->
  skip_ws_t rest = Some (c2 :: r2) -> c2 <> 93%N ->
  parse_param (pname_bytes u name ++ g1 ++ s ++ rest) p st t false =
  Next (mkps (c2 :: r2) SKvs false (S (length t)) (t ++ [param_tok u name; TObject p false; TUnquoted s])).
Proof.
  intros Hn Hs Hg1 Hb Hsk Hc2. rewrite parse_param_name by exact Hn. cbv zeta.
  destruct (wf_unq_word s Hs) as (c & r & -> & Hc & Hall).
  cbn [app]. rewrite skip_ws_gap_sig; [|exact Hg1 | apply scalar_start_facts in Hc; tauto].
  change (c :: r ++ rest) with ((c :: r) ++ rest).
  rewrite split_at_scalar_word; [|discriminate | exact Hall | exact Hb].
  rewrite Hsk. unfold tpush. rewrite length_snoc, <- !app_assoc. cbn [app].
  destruct c2 as [|pc]; [reflexivity|]. repeat (destruct pc as [pc|pc|]; try reflexivity). congruence.
Qed.

Lemma parse_param_initial d p st T x :
  parse_param d p st (T ++ [x]) true = parse_param d (length T) st (T ++ [TObject p false]) false.
Proof. unfold parse_param. rewrite length_snoc, tset_app. reflexivity. Qed.

Lemma step_key_param g rest m p t :
  gap_ok g ->
  step (mkps (g ++ 91%N :: rest) SKey m p t) = keep_mixed m (parse_param (91%N :: rest) p SKey t false).
Proof.
  intros Hg. unfold step. cbn [pdata pst_ pmixed pparent ptape].
  rewrite skip_ws_gap_sig by (assumption || reflexivity). reflexivity.
Qed.

Lemma step_open_param g rest p T x :
  gap_ok g ->
  step (mkps (g ++ 91%N :: rest) SOpen false p (T ++ [x])) =
  keep_mixed false (parse_param (91%N :: rest) (length T) SOpen (T ++ [TObject p false]) false).
Proof.
  intros Hg. unfold step. cbn [pdata pst_ pmixed pparent ptape].
  rewrite skip_ws_gap_sig by (assumption || reflexivity). cbn [beq N.eqb Pos.eqb]. rewrite parse_param_initial. reflexivity.
Qed.

(* `]` closes a parameter object exactly like `}` closes an object *)
Lemma step_key_close93 g rest m T gp U st' m' :
  gap_ok g -> T <> [] -> restore (T ++ TObject gp false :: U) gp = (st', m') ->
  step (mkps (g ++ 93%N :: rest) SKey m (length T) (T ++ TObject gp false :: U)) =
  Next (mkps rest st' m' gp (T ++ TObject (length T + 1 + length U) m :: U ++ [TEnd (length T)])).
Proof.
  intros Hg HT Hr. unfold step. cbn [pdata pst_ pmixed pparent ptape].
  rewrite skip_ws_gap_sig by (assumption || reflexivity).
  cbn [beq N.eqb Pos.eqb orb]. unfold slot, tget. rewrite nth_error_mid, Hr.
  assert (length T =? 0 = false) as -> by (apply Nat.eqb_neq; destruct T; [congruence | discriminate]).
  cbn [andb]. unfold tpush. rewrite <- app_assoc. cbn [app]. rewrite tset_app.
  rewrite !app_length. cbn [length].
  replace (length T + S (length U)) with (length T + 1 + length U) by lia. reflexivity.
Qed.

Lemma reach_key_close93 g rest m T gp U st' m' :
  gap_ok g -> T <> [] -> restore (T ++ TObject gp false :: U) gp = (st', m') ->
  reaches (mkps (g ++ 93%N :: rest) SKey m (length T) (T ++ TObject gp false :: U))
          (mkps rest st' m' gp (T ++ TObject (length T + 1 + length U) m :: U ++ [TEnd (length T)])).
Proof.
  intros Hg HT Hr. eapply reaches_step; [apply step_key_close93; eassumption | apply same_upto_ws_refl |].
  meas_tac. pose proof (phi_le1 st'). lia.
Qed.

Lemma pname_len u name : 4 <= length (pname_bytes u name) \/ name = [].
Proof. destruct name; [right; reflexivity|]. left. unfold pname_bytes. destruct u; cbn [app length]; rewrite app_length; cbn; lia. Qed.

Lemma pname_head u name : exists r, pname_bytes u name = 91%N :: r.
Proof. eexists. reflexivity. Qed.

(* [[name] value ]  — the machine state s0 is the one whose step enters parse_parameter_definition *)
Lemma PV_run name u s : wf_pname name = true -> wf_word s = true ->
  forall g i more T0 p0 st s0, (forall j, gap_ok (g j)) -> sep_ok g (toks_field (ParamV name u s) ++ more) i ->
  step s0 = keep_mixed false (parse_param (pname_bytes u name ++ render_toks g (((s, true) : rtok) :: rbracket :: more) (S i)) p0 st T0 false) ->
  2 * length (pname_bytes u name ++ render_toks g (((s, true) : rtok) :: rbracket :: more) (S i)) <= meas s0 ->
  reaches s0 (mkps (render_toks g more (i + 3)) SKey false p0 (T0 ++ [param_tok u name; TUnquoted s])).
Proof.
  intros Hn Hs g i more T0 p0 st s0 Hg Hsep Hstep Hm.
  cbn [toks_field app] in Hsep. cbn [sep_ok] in Hsep. destruct Hsep as (_ & Hs2 & _).
  rewrite !render_toks_cons in *. cbn [fst rbracket app] in *.
  rewrite parse_param_value in Hstep; [| assumption | assumption | apply Hg | apply Hg | apply Hs2; reflexivity].
  cbn [keep_mixed pdata pst_ pparent ptape] in Hstep.
  eapply reaches_step; [exact Hstep | replace (i + 3) with (S (S (S i))) by lia; apply same_upto_ws_refl |].
  replace (i + 3) with (S (S (S i))) by lia.
  destruct (pname_len u name) as [Hl| ->]; [|discriminate].
  revert Hm. meas_tac.
Qed.

Lemma step_key_pname g u name rest m p t :
  gap_ok g ->
  step (mkps (g ++ pname_bytes u name ++ rest) SKey m p t) = keep_mixed m (parse_param (pname_bytes u name ++ rest) p SKey t false).
Proof. intros Hg. unfold pname_bytes. cbn [app]. apply step_key_param. exact Hg. Qed.

Lemma step_open_pname g u name rest p T x :
  gap_ok g ->
  step (mkps (g ++ pname_bytes u name ++ rest) SOpen false p (T ++ [x])) =
  keep_mixed false (parse_param (pname_bytes u name ++ rest) (length T) SOpen (T ++ [TObject p false]) false).
Proof. intros Hg. unfold pname_bytes. cbn [app]. apply step_open_param. exact Hg. Qed.

Lemma F1_paramV name u s : wf_pname name = true -> wf_word s = true -> F1lemma (ParamV name u s).
Proof.
  intros Hn Hs g i more T p Hg Hsep Hctx.
  eapply reaches_eq.
  { apply (PV_run name u s Hn Hs g i more T p SKey _ Hg Hsep).
    - cbn [toks_field app]. rewrite render_toks_cons. cbn [fst]. apply step_key_pname. apply Hg.
    - unfold meas. cbn [pdata pst_ phi toks_field app]. rewrite (render_toks_cons g _ _ i). cbn [fst].
      rewrite !app_length. lia. }
  cbn [toks_field length flat_field]. reflexivity.
Qed.

Lemma ctx_ok_cons c T0 P X p : ctx_ok c (T0 ++ [P]) p -> ctx_ok c (T0 ++ P :: X) p.
Proof. intros H. replace (T0 ++ P :: X) with ((T0 ++ [P]) ++ X) by (rewrite <- app_assoc; reflexivity). apply ctx_ok_app. exact H. Qed.

Lemma reach_key_close93_param g rest m T0 P gp U st' m' :
  gap_ok g -> restore (T0 ++ P :: TObject gp false :: U) gp = (st', m') ->
  reaches (mkps (g ++ 93%N :: rest) SKey m (S (length T0)) (T0 ++ P :: TObject gp false :: U))
          (mkps rest st' m' gp (T0 ++ P :: TObject (S (length T0) + 1 + length U) m :: U ++ [TEnd (S (length T0))])).
Proof.
  intros Hg Hr.
  assert (HT : T0 ++ [P] <> []) by (intros E; apply app_eq_nil in E; destruct E; discriminate).
  pose proof (reach_key_close93 g rest m (T0 ++ [P]) gp U st' m' Hg HT) as H.
  rewrite length_snoc in H. rewrite <- !app_assoc in H. cbn [app] in H. apply H. exact Hr.
Qed.

Lemma nth_error_param2 {A} (T0 : list A) P x y X : nth_error ((T0 ++ [P; x; y]) ++ X) (S (length T0)) = Some x.
Proof.
  replace (T0 ++ [P; x; y]) with ((T0 ++ [P]) ++ x :: [y]) by (rewrite <- app_assoc; reflexivity).
  rewrite <- (length_snoc T0 P). apply nth_error_mid2.
Qed.
Lemma nth_error_param1 {A} (T0 : list A) P x y : nth_error (T0 ++ [P; x; y]) (S (length T0)) = Some x.
Proof. rewrite <- (app_nil_r (T0 ++ [P; x; y])). apply nth_error_param2. Qed.

(* [[name] key op value .. ] *)
Lemma PO_run name u key o v fs :
  wf_pname name = true -> wf_word key = true -> FRlemma (Some o) v -> Flemma fs ->
  forall g i more T0 p0 st s0, (forall j, gap_ok (g j)) ->
  sep_ok g (toks_field (ParamO name u (FCons (Field Unq key (Some o) v) fs)) ++ more) i ->
  ctx_ok CObj (T0 ++ [param_tok u name]) p0 ->
  step s0 = keep_mixed false (parse_param (pname_bytes u name ++
              render_toks g (toks_fields (FCons (Field Unq key (Some o) v) fs) ++ rbracket :: more) (S i)) p0 st T0 false) ->
  2 * length (pname_bytes u name ++
              render_toks g (toks_fields (FCons (Field Unq key (Some o) v) fs) ++ rbracket :: more) (S i)) <= meas s0 ->
  reaches s0 (mkps (render_toks g more (i + length (toks_field (ParamO name u (FCons (Field Unq key (Some o) v) fs)))))
                   SKey false p0 (T0 ++ flat_field false (length T0) (ParamO name u (FCons (Field Unq key (Some o) v) fs)))).
Proof.
  intros Hn Hkey HFR HF g i more T0 p0 st s0 Hg Hsep Hctx Hstep Hm.
  cbn [toks_field toks_fields app] in Hsep, Hstep, Hm.
  rewrite <- ?app_assoc in Hsep, Hstep, Hm. cbn [app] in Hsep, Hstep, Hm. rewrite <- ?app_assoc in Hsep, Hstep, Hm.
  cbn [sep_ok] in Hsep. destruct Hsep as (_ & Hs & Hsep).
  rewrite render_toks_cons in Hstep, Hm. cbn [fst stok scalar_bytes] in Hstep, Hm.
  assert (Hb : starts_boundary (render_toks g (optok (Some o) ++ toks_value v ++ toks_fields fs ++ rbracket :: more) (S (S i))))
    by (apply Hs; reflexivity).
  assert (exists c2 r2, op_symbol o = c2 :: r2 /\ significant c2 = true /\ c2 <> 93%N) as (c2 & r2 & Eo & Hsig & H93)
    by (destruct o; eexists _, _; repeat split; discriminate).
  assert (Hsk : skip_ws_t (render_toks g (optok (Some o) ++ toks_value v ++ toks_fields fs ++ rbracket :: more) (S (S i))) =
                Some (c2 :: r2 ++ render_toks g (toks_value v ++ toks_fields fs ++ rbracket :: more) (S (S (S i))))).
  { cbn [optok app render_toks fst]. rewrite Eo. cbn [app]. apply skip_ws_gap_sig; [apply Hg | exact Hsig]. }
  rewrite (parse_param_object u name (g (S i)) key _ c2 _ p0 st T0 Hn Hkey (Hg _) Hb Hsk H93) in Hstep.
  cbn [keep_mixed pdata pst_ pparent ptape] in Hstep.
  eapply reaches_trans.
  { eapply (reaches_step s0 _ (mkps (render_toks g (optok (Some o) ++ toks_value v ++ toks_fields fs ++ rbracket :: more) (S (S i)))
                                 SKvs false (S (length T0)) (T0 ++ [param_tok u name; TObject p0 false; TUnquoted key]))); [exact Hstep | |].
    - repeat split. cbn [pdata]. apply skip_ws_idem. exact Hsk.
    - destruct (pname_len u name) as [Hl| ->]; [|discriminate]. revert Hm. meas_tac. }
  eapply reaches_trans.
  { apply (HFR g (S (S i)) (toks_fields fs ++ rbracket :: more) _ (S (length T0)) Hg Hsep).
    right. exists p0. apply nth_error_param1. }
  assert (Hsep2 : sep_ok g (toks_fields fs ++ rbracket :: more) (S (S i) + length (optok (Some o)) + length (toks_value v))).
  { apply sep_ok_app in Hsep. rewrite app_length, Nat.add_assoc in Hsep. exact Hsep. }
  clear Hsep. rename Hsep2 into Hsep.
  eapply reaches_trans.
  { apply (HF g _ (rbracket :: more) _ (S (length T0)) Hg Hsep).
    right. right. exists p0. apply nth_error_param2. }
  apply sep_ok_app in Hsep. rewrite render_toks_cons. cbn [fst rbracket app].
  eapply reaches_eq.
  { rewrite <- !app_assoc. cbn [app].
    apply (reach_key_close93_param (g _) _ false T0 _ p0 _ SKey false (Hg _)).
    apply (ctx_ok_restore CObj).
    apply ctx_ok_cons. exact Hctx. }
  cbn [toks_field toks_fields toks_field flat_field flat_fields flat_field length].
  rewrite !app_length. cbn [length app]. rewrite !app_length. cbn [length].
  tape_eq.
Qed.

Lemma param_tok_not_cont u name : is_cont_tok (param_tok u name) = false.
Proof. destruct u; reflexivity. Qed.

Lemma F1_paramO name u key o v fs :
  wf_pname name = true -> wf_word key = true -> FRlemma (Some o) v -> Flemma fs ->
  F1lemma (ParamO name u (FCons (Field Unq key (Some o) v) fs)).
Proof.
  intros Hn Hkey HFR HF g i more T p Hg Hsep Hctx.
  assert (Hd : render_toks g (toks_field (ParamO name u (FCons (Field Unq key (Some o) v) fs)) ++ more) i =
               g i ++ pname_bytes u name ++ render_toks g (toks_fields (FCons (Field Unq key (Some o) v) fs) ++ rbracket :: more) (S i)).
  { cbn [toks_field app]. rewrite render_toks_cons. cbn [fst]. rewrite <- app_assoc. reflexivity. }
  apply (PO_run name u key o v fs Hn Hkey HFR HF g i more T p SKey _ Hg Hsep).
  - apply fctx_push; [exact Hctx | apply param_tok_not_cont].
  - rewrite Hd. apply step_key_pname. apply Hg.
  - rewrite Hd. unfold meas. cbn [pdata pst_ phi]. rewrite !app_length. lia.
Qed.

Lemma OH_paramV name u s fs : wf_pname name = true -> wf_word s = true -> Flemma fs -> OHlemma (FCons (ParamV name u s) fs).
Proof.
  intros Hn Hs HF g i more T p Hg Hsep HT.
  cbn [toks_fields] in *. rewrite <- ?app_assoc in *.
  assert (Hd : render_toks g (toks_field (ParamV name u s) ++ toks_fields fs ++ more) i =
               g i ++ pname_bytes u name ++ render_toks g (((s, true) : rtok) :: rbracket :: toks_fields fs ++ more) (S i)).
  { cbn [toks_field app]. rewrite render_toks_cons. reflexivity. }
  eapply reaches_trans.
  { apply (PV_run name u s Hn Hs g i (toks_fields fs ++ more) (T ++ [TObject p false]) (length T) SOpen _ Hg Hsep).
    - rewrite Hd. apply step_open_pname. apply Hg.
    - rewrite Hd. unfold meas. cbn [pdata pst_ phi]. rewrite !app_length. lia. }
  apply sep_ok_app in Hsep.
  eapply reaches_eq.
  { apply (HF g _ more _ (length T) Hg Hsep). right. right. exists p. rewrite <- app_assoc. cbn [app]. apply nth_error_mid. }
  cbn [toks_field flat_fields flat_field length]. rewrite !app_length. cbn [length]. tape_eq.
Qed.

Lemma OH_paramO name u key o v pfs fs :
  wf_pname name = true -> wf_word key = true -> FRlemma (Some o) v -> Flemma pfs -> Flemma fs ->
  OHlemma (FCons (ParamO name u (FCons (Field Unq key (Some o) v) pfs)) fs).
Proof.
  intros Hn Hkey HFR HFp HF g i more T p Hg Hsep HT.
  cbn [toks_fields] in *. rewrite <- ?app_assoc in *.
  assert (Hd : render_toks g (toks_field (ParamO name u (FCons (Field Unq key (Some o) v) pfs)) ++ toks_fields fs ++ more) i =
               g i ++ pname_bytes u name ++
               render_toks g (toks_fields (FCons (Field Unq key (Some o) v) pfs) ++ rbracket :: toks_fields fs ++ more) (S i)).
  { cbn [toks_field app]. rewrite render_toks_cons. cbn [fst]. rewrite <- app_assoc. reflexivity. }
  eapply reaches_trans.
  { apply (PO_run name u key o v pfs Hn Hkey HFR HFp g i (toks_fields fs ++ more) (T ++ [TObject p false]) (length T) SOpen _ Hg Hsep).
    - right. exists p. rewrite <- app_assoc. cbn [app]. apply nth_error_mid.
    - rewrite Hd. apply step_open_pname. apply Hg.
    - rewrite Hd. unfold meas. cbn [pdata pst_ phi]. rewrite !app_length. lia. }
  apply sep_ok_app in Hsep.
  eapply reaches_eq.
  { apply (HF g _ more _ (length T) Hg Hsep). right. right. exists p. rewrite <- app_assoc. cbn [app]. apply nth_error_mid. }
  cbn [flat_fields]. rewrite !app_length. cbn [length]. tape_eq.
Qed.

(* ------------------------------------------------------------------ stage 4: the whole grammar *)
Definition Fparts (f : field) : Prop :=
  match f with
  | Field _ _ op v => FRlemma op v
  | ParamO _ _ (FCons (Field _ _ op v) pfs') => FRlemma op v /\ Flemma pfs'
  | _ => True
  end.
Definition Qv (v : value) : Prop :=
  wf_value v = true ->
  forall c, ((c = CArr -> is_header v = false) -> Vlemma c v) /\ (is_container v = true -> Blemma c v).
Definition Qf (f : field) : Prop := wf_field f = true -> F1lemma f /\ Fparts f.
Definition Qfs (fs : fields) : Prop :=
  wf_fields fs = true ->
  Flemma fs /\ match fs with FCons f fs' => Fparts f /\ Flemma fs' | FNil => True end.
Definition Qvs (vs : values) : Prop :=
  wf_items vs = true ->
  Ilemma vs /\ match vs with VCons _ vs' => Ilemma vs' | VNil => True end.

Lemma full_all :
  (forall v, Qv v) /\ (forall f, Qf f) /\ (forall fs, Qfs fs) /\ (forall vs, Qvs vs).
Proof.
  apply doc_mutind.
  - (* scalar *)
    intros k s Hwf c. split; [intros _; apply V_scalar; exact Hwf | discriminate].
  - (* object *)
    intros fs IHfs tlv IHtl Hwf c. cbn [wf_value] in Hwf. andb_split.
    assert (HB : Blemma c (VObject fs tlv)).
    { apply B_object_gen.
      - destruct (IHfs ltac:(assumption)) as [_ Hparts].
        destruct fs as [|f fs']; [discriminate|]. destruct Hparts as [Hparts HF'].
        cbn [wf_fields] in *. andb_split.
        destruct f as [k key op v|name u s|name u pfs]; cbn [first_field_ok wf_field Fparts] in *; andb_split.
        + destruct op as [o|]; [|discriminate]. apply OH_field; assumption.
        + apply OH_paramV; assumption.
        + destruct pfs as [|pf pfs']; [discriminate|]. destruct pf as [k key op v| |]; try discriminate.
          destruct k; [|discriminate]. destruct op as [o|]; [|discriminate].
          destruct Hparts as [HFR HFp]. cbn [wf_fields wf_field wf_scalar param_first_word] in *. andb_split.
          apply OH_paramO; assumption.
      - destruct tlv as [|v tl']; [apply OE_nil|].
        cbn [wf_tail] in *. andb_split. destruct v as [k s| | | |]; try discriminate.
        apply OE_tail; assumption. }
    split; [intros _; apply V_of_B; [reflexivity | exact HB] | intros _; exact HB].
  - (* array *)
    intros items IH Hwf c. cbn [wf_value] in Hwf. andb_split.
    assert (HB : Blemma c (VArray items)).
    { destruct (IH ltac:(assumption)) as [HI Hparts].
      destruct items as [|v vs]; [apply B_array_nil|].
      cbn [wf_items] in *. andb_split.
      destruct v as [k s| | | |]; try discriminate.
      - apply B_array_scalar; assumption.
      - apply B_array_cont; auto.
      - apply B_array_cont; auto. destruct items; [discriminate | reflexivity].
      - apply B_array_cont; auto. }
    split; [intros _; apply V_of_B; [reflexivity | exact HB] | intros _; exact HB].
  - (* array -> key-value list *)
    intros items IH kvs _ Hwf c. cbn [wf_value] in Hwf. andb_split.
    assert (HB : Blemma c (VArrayKv items kvs)).
    { destruct (IH ltac:(assumption)) as [_ Hparts].
      destruct items as [|v vs]; [discriminate|]. destruct v as [k s| | | |]; try discriminate.
      cbn [wf_items wf_value] in *. andb_split.
      apply B_arraykv; assumption. }
    split; [intros _; apply V_of_B; [reflexivity | exact HB] | intros _; exact HB].
  - (* header *)
    intros name v IH Hwf c. cbn [wf_value] in Hwf. andb_split.
    split; [|discriminate]. intros Hc. destruct c; [|specialize (Hc eq_refl); discriminate].
    apply V_header; try assumption.
    + apply wf_word_unq. assumption.
    + match goal with H : negb _ = true |- _ => apply Bool.negb_true_iff in H; exact H end.
    + apply (IH ltac:(assumption) CObj). assumption.
  - (* field *)
    intros k key op v IH Hwf. cbn [wf_field] in Hwf. andb_split.
    assert (HFR : FRlemma op v).
    { apply FR_of_V; [assumption | | apply (IH ltac:(assumption) CObj); discriminate].
      intros ->. assumption. }
    split; [apply F1_field; assumption | exact HFR].
  - (* [[name] value ] *)
    intros name u s Hwf. cbn [wf_field] in Hwf. andb_split. split; [apply F1_paramV; assumption | exact I].
  - (* [[name] fields ] *)
    intros name u pfs IH Hwf. cbn [wf_field] in Hwf. andb_split.
    destruct (IH ltac:(assumption)) as [_ Hparts].
    destruct pfs as [|pf pfs']; [discriminate|]. destruct pf as [k key op v| |]; try discriminate.
    destruct k; [|discriminate]. destruct op as [o|]; [|discriminate].
    destruct Hparts as [HFR HFp]. cbn [Fparts] in HFR. cbn [wf_fields wf_field wf_scalar param_first_word] in *. andb_split.
    split; [apply F1_paramO; assumption | split; assumption].
  - (* no field *)
    intros _. split; [apply F_nil | exact I].
  - (* fields *)
    intros f IHf fs IHfs Hwf. cbn [wf_fields] in Hwf. andb_split.
    destruct (IHf ltac:(assumption)) as [HF1 Hparts].
    destruct (IHfs ltac:(assumption)) as [HF _].
    split; [|split; assumption].
    apply F_cons; try assumption. destruct f as [k key op v|name u s|name u pfs].
    + exists (scalar_tok k key), (fun off => op_toks false op ++ flat_value (S off + length (op_toks false op)) v).
      intros off. split; [reflexivity | destruct k; reflexivity].
    + exists (param_tok u name), (fun _ => [TUnquoted s]). intros off. split; [reflexivity | apply param_tok_not_cont].
    + eexists (param_tok u name), (fun off => _). intros off. split; [reflexivity | apply param_tok_not_cont].
  - intros _. split; [apply I_nil | exact I].
  - (* items *)
    intros v IHv vs IHvs Hwf. cbn [wf_items] in Hwf. andb_split.
    destruct (IHvs ltac:(assumption)) as [HI _].
    split; [|exact HI].
    apply I_cons; [|exact HI].
    apply (IHv ltac:(assumption) CArr). intros _.
    match goal with H : negb _ = true |- _ => apply Bool.negb_true_iff in H; exact H end.
Qed.

Theorem parse_render : forall d l,
  wf_doc d -> wf_layout d l -> parse (render d l) = Ok (flatten d, bom l).
Proof.
  intros d l Hwf Hl. eapply parse_of_reaches; [exact Hl|].
  destruct Hl as (Hg & Hsep & _).
  destruct (proj1 (proj2 (proj2 full_all)) d Hwf) as [HF _].
  specialize (HF (gap l) 0 [] [] 0 Hg). rewrite !app_nil_r in HF.
  apply HF; [exact Hsep | left; split; reflexivity].
Qed.

Corollary layout_independent : forall d l1 l2,
  wf_doc d -> wf_layout d l1 -> wf_layout d l2 ->
  omap fst (parse (render d l1)) = omap fst (parse (render d l2)).
Proof. intros d l1 l2 Hwf H1 H2. rewrite !parse_render by assumption. reflexivity. Qed.

(* ------------------------------------------------------------------ left padding *)
Lemma gap_ok_app a b : gap_ok a -> gap_ok b -> gap_ok (a ++ b).
Proof.
  intros Ha Hb. induction Ha; cbn [app]; [exact Hb | constructor; assumption |].
  rewrite <- app_assoc. cbn [app]. apply gap_comment; assumption.
Qed.

Lemma render_toks_ext g g' ts : forall i, (forall j, i <= j -> g j = g' j) -> render_toks g ts i = render_toks g' ts i.
Proof.
  induction ts as [|t ts IH]; intros i H; cbn [render_toks].
  - apply H. lia.
  - rewrite (H i) by lia. rewrite (IH (S i)); [reflexivity|]. intros j Hj. apply H. lia.
Qed.

Lemma sep_ok_ext g g' ts : forall i, (forall j, i < j -> g j = g' j) -> sep_ok g ts i -> sep_ok g' ts i.
Proof.
  induction ts as [|t ts IH]; intros i H; cbn [sep_ok]; [auto|].
  intros [H1 H2]. split.
  - intros Ht. rewrite <- (render_toks_ext g g' ts (S i)); [auto|]. intros j Hj. apply H. lia.
  - apply IH; [|exact H2]. intros j Hj. apply H. lia.
Qed.

Lemma gap_hd_not_bom g rest : gap_ok g -> g <> [] -> has_bom (g ++ rest) = false.
Proof.
  intros Hg Hne. destruct Hg as [|c g Hc Hg|body g Hb Hg]; [congruence| |reflexivity].
  cbn [app]. unfold is_ws_t, beq in Hc.
  destruct (N.eqb_spec c 32) as [->|?]; [reflexivity|].
  destruct (N.eqb_spec c 9) as [->|?]; [reflexivity|].
  destruct (N.eqb_spec c 10) as [->|?]; [reflexivity|].
  destruct (N.eqb_spec c 13) as [->|?]; [reflexivity|].
  destruct (N.eqb_spec c 59) as [->|?]; [reflexivity|]. discriminate.
Qed.

Lemma wf_layout_pad d l pad : wf_layout d l -> gap_ok pad -> wf_layout d (with_pad pad l).
Proof.
  intros (Hg & Hsep & Hbom) Hpad. split; [|split].
  - intros i. cbn [with_pad gap]. destruct (Nat.eqb i 0); [apply gap_ok_app; [exact Hpad | apply Hg] | apply Hg].
  - cbn [with_pad gap]. eapply sep_ok_ext; [|exact Hsep]. intros j Hj. cbn.
    destruct (Nat.eqb_spec j 0); [lia | reflexivity].
  - cbn [with_pad bom]. intros Hb. specialize (Hbom Hb). unfold render in *. cbn [with_pad bom gap] in *. rewrite Hb in *.
    cbn [app] in *.
    destruct pad as [|c pad'].
    + erewrite render_toks_ext; [exact Hbom|]. intros j _. cbn. destruct (Nat.eqb j 0) eqn:E; [apply Nat.eqb_eq in E; subst|]; reflexivity.
    + destruct (toks_fields d) as [|t ts]; cbn [render_toks Nat.eqb]; rewrite <- ?app_assoc;
        apply gap_hd_not_bom; (exact Hpad || discriminate).
Qed.

Theorem padding_independent : forall d l pad,
  wf_doc d -> wf_layout d l -> gap_ok pad ->
  parse (render d (with_pad pad l)) = parse (render d l).
Proof.
  intros d l pad Hwf Hl Hpad. rewrite !parse_render; auto. apply wf_layout_pad; assumption.
Qed.
