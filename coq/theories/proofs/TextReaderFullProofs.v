(* C07, last clause: when the buffer cannot hold an atom the streaming reader returns the tokens
   before that atom and then BufferFull -- never a clean end, never a split token. *)
From JV Require Import Bytes Tables U64Swar BufWin TextTok TextReader TextRef.
From JV.proofs Require Import BufWinProofs TextReaderProofs TextRefProofs TextFbProofs SwarLaneProofs TextFastProofs TextReaderMainProofs.
From Coq Require Import Lia List Arith.
Import ListNotations.
Open Scope nat_scope.

Definition fullres (out : nres) : Prop := exists r', out = NErr E_BufferFull r'.

Lemma snd_bump_max m p : snd (bump m p) = Nat.max m (snd p).
Proof. reflexivity. Qed.

Theorem refill_full input : forall nrest fuel r st c o start',
  length (rest (rrd r)) <= nrest -> nrest + 2 <= fuel ->
  rok input r -> 0 < cap (rbw r) -> c <= length (win (rbw r)) ->
  pend st start' (skipn (length (win (rbw r)) - c) (win (rbw r))) o ->
  (st = PNone -> start' = Nat.eqb (reader_position r + (length (win (rbw r)) - c)) 0 && N.eqb (rbom r) 0) ->
  cap (rbw r) < snd (tk start' (patom st (skipn (length (win (rbw r)) - c) (win (rbw r))) ++ rest (rrd r))) ->
  fullres (refill fuel r st c o).
Proof.
  induction nrest as [nrest IH] using lt_wf_ind.
  intros fuel r st c o start' Hrest Hfuel Hrok Hcpos Hc Hpend Hstart Hbig.
  destruct fuel as [|f]; [lia|]. destruct r as [b d bom]. cbn [rbw rrd rbom] in *.
  cbn [refill rbw rrd rbom].
  replace (Nat.ltb (length (win b)) c) with false by (symmetry; apply Nat.ltb_ge; exact Hc).
  destruct (refill_fill input b d bom c Hrok Hc) as [Hcb Hfill]. cbv zeta in Hcb, Hfill.
  remember (skipn (length (win b) - c) (win b)) as cb eqn:Ecbdef. clear Ecbdef.
  destruct (bw_fill_buf _ d) as [n b2 d2|b2 d2|b2 d2]; [|contradiction|].
  2:{ eexists. reflexivity. }
  destruct Hfill as (bs & Hbs & Hsplit & Hw2 & Hcap2 & Hpos2 & Hrok2 & Hzero).
  assert (Hwin2 : length (win b2) <= cap b).
  { destruct (Hrok2 bom) as (_ & _ & [H0|H0]); cbn [rbw] in H0; lia. }
  destruct n as [|n].
  - (* end of the stream: the pending atom fits, contradiction *)
    exfalso. destruct bs; [|discriminate]. rewrite app_nil_r in Hw2. cbn [app] in Hsplit.
    destruct (Hzero eq_refl) as [H0|[Hr Hlt]]; [lia|].
    rewrite Hr, app_nil_r in Hbig.
    destruct st; cbn [pend patom] in *.
    + destruct Hpend as [Hit _]. rewrite tk_unfold in Hbig.
      destruct (item start' cb) as [s2 k|t2 s2 k|t2 k|k|k0 k] eqn:Ei; try contradiction; cbn [snd] in Hbig; lia.
    + destruct Hpend as [-> (Ho & Hres & Hge)]. rewrite tk_unfold, item_quote in Hbig.
      destruct (rq_scan cb 0) as [i|o2] eqn:E.
      * pose proof (rq_scan_bounds (length cb) cb 0 i (le_n _) E). cbn [snd] in Hbig. lia.
      * cbn [snd] in Hbig. lia.
    + destruct Hpend as [(Hne & Hfind & Hit) _]. rewrite tk_unfold in Hbig.
      destruct (Hit []) as (m & Hmle & Hm). rewrite app_nil_r in Hm. rewrite Hm in Hbig. unfold unq_item in Hbig.
      rewrite Hfind in Hbig. cbn [bump_item snd] in Hbig. lia.
  - (* more data arrived *)
    assert (Hlt : length (rest d2) < nrest).
    { assert (length (rest d) = length bs + length (rest d2)) by (rewrite Hsplit, app_length; reflexivity). lia. }
    assert (Hstream : cb ++ rest d = win b2 ++ rest d2) by (rewrite Hw2, Hsplit, app_assoc; reflexivity).
    destruct st; cbn [pend patom] in *.
    + cbn [rbw rrd rbom].
      pose proof (fb_sound (S (S (length (win b2)))) (Nat.eqb (bw_position b2) 0) (win b2) (win b2) 0 bom (rest d2)
                    eq_refl ltac:(lia) ltac:(destruct (N.eqb bom 0); lia)) as Hfb.
      rewrite Nat.eqb_refl, andb_true_r in Hfb.
      assert (Hst : Nat.eqb (bw_position b2) 0 && N.eqb bom 0 = start').
      { rewrite Hstart by reflexivity. rewrite Hpos2. reflexivity. }
      rewrite Hst in Hfb. rewrite Hstream in *.
      destruct (fb _ _ _ _ _ _) as [a bom'] eqn:Efb. destruct Hfb as [Hb1 Hfb]. cbn [fst snd] in Hb1, Hfb.
      destruct a as [st' c' o'|t adv|site]; [| |contradiction].
      * destruct Hfb as (Hc' & Hp' & Hb2 & (m & Hmle & Hm)).
        rewrite Hm, snd_bump_max in Hbig.
        apply (IH (length (rest d2)) Hlt f (mkreader b2 d2 bom') st' c' o' (start' && Nat.eqb c' (length (win b2)))); cbn [rbw rrd rbom].
        -- lia.
        -- lia.
        -- apply Hrok2.
        -- lia.
        -- exact Hc'.
        -- exact Hp'.
        -- intros Hs. unfold reader_position. cbn [rbw]. rewrite <- Hst.
           apply start_after; [exact Hc'|exact Hb1|rewrite Hst; apply Hb2; exact Hs].
        -- lia.
      * exfalso. destruct Hfb as (k & m & Hadv & Hk & Hmle & Hm). rewrite Hm in Hbig. cbn [snd] in Hbig. lia.
    + destruct Hpend as [-> (Ho & Hres & Hge)]. cbn [rbw rrd rbom].
      replace (Nat.ltb (length (win b2)) o) with false by (symmetry; apply Nat.ltb_ge; rewrite Hw2, app_length; lia).
      assert (Ho2 : o <= length (win b2)) by (rewrite Hw2, app_length; lia).
      unfold refill_quote_scan.
      pose proof (rq_scan_app_gen (length (skipn o (win b2))) (skipn o (win b2)) (rest d2) o (le_n _)) as Hgen.
      assert (Hall : rq_scan (win b2 ++ rest d2) 0 = rq_scan (skipn o (win b2) ++ rest d2) o).
      { rewrite <- Hstream, Hres, Hstream, skipn_app_le by lia. reflexivity. }
      destruct (rq_scan (skipn o (win b2)) o) as [i|o2] eqn:Escan.
      * exfalso. pose proof (rq_scan_bounds _ _ _ _ (le_n _) Escan) as Hi. rewrite skipn_length in Hi.
        cbn [app] in Hbig. rewrite Hstream in Hbig. rewrite tk_unfold, item_quote, Hall, Hgen in Hbig.
        cbn [snd] in Hbig. lia.
      * destruct Hgen as (j & Hj1 & Hj2 & Hj3). rewrite skipn_length in Hj2.
        assert (Hpat : (34%N :: cb) ++ rest d = patom PQuote (skipn (length (win b2) - length (win b2)) (win b2)) ++ rest d2).
        { rewrite Nat.sub_diag. cbn [skipn patom app]. rewrite Hstream. reflexivity. }
        rewrite Hpat in *.
        apply (IH (length (rest d2)) Hlt f (mkreader b2 d2 bom) PQuote (length (win b2)) o2 false); cbn [rbw rrd rbom].
        -- lia.
        -- lia.
        -- apply Hrok2.
        -- lia.
        -- lia.
        -- rewrite Nat.sub_diag. cbn [skipn pend]. split; [reflexivity|]. split; [lia|]. split.
           ++ intros y.
              pose proof (rq_scan_app_gen (length (skipn o (win b2))) (skipn o (win b2)) y o (le_n _)) as Hy.
              rewrite Escan in Hy. destruct Hy as (j' & Hy1 & Hy2 & Hy3).
              assert (j' = j) by lia. subst j'.
              rewrite Hw2, <- app_assoc, Hres, app_assoc, <- Hw2.
              rewrite skipn_app_le by lia. rewrite Hy3. rewrite <- skipn_app_le by lia.
              rewrite skipn_skipn. f_equal. f_equal. lia.
           ++ intros y i Hy.
              rewrite Hw2, <- app_assoc, Hres, app_assoc, <- Hw2 in Hy. rewrite skipn_app_le in Hy by lia.
              pose proof (rq_scan_inr_ge _ _ _ _ _ _ (le_n _) Escan Hy) as Hge2. rewrite skipn_length in Hge2. lia.
        -- discriminate.
        -- rewrite Hcap2. exact Hbig.
    + destruct Hpend as [(Hne & Hfind & Hit) ->]. cbn [rbw rrd rbom].
      replace (Nat.ltb (length (win b2)) (length cb)) with false by (symmetry; apply Nat.ltb_ge; rewrite Hw2, app_length; lia).
      assert (Hsk : skipn (length cb) (win b2) = bs) by (rewrite Hw2, skipn_app_le, skipn_all by lia; reflexivity).
      unfold refill_unq_scan. rewrite Hsk.
      destruct cb as [|a cb'] eqn:Ecb; [congruence|]. rewrite <- Ecb in *.
      assert (Hfind' : find_from is_boundary cb' 0 = None) by (rewrite Ecb in Hfind; exact Hfind).
      assert (Hlen : length cb = S (length cb')) by (rewrite Ecb; reflexivity).
      assert (Htl : forall z, find_from is_boundary (tl (cb ++ z)) 0 = find_from is_boundary z (length cb')).
      { intros z. rewrite Ecb. cbn [app tl]. rewrite (find_from_none_app _ cb' z 0 Hfind'). reflexivity. }
      assert (Hsh : forall z, find_from is_boundary z (length cb) = option_map (fun i => i + 1) (find_from is_boundary z (length cb'))).
      { intros z. rewrite Hlen. replace (S (length cb')) with (length cb' + 1) by lia. apply find_from_shift. }
      destruct (find_from is_boundary bs (length cb)) as [i|] eqn:Escan.
      * exfalso. pose proof (find_from_bounds _ _ _ _ Escan) as Hi.
        rewrite Hsh in Escan. destruct (find_from is_boundary bs (length cb')) as [i0|] eqn:E0; [|discriminate].
        cbn [option_map] in Escan. assert (i = S i0) by (inversion Escan; lia). subst i.
        rewrite tk_unfold in Hbig. destruct (Hit (rest d)) as (m & Hmle & Hm). rewrite Hm in Hbig. unfold unq_item in Hbig.
        rewrite Htl, Hsplit, (find_from_some_app _ bs (rest d2) _ _ E0) in Hbig. cbn [bump_item snd] in Hbig.
        rewrite Hw2, app_length in Hwin2. lia.
      * rewrite Hsh in Escan. destruct (find_from is_boundary bs (length cb')) as [i0|] eqn:E0; [discriminate|].
        assert (Hpat : cb ++ rest d = patom PUnq (skipn (length (win b2) - length (win b2)) (win b2)) ++ rest d2).
        { rewrite Nat.sub_diag. cbn [skipn patom]. exact Hstream. }
        rewrite Hpat in *.
        apply (IH (length (rest d2)) Hlt f (mkreader b2 d2 bom) PUnq (length (win b2)) (length (win b2)) start'); cbn [rbw rrd rbom].
        -- lia.
        -- lia.
        -- apply Hrok2.
        -- lia.
        -- lia.
        -- rewrite Nat.sub_diag. cbn [skipn pend]. split; [|reflexivity]. split; [|split].
           ++ rewrite Hw2. intros H0. apply app_eq_nil in H0. destruct H0; congruence.
           ++ rewrite Hw2, Htl. replace (length cb') with (0 + length cb') by lia.
              rewrite find_from_shift, <- (find_from_shift _ _ 0 (length cb')). cbn [Nat.add]. exact E0.
           ++ intros y. destruct (Hit (bs ++ y)) as (m & Hm1 & Hm2). exists m.
              rewrite Hw2, <- app_assoc. split; [rewrite app_length; lia|exact Hm2].
        -- discriminate.
        -- rewrite Hcap2. exact Hbig.
Qed.

Theorem fallback_full input fuel r :
  rok input r -> 0 < cap (rbw r) -> length (rest (rrd r)) + 2 <= fuel ->
  cap (rbw r) < snd (tk (startb r) (stream_of r)) ->
  fullres (fallback fuel r).
Proof.
  intros Hrok Hcpos Hfuel Hbig. destruct r as [b d bom]. unfold fallback, startb, stream_of, reader_position in *.
  cbn [rbw rrd rbom] in *.
  assert (Hwin : length (win b) <= cap b) by (destruct Hrok as (_ & _ & [H0|H0]); cbn [rbw] in H0; lia).
  pose proof (fb_sound (S (S (length (win b)))) (Nat.eqb (bw_position b) 0) (win b) (win b) 0 bom (rest d)
                eq_refl ltac:(lia) ltac:(destruct (N.eqb bom 0); lia)) as Hfb.
  rewrite Nat.eqb_refl, andb_true_r in Hfb.
  destruct (fb _ _ _ _ _ _) as [a bom'] eqn:Efb. destruct Hfb as [Hb1 Hfb]. cbn [fst snd] in Hb1, Hfb.
  destruct a as [st' c' o'|t adv|site]; [| |contradiction].
  - destruct Hfb as (Hc' & Hp' & Hb2 & (m & Hmle & Hm)). rewrite Hm, snd_bump_max in Hbig.
    apply (refill_full input (length (rest d)) fuel (mkreader b d bom') st' c' o'
             (Nat.eqb (bw_position b) 0 && N.eqb bom 0 && Nat.eqb c' (length (win b)))); cbn [rbw rrd rbom].
    + lia.
    + lia.
    + destruct Hrok as [H1 H2]. split; [exact H1|exact H2].
    + exact Hcpos.
    + exact Hc'.
    + exact Hp'.
    + intros Hs. unfold reader_position. cbn [rbw]. apply start_after; [exact Hc'|exact Hb1|apply Hb2; exact Hs].
    + lia.
  - exfalso. destruct Hfb as (k & m & Hadv & Hk & Hmle & Hm). rewrite Hm in Hbig. cbn [snd] in Hbig. lia.
Qed.

Theorem next_opt_full input fuel r :
  wf_bytes input -> rok input r -> 0 < cap (rbw r) -> length (rest (rrd r)) + 2 <= fuel ->
  cap (rbw r) < snd (tk (startb r) (stream_of r)) ->
  fullres (next_opt fuel r).
Proof.
  intros Hwf Hrok Hcpos Hfuel Hbig. pose proof (fallback_full input fuel r Hrok Hcpos Hfuel Hbig) as [r' Hfb].
  destruct (next_opt_fast_eq_fallback fuel r (rok_wf _ _ Hwf Hrok)) as [Heq|(t & i & Hnth & Hf & Hn)].
  - rewrite Heq. exists r'. exact Hfb.
  - exfalso. rewrite Hf in Hfb. unfold emit in Hfb. destruct (bw_advance (rbw r) i); discriminate.
Qed.

Lemma rr_nonempty start s : fst (fst (rr start s)) <> [].
Proof.
  rewrite rr_unfold. destruct (tk start s) as [[t s'| |k] n]; cbn [fst]; try discriminate.
  destruct (rr false s') as [[l rem] m]. cbn [fst]. discriminate.
Qed.

Theorem run_full input : wf_bytes input -> forall n fuel r start sref,
  rok input r -> 0 < cap (rbw r) -> srel r start sref ->
  length sref < n -> length input + 2 <= fuel ->
  cap (rbw r) < snd (rr start sref) ->
  exists pre suf p,
    run_next n fuel r = (map OTok pre ++ [OErr E_BufferFull], p) /\
    fst (fst (rr start sref)) = map OTok pre ++ suf /\ suf <> [].
Proof.
  intros Hwf. induction n as [|n IH]; intros fuel r start sref Hrok Hcpos Hrel Hn Hfuel Hbig; [lia|].
  cbn [run_next].
  pose proof (rok_pos input r Hrok) as Hpos.
  assert (Hrest : length (rest (rrd r)) <= length input).
  { unfold stream_of in Hpos. rewrite app_length in Hpos. lia. }
  assert (Htk : fst (tk (startb r) (stream_of r)) = fst (tk start sref) /\
                snd (tk (startb r) (stream_of r)) <= snd (tk start sref) /\
                snd (tk start sref) <= Nat.max 1 (snd (tk (startb r) (stream_of r)))).
  { destruct Hrel as [[-> ->]|(-> & -> & Hp)]; [split; [reflexivity|lia]|].
    rewrite (startb_pos r Hp), tk_space. split; [reflexivity|]. rewrite snd_bump_max. lia. }
  destruct Htk as (Htk1 & Htk2 & Htk3).
  destruct (le_lt_dec (snd (tk start sref)) (cap (rbw r))) as [Hfit|Hnofit].
  - (* this token fits: same step as in run_spec *)
    assert (Hcap1 : capok (rbw r) (rrd r) (snd (tk (startb r) (stream_of r)))) by (right; lia).
    pose proof (next_opt_step input fuel r Hwf Hrok ltac:(lia) Hcap1) as Hstep.
    rewrite Htk1 in Hstep. rewrite rr_unfold in Hbig |- *.
    destruct (tk start sref) as [[t s'| |k] nd0] eqn:Etk; cbn [fst snd stepres_ws stepres] in *; [|lia|lia].
    destruct Hstep as (r' & Hno & Hrok' & Hs' & Hc' & Hr').
    rewrite Hno.
    pose proof (tk_tok_shrinks (length sref) start sref t s' nd0 (le_n _) Etk) as Hshr.
    pose proof (rok_pos input r' Hrok') as Hpos'.
    assert (Hlen' : length (stream_of r') <= length s').
    { destruct Hs' as [<- | ->]; cbn [length]; lia. }
    assert (Hp' : reader_position r' > 0).
    { destruct Hrel as [[-> ->]|(-> & -> & Hp)]; cbn [length] in *; lia. }
    assert (Hrel' : srel r' false s').
    { destruct Hs' as [<- | ->]; [left; split; [reflexivity|symmetry; apply startb_pos; exact Hp']|right; auto]. }
    specialize (IH fuel r' false s' Hrok' ltac:(lia) Hrel' ltac:(lia) Hfuel).
    destruct (rr false s') as [[l rem] m] eqn:Err. cbn [fst snd] in *.
    destruct IH as (pre & suf & p & Hrun & Hl & Hsuf); [lia|].
    exists (t :: pre), suf, p. rewrite Hrun. cbn [map app]. rewrite Hl. auto.
  - (* this token does not fit *)
    assert (Hbig1 : cap (rbw r) < snd (tk (startb r) (stream_of r))) by lia.
    destruct (next_opt_full input fuel r Hwf Hrok Hcpos ltac:(lia) Hbig1) as [r' Hno].
    rewrite Hno. exists [], (fst (fst (rr start sref))), (reader_position r').
    split; [reflexivity|]. split; [reflexivity|apply rr_nonempty].
Qed.

(* ---------- Theorem 4 ---------- *)
Theorem stream_full : forall input sch capv,
  wf_bytes input -> no_fail sch -> 0 < capv < need input ->
  exists pre suf p,
    run_stream capv sch input = (map OTok pre ++ [OErr E_BufferFull], p) /\
    fst (run_slice input) = map OTok pre ++ suf /\ suf <> [].
Proof.
  intros input sch capv Hwf Hnf Hneed. rewrite slice_eq_tok by exact Hwf. cbn [fst].
  unfold run_stream, tokens_of, need, ref_tokens in *.
  change (ref_run (S (length input)) true input) with (rr true input) in *.
  apply (run_full input Hwf).
  - split; [|split; [exact Hnf|right; cbn; lia]]. exists []. cbn. auto.
  - unfold reader_new, bw_new. cbn [rbw cap]. lia.
  - left. split; reflexivity.
  - lia.
  - unfold default_fuel. lia.
  - unfold reader_new, bw_new. cbn [rbw cap]. lia.
Qed.

(* ---------- corollaries ---------- *)
Corollary schedule_independent : forall input sch1 sch2 cap1 cap2,
  wf_bytes input -> no_fail sch1 -> no_fail sch2 -> need input <= cap1 -> need input <= cap2 ->
  run_stream cap1 sch1 input = run_stream cap2 sch2 input.
Proof. intros. rewrite !stream_eq_tok by assumption. reflexivity. Qed.

(* the requirement is never more than the whole input plus the byte that never comes *)
Lemma item_need_le start s : inee (item start s) <= S (length s).
Proof.
  destruct s as [|c s0]; [cbn; lia|]. cbn [item].
  destruct (is_ws c); [cbn [inee length]; lia|].
  destruct (b_is c 35).
  { destruct (find_from _ s0 0) as [k|] eqn:E; [apply find_from_bounds in E|]; cbn [inee length]; lia. }
  destruct (b_is c 123); [cbn [inee length]; lia|]. destruct (b_is c 125); [cbn [inee length]; lia|].
  destruct (b_is c 34).
  { destruct (rq_scan s0 0) as [i|o] eqn:E; [apply rq_scan_bounds with (n := length s0) in E; [|lia]|]; cbn [inee length]; lia. }
  assert (Hu : forall s, s <> [] -> inee (unq_item s) <= S (length s)).
  { intros s Hs. unfold unq_item. destruct s as [|a s1]; [congruence|]. cbn [tl].
    destruct (find_from is_boundary s1 0) as [k|] eqn:E; [apply find_from_bounds in E|]; cbn [inee length]; lia. }
  assert (Ho : forall a b, inee (op_item s0 a b) <= S (length (c :: s0))).
  { intros a b. unfold op_item. destruct s0 as [|c3 s1]; [cbn; lia|]. destruct (b_is c3 61); cbn [inee length]; lia. }
  destruct (b_is c 64).
  { destruct s0 as [|c2 s1]; [cbn; lia|]. destruct (b_is c2 91).
    - destruct (find_from _ s1 0) as [k|] eqn:E; [apply find_from_bounds in E|]; cbn [inee length]; lia.
    - apply Hu. discriminate. }
  destruct (b_is c 61); [apply Ho|]. destruct (b_is c 60); [apply Ho|]. destruct (b_is c 33); [apply Ho|].
  destruct (b_is c 63); [apply Ho|]. destruct (b_is c 62); [apply Ho|].
  destruct (b_is c 239 && start).
  { destruct s0 as [|b1 [|b2 s3]]; [cbn; lia|cbn; lia|]. destruct (b_is b1 187 && b_is b2 191); [cbn [inee length]; lia|].
    specialize (Hu (c :: b1 :: b2 :: s3) ltac:(discriminate)). destruct (unq_item _); cbn [bump_item inee length] in *; lia. }
  apply Hu. discriminate.
Qed.

Lemma tk_need_le : forall n start s, length s <= n -> snd (tk start s) <= S (length s).
Proof.
  induction n as [|n IH]; intros start s Hn; rewrite tk_unfold; pose proof (item_need_le start s) as Hi;
    destruct (item start s) as [s' k|t s' k|t k|k|k0 k] eqn:E; cbn [inee snd] in *; try lia.
  - apply item_skip_shrinks in E. lia.
  - pose proof (item_skip_shrinks _ _ _ _ E). rewrite snd_bump_max. specialize (IH false s' ltac:(lia)). lia.
Qed.

Lemma rr_need_le : forall n start s, length s <= n -> snd (rr start s) <= S (length s).
Proof.
  induction n as [|n IH]; intros start s Hn; rewrite rr_unfold; pose proof (tk_need_le (length s) start s (le_n _)) as Hi;
    destruct (tk start s) as [[t s'| |k] nd] eqn:E; cbn [snd] in *; try lia.
  - apply tk_tok_shrinks with (n := length s) in E; lia.
  - pose proof (tk_tok_shrinks (length s) _ _ _ _ _ (le_n _) E). specialize (IH false s' ltac:(lia)).
    destruct (rr false s') as [[l rem] m]. cbn [snd] in *. lia.
Qed.

Theorem need_le_length input : need input <= S (length input).
Proof. unfold need, ref_tokens. apply (rr_need_le (length input)). lia. Qed.

(* hence a buffer one byte larger than the input always works *)
Corollary stream_eq_slice_big : forall input sch capv,
  wf_bytes input -> no_fail sch -> length input < capv -> run_stream capv sch input = run_slice input.
Proof. intros. apply stream_eq_slice; try assumption. pose proof (need_le_length input). lia. Qed.
