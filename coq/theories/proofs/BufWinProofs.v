(* buffer.rs model: fill_buf never loses or reorders data, and reports end-of-input only when
   the stream has really ended (clause "never reported as a clean end" of C07/C08). *)
From JV Require Import Bytes BufWin.
From Coq Require Import Lia List Arith.
Import ListNotations.
Open Scope nat_scope.

(* the reader's view of the stream: input = consumed-prefix ++ window ++ not-yet-read *)
Definition stream_inv (input : bytes) (b : bufwin) (r : rd) : Prop :=
  exists pre, input = pre ++ win b ++ rest r /\ length pre = bw_position b.

Definition bw_ok (b : bufwin) : Prop := consumed b + length (win b) <= cap b \/ cap b = 0.

Lemma rd_read_split r free bs r' :
  rd_read r free = Ok (bs, r') -> rest r = bs ++ rest r' /\ length bs <= free /\
  (length bs = 0 -> free = 0 \/ rest r = []).
Proof.
  unfold rd_read. destruct (match sched r with [] => _ | e :: _ => e end) as [n|]; [|discriminate].
  intros H. inversion H; subst; clear H. cbn [rest].
  set (lim := Nat.min free (length (rest r))).
  set (k := N.to_nat (N.min (N.max n 1) (N.of_nat lim))).
  assert (Hk : k <= lim) by (unfold k; lia).
  split; [symmetry; apply firstn_skipn|]. split.
  - rewrite firstn_length. unfold lim in *. lia.
  - rewrite firstn_length. intros H0.
    assert (k = 0 \/ length (rest r) = 0) as [Hz|Hz] by lia.
    + unfold k in Hz. assert (lim = 0) by lia. unfold lim in *.
      destruct (rest r); [right; reflexivity|]. cbn [length] in *. left. lia.
    + right. destruct (rest r); [reflexivity|discriminate].
Qed.

(* fill_buf keeps the stream view, whatever the schedule does *)
Theorem fill_buf_preserves input b r :
  stream_inv input b r ->
  match bw_fill_buf b r with
  | FillOk n b' r' => stream_inv input b' r' /\ length (win b') = length (win b) + n
                      /\ exists bs, win b' = win b ++ bs /\ length bs = n
  | FillIo b' r' => stream_inv input b' r' /\ win b' = win b
  | FillFull b' r' => b' = b /\ r' = r
  end.
Proof.
  intros (pre & Hin & Hlen). unfold bw_fill_buf.
  destruct (Nat.leb (cap b) (length (win b))) eqn:Hfull.
  - destruct (Nat.eqb (cap b) 0).
    + split; [exists pre; auto|]. split; [lia|]. exists []. rewrite app_nil_r. auto.
    + auto.
  - destruct (rd_read r (cap b - length (win b))) as [[bs r']| | | |] eqn:Hrd.
    + destruct (rd_read_split _ _ _ _ Hrd) as (Hsplit & Hle & _).
      split.
      * exists pre. cbn [win]. unfold bw_position in *. cbn [prior consumed]. split; [|lia].
        rewrite Hin, Hsplit, <- !app_assoc. reflexivity.
      * cbn [win]. rewrite app_length. split; [reflexivity|]. exists bs. auto.
    + split; [|reflexivity]. exists pre. unfold bw_position in *. cbn [win prior consumed rest rd_after_fail]. split; [exact Hin|lia].
    + split; [|reflexivity]. exists pre. unfold bw_position in *. cbn [win prior consumed rest rd_after_fail]. split; [exact Hin|lia].
    + split; [|reflexivity]. exists pre. unfold bw_position in *. cbn [win prior consumed rest rd_after_fail]. split; [exact Hin|lia].
    + split; [|reflexivity]. exists pre. unfold bw_position in *. cbn [win prior consumed rest rd_after_fail]. split; [exact Hin|lia].
Qed.

(* "Ok(0)" from a real buffer means the data is exhausted: a full buffer is an error, never EOF *)
Theorem fill_ok0_is_eof b r b' r' :
  cap b > 0 -> bw_fill_buf b r = FillOk 0 b' r' -> rest r = [] /\ length (win b) < cap b.
Proof.
  intros Hcap. unfold bw_fill_buf.
  destruct (Nat.leb (cap b) (length (win b))) eqn:Hfull.
  - destruct (Nat.eqb (cap b) 0) eqn:Hz; [apply Nat.eqb_eq in Hz; lia|discriminate].
  - apply Nat.leb_gt in Hfull.
    destruct (rd_read r (cap b - length (win b))) as [[bs r2]| | | |] eqn:Hrd; try discriminate.
    intros H. inversion H; subst.
    destruct (rd_read_split _ _ _ _ Hrd) as (_ & _ & Hz).
    destruct (Hz ltac:(assumption)) as [Hf|Hr]; [lia|]. split; [exact Hr|lia].
Qed.

Theorem fill_full_iff b r :
  cap b > 0 -> ((exists b' r', bw_fill_buf b r = FillFull b' r') <-> cap b <= length (win b)).
Proof.
  intros Hcap. unfold bw_fill_buf. split.
  - intros (b' & r' & H). destruct (Nat.leb (cap b) (length (win b))) eqn:Hfull; [apply Nat.leb_le; exact Hfull|].
    destruct (rd_read r (cap b - length (win b))) as [[bs r2]| | | |]; discriminate.
  - intros H. apply Nat.leb_le in H. rewrite H.
    destruct (Nat.eqb (cap b) 0) eqn:Hz; [apply Nat.eqb_eq in Hz; lia|]. eauto.
Qed.

(* the slice-backed window: fill_buf is always "end of data", nothing changes *)
Theorem fill_slice d r : bw_fill_buf (bw_from_slice d) r = FillOk 0 (bw_from_slice d) r.
Proof. unfold bw_fill_buf, bw_from_slice. cbn [cap win]. reflexivity. Qed.

(* ---------- faults (C20) ---------- *)
Theorem failed_fill_keeps_stream input b r b' r' :
  stream_inv input b r -> bw_fill_buf b r = FillIo b' r' ->
  stream_inv input b' r' /\ win b' = win b /\ rest r' = rest r.
Proof.
  intros Hinv Hf. pose proof (fill_buf_preserves input b r Hinv) as H. rewrite Hf in H.
  destruct H as [H1 H2]. split; [exact H1|]. split; [exact H2|].
  unfold bw_fill_buf in Hf.
  destruct (Nat.leb (cap b) (length (win b))); [destruct (Nat.eqb (cap b) 0); discriminate|].
  destruct (rd_read r (cap b - length (win b))) as [[bs r2]| | | |]; inversion Hf; reflexivity.
Qed.

(* position never exceeds what the Read delivered: position + window = delivered *)
Definition fill_inv (b : bufwin) (r : rd) : Prop := bw_position b + length (win b) = delivered r.

Theorem fill_inv_preserved b r :
  fill_inv b r ->
  match bw_fill_buf b r with
  | FillOk _ b' r' | FillIo b' r' | FillFull b' r' => fill_inv b' r'
  end.
Proof.
  unfold fill_inv, bw_fill_buf, bw_position. intros H.
  destruct (Nat.leb (cap b) (length (win b))).
  - destruct (Nat.eqb (cap b) 0); exact H.
  - destruct (rd_read r (cap b - length (win b))) as [[bs r2]| | | |] eqn:Hrd;
      cbn [prior consumed win delivered rd_after_fail]; try lia.
    unfold rd_read in Hrd. destruct (match sched r with [] => _ | e :: _ => e end); [|discriminate].
    inversion Hrd; subst. cbn [delivered]. rewrite app_length, firstn_length.
    set (lim := Nat.min (cap b - length (win b)) (length (rest r))).
    assert (N.to_nat (N.min (N.max n 1) (N.of_nat lim)) <= length (rest r)) by (unfold lim; lia).
    lia.
Qed.
