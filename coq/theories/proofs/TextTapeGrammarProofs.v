(* C16/C17 bridge, part 3: the grammar invariant GInv is preserved by every arm of TextTape.step,
   the exit condition is gfinal, hence every tape TextTape.parse returns satisfies
   TapeWf.tape_wf (the hypothesis of every C16 / C17 theorem). *)
From JV Require Import Bytes Tables TextTok TextTape TextTapeWf TapeWf TextTapeGrammar.
From JV.proofs Require Import TextTapeWfProofs TextTapeInvProofs TextTapeGrammarSound TextTapeGrammarLemmas.
Require Import Lia.
Open Scope nat_scope.

Lemma scalar_step_tok : forall d c tok d', scalar_step d c = Ok (tok, d') -> is_key tok = true.
Proof.
  intros d c tok d' H. unfold scalar_step in H.
  destruct (beq c 34).
  - destruct (parse_quote_scalar d) as [[a b]| | | |]; cbn in H; try discriminate. injection H as <- _. reflexivity.
  - destruct (beq c 64).
    + destruct (parse_variable d) as [[a b]| | | |]; cbn in H; try discriminate. injection H as <- _. reflexivity.
    + destruct (split_at_scalar d) as [[a b]| | | |]; cbn in H; try discriminate. injection H as <- _. reflexivity.
Qed.

Lemma len_mid : forall (t0 : ttape) c V, length (t0 ++ c :: V) = length t0 + 1 + length V.
Proof. intros. rewrite app_length. cbn [length]. lia. Qed.

Lemma len_snoc : forall (t0 : ttape) c, length (t0 ++ [c]) = S (length t0).
Proof. intros. rewrite app_length. cbn [length]. lia. Qed.

(* ---------- closing the innermost container ---------- *)
Lemma close_level : forall t0 p0 k0 off0 V0 c' V,
  glevel t0 p0 k0 off0 V0 -> hvals off0 V0 -> susp_ok k0 off0 V0 -> t0 <> [] ->
  gvals (S (length t0)) V -> container_end c' = Some (length t0 + 1 + length V) ->
  body_ok c' (S (length t0)) V ->
  ginv (fst (restore_of k0)) (snd (restore_of k0)) p0 (t0 ++ c' :: V ++ [TEnd (length t0)]) /\
  (p0 = 0 -> gfinal (t0 ++ c' :: V ++ [TEnd (length t0)])).
Proof.
  intros t0 p0 k0 off0 V0 c' V L HV HS N G Hc HB.
  pose proof (glevel_len _ _ _ _ _ L) as El.
  assert (Nz : off0 + length V0 <> 0).
  { rewrite <- El. destruct t0; [congruence|cbn; lia]. }
  rewrite El in *.
  destruct (susp_close k0 off0 V0 c' V HS HV Nz Hc G HB) as [G' LO].
  pose proof (glevel_app _ _ _ _ _ (c' :: V ++ [TEnd (off0 + length V0)]) L) as L'.
  split.
  - destruct k0 as [|fl|[|]]; cbn [restore_of fst snd ginv] in *;
      (eexists _, off0, _; split; [exact L'|split; [exact G'|exact LO]]).
  - intros ->. destruct (glevel_top_inv _ _ _ _ L) as (-> & -> & ->).
    cbn [restore_of fst snd] in LO. destruct LO as (_ & _ & _ & P). split; assumption.
Qed.

Lemma gpost_next : forall d st m p t, ginv st m p t -> gpost (Next (mkps d st m p t)).
Proof. intros. exact H. Qed.

(* ---------- parse_parameter_definition ---------- *)
Lemma parse_param_g : forall d p st t (initial : bool),
  (if initial then exists t', t = t' ++ [TArray 0 false] /\ t' <> [] /\
        exists k off V, glevel t' p k off V /\ hvals off V /\ susp_ok k off V
   else exists k off V, glevel t p k off V /\ gvals off V /\
        (k = KObj true -> phM off V) /\ (phM off V \/ gfields off V)) ->
  gpost (keep_mixed false (parse_param d p st t initial)).
Proof.
  intros d p st t initial Hpre. unfold parse_param.
  rewrite match_o91. destruct (nth_error d 1) as [c1|]; [|exact I].
  destruct (N.eqb c1 91); [|exact I].
  match goal with |- context [if initial then ?a else ?bb] => set (init := if initial then a else bb) end.
  assert (Hinit : exists t2 p2, init = Some (t2, p2) /\
            exists k off V, glevel t2 p2 k off V /\ gvals off V /\
              (k = KObj true -> phM off V) /\ (phM off V \/ gfields off V)).
  { subst init. destruct initial.
    - destruct Hpre as (t' & -> & N & k & off & V & L & HV & HS).
      rewrite len_snoc. rewrite tset_last. eexists _, _. split; [reflexivity|].
      exists (kind_of (TObject p false)), (S (length t')), [].
      split; [eapply gl_open; eauto; reflexivity|].
      split; [apply gv_nil|]. split; [discriminate|]. right. apply gf_nil.
    - eexists _, _. split; [reflexivity|exact Hpre]. }
  destruct Hinit as (t2 & p2 & Einit & k & off & V & L & G & C1 & P). rewrite Einit. clear Hpre Einit init.
  rewrite match_o33.
  set (undefined := match nth_error d 2 with Some c => if N.eqb c 33 then true else false | None => false end).
  set (off' := if undefined then 3 else 2).
  destruct (Nat.ltb (length d) off'); [exact I|].
  destruct (skipn off' d) as [|ca da] eqn:Hsk; [exact I|].
  destruct (split_at_scalar_len (ca :: da) ltac:(discriminate)) as (name & db & -> & Ldb).
  rewrite match_b93. destruct db as [|cb dc]; [exact I|].
  destruct (N.eqb cb 93); [|exact I].
  destruct (skip_ws_t dc) as [de|] eqn:Hws1; [|exact I].
  destruct (skip_ws_t_len _ _ Hws1) as [Nde Lde].
  destruct (split_at_scalar_len de Nde) as (kv & df & -> & Ldf).
  destruct (skip_ws_t df) as [dg|] eqn:Hws2; [|exact I].
  destruct (skip_ws_t_len _ _ Hws2) as [Ndg Ldg].
  set (ptok := if undefined then TUndefinedParameter name else TParameter name).
  assert (Hp : is_key ptok = true) by (subst ptok; destruct undefined; reflexivity).
  assert (G3 : gvals off (V ++ [ptok])) by (apply gvals_snoc; [assumption|apply is_key_leaf'; assumption]).
  pose proof (glevel_app _ _ _ _ _ [ptok] L) as L3.
  rewrite match_b93. destruct dg as [|cg d']; [congruence|].
  destruct (N.eqb cg 93).
  - cbn [keep_mixed pdata pst_ pparent ptape]. apply gpost_next. cbn [ginv].
    exists k, off, ((V ++ [ptok]) ++ [TUnquoted kv]).
    split; [apply glevel_app; exact L3|].
    split; [apply gvals_snoc; [assumption|reflexivity]|].
    split; [intros E; rewrite <- app_assoc; apply phM_app; auto|].
    split; [discriminate|]. split; [reflexivity|].
    destruct P as [M|F]; [left; rewrite <- app_assoc; apply phM_app; exact M|right].
    rewrite <- app_assoc. cbn [app].
    apply (gf_snoc off V ptok [] [TUnquoted kv]); auto; [left; reflexivity|].
    apply gval_scalar. reflexivity.
  - cbn [keep_mixed pdata pst_ pparent ptape]. apply gpost_next. cbn [ginv].
    unfold tpush. rewrite <- (app_assoc (t2 ++ [ptok])). cbn [app].
    exists (kind_of (TObject p2 false)), (S (length (t2 ++ [ptok]))), [TUnquoted kv].
    split.
    { apply (gl_open (t2 ++ [ptok]) p2 k off (V ++ [ptok]) (TObject p2 false) [TUnquoted kv] L3
               (snoc_nonnil' _ _ _) eq_refl (gvals_hvals _ _ G3)).
      destruct k as [|fl|[|]]; cbn [susp_ok]; auto.
      - destruct P as [M|F]; [left; apply phM_app; exact M|right].
        exists (V ++ [ptok]), []. rewrite app_nil_r. split; [reflexivity|]. split; [left; reflexivity|].
        exists V, ptok, []. repeat split; auto. left. reflexivity.
      - apply phM_app. auto.
      - destruct P as [M|F]; [left; apply phM_app; exact M|right].
        exists (V ++ [ptok]), []. rewrite app_nil_r. split; [reflexivity|]. split; [left; reflexivity|].
        exists V, ptok, []. repeat split; auto. left. reflexivity. }
    split; [apply gvals_one; reflexivity|].
    split; [discriminate|]. split; [discriminate|]. split; [reflexivity|].
    split; [right; exists [], (TUnquoted kv); repeat split; apply gf_nil|].
    exists [], (TUnquoted kv). split; reflexivity.
Qed.

(* ---------- the arms of step, state by state ---------- *)
Lemma gstep_SKey : forall d m p t, ginv SKey m p t -> gpost (step (mkps d SKey m p t)).
Proof.
  intros d m p t (k & off & V & L & G & C1 & C2 & -> & P). step_unfold.
  destruct (skip_ws_t d) as [d0|] eqn:Hws.
  2: { destruct (Nat.eqb_spec p 0) as [->|Np].
       - cbn [gpost]. destruct (glevel_top_inv _ _ _ _ L) as (-> & -> & ->). split; assumption.
       - destruct (glevel_open_inv _ _ _ _ _ L Np)
           as (t0 & p0 & k0 & off0 & V0 & c & -> & -> & -> & -> & Hc & N0 & L0 & HV0 & S0).
         rewrite (slot_open _ _ _ _ Hc).
         destruct (Nat.eqb_spec p0 0) as [->|Ns]; [|exact I].
         unfold tpush. rewrite <- app_assoc. cbn [app]. rewrite tset_mid. cbn [gpost].
         rewrite len_mid.
         apply (close_level t0 0 k0 off0 V0 (TObject (length t0 + 1 + length V) false) V); auto.
         cbn [body_ok]. destruct P as [M|F]; [left; exact M|right; auto]. }
  destruct (skip_ws_t_len _ _ Hws) as [Nd0 _].
  destruct d0 as [|c d1]; [congruence|].
  destruct (beq c 125 || beq c 93).
  - destruct (Nat.eqb_spec p 0) as [->|Np]; cbn [andb].
    + rewrite (slot_top _ _ _ _ L (gvals_hvals _ _ G)). cbn [Nat.eqb].
      pose proof (glevel_restore _ _ _ _ _ [] L (gvals_hvals _ _ G) (fun _ => eq_refl)) as Hr.
      rewrite app_nil_r in Hr. rewrite Hr.
      destruct (glevel_top_inv _ _ _ _ L) as (-> & -> & ->). cbn [restore_of].
      apply gpost_next. cbn [ginv]. exists KTop, 0, V. repeat split; auto.
    + destruct (glevel_open_inv _ _ _ _ _ L Np)
        as (t0 & p0 & k0 & off0 & V0 & c0 & -> & -> & -> & -> & Hc & N0 & L0 & HV0 & S0).
      rewrite (slot_open _ _ _ _ Hc).
      rewrite (glevel_restore _ _ _ _ _ (c0 :: V) L0 HV0 ltac:(congruence)).
      destruct (restore_of k0) as [st' m'] eqn:Hr.
      unfold tpush. rewrite <- app_assoc. cbn [app]. rewrite tset_mid. rewrite len_mid.
      apply gpost_next.
      destruct (close_level t0 p0 k0 off0 V0 (TObject (length t0 + 1 + length V) false) V) as [K _]; auto.
      { cbn [body_ok]. destruct P as [M|F]; [left; exact M|right; auto]. }
      rewrite Hr in K. exact K.
  - destruct (beq c 123).
    + destruct (skip_ws_t d1) as [d2|] eqn:Hws2; [|exact I].
      destruct (skip_ws_t_len _ _ Hws2) as [Nd2 _].
      rewrite match_b125. destruct d2 as [|c2 d3]; [congruence|].
      destruct (N.eqb c2 125).
      * apply gpost_next. cbn [ginv]. exists k, off, V. repeat split; auto.
      * destruct (tlast t) as [x|] eqn:Hl; [|exact I].
        destruct x; try exact I.
        destruct (tlast_some _ _ Hl) as (t1 & ->).
        rewrite len_snoc. replace (S (length t1) - 1) with (length t1) by lia.
        rewrite tset_last.
        apply gpost_next. cbn [ginv]. exists (t1 ++ [THeader s]).
        split; [reflexivity|]. split; [apply snoc_nonnil'|].
        destruct (glevel_last _ _ _ _ _ _ _ L eq_refl eq_refl) as (V1 & -> & K).
        exists k, off, (V1 ++ [THeader s]). split; [apply K|].
        split.
        { exists V1, [THeader s]. split; [reflexivity|]. split; [right; eauto|].
          eapply gvals_snoc_inv; eauto. }
        split; [intros E; eapply phM_replace_last; [apply C1; exact E|discriminate]|].
        split; [discriminate|].
        intros _. destruct P as [M|F].
        -- left. eapply phM_replace_last; [exact M|discriminate].
        -- right. exists V1, [THeader s]. split; [reflexivity|]. split; [right; eauto|].
           eapply gfields_last_key; eauto. discriminate.
    + destruct (beq c 91).
      * apply parse_param_g. exists k, off, V. auto.
      * destruct (scalar_step (c :: d1) c) as [[tok d']| | | |] eqn:Hs; try exact I.
        pose proof (scalar_step_tok _ _ _ _ Hs) as Hk.
        apply gpost_next. cbn [ginv]. exists k, off, (V ++ [tok]).
        split; [apply glevel_app; exact L|].
        split; [apply gvals_snoc; [assumption|apply is_key_leaf'; assumption]|].
        split; [intros E; apply phM_app; auto|]. split; [discriminate|]. split; [reflexivity|].
        split.
        -- destruct P as [M|F]; [left; apply phM_app; exact M|right; apply gfields_key; assumption].
        -- exists V, tok. split; [reflexivity|apply is_key_leaf'; assumption].
Qed.

Lemma gstep_SKvs : forall d m p t, ginv SKvs m p t -> gpost (step (mkps d SKvs m p t)).
Proof.
  intros d m p t (k & off & V & L & G & C1 & C2 & -> & P & V1 & x & -> & Hx). step_unfold.
  destruct (skip_ws_t d) as [d0|] eqn:Hws; [|exact I].
  destruct (skip_ws_t_len _ _ Hws) as [Nd0 _].
  destruct d0 as [|c d1]; [congruence|].
  assert (GO : forall d' o, gpost (Next (mkps d' SObjVal false p (tpush t (TOperator o))))).
  { intros d' o. apply gpost_next. cbn [ginv]. exists k, off, ((V1 ++ [x]) ++ [TOperator o]).
    split; [apply glevel_app; exact L|].
    split; [apply gvals_snoc; [assumption|reflexivity]|].
    split; [intros E; apply phM_app; auto|]. split; [discriminate|]. split; [reflexivity|].
    destruct P as [M|K]; [left; apply phM_app; exact M|right; apply phK_op; exact K]. }
  assert (GS : forall d', gpost (Next (mkps d' SObjVal false p t))).
  { intros d'. apply gpost_next. cbn [ginv]. exists k, off, (V1 ++ [x]).
    repeat split; auto; try discriminate.
    destruct P as [M|K]; [left; exact M|right; apply phK_phKO; exact K]. }
  destruct (op2 (c :: d1)) as [[o n]|] eqn:Hop.
  - destruct o; try apply GO. apply GS.
  - match goal with |- context [if ?cond then _ else _] => destruct cond end; [apply GO|].
    destruct (beq c 123); [apply GS|].
    destruct (glevel_split _ _ _ _ _ L) as (pre & -> & _ & K).
    rewrite app_assoc. rewrite tinsert_snoc.
    apply gpost_next. cbn [ginv]. exists k, off, (V1 ++ [TMixedContainer; x]).
    split; [rewrite <- app_assoc; apply K|].
    split; [apply gvals_insert; auto|].
    assert (M' : phM off (V1 ++ [TMixedContainer; x])).
    { destruct P as [M|(F & k' & E & HF & Hk')]; [apply phM_insert; exact M|].
      apply snoc_inj in E. destruct E as [-> ->]. exists F, [k']. auto. }
    repeat split; auto.
Qed.

Lemma gstep_SObjVal : forall d m p t, ginv SObjVal m p t -> gpost (step (mkps d SObjVal m p t)).
Proof.
  intros d m p t (k & off & V & L & G & C1 & C2 & -> & P). step_unfold.
  destruct (skip_ws_t d) as [d0|] eqn:Hws; [|exact I].
  destruct (skip_ws_t_len _ _ Hws) as [Nd0 _].
  destruct d0 as [|c d1]; [congruence|].
  destruct (beq c 123).
  - apply gpost_next. cbn [ginv]. exists t. split; [reflexivity|].
    assert (Nv : V <> []).
    { destruct P as [M|(F & k' & ops & -> & _)]; [eapply phM_nonnil; eauto|destruct F; discriminate]. }
    split; [eapply glevel_nonnil; eauto|].
    exists k, off, V. split; [exact L|]. split; [apply gvals_hvals; exact G|].
    split; [exact C1|]. split; [discriminate|].
    intros _. destruct P as [M|K]; [left; exact M|right].
    exists V, []. rewrite app_nil_r. split; [reflexivity|]. split; [left; reflexivity|exact K].
  - destruct (beq c 125); [exact I|].
    destruct (scalar_step (c :: d1) c) as [[tok d']| | | |] eqn:Hs; try exact I.
    pose proof (scalar_step_tok _ _ _ _ Hs) as Hk.
    apply gpost_next. cbn [ginv]. exists k, off, (V ++ [tok]).
    split; [apply glevel_app; exact L|].
    split; [apply gvals_snoc; [assumption|apply is_key_leaf'; assumption]|].
    split; [intros E; apply phM_app; auto|]. split; [discriminate|]. split; [reflexivity|].
    destruct P as [M|K]; [left; apply phM_app; exact M|right; apply phKO_scalar; assumption].
Qed.

Lemma gstep_SArrVal : forall d m p t, ginv SArrVal m p t -> gpost (step (mkps d SArrVal m p t)).
Proof.
  intros d m p t (k & off & V & L & G & C1 & C2 & C3). step_unfold.
  destruct (skip_ws_t d) as [d0|] eqn:Hws; [|exact I].
  destruct (skip_ws_t_len _ _ Hws) as [Nd0 _].
  destruct d0 as [|c d1]; [congruence|].
  assert (GP : forall d' m' x, is_leaf x = true -> (m' = true -> objlike k -> phM off V) ->
             gpost (Next (mkps d' SArrVal m' p (tpush t x)))).
  { intros d' m' x Hx Hm. apply gpost_next. cbn [ginv]. exists k, off, (V ++ [x]).
    split; [apply glevel_app; exact L|].
    split; [apply gvals_snoc; assumption|].
    split; [intros E; apply phM_app; auto|].
    split; [intros E O; apply phM_app; auto|].
    intros O. apply phM_app; auto. }
  assert (GS : forall site, gpost
     match scalar_step (c :: d1) c with
     | Ok (tok, d') => Next (mkps d' SArrVal m p (tpush t tok))
     | Err e => Fail e
     | _ => Crash site
     end).
  { intros site. destruct (scalar_step (c :: d1) c) as [[tok d']| | | |] eqn:Hs; try exact I.
    apply GP; [apply is_key_leaf'; eapply scalar_step_tok; eauto|exact C2]. }
  destruct (beq c 123).
  { apply gpost_next. cbn [ginv]. exists t. split; [reflexivity|].
    split.
    { destruct (Nat.eq_dec p 0) as [->|Np]; [|eapply glevel_nonnil; eauto].
      destruct (glevel_top_inv _ _ _ _ L) as (-> & -> & ->).
      eapply phM_nonnil. apply C3. exact I. }
    exists k, off, V. split; [exact L|]. split; [apply gvals_hvals; exact G|].
    split; [exact C1|]. split; [exact C2|]. intros O. left. auto. }
  destruct (beq c 125).
  { destruct (Nat.eq_dec p 0) as [->|Np].
    - destruct (glevel_top_inv _ _ _ _ L) as (-> & -> & ->).
      unfold TextTape.tget. destruct (nth_error V 0) as [x|] eqn:E.
      + pose proof (hvals_head _ _ (gvals_hvals _ _ G) E) as Hx.
        destruct x; cbn in Hx; try discriminate; cbv beta match;
          destruct (restore V 0); cbn [Nat.eqb andb]; exact I.
      + cbv beta match. destruct (restore V 0); cbn [Nat.eqb andb]; exact I.
    - destruct (glevel_open_inv _ _ _ _ _ L Np)
        as (t0 & p0 & k0 & off0 & V0 & c0 & -> & -> & -> & -> & Hc & N0 & L0 & HV0 & S0).
      unfold TextTape.tget. rewrite nth_error_mid'.
      assert (R : restore (t0 ++ c0 :: V) p0 = restore_of k0).
      { apply (glevel_restore _ _ _ _ _ (c0 :: V) L0 HV0). congruence. }
      destruct c0; cbn in Hc; try discriminate; injection Hc as Hc; subst e; cbv beta match;
        rewrite R; destruct (restore_of k0) as [st' m'] eqn:Hr;
        (destruct (Nat.eqb_spec (length t0) 0); [contradiction|]); cbn [andb];
        rewrite tset_mid; rewrite len_mid; unfold tpush; rewrite <- app_assoc; cbn [app];
        apply gpost_next.
      + destruct (close_level t0 p0 k0 off0 V0 (TArray (length t0 + 1 + length V) m) V) as [K _]; auto.
        { exact I. }
        rewrite Hr in K. exact K.
      + destruct (close_level t0 p0 k0 off0 V0 (TObject (length t0 + 1 + length V) m) V) as [K _]; auto.
        { cbn [body_ok]. left. apply C3. exact I. }
        rewrite Hr in K. exact K. }
  destruct (beq c 34 || beq c 64); [apply GS|].
  match goal with |- context [if ?cond then _ else _] => destruct cond end; [|apply GS].
  destruct m.
  - destruct (op2 (c :: d1)) as [[o n]|] eqn:Hop; [|exact I].
    apply GP; [reflexivity|exact C2].
  - destruct (tlast t) as [x|] eqn:Hl; [|exact I].
    destruct (is_scalar_tok x) eqn:Hs; [|exact I].
    destruct (tlast_some _ _ Hl) as (t1 & ->). rewrite tinsert_snoc.
    destruct (op2 (c :: d1)) as [[o n]|] eqn:Hop; [|exact I].
    assert (Hce : container_end x = None) by (destruct x; cbn in Hs; try discriminate; reflexivity).
    destruct (glevel_last _ _ _ _ _ _ _ L eq_refl Hce) as (V1 & -> & K).
    pose proof (gvals_last_scalar _ _ _ G Hs) as Hx.
    apply gpost_next. cbn [ginv]. unfold tpush.
    exists k, off, ((V1 ++ [TMixedContainer; x]) ++ [TOperator o]).
    split; [rewrite <- !app_assoc; apply K|].
    split; [apply gvals_snoc; [apply gvals_insert; auto|reflexivity]|].
    split; [intros E; apply phM_app; apply phM_insert; auto|].
    split; [intros _ O; apply phM_app; apply phM_insert; auto|].
    intros O. apply phM_app. apply phM_insert. auto.
Qed.

(* `if mixed_mode { parent.mixed = true }`: only the flag of the open container changes; a level
   whose flag is set this way already holds the marker (mixed_mode => marker) *)
Lemma flag_update_g : forall t' p k off V W (m : bool),
  glevel t' p k off V -> hvals off V -> level_ok SOpen m k off V -> t' <> [] ->
  exists t'' k',
    (if m then
       match TextTape.tget (t' ++ W) p with
       | Some (TArray e _) => match tset (t' ++ W) p (TArray e true) with Some x => x | None => t' ++ W end
       | Some (TObject e _) => match tset (t' ++ W) p (TObject e true) with Some x => x | None => t' ++ W end
       | _ => t' ++ W
       end
     else t' ++ W) = t'' ++ W /\ length t'' = length t' /\
    glevel t'' p k' off V /\ susp_ok k' off V /\ t'' <> [].
Proof.
  intros t' p k off V W m L HV LO N.
  pose proof (level_susp _ _ _ _ LO) as HS.
  destruct m; [|exists t', k; auto].
  destruct LO as (C1 & C2 & C3).
  destruct L as [V|t0 p0 k0 off0 V0 c V L0 N0 Hc HV0 HS0].
  - exists V, KTop. split; [|split; [reflexivity|split; [apply gl_top|split; [exact HS|exact N]]]].
    unfold TextTape.tget. destruct V as [|a V']; [congruence|]. cbn [app nth_error].
    pose proof (hvals_head _ a HV eq_refl) as Ha.
    destruct a; cbn in Ha; try discriminate; reflexivity.
  - rewrite <- app_assoc. cbn [app]. unfold TextTape.tget. rewrite nth_error_mid'.
    destruct c; cbn in Hc; try discriminate; injection Hc as ->; rewrite tset_mid.
    + exists (t0 ++ TArray p0 true :: V), (kind_of (TArray p0 true)).
      split; [rewrite <- app_assoc; reflexivity|].
      split; [rewrite !app_length; reflexivity|].
      split; [eapply gl_open; eauto|]. split; [exact I|destruct t0; discriminate].
    + exists (t0 ++ TObject p0 true :: V), (kind_of (TObject p0 true)).
      split; [rewrite <- app_assoc; reflexivity|].
      split; [rewrite !app_length; reflexivity|].
      split; [eapply gl_open; eauto|]. split; [|destruct t0; discriminate].
      cbn [kind_of susp_ok]. apply C2; [reflexivity|exact I].
Qed.

Lemma gstep_SOpen : forall d m p t, ginv SOpen m p t -> gpost (step (mkps d SOpen m p t)).
Proof.
  intros d m p t (t' & -> & N & k & off & V & L & HV & LO). step_unfold.
  destruct (skip_ws_t d) as [d0|] eqn:Hws; [|exact I].
  destruct (skip_ws_t_len _ _ Hws) as [Nd0 _].
  destruct d0 as [|c d1]; [congruence|].
  rewrite len_snoc.
  pose proof (level_susp _ _ _ _ LO) as HS.
  destruct (beq c 125).
  { rewrite (glevel_restore _ _ _ _ _ [TArray 0 false] L HV ltac:(congruence)).
    destruct (restore_of k) as [st' m'] eqn:Hr. rewrite tset_last.
    unfold tpush. rewrite <- app_assoc. cbn [app].
    apply gpost_next.
    destruct (close_level t' p k off V (TArray (S (length t')) false) []) as [K _]; auto.
    { apply gv_nil. }
    { cbn [container_end length]. f_equal. lia. }
    { exact I. }
    rewrite Hr in K. exact K. }
  destruct (beq c 91).
  { destruct m; [exact I|]. apply parse_param_g.
    exists t'. split; [reflexivity|]. split; [exact N|]. exists k, off, V. auto. }
  destruct (beq c 123).
  { destruct (skip_ws_t d1) as [sc|] eqn:Hws2; [|exact I].
    destruct (skip_ws_t_len _ _ Hws2) as [Nsc _].
    rewrite match_b125. destruct sc as [|c2 d3]; [congruence|].
    destruct (N.eqb c2 125).
    - apply gpost_next. cbn [ginv]. exists t'. split; [reflexivity|]. split; [exact N|].
      exists k, off, V. auto.
    - rewrite tset_last. apply gpost_next. cbn [ginv].
      exists (kind_of (TArray p false)), (S (length t')), [].
      split; [apply (gl_open t' p k off V (TArray p false) [] L N eq_refl HV HS)|].
      split; [apply gv_nil|]. split; [discriminate|]. split; [intros _ []|intros []]. }
  destruct (scalar_step (c :: d1) c) as [[tok d']| | | |] eqn:Hs; try exact I.
  pose proof (scalar_step_tok _ _ _ _ Hs) as Hk.
  unfold tpush. rewrite <- app_assoc. cbn [app].
  destruct (flag_update_g t' p k off V [TArray 0 false; tok] m L HV LO N)
    as (t'' & k' & E & El & L'' & HS'' & N'').
  rewrite E. clear E.
  destruct (skip_ws_t d') as [d2|] eqn:Hws3; [|exact I].
  destruct (skip_ws_t_len _ _ Hws3) as [Nd2 _].
  destruct d2 as [|c2 d3]; [congruence|].
  assert (Hl2 : length (t'' ++ [TArray 0 false; tok]) = S (S (length t''))) by (rewrite app_length; cbn [length]; lia).
  rewrite Hl2.
  destruct (Nat.ltb_spec (S (S (length t''))) 2) as [|_]; [lia|].
  replace (S (S (length t'')) - 2) with (length t'') by lia.
  rewrite !tset_mid.
  destruct (beq c2 61 || beq c2 62 || beq c2 60).
  - apply gpost_next. cbn [ginv].
    exists (kind_of (TObject p false)), (S (length t'')), [tok].
    split; [apply (gl_open t'' p k' off V (TObject p false) [tok] L'' N'' eq_refl HV HS'')|].
    split; [apply gvals_one; apply is_key_leaf'; exact Hk|].
    split; [discriminate|]. split; [discriminate|]. split; [reflexivity|].
    split; [right; exists [], tok; repeat split; [apply gf_nil|exact Hk]|].
    exists [], tok. split; [reflexivity|apply is_key_leaf'; exact Hk].
  - apply gpost_next. cbn [ginv].
    exists (kind_of (TArray p false)), (S (length t'')), [tok].
    split; [apply (gl_open t'' p k' off V (TArray p false) [tok] L'' N'' eq_refl HV HS'')|].
    split; [apply gvals_one; apply is_key_leaf'; exact Hk|].
    split; [discriminate|]. split; [intros _ []|intros []].
Qed.

(* ---------- all arms together ---------- *)
Theorem step_gpost : forall s, GInv s -> gpost (step s).
Proof.
  intros [d st m p t] H. unfold GInv in H. cbn [pst_ pmixed pparent ptape] in H.
  destruct st.
  - apply gstep_SKey; assumption.
  - apply gstep_SKvs; assumption.
  - apply gstep_SObjVal; assumption.
  - apply gstep_SArrVal; assumption.
  - apply gstep_SOpen; assumption.
Qed.

Corollary step_preserves_ginv : forall s s', GInv s -> step s = Next s' -> GInv s'.
Proof. intros s s' H E. pose proof (step_gpost s H) as P. rewrite E in P. exact P. Qed.

Lemma ploop_gfinal : forall fuel s t, GInv s -> ploop fuel s = Ok t -> gfinal t.
Proof.
  induction fuel as [|f IH]; intros s t H E; [discriminate|].
  cbn [ploop] in E. pose proof (step_gpost s H) as P.
  destruct (step s) as [s'|t1|e|x]; cbn [gpost] in P; try discriminate.
  - eapply IH; eauto.
  - injection E as <-. exact P.
Qed.

Lemma GInv_init : forall data, GInv (mkps data SKey false 0 []).
Proof.
  intros. unfold GInv. cbn. exists KTop, 0, []. split; [apply gl_top|]. split; [apply gv_nil|].
  split; [discriminate|]. split; [discriminate|]. split; [reflexivity|]. right. apply gf_nil.
Qed.

Theorem parse_gfinal : forall input t bom, parse input = Ok (t, bom) -> gfinal t.
Proof.
  intros input t bom E. unfold parse in E.
  match type of E with omap _ (ploop ?f ?s) = _ => destruct (ploop f s) as [t1| | | |] eqn:El end;
    cbn in E; try discriminate.
  injection E as <- _. eapply ploop_gfinal; [apply GInv_init|exact El].
Qed.

(* the bridge: every tape the text parser returns satisfies the well-formedness predicate that
   the DOM (C17) and JSON (C16) theorems assume *)
Theorem parse_tape_wf : forall input t bom, parse input = Ok (t, bom) -> TapeWf.tape_wf t.
Proof. intros input t bom E. apply gfinal_tape_wf. eapply parse_gfinal; eauto. Qed.
