(* C16/C17 bridge, part 1: the list grammar of TextTapeGrammar.v implies the index-based
   TapeWf.tape_wf that the DOM / JSON theorems assume:  gfinal t -> TapeWf.tape_wf t. *)
From JV Require Import Bytes TextTok TextTape TapeWf TextTapeGrammar.
Require Import Lia.
Open Scope nat_scope.

(* [seg t off l]: l is the segment of t that starts at index off *)
Definition seg (t : ttape) (off : nat) (l : ttape) : Prop :=
  forall k x, nth_error l k = Some x -> nth_error t (off + k) = Some x.

Lemma seg_self : forall t, seg t 0 t.
Proof. intros t k x H. exact H. Qed.

Lemma seg_app_l : forall t off l1 l2, seg t off (l1 ++ l2) -> seg t off l1.
Proof.
  intros t off l1 l2 H k x Hk. apply H. rewrite nth_error_app1; [exact Hk|].
  apply nth_error_Some. congruence.
Qed.

Lemma seg_app_r : forall t off l1 l2, seg t off (l1 ++ l2) -> seg t (off + length l1) l2.
Proof.
  intros t off l1 l2 H k x Hk. replace (off + length l1 + k) with (off + (length l1 + k)) by lia.
  apply H. rewrite nth_error_app2 by lia. replace (length l1 + k - length l1) with k by lia. exact Hk.
Qed.

Lemma seg_head : forall t off x l, seg t off (x :: l) -> nth_error t off = Some x.
Proof. intros t off x l H. specialize (H 0 x eq_refl). rewrite Nat.add_0_r in H. exact H. Qed.

Lemma seg_tail : forall t off x l, seg t off (x :: l) -> seg t (S off) l.
Proof.
  intros t off x l H k y Hk. replace (S off + k) with (off + S k) by lia. apply H. exact Hk.
Qed.

Lemma seg_at : forall t off l1 x l2, seg t off (l1 ++ x :: l2) -> nth_error t (off + length l1) = Some x.
Proof. intros t off l1 x l2 H. apply seg_app_r in H. eapply seg_head; eauto. Qed.

Lemma nth_error_lt : forall (t : ttape) i x, nth_error t i = Some x -> i < length t.
Proof. intros t i x H. apply nth_error_Some. congruence. Qed.

(* ---------- values and fields ---------- *)
Lemma gvalue_end : forall off v, gvalue off v -> forall t, seg t off v ->
  value_end t off = Some (off + length v) /\ (forall o, nth_error t off <> Some (TOperator o)).
Proof.
  intros off v H t Sg. destruct H as [off x Hx|off c body Hc|off s c body Hc].
  - pose proof (seg_head _ _ _ _ Sg) as E. unfold value_end, tget. rewrite E. split.
    + destruct x; cbn in Hx; try discriminate; cbn [is_key length]; f_equal; lia.
    + intros o. destruct x; cbn in Hx; try discriminate; congruence.
  - pose proof (seg_head _ _ _ _ Sg) as E. unfold value_end, tget. rewrite E. split.
    + cbn [length]. rewrite app_length. cbn [length].
      destruct c; cbn in Hc; try discriminate; injection Hc as ->; f_equal; lia.
    + intros o. destruct c; cbn in Hc; try discriminate; congruence.
  - pose proof (seg_head _ _ _ _ Sg) as E. pose proof (seg_head _ _ _ _ (seg_tail _ _ _ _ Sg)) as E2.
    unfold value_end, tget. rewrite E, E2. split.
    + cbn [length]. rewrite app_length. cbn [length].
      destruct c; cbn in Hc; try discriminate; injection Hc as ->; f_equal; lia.
    + intros o. congruence.
Qed.

Lemma gvalue_nonnil : forall off v, gvalue off v -> v <> [].
Proof. intros off v H. destruct H; discriminate. Qed.

Lemma gfields_sound : forall off F, gfields off F -> forall t e r,
  seg t off F -> off + length F <= e ->
  fields_end t (off + length F) e r -> fields_end t off e r.
Proof.
  induction 1 as [off|off F k ops v HF IH Hk Hops Hv]; intros t e r Sg Le Hr.
  - cbn [length] in Hr. rewrite Nat.add_0_r in Hr. exact Hr.
  - rewrite !app_length in *. cbn [length] in *. rewrite app_length in *.
    apply IH; [eapply seg_app_l; eauto|lia|].
    pose proof (seg_app_r _ _ _ _ Sg) as S1.
    pose proof (seg_head _ _ _ _ S1) as Ek.
    pose proof (seg_tail _ _ _ _ S1) as S2.
    pose proof (seg_app_r _ _ _ _ S2) as S3.
    replace (S (off + length F) + length ops) with (off + length F + 1 + length ops) in S3 by lia.
    destruct (gvalue_end _ _ Hv t S3) as [Ev Nop].
    apply fe_field with (k := k) (n := off + length F + 1 + length ops + length v); try assumption.
    + unfold value_ind_of, tget. destruct Hops as [->|(o & ->)].
      * cbn [length] in *. replace (S (off + length F)) with (off + length F + 1 + 0) by lia.
        destruct (nth_error t (off + length F + 1 + 0)) as [[]|] eqn:E; try exact Ev.
        exfalso. eapply Nop; eauto.
      * cbn [length] in *. rewrite (seg_head _ _ _ _ S2).
        replace (S (S (off + length F))) with (off + length F + 1 + 1) by lia. exact Ev.
    + lia.
    + replace (off + length F + 1 + length ops + length v)
        with (off + (length F + S (length ops + length v))) by lia. exact Hr.
Qed.

Lemma objg_sound : forall off V m t, objg off V m -> seg t off V ->
  exists r, fields_end t off (off + length V) r /\ (m = true -> r < off + length V).
Proof.
  intros off V m t [(F & R & -> & HF)|[-> HF]] Sg.
  - exists (off + length F). rewrite app_length. cbn [length]. split; [|lia].
    apply (gfields_sound _ _ HF); [eapply seg_app_l; eauto|lia|].
    apply fe_mixed; [|lia]. unfold tget. eapply seg_at; eauto.
  - exists (off + length V). split; [|discriminate].
    apply (gfields_sound _ _ HF); [assumption|lia|apply fe_done].
Qed.

(* ---------- complete values: Dyck structure and cont_ok of every token ---------- *)
Lemma cont_ok_intro : forall t i x, nth_error t i = Some x ->
  match x with
  | TArray e _ => i < e /\ e < length t /\ is_end_of (tget t e) i = true /\ dyck t (S i) e
  | TObject e m => i < e /\ e < length t /\ is_end_of (tget t e) i = true /\ dyck t (S i) e /\
                   exists r, fields_end t (S i) e r /\ (m = true -> r < e)
  | THeader _ => match tget t (S i) with Some k => is_container k = true | None => False end
  | _ => True
  end -> cont_ok t i.
Proof. intros t i x E H. unfold cont_ok, tget in *. rewrite E. exact H. Qed.

Lemma gvals_sound : forall off l, gvals off l -> forall t, seg t off l ->
  dyck t off (off + length l) /\ forall k, k < length l -> cont_ok t (off + k).
Proof.
  induction 1 as [off|off x l Hx Hl IH|off s c l Hc Hl IH|off c body rest Hoff Hc Hb IHb Hbo Hr IHr];
    intros t Sg.
  - cbn [length]. rewrite Nat.add_0_r. split; [apply dyck_nil|]. intros k Hk. lia.
  - pose proof (seg_head _ _ _ _ Sg) as E. destruct (IH t (seg_tail _ _ _ _ Sg)) as [D C].
    cbn [length]. split.
    + apply dyck_leaf with (k := x); try assumption.
      replace (off + S (length l)) with (S off + length l) by lia. exact D.
    + intros k Hk. destruct k as [|k].
      * rewrite Nat.add_0_r. apply (cont_ok_intro _ _ _ E).
        destruct x; cbn in Hx; try discriminate; exact I.
      * replace (off + S k) with (S off + k) by lia. apply C. lia.
  - pose proof (seg_head _ _ _ _ Sg) as E. pose proof (seg_tail _ _ _ _ Sg) as S1.
    pose proof (seg_head _ _ _ _ S1) as E1. destruct (IH t S1) as [D C].
    cbn [length] in *. split.
    + apply dyck_header with (s := s) (k := c); try assumption; [lia|].
      replace (off + S (S (length l))) with (S off + S (length l)) by lia. exact D.
    + intros k Hk. destruct k as [|k].
      * rewrite Nat.add_0_r. apply (cont_ok_intro _ _ _ E). unfold tget. rewrite E1. exact Hc.
      * replace (off + S k) with (S off + k) by lia. apply C. lia.
  - pose proof (seg_head _ _ _ _ Sg) as E. pose proof (seg_tail _ _ _ _ Sg) as S1.
    pose proof (seg_app_l _ _ _ _ S1) as Sb. pose proof (seg_app_r _ _ _ _ S1) as S2.
    pose proof (seg_head _ _ _ _ S2) as Ee. pose proof (seg_tail _ _ _ _ S2) as Sr.
    destruct (IHb t Sb) as [Db Cb].
    replace (S (S off + length body)) with (off + 2 + length body) in Sr by lia.
    destruct (IHr t Sr) as [Dr Cr].
    set (e' := off + 1 + length body).
    replace (S off + length body) with e' in * by (subst e'; lia).
    assert (Hend : is_end_of (tget t e') off = true).
    { unfold tget. rewrite Ee. cbn. apply Nat.eqb_refl. }
    cbn [length]. rewrite app_length. cbn [length]. split.
    + apply dyck_cont with (k := c) (e' := e'); try assumption; try (subst e'; lia).
      replace (S e') with (off + 2 + length body) by (subst e'; lia).
      replace (off + S (length body + S (length rest))) with (off + 2 + length body + length rest) by lia.
      exact Dr.
    + intros k Hk.
      destruct k as [|k].
      * rewrite Nat.add_0_r. apply (cont_ok_intro _ _ _ E).
        pose proof (nth_error_lt _ _ _ Ee) as Lt.
        destruct c; cbn in Hc; try discriminate; injection Hc as Hc; fold e' in Hc; subst e.
        -- repeat split; try assumption; subst e'; lia.
        -- repeat split; try assumption; try (subst e'; lia).
           cbn [body_ok] in Hbo. destruct (objg_sound _ _ _ t Hbo Sb) as (r & Fr & Mr).
           replace (S off + length body) with e' in * by (subst e'; lia). eauto.
      * destruct (Nat.lt_ge_cases k (length body)) as [L|G].
        { replace (off + S k) with (S off + k) by lia. apply Cb. exact L. }
        destruct (Nat.eq_dec k (length body)) as [->|Ne].
        { replace (off + S (length body)) with e' by (subst e'; lia).
          apply (cont_ok_intro _ _ _ Ee). exact I. }
        replace (off + S k) with (off + 2 + length body + (k - S (length body))) by lia.
        apply Cr. lia.
Qed.

Lemma gvals_head : forall V x, gvals 0 V -> nth_error V 0 = Some x -> is_container x = false.
Proof.
  intros V x H E. remember 0 as off eqn:Eo.
  destruct H as [off|off y l Hy Hl|off s c l Hc Hl|off c body rest Hoff Hc Hb Hbo Hr];
    subst off; cbn in E; try discriminate; injection E as <-.
  - destruct y; cbn in *; congruence.
  - reflexivity.
  - congruence.
Qed.

Theorem gfinal_tape_wf : forall t, gfinal t -> TapeWf.tape_wf t.
Proof.
  intros t [G P]. destruct (gvals_sound _ _ G t (seg_self t)) as [D C].
  cbn [Nat.add] in *. repeat split.
  - exact D.
  - assert (O : objg 0 t false).
    { destruct P as [P|P]; [left; exact P|right; split; [reflexivity|exact P]]. }
    destruct (objg_sound _ _ _ t O (seg_self t)) as (r & Fr & _). eauto.
  - exact C.
  - unfold tget. destruct (nth_error t 0) as [k|] eqn:E; [|exact I].
    eapply gvals_head; eauto.
Qed.
