(* C05 for the text STREAM deserializer walk (TextDeStream.sde / swalk over an abstract token
   source): no Panic / OOB for any fuel, and no OutOfFuel when
       2 * (tokens left) + shape_size + 8 <= fuel      (= TextDeStream.stream_fuel),
   for every shape (ShProp included: the text side models Property), every token source whose
   operations are strict and consume tokens (instance: the token list [ltoks]), every decoder
   that returns real bytes.  The panic sites of the visitor side (TextDeCommon.finish: 9001 slot
   list shorter than the field list, 9002 Property slots) are discharged by the invariant
   "the slot list has the length the visitor allocated". *)
From JV.proofs Require Import SwarLanes NoCrashWalk.
From JV Require Import Bytes Utf8 Scalar TextTok TextReader SerdeShape TextDeCommon TextDeStream.
From Coq Require Import List NArith ZArith Bool Lia Arith.
Import ListNotations.
Open Scope nat_scope.

Notation tsize := TextDeCommon.shape_size.

Lemma tsize_pos sh : 1 <= tsize sh.
Proof. destruct sh; cbn; lia. Qed.
Lemma ttup_size_le ss s : In s ss -> tsize s <= fold_right (fun s n => tsize s + n) 0 ss.
Proof. induction ss as [|x ss IH]; cbn; [tauto|]. intros [->|H]; [lia|]. specialize (IH H). lia. Qed.
Lemma tstruct_size_le (fs : list field) f : In f fs -> tsize (snd f) <= fold_right (fun f n => tsize (snd f) + n) 0 fs.
Proof. induction fs as [|x fs IH]; cbn; [tauto|]. intros [->|H]; [lia|]. specialize (IH H). lia. Qed.

Definition tprim_wf (p : tprim) : Prop := match p with TPStr _ s => wfl s | _ => True end.
Lemma tprim_wf_ok p : tprim_wf p -> prim_ok (sprim p).
Proof. destruct p; cbn; auto. Qed.

Lemma op_symbol_wfl o : wfl (op_symbol o).
Proof. destruct o; repeat constructor. Qed.

Lemma visit_operator_strict p : strict (fun _ => True) (visit_operator p).
Proof. destruct p; cbn; auto. destruct borrowed; cbn; auto. destruct (op_of_symbol s); cbn; auto. Qed.

(* ---------- the accumulator of a visit_map loop ---------- *)
Definition acc_ok (m : wmode) (a : acc) : Prop :=
  match m with
  | WStruct _ fs => length (a_slots a) = length fs
  | WProp _ => length (a_slots a) = 2
  | _ => True
  end.

Lemma upd_length {A} : forall (l : list A) i g, length (upd l i g) = length l.
Proof. induction l as [|x l IH]; intros [|i] g; cbn; auto. Qed.

Lemma acc0_ok m : acc_ok m (acc0 m).
Proof. destruct m; cbn; auto. apply map_length. Qed.

Lemma finish_fields_strict : forall fs sl, length sl = length fs -> strict (fun _ => True) (finish_fields fs sl).
Proof.
  induction fs as [|f fs IH]; intros sl Hl; [exact I|].
  destruct sl as [|x sl]; [discriminate|]. cbn [finish_fields].
  apply strict_bind with (P := fun _ => True).
  - destruct (f_mode f), x as [[v|] c]; cbn; auto; destruct (is_opt (f_shape f)); cbn; auto.
  - intros v _. apply strict_bind with (P := fun _ => True); [apply IH; cbn in Hl; lia|]. intros; exact I.
Qed.

Lemma finish_strict m a : acc_ok m a -> strict (fun _ => True) (finish m a).
Proof.
  destruct m; cbn [finish acc_ok]; intros H; try exact I.
  - unfold omap. eapply strict_bind; [apply finish_fields_strict; exact H|]. intros; exact I.
  - destruct (a_slots a) as [|[o c1] [|[v c2] [|]]]; cbn in H; try discriminate.
    destruct o as [[]|]; try exact I. destruct v; [exact I|]. destruct (is_opt s); exact I.
Qed.

Definition wm_size (m : wmode) : nat :=
  match m with
  | WMap s => S (tsize s)
  | WStruct _ fs => S (fold_right (fun f n => tsize (snd f) + n) 0 fs)
  | WAny => 1
  | WProp s => S (tsize s)
  end.

Lemma wmode_of_size sh m : wmode_of sh = Some m -> wm_size m = tsize sh.
Proof. destruct sh; cbn; intros H; inversion H; subst; reflexivity. Qed.

Lemma find_name_in : forall fs kb i0 i f, find_name fs kb i0 = Some (i, f) -> In f fs.
Proof.
  induction fs as [|x fs IH]; intros kb i0 i f; cbn [find_name]; [discriminate|].
  destruct (beqb (f_name x) kb); [intros H; inversion H; subst; left; reflexivity|]. intros H. right. eapply IH; eauto.
Qed.

(* one (key, value) step: the value is deserialized into a CHILD shape of the visitor *)
Section EntryOk.
  Context {X St : Type}.
  Variable rec : shape -> X -> St -> outcome (dval * St).
  Variable rec_op : X -> St -> outcome (N * St).
  Variable FF : Prop.
  Variable Q : St -> Prop.

  Lemma entry_ok m a kb knum x s : acc_ok m a ->
    (forall sh, tsize sh <= wm_size m -> gd2 true FF (fun r => Q (snd r)) (rec sh x s)) ->
    gd2 true FF (fun r => Q (snd r)) (rec_op x s) ->
    gd2 true FF (fun r => acc_ok m (fst r) /\ Q (snd r)) (entry rec rec_op m a kb knum x s).
  Proof.
    intros Ha Hrec Hop. destruct m as [sh|tk fs| |sh]; cbn [entry].
    - eapply gd2_bind; [apply (Hrec sh); cbn; lia|]. intros [v s'] H. cbn in *. auto.
    - destruct (tk && knum); [exact I|]. destruct (find_name fs kb 0) as [[i f]|] eqn:E.
      + assert (Hsz : tsize (f_shape f) <= wm_size (WStruct tk fs)).
        { apply find_name_in in E. pose proof (tstruct_size_le fs f E). unfold f_shape. cbn. lia. }
        destruct (f_mode f).
        * destruct (slot_full a i); [exact I|]. eapply gd2_bind; [apply (Hrec (f_shape f)); exact Hsz|].
          intros [v s'] H. cbn in *. rewrite upd_length. auto.
        * eapply gd2_bind; [apply (Hrec (f_shape f)); exact Hsz|].
          intros [v s'] H. cbn in *. rewrite upd_length. auto.
        * eapply gd2_bind; [apply (Hrec (f_shape f)); exact Hsz|].
          intros [v s'] H. cbn in *. rewrite upd_length. auto.
      + eapply gd2_bind; [apply (Hrec ShIgn); cbn; lia|]. intros [v s'] H. cbn in *. auto.
    - eapply gd2_bind; [apply (Hrec ShAny); cbn; lia|]. intros [v s'] H. cbn in *. auto.
    - destruct (beqb kb STR_OPERATOR).
      + destruct (slot_full a 0); [exact I|]. eapply gd2_bind; [exact Hop|]. intros [o s'] H. cbn in *. rewrite upd_length. auto.
      + destruct (beqb kb STR_VALUE).
        * destruct (slot_full a 1); [exact I|]. eapply gd2_bind; [apply (Hrec sh); cbn; lia|].
          intros [v s'] H. cbn in *. rewrite upd_length. auto.
        * eapply gd2_bind; [apply (Hrec ShIgn); cbn; pose proof (tsize_pos sh); lia|]. intros [v s'] H. cbn in *. auto.
  Qed.
End EntryOk.

Section StreamDe.
  Variable decode : bytes -> cow.
  Variable parse_f64 : bytes -> outcome N.
  Variable fo : fops.
  Variable R : Type.
  Variable rnext : R -> outcome (option rtok * R).
  Variable rskip : R -> outcome R.
  Variable rexpect : R -> outcome (rtok * R).
  Variable mr : R -> nat.

  Hypothesis Hdec : forall raw, wfl (cow_bytes (decode raw)).
  Hypothesis H_next : forall r,
    strict (fun x => match fst x with Some _ => mr (snd x) + 1 <= mr r | None => mr (snd x) <= mr r end) (rnext r).
  Hypothesis H_skip : forall r, strict (fun r' => mr r' <= mr r) (rskip r).
  Hypothesis H_expect : forall r, strict (fun x => mr (snd x) + 1 <= mr r) (rexpect r).

  Notation sde := (sde decode parse_f64 fo R rnext rskip rexpect).
  Notation sseq_all := (sseq_all decode parse_f64 fo R rnext rskip rexpect).
  Notation sseq_tup := (sseq_tup decode parse_f64 fo R rnext rskip rexpect).
  Notation swalk := (swalk decode parse_f64 fo R rnext rskip rexpect).
  Notation rread := (rread R rnext).

  Lemma rread_ok r : strict (fun x => mr (snd x) + 1 <= mr r) (rread r).
  Proof.
    unfold TextDeStream.rread. eapply strict_bind; [apply H_next|]. intros [[tk|] r'] H; cbn in *; auto.
  Qed.

  Lemma s_any_ok tk : strict (fun v => match v with SVPrim p => tprim_wf p | _ => True end) (s_any decode tk).
  Proof. destruct tk; cbn; auto. apply op_symbol_wfl. Qed.

  Lemma stream_visit_ok h tk :
    strict (fun v => match v with SVPrim p => tprim_wf p | _ => True end) (stream_visit decode parse_f64 h tk).
  Proof.
    pose proof (s_any_ok tk) as Ha.
    destruct h; cbn [stream_visit]; try exact Ha; try exact I;
      try (match goal with b0 : bool |- _ => destruct b0; [exact I|] end);
      try (destruct tk; first [exact I | exact Ha]);
      try (destruct (tok_scalar tk) as [raw|]; [|exact Ha];
           first [exact I | cbn; apply Hdec
                 | destruct (scalar_prim decode parse_f64 false _ raw); first [exact Ha | exact I]]).
  Qed.

  Lemma tvisit_prim_ok sh p : tprim_wf p -> strict (fun _ => True) (tvisit_prim fo sh p).
  Proof.
    intros Hp. unfold tvisit_prim. eapply strict_mono; [apply visit_prim_ok, tprim_wf_ok; exact Hp|]. intros; exact I.
  Qed.

  Definition PA (f : nat) : Prop := forall sh tk op r,
    gd2 true (2 * mr r + tsize sh + 3 <= f) (fun x => mr (snd x) <= mr r) (sde f sh tk op r).
  Definition PB (f : nat) : Prop := forall s r,
    gd2 true (2 * mr r + tsize s + 2 <= f) (fun x => mr (snd x) <= mr r) (sseq_all f s r).
  Definition PC (f : nat) : Prop := forall ss r SZ, (forall s, In s ss -> tsize s <= SZ) ->
    gd2 true (2 * mr r + SZ + 2 <= f) (fun x => mr (snd x) <= mr r) (sseq_tup f ss r).
  Definition PD (f : nat) : Prop := forall root m a r, acc_ok m a ->
    gd2 true (2 * mr r + wm_size m + 1 <= f) (fun x => acc_ok m (fst x) /\ mr (snd x) <= mr r) (swalk f root m a r).

  Lemma step_A f : PA f -> PB f -> PC f -> PD f -> PA (S f).
  Proof.
    intros IA IB IC ID sh tk op r. cbn [TextDeStream.sde].
    eapply gd2_bind; [apply strict_gd2, stream_visit_ok|]. intros v Hv.
    destruct v as [p| | |chk| | | | ].
    - eapply gd2_bind; [apply strict_gd2, tvisit_prim_ok; exact Hv|]. intros x _. cbn. lia.
    - destruct sh; try exact I.
      eapply gd2_bind; [eapply gd2_mono; [apply (IA sh tk op r)|cbn [tsize]; lia|intros x H; exact H]|].
      intros [x r'] H. cbn in *. exact H.
    - exact I.
    - destruct sh; try exact I.
      + eapply gd2_bind; [eapply gd2_mono; [apply (IB sh r)|cbn [tsize]; lia|intros x H; exact H]|].
        intros [l r'] H. cbn in *. exact H.
      + eapply gd2_bind.
        { eapply gd2_mono; [apply (IC ss r (fold_right (fun s n => tsize s + n) 0 ss))|cbn [tsize]; lia|intros x H; exact H].
          intros s Hin. apply ttup_size_le. exact Hin. }
        intros [l r'] H. cbn [fst snd] in *. destruct chk; [|cbn; exact H].
        eapply gd2_bind; [apply strict_gd2, rread_ok|]. intros [tk' r''] H2. cbn [fst snd] in *.
        destruct tk'; try exact I. cbn. lia.
      + eapply gd2_bind; [apply strict_gd2, rread_ok|]. intros; exact I.
      + eapply gd2_bind; [eapply gd2_mono; [apply (IB ShAny r)|cbn [tsize]; lia|intros x H; exact H]|].
        intros [l r'] H. cbn in *. exact H.
    - destruct (wmode_of sh) as [m|] eqn:Em; [|exact I]. apply wmode_of_size in Em.
      eapply gd2_bind; [eapply gd2_mono; [apply (ID false m (acc0 m) r (acc0_ok m))|lia|intros x H; exact H]|].
      intros [a r'] [H1 H2]. cbn [fst snd] in *.
      eapply gd2_bind; [apply strict_gd2, finish_strict; exact H1|]. intros x _. cbn. exact H2.
    - destruct sh; try exact I.
      eapply gd2_bind; [eapply gd2_mono; [apply (IA sh tk Equal r)|cbn [tsize]; lia|intros x H; exact H]|].
      intros [x r'] H. cbn in *. exact H.
    - destruct sh; try exact I.
      eapply gd2_bind; [apply strict_gd2, stream_visit_ok|]. intros vv Hvv. destruct vv; try exact I.
      eapply gd2_bind; [apply strict_gd2; unfold tvisit_variant; apply visit_variant_strict|]. intros x _. cbn. lia.
    - eapply gd2_bind; [apply strict_gd2, H_skip|]. intros r' Hr'.
      eapply gd2_bind; [apply strict_gd2, (tvisit_prim_ok sh TPUnit I)|]. intros x _. cbn. exact Hr'.
  Qed.

  Lemma step_B f : PA f -> PB f -> PB (S f).
  Proof.
    intros IA IB s r. cbn [TextDeStream.sseq_all].
    eapply gd2_bind; [apply strict_gd2, rread_ok|]. intros [tk r1] H1. cbn [fst snd] in *.
    assert (Hgo : gd2 true (2 * mr r + tsize s + 2 <= S f) (fun x : list dval * R => mr (snd x) <= mr r)
                    (do (x, r2) <- sde f s tk Equal r1; do (l, r3) <- sseq_all f s r2; Ok (x :: l, r3))).
    { eapply gd2_bind; [eapply gd2_mono; [apply (IA s tk Equal r1)|lia|intros x H; exact H]|].
      intros [x r2] H2. cbn [fst snd] in *.
      eapply gd2_bind; [eapply gd2_mono; [apply (IB s r2)|lia|intros y H; exact H]|].
      intros [l r3] H3. cbn in *. lia. }
    destruct tk; try exact Hgo. cbn. lia.
  Qed.

  Lemma step_C f : PA f -> PC f -> PC (S f).
  Proof.
    intros IA IC ss r SZ Hss. cbn [TextDeStream.sseq_tup]. destruct ss as [|s ss]; [cbn; lia|].
    eapply gd2_bind; [apply strict_gd2, rread_ok|]. intros [tk r1] H1. cbn [fst snd] in *.
    pose proof (Hss s (or_introl eq_refl)) as Hs.
    assert (Hgo : gd2 true (2 * mr r + SZ + 2 <= S f) (fun x : list dval * R => mr (snd x) <= mr r)
                    (do (x, r2) <- sde f s tk Equal r1; do (l, r3) <- sseq_tup f ss r2; Ok (x :: l, r3))).
    { eapply gd2_bind; [eapply gd2_mono; [apply (IA s tk Equal r1)|lia|intros x H; exact H]|].
      intros [x r2] H2. cbn [fst snd] in *.
      eapply gd2_bind; [eapply gd2_mono; [apply (IC ss r2 SZ)|lia|intros y H; exact H]|].
      - intros s' Hin. apply Hss. right. exact Hin.
      - intros [l r3] H3. cbn in *. lia. }
    destruct tk; try exact Hgo. exact I.
  Qed.

  Lemma step_D f : PA f -> PD f -> PD (S f).
  Proof.
    intros IA ID root m a r Ha. cbn [TextDeStream.swalk].
    eapply gd2_bind; [apply strict_gd2, H_next|]. intros [[tk|] r1] H1; cbn [fst snd] in *.
    2:{ destruct root; cbn; auto. }
    (* the value reader shared by rec and rec_op *)
    assert (Hval : forall (A : Type) (k : rtok -> operator -> R -> outcome (A * R)) (FF : Prop),
              (forall tk' o r', mr r' + 1 <= mr r1 -> gd2 true FF (fun x => mr (snd x) <= mr r1) (k tk' o r')) ->
              gd2 true FF (fun x : A * R => mr (snd x) <= mr r1)
                  (do (tk0, r1') <- rexpect r1;
                   match tk0 with
                   | ROp o => do (tk2, r2) <- rread r1'; k tk2 o r2
                   | _ => k tk0 Equal r1'
                   end)).
    { intros A k FF Hk. eapply gd2_bind; [apply strict_gd2, H_expect|]. intros [tk0 r1'] E1. cbn [fst snd] in *.
      destruct tk0; try (apply Hk; exact E1).
      eapply gd2_bind; [apply strict_gd2, rread_ok|]. intros [tk2 r2] E2. cbn [fst snd] in *. apply Hk. lia. }
    assert (Hfield : gd2 true (2 * mr r + wm_size m + 1 <= S f) (fun x : acc * R => acc_ok m (fst x) /\ mr (snd x) <= mr r)
              (let '(kb, knum) := key_info decode tk in
               do (a', r2) <- entry
                   (fun sh (_ : unit) r0 =>
                      do (tk0, r1') <- rexpect r0;
                      match tk0 with
                      | ROp o => do (tk2, r2) <- rread r1'; sde f sh tk2 o r2
                      | _ => sde f sh tk0 Equal r1'
                      end)
                   (fun (_ : unit) (r0 : R) =>
                      do (tk0, r1') <- rexpect r0;
                      match tk0 with
                      | ROp o => do (tk2, r2) <- rread r1';
                                 (do vv <- stream_visit decode parse_f64 THStr tk2;
                                  match vv with
                                  | SVPrim p => do o0 <- visit_operator p; Ok (o0, r2)
                                  | _ => Err EC_DE
                                  end)
                      | _ => do vv <- stream_visit decode parse_f64 THStr tk0;
                             match vv with
                             | SVPrim p => do o0 <- visit_operator p; Ok (o0, r1')
                             | _ => Err EC_DE
                             end
                      end) m a kb knum tt r1;
               swalk f root m a' r2)).
    { destruct (key_info decode tk) as [kb knum].
      eapply gd2_bind.
      { apply (entry_ok _ _ (2 * mr r + wm_size m + 1 <= S f) (fun r' => mr r' <= mr r1) m a kb knum tt r1 Ha).
        - intros sh Hsh. apply (Hval dval (sde f sh)). intros tk' o r' Hr'.
          eapply gd2_mono; [apply (IA sh tk' o r')| |intros x H; cbn in *; lia].
          lia.
        - apply (Hval N (fun tk' (_ : operator) r' =>
                           do vv <- stream_visit decode parse_f64 THStr tk';
                           match vv with
                           | SVPrim p => do o0 <- visit_operator p; Ok (o0, r')
                           | _ => Err EC_DE
                           end)).
          intros tk' o r' Hr'. eapply gd2_bind; [apply strict_gd2, stream_visit_ok|]. intros vv _. destruct vv; try exact I.
          eapply gd2_bind; [apply strict_gd2, visit_operator_strict|]. intros o0 _. cbn. lia. }
      intros [a' r2] [A1 A2]. cbn [fst snd] in *.
      eapply gd2_mono; [apply (ID root m a' r2 A1)|lia|]. intros [a2 r3] [B1 B2]. cbn [fst snd] in *. split; [exact B1|lia]. }
    destruct tk; try exact Hfield.
    - eapply gd2_bind; [apply strict_gd2, H_skip|]. intros r2 Hr2. cbv beta in Hr2.
      eapply gd2_mono; [apply (ID root m a r2 Ha)|lia|]. intros [a2 r3] [B1 B2]. cbn [fst snd] in *. split; [exact B1|lia].
    - cbn. split; [exact Ha|lia].
  Qed.

  Theorem stream_all : forall f, PA f /\ PB f /\ PC f /\ PD f.
  Proof.
    induction f as [|f (IA & IB & IC & ID)].
    - repeat split.
      + intros sh tk op r. cbn. lia.
      + intros s r. cbn. lia.
      + intros ss r SZ _. cbn. lia.
      + intros root m a r _. cbn. lia.
    - repeat split; [apply step_A|apply step_B|apply step_C|apply step_D]; assumption.
  Qed.

  Theorem sde_root_ok fuel sh r :
    gd2 true (2 * mr r + tsize sh + 1 <= fuel) (fun _ => True)
        (sde_root decode parse_f64 fo R rnext rskip rexpect fuel sh r).
  Proof.
    unfold sde_root. destruct (wmode_of sh) as [m|] eqn:Em.
    2:{ destruct (thint_of sh); exact I. }
    pose proof (wmode_of_size sh m Em) as Hsz.
    assert (Hgo : gd2 true (2 * mr r + tsize sh + 1 <= fuel) (fun _ : dval => True)
                    (do (a, _) <- swalk fuel true m (acc0 m) r; finish m a)).
    { destruct (stream_all fuel) as (_ & _ & _ & ID).
      eapply gd2_bind; [eapply gd2_mono; [apply (ID true m (acc0 m) r (acc0_ok m))|lia|intros x H; exact H]|].
      intros [a r'] [H1 _]. cbn [fst]. eapply strict_gd2, strict_mono; [apply finish_strict; exact H1|]. intros; exact I. }
    destruct (thint_of sh); try exact I; exact Hgo.
  Qed.
End StreamDe.

(* ---------- the token-list instance ---------- *)
Lemma l_skip_depth_len : forall l depth l', l_skip_depth l depth = Some l' -> length l' <= length l.
Proof.
  induction l as [|tk l IH]; intros depth l'; cbn [l_skip_depth]; [discriminate|].
  destruct tk; try (intros H; apply IH in H; cbn [length]; lia).
  destruct depth as [|d]; [intros H; inversion H; subst; cbn [length]; lia|]. intros H; apply IH in H; cbn [length]; lia.
Qed.

Definition mr_l (r : ltoks) : nat := length (fst r).

Lemma l_next_ok r :
  strict (fun x => match fst x with Some _ => mr_l (snd x) + 1 <= mr_l r | None => mr_l (snd x) <= mr_l r end) (l_next r).
Proof. destruct r as [[|tk l] [e|]]; cbn; unfold mr_l; cbn; auto; lia. Qed.
Lemma l_skip_ok r : strict (fun r' => mr_l r' <= mr_l r) (l_skip r).
Proof.
  unfold l_skip. destruct (l_skip_depth (fst r) 0) as [l'|] eqn:E; cbn; auto.
  apply l_skip_depth_len in E. unfold mr_l. cbn. exact E.
Qed.
Lemma l_read_ok r : strict (fun x => mr_l (snd x) + 1 <= mr_l r) (l_read r).
Proof. destruct r as [[|tk l] [e|]]; cbn; unfold mr_l; cbn; auto; lia. Qed.

Theorem deser_stream_ok decode parse_f64 fo sh r : (forall raw, wfl (cow_bytes (decode raw))) ->
  gd2 true True (fun _ => True) (deser_stream decode parse_f64 fo sh r).
Proof.
  intros Hdec. unfold deser_stream.
  eapply gd2_mono; [apply (sde_root_ok decode parse_f64 fo ltoks l_next l_skip l_read mr_l Hdec l_next_ok l_skip_ok l_read_ok)| |intros; exact I].
  intros _. unfold stream_fuel, mr_l. lia.
Qed.
