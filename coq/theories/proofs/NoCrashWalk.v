(* C05 for the serde deserializer walks built on SerdeShape.walk (the three binary paths): a
   GENERIC theorem over an abstract path_ops record.

   If every operation of the deserializer side (dispatch / next_elem / seq_exit / map_exit /
   next_key / next_value / color) is [strict] (returns Ok or Err -- no Panic, no OOB, no
   OutOfFuel) on states / tokens satisfying invariants IS / IT which it preserves, hands the
   visitor only primitives on which serde's and jomini's primitive visitors are total
   ([prim_ok]: i32 visits in the i32 range, string visits with real bytes -- the Date visitors),
   and consumes a measure (mu on states, mt on tokens: "what is still to be read"), then for
   EVERY shape, token, state and fuel the walk
     * never returns OOB, and returns Panic only as Panic 9001 = the model's "ShProp is not
       modelled on the binary side" marker, and not even that when the shape contains no ShProp
       (parameter b: b = true demands noprop, b = false allows any shape);
     * does not return OutOfFuel when  mu st + mt tok + shape_size sh + 1 <= fuel.
   All the visitor-side panic sites of SerdeShape.v are discharged here once: 9002 (slots_finish),
   9003 (key result of the wrong kind), 9004 (field index), 9005 (String key visitor). *)
From JV.proofs Require Import SwarLanes DateProofs2 DateParse DateFast.
From JV Require Import Bytes Utf8 Date BinPrim SerdeShape BinDeCommon.
From Coq Require Import List NArith ZArith Bool Lia Arith.
Import ListNotations.
Open Scope nat_scope.

(* ---------- outcome predicates ---------- *)
Definition strict {A} (P : A -> Prop) (o : outcome A) : Prop :=
  match o with Ok a => P a | Err _ => True | _ => False end.

(* b = true: no Panic at all; b = false: only the ShProp marker.  FF = "the fuel is sufficient" *)
Definition gd2 (b : bool) (FF : Prop) {A} (P : A -> Prop) (o : outcome A) : Prop :=
  match o with
  | Ok a => P a
  | Err _ => True
  | OutOfFuel => ~ FF
  | Panic s => b = false /\ s = 9001%N
  | OOB _ => False
  end.

Lemma strict_gd2 b (FF : Prop) {A} (P : A -> Prop) o : strict P o -> gd2 b FF P o.
Proof. destruct o; cbn; tauto. Qed.

Lemma gd2_bind b (FF : Prop) {A B} (P : A -> Prop) (Q : B -> Prop) (x : outcome A) (f : A -> outcome B) :
  gd2 b FF P x -> (forall a, P a -> gd2 b FF Q (f a)) -> gd2 b FF Q (obind x f).
Proof. destruct x; cbn; auto. Qed.

Lemma gd2_mono b (FF FF' : Prop) {A} (P P' : A -> Prop) o :
  gd2 b FF' P o -> (FF -> FF') -> (forall a, P a -> P' a) -> gd2 b FF P' o.
Proof. destruct o; cbn; auto. Qed.

Lemma strict_mono {A} (P P' : A -> Prop) o : strict P o -> (forall a, P a -> P' a) -> strict P' o.
Proof. destruct o; cbn; auto. Qed.

Lemma strict_bind {A B} (P : A -> Prop) (Q : B -> Prop) (x : outcome A) (f : A -> outcome B) :
  strict P x -> (forall a, P a -> strict Q (f a)) -> strict Q (obind x f).
Proof. destruct x; cbn; auto; contradiction. Qed.

Lemma nocrash_strict {A} (o : outcome A) : is_crash o = false -> strict (fun _ => True) o.
Proof. destruct o; cbn; auto; discriminate. Qed.

(* ---------- shapes ---------- *)
Fixpoint noprop (sh : shape) : bool :=
  match sh with
  | ShOpt s | ShSeq s | ShMap s => noprop s
  | ShTup ss => forallb noprop ss
  | ShStruct _ fs => forallb (fun f => noprop (snd f)) fs
  | ShProp _ => false
  | _ => true
  end.

Lemma shape_size_pos sh : 1 <= shape_size sh.
Proof. destruct sh; cbn; lia. Qed.

Lemma tup_size_le ss s : In s ss -> shape_size s <= fold_right (fun s n => shape_size s + n) 0 ss.
Proof. induction ss as [|x ss IH]; cbn; [tauto|]. intros [->|H]; [lia|]. specialize (IH H). lia. Qed.

Lemma struct_size_le (fs : list field) f : In f fs ->
  shape_size (snd f) <= fold_right (fun f n => shape_size (snd f) + n) 0 fs.
Proof. induction fs as [|x fs IH]; cbn; [tauto|]. intros [->|H]; [lia|]. specialize (IH H). lia. Qed.

(* ---------- primitives the visitors are total on ---------- *)
Definition prim_ok (p : prim) : Prop :=
  match p with
  | PI32 z => in_i32 z = true
  | PStr s => wfl s
  | _ => True
  end.

Lemma date_val_strict wh o : is_crash o = false -> strict (fun _ => True) (date_val wh o).
Proof. unfold date_val. destruct o as [[d|]| | | |]; cbn; auto; discriminate. Qed.

Lemma visit_prim_ok F sh p : prim_ok p ->
  strict (fun v => sh = ShStr -> exists x, v = DStr x) (visit_prim F sh p).
Proof.
  intros Hp.
  assert (W : forall o : outcome dval, strict (fun _ => True) o -> sh <> ShStr ->
              strict (fun v => sh = ShStr -> exists x, v = DStr x) o).
  { intros o Ho Hs. eapply strict_mono; [exact Ho|]. intros a _ E. contradiction. }
  destruct sh; cbn [visit_prim]; try (apply W; [|discriminate]).
  - destruct p; cbn; eauto. destruct (valid_utf8 s); cbn; eauto.
  - destruct p; cbn; auto.
  - destruct (prim_int p); [destruct (in_u bits z)|]; cbn; auto.
  - destruct (prim_int p); [destruct (in_i bits z)|]; cbn; auto.
  - destruct p; cbn; auto.
  - destruct p; cbn; auto.
  - destruct p; try exact I.
    + apply date_val_strict. apply (from_binary_total z Hp).
    + apply date_val_strict. apply date_parse_nocrash. exact Hp.
  - destruct p; try exact I.
    + apply date_val_strict. apply (from_binary_total z Hp).
    + apply date_val_strict. apply (parse_nocrash s).
  - destruct p; cbn; auto.
  - exact I. - exact I. - exact I. - exact I. - exact I. - exact I.
  - destruct p; cbn; auto.
  - exact I.
Qed.

Lemma visit_variant_strict vs p : strict (fun _ => True) (visit_variant vs p).
Proof. destruct p; cbn; auto. destruct (existsb (beqb s) vs); cbn; auto. Qed.

Lemma field_by_name_lt : forall fs s k i, field_by_name fs s k = Some i -> i < k + length fs.
Proof.
  induction fs as [|f fs IH]; intros s k i; cbn [field_by_name]; [discriminate|].
  destruct (beqb (f_name f) s). { intros H. inversion H; subst. cbn [length]. lia. }
  intros H. apply IH in H. cbn [length]. lia.
Qed.
Lemma field_by_token_lt : forall fs t k i, field_by_token fs t k = Some i -> i < k + length fs.
Proof.
  induction fs as [|f fs IH]; intros t k i; cbn [field_by_token]; [discriminate|].
  destruct (f_tok f) as [t'|].
  - destruct (t' =? t)%N. { intros H. inversion H; subst. cbn [length]. lia. }
    intros H. apply IH in H. cbn [length]. lia.
  - intros H. apply IH in H. cbn [length]. lia.
Qed.

Lemma slot_upd_length : forall sl i g, length (slot_upd sl i g) = length sl.
Proof. induction sl as [|x sl IH]; intros [|i] g; cbn; auto. Qed.
Lemma slot_put_length sl m i v : length (slot_put sl m i v) = length sl.
Proof. destruct m; cbn; apply slot_upd_length. Qed.

Lemma slots_finish_strict : forall fs sl, length sl = length fs -> strict (fun _ => True) (slots_finish fs sl).
Proof.
  induction fs as [|f fs IH]; intros sl Hl; [exact I|].
  destruct sl as [|x sl]; [discriminate|]. cbn [slots_finish].
  apply strict_bind with (P := fun _ => True).
  - destruct (f_mode f); cbn; auto; destruct (fst x); cbn; auto; destruct (f_shape f); cbn; auto.
  - intros v _. apply strict_bind with (P := fun _ => True); [apply IH; cbn in Hl; lia|]. intros; exact I.
Qed.

(* ---------- generic visit_seq over any element function ---------- *)
Section SeqGeneric.
  Context {A : Type}.
  Variable elem : shape -> A -> outcome (option dval * A).
  Variable b : bool.
  Variable IA : A -> Prop.
  Variable OKS : shape -> Prop.
  Variable ma : A -> nat.
  Variable f : nat.
  Hypothesis OKS_seq : forall s, OKS (ShSeq s) -> OKS s.
  Hypothesis OKS_tup : forall ss s, OKS (ShTup ss) -> In s ss -> OKS s.
  Hypothesis OKS_any : OKS ShAny.
  Hypothesis OKS_ign : OKS ShIgn.
  Hypothesis H_elem : forall s a, IA a -> OKS s ->
    gd2 b (ma a + shape_size s + 1 <= f + 1)
        (fun r => IA (snd r) /\ match fst r with None => ma (snd r) <= ma a | Some _ => ma (snd r) + 1 <= ma a end)
        (elem s a).

  Lemma seq_loop_ok : forall n s a acc, IA a -> OKS s ->
    gd2 b (ma a + 1 <= n /\ ma a + shape_size s + 1 <= f + 1)
        (fun r => IA (snd r) /\ ma (snd r) <= ma a) (seq_loop elem n s a acc).
  Proof.
    induction n as [|n IH]; intros s a acc Ha Hs; [cbn; intros [H _]; lia|].
    cbn [seq_loop]. eapply gd2_bind.
    { eapply gd2_mono; [apply (H_elem s a Ha Hs)|tauto|intros r H; exact H]. }
    intros [o a'] [H1 H2]. cbn [fst snd] in *. destruct o as [v|].
    - eapply gd2_mono; [apply (IH s a' (v :: acc) H1 Hs)|intros [X Y]; split; lia|].
      intros r [R1 R2]. split; [exact R1|lia].
    - cbn. split; [exact H1|exact H2].
  Qed.

  Lemma tup_loop_ok SZ : forall ss a acc, IA a -> (forall s, In s ss -> OKS s /\ shape_size s <= SZ) ->
    gd2 b (ma a + SZ + 1 <= f + 1) (fun r => IA (snd r) /\ ma (snd r) <= ma a) (tup_loop elem ss a acc).
  Proof.
    induction ss as [|s ss IH]; intros a acc Ha Hss; [cbn; auto|].
    cbn [tup_loop]. destruct (Hss s (or_introl eq_refl)) as [Hs Hsz]. eapply gd2_bind.
    { eapply gd2_mono; [apply (H_elem s a Ha Hs)|intros X; lia|intros r H; exact H]. }
    intros [o a'] [H1 H2]. cbn [fst snd] in *. destruct o as [v|]; [|exact I].
    eapply gd2_mono; [apply (IH a' (v :: acc) H1)|intros X; lia|].
    - intros s' Hin. apply Hss. right. exact Hin.
    - intros r [R1 R2]. split; [exact R1|lia].
  Qed.

  Lemma visit_seq_ok n sh a : IA a -> OKS sh ->
    gd2 b (ma a + 1 <= n /\ ma a + shape_size sh + 1 <= f + 1)
        (fun r => IA (snd (fst r)) /\ ma (snd (fst r)) <= ma a /\ sh <> ShStr) (visit_seq elem n sh a).
  Proof.
    intros Ha Hs. destruct sh; cbn [visit_seq]; try exact I.
    - eapply gd2_bind.
      { eapply gd2_mono; [apply (seq_loop_ok n sh a [] Ha (OKS_seq _ Hs))|cbn [shape_size]; intros [X Y]; split; lia|intros r H; exact H]. }
      intros [vs a'] [H1 H2]. cbn. repeat split; auto; discriminate.
    - eapply gd2_bind.
      { eapply gd2_mono; [apply (tup_loop_ok (fold_right (fun s n => shape_size s + n) 0 ss) ss a [] Ha)|cbn [shape_size]; intros [X Y]; lia|intros r H; exact H].
        intros s Hin. split; [apply (OKS_tup ss s Hs Hin)|apply tup_size_le; exact Hin]. }
      intros [vs a'] [H1 H2]. cbn. repeat split; auto; discriminate.
    - eapply gd2_bind.
      { eapply gd2_mono; [apply (seq_loop_ok n ShAny a [] Ha OKS_any)|cbn [shape_size]; intros [X Y]; split; lia|intros r H; exact H]. }
      intros [vs a'] [H1 H2]. cbn. repeat split; auto; discriminate.
    - eapply gd2_bind.
      { eapply gd2_mono; [apply (seq_loop_ok n ShIgn a [] Ha OKS_ign)|cbn [shape_size]; intros [X Y]; split; lia|intros r H; exact H]. }
      intros [vs a'] [H1 H2]. cbn. repeat split; auto; discriminate.
  Qed.
End SeqGeneric.

(* ---------- ColorSequence: strict for every shape (no walk inside) ---------- *)
Lemma wfl_rgb_name : wfl RGB_NAME.
Proof. repeat constructor. Qed.

Lemma gd2_true_strict (FF : Prop) {A} (P : A -> Prop) o : gd2 true FF P o -> FF -> strict P o.
Proof. destruct o; cbn; auto; try tauto. intros [X _]; discriminate. Qed.

Lemma inner_elem_strict cfg c s idx : idx <= 4 ->
  strict (fun r => snd r <= 4 /\ match fst r with None => 4 - snd r <= 4 - idx | Some _ => (4 - snd r) + 1 <= 4 - idx end)
         (inner_elem cfg c s idx).
Proof.
  intros Hi. unfold inner_elem.
  destruct (Nat.leb (match rgb_a c with Some _ => 4 | None => 3 end) idx) eqn:E; [cbn [strict fst snd]; lia|].
  apply Nat.leb_gt in E.
  assert (Hx : strict (fun _ => True)
            (match S idx with
             | 1 => Ok (rgb_r c) | 2 => Ok (rgb_g c) | 3 => Ok (rgb_b c)
             | 4 => match rgb_a c with Some a => Ok a | None => Panic 9101%N end
             | _ => Panic 9102%N end : outcome N)).
  { destruct idx as [|[|[|[|idx]]]]; cbn; auto; destruct (rgb_a c); cbn in *; auto; lia. }
  eapply strict_bind; [exact Hx|]. intros x _.
  eapply strict_bind; [apply (visit_prim_ok (c_fops cfg) s (PU x)); exact I|]. intros v _. cbn [strict fst snd].
  destruct (rgb_a c); lia.
Qed.

Lemma inner_visit_strict cfg c sh0 : strict (fun _ => True) (visit_seq (inner_elem cfg c) 6 sh0 0).
Proof.
  eapply strict_mono.
  - eapply (gd2_true_strict (4 - 0 + 1 <= 6 /\ 4 - 0 + shape_size sh0 + 1 <= (4 + shape_size sh0) + 1)); [|lia].
    apply (visit_seq_ok (inner_elem cfg c) true (fun i => i <= 4) (fun _ => True) (fun i => 4 - i) (4 + shape_size sh0));
      try (intros; exact I); [|lia].
    intros s a Ha _. apply strict_gd2. apply inner_elem_strict. exact Ha.
  - intros; exact I.
Qed.

Lemma color_elem_strict cfg c s idx : idx <= 2 ->
  strict (fun r => snd r <= 2 /\ match fst r with None => 2 - snd r <= 2 - idx | Some _ => (2 - snd r) + 1 <= 2 - idx end)
         (color_elem cfg c s idx).
Proof.
  intros Hi. unfold color_elem. destruct (Nat.leb 2 idx) eqn:E; [cbn [strict fst snd]; lia|]. apply Nat.leb_gt in E.
  destruct (Nat.eqb (S idx) 1).
  - eapply strict_bind; [apply (visit_prim_ok (c_fops cfg) s (PStr RGB_NAME)); exact wfl_rgb_name|]. intros v _. cbn [strict fst snd]. lia.
  - eapply strict_bind; [apply inner_visit_strict|]. intros [r d] _. cbn [strict fst snd]. lia.
Qed.

Lemma color_visit_strict cfg n sh c : strict (fun v => sh = ShStr -> exists x, v = DStr x) (color_visit cfg n sh c).
Proof.
  unfold color_visit. eapply strict_bind.
  - eapply (gd2_true_strict (2 - 0 + 1 <= 4 /\ 2 - 0 + shape_size sh + 1 <= (2 + shape_size sh) + 1)); [|lia].
    apply (visit_seq_ok (color_elem cfg c) true (fun i => i <= 2) (fun _ => True) (fun i => 2 - i) (2 + shape_size sh));
      try (intros; exact I); [|lia].
    intros s a Ha _. apply strict_gd2. apply color_elem_strict. exact Ha.
  - intros [r d] (_ & _ & Hne). cbn. intros E. contradiction.
Qed.

(* ---------- the walk over an abstract deserializer ---------- *)
Section Generic.
  Context {S T C : Type}.
  Variable F : fops.
  Variable ops : path_ops S T C.
  Variable b : bool.
  Variable IS : S -> Prop.
  Variable IT : T -> Prop.
  Variable mu tot : S -> nat.          (* what is still to be read; tot = mu + the pending value of a map cursor *)
  Variable mt : bool -> T -> nat.      (* what a token stands for beyond the state (tape: the container it opens) *)

  Definition okshape (sh : shape) : Prop := b = true -> noprop sh = true.

  Definition act_ok (M : nat) (a : action S C) : Prop :=
    match a with
    | APrim p => prim_ok p
    | ASeq sub | AMap sub => IS sub /\ mu sub <= M
    | AColor _ => True
    end.

  Hypothesis mu_le_tot : forall s, mu s <= tot s.
  Hypothesis H_dispatch : forall k h t s, IS s -> IT t ->
    strict (fun r => IS (snd r) /\ mu (snd r) <= mu s + mt k t /\ tot (snd r) <= tot s + mt k t /\
                     act_ok (mu s + mt k t) (fst r)) (p_dispatch ops k h t s).
  Hypothesis H_next_elem : forall s, IS s ->
    strict (fun r => IS (snd r) /\
                     match fst r with None => mu (snd r) <= mu s | Some t => IT t /\ mu (snd r) + mt false t + 1 <= mu s end)
           (p_next_elem ops s).
  Hypothesis H_seq_exit : forall h s1 sub d, IS s1 -> IS sub ->
    strict (fun s => IS s /\ (forall M, mu s1 <= M -> mu sub <= M -> mu s <= M) /\
                     (forall M, tot s1 <= M -> mu sub <= M -> tot s <= M)) (p_seq_exit ops h s1 sub d).
  Hypothesis H_map_exit : forall s1 sub, IS s1 -> IS sub ->
    strict (fun s => IS s /\ (forall M, mu s1 <= M -> mu sub <= M -> mu s <= M) /\
                     (forall M, tot s1 <= M -> mu sub <= M -> tot s <= M)) (p_map_exit ops s1 sub).
  Hypothesis H_next_key : forall root s, IS s ->
    strict (fun r => IS (snd r) /\
                     match fst r with None => mu (snd r) <= mu s | Some t => IT t /\ tot (snd r) + mt true t + 1 <= mu s end)
           (p_next_key ops root s).
  Hypothesis H_next_value : forall s, IS s ->
    strict (fun r => IT (fst r) /\ IS (snd r) /\ mu (snd r) + mt false (fst r) <= tot s) (p_next_value ops s).
  Hypothesis H_color : forall n sh c, strict (fun v => sh = ShStr -> exists x, v = DStr x) (p_color ops n sh c).

  Definition WFF (st : S) (k : bool) (tok : T) (sh : shape) (fuel : nat) : Prop :=
    mu st + mt k tok + shape_size sh + 1 <= fuel.
  Definition WP (st : S) (k : bool) (tok : T) (sh : shape) (r : dval * S) : Prop :=
    IS (snd r) /\ mu (snd r) <= mu st + mt k tok /\ tot (snd r) <= tot st + mt k tok /\
    (sh = ShStr -> exists x, fst r = DStr x).

  Lemma okshape_opt s : okshape (ShOpt s) -> okshape s. Proof. unfold okshape. cbn. auto. Qed.
  Lemma okshape_seq s : okshape (ShSeq s) -> okshape s. Proof. unfold okshape. cbn. auto. Qed.
  Lemma okshape_map s : okshape (ShMap s) -> okshape s. Proof. unfold okshape. cbn. auto. Qed.
  Lemma okshape_tup ss s : okshape (ShTup ss) -> In s ss -> okshape s.
  Proof. unfold okshape. cbn. intros H Hin Hb. specialize (H Hb). rewrite forallb_forall in H. auto. Qed.
  Lemma okshape_field tk fs f : okshape (ShStruct tk fs) -> In f fs -> okshape (f_shape f).
  Proof. unfold okshape. cbn. intros H Hin Hb. specialize (H Hb). rewrite forallb_forall in H. apply (H f Hin). Qed.
  Lemma okshape_any : okshape ShAny. Proof. intros _. reflexivity. Qed.
  Lemma okshape_ign : okshape ShIgn. Proof. intros _. reflexivity. Qed.
  Lemma okshape_str : okshape ShStr. Proof. intros _. reflexivity. Qed.

  Section Step.
    Variable f : nat.
    Hypothesis IHw : forall k sh tok st, IS st -> IT tok -> okshape sh ->
      gd2 b (WFF st k tok sh f) (WP st k tok sh) (walk F ops f k sh tok st).

    Lemma elem_of_ok s a : IS a -> okshape s ->
      gd2 b (mu a + shape_size s + 1 <= f + 1)
          (fun r => IS (snd r) /\ match fst r with None => mu (snd r) <= mu a | Some _ => mu (snd r) + 1 <= mu a end)
          (elem_of ops (walk F ops f) s a).
    Proof.
      intros Ha Hs. unfold elem_of. eapply gd2_bind; [apply strict_gd2, H_next_elem; exact Ha|].
      intros [ot a1] [H1 H2]. cbn [fst snd] in *. destruct ot as [t|]; [|cbn; auto].
      destruct H2 as [Ht Hm]. eapply gd2_bind.
      { eapply gd2_mono; [apply (IHw false s t a1 H1 Ht Hs)|unfold WFF; lia|intros r H; exact H]. }
      intros [v a2] (A1 & A2 & _). cbn [gd2 fst snd] in *. split; [exact A1|lia].
    Qed.

    Definition kres_ok (ks : kseed) (k : kres) : Prop :=
      match ks, k with
      | KString, KRStr _ => True
      | KAny, KRAny _ => True
      | KIgn, _ => True
      | KField _ fs, KRField i => forall j, i = Some j -> j < length fs
      | _, _ => False
      end.

    Lemma key_of_ok root ks a : IS a ->
      gd2 b (mu a + 1 <= f)
          (fun r => IS (snd r) /\
                    match fst r with None => mu (snd r) <= mu a | Some k => tot (snd r) + 1 <= mu a /\ kres_ok ks k end)
          (key_of ops (walk F ops f) root ks a).
    Proof.
      intros Ha. unfold key_of. eapply gd2_bind; [apply strict_gd2, H_next_key; exact Ha|].
      intros [ot a1] [H1 H2]. cbn [fst snd] in *. destruct ot as [t|]; [|cbn; auto].
      destruct H2 as [Ht Hm]. pose proof (mu_le_tot a1) as Hle.
      destruct ks as [|tk fs| |].
      - eapply gd2_bind.
        { eapply gd2_mono; [apply (IHw true ShStr t a1 H1 Ht okshape_str)|unfold WFF; cbn [shape_size]; lia|intros r H; exact H]. }
        intros [v a2] (A1 & A2 & A3 & A4). cbn [fst snd] in *. destruct (A4 eq_refl) as [x ->]. cbn. repeat split; auto; lia.
      - eapply gd2_bind; [apply strict_gd2, H_dispatch; assumption|].
        intros [act a2] (A1 & A2 & A3 & A4). cbn [fst snd] in *. destruct act as [p| | |]; try exact I.
        apply strict_gd2. eapply strict_bind with (P := fun i => forall j, i = Some j -> j < length fs).
        + destruct p; cbn; auto.
          * intros j Hj. apply field_by_token_lt in Hj. lia.
          * intros j Hj. apply field_by_name_lt in Hj. lia.
        + intros i Hi. cbn. repeat split; auto; lia.
      - eapply gd2_bind.
        { eapply gd2_mono; [apply (IHw true ShAny t a1 H1 Ht okshape_any)|unfold WFF; cbn [shape_size]; lia|intros r H; exact H]. }
        intros [v a2] (A1 & A2 & A3 & A4). cbn [fst snd gd2 kres_ok] in *. repeat split; auto; lia.
      - eapply gd2_bind.
        { eapply gd2_mono; [apply (IHw true ShIgn t a1 H1 Ht okshape_ign)|unfold WFF; cbn [shape_size]; lia|intros r H; exact H]. }
        intros [v a2] (A1 & A2 & A3 & A4). cbn [fst snd gd2 kres_ok] in *. repeat split; auto; lia.
    Qed.

    Lemma value_of_ok s a : IS a -> okshape s ->
      gd2 b (tot a + shape_size s + 1 <= f) (fun r => IS (snd r) /\ mu (snd r) <= tot a)
          (value_of ops (walk F ops f) s a).
    Proof.
      intros Ha Hs. unfold value_of. eapply gd2_bind; [apply strict_gd2, H_next_value; exact Ha|].
      intros [t a1] (Ht & H1 & H2). cbn [fst snd] in *.
      eapply gd2_mono; [apply (IHw false s t a1 H1 Ht Hs)|unfold WFF; lia|].
      intros [v a2] (A1 & A2 & _). cbn [fst snd] in *. split; [exact A1|lia].
    Qed.

    Notation key := (key_of ops (walk F ops f) false).
    Notation value := (value_of ops (walk F ops f)).

    Lemma map_loop_ok root : forall n s a acc, IS a -> okshape s ->
      gd2 b (mu a + 1 <= n /\ mu a + shape_size s + 1 <= f + 1) (fun r => IS (snd r) /\ mu (snd r) <= mu a)
          (map_loop (key_of ops (walk F ops f) root) value n s a acc).
    Proof.
      induction n as [|n IH]; intros s a acc Ha Hs; [cbn; intros [H _]; lia|].
      cbn [map_loop]. pose proof (shape_size_pos s) as Hpos. eapply gd2_bind.
      { eapply gd2_mono; [apply (key_of_ok root KString a Ha)|lia|intros r H; exact H]. }
      intros [k a1] [H1 H2]. cbn [fst snd] in *. destruct k as [k|]; [|cbn; auto].
      destruct H2 as [Hm Hk]. destruct k; cbn [kres_ok] in Hk; try contradiction.
      eapply gd2_bind.
      { eapply gd2_mono; [apply (value_of_ok s a1 H1 Hs)|lia|intros r H; exact H]. }
      intros [v a2] [B1 B2]. cbn [fst snd] in *.
      eapply gd2_mono; [apply (IH s a2 ((s0, v) :: acc) B1 Hs)|intros [X Y]; split; lia|].
      intros r [R1 R2]. split; [exact R1|lia].
    Qed.

    Lemma amap_loop_ok root : forall n a acc, IS a ->
      gd2 b (mu a + 1 <= n /\ mu a + 2 <= f + 1) (fun r => IS (snd r) /\ mu (snd r) <= mu a)
          (amap_loop (key_of ops (walk F ops f) root) value n a acc).
    Proof.
      induction n as [|n IH]; intros a acc Ha; [cbn; intros [H _]; lia|].
      cbn [amap_loop]. eapply gd2_bind.
      { eapply gd2_mono; [apply (key_of_ok root KAny a Ha)|lia|intros r H; exact H]. }
      intros [k a1] [H1 H2]. cbn [fst snd] in *. destruct k as [k|]; [|cbn; auto].
      destruct H2 as [Hm Hk]. destruct k; cbn [kres_ok] in Hk; try contradiction.
      eapply gd2_bind.
      { eapply gd2_mono; [apply (value_of_ok ShAny a1 H1 okshape_any)|cbn [shape_size]; lia|intros r H; exact H]. }
      intros [v0 a2] [B1 B2]. cbn [fst snd] in *.
      eapply gd2_mono; [apply (IH a2 ((v, v0) :: acc) B1)|intros [X Y]; split; lia|].
      intros r [R1 R2]. split; [exact R1|lia].
    Qed.

    Lemma ign_loop_ok root : forall n a, IS a ->
      gd2 b (mu a + 1 <= n /\ mu a + 2 <= f + 1) (fun r => IS r /\ mu r <= mu a)
          (ign_loop (key_of ops (walk F ops f) root) value n a).
    Proof.
      induction n as [|n IH]; intros a Ha; [cbn; intros [H _]; lia|].
      cbn [ign_loop]. eapply gd2_bind.
      { eapply gd2_mono; [apply (key_of_ok root KIgn a Ha)|lia|intros r H; exact H]. }
      intros [k a1] [H1 H2]. cbn [fst snd] in *. destruct k as [k|]; [|cbn; auto].
      destruct H2 as [Hm Hk].
      eapply gd2_bind.
      { eapply gd2_mono; [apply (value_of_ok ShIgn a1 H1 okshape_ign)|cbn [shape_size]; lia|intros r H; exact H]. }
      intros [v0 a2] [B1 B2]. cbn [fst snd] in *.
      eapply gd2_mono; [apply (IH a2 B1)|intros [X Y]; split; lia|].
      intros r [R1 R2]. split; [exact R1|lia].
    Qed.

    Lemma struct_loop_ok root tk fs SZ : (forall f0, In f0 fs -> okshape (f_shape f0) /\ shape_size (f_shape f0) <= SZ) -> 1 <= SZ ->
      forall n a sl, IS a -> length sl = length fs ->
      gd2 b (mu a + 1 <= n /\ mu a + SZ + 1 <= f + 1)
          (fun r => IS (snd r) /\ mu (snd r) <= mu a /\ length (fst r) = length fs)
          (struct_loop (key_of ops (walk F ops f) root) value n tk fs a sl).
    Proof.
      intros Hfs HSZ. induction n as [|n IH]; intros a sl Ha Hl; [cbn; intros [H _]; lia|].
      cbn [struct_loop]. eapply gd2_bind.
      { eapply gd2_mono; [apply (key_of_ok root (KField tk fs) a Ha)|lia|intros r H; exact H]. }
      intros [k a1] [H1 H2]. cbn [fst snd] in *. destruct k as [k|]; [|cbn; auto].
      destruct H2 as [Hm Hk]. destruct k as [|i| |]; cbn [kres_ok] in Hk; try contradiction.
      destruct i as [i|].
      - specialize (Hk i eq_refl). destruct (nth_error fs i) as [f0|] eqn:En; [|apply nth_error_None in En; lia].
        destruct (Hfs f0 (nth_error_In _ _ En)) as [Hok Hsz].
        eapply gd2_bind with (P := fun _ => True).
        { apply strict_gd2. unfold slot_pre. destruct (f_mode f0); cbn; auto. destruct (nth_error sl i) as [[[x|] y]|]; cbn; auto. }
        intros _ _. eapply gd2_bind.
        { eapply gd2_mono; [apply (value_of_ok (f_shape f0) a1 H1 Hok)|lia|intros r H; exact H]. }
        intros [v a2] [B1 B2]. cbn [fst snd] in *.
        eapply gd2_mono; [apply (IH a2 (slot_put sl (f_mode f0) i v) B1)|intros [X Y]; split; lia|].
        + rewrite slot_put_length. exact Hl.
        + intros r (R1 & R2 & R3). repeat split; auto; lia.
      - eapply gd2_bind.
        { eapply gd2_mono; [apply (value_of_ok ShIgn a1 H1 okshape_ign)|cbn [shape_size]; lia|intros r H; exact H]. }
        intros [v a2] [B1 B2]. cbn [fst snd] in *.
        eapply gd2_mono; [apply (IH a2 sl B1 Hl)|intros [X Y]; split; lia|].
        intros r (R1 & R2 & R3). repeat split; auto; lia.
    Qed.

    Lemma visit_map_ok root n sh a : IS a -> okshape sh ->
      gd2 b (mu a + 1 <= n /\ mu a + shape_size sh + 1 <= f + 1)
          (fun r => IS (snd r) /\ mu (snd r) <= mu a /\ sh <> ShStr)
          (visit_map (key_of ops (walk F ops f) root) value n sh a).
    Proof.
      intros Ha Hs. destruct sh; cbn [visit_map]; try exact I.
      - eapply gd2_bind.
        { eapply gd2_mono; [apply (map_loop_ok root n sh a [] Ha (okshape_map _ Hs))|cbn [shape_size]; intros [X Y]; split; lia|intros r H; exact H]. }
        intros [kvs a'] [H1 H2]. cbn. repeat split; auto; discriminate.
      - eapply gd2_bind.
        { eapply gd2_mono;
            [apply (struct_loop_ok root token fields (Nat.max 1 (fold_right (fun f n => shape_size (snd f) + n) 0 fields)))
            |cbn [shape_size]; intros [X Y]; split; lia|intros r H; exact H].
          - intros f0 Hin. split; [apply (okshape_field token fields f0 Hs Hin)|].
            pose proof (struct_size_le fields f0 Hin). unfold f_shape. lia.
          - lia.
          - exact Ha.
          - unfold slots_init. apply map_length. }
        intros [sl a'] (H1 & H2 & H3). cbn [fst snd] in *.
        eapply gd2_bind; [apply strict_gd2, slots_finish_strict; exact H3|].
        intros out _. cbn. repeat split; auto; discriminate.
      - eapply gd2_bind.
        { eapply gd2_mono; [apply (amap_loop_ok root n a [] Ha)|cbn [shape_size]; intros [X Y]; split; lia|intros r H; exact H]. }
        intros [kvs a'] [H1 H2]. cbn. repeat split; auto; discriminate.
      - eapply gd2_bind.
        { eapply gd2_mono; [apply (ign_loop_ok root n a Ha)|cbn [shape_size]; intros [X Y]; split; lia|intros r H; exact H]. }
        intros a' [H1 H2]. cbn. repeat split; auto; discriminate.
    Qed.

    Lemma walk_plain_ok k sh tok st : IS st -> IT tok -> okshape sh ->
      gd2 b (WFF st k tok sh (Datatypes.S f)) (WP st k tok sh) (walk_plain F ops (walk F ops f) f k sh tok st).
    Proof.
      intros Hst Htok Hs. unfold walk_plain, WFF. pose proof (shape_size_pos sh) as Hpos.
      eapply gd2_bind; [apply strict_gd2, H_dispatch; assumption|].
      intros [act st1] (A1 & A2 & A3 & A4). cbn [fst snd] in *. pose proof (mu_le_tot st) as Hle.
      destruct act as [p|sub|c|sub]; cbn [act_ok] in A4.
      - eapply gd2_bind; [apply strict_gd2, visit_prim_ok; exact A4|].
        intros v Hv. cbn. unfold WP. cbn [fst snd]. auto.
      - destruct A4 as [B1 B2]. eapply gd2_bind.
        { eapply gd2_mono;
            [apply (visit_seq_ok (elem_of ops (walk F ops f)) b IS okshape mu f okshape_seq okshape_tup okshape_any okshape_ign
                      elem_of_ok f sh sub B1 Hs)|lia|intros r H; exact H]. }
        intros [[v sub'] dr] (C1 & C2 & C3). cbn [fst snd] in *.
        eapply gd2_bind; [apply strict_gd2, (H_seq_exit (hint_of sh) st1 sub' dr A1 C1)|].
        intros st2 (D1 & D2 & D3). cbn. unfold WP. cbn [fst snd]. repeat split; auto.
        + apply D2; lia. + apply D3; lia. + intros E; contradiction.
      - eapply gd2_bind; [apply strict_gd2, H_color|]. intros v Hv. cbn. unfold WP. cbn [fst snd]. auto.
      - destruct A4 as [B1 B2]. eapply gd2_bind.
        { eapply gd2_mono; [apply (visit_map_ok false f sh sub B1 Hs)|lia|intros r H; exact H]. }
        intros [v sub'] (C1 & C2 & C3). cbn [fst snd] in *.
        eapply gd2_bind; [apply strict_gd2, (H_map_exit st1 sub' A1 C1)|].
        intros st2 (D1 & D2 & D3). cbn. unfold WP. cbn [fst snd]. repeat split; auto.
        + apply D2; lia. + apply D3; lia. + intros E; contradiction.
    Qed.
  End Step.

  Lemma walk_enum_ok vs k tok st : IS st -> IT tok ->
    strict (WP st k tok (ShEnum vs)) (walk_enum ops vs k tok st).
  Proof.
    intros Hst Htok. unfold walk_enum. eapply strict_bind; [apply H_dispatch; assumption|].
    intros [act st1] (A1 & A2 & A3 & A4). cbn [fst snd] in *. destruct act; try exact I.
    eapply strict_bind; [apply visit_variant_strict|]. intros v _. cbn. unfold WP. cbn [fst snd].
    repeat split; auto. discriminate.
  Qed.

  Theorem walk_ok : forall fuel k sh tok st, IS st -> IT tok -> okshape sh ->
    gd2 b (WFF st k tok sh fuel) (WP st k tok sh) (walk F ops fuel k sh tok st).
  Proof.
    induction fuel as [|f IH]; intros k sh tok st Hst Htok Hs.
    { cbn. unfold WFF. pose proof (shape_size_pos sh). lia. }
    assert (Hplain : gd2 b (WFF st k tok sh (Datatypes.S f)) (WP st k tok sh) (walk_plain F ops (walk F ops f) f k sh tok st))
      by (apply walk_plain_ok; assumption).
    destruct sh; cbn [walk]; try exact Hplain.
    - eapply gd2_bind.
      { eapply gd2_mono; [apply (IH k sh tok st Hst Htok (okshape_opt _ Hs))|unfold WFF; cbn [shape_size]; lia|intros r H; exact H]. }
      intros [v st'] (A1 & A2 & A3 & _). cbn. unfold WP. cbn [fst snd]. repeat split; auto. discriminate.
    - clear Hplain IH. revert Hs. unfold okshape. cbn. destruct b; [intros Hs; specialize (Hs eq_refl); discriminate|auto].
    - apply strict_gd2. apply walk_enum_ok; assumption.
  Qed.

  Theorem walk_root_ok fuel sh st : IS st -> okshape sh ->
    gd2 b (mu st + shape_size sh + 1 <= fuel) (fun _ => True) (walk_root F ops fuel sh st).
  Proof.
    intros Hst Hs. unfold walk_root.
    assert (Hm : gd2 b (mu st + shape_size sh + 1 <= fuel) (fun _ : dval => True)
                   (do (v, _) <- visit_map (key_of ops (walk F ops fuel) true) (value_of ops (walk F ops fuel)) fuel sh st; Ok v)).
    { eapply gd2_bind.
      - eapply gd2_mono; [apply (visit_map_ok fuel (walk_ok fuel) true fuel sh st Hst Hs)|lia|intros r H; exact H].
      - intros [v s'] _. exact I. }
    destruct sh; try exact I; try exact Hm.
    clear Hm. revert Hs. unfold okshape. cbn. destruct b; [intros Hs; specialize (Hs eq_refl); discriminate|auto].
  Qed.
End Generic.
