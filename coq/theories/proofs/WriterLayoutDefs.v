(* C14/C15: the text the writer produces, as a list of (gap, token) chunks over the documents of
   TextDoc.v.  Definitions used by the statements in Props/C14_reparse.v and Props/C15_reparse.v
   (this is a proofs/ file because it is not part of the executable model; it contains definitions
   and the small lemmas about them, the theorems are in WriterLayoutProofs.v).

   [ch_fields c n g0 d] lists, for every token of [toks_fields (norm_fields d)], the gap the writer
   prints in front of it under configuration [c] at container depth [n]; [g0] is the gap in front of
   the first token.  [layout_w c d] is the TextDoc layout made of these gaps. *)
From JV Require Import Bytes Tables TextTok TextTape TextDoc Date Writer.
Require Import Lia.
Open Scope nat_scope.

(* ------------------------------------------------------------------ the writer's normalisations *)
(* 1. `key {` (a container value directly after the key) is written `key={`: the field gains the
      `=` operator, which leaves no token on the tape of an ordinary object;
   2. quoted scalars are written verbatim between quotes (already escaped on the tape);
   everything else is written token for token.  Key-value lists of arrays are left alone (there every
   operator is a token). *)
Fixpoint norm_value (v : value) : value :=
  match v with
  | VScalar k s => VScalar k s
  | VObject fs tl => VObject (norm_fields fs) tl
  | VArray items => VArray (norm_values items)
  | VArrayKv items kvs => VArrayKv (norm_values items) kvs
  | VHeader name v => VHeader name (norm_value v)
  end
with norm_field (f : field) : field :=
  match f with
  | Field k key op v => Field k key (Some (match op with None => Equal | Some o => o end)) (norm_value v)
  | ParamV name u s => ParamV name u s
  | ParamO name u fs => ParamO name u (norm_fields fs)
  end
with norm_fields (fs : fields) : fields :=
  match fs with FNil => FNil | FCons f fs' => FCons (norm_field f) (norm_fields fs') end
with norm_values (vs : values) : values :=
  match vs with VNil => VNil | VCons v vs' => VCons (norm_value v) (norm_values vs') end.

(* ------------------------------------------------------------------ the round-trippable subset *)
(* Everything in TextDoc.v except
   - objects that continue as a bare value list (object -> array mixed container): the writer has
     no way to print the switch;
   - parameter VALUES `[[p] v ]` (known finding C14 rt-param-value / write-tape-state-param-value).
   The other two known findings (rt-mixed-nested-op, calls-mixed-mode-lost: containers inside the
   key-value list of an array) are already outside [wf_doc]: [wf_kvs] only admits scalar values. *)
Fixpoint rt_value (v : value) : bool :=
  match v with
  | VScalar _ _ => true
  | VObject fs tl => rt_fields fs && match tl with VNil => true | VCons _ _ => false end
  | VArray items => rt_values items
  | VArrayKv items _ => rt_values items
  | VHeader _ v => rt_value v
  end
with rt_field (f : field) : bool :=
  match f with
  | Field _ _ _ v => rt_value v
  | ParamV _ _ _ => false
  | ParamO _ _ fs => rt_fields fs
  end
with rt_fields (fs : fields) : bool :=
  match fs with FNil => true | FCons f fs' => rt_field f && rt_fields fs' end
with rt_values (vs : values) : bool :=
  match vs with VNil => true | VCons v vs' => rt_value v && rt_values vs' end.

(* the first key of the document must not itself start with the three BOM bytes: the writer prints it
   at offset 0 and the parser then strips them (finding bom-key, see Props/C14_reparse.v) *)
Definition nobom (d : doc) : bool :=
  match d with
  | FCons (Field Unq key _ _) _ => negb (has_bom key)
  | _ => true
  end.

Definition rt (d : doc) : Prop := wf_doc d /\ rt_fields d = true /\ nobom d = true.

(* ------------------------------------------------------------------ chunks *)
Definition chunk := (bytes * rtok)%type.
Definition cbytes (l : list chunk) : bytes := flat_map (fun x => fst x ++ fst (snd x)) l.

Definition ind (c : cfg) (n : nat) : bytes := repeat (indent_char c) (n * N.to_nat (indent_factor c)).
Definition nli (c : cfg) (n : nat) : bytes := NL :: ind c n.

(* ` op ` in an object, except `=` which is printed bare *)
Definition opgap (o : operator) : bytes := match o with Equal => [] | _ => [SP] end.
Definition op_or_eq (op : option operator) : operator := match op with None => Equal | Some o => o end.
Definition optk (o : operator) : rtok := (op_symbol o, false).

(* after a scalar the next array element follows on the same line *)
Definition ends_nl (v : value) : bool := match v with VScalar _ _ => false | _ => true end.
Definition sepgap (c : cfg) (n : nat) (nl : bool) : bytes := if nl then nli c n else [SP].

(* the key-value part of an array: `key` glued to the operator glued to the value *)
Fixpoint ch_kvs (c : cfg) (n : nat) (g0 : bytes) (kvs : fields) : list chunk :=
  match kvs with
  | FCons (Field k key op (VScalar k2 s)) r =>
      (g0, stok k key) :: ([], optk (op_or_eq op)) :: ([], stok k2 s) :: ch_kvs c n [SP] r
  | _ => []
  end.

Fixpoint items_nl (nl : bool) (vs : values) : bool :=
  match vs with VNil => nl | VCons v vs' => items_nl (ends_nl v) vs' end.

Definition close_gap (c : cfg) (n : nat) (empty : bool) : bytes := if empty then [SP] else nli c n.
Definition fields_empty (fs : fields) : bool := match fs with FNil => true | _ => false end.
Definition values_empty (vs : values) : bool := match vs with VNil => true | _ => false end.

(* [n] = number of containers open around the construct *)
Fixpoint ch_value (c : cfg) (n : nat) (g0 : bytes) (v : value) : list chunk :=
  match v with
  | VScalar k s => [(g0, stok k s)]
  | VObject fs _ =>
      (g0, lbrace) :: ch_fields c (S n) (nli c (S n)) fs ++ [(close_gap c n (fields_empty fs), rbrace)]
  | VArray items =>
      (g0, lbrace) :: ch_items c (S n) (nli c (S n)) items ++ [(close_gap c n (values_empty items), rbrace)]
  | VArrayKv items kvs =>
      (g0, lbrace) :: ch_items c (S n) (nli c (S n)) items
        ++ ch_kvs c (S n) (sepgap c (S n) (items_nl true items)) kvs ++ [(nli c n, rbrace)]
  | VHeader name v => (g0, (name, true)) :: ch_value c n [SP] v
  end
with ch_field (c : cfg) (n : nat) (g0 : bytes) (f : field) : list chunk :=
  match f with
  | Field k key op v =>
      let o := op_or_eq op in
      (g0, stok k key) :: (opgap o, optk o) :: ch_value c n (opgap o) v
  | ParamV name u s => [(g0, (pname_bytes u name, false)); ([NL], (s, true)); ([], rbracket)]
  | ParamO name u fs =>
      (g0, (pname_bytes u name, false)) :: ch_fields c n (nli c n) fs ++ [(nli c n, rbracket)]
  end
with ch_fields (c : cfg) (n : nat) (g0 : bytes) (fs : fields) : list chunk :=
  match fs with
  | FNil => []
  | FCons f fs' => ch_field c n g0 f ++ ch_fields c n (nli c n) fs'
  end
with ch_items (c : cfg) (n : nat) (g0 : bytes) (vs : values) : list chunk :=
  match vs with
  | VNil => []
  | VCons v vs' => ch_value c n g0 v ++ ch_items c n (sepgap c n (ends_nl v)) vs'
  end.

(* the layout the writer chooses for document d under configuration c: no BOM, nothing before the
   first key, nothing after the last token, and between the tokens: a new line + depth * factor
   indent characters in front of every key, of the first element of an array, of an element that
   follows a container and of a closing brace (a single space closes an empty container); a space
   between array elements on one line, around the operators other than `=`, after a header; nothing
   around `=` and inside `key op value` triples of an array's key-value list. *)
Definition chunks_w (c : cfg) (d : doc) : list chunk := ch_fields c 0 [] d.
Definition layout_w (c : cfg) (d : doc) : layout :=
  mkLayout false (fun i => nth i (map fst (chunks_w c d)) []).

(* configurations under which the output can be read back: the indent character is white space
   (or no indentation at all) *)
Definition cfg_ok (c : cfg) : Prop := is_ws_t (indent_char c) = true \/ indent_factor c = 0%N.

(* ------------------------------------------------------------------ tape segments *)
Definition seg (t : ttape) (off : nat) (l : ttape) : Prop :=
  forall i x, nth_error l i = Some x -> nth_error t (off + i) = Some x.

Lemma seg_app t off a b : seg t off (a ++ b) -> seg t off a /\ seg t (off + length a) b.
Proof.
  intros H. split.
  - intros i x Hi. apply H. rewrite nth_error_app1; [exact Hi|]. apply nth_error_Some. congruence.
  - intros i x Hi. rewrite <- Nat.add_assoc. apply H. rewrite nth_error_app2 by lia.
    replace (length a + i - length a) with i by lia. exact Hi.
Qed.
Lemma seg_cons t off x l : seg t off (x :: l) -> tget t off = Some x /\ seg t (S off) l.
Proof.
  intros H. split.
  - unfold tget. rewrite <- (Nat.add_0_r off). apply H. reflexivity.
  - intros i y Hi. replace (S off + i) with (off + S i) by lia. apply H. exact Hi.
Qed.
Lemma seg_self l : seg l 0 l.
Proof. intros i x H. exact H. Qed.

(* ------------------------------------------------------------------ chunk algebra *)
Lemma cbytes_app a b : cbytes (a ++ b) = cbytes a ++ cbytes b.
Proof. unfold cbytes. apply flat_map_app. Qed.
Lemma cbytes_cons g t r : cbytes ((g, t) :: r) = g ++ fst t ++ cbytes r.
Proof. unfold cbytes. cbn [flat_map fst snd]. rewrite app_assoc. reflexivity. Qed.
Lemma cbytes_nil : cbytes [] = [].
Proof. reflexivity. Qed.

(* ------------------------------------------------------------------ one-step unfoldings of wt *)
Definition is_op_tok (x : ttok) : bool := match x with TOperator _ => true | _ => false end.
Definition write_key (c : cfg) (w : wr) (k : skind) (x : bytes) : wres :=
  match k with Unq => write_raw c w x | Quo => write_escaped_quotes c w x end.

Lemma wt_core_end f c t ti ei w : ei <= ti -> wt (S f) c t (JCore ti ei) w = WOk w [].
Proof. intros H. cbn [wt]. apply Nat.leb_le in H. rewrite H. reflexivity. Qed.

Lemma wt_core_field_noop f c t ti ei w k key nt nti :
  ti < ei -> tget t ti = Some (scalar_tok k key) -> tget t (S ti) = Some nt -> is_op_tok nt = false ->
  next_idx f t (S ti) = Ok nti ->
  wt (S f) c t (JCore ti ei) w =
  wbind (wbind (write_key c w k key) (fun w1 => wbind (emit w1 []) (fun w2 => wt f c t (JValue (S ti)) w2)))
        (fun w' => wt f c t (JCore nti ei) w').
Proof.
  intros Hlt Hk Hn Hop Hnx. cbn [wt]. apply Nat.leb_gt in Hlt. rewrite Hlt, Hk.
  destruct k; cbn [scalar_tok negb]; rewrite Hn; destruct nt; try discriminate Hop; cbn [fst snd];
    rewrite Hnx; reflexivity.
Qed.

Lemma wt_core_field_op f c t ti ei w k key o nti :
  ti < ei -> tget t ti = Some (scalar_tok k key) -> tget t (S ti) = Some (TOperator o) ->
  next_idx f t (S (S ti)) = Ok nti ->
  wt (S f) c t (JCore ti ei) w =
  wbind (wbind (write_key c w k key) (fun w1 => wbind (write_operator w1 o) (fun w2 => wt f c t (JValue (S (S ti))) w2)))
        (fun w' => wt f c t (JCore nti ei) w').
Proof.
  intros Hlt Hk Hn Hnx. cbn [wt]. apply Nat.leb_gt in Hlt. rewrite Hlt, Hk.
  destruct k; cbn [scalar_tok negb]; rewrite Hn; cbn [fst snd]; rewrite Hnx; reflexivity.
Qed.

Lemma wt_core_param_obj f c t ti ei w u name e m nti :
  ti < ei -> tget t ti = Some (param_tok u name) -> tget t (S ti) = Some (TObject e m) ->
  next_idx f t (S ti) = Ok nti ->
  wt (S f) c t (JCore ti ei) w =
  wbind (wbind (write_preamble c w) (fun w1 =>
         wbind (emit w1 ((if u then PARAM_OPEN_NOT else PARAM_OPEN) ++ name ++ PARAM_HEAD_END)) (fun w2 =>
         wbind (wbind (wt f c t (JCore (S (S ti)) e) w2) (fun a => emit a ([NL] ++ write_indent c a)))
               (fun w3 => emit w3 [RBRACKET]))))
        (fun w' => wt f c t (JCore nti ei) w').
Proof.
  intros Hlt Hk Hn Hnx. cbn [wt]. apply Nat.leb_gt in Hlt. rewrite Hlt, Hk.
  destruct u; cbn [param_tok negb]; rewrite Hn; cbn [fst snd]; rewrite Hnx, Hn; reflexivity.
Qed.

Lemma wt_value_unq f c t vi w x : tget t vi = Some (TUnquoted x) -> wt (S f) c t (JValue vi) w = write_raw c w x.
Proof. intros H. cbn [wt]. rewrite H. reflexivity. Qed.
Lemma wt_value_quo f c t vi w x : tget t vi = Some (TQuoted x) -> wt (S f) c t (JValue vi) w = write_escaped_quotes c w x.
Proof. intros H. cbn [wt]. rewrite H. reflexivity. Qed.
Lemma wt_value_scalar f c t vi w k x : tget t vi = Some (scalar_tok k x) -> wt (S f) c t (JValue vi) w = write_key c w k x.
Proof. destruct k; [apply wt_value_unq | apply wt_value_quo]. Qed.
Lemma wt_value_array f c t vi w e m : tget t vi = Some (TArray e m) ->
  wt (S f) c t (JValue vi) w =
  wbind (write_array_start c w) (fun w1 => wbind (wt f c t (JArrayLoop (S vi) e) w1) (fun w2 => write_end c w2)).
Proof. intros H. cbn [wt]. rewrite H. reflexivity. Qed.
Lemma wt_value_object f c t vi w e m : tget t vi = Some (TObject e m) ->
  wt (S f) c t (JValue vi) w =
  wbind (write_object_start c w) (fun w1 => wbind (wt f c t (JCore (S vi) e) w1) (fun w2 => write_end c w2)).
Proof. intros H. cbn [wt]. rewrite H. reflexivity. Qed.
Lemma wt_value_mixed f c t vi w : tget t vi = Some TMixedContainer -> wt (S f) c t (JValue vi) w = start_mixed_mode w.
Proof. intros H. cbn [wt]. rewrite H. reflexivity. Qed.
Lemma wt_value_op f c t vi w o : tget t vi = Some (TOperator o) -> w_mixed w <> MDisabled ->
  wt (S f) c t (JValue vi) w = WOk (set_mixed w MKeyed) (op_symbol o).
Proof.
  intros H Hm. cbn [wt]. rewrite H. destruct (w_mixed w); [contradiction| |]; reflexivity.
Qed.
Lemma wt_value_header f c t vi w x e : tget t vi = Some (THeader x) ->
  next_idx f t (S vi) = Ok e -> vi < e -> S vi < e -> (exists y, tget t (S vi) = Some y) ->
  wt (S f) c t (JValue vi) w = wbind (write_header c w x) (fun w1 => wt f c t (JValue (S vi)) w1).
Proof.
  intros H Hn H1 H2 [y Hy]. cbn [wt]. rewrite H, Hn. unfold next_idx_values. rewrite H.
  apply Nat.ltb_lt in H1, H2. rewrite H1, H2. cbn [negb]. rewrite Hy.
  destruct y; reflexivity.
Qed.
Lemma wt_loop_end f c t ti ei w : ei <= ti -> wt (S f) c t (JArrayLoop ti ei) w = WOk w [].
Proof. intros H. cbn [wt]. apply Nat.ltb_ge in H. rewrite H. reflexivity. Qed.
Lemma wt_loop_step f c t ti ei w nti : ti < ei -> next_idx_values t ti = Some nti ->
  wt (S f) c t (JArrayLoop ti ei) w = wbind (wt f c t (JValue ti) w) (fun w1 => wt f c t (JArrayLoop nti ei) w1).
Proof. intros H Hn. cbn [wt]. apply Nat.ltb_lt in H. rewrite H, Hn. reflexivity. Qed.

