(* C19 (text), strengthening S2 of audit/C19.md: the token that the truncated run auto-closes is
   an OBJECT of the complete tape, not just "a container".

   Plan.
   (a) [J]: in the states Key / KeyValueSeparator / ObjectValue, a non-zero parent index holds an
       Object token.  J is preserved by [step] (given the loop invariant [Inv]): the states are
       entered with a new parent only by (i) closing a container, where [restore] answers Key only
       for `Object{mixed=false}` at the grand-parent or for a non-container, which by [chainrep]
       can only sit at index 0; (ii) parse_param, which writes / pushes the Object itself;
       (iii) the `x = ..` arm of ParseOpen, which rewrites the placeholder into an Object.
   (b) [oext]: an Object token stays an Object token at the same index.  The writes are pushes,
       insert(len-1) (shifts the last token only, a plain one), set-at-parent (writes an Object, or
       the same kind as before) and set-at-placeholder / header (the old token is `Array{0}` /
       an unquoted scalar, not an Object).  This needs [Inv] only.
   (c) both lifted along [runs].
   (d) the exit analysis of TruncMainProofs redone: where [exit_consistent] used [runs_cext] to
       get "F[p] is a container", J says the token at the parent is an Object and (c) carries
       that to the final tape F.  Then cut_run / trunc_generic / trunc_text as before.
   (e) the new predicate implies the old one; a separation example (the old predicate accepts an
       ARRAY auto-closed as an object, the new one does not; the model rejects that input). *)
From JV Require Import Bytes Tables TextTok TextTape TextTapeWf TextDoc TextTrunc TextTruncObj.
From JV.proofs Require Import TextTapeWfProofs TextTapeInvProofs TextScanProofs TruncProofs TruncMainProofs.
From Coq Require Import Lia List Arith Bool.
Import ListNotations.
Open Scope nat_scope.

(* ------------------------------------------------------------------ objects at an index *)
Definition obj_at (t : ttape) (i : nat) : Prop := exists e m, nth_error t i = Some (TObject e m).

Definition key_like (st : pst) : Prop := st = SKey \/ st = SKvs \/ st = SObjVal.

(* a non-zero parent holds an Object *)
Definition Jp (p : nat) (t : ttape) : Prop := p <> 0 -> obj_at t p.

Definition J (s : pstate) : Prop :=
  (pst_ s = SKey \/ pst_ s = SKvs \/ pst_ s = SObjVal) -> pparent s <> 0 ->
  exists e m, nth_error (ptape s) (pparent s) = Some (TObject e m).

Lemma J_init data : J (mkps data SKey false 0 []).
Proof. intros _ H. cbn [pparent] in H. congruence. Qed.

Lemma tset_get : forall t q x t', tset t q x = Some t' -> nth_error t' q = Some x.
Proof.
  induction t as [|a t IH]; intros q x t' H; [destruct q; discriminate|].
  destruct q as [|q]; cbn [tset] in H.
  - injection H as <-. reflexivity.
  - destruct (tset t q x) as [r'|] eqn:E; [|discriminate]. injection H as <-. cbn [nth_error]. eapply IH; eauto.
Qed.

Lemma obj_at_app t X i : obj_at t i -> obj_at (t ++ X) i.
Proof.
  intros (e & m & H). exists e, m. rewrite nth_error_app_l; [exact H|]. apply nth_error_Some. congruence.
Qed.

Lemma obj_at_push t x i : obj_at t i -> obj_at (tpush t x) i.
Proof. apply obj_at_app. Qed.

Lemma not_key_like_arr : ~ key_like SArrVal.
Proof. intros [H|[H|H]]; discriminate. Qed.

Lemma not_key_like_open : ~ key_like SOpen.
Proof. intros [H|[H|H]]; discriminate. Qed.

(* ------------------------------------------------------------------ what chainrep says about parent and grand-parent *)
Lemma chainrep_parent_cont t p : chainrep t p -> p <> 0 ->
  p < length t /\ exists c, nth_error t p = Some c /\ cont_end c <> None.
Proof.
  intros H Hp. destruct (chainrep_inv _ _ H) as [[-> _]|(t0 & p0 & c & V & -> & -> & H0 & N & Hc & _)]; [congruence|].
  split; [rewrite app_length; cbn [length]; lia|].
  exists c. split; [apply nth_error_snoc_mid|congruence].
Qed.

Lemma chainrep_grand t p : chainrep t p -> p <> 0 ->
  slot t p < p /\ (slot t p <> 0 -> exists c, nth_error t (slot t p) = Some c /\ cont_end c <> None).
Proof.
  intros H Hp. destruct (chainrep_inv _ _ H) as [[-> _]|(t0 & p0 & c & V & -> & -> & H0 & N & Hc & _)]; [congruence|].
  rewrite (slot_mid t0 c V p0 Hc).
  pose proof (chainrep_nonnil_lt _ _ H0 N) as Hlt. split; [exact Hlt|].
  intros Hp0. destruct (chainrep_parent_cont _ _ H0 Hp0) as (_ & c0 & E0 & Hc0).
  exists c0. split; [rewrite nth_error_app_l by exact Hlt; exact E0|exact Hc0].
Qed.

(* restore answers Key only for an Object (mixed = false) or a non-container *)
Lemma restore_key t g st m : restore t g = (st, m) -> key_like st ->
  obj_at t g \/ (forall x, nth_error t g = Some x -> cont_end x = None).
Proof.
  unfold restore, tget, obj_at. intros H HK.
  destruct (nth_error t g) as [x|]; [|right; intros x Hx; discriminate].
  destruct x; try (right; intros x Hx; injection Hx as <-; reflexivity).
  - injection H as <- _. exfalso. exact (not_key_like_arr HK).
  - left. eexists _, _. reflexivity.
Qed.

Lemma restore_J t g st m : restore t g = (st, m) -> key_like st ->
  (g <> 0 -> exists c, nth_error t g = Some c /\ cont_end c <> None) -> Jp g t.
Proof.
  intros H HK Hc Hg. destruct (restore_key _ _ _ _ H HK) as [Ho|Hn]; [exact Ho|].
  destruct (Hc Hg) as (c & E & Hcc). rewrite (Hn c E) in Hcc. congruence.
Qed.

(* a container closes: the new parent is the grand-parent; T = the new tape *)
Lemma restore_close_J t p st' m' T :
  chainrep t p -> p <> 0 -> restore t (slot t p) = (st', m') ->
  (forall i, i < p -> nth_error T i = nth_error t i) -> key_like st' -> Jp (slot t p) T.
Proof.
  intros HC Hp Er HT HK Hg. destruct (chainrep_grand _ _ HC Hp) as [Hlt Hc].
  destruct (restore_J _ _ _ _ Er HK Hc Hg) as (e & mm & Ho).
  exists e, mm. rewrite HT by exact Hlt. exact Ho.
Qed.

(* the pending placeholder closes as an empty array: the parent stays *)
Lemma restore_open_J t0 p X Y st' m' :
  chainrep t0 p -> t0 <> [] -> restore (t0 ++ X) p = (st', m') -> key_like st' -> Jp p (t0 ++ Y).
Proof.
  intros HC HN Er HK Hp. destruct (chainrep_parent_cont _ _ HC Hp) as (Hlt & c & Ec & Hcc).
  assert (Hc : p <> 0 -> exists c, nth_error (t0 ++ X) p = Some c /\ cont_end c <> None).
  { intros _. exists c. split; [rewrite nth_error_app_l by exact Hlt; exact Ec|exact Hcc]. }
  destruct (restore_J _ _ _ _ Er HK Hc Hp) as (e & mm & Ho).
  exists e, mm. rewrite nth_error_app_l in Ho by exact Hlt. rewrite nth_error_app_l by exact Hlt. exact Ho.
Qed.

(* ------------------------------------------------------------------ (a) J is preserved *)
Lemma parse_param_J d p st t (initial : bool) s' :
  (initial = false -> Jp p t) ->
  parse_param d p st t initial = Next s' -> Jp (pparent s') (ptape s').
Proof.
  unfold parse_param. intros HJ H. rewrite match_o91 in H.
  destruct (nth_error d 1) as [c1|]; [|discriminate].
  destruct (N.eqb c1 91); [|discriminate].
  assert (exists t2 p2, (if initial
        then match length t with
             | 0 => None
             | S ind => match tset t ind (TObject p false) with Some t' => Some (t', ind) | None => None end
             end
        else Some (t, p)) = Some (t2, p2) /\ Jp p2 t2) as (t2 & p2 & E & Hx).
  { destruct initial.
    - destruct (length t) as [|ind] eqn:L; [discriminate|].
      destruct (tset t ind (TObject p false)) as [t'|] eqn:Et; [|discriminate].
      exists t', ind. split; [reflexivity|]. intros _. exists p, false. eapply tset_get; eauto.
    - exists t, p. split; [reflexivity|apply HJ; reflexivity]. }
  rewrite E in H. clear E.
  crush_H H; injection H as <-; cbn [ptape pparent];
    first [ intros Hp; repeat apply obj_at_push; exact (Hx Hp)
          | intros _; apply obj_at_push; eexists _, _; unfold tpush at 1; apply nth_error_snoc_len ].
Qed.

Lemma keep_mixed_J m d p st t (initial : bool) s' :
  (initial = false -> Jp p t) ->
  keep_mixed m (parse_param d p st t initial) = Next s' -> J s'.
Proof.
  intros HJ. destruct (parse_param d p st t initial) as [s1| | |] eqn:E; cbn [keep_mixed]; try discriminate.
  intros H. injection H as <-. intros _. cbn [ptape pparent]. eapply parse_param_J; eauto.
Qed.

Lemma scalar_arm_J (site : N) c d m p t st' s' :
  Jp p t ->
  match scalar_step d c with
  | Ok (tok, d') => Next (mkps d' st' m p (tpush t tok))
  | Err e => Fail e
  | _ => Crash site
  end = Next s' -> J s'.
Proof.
  intros HJ. destruct (scalar_step d c) as [[tok d']| | | |]; try discriminate.
  intros H. injection H as <-. intros _ Hp. cbn [ptape pparent] in *. apply obj_at_push. exact (HJ Hp).
Qed.

(* the successor state is ArrayValue / ParseOpen: nothing to show;  or same parent, tape pushed *)
Ltac J_fin HP :=
  let H := fresh "H" in intros H;
  first [ discriminate H
        | injection H as <-;
          let HK := fresh "HK" in let Hp := fresh "Hp" in
          intros HK Hp; cbn [pst_ pparent ptape] in *;
          first [ exfalso; exact (not_key_like_arr HK)
                | exfalso; exact (not_key_like_open HK)
                | exact (HP Hp)
                | apply obj_at_push; exact (HP Hp) ] ].

Ltac J_vac :=
  let H := fresh "H" in intros H;
  first [ discriminate H
        | injection H as <-;
          let HK := fresh "HK" in intros HK; cbn [pst_] in HK; exfalso;
          first [ exact (not_key_like_arr HK) | exact (not_key_like_open HK) ] ].

Theorem J_step s s' : Inv s -> J s -> step s = Next s' -> J s'.
Proof.
  destruct s as [d st m p t]. unfold Inv, J at 1. cbn [pst_ pparent ptape]. intros HI HJ.
  fold (key_like st) in HJ. fold (obj_at t p) in HJ. fold (Jp p t) in HJ.
  unfold step. cbv zeta. cbn [pdata pst_ pmixed pparent ptape].
  destruct (skip_ws_t d) as [d0|].
  2:{ destruct st; try discriminate. destruct (Nat.eqb p 0); [discriminate|].
      destruct (Nat.eqb (slot t p) 0); [|discriminate]. destruct (tset _ _ _); discriminate. }
  destruct d0 as [|c d1]; [discriminate|].
  destruct st; cbn [inv] in HI.
  - (* Key *)
    assert (HP : Jp p t) by (apply HJ; left; reflexivity). clear HJ.
    destruct (beq c 125 || beq c 93).
    { destruct (restore t (slot t p)) as [st' m'] eqn:Er.
      destruct (Nat.eqb p 0 && Nat.eqb (slot t p) 0) eqn:Ez.
      - intros H. injection H as <-. intros _ Hp. cbn [pparent] in Hp.
        apply andb_prop in Ez. destruct Ez as [Ep _]. apply Nat.eqb_eq in Ep. congruence.
      - destruct (tset (tpush t (TEnd p)) p (TObject (length t) m)) as [t'|] eqn:Et; [|discriminate].
        intros H. injection H as <-. intros HK. cbn [pst_ pparent ptape] in *.
        assert (Hp : p <> 0) by (eapply chainrep_pnz; [exact HI|apply andb_eqb_false; exact Ez]).
        eapply (restore_close_J t p st' m' t' HI Hp Er); [|exact HK].
        intros i Hi. destruct (tset_spec _ _ _ _ Et) as [_ N]. rewrite N by lia.
        unfold tpush. apply nth_error_app_l. destruct (chainrep_parent_cont _ _ HI Hp) as [Hlt _]. lia. }
    destruct (beq c 123).
    { destruct (skip_ws_t d1) as [d2|]; [|discriminate]. rewrite match_b125.
      assert (G : forall X, match tlast t with
                   | Some (TUnquoted h) => match tset t (length t - 1) (THeader h) with
                                           | Some t' => Next (mkps d2 SOpen m p (tpush t' (TArray 0 false)))
                                           | None => Crash 3023 end
                   | _ => Fail E_TextErr end = Next X -> J X).
      { intros X. destruct (tlast t) as [[]|]; try discriminate.
        destruct (tset t (length t - 1) (THeader s)) as [t'|]; [|discriminate]. J_fin HP. }
      destruct d2 as [|c2 d3]; [apply G|]. destruct (N.eqb c2 125); [J_fin HP|apply G]. }
    destruct (beq c 91); [apply keep_mixed_J; intros _; exact HP|]. apply scalar_arm_J. exact HP.
  - (* Kvs *)
    assert (HP : Jp p t) by (apply HJ; right; left; reflexivity). clear HJ.
    destruct (op2 (c :: d1)) as [[[] n]|]; try J_fin HP; try (destruct m; J_fin HP).
    destruct (_ && _); [J_fin HP|]. destruct (beq c 123); [J_fin HP|].
    destruct (tinsert_before_last t TMixedContainer) as [t'|]; [|discriminate]. J_fin HP.
  - (* ObjVal *)
    assert (HP : Jp p t) by (apply HJ; right; right; reflexivity). clear HJ.
    destruct (beq c 123); [J_fin HP|]. destruct (beq c 125); [discriminate|]. apply scalar_arm_J. exact HP.
  - (* ArrVal *)
    destruct HI as [HC HN]. clear HJ.
    destruct (beq c 123); [J_vac|].
    destruct (beq c 125).
    { assert (G : forall grand (is_array : bool) st' m' X,
                grand = slot t p -> restore t grand = (st', m') -> ~ (p = 0 /\ grand = 0) ->
                match tset t p (if is_array then TArray (length t) m else TObject (length t) m) with
                | Some t' => Next (mkps d1 st' m' grand (tpush t' (TEnd p)))
                | None => Crash 3036 end = Next X -> J X).
      { intros grand is_array st' m' X -> Er Hn.
        destruct (tset t p _) as [t'|] eqn:Et; [|discriminate]. intros H. injection H as <-.
        intros HK. cbn [pst_ pparent ptape] in *.
        assert (Hp : p <> 0) by (eapply chainrep_pnz; eauto).
        eapply (restore_close_J t p st' m' _ HC Hp Er); [|exact HK].
        intros i Hi. destruct (tset_spec _ _ _ _ Et) as [L N].
        destruct (chainrep_parent_cont _ _ HC Hp) as [Hlt _].
        unfold tpush. rewrite nth_error_app_l by lia. apply N. lia. }
      destruct (tget t p) as [x|] eqn:Eg; [destruct x|]; cbv iota beta;
        (match goal with |- context [restore t ?g] => destruct (restore t g) as [st' m'] eqn:Er end;
         match goal with |- context [Nat.eqb p 0 && ?b] => destruct (Nat.eqb p 0 && b) eqn:Ez end; [discriminate|];
         first [apply (G _ true st' m')|apply (G _ false st' m')];
         [unfold slot; rewrite Eg; reflexivity|exact Er|apply andb_eqb_false; exact Ez]). }
    destruct (beq c 34 || beq c 64); [destruct (scalar_step _ _) as [[tok d']| | | |]; J_vac|].
    destruct (_ || _); [|destruct (scalar_step _ _) as [[tok d']| | | |]; J_vac].
    destruct m.
    + destruct (op2 _) as [[o n]|]; J_vac.
    + destruct (tlast t) as [x|]; [|discriminate]. destruct (is_scalar_tok x); [|discriminate].
      destruct (tinsert_before_last t TMixedContainer) as [t'|]; [|discriminate].
      destruct (op2 _) as [[o n]|]; J_vac.
  - (* Open *)
    destruct HI as (t0 & -> & HN & HC). clear HJ.
    assert (Hlen : length (t0 ++ [TArray 0 false]) = S (length t0)) by (rewrite app_length; cbn [length]; lia).
    destruct (beq c 125).
    { rewrite Hlen. destruct (restore _ p) as [st' m'] eqn:Er.
      destruct (tset _ (length t0) _) as [t'|] eqn:Et; [|discriminate].
      rewrite tset_last in Et. injection Et as <-.
      intros H. injection H as <-. intros HK. cbn [pst_ pparent ptape] in *.
      unfold tpush. rewrite <- app_assoc. eapply restore_open_J; eauto. }
    destruct (beq c 91); [destruct m; [discriminate|apply keep_mixed_J; discriminate]|].
    destruct (beq c 123).
    { destruct (skip_ws_t d1) as [d2|]; [|discriminate]. rewrite match_b125, Hlen.
      assert (G : forall X, match tset (t0 ++ [TArray 0 false]) (length t0) (TArray p false) with
                   | Some t' => Next (mkps (c :: d1) SArrVal false (length t0) t')
                   | None => Crash 3030 end = Next X -> J X).
      { intros X. destruct (tset _ _ _) as [t'|]; [|discriminate]. J_vac. }
      destruct d2 as [|c2 d3]; [apply G|]. destruct (N.eqb c2 125); [J_vac|apply G]. }
    destruct (scalar_step (c :: d1) c) as [[tok d']| | | |]; try discriminate.
    match goal with |- context [Nat.ltb (length ?T) 2] => set (t2 := T) in * end.
    destruct (skip_ws_t d') as [[|c2 d3]|]; try discriminate.
    destruct (Nat.ltb (length t2) 2); [discriminate|].
    destruct (beq c2 61 || beq c2 62 || beq c2 60).
    + destruct (tset t2 (length t2 - 2) (TObject p false)) as [t3|] eqn:Et; [|discriminate].
      intros H. injection H as <-. intros _ _. cbn [pparent ptape]. exists p, false. eapply tset_get; eauto.
    + destruct (tset t2 (length t2 - 2) (TArray p false)) as [t3|]; [|discriminate]. J_vac.
Qed.

Lemma J_runs s sf : runs s sf -> Inv s -> J s -> J sf.
Proof.
  induction 1 as [s|s s1 s2 H1 _ IH]; intros HI HJ; [exact HJ|].
  apply IH; [eapply Inv_step; eauto|eapply J_step; eauto].
Qed.

(* ------------------------------------------------------------------ (b) an Object stays an Object *)
Definition oext (t t' : ttape) : Prop :=
  forall i e m, nth_error t i = Some (TObject e m) -> exists e' m', nth_error t' i = Some (TObject e' m').

Lemma oext_refl t : oext t t.
Proof. intros i e m H. eauto. Qed.

Lemma oext_trans a b c : oext a b -> oext b c -> oext a c.
Proof. intros H1 H2 i e m H. destruct (H1 i e m H) as (e' & m' & H'). exact (H2 i e' m' H'). Qed.

Lemma oext_push t x : oext t (tpush t x).
Proof.
  intros i e m H. exists e, m. unfold tpush. rewrite nth_error_app_l; [exact H|].
  apply nth_error_Some. congruence.
Qed.

(* writing an Object never hurts *)
Lemma oext_tset_obj t q e0 m0 t' : tset t q (TObject e0 m0) = Some t' -> oext t t'.
Proof.
  intros H i e m Hi. destruct (tset_spec _ _ _ _ H) as [L N].
  destruct (Nat.eq_dec i q) as [->|Hne]; [|exists e, m; rewrite N by exact Hne; exact Hi].
  exists e0, m0. eapply tset_get; eauto.
Qed.

(* overwriting something that is not an Object never hurts *)
Lemma oext_tset_nonobj t q x t' : tset t q x = Some t' ->
  (forall e m, nth_error t q <> Some (TObject e m)) -> oext t t'.
Proof.
  intros H Hq i e m Hi. destruct (tset_spec _ _ _ _ H) as [L N].
  destruct (Nat.eq_dec i q) as [->|Hne]; [|exists e, m; rewrite N by exact Hne; exact Hi].
  exfalso. exact (Hq e m Hi).
Qed.

Lemma oext_insert t x t' : tinsert_before_last t x = Some t' ->
  (forall z, tlast t = Some z -> cont_end z = None) -> oext t t'.
Proof.
  unfold tinsert_before_last, tlast. destruct (length t) as [|n] eqn:L; [discriminate|]. intros H Hl. injection H as <-.
  cbn [Nat.sub] in Hl. rewrite Nat.sub_0_r in Hl.
  intros i e m Hi. assert (Hlt : i < S n) by (rewrite <- L; apply nth_error_Some; congruence).
  destruct (Nat.eq_dec i n) as [->|Hne]; [specialize (Hl _ Hi); discriminate|].
  exists e, m. rewrite nth_error_app_l by (rewrite firstn_length; lia).
  rewrite nth_error_firstn_lt by lia. exact Hi.
Qed.

Lemma placeholder_nonobj t0 e m : nth_error (t0 ++ [TArray 0 false]) (length t0) <> Some (TObject e m).
Proof. rewrite nth_error_snoc_len. discriminate. Qed.

Lemma parse_param_oext d p st t (initial : bool) s' :
  parse_param d p st t initial = Next s' -> oext t (ptape s').
Proof.
  unfold parse_param. intros H. rewrite match_o91 in H.
  destruct (nth_error d 1) as [c1|]; [|discriminate].
  destruct (N.eqb c1 91); [|discriminate].
  assert (exists t2 p2, (if initial
        then match length t with
             | 0 => None
             | S ind => match tset t ind (TObject p false) with Some t' => Some (t', ind) | None => None end
             end
        else Some (t, p)) = Some (t2, p2) /\ oext t t2) as (t2 & p2 & E & Hx).
  { destruct initial.
    - destruct (length t) as [|ind] eqn:L; [discriminate|].
      destruct (tset t ind (TObject p false)) as [t'|] eqn:Et; [|discriminate].
      exists t', ind. split; [reflexivity|]. eapply oext_tset_obj; exact Et.
    - exists t, p. split; [reflexivity|apply oext_refl]. }
  rewrite E in H. clear E.
  crush_H H; injection H as <-; cbn [ptape];
    repeat (eapply oext_trans; [|apply oext_push]); exact Hx.
Qed.

Lemma keep_mixed_oext m d p st t (initial : bool) s' :
  keep_mixed m (parse_param d p st t initial) = Next s' -> oext t (ptape s').
Proof.
  destruct (parse_param d p st t initial) as [s1| | |] eqn:E; cbn [keep_mixed]; try discriminate.
  intros H. injection H as <-. cbn [ptape]. eapply parse_param_oext; eauto.
Qed.

Lemma scalar_arm_oext (site : N) c d m p t st' s' :
  match scalar_step d c with
  | Ok (tok, d') => Next (mkps d' st' m p (tpush t tok))
  | Err e => Fail e
  | _ => Crash site
  end = Next s' -> oext t (ptape s').
Proof.
  destruct (scalar_step d c) as [[tok d']| | | |]; try discriminate.
  intros H. injection H as <-. apply oext_push.
Qed.

(* the lazily written mixed flag: same length, same kind everywhere *)
Lemma flag_spec t1 p (m : bool) :
  let t2 := (if m then
               match tget t1 p with
               | Some (TArray e _) => match tset t1 p (TArray e true) with Some x => x | None => t1 end
               | Some (TObject e _) => match tset t1 p (TObject e true) with Some x => x | None => t1 end
               | _ => t1
               end
             else t1) in
  length t2 = length t1 /\ forall i, obj_at t2 i <-> obj_at t1 i.
Proof.
  assert (R : length t1 = length t1 /\ forall i, obj_at t1 i <-> obj_at t1 i) by (split; [reflexivity|tauto]).
  destruct m; [|exact R]. cbv zeta.
  destruct (tget t1 p) as [x|] eqn:Eg; [|exact R]. unfold tget in Eg.
  destruct x; try exact R.
  - destruct (tset t1 p (TArray e true)) as [t2|] eqn:Et; [|exact R].
    destruct (tset_spec _ _ _ _ Et) as [L N]. split; [exact L|]. intros i. unfold obj_at.
    destruct (Nat.eq_dec i p) as [->|Hne]; [|rewrite N by exact Hne; tauto].
    rewrite (tset_get _ _ _ _ Et), Eg. split; intros (e' & m' & H); discriminate.
  - destruct (tset t1 p (TObject e true)) as [t2|] eqn:Et; [|exact R].
    destruct (tset_spec _ _ _ _ Et) as [L N]. split; [exact L|]. intros i. unfold obj_at.
    destruct (Nat.eq_dec i p) as [->|Hne]; [|rewrite N by exact Hne; tauto].
    rewrite (tset_get _ _ _ _ Et), Eg. split; intros _; eexists _, _; reflexivity.
Qed.

Lemma obj_iff_oext t1 t2 : (forall i, obj_at t2 i <-> obj_at t1 i) -> oext t1 t2.
Proof. intros H i e m Hi. apply H. exists e, m. exact Hi. Qed.

Ltac oext_fin :=
  let H := fresh "H" in intros H;
  first [ discriminate H
        | injection H as <-; cbn [ptape];
          first [ apply oext_refl | apply oext_push | assumption ] ].

Theorem step_oext s s' : Inv s -> step s = Next s' -> oext (ptape s) (ptape s').
Proof.
  destruct s as [d st m p t]. unfold Inv. cbn [pst_ pparent ptape]. intros HI.
  unfold step. cbv zeta. cbn [pdata pst_ pmixed pparent ptape].
  destruct (skip_ws_t d) as [d0|].
  2:{ destruct st; try discriminate. destruct (Nat.eqb p 0); [discriminate|].
      destruct (Nat.eqb (slot t p) 0); [|discriminate]. destruct (tset _ _ _); discriminate. }
  destruct d0 as [|c d1]; [discriminate|].
  destruct st; cbn [inv] in HI.
  - (* Key *)
    destruct (beq c 125 || beq c 93).
    { destruct (restore t (slot t p)) as [st' m'].
      destruct (Nat.eqb p 0 && Nat.eqb (slot t p) 0) eqn:Ez; [oext_fin|].
      destruct (tset (tpush t (TEnd p)) p (TObject (length t) m)) as [t'|] eqn:Et; [|discriminate].
      intros H. injection H as <-. cbn [ptape].
      eapply oext_trans; [apply oext_push|]. eapply oext_tset_obj; exact Et. }
    destruct (beq c 123).
    { destruct (skip_ws_t d1) as [d2|]; [|discriminate]. rewrite match_b125.
      assert (G : forall X, match tlast t with
                   | Some (TUnquoted h) => match tset t (length t - 1) (THeader h) with
                                           | Some t' => Next (mkps d2 SOpen m p (tpush t' (TArray 0 false)))
                                           | None => Crash 3023 end
                   | _ => Fail E_TextErr end = Next X -> oext t (ptape X)).
      { intros X. destruct (tlast t) as [[]|] eqn:El; try discriminate.
        destruct (tset t (length t - 1) (THeader s)) as [t'|] eqn:Et; [|discriminate].
        intros H. injection H as <-. cbn [ptape]. eapply oext_trans; [|apply oext_push].
        eapply oext_tset_nonobj; [exact Et|]. unfold tlast in El. rewrite El. discriminate. }
      destruct d2 as [|c2 d3]; [apply G|]. destruct (N.eqb c2 125); [oext_fin|apply G]. }
    destruct (beq c 91); [apply keep_mixed_oext|]. apply scalar_arm_oext.
  - (* Kvs *)
    destruct HI as (HC & t0 & x0 & -> & Hx0).
    destruct (op2 (c :: d1)) as [[[] n]|]; try oext_fin; try (destruct m; oext_fin).
    destruct (_ && _); [oext_fin|]. destruct (beq c 123); [oext_fin|].
    destruct (tinsert_before_last (t0 ++ [x0]) TMixedContainer) as [t'|] eqn:Ei; [|discriminate].
    intros H. injection H as <-. cbn [ptape]. eapply oext_insert; [exact Ei|].
    intros z Hz. rewrite tlast_snoc in Hz. injection Hz as <-. apply plain_not_cont. exact Hx0.
  - (* ObjVal *)
    destruct (beq c 123); [oext_fin|]. destruct (beq c 125); [discriminate|]. apply scalar_arm_oext.
  - (* ArrVal *)
    destruct HI as [HC HN].
    destruct (beq c 123); [oext_fin|].
    destruct (beq c 125).
    { assert (G : forall grand (is_array : bool) st' m' X,
                (is_array = true -> forall e mm, nth_error t p <> Some (TObject e mm)) ->
                match tset t p (if is_array then TArray (length t) m else TObject (length t) m) with
                | Some t' => Next (mkps d1 st' m' grand (tpush t' (TEnd p)))
                | None => Crash 3036 end = Next X -> oext t (ptape X)).
      { intros grand is_array st' m' X Ha.
        destruct (tset t p _) as [t'|] eqn:Et; [|discriminate]. intros H. injection H as <-. cbn [ptape].
        eapply oext_trans; [|apply oext_push]. destruct is_array.
        - eapply oext_tset_nonobj; [exact Et|apply Ha; reflexivity].
        - eapply oext_tset_obj; exact Et. }
      destruct (tget t p) as [x|] eqn:Eg; [destruct x|]; cbv iota beta;
        (match goal with |- context [restore t ?g] => destruct (restore t g) as [st' m'] end;
         match goal with |- context [Nat.eqb p 0 && ?b] => destruct (Nat.eqb p 0 && b) eqn:Ez end; [discriminate|];
         first [apply (G _ true); intros _ e' mm; unfold tget in Eg; rewrite Eg; discriminate
               |apply (G _ false); discriminate]). }
    destruct (beq c 34 || beq c 64); [apply scalar_arm_oext|].
    destruct (_ || _); [|apply scalar_arm_oext].
    assert (G : forall t' (m' : bool) X, oext t t' ->
              match op2 (c :: d1) with
              | Some (o, n) => Next (mkps (skipn n (c :: d1)) SArrVal m' p (tpush t' (TOperator o)))
              | None => Fail E_TextErr end = Next X -> oext t (ptape X)).
    { intros t' m' X Hx. destruct (op2 _) as [[o n]|]; [|discriminate]. intros H. injection H as <-. cbn [ptape].
      eapply oext_trans; [exact Hx|apply oext_push]. }
    destruct m; [apply G; apply oext_refl|].
    destruct (tlast t) as [x|] eqn:El; [|discriminate]. destruct (is_scalar_tok x) eqn:Ex; [|discriminate].
    destruct (tinsert_before_last t TMixedContainer) as [t'|] eqn:Ei; [|discriminate].
    apply G. eapply oext_insert; [exact Ei|]. intros z Hz. rewrite El in Hz. injection Hz as <-.
    apply plain_not_cont. apply scalar_tok_plain. exact Ex.
  - (* Open *)
    destruct HI as (t0 & -> & HN & HC).
    assert (Hlen : length (t0 ++ [TArray 0 false]) = S (length t0)) by (rewrite app_length; cbn [length]; lia).
    destruct (beq c 125).
    { rewrite Hlen. destruct (restore _ p) as [st' m'].
      destruct (tset _ (length t0) _) as [t'|] eqn:Et; [|discriminate].
      intros H. injection H as <-. cbn [ptape]. eapply oext_trans; [|apply oext_push].
      eapply oext_tset_nonobj; [exact Et|apply placeholder_nonobj]. }
    destruct (beq c 91); [destruct m; [discriminate|apply keep_mixed_oext]|].
    destruct (beq c 123).
    { destruct (skip_ws_t d1) as [d2|]; [|discriminate]. rewrite match_b125, Hlen.
      assert (G : forall X, match tset (t0 ++ [TArray 0 false]) (length t0) (TArray p false) with
                   | Some t' => Next (mkps (c :: d1) SArrVal false (length t0) t')
                   | None => Crash 3030 end = Next X -> oext (t0 ++ [TArray 0 false]) (ptape X)).
      { intros X. destruct (tset _ _ _) as [t'|] eqn:Et; [|discriminate]. intros H. injection H as <-. cbn [ptape].
        eapply oext_tset_nonobj; [exact Et|apply placeholder_nonobj]. }
      destruct d2 as [|c2 d3]; [apply G|]. destruct (N.eqb c2 125); [oext_fin|apply G]. }
    destruct (scalar_step (c :: d1) c) as [[tok d']| | | |]; try discriminate.
    set (t1 := tpush (t0 ++ [TArray 0 false]) tok).
    pose proof (flag_spec t1 p m) as Hf. cbv zeta in Hf.
    match goal with |- context [Nat.ltb (length ?T) 2] => set (t2 := T) in * end.
    destruct Hf as [L2 Hiff].
    assert (Hx1 : oext (t0 ++ [TArray 0 false]) t2).
    { eapply oext_trans; [apply oext_push|apply obj_iff_oext; exact Hiff]. }
    assert (Hno : forall e mm, nth_error t2 (length t2 - 2) <> Some (TObject e mm)).
    { intros e mm Hc. assert (Ho : obj_at t1 (length t2 - 2)) by (apply Hiff; exists e, mm; exact Hc).
      destruct Ho as (e' & m' & Ho). rewrite L2 in Ho. unfold t1, tpush in Ho.
      rewrite app_length, Hlen in Ho. cbn [length] in Ho. replace (S (length t0) + 1 - 2) with (length t0) in Ho by lia.
      rewrite nth_error_app_l in Ho by (rewrite Hlen; lia). exact (placeholder_nonobj _ _ _ Ho). }
    destruct (skip_ws_t d') as [[|c2 d3]|]; try discriminate.
    destruct (Nat.ltb (length t2) 2); [discriminate|].
    destruct (beq c2 61 || beq c2 62 || beq c2 60).
    + destruct (tset t2 (length t2 - 2) (TObject p false)) as [t3|] eqn:Et; [|discriminate].
      intros H. injection H as <-. cbn [ptape]. eapply oext_trans; [exact Hx1|]. eapply oext_tset_obj; exact Et.
    + destruct (tset t2 (length t2 - 2) (TArray p false)) as [t3|] eqn:Et; [|discriminate].
      intros H. injection H as <-. cbn [ptape]. eapply oext_trans; [exact Hx1|]. eapply oext_tset_nonobj; [exact Et|exact Hno].
Qed.

Lemma done_oext s F : step s = Done F -> oext (ptape s) F.
Proof.
  intros H. pose proof (step_done_eof _ _ H) as E0.
  destruct s as [d st m p t]. cbn [pdata pst_ pparent ptape] in *.
  unfold step in H. cbv zeta in H. cbn [pdata pst_ pmixed pparent ptape] in H. rewrite E0 in H.
  destruct st; try discriminate.
  destruct (Nat.eqb p 0); [injection H as <-; apply oext_refl|].
  destruct (Nat.eqb (slot t p) 0); [|discriminate].
  destruct (tset (tpush t (TEnd p)) p (TObject (length t) false)) as [t'|] eqn:Et; [|discriminate].
  injection H as <-. eapply oext_trans; [apply oext_push|]. eapply oext_tset_obj; exact Et.
Qed.

(* ------------------------------------------------------------------ (c) along the run *)
Lemma runs_oext s sf F : runs s sf -> step sf = Done F -> Inv s -> oext (ptape s) F.
Proof.
  induction 1 as [s|s s1 s2 H1 _ IH]; intros HD HI.
  - apply done_oext; assumption.
  - eapply oext_trans; [apply step_oext; eassumption|]. apply IH; [exact HD|]. eapply Inv_step; eauto.
Qed.

(* the auto-closed token: in state Key the parent is an Object (J), and stays one up to F *)
Lemma key_parent_object s sf F :
  runs s sf -> step sf = Done F -> Inv s -> J s -> pst_ s = SKey -> pparent s <> 0 ->
  exists e m, nth_error F (pparent s) = Some (TObject e m).
Proof.
  intros R HD HI HJ HK Hp. destruct (HJ (or_introl HK) Hp) as (e & m & Ho).
  exact (runs_oext _ _ _ R HD HI _ _ _ Ho).
Qed.

(* ------------------------------------------------------------------ (e, first half) the new predicate implies the old one *)
Theorem consistent_tape_obj_sound F t : consistent_tape_obj F t -> consistent_tape F t.
Proof.
  intros [H|(p & body & Hp & Et & Hl & (e & m & Ey) & Hb)]; [left; exact H|].
  right. exists p, body, (TObject e m). repeat (split; [assumption|]). split; [discriminate|exact Hb].
Qed.

Lemma consistent_obj_sound d r : consistent_obj d r -> consistent d r.
Proof. intros (t & b & E & H). exists t, b. split; [exact E|apply consistent_tape_obj_sound; exact H]. Qed.

(* ------------------------------------------------------------------ (d) exit analysis, strengthened *)
Lemma exit_consistent_obj s sf F t1 x x' m' tr :
  runs s sf -> step sf = Done F -> Inv s -> J s -> pst_ s = SKey -> ptape s = t1 ++ [x] -> tok_cut x' x ->
  step (mkps [] SKey m' (pparent s) (t1 ++ [x'])) = Done tr -> consistent_tape_obj F tr.
Proof.
  intros R HD HI HJ HK Et Hcut Hex.
  pose proof (runs_ext _ _ _ R HD HI) as [HL HE]. rewrite Et in HL, HE.
  assert (HLt : length (t1 ++ [x]) = S (length t1)) by (rewrite app_length; cbn [length]; lia).
  pose proof (key_last _ _ _ R HD HI HK t1 x Et) as KLst.
  pose proof (key_parent_object _ _ _ R HD HI HJ HK) as KObj.
  destruct s as [d st m p t]. unfold Inv in HI. cbn [pst_ pparent ptape] in *. subst st t. cbn [inv] in HI.
  unfold step in Hex. cbv zeta in Hex. cbn [pdata pst_ pmixed pparent ptape] in Hex.
  change (skip_ws_t []) with (@None bytes) in Hex. cbv iota in Hex.
  destruct (Nat.eqb p 0) eqn:Ep.
  - (* top level *)
    apply Nat.eqb_eq in Ep. subst p. injection Hex as <-.
    pose proof (chainrep_top _ HI) as C0.
    destruct (KLst (closed_last_plain _ _ _ C0)) as (y & Hy & Hr).
    left. right. exists t1, x', y. split; [reflexivity|]. split; [|split; [exact Hy|eapply tok_cut_hdr; eauto]].
    apply firstn_eq_nth; [lia|]. intros i Hi.
    rewrite HE; [apply nth_error_app_l; exact Hi|lia|apply is_open_closed0; exact C0].
  - (* one open container *)
    apply Nat.eqb_neq in Ep. specialize (KObj Ep).
    destruct (Nat.eqb (slot (t1 ++ [x']) p) 0) eqn:Es; [|discriminate]. apply Nat.eqb_eq in Es.
    destruct (chainrep_inv _ _ HI) as [[-> _]|(ta & p0 & c & V & EV & -> & Ha & Na & Hc & CV)]; [congruence|].
    assert (Hpos : 0 < length ta) by (destruct ta; [congruence|cbn; lia]).
    destruct (list_last_cases _ V) as [->|(V0 & x2 & ->)].
    + (* the container itself is the last token *)
      apply app_inj_tail in EV. destruct EV as [-> ->].
      rewrite (tok_cut_cont _ _ _ Hcut Hc) in *.
      rewrite (slot_mid ta c [] p0 Hc) in Es. subst p0.
      pose proof (chainrep_top _ Ha) as C0.
      unfold tpush in Hex. rewrite <- app_assoc in Hex. cbn [app] in Hex. rewrite tset_mid in Hex. injection Hex as <-.
      right. exists (length ta), [].
      assert (Hf : firstn (length ta) F = ta).
      { apply firstn_eq_nth; [lia|]. intros i Hi.
        rewrite HE; [apply nth_error_app_l; exact Hi|lia|].
        apply is_open_chain1; [exact C0|apply cl_nil|lia]. }
      split; [exact Hpos|]. split; [rewrite Hf, HLt; cbn [length app]; replace (length ta + 1 + 0) with (S (length ta)) by lia; reflexivity|].
      split; [rewrite Hf; reflexivity|]. split; [exact KObj|left; reflexivity].
    + assert (E1 : t1 = ta ++ c :: V0 /\ x = x2).
      { change (ta ++ c :: V0 ++ [x2]) with (ta ++ (c :: V0) ++ [x2]) in EV. rewrite app_assoc in EV.
        apply app_inj_tail in EV. destruct EV as [-> ->]. split; [reflexivity|reflexivity]. }
      destruct E1 as [-> <-].
      rewrite <- app_assoc in Es, Hex. cbn [app] in Es, Hex.
      rewrite (slot_mid ta c (V0 ++ [x']) p0 Hc) in Es. subst p0.
      pose proof (chainrep_top _ Ha) as C0.
      unfold tpush in Hex. rewrite <- app_assoc in Hex. cbn [app] in Hex. rewrite tset_mid in Hex. injection Hex as <-.
      destruct (KLst (closed_last_plain _ _ _ CV)) as (y & Hy & Hr).
      assert (Hlen1 : length (ta ++ c :: V0) = length ta + 1 + length V0) by (rewrite app_length; cbn [length]; lia).
      assert (Hop : forall i, i <> length ta -> is_open ((ta ++ c :: V0) ++ [x]) i = false).
      { intros i Hi. rewrite <- app_assoc. cbn [app]. apply is_open_chain1; assumption. }
      assert (Hf : firstn (length ta) F = ta).
      { apply firstn_eq_nth; [lia|]. intros i Hi.
        rewrite HE; [rewrite <- app_assoc; apply nth_error_app_l; exact Hi|lia|apply Hop; lia]. }
      right. exists (length ta), (V0 ++ [x']).
      split; [exact Hpos|]. split.
      { rewrite Hf. rewrite <- app_assoc. cbn [app]. do 2 f_equal.
        f_equal. rewrite !app_length. cbn [length]. rewrite app_length. cbn [length]. lia. }
      split; [rewrite Hf; reflexivity|]. split; [exact KObj|].
      right. exists V0, x', y. split; [reflexivity|]. split; [|split].
      * apply firstn_eq_nth; [rewrite skipn_length; lia|]. intros j Hj. rewrite nth_skipn.
        rewrite HE; [|lia|apply Hop; lia].
        rewrite <- app_assoc. cbn [app]. rewrite nth_error_mid.
        destruct (Nat.ltb_spec (S (length ta) + j) (length ta)); [lia|].
        destruct (Nat.eqb_spec (S (length ta) + j) (length ta)); [lia|].
        replace (S (length ta) + j - S (length ta)) with j by lia. apply nth_error_app_l. exact Hj.
      * rewrite nth_skipn. rewrite Hlen1 in Hy. replace (S (length ta) + length V0) with (length ta + 1 + length V0) by lia. exact Hy.
      * eapply tok_cut_hdr; eauto.
Qed.

Lemma eof_exit_consistent_obj s sf F r tr :
  runs s sf -> step sf = Done F -> Inv s -> J s ->
  skip_ws_t (chop r (pdata s)) = None -> step (chopS r s) = Done tr -> consistent_tape_obj F tr.
Proof.
  intros R HD HI HJ Hw Hex.
  destruct s as [d st m p t]. unfold chopS in Hex. cbn [pdata pst_ pmixed pparent ptape] in *.
  rewrite (step_same_skip _ [] st m p t) in Hex by (rewrite Hw; reflexivity).
  destruct st; try (rewrite eof_mid_field in Hex by (reflexivity || discriminate); discriminate).
  destruct (list_last_cases _ t) as [->|(t1 & x & ->)].
  - unfold Inv in HI. cbn [pst_ pparent ptape inv] in HI.
    assert (p = 0).
    { destruct (chainrep_inv _ _ HI) as [[-> _]|(t0 & p0 & c & V & E & _)]; [reflexivity|]. destruct t0; discriminate. }
    subst p. unfold step in Hex. cbn in Hex. injection Hex as <-. left. left. reflexivity.
  - eapply (exit_consistent_obj _ sf F t1 x x m tr R HD HI HJ); [reflexivity|reflexivity|apply tok_cut_refl|exact Hex].
Qed.

Theorem cut_run_obj s sf F : runs s sf -> step sf = Done F -> Inv s -> J s ->
  forall r fuel tr, ploop fuel (chopS r s) = Ok tr -> consistent_tape_obj F tr.
Proof.
  induction 1 as [s|s s1 s2 H1 R IH]; intros HD HI HJ r fuel tr Hp.
  - destruct fuel as [|f]; [discriminate|]. cbn [ploop] in Hp.
    rewrite (step_chop_done r _ _ HD) in Hp. injection Hp as <-. left. apply prefix_cut_refl.
  - destruct fuel as [|f]; [discriminate|]. cbn [ploop] in Hp.
    assert (R0 : runs s s2) by (eapply runs_step; eauto).
    destruct (step_chop r s s1 H1) as [Hw | Hc].
    + destruct (step (chopS r s)) as [sx|tx|ex|cx] eqn:Ex; try discriminate.
      * exfalso. destruct s as [d st m p t]. unfold chopS in Ex. cbn [pdata pst_ pmixed pparent ptape] in *.
        unfold step in Ex. cbv zeta in Ex. cbn [pdata pst_ pmixed pparent ptape] in Ex. rewrite Hw in Ex.
        destruct st; try discriminate. destruct (Nat.eqb p 0); [discriminate|].
        destruct (Nat.eqb _ 0); [destruct (tset _ _ _)|]; discriminate.
      * injection Hp as <-. eapply eof_exit_consistent_obj; eauto.
    + destruct Hc as [Hs | Hb | s'' Hs Hd | d' m p t x x' Es Hs Hcut].
      * rewrite Hs in Hp. eapply IH; [exact HD|eapply Inv_step; eauto|eapply J_step; eauto|exact Hp].
      * destruct (step (chopS r s)); cbn [bad] in Hb; try contradiction; discriminate.
      * rewrite Hs in Hp. exfalso. exact (Hd _ _ Hp).
      * rewrite Hs in Hp. destruct f as [|f']; [discriminate|]. cbn [ploop] in Hp.
        destruct (step (mkps [] SKey m p (tpush t x'))) as [sx|tx|ex|cx] eqn:Ex; try discriminate.
        -- exfalso. unfold step in Ex. cbn in Ex. destruct (Nat.eqb p 0); [discriminate|].
           destruct (Nat.eqb _ 0); [destruct (tset _ _ _)|]; discriminate.
        -- injection Hp as <-. subst s1.
           eapply (exit_consistent_obj _ s2 F t x x' m tx R HD (Inv_step _ _ HI H1) (J_step _ _ HI HJ H1));
             [reflexivity|reflexivity|exact Hcut|exact Ex].
Qed.

(* ------------------------------------------------------------------ parse on a prefix *)
Theorem trunc_generic_obj D F b k :
  parse D = Ok (F, b) ->
  (exists e, parse (firstn k D) = Err e) \/
  (exists t b', parse (firstn k D) = Ok (t, b') /\ consistent_tape_obj F t).
Proof.
  intros HP.
  pose proof (parse_no_crash (firstn k D)) as NC.
  destruct (parse (firstn k D)) as [[t b']| e | | |] eqn:EP; try contradiction; [|left; eauto].
  right. exists t, b'. split; [reflexivity|].
  destruct (Nat.le_gt_cases (length D) k) as [Hk|Hk].
  { rewrite firstn_all2 in EP by exact Hk. rewrite HP in EP. injection EP as <- <-. left. apply prefix_cut_refl. }
  rewrite parse_unfold' in HP, EP.
  destruct (ploop _ (mkps (if has_bom D then _ else _) _ _ _ _)) as [F'| | | |] eqn:EF; try discriminate.
  cbn [omap] in HP. injection HP as -> <-.
  destruct (ploop_ok_runs _ _ _ EF) as (sf & R & HD).
  destruct (ploop (2 * length (firstn k D) + 8) _) as [t'| | | |] eqn:Et; try discriminate.
  cbn [omap] in EP. injection EP as -> <-.
  pose proof (cut_run_obj _ _ _ R HD (Inv_init _) (J_init _)) as CR.
  destruct (has_bom D) eqn:HB.
  - destruct (has_bom (firstn k D)) eqn:HBk.
    + apply has_bom_firstn in HBk. destruct HBk as [_ H3].
      refine (CR (length D - k) (2 * length (firstn k D) + 8) t _). unfold chopS. cbn [pdata pst_ pmixed pparent ptape].
      replace (chop (length D - k) (skipn 3 D)) with (skipn 3 (firstn k D)); [exact Et|].
      unfold chop. rewrite skipn_length, skipn_firstn_comm. f_equal. lia.
    + (* fewer than 3 bytes of a text that starts with a BOM *)
      destruct (has_bom_inv _ HB) as (D' & ->).
      destruct k as [|[|[|k]]]; cbn [firstn] in *.
      * vm_compute in Et. injection Et as <-. left. left. reflexivity.
      * vm_compute in Et. discriminate.
      * vm_compute in Et. discriminate.
      * discriminate.
  - destruct (has_bom (firstn k D)) eqn:HBk.
    + apply has_bom_firstn in HBk. destruct HBk as [HBD _]. congruence.
    + refine (CR (length D - k) (2 * length (firstn k D) + 8) t _). unfold chopS. cbn [pdata pst_ pmixed pparent ptape].
      rewrite <- firstn_chop by lia. exact Et.
Qed.

(* ------------------------------------------------------------------ rendered documents *)
From JV.proofs Require TextParseProofs.

Theorem trunc_text_obj d l k :
  wf_doc d -> wf_layout d l ->
  let r := parse (firstn k (render d l)) in
  (exists e, r = Err e) \/ consistent_obj d r.
Proof.
  intros Hd Hl r. pose proof (TextParseProofs.parse_render d l Hd Hl) as HP.
  destruct (trunc_generic_obj _ _ _ k HP) as [He | (t & b' & E & Hc)]; [left; exact He|].
  right. exists t, b'. split; [exact E|exact Hc].
Qed.

(* ------------------------------------------------------------------ (e, second half) separation *)
Open Scope N_scope.
(* the tape of  a={1 2 3}  *)
Definition sep_F : ttape :=
  [TUnquoted [97]; TArray 5 false; TUnquoted [49]; TUnquoted [50]; TUnquoted [51]; TEnd 1].
(* the ARRAY cut after `2` and auto-closed as if it were an object *)
Definition sep_t : ttape :=
  [TUnquoted [97]; TObject 4 false; TUnquoted [49]; TUnquoted [50]; TEnd 1].
(*  a={1 2 3}  and  a={1 2  *)
Definition sep_input : bytes := [97; 61; 123; 49; 32; 50; 32; 51; 125].
Open Scope nat_scope.

Lemma sep_F_is_parse : parse sep_input = Ok (sep_F, false).
Proof. vm_compute. reflexivity. Qed.

(* the old predicate accepts sep_t as a truncation result of sep_F *)
Lemma sep_old_accepts : consistent_tape sep_F sep_t.
Proof.
  right. exists 1, [TUnquoted [49%N]; TUnquoted [50%N]], (TArray 5 false).
  split; [lia|]. split; [reflexivity|]. split; [reflexivity|]. split; [reflexivity|]. split; [discriminate|].
  right. exists [TUnquoted [49%N]], (TUnquoted [50%N]), (TUnquoted [50%N]).
  split; [reflexivity|]. split; [reflexivity|]. split; [reflexivity|apply tok_cut_refl].
Qed.

(* the new one does not: sep_F has no Object token at all *)
Lemma sep_new_rejects : ~ consistent_tape_obj sep_F sep_t.
Proof.
  intros [H|(p & body & Hp & Et & Hl & (e & m & Ey) & Hb)].
  - pose proof (prefix_cut_nth sep_t sep_F 1 H ltac:(cbn; lia)) as E. discriminate E.
  - unfold sep_F in Ey. do 6 (destruct p as [|p]; [discriminate Ey|]). destruct p; discriminate Ey.
Qed.

(* and the model indeed rejects the truncated input  a={1 2  (the end of the data in state
   ArrayValue is an error), as it does every other proper prefix that ends inside the array *)
Lemma sep_model_rejects : parse (firstn 6 sep_input) = Err E_TextErr.
Proof. vm_compute. reflexivity. Qed.

Lemma sep_model_all_cuts :
  forallb (fun k => match parse (firstn k sep_input) with
                    | Ok (t, _) => Nat.eqb k 0 || Nat.leb 9 k
                    | Err _ => true
                    | _ => false end) (seq 0 11) = true.
Proof. vm_compute. reflexivity. Qed.
