(* The tape parser (reference interpretation, BinTape.parse false false) produces the expected tape
   BinDoc.flat_doc from the encoding of a well-formed document; with C03 (optimised = reference) the
   same holds for the parser the code runs. *)
From JV Require Import Bytes Tables BinPrim BinTape SerdeShape BinDeCommon BinDoc.
From JV.proofs Require Import BinLexProofs BinRoundProofs BinSkipProofs BinTapeWfProofs BinTapeInv BinTapeSafe BinTapeSim BinDocProofs BinDeTpProofs.
Open Scope nat_scope.

(* ---------- runs of the reference loop ---------- *)
Definition reach (s s' : st) : Prop := exists k, forall fuel, loop false false (k + fuel) s = loop false false fuel s'.

Lemma reach_refl s : reach s s.
Proof. exists 0. reflexivity. Qed.
Lemma reach_trans a b c : reach a b -> reach b c -> reach a c.
Proof. intros [k1 H1] [k2 H2]. exists (k1 + k2). intros fuel. rewrite <- Nat.add_assoc, H1, H2. reflexivity. Qed.
Lemma reach_one s s' : iter false false s = Continue s' -> reach s s'.
Proof. intros H. exists 1. intros fuel. cbn [Nat.add loop]. rewrite H. reflexivity. Qed.

Lemma loop_mono fx opt : forall fuel s r, loop fx opt fuel s = r -> r <> OutOfFuel -> forall n, loop fx opt (fuel + n) s = r.
Proof.
  induction fuel as [|fuel IH]; intros s r H N n; [cbn in H; congruence|].
  cbn [Nat.add loop] in *. destruct (iter fx opt s); [apply IH; assumption|exact H].
Qed.

Lemma reach_parse d t : reach (init d) (mkst [] Key 0 t) -> parse false false d = Ok t.
Proof.
  intros [k H]. unfold parse.
  assert (E : loop false false (k + 1) (init d) = Ok t) by (rewrite H; reflexivity).
  pose proof (parse_no_crash false false d) as NC. unfold parse in NC.
  destruct (loop false false (S (length d)) (init d)) eqn:EL; try discriminate NC.
  - pose proof (loop_mono false false _ _ _ EL ltac:(discriminate) (k + 1)) as M1.
    pose proof (loop_mono false false _ _ _ E ltac:(discriminate) (S (length d))) as M2.
    rewrite Nat.add_comm in M2. rewrite M1 in M2. exact M2.
  - pose proof (loop_mono false false _ _ _ EL ltac:(discriminate) (k + 1)) as M1.
    pose proof (loop_mono false false _ _ _ E ltac:(discriminate) (S (length d))) as M2.
    rewrite Nat.add_comm in M2. rewrite M1 in M2. exact M2.
Qed.

(* ---------- one iteration on an id ---------- *)
Lemma iter_w16 id X ps par tp : (id < 65536)%N ->
  iter false false (mkst (w16 id ++ X) ps par tp) =
  match slow false X id ps par tp with Ok s' => Continue s' | o => stop o end.
Proof.
  intros L. unfold iter. cbn [s_data s_ps s_par s_tape andb]. unfold w16. rewrite N.mod_small by exact L.
  rewrite get_split_wb. rewrite le_word_wb0 by exact L. reflexivity.
Qed.

Ltac id_facts H :=
  let F := fresh "F" in
  pose proof (is_id_false_all _ H) as F;
  destruct F as (?&?&?&?&?&?&?&?&?&?&?&?&?).
Ltac rw_false := repeat match goal with E : (_ =? _)%N = false |- _ => rewrite E; clear E end.

Lemma classify_id id : is_id id = true -> classify id = COther.
Proof. intros H. id_facts H. unfold classify. rw_false. reflexivity. Qed.

(* a scalar token in any state but ObjectToArray *)
Lemma step_scalar s X ps par tp : wf_scalar s = true -> ps <> ObjectToArray ->
  iter false false (mkst (write_token (tok_of s) ++ X) ps par tp) = Continue (mkst X (next_tbl ps) par (push tp (ttok s))).
Proof.
  intros W NP. pose proof (wf_scalar_tok s W) as WT.
  destruct s; cbn [tok_of write_token wf_tok ttok] in *; try unfold write_u32; rewrite <- ?app_assoc.
  1:{ destruct WT as [Hi Hl]. rewrite iter_w16 by exact Hl. unfold slow. rewrite (classify_id _ Hi).
      destruct ps; try congruence; cbn [obind]; rewrite next_state_ok; reflexivity. }
  all: rewrite iter_w16 by reflexivity; unfold slow;
       match goal with |- context [classify ?c] => let v := eval vm_compute in (classify c) in change (classify c) with v end;
       unfold scalar_arm, read_scalar.
  all: destruct ps; try congruence; cbn [obind].
  all: rewrite ?read_string_w, ?read_i32_w32, ?read_u32_w32, ?read_u64_w64, ?read_i64_w64 by assumption.
  all: cbn [omap obind fst snd]; rewrite ?next_state_ok; cbn [obind s_ps]; try reflexivity.
  all: try (destruct b; reflexivity).
  all: unfold read_f32, read_f64; rewrite (read_fixed_exact _ x X WT); reflexivity.
Qed.

Lemma step_equal_sep X par tp :
  iter false false (mkst (write_token BEqual ++ X) KeyValueSeparator par tp) = Continue (mkst X ObjectValue par tp).
Proof. cbn [write_token]. rewrite iter_w16 by reflexivity. reflexivity. Qed.

Lemma step_equal_second X pre e r :
  iter false false (mkst (write_token BEqual ++ X) OpenSecond (length pre) (pre ++ TArray e :: r))
  = Continue (mkst X ObjectValue (length pre) (pre ++ TObject e :: r)).
Proof.
  cbn [write_token]. rewrite iter_w16 by reflexivity. unfold slow. cbn [obind].
  change (classify L_EQUAL) with CEqual. cbn iota. unfold set_parent_to_object.
  rewrite nth_error_here. cbn [obind]. rewrite upd_app_here. reflexivity.
Qed.

Lemma step_open X ps par tp : ps <> ObjectToArray -> ps <> Key ->
  iter false false (mkst (write_token BOpen ++ X) ps par tp) = Continue (mkst X OpenFirst (length tp) (push tp (TArray par))).
Proof.
  intros N1 N2. cbn [write_token]. rewrite iter_w16 by reflexivity. unfold slow.
  change (classify L_OPEN) with COpen. destruct ps; try congruence; reflexivity.
Qed.

Lemma step_ghost X par tp : tp <> [] ->
  iter false false (mkst (wbytes [BOpen; BClose] ++ X) Key par tp) = Continue (mkst X Key par tp).
Proof.
  intros NE. change (wbytes [BOpen; BClose] ++ X) with (w16 L_OPEN ++ (w16 L_CLOSE ++ []) ++ X).
  rewrite iter_w16 by reflexivity. unfold slow. cbn [obind]. change (classify L_OPEN) with COpen. cbn iota.
  cbn [is_key negb]. destruct tp; [congruence|]. rewrite app_nil_r, read_id_w16 by reflexivity.
  cbn [obind]. reflexivity.
Qed.

Definition close_state (t' : tape) (g : nat) : pstate :=
  match nth_error t' g with Some (TArray _) => ArrayValue | _ => Key end.

Lemma step_close_arr X ps pre g r : ps = Key \/ ps = OpenFirst \/ ps = OpenSecond \/ ps = ArrayValue ->
  let tp := pre ++ TArray g :: r in
  let t' := (pre ++ TArray (length tp) :: r) ++ [TEnd (length pre)] in
  g < length tp ->
  iter false false (mkst (write_token BClose ++ X) ps (length pre) tp) = Continue (mkst X (close_state t' g) g t').
Proof.
  intros Hps tp t' Lg. cbn [write_token]. rewrite iter_w16 by reflexivity. unfold slow.
  change (classify L_CLOSE) with CClose.
  assert (E : push_end (length pre) tp = Ok (close_state t' g, g, t')).
  { unfold push_end. subst tp. rewrite nth_error_here. unfold push_end_fin. rewrite upd_app_here. unfold push. fold t'.
    unfold close_state. destruct (nth_error t' g) as [x|] eqn:En; [destruct x; reflexivity|].
    apply nth_error_None in En. subst t'. rewrite !app_length in *. cbn [length] in *. lia. }
  destruct Hps as [ -> | [ -> | [ -> | -> ] ] ]; cbn [obind]; rewrite E; reflexivity.
Qed.

Lemma step_close_obj X pre g r :
  let tp := pre ++ TObject g :: r in
  let t' := (pre ++ TObject (length tp) :: r) ++ [TEnd (length pre)] in
  g < length tp ->
  iter false false (mkst (write_token BClose ++ X) Key (length pre) tp) = Continue (mkst X (close_state t' g) g t').
Proof.
  intros tp t' Lg. cbn [write_token]. rewrite iter_w16 by reflexivity. unfold slow.
  change (classify L_CLOSE) with CClose.
  assert (E : push_end (length pre) tp = Ok (close_state t' g, g, t')).
  { unfold push_end. subst tp. rewrite nth_error_here. unfold push_end_fin. rewrite upd_app_here. unfold push. fold t'.
    unfold close_state. destruct (nth_error t' g) as [x|] eqn:En; [destruct x; reflexivity|].
    apply nth_error_None in En. subst t'. rewrite !app_length in *. cbn [length] in *. lia. }
  cbn [obind]. rewrite E. reflexivity.
Qed.

Lemma step_rgb c X par tp : wf_rgbb c = true ->
  iter false false (mkst (write_token (BRgb c) ++ X) ObjectValue par tp) = Continue (mkst X Key par (push tp (TRgb c))).
Proof.
  intros W. cbn [write_token]. rewrite <- !app_assoc. rewrite iter_w16 by reflexivity. unfold slow.
  change (classify L_RGB) with CRgb. cbn [obind]. unfold read_scalar.
  rewrite (read_rgb_write c X (wf_rgbb_ok c W)). reflexivity.
Qed.

(* ---------- values ---------- *)
Definition non_arr (x : tok) : Prop := forall e, x <> TArray e.
Definition obj_par (tp : tape) (par : nat) : Prop := exists x, nth_error tp par = Some x /\ non_arr x.
Definition arr_ps (ps : pstate) : Prop := ps = OpenFirst \/ ps = OpenSecond \/ ps = ArrayValue.
Definition after_elem (ps : pstate) (v : bval) : pstate :=
  match v with VScalar _ => next_tbl ps | _ => ArrayValue end.

Lemma arr_ps_after ps v : arr_ps ps -> arr_ps (after_elem ps v).
Proof. intros [ -> | [ -> | -> ] ]; destruct v; cbn; unfold arr_ps; auto. Qed.
Lemma arr_ps_ne ps : arr_ps ps -> ps <> ObjectToArray /\ ps <> Key.
Proof. intros [ -> | [ -> | -> ] ]; split; discriminate. Qed.

Lemma obj_par_app tp par l : obj_par tp par -> obj_par (tp ++ l) par.
Proof.
  intros (x & E & N). exists x. split; [|exact N]. rewrite nth_error_app1; [exact E|].
  apply nth_error_Some. congruence.
Qed.
Lemma obj_par_lt tp par : obj_par tp par -> par < length tp.
Proof. intros (x & E & _). apply nth_error_Some. congruence. Qed.

Lemma close_state_obj tp par l : obj_par tp par -> close_state (tp ++ l) par = Key.
Proof.
  intros H. destruct (obj_par_app tp par l H) as (x & E & N). unfold close_state. rewrite E.
  destruct x; try reflexivity. exfalso. eapply N. reflexivity.
Qed.
Lemma close_state_arr pre g r l : close_state ((pre ++ TArray g :: r) ++ l) (length pre) = ArrayValue.
Proof. unfold close_state. rewrite <- app_assoc, <- app_comm_cons, nth_error_here. reflexivity. Qed.

Lemma app_cons_assoc {A} (pre : list A) x r l : (pre ++ x :: r) ++ l = pre ++ x :: (r ++ l).
Proof. rewrite <- app_assoc. reflexivity. Qed.

Definition P_obj (v : bval) : Prop :=
  forall X par tp, obj_par tp par ->
    reach (mkst (enc_val v ++ X) ObjectValue par tp) (mkst X Key par (tp ++ flat_val (length tp) v)).
Definition P_arr (v : bval) : Prop :=
  (forall c, v <> VRgb c) ->
  forall X ps pre g r, arr_ps ps ->
    reach (mkst (enc_val v ++ X) ps (length pre) (pre ++ TArray g :: r))
          (mkst X (after_elem ps v) (length pre) ((pre ++ TArray g :: r) ++ flat_val (length (pre ++ TArray g :: r)) v)).
(* a container value in any non-key position *)
Definition P_cont (v : bval) : Prop :=
  forall X ps0 par tp, ps0 <> Key -> ps0 <> ObjectToArray -> par < length tp ->
    reach (mkst (enc_val v ++ X) ps0 par tp)
          (mkst X (close_state (tp ++ flat_val (length tp) v) par) par (tp ++ flat_val (length tp) v)).

Definition after_elems (ps : pstate) (vs : list bval) : pstate := fold_left after_elem vs ps.

Lemma elems_loop vs :
  Forall (fun v => wf_val v = true -> tape_ok v = true -> P_arr v) vs ->
  forallb wf_val vs = true -> forallb (fun x => match x with VRgb _ => false | _ => tape_ok x end) vs = true ->
  forall X ps pre g r, arr_ps ps ->
    reach (mkst (wbytes (flat_map toks_val vs) ++ X) ps (length pre) (pre ++ TArray g :: r))
          (mkst X (after_elems ps vs) (length pre) ((pre ++ TArray g :: r) ++ flat_vals (length (pre ++ TArray g :: r)) vs)).
Proof.
  induction 1 as [|v vs Hv _ IH]; intros W T X ps pre g r Hps.
  - cbn [flat_map wbytes map concat app flat_vals after_elems fold_left]. rewrite app_nil_r. apply reach_refl.
  - cbn [forallb] in W, T. apply andb_prop in W as [Wv Wvs]. apply andb_prop in T as [Tv Tvs].
    cbn [flat_map flat_vals after_elems fold_left]. rewrite wbytes_app, <- app_assoc.
    assert (NR : forall c, v <> VRgb c) by (intros c ->; discriminate Tv).
    assert (Tv' : tape_ok v = true) by (destruct v; try exact Tv; reflexivity).
    eapply reach_trans; [apply (Hv Wv Tv' NR _ ps pre g r Hps)|].
    pose proof (IH Wvs Tvs X (after_elem ps v) pre g (r ++ flat_val (length (pre ++ TArray g :: r)) v)
                  (arr_ps_after _ _ Hps)) as H.
    set (T0 := pre ++ TArray g :: r) in *. set (F1 := flat_val (length T0) v) in *.
    assert (ET : pre ++ TArray g :: r ++ F1 = T0 ++ F1) by (subst T0; rewrite app_cons_assoc; reflexivity).
    rewrite ET in H. rewrite app_length, <- app_assoc in H. exact H.
Qed.

Lemma ghost_step g X par tp : tp <> [] ->
  reach (mkst (wbytes (ghost_toks g) ++ X) Key par tp) (mkst X Key par tp).
Proof.
  intros NE. destruct g; [apply reach_one, step_ghost, NE|apply reach_refl].
Qed.

Lemma fields_loop fs :
  Forall (fun f : bfield => wf_val (bf_val f) = true -> tape_ok (bf_val f) = true -> P_obj (bf_val f)) fs ->
  forallb wf_field fs = true -> forallb (fun f : bfield => tape_ok (bf_val f)) fs = true ->
  forall X par tp, tp <> [] -> obj_par tp par ->
    reach (mkst (wbytes (toks_fields fs) ++ X) Key par tp) (mkst X Key par (tp ++ flat_fields (length tp) fs)).
Proof.
  induction 1 as [|f fs Hf _ IH]; intros W T X par tp NE OP.
  - cbn [toks_fields flat_map wbytes map concat app flat_fields]. rewrite app_nil_r. apply reach_refl.
  - cbn [forallb] in W, T. apply andb_prop in W as [Wf Wfs]. apply andb_prop in T as [Tf Tfs].
    unfold wf_field in Wf. apply andb_prop in Wf as [Wk Wv]. apply andb_prop in Wk as [Kk Wk].
    change (toks_fields (f :: fs)) with (toks_field f ++ toks_fields fs). unfold toks_field.
    rewrite !wbytes_app, wbytes_cons, wbytes_cons, <- !app_assoc.
    eapply reach_trans; [apply ghost_step, NE|].
    eapply reach_trans; [apply reach_one, step_scalar; [exact Wk|discriminate]|]. cbn [next_tbl].
    eapply reach_trans; [apply reach_one, step_equal_sep|].
    eapply reach_trans; [apply (Hf Wv Tf _ par (push tp (ttok (bf_key f)))); apply obj_par_app, OP|].
    unfold push in *.
    pose proof (IH Wfs Tfs X par ((tp ++ [ttok (bf_key f)]) ++ flat_val (length (tp ++ [ttok (bf_key f)])) (bf_val f))) as H.
    cbn [flat_fields].
    replace (length (tp ++ [ttok (bf_key f)])) with (S (length tp)) in * by (rewrite app_length; cbn; lia).
    replace (tp ++ ttok (bf_key f) :: flat_val (S (length tp)) (bf_val f) ++
                   flat_fields (S (length tp) + length (flat_val (S (length tp)) (bf_val f))) fs)
      with (((tp ++ [ttok (bf_key f)]) ++ flat_val (S (length tp)) (bf_val f)) ++
            flat_fields (length ((tp ++ [ttok (bf_key f)]) ++ flat_val (S (length tp)) (bf_val f))) fs).
    + apply H; [destruct tp; discriminate|apply obj_par_app, obj_par_app, OP].
    + rewrite !app_length. cbn [length]. rewrite <- !app_assoc. cbn [app].
      replace (length tp + 1 + length (flat_val (S (length tp)) (bf_val f)))
        with (S (length tp) + length (flat_val (S (length tp)) (bf_val f))) by lia. reflexivity.
Qed.

Lemma after_elems_arr ps vs : arr_ps ps -> arr_ps (after_elems ps vs).
Proof.
  revert ps. induction vs as [|v vs IH]; intros ps H; [exact H|]. cbn [after_elems fold_left]. apply IH, arr_ps_after, H.
Qed.

Lemma cont_arr vs :
  Forall (fun v => wf_val v = true -> tape_ok v = true -> P_arr v) vs ->
  wf_val (VArr vs) = true -> tape_ok (VArr vs) = true -> P_cont (VArr vs).
Proof.
  intros HF W T X ps0 par tp N1 N2 Lp. cbn [wf_val tape_ok] in W, T.
  unfold enc_val. cbn [toks_val]. rewrite wbytes_cons, wbytes_app, <- !app_assoc.
  eapply reach_trans; [apply reach_one, step_open; assumption|]. unfold push.
  eapply reach_trans; [apply (elems_loop vs HF W T _ OpenFirst tp par []); left; reflexivity|].
  replace (length (tp ++ [TArray par])) with (S (length tp)) by (rewrite app_length; cbn; lia).
  rewrite app_cons_assoc. cbn [app wbytes map concat]. rewrite app_nil_r.
  pose proof (after_elems_arr OpenFirst vs (or_introl eq_refl)) as Hps.
  eapply reach_trans.
  { apply reach_one. apply (step_close_arr X (after_elems OpenFirst vs) tp par (flat_vals (S (length tp)) vs)).
    - destruct Hps as [ -> | [ -> | -> ] ]; auto.
    - rewrite app_length. cbn [length]. lia. }
  rewrite flat_val_arr.
  replace (length (tp ++ TArray par :: flat_vals (S (length tp)) vs)) with (S (length tp) + length (flat_vals (S (length tp)) vs))
    by (rewrite app_length; cbn [length]; lia).
  rewrite app_cons_assoc. apply reach_refl.
Qed.

Lemma cont_obj fs g :
  Forall (fun f : bfield => wf_val (bf_val f) = true -> tape_ok (bf_val f) = true -> P_obj (bf_val f)) fs ->
  wf_val (VObj fs g) = true -> tape_ok (VObj fs g) = true -> P_cont (VObj fs g).
Proof.
  intros HF W T X ps0 par tp N1 N2 Lp. cbn [wf_val tape_ok] in W, T.
  apply andb_prop in W as [W Wfs]. apply andb_prop in W as [NEf FG].
  destruct fs as [|f fs]; [discriminate NEf|]. cbn [first_no_ghost] in FG. apply negb_true_iff in FG.
  inversion HF as [|? ? Hf HFs]; subst.
  change (forallb _ (f :: fs)) with (forallb wf_field (f :: fs)) in Wfs.
  cbn [forallb] in Wfs, T. apply andb_prop in Wfs as [Wf Wfs]. apply andb_prop in T as [Tf Tfs].
  unfold wf_field in Wf. apply andb_prop in Wf as [Wk Wv]. apply andb_prop in Wk as [Kk Wk].
  unfold enc_val. cbn [toks_val flat_map]. rewrite FG. cbn [ghost_toks app].
  rewrite wbytes_cons, wbytes_cons, wbytes_cons, !wbytes_app, <- !app_assoc.
  (* Open, first key, =, first value *)
  eapply reach_trans; [apply reach_one, step_open; assumption|]. unfold push.
  eapply reach_trans; [apply reach_one, step_scalar; [exact Wk|discriminate]|]. cbn [next_tbl]. unfold push.
  rewrite app_cons_assoc. cbn [app].
  eapply reach_trans; [apply reach_one, step_equal_second|].
  set (tpA := tp ++ TObject par :: [ttok (bf_key f)]).
  assert (OPA : obj_par tpA (length tp)).
  { exists (TObject par). split; [apply nth_error_here|intros e; discriminate]. }
  eapply reach_trans; [apply (Hf Wv Tf _ (length tp) tpA OPA)|].
  (* the other fields, the closing ghost, Close *)
  fold (toks_fields fs).
  assert (LA : length tpA = S (S (length tp))) by (subst tpA; rewrite app_length; cbn; lia).
  rewrite LA.
  eapply reach_trans.
  { apply (fields_loop fs HFs Wfs Tfs _ (length tp)); [subst tpA; destruct tp; discriminate|apply obj_par_app, OPA]. }
  eapply reach_trans.
  { apply ghost_step. subst tpA. destruct tp; discriminate. }
  cbn [wbytes map concat]. rewrite app_nil_r.
  subst tpA. rewrite !app_cons_assoc. cbn [app].
  eapply reach_trans.
  { apply reach_one. apply step_close_obj. rewrite app_length. cbn [length]. lia. }
  rewrite flat_val_obj. cbn [flat_fields].
  rewrite !app_length. cbn [length]. rewrite !app_length.
  rewrite app_cons_assoc.
  match goal with |- reach (mkst _ _ _ ?a) (mkst _ _ _ ?b) => replace a with b; [apply reach_refl|] end.
  replace (length tp + S (S (length (flat_val (S (S (length tp))) (bf_val f)))))
    with (S (S (length tp)) + length (flat_val (S (S (length tp))) (bf_val f))) by lia.
  f_equal. f_equal. f_equal. lia.
Qed.

Lemma ttok_non_arr s : non_arr (ttok s).
Proof. intros e. destruct s; discriminate. Qed.

Lemma value_steps v : wf_val v = true -> tape_ok v = true -> P_obj v /\ P_arr v.
Proof.
  induction v as [s|c|vs IH|fs g IH] using bval_ind'; intros W T.
  - split.
    + intros X par tp OP. unfold enc_val. cbn [toks_val wbytes map concat flat_val]. rewrite app_nil_r.
      apply reach_one. apply (step_scalar s X ObjectValue par tp W). discriminate.
    + intros _ X ps pre g r Hps. unfold enc_val. cbn [toks_val wbytes map concat flat_val after_elem]. rewrite app_nil_r.
      apply reach_one. apply (step_scalar s X ps _ _ W). apply (arr_ps_ne _ Hps).
  - split.
    + intros X par tp OP. unfold enc_val. cbn [toks_val wbytes map concat flat_val]. rewrite app_nil_r.
      apply reach_one. apply step_rgb. exact W.
    + intros NR. exfalso. apply (NR c). reflexivity.
  - assert (HC : P_cont (VArr vs)).
    { apply cont_arr; [|exact W|exact T]. eapply Forall_impl; [|exact IH]. intros v H Wv Tv. apply (H Wv Tv). }
    split.
    + intros X par tp OP. pose proof (HC X ObjectValue par tp ltac:(discriminate) ltac:(discriminate) (obj_par_lt _ _ OP)) as H.
      rewrite (close_state_obj _ _ _ OP) in H. exact H.
    + intros _ X ps pre g r Hps. destruct (arr_ps_ne _ Hps) as [N1 N2].
      pose proof (HC X ps (length pre) (pre ++ TArray g :: r) N2 N1 ltac:(rewrite app_length; cbn; lia)) as H.
      rewrite close_state_arr in H. exact H.
  - assert (HC : P_cont (VObj fs g)).
    { apply cont_obj; [|exact W|exact T]. eapply Forall_impl; [|exact IH]. intros f H Wv Tv. apply (H Wv Tv). }
    split.
    + intros X par tp OP. pose proof (HC X ObjectValue par tp ltac:(discriminate) ltac:(discriminate) (obj_par_lt _ _ OP)) as H.
      rewrite (close_state_obj _ _ _ OP) in H. exact H.
    + intros _ X ps pre g0 r Hps. destruct (arr_ps_ne _ Hps) as [N1 N2].
      pose proof (HC X ps (length pre) (pre ++ TArray g0 :: r) N2 N1 ltac:(rewrite app_length; cbn; lia)) as H.
      rewrite close_state_arr in H. exact H.
Qed.

(* ---------- documents ---------- *)
Theorem parse_ref_doc fs g : wf_doc fs g = true -> tape_ok_doc fs = true ->
  parse false false (enc_doc fs g) = Ok (flat_doc fs).
Proof.
  intros W T. apply reach_parse. unfold wf_doc in W. apply andb_prop in W as [W WG]. apply andb_prop in W as [FG Wfs].
  unfold init, enc_doc, flat_doc.
  destruct fs as [|f fs].
  - apply negb_true_iff in WG. subst g. cbn. apply reach_refl.
  - cbn [first_no_ghost] in FG. apply negb_true_iff in FG.
    cbn [forallb] in Wfs. unfold tape_ok_doc in T. cbn [forallb] in T.
    apply andb_prop in Wfs as [Wf Wfs]. apply andb_prop in T as [Tf Tfs].
    unfold wf_field in Wf. apply andb_prop in Wf as [Wk Wv]. apply andb_prop in Wk as [Kk Wk].
    change (toks_fields (f :: fs)) with (toks_field f ++ toks_fields fs). unfold toks_field. rewrite FG.
    cbn [ghost_toks]. rewrite <- (app_nil_r (wbytes _)). wb_norm.
    eapply reach_trans; [apply reach_one, step_scalar; [exact Wk|discriminate]|]. cbn [next_tbl]. unfold push. cbn [app].
    eapply reach_trans; [apply reach_one, step_equal_sep|].
    assert (OP : obj_par [ttok (bf_key f)] 0) by (eexists; split; [reflexivity|apply ttok_non_arr]).
    destruct (value_steps (bf_val f) Wv Tf) as [PO _].
    eapply reach_trans; [apply (PO _ 0 [ttok (bf_key f)] OP)|].
    assert (HF : Forall (fun f : bfield => wf_val (bf_val f) = true -> tape_ok (bf_val f) = true -> P_obj (bf_val f)) fs).
    { apply Forall_forall. intros x _ Wx Tx. apply (value_steps _ Wx Tx). }
    eapply reach_trans.
    { apply (fields_loop fs HF Wfs Tfs _ 0); [discriminate|apply obj_par_app, OP]. }
    eapply reach_trans; [apply ghost_step; discriminate|].
    cbn [flat_fields length app]. apply reach_refl.
Qed.

Lemma obs_ok r t : obs r = Accepted t -> r = Ok t.
Proof. destruct r; cbn; intros H; inversion H; reflexivity. Qed.

(* the parser the code runs, once its fast paths exclude I64 (C03) *)
Theorem parse_opt_doc fs g : fast_path_excludes_i64 = true -> wf_doc fs g = true -> tape_ok_doc fs = true ->
  parse_opt (enc_doc fs g) = Ok (flat_doc fs).
Proof.
  intros FX W T. apply obs_ok. unfold parse_opt. rewrite FX, fast_eq_ref_fixed.
  rewrite (ref_fx_irrelevant true). unfold parse_ref. rewrite (parse_ref_doc fs g W T). reflexivity.
Qed.
