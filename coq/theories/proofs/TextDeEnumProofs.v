(* Proofs about TextDeEnum: enums with data-carrying variants on both text paths (wave 5, engineer w_c02).

   PLAN
   1. tape path, VALUE level (de_enum_spec): for every value v of the TextDoc grammar located in a tape, every variant
      list and every fuel above the explicit bound, the model of ValueDeserializer::deserialize_enum -> EnumAccess ->
      VariantDeserializer returns what spec_enum says, wherever spec_enum fits.  The four views (scalar, header,
      `{ name = payload }`, `{ name payload }`) are reduced to one lemma (de_enum_view): tape_visit THEnum gives the
      EnumAccess (variant index, values iterator), tape_visit THStr on the variant index gives the decoded name, and the
      payload deserializer is TextDeTape.de on the NEXT value, which the tape walk theorem of Props/C02_walk2.v
      (TextDeMoreTape.walk_all2) already relates to spec_v2.
   2. tape path, ROOT level (enum_root_tape_spec): the visit_map loop of `struct Root { name: Vec<E> }` over flatten d
      returns spec_enum_fields, by induction on the document's fields (fields_next_ext).
   3. stream path (sde_enum_unit_only, sloop_unit_only): whatever the tokens are, every variant the stream path
      returns is a declared UNIT variant; a payload variant is always a Deserialize error (finding Q).
   4. conservativity (de_enum_unit, sde_enum_unit): on a variant list with unit variants only, the new entry points
      are the ShEnum cases of TextDeTape.de / TextDeStream.sde, so every theorem of C02_walk / C02_walk2 / C02_ext
      about ShEnum applies to them.
   5. computed witnesses where the paths differ are in Props/C02_enum.v. *)
From JV Require Import Bytes Utf8 Scalar TextTok TextReader TextDoc SerdeShape TextDeCommon TextDeTape TextDeStream TextDeSpec TextDeSpec2 TextDeEnum.
From JV.proofs Require Import TextParseProofs TextDeTapeProofs TextDeMoreTape.
Require Import Lia.
Open Scope nat_scope.

(* ------------------------------------------------------------------ the variant identifier *)
Lemma find_variant_some vs nm : existsb (beqb nm) (vnames vs) = true -> exists v, find_variant vs nm = Some v.
Proof.
  induction vs as [|[n v] r IH]; cbn [vnames map existsb find_variant fst]; [discriminate|].
  destruct (beqb nm n); cbn [orb]; [eauto | exact IH].
Qed.

Lemma find_variant_size vs nm v : find_variant vs nm = Some v -> vshape_size v <= variants_size vs.
Proof.
  induction vs as [|[n v'] r IH]; cbn [find_variant]; [discriminate|].
  unfold variants_size in *. cbn [fold_right snd].
  destruct (beqb nm n); [intros [= ->]; lia | intros H; specialize (IH H); lia].
Qed.

Lemma resolve_variant_ok vs p nm v : resolve_variant vs p = Ok (nm, v) -> find_variant vs nm = Some v.
Proof.
  unfold resolve_variant, tvisit_variant, visit_variant.
  destruct (sprim p); cbn [obind]; try discriminate.
  destruct (existsb (beqb s) (vnames vs)); cbn [obind]; [|discriminate].
  destruct (find_variant vs s) eqn:E; [|discriminate]. now intros [= <- <-].
Qed.

Lemma unit_only_find vs nm v : unit_only vs = true -> find_variant vs nm = Some v -> v = VSUnit.
Proof.
  unfold unit_only. induction vs as [|[n v'] r IH]; cbn [forallb find_variant snd]; [discriminate|].
  intros H. apply andb_prop in H as [H1 H2]. destruct (beqb nm n).
  - intros [= <-]. now destruct v'.
  - now apply IH.
Qed.

Section EnumMain.
  Variable decode : bytes -> cow.
  Variable pf : bytes -> outcome N.
  Variable F : fops.
  Variable t : ttape.

  Notation de := (TextDeTape.de decode pf F t).
  Notation spec_v2 := (TextDeSpec2.spec_v2 true decode pf F).
  Notation de_enum := (TextDeEnum.de_enum decode pf F t).
  Notation de_payload := (TextDeEnum.de_payload decode pf F t).
  Notation spec_enum := (TextDeEnum.spec_enum decode pf F).
  Notation spec_payload := (TextDeEnum.spec_payload decode pf F).
  Notation tvisit := (tape_visit decode pf t).

  Lemma full_any v : ext_value v = true -> full_v2 true decode pf F t v.
  Proof. exact (proj1 (walk_all2 true decode pf F t) v). Qed.

  (* the payload deserializer on the value that follows the variant *)
  Lemma de_payload_next v' st en vsh fuel :
    ext_value v' = true -> at_ t st (flat_value st v') -> st < en ->
    cv2 v' + vshape_size vsh <= fuel ->
    spec_payload vsh (Some v') <> Err EC_UNFIT ->
    de_payload fuel vsh (Some (st, en)) = spec_payload vsh (Some v').
  Proof.
    intros He Ha Hlt Hf Hne.
    assert (Hn : exists nx, next_idx_values t st = Ok nx).
    { destruct (any_head st v') as (x & r & E & _). rewrite E in Ha.
      unfold next_idx_values. rewrite (tget_at _ _ _ _ Ha). cbn [obind]. destruct x; eauto. }
    destruct Hn as (nx & Hn).
    unfold TextDeEnum.de_payload, TextDeEnum.spec_payload, next_des in *.
    replace (st <? en) with true by (symmetry; apply Nat.ltb_lt; lia).
    rewrite Hn. cbn [obind].
    unfold vshape_size in Hf. destruct (payload_shape vsh) as [s|]; [|reflexivity].
    exact (full_any v' He st Ha s None fuel Hf Hne).
  Qed.

  (* one lemma for the four views *)
  Lemma de_enum_view k vi rest raw p vs fuel :
    tvisit THEnum k = Ok (TVEnum vi rest) ->
    tvisit THStr (KVal vi) = Ok (TVPrim (pstr (decode raw))) ->
    (forall nm vsh, find_variant vs nm = Some vsh -> spec_payload vsh p <> Err EC_UNFIT ->
       de_payload fuel vsh rest = spec_payload vsh p) ->
    (do nv <- resolve_variant vs (pstr (decode raw)); do x <- spec_payload (snd nv) p; Ok (fst nv, x)) <> Err EC_UNFIT ->
    de_enum fuel vs k =
      (do nv <- resolve_variant vs (pstr (decode raw)); do x <- spec_payload (snd nv) p; Ok (fst nv, x)).
  Proof.
    intros Hv Hn Hp Hne. unfold TextDeEnum.de_enum. rewrite Hv. cbn [obind]. rewrite Hn. cbn [obind].
    destruct (resolve_variant vs (pstr (decode raw))) as [[nm vsh]| | | |] eqn:E; cbn [obind fst snd] in *; try reflexivity.
    rewrite (Hp nm vsh); [reflexivity | now apply resolve_variant_ok in E |].
    intros E2. rewrite E2 in Hne. now apply Hne.
  Qed.

  Lemma kind_static {A} o off (a : bytes -> A) (b : A) : match kind o off with KStatic s => a s | _ => b end = b.
  Proof. now destruct o. Qed.

  Lemma tvisit_enum_unfold o off :
    tvisit THEnum (kind o off) =
      (do tk <- tget t off;
       do ra <- read_array t off tk;
       match ra with
       | Some (st, en) => if st <? en then do nx <- next_idx_values t st; Ok (TVEnum st (Some (nx, en))) else Err EC_DE
       | None => Ok (TVEnum off None)
       end).
  Proof. destruct o; reflexivity. Qed.

  Lemma tvisit_str_scalar k raw r off :
    at_ t off (scalar_tok k raw :: r) -> tvisit THStr (KVal off) = Ok (TVPrim (pstr (decode raw))).
  Proof.
    intros Ha. pose proof (tape_visit_scalar decode pf t THStr k raw r off None Ha eq_refl) as H.
    cbn [kind] in H. rewrite H. unfold scalar_prim, pstr. cbn [andb]. reflexivity.
  Qed.

  Lemma tvisit_str_header name r off :
    at_ t off (THeader name :: r) -> tvisit THStr (KVal off) = Ok (TVPrim (pstr (decode name))).
  Proof.
    intros Ha. cbn [tape_visit k_read_str]. rewrite (tget_at _ _ _ _ Ha). cbn [obind tok_scalar]. reflexivity.
  Qed.

  Lemma scalar_read_array off k raw : read_array t off (scalar_tok k raw) = Ok None.
  Proof. destruct k; reflexivity. Qed.

  Lemma next_idx_values_scalar off k raw r : at_ t off (scalar_tok k raw :: r) -> next_idx_values t off = Ok (S off).
  Proof. intros Ha. unfold next_idx_values. rewrite (tget_at _ _ _ _ Ha). destruct k; reflexivity. Qed.

  Lemma spec_payload_none_any vsh rest :
    rest = None -> de_payload 0 vsh rest = spec_payload vsh None.
  Proof.
    intros ->. unfold TextDeEnum.de_payload, TextDeEnum.spec_payload. destruct (payload_shape vsh); reflexivity.
  Qed.

  (* ---------------------------------------------------------------- the value-level theorem *)
  Theorem de_enum_spec v vs off o fuel :
    ext_value v = true -> at_ t off (flat_value off v) ->
    cv2 v + variants_size vs <= fuel ->
    spec_enum vs v <> Err EC_UNFIT ->
    de_enum fuel vs (kind o off) = spec_enum vs v.
  Proof.
    intros He Ha Hf Hne. unfold TextDeEnum.spec_enum in *.
    destruct (variant_view v) as [[raw p]|] eqn:Ev; [|now destruct Hne].
    destruct v as [k s | fs tl | items | items kvs | name v']; cbn [variant_view] in Ev.
    - (* a scalar: no values iterator *)
      injection Ev as <- <-. cbn [flat_value] in Ha.
      apply (de_enum_view (kind o off) off None s None vs fuel); [| | | exact Hne].
      + rewrite tvisit_enum_unfold, (tget_at _ _ _ _ Ha). cbn [obind]. rewrite scalar_read_array. reflexivity.
      + exact (tvisit_str_scalar _ _ _ _ Ha).
      + intros nm vsh _ _. unfold TextDeEnum.de_payload, TextDeEnum.spec_payload. destruct (payload_shape vsh); reflexivity.
    - (* { name = payload } *)
      destruct fs as [|[k key op v'| |] [|]]; try discriminate. destruct tl; try discriminate.
      assert (Hop : op_toks false op = []) by (destruct op as [[]|]; try discriminate; reflexivity).
      assert (Ep : (raw, p) = (key, Some v')) by (destruct op as [[]|]; try discriminate; now injection Ev as <- <-).
      injection Ep as -> ->. clear Ev.
      cbn [ext_value ext_fields ext_field ext_items] in He. rewrite !andb_true_r in He.
      cbn [flat_value flat_fields flat_field values_nonempty] in Ha. rewrite Hop in Ha.
      cbn [app length] in Ha. rewrite !app_nil_r, ?Nat.add_0_r in Ha.
      pose proof (vlen_pos2 v') as Hpos.
      pose proof (tget_at _ _ _ _ Ha) as Hg. cbn [length] in Hg. rewrite ?Nat.add_0_r, ?flat_value_len in Hg.
      set (e := S off + S (vlen v')) in *. apply at_cons in Ha.
      assert (Hk : at_ t (S off) (scalar_tok k key :: flat_value (S (S off)) v' ++ [TEnd off])) by exact Ha.
      assert (Hv' : at_ t (S (S off)) (flat_value (S (S off)) v')) by (apply at_cons in Ha; now apply at_app_l in Ha).
      apply (de_enum_view (kind o off) (S off) (Some (S (S off), e)) key (Some v') vs fuel); [| | | exact Hne].
      + rewrite tvisit_enum_unfold, Hg. cbn [obind read_array].
        replace (S off <? e) with true by (symmetry; apply Nat.ltb_lt; unfold e; lia).
        rewrite (next_idx_values_scalar _ _ _ _ Hk). reflexivity.
      + exact (tvisit_str_scalar _ _ _ _ Hk).
      + intros nm vsh Hfv Hn2. apply de_payload_next; auto; [unfold e; lia|].
        apply find_variant_size in Hfv. cbn [cv2 cfs2 cf2 cvs2] in Hf. lia.
    - (* { name payload } *)
      destruct items as [|[k s| | | |] [|v' [|]]]; try discriminate.
      injection Ev as <- <-.
      cbn [ext_value ext_items] in He. rewrite !andb_true_r in He. cbn [negb is_header andb] in He.
      apply andb_prop in He as [Hh He]. apply Bool.negb_true_iff in Hh.
      cbn [flat_value flat_values] in Ha. cbn [app length] in Ha. rewrite !app_nil_r in Ha.
      replace (S off + 1) with (S (S off)) in * by lia.
      pose proof (vlen_pos2 v') as Hpos.
      pose proof (tget_at _ _ _ _ Ha) as Hg. cbn [length] in Hg. rewrite ?Nat.add_0_r, ?flat_value_len in Hg.
      set (e := S off + S (vlen v')) in *. apply at_cons in Ha.
      assert (Hk : at_ t (S off) (scalar_tok k s :: flat_value (S (S off)) v' ++ [TEnd off])) by exact Ha.
      assert (Hv' : at_ t (S (S off)) (flat_value (S (S off)) v')) by (apply at_cons in Ha; now apply at_app_l in Ha).
      apply (de_enum_view (kind o off) (S off) (Some (S (S off), e)) s (Some v') vs fuel); [| | | exact Hne].
      + rewrite tvisit_enum_unfold, Hg. cbn [obind read_array].
        replace (S off <? e) with true by (symmetry; apply Nat.ltb_lt; unfold e; lia).
        rewrite (next_idx_values_scalar _ _ _ _ Hk). reflexivity.
      + exact (tvisit_str_scalar _ _ _ _ Hk).
      + intros nm vsh Hfv Hn2. apply de_payload_next; auto; [unfold e; lia|].
        apply find_variant_size in Hfv. cbn [cv2 cfs2 cf2 cvs2] in Hf. lia.
    - discriminate.
    - (* name { .. } *)
      injection Ev as <- <-.
      cbn [ext_value] in He. apply andb_prop in He as [Hc He].
      cbn [flat_value] in Ha.
      pose proof (vlen_pos2 v') as Hpos.
      pose proof (tget_at _ _ _ _ Ha) as Hg.
      assert (Hv' : at_ t (S off) (flat_value (S off) v')) by now apply at_cons in Ha.
      apply (de_enum_view (kind o off) off (Some (S off, S off + vlen v')) name (Some v') vs fuel); [| | | exact Hne].
      + rewrite tvisit_enum_unfold, Hg. cbn [obind read_array].
        rewrite (next_idx_ext _ _ _ He Hv'). cbn [obind].
        replace (off <? S off + vlen v') with true by (symmetry; apply Nat.ltb_lt; lia).
        unfold next_idx_values. rewrite Hg. reflexivity.
      + exact (tvisit_str_header _ _ _ Ha).
      + intros nm vsh Hfv Hn2. apply de_payload_next; auto; [lia|].
        apply find_variant_size in Hfv. cbn [cv2] in Hf. lia.
  Qed.
End EnumMain.

(* ------------------------------------------------------------------ the root: struct Root { name: Vec<E> } over a document *)
Lemma flen_pos f : 1 <= flen f.
Proof.
  destruct f as [k key op v | nm u s | nm u fs].
  - rewrite flen_field. lia.
  - unfold flen. cbn. lia.
  - rewrite flen_paramo. lia.
Qed.

Section EnumRoot.
  Variable decode : bytes -> cow.
  Variable pf : bytes -> outcome N.
  Variable F : fops.
  Variable t : ttape.
  Variable name : bytes.
  Variable vs : variants.

  Notation eloop := (TextDeEnum.eloop decode pf F t).
  Notation de_enum := (TextDeEnum.de_enum decode pf F t).
  Notation spec_fields := (TextDeEnum.spec_enum_fields decode pf F name vs).
  Notation spec_enum := (TextDeEnum.spec_enum decode pf F).

  Lemma eloop_eq f ti en acc :
    eloop (S f) name vs ti en acc =
      (do fn <- fields_next t ti en;
       match fn with
       | Some (key, op, vi, ti') =>
           if beqb (cow_bytes (decode key)) name then
             do x <- de_enum f vs (KOpVal (match op with Some o => o | None => Equal end) vi);
             eloop f name vs ti' en (x :: acc)
           else eloop f name vs ti' en acc
       | None =>
           let '(rs, re) := remainder t ti en in
           do n <- values_len t (S (length t)) rs re;
           match n with
           | O => Ok (rev acc)
           | S _ =>
               if beqb STR_REMAINDER name then do x <- de_enum f vs (KArr rs re); Ok (rev (x :: acc))
               else Ok (rev acc)
           end
       end).
  Proof. reflexivity. Qed.

  Lemma eloop_spec : forall fs, ext_fields fs = true -> forall ti en acc fuel,
    at_ t ti (flat_fields false ti fs) -> en = ti + fslen false fs -> rem_empty t en ->
    cfs2 fs + variants_size vs <= fuel ->
    spec_fields fs <> Err EC_UNFIT ->
    eloop fuel name vs ti en acc = (do r <- spec_fields fs; Ok (rev acc ++ r)).
  Proof.
    induction fs as [|f fs IH]; intros He ti en acc fuel Ha Hen Hrem Hf Hne.
    - destruct fuel as [|fu]; [cbn [cfs2] in Hf; lia|].
      assert (E0 : en = ti) by (rewrite Hen; unfold fslen; cbn; lia). subst ti.
      rewrite eloop_eq, fields_next_end by lia. cbn [obind].
      pose proof (remainder_empty _ _ Hrem) as Hr. destruct (remainder t en en) as [rs re]. rewrite Hr.
      cbn [obind TextDeEnum.spec_enum_fields]. now rewrite app_nil_r.
    - cbn [ext_fields] in He. apply andb_prop in He as [Hef Hes].
      cbn [cfs2] in Hf. destruct fuel as [|fu]; [lia|].
      cbn [flat_fields] in Ha. rewrite flat_field_len in Ha.
      rewrite fslen_cons2 in Hen. pose proof (flen_pos f) as Hfp.
      rewrite eloop_eq, (fields_next_ext t ti en f _ Hef Ha) by lia. cbn [obind].
      assert (Ha' : at_ t (ti + flen f) (flat_fields false (ti + flen f) fs)).
      { apply at_app_r in Ha. now rewrite flat_field_len in Ha. }
      assert (Hen' : en = ti + flen f + fslen false fs) by lia.
      cbn [TextDeEnum.spec_enum_fields] in *.
      destruct f as [k key op v | pn u s | pn u pfs]; cbn [fkey fopo fvoff].
      + destruct (beqb (cow_bytes (decode key)) name) eqn:Ek.
        * cbn [ext_field] in Hef.
          assert (Hv : at_ t (ti + S (length (op_toks false op))) (flat_value (ti + S (length (op_toks false op))) v)).
          { apply at_app_l in Ha. cbn [flat_field] in Ha. apply at_cons in Ha. apply at_app_r in Ha.
            replace (ti + S (length (op_toks false op))) with (S ti + length (op_toks false op)) by lia. exact Ha. }
          assert (Hd : de_enum fu vs (KOpVal (match fop op with Some o => o | None => Equal end) (ti + S (length (op_toks false op))))
                       = spec_enum vs v).
          { apply (de_enum_spec decode pf F t v vs _ (Some (match fop op with Some o => o | None => Equal end)) fu Hef Hv).
            - cbn [cf2] in Hf. lia.
            - intros E. rewrite E in Hne. now apply Hne. }
          rewrite Hd. destruct (spec_enum vs v) as [x| | | |]; cbn [obind]; try reflexivity.
          rewrite (IH Hes (ti + flen (Field k key op v)) en (x :: acc) fu Ha' Hen' Hrem).
          -- destruct (spec_fields fs); cbn [obind rev]; try reflexivity. now rewrite <- app_assoc.
          -- cbn [cf2] in Hf. lia.
          -- intros E. rewrite E in Hne. now apply Hne.
        * apply (IH Hes _ en acc fu Ha' Hen' Hrem); [lia | exact Hne].
      + destruct (beqb (cow_bytes (decode pn)) name); [now destruct Hne|].
        apply (IH Hes _ en acc fu Ha' Hen' Hrem); [lia | exact Hne].
      + destruct (beqb (cow_bytes (decode pn)) name); [now destruct Hne|].
        apply (IH Hes _ en acc fu Ha' Hen' Hrem); [lia | exact Hne].
  Qed.
End EnumRoot.

Theorem enum_root_tape_spec decode pf F name vs d :
  ext_fields d = true ->
  spec_enum_fields decode pf F name vs d <> Err EC_UNFIT ->
  enum_root_tape decode pf F name vs (flatten d) = spec_enum_fields decode pf F name vs d.
Proof.
  intros He Hne. unfold enum_root_tape.
  rewrite (eloop_spec decode pf F (flatten d) name vs d He 0 (length (flatten d)) [] _ (at_root _)); auto.
  - cbn [rev app]. now destruct (spec_enum_fields decode pf F name vs d).
  - left. apply nth_error_None. lia.
  - pose proof (proj1 (proj2 (proj2 cost_bound2)) d) as Hb. unfold enum_fuel.
    change (length (flatten d)) with (fslen false d). lia.
Qed.

(* ------------------------------------------------------------------ stream path: unit variants only *)
Definition unit_result (vs : variants) (nx : bytes * dval) : Prop :=
  find_variant vs (fst nx) = Some VSUnit /\ snd nx = DUnit.

Lemma sde_enum_unit_only decode pf vs tk nx :
  sde_enum decode pf vs tk = Ok nx -> unit_result vs nx.
Proof.
  unfold sde_enum. destruct (stream_visit decode pf THStr tk) as [v| | | |]; cbn [obind]; try discriminate.
  destruct v; try discriminate.
  destruct (resolve_variant vs p) as [[nm vsh]| | | |] eqn:E; cbn [obind fst snd]; try discriminate.
  apply resolve_variant_ok in E. destruct vsh; try discriminate. intros [= <-]. now split.
Qed.

(* the converse reading: a payload variant is never delivered by the stream path *)
Lemma sde_enum_payload_refused decode pf vs tk p nm vsh :
  stream_visit decode pf THStr tk = Ok (SVPrim p) -> resolve_variant vs p = Ok (nm, vsh) -> vsh <> VSUnit ->
  sde_enum decode pf vs tk = Err EC_DE.
Proof.
  intros Hv Hr Hn. unfold sde_enum. rewrite Hv. cbn [obind]. rewrite Hr. cbn [obind snd]. now destruct vsh.
Qed.

Section EnumStreamRoot.
  Variable decode : bytes -> cow.
  Variable pf : bytes -> outcome N.
  Variable F : fops.
  Variable R : Type.
  Variable rnext : R -> outcome (option TextReader.rtok * R).
  Variable rskip : R -> outcome R.
  Variable rexpect : R -> outcome (TextReader.rtok * R).
  Variable name : bytes.
  Variable vs : variants.

  Notation sloop := (TextDeEnum.sloop decode pf F R rnext rskip rexpect).

  Lemma sloop_unit_only : forall fuel r acc l,
    sloop fuel name vs r acc = Ok l -> Forall (unit_result vs) acc -> Forall (unit_result vs) l.
  Proof.
    induction fuel as [|f IH]; intros r acc l H Hacc; [discriminate|].
    cbn [TextDeEnum.sloop] in H.
    destruct (rnext r) as [[[tk|] r1]| | | |]; cbn [obind] in H; try discriminate.
    2: { injection H as <-. now apply Forall_rev. }
    assert (Hgen : forall kb (kn : bool),
               (do (tk1, r2) <- rexpect r1;
                do (vt, r3) <- match tk1 with ROp _ => rread R rnext r2 | _ => Ok (tk1, r2) end;
                if beqb kb name
                then do v <- sde_enum decode pf vs vt; sloop f name vs r3 (v :: acc)
                else do (_, r4) <- sde decode pf F R rnext rskip rexpect f ShIgn vt Equal r3; sloop f name vs r4 acc) = Ok l ->
               Forall (unit_result vs) l).
    { intros kb kn H'.
      destruct (rexpect r1) as [[tk1 r2]| | | |]; cbn [obind] in H'; try discriminate.
      destruct (match tk1 with ROp _ => rread R rnext r2 | _ => Ok (tk1, r2) end) as [[vt r3]| | | |]; cbn [obind] in H'; try discriminate.
      destruct (beqb kb name).
      - destruct (sde_enum decode pf vs vt) as [v| | | |] eqn:E; cbn [obind] in H'; try discriminate.
        apply sde_enum_unit_only in E. eapply IH; eauto.
      - destruct (sde decode pf F R rnext rskip rexpect f ShIgn vt Equal r3) as [[x r4]| | | |]; cbn [obind] in H'; try discriminate.
        eapply IH; eauto. }
    destruct tk.
    - destruct (rskip r1) as [r2| | | |]; cbn [obind] in H; try discriminate. eapply IH; eauto.
    - injection H as <-. now apply Forall_rev.
    - destruct (TextDeStream.key_info decode (ROp o)) as [kb kn] eqn:Ek. exact (Hgen kb kn H).
    - destruct (TextDeStream.key_info decode (RUnq s)) as [kb kn] eqn:Ek. exact (Hgen kb kn H).
    - destruct (TextDeStream.key_info decode (RQuo s)) as [kb kn] eqn:Ek. exact (Hgen kb kn H).
  Qed.
End EnumStreamRoot.

Theorem enum_root_stream_unit_only decode pf F name vs r l :
  enum_root_stream decode pf F name vs r = Ok l -> Forall (unit_result vs) l.
Proof. intros H. eapply sloop_unit_only; eauto. Qed.

(* ------------------------------------------------------------------ conservativity: unit variants = ShEnum *)
Lemma tvisit_variant_inv names p d :
  tvisit_variant names p = Ok d -> exists s, d = DEnum s /\ existsb (beqb s) names = true.
Proof.
  unfold tvisit_variant, visit_variant. destruct (sprim p); try discriminate.
  destruct (existsb (beqb s) names) eqn:E; [|discriminate]. intros [= <-]. eauto.
Qed.

Lemma resolve_unit vs p : unit_only vs = true ->
  resolve_variant vs p = (do d <- tvisit_variant (vnames vs) p;
                          match d with DEnum nm => Ok (nm, VSUnit) | _ => Panic SITE_VARIANT end).
Proof.
  intros Hu. unfold resolve_variant. destruct (tvisit_variant (vnames vs) p) as [d| | | |] eqn:E; cbn [obind]; try reflexivity.
  apply tvisit_variant_inv in E as (s & -> & Hs).
  destruct (find_variant_some _ _ Hs) as (v & Hv). rewrite Hv. now rewrite (unit_only_find _ _ _ Hu Hv).
Qed.

Theorem de_enum_unit decode pf F t vs k f f' : unit_only vs = true ->
  TextDeTape.de decode pf F t (S f) (ShEnum (vnames vs)) k =
    omap (fun nx => DEnum (fst nx)) (de_enum decode pf F t f' vs k).
Proof.
  intros Hu. cbn [TextDeTape.de thint_of]. unfold de_enum.
  destruct (tape_visit decode pf t THEnum k) as [v| | | |]; cbn [obind omap]; try reflexivity.
  destruct v; cbn [obind omap]; try reflexivity.
  destruct (tape_visit decode pf t THStr (KVal variant)) as [vv| | | |]; cbn [obind omap]; try reflexivity.
    destruct vv; cbn [obind omap]; try reflexivity.
    rewrite (resolve_unit vs p Hu).
    destruct (tvisit_variant (vnames vs) p) as [d| | | |] eqn:E; cbn [obind omap]; try reflexivity.
    apply tvisit_variant_inv in E as (s & -> & _). cbn [obind omap fst snd].
    unfold de_payload, next_des. cbn [payload_shape].
    destruct rest as [[st en]|]; [|reflexivity].
    destruct (st <? en); [|reflexivity].
    destruct (next_idx_values t st); reflexivity.
Qed.

Theorem sde_enum_unit decode pf F R rnext rskip rexpect vs tk op r f : unit_only vs = true ->
  sde decode pf F R rnext rskip rexpect (S f) (ShEnum (vnames vs)) tk op r =
    (do nx <- sde_enum decode pf vs tk; Ok (DEnum (fst nx), r)).
Proof.
  intros Hu. cbn [sde thint_of]. change (stream_visit decode pf THEnum tk) with (@Ok svisit SVEnum). cbn [obind]. unfold sde_enum.
  destruct (stream_visit decode pf THStr tk) as [vv| | | |]; cbn [obind]; try reflexivity.
  destruct vv; cbn [obind]; try reflexivity.
  rewrite (resolve_unit vs p Hu).
  destruct (tvisit_variant (vnames vs) p) as [d| | | |] eqn:E; cbn [obind]; try reflexivity.
  apply tvisit_variant_inv in E as (s & -> & _). reflexivity.
Qed.
