(* C10 (wave 5, engineer w_c10): from the agreement of the two specifications on the extended logical documents
   (C10ExtProofs.xspec_agree) to the agreement of the deserializer PATHS, on the token level and from the BYTES of
   both renderings.

   PLAN
     1. a shared target FITS the text rendering (spec_value2 tp never answers "unfit"): port of C10FitsProofs with the
        colour case (the pair's name through hname, the channels through visit_prim) and DateHour.
     2. the text rendering of a document whose colours are object values (rgbpos) is in the grammar of the extended
        text walk theorems: TextDeSpec2.ext_fields (tape path, C02_tape_path_ext_partial) and sx_fields (stream path,
        C02_stream_path_ext_partial).
     3. every admissible binary rendering is a well-formed BinDoc document that the tape parser accepts (rgb blocks in
        object-value position only) and the entry points' fuel covers it (C04).
     4. composition: xtext_bin_agree (tp: text tape path + the three binary paths), xtext_bin_agree_stream (tp = false:
        all five paths), and from the BYTES of `render (to_textx d) l` under any layout: xbytes_agree (slice path:
        C01 parse_render + C02 tape walk) and xbytes_agree_stream (reader path from the bytes, any failure-free
        schedule, any capacity >= need: C07 through C02_reader_path_ext_bytes_partial). *)
From JV Require Import Bytes Tables Utf8 Scalar Date TextTok BinPrim BufWin BinLexer BinReader SerdeShape
  TextDeCommon BinDeCommon TextDeSpec TextDeSpec2 TextDeTape TextDeStream TextDeBytes BinDeOndemand BinDeReader BinDeTape LogicDoc LogicDocX.
From JV Require TextDoc BinDoc TextRef TextTape.
From JV.proofs Require Import TextDeMoreTape TextDeExtStream TextDeExtBytes TextParseProofs
  C10LinkProofs C10SpecProofs C10FitsProofs C10ComposeProofs C10RgbProofs C10KindsProofs C10ExtProofs BinDocProofs BinDeSpecProofs.
From Coq Require Import NArith ZArith Lia List Bool.
Import ListNotations.
Open Scope N_scope.

(* ------------------------------------------------------------------ 1. shared implies fits *)
Section FitsX.
  Variable tp : bool.
  Variable decode : bytes -> cow.
  Variable pf : bytes -> outcome N.
  Variable cfg : bcfg.
  Notation F := (c_fops cfg).
  Notation tspec_v := (spec_v2 tp decode pf F).
  Notation titems := (spec_items2 tp decode pf F).
  Notation ttuple := (spec_tuple2 tp decode pf F).
  Notation tfields := (spec_fields2 tp decode pf F).
  Notation shv := (xshared_v tp decode pf cfg).

  Lemma xscalar_nounfit core l : is_core core -> core <> ShIgn -> scalar_sharedx decode pf cfg core l ->
    forall o, nounfit (tspec_v (to_textx_val (XScalar l)) core o).
  Proof.
    intros Hc Hi Hs o. cbn [to_textx_val]. rewrite tspec2_scalar_eq, (tspec_scalar decode pf cfg _ _ core o Hc Hi).
    destruct l as [b|y m d h wide q]; cbn [scalar_sharedx text_scalarx] in *.
    - apply (scalar_nounfit decode pf cfg core b Hs).
    - destruct core; try contradiction. cbn [spec_scalar snd]. unfold tvisit_prim. apply visit_prim_nounfit.
  Qed.

  Lemma chans_nounfit e l : nounfit (chans_vals cfg e l).
  Proof.
    induction l as [|x r IH]; [apply nounfit_ok|]. cbn [chans_vals].
    apply nounfit_bind; [apply visit_prim_nounfit|]. intros v. apply nounfit_bind; [exact IH|]. intros; apply nounfit_ok.
  Qed.

  Lemma xrgb_nounfit core c o : rgb_shared tp decode pf cfg core c -> rgb_ok c ->
    nounfit (tspec_v (to_textx_val (XRgb c)) core o).
  Proof.
    intros (Htp & Hname & Hs) Hok.
    destruct core; try contradiction. destruct ss as [|s1 [|s2 [|s3 ss]]]; try contradiction.
    destruct Hs as [H1 H2]. cbn [to_textx_val]. unfold rgb_text. rewrite (tspec2_header_tup tp decode pf cfg _ _ s1 s2 o Htp).
    apply nounfit_bind.
    - destruct H1 as [-> | ->]; [rewrite hname_str|rewrite hname_ign]; apply nounfit_ok.
    - intros x. apply nounfit_bind; [|intros; apply nounfit_ok].
      destruct s2; try contradiction.
      + rewrite tspec2_seq. apply nounfit_omap. rewrite (chans_text tp decode pf cfg s2 _ H2 Hok). apply chans_nounfit.
      + rewrite tspec2_ign. apply nounfit_ok.
  Qed.

  (* colours need enc_okx (the channels are u32), so [fits] carries it along *)
  Definition xfits_at (v : xval) : Prop := forall sh e o, shv sh v -> enc_okx_v decode cfg e v -> nounfit (tspec_v (to_textx_val v) sh o).

  Lemma xfits_opt_lift v :
    (forall sh e o, strip_opt sh = sh -> shv sh v -> enc_okx_v decode cfg e v -> nounfit (tspec_v (to_textx_val v) sh o)) -> xfits_at v.
  Proof.
    intros Hcore sh. induction sh; intros e o Hs He; try (apply (Hcore _ e); [reflexivity|assumption|assumption]).
    apply -> (xshared_opt tp decode pf cfg) in Hs. rewrite tspec2_opt. apply nounfit_omap. apply (IHsh e). exact Hs. exact He.
  Qed.

  Lemma xitems_nounfit s vs : Forall xfits_at vs -> forall e i, xshared_seq tp decode pf cfg s vs -> enc_okx_vals decode cfg e i vs ->
    nounfit (titems (to_textx_vals vs) s).
  Proof.
    induction 1 as [|x r Hx Hr IH]; intros e i Hs He; [apply nounfit_ok|].
    destruct Hs as [H1 H2]. destruct He as [He1 He2]. cbn [to_textx_vals]. rewrite titems_cons.
    apply nounfit_bind; [apply (Hx _ (sub e i)); assumption|]. intros a. apply nounfit_bind; [apply (IH e (S i)); assumption|]. intros; apply nounfit_ok.
  Qed.

  Lemma xtuple_nounfit vs : Forall xfits_at vs -> forall ss e i, xshared_tup tp decode pf cfg vs ss -> enc_okx_vals decode cfg e i vs ->
    nounfit (ttuple (to_textx_vals vs) ss).
  Proof.
    induction 1 as [|x r Hx Hr IH]; intros ss e i Hs He.
    - destruct ss; cbn; unfold nounfit; discriminate.
    - destruct ss as [|s ss]; [contradiction|]. destruct Hs as [H1 H2]. destruct He as [He1 He2]. cbn [to_textx_vals]. rewrite ttuple_cons.
      apply nounfit_bind; [apply (Hx _ (sub e i)); assumption|]. intros a. apply nounfit_bind; [apply (IH ss e (S i)); assumption|]. intros; apply nounfit_ok.
  Qed.

  Lemma xmap_fields_nounfit s fs : Forall (fun fl : xfield => xfits_at (xf_val fl)) fs ->
    forall e i, xshared_map tp decode pf cfg s fs -> enc_okx_fields decode cfg e i fs ->
    forall a, nounfit (tfields (to_textx_fields fs) (WMap s) a).
  Proof.
    induction 1 as [|x r Hx Hr IH]; intros e i Hs He a; [apply nounfit_ok|].
    destruct Hs as [H1 H2]. destruct He as [[_ He1] He2]. cbn [to_textx_fields]. unfold to_textx_field. rewrite tfields_cons.
    apply nounfit_bind; [|intros; apply (IH e (S i)); assumption].
    cbn [entry]. apply nounfit_bind; [apply nounfit_omap, (Hx _ (sub e i)); assumption|]. intros [d u]. apply nounfit_ok.
  Qed.

  Lemma xstruct_fields_nounfit fds fs : Forall (fun fl : xfield => xfits_at (xf_val fl)) fs ->
    forall e i, xshared_struct tp decode pf cfg fds fs -> enc_okx_fields decode cfg e i fs ->
    forall a, nounfit (tfields (to_textx_fields fs) (WStruct false fds) a).
  Proof.
    induction 1 as [|x r Hx Hr IH]; intros e i Hs He a; [apply nounfit_ok|].
    destruct Hs as [H1 H2]. destruct He as [[_ He1] He2]. cbn [to_textx_fields]. unfold to_textx_field. rewrite tfields_cons.
    apply nounfit_bind; [|intros; apply (IH e (S i)); assumption].
    cbn [entry andb]. fold (tdec decode (text_raw (xf_kind x) (xf_key x))).
    destruct (find_name fds (tdec decode (text_raw (xf_kind x) (xf_key x))) 0) as [[j fd]|].
    - destruct (f_mode fd); [destruct (slot_full a j); [unfold nounfit; discriminate|]| |];
        (apply nounfit_bind; [apply nounfit_omap, (Hx _ (sub e i)); assumption|]; intros [d u]; apply nounfit_ok).
    - apply nounfit_bind; [rewrite tspec2_ign; apply nounfit_ok|]. intros [d u]. apply nounfit_ok.
  Qed.

  Theorem xval_fits v : xfits_at v.
  Proof.
    induction v as [l|c|vs IH|fs IH] using xval_ind'; apply xfits_opt_lift; intros sh e o Hc Hs He;
      (destruct (shape_eq_ign sh) as [-> | Hni]; [rewrite tspec2_ign; apply nounfit_ok|]).
    - apply (xshared_scalar tp decode pf cfg) in Hs; [|rewrite Hc; exact Hni]. rewrite Hc in Hs.
      apply xscalar_nounfit; [|exact Hni|exact Hs].
      destruct sh; try exact I.
      + exfalso. eapply strip_opt_not_opt. exact Hc.
      + destruct l as [l|]; [destruct l|]; cbn [scalar_sharedx scalar_shared] in Hs; tauto.
    - apply (xshared_rgb tp decode pf cfg) in Hs; [|rewrite Hc; exact Hni]. rewrite Hc in Hs.
      apply xrgb_nounfit; [exact Hs|exact He].
    - rewrite to_textx_arr. apply (enc_okx_arr decode cfg) in He.
      destruct sh; try (exfalso; cbn [xshared_v strip_opt] in Hs; try contradiction; try congruence; eapply strip_opt_not_opt; exact Hc).
      + apply (xshared_seq_eq tp decode pf cfg) in Hs. rewrite tspec2_seq. apply nounfit_omap. eapply xitems_nounfit; eassumption.
      + apply (xshared_tup_eq tp decode pf cfg) in Hs. rewrite tspec2_tup. apply nounfit_omap. eapply xtuple_nounfit; eassumption.
    - rewrite to_textx_obj. apply (enc_okx_obj decode cfg) in He. destruct He as [_ He].
      destruct sh; try (exfalso; eapply strip_opt_not_opt; exact Hc);
        try (exfalso; cbn [xshared_v strip_opt] in Hs; destruct Hs as [_ Hs]; try contradiction; congruence).
      + apply (xshared_map_eq tp decode pf cfg) in Hs. destruct Hs as [_ Hs]. rewrite tspec2_map.
        apply nounfit_bind; [eapply xmap_fields_nounfit; eassumption|]. intros a. apply nounfit_ok.
      + destruct token; [exfalso; cbn [xshared_v strip_opt] in Hs; tauto|].
        apply (xshared_struct_eq tp decode pf cfg) in Hs. destruct Hs as [_ Hs]. rewrite tspec2_struct.
        apply nounfit_bind; [eapply xstruct_fields_nounfit; eassumption|]. intros a. cbn [finish].
        apply nounfit_omap, finish_fields_nounfit.
  Qed.

  Theorem xshared_fits sh d e : xshared tp decode pf cfg sh d -> enc_okx decode cfg e d -> fits2 tp decode pf F sh (to_textx d).
  Proof.
    intros Hs (_ & _ & He). unfold fits2, spec_value2, to_textx.
    assert (Hall : Forall (fun fl : xfield => xfits_at (xf_val fl)) d) by (apply Forall_forall; intros x _; apply xval_fits).
    destruct sh; cbn [xshared] in Hs; try contradiction; cbn [wmode_core].
    - apply nounfit_bind; [eapply xmap_fields_nounfit; eassumption|]. intros a. apply nounfit_ok.
    - destruct token; [contradiction|].
      apply nounfit_bind; [eapply xstruct_fields_nounfit; eassumption|]. intros a. cbn [finish].
      apply nounfit_omap, finish_fields_nounfit.
  Qed.
End FitsX.

(* ------------------------------------------------------------------ 2. the text rendering is in the extended grammars *)
Lemma chan_items_ext l : ext_items (tvalues (map (fun x => TextDoc.VScalar Unq (dec_N x)) l)) = true.
Proof. induction l as [|x r IH]; [reflexivity|]. cbn [map tvalues ext_items TextDoc.is_header negb ext_value andb]. exact IH. Qed.
Lemma chan_items_sx l : sx_items (tvalues (map (fun x => TextDoc.VScalar Unq (dec_N x)) l)) = true.
Proof. induction l as [|x r IH]; [reflexivity|]. cbn [map tvalues sx_items TextDoc.is_header negb sx_value andb]. exact IH. Qed.

Lemma rgbpos_arr vs : rgbpos_v (XArr vs) = rgbpos_vals vs.
Proof. cbn [rgbpos_v]. induction vs as [|x r IH]; [reflexivity|]. cbn [rgbpos_vals]. rewrite IH. reflexivity. Qed.
Lemma rgbpos_obj fs : rgbpos_v (XObj fs) = rgbpos fs.
Proof. cbn [rgbpos_v]. induction fs as [|x r IH]; [reflexivity|]. cbn [rgbpos]. rewrite IH. reflexivity. Qed.

Lemma not_rgb_not_header v : is_xrgb v = false -> TextDoc.is_header (to_textx_val v) = false.
Proof. destruct v; try discriminate; intros _; [reflexivity|rewrite to_textx_arr; reflexivity|rewrite to_textx_obj; reflexivity]. Qed.

Lemma ext_textx_val v : rgbpos_v v = true -> ext_value (to_textx_val v) = true /\ sx_value (to_textx_val v) = true.
Proof.
  induction v as [l|c|vs IH|fs IH] using xval_ind'; intros H.
  - split; reflexivity.
  - cbn [to_textx_val]. unfold rgb_text. cbn [ext_value sx_value TextDoc.is_container andb]. rewrite chan_items_ext, chan_items_sx. split; reflexivity.
  - rewrite rgbpos_arr in H. rewrite to_textx_arr. cbn [ext_value sx_value].
    induction IH as [|x r Hx Hr IHr]; [split; reflexivity|].
    cbn [rgbpos_vals] in H. apply andb_prop in H as [H H2]. apply andb_prop in H as [H0 H1]. apply negb_true_iff in H0.
    cbn [to_textx_vals ext_items sx_items]. rewrite (not_rgb_not_header x H0). cbn [negb andb].
    destruct (Hx H1) as [-> ->]. destruct (IHr H2) as [-> ->]. split; reflexivity.
  - rewrite rgbpos_obj in H. rewrite to_textx_obj. cbn [ext_value sx_value ext_items sx_items]. rewrite !andb_true_r.
    induction IH as [|x r Hx Hr IHr]; [split; reflexivity|].
    cbn [rgbpos] in H. apply andb_prop in H as [H1 H2].
    cbn [to_textx_fields to_textx_field ext_fields ext_field sx_fields sx_field].
    destruct (Hx H1) as [-> ->]. destruct (IHr H2) as [-> ->]. split; reflexivity.
Qed.

Lemma ext_textx d : rgbpos d = true -> ext_fields (to_textx d) = true /\ sx_fields (to_textx d) = true.
Proof.
  unfold to_textx. induction d as [|x r IH]; intros H; [split; reflexivity|].
  cbn [rgbpos] in H. apply andb_prop in H as [H1 H2].
  cbn [to_textx_fields to_textx_field ext_fields ext_field sx_fields sx_field].
  destruct (ext_textx_val _ H1) as [-> ->]. destruct (IH H2) as [-> ->]. split; reflexivity.
Qed.

(* ------------------------------------------------------------------ 3. binary side: well-formed, tape-able, long enough *)
Lemma xwf_arr vs : xwf (XArr vs) = xwf_vals vs.
Proof. cbn [xwf]. induction vs as [|x r IH]; [reflexivity|]. cbn [xwf_vals]. rewrite IH. reflexivity. Qed.
Lemma xwf_obj fs : xwf (XObj fs) = match fs with [] => false | _ => true end && xwf_fields fs.
Proof. reflexivity. Qed.

Lemma xdh_bin_range y m d h : BinDoc.wf_scalar (BinDoc.SI32 (xdh_bin y m d h)) = true.
Proof.
  unfold xdh_bin, datehour_to_binary. destruct (julian_ordinal_day _) as [j| | | |]; cbn [obind]; try reflexivity.
  unfold to_binary_z. destruct (in_i32 _) eqn:E; [|reflexivity].
  unfold in_i32 in E. apply andb_prop in E as [E1 E2]. apply Z.leb_le in E1, E2.
  cbn [BinDoc.wf_scalar]. apply andb_true_intro. split; [apply Z.leb_le|apply Z.ltb_lt]; lia.
Qed.

Section WfX.
  Variable decode : bytes -> cow.
  Variable cfg : bcfg.

  Lemma xscalar_wf c l : scalar_enc_okx decode cfg c l -> BinDoc.wf_scalar (bin_scalarx c l) = true.
  Proof.
    destruct l as [b|y m d h wide q]; cbn [scalar_enc_okx bin_scalarx].
    - apply scalar_wf.
    - destruct (ch_date_i32 c); intros H; [apply xdh_bin_range|apply (str_wf decode cfg _ _ _ H)].
  Qed.

  Lemma binx_wf_val v : forall e, xwf v = true -> enc_okx_v decode cfg e v -> BinDoc.wf_val (to_binx_val e v) = true.
  Proof.
    induction v as [l|c|vs IH|fs IH] using xval_ind'; intros e Hw He.
    - apply xscalar_wf. exact He.
    - apply rgb_wf. exact He.
    - rewrite to_binx_arr. cbn [BinDoc.wf_val]. rewrite xwf_arr in Hw. apply enc_okx_arr in He. revert He. generalize 0%nat.
      induction IH as [|x r Hx Hr IHr]; intros i He; [reflexivity|].
      cbn [xwf_vals] in Hw. apply andb_prop in Hw as [H1 H2]. destruct He as [He1 He2].
      cbn [to_binx_vals forallb]. rewrite (Hx _ H1 He1), (IHr H2 _ He2). reflexivity.
    - rewrite to_binx_obj. rewrite xwf_obj in Hw. apply andb_prop in Hw as [Hne Hw]. apply enc_okx_obj in He. destruct He as [Hg He].
      cbn [BinDoc.wf_val].
      assert (H3 : forall i, enc_okx_fields decode cfg e i fs ->
                     forallb (fun f : BinDoc.bfield => BinDoc.key_kind (BinDoc.bf_key f) && BinDoc.wf_scalar (BinDoc.bf_key f) && BinDoc.wf_val (BinDoc.bf_val f))
                             (to_binx_fields e i fs) = true).
      { clear Hne Hg He. induction IH as [|x r Hx Hr IHr]; intros i He; [reflexivity|].
        cbn [xwf_fields] in Hw. apply andb_prop in Hw as [H1 H2]. destruct He as [[Hk He1] He2].
        cbn [to_binx_fields forallb bin_fieldx BinDoc.bf_key BinDoc.bf_val fst snd].
        destruct (str_wf decode cfg _ _ _ Hk) as [Hk1 Hk2]. rewrite Hk1, Hk2, (Hx _ H1 He1), (IHr H2 _ He2). reflexivity. }
      rewrite (H3 _ He). destruct fs as [|x r]; [discriminate|].
      cbn [to_binx_fields BinDoc.first_no_ghost bin_fieldx BinDoc.bf_ghost fst]. rewrite Hg. reflexivity.
  Qed.

  Lemma binx_wf_doc e d : wf_xdoc d = true -> enc_okx decode cfg e d ->
    BinDoc.wf_doc (fst (to_binx e d)) (snd (to_binx e d)) = true.
  Proof.
    unfold wf_xdoc, enc_okx, to_binx, BinDoc.wf_doc. cbn [fst snd]. intros Hw (Hg & Hem & He).
    assert (H3 : forall i d, xwf_fields d = true -> enc_okx_fields decode cfg e i d -> forallb BinDoc.wf_field (to_binx_fields e i d) = true).
    { clear. intros i d. revert i. induction d as [|x r IH]; intros i Hw He; [reflexivity|].
      cbn [xwf_fields] in Hw. apply andb_prop in Hw as [H1 H2]. destruct He as [[Hk He1] He2].
      cbn [to_binx_fields forallb]. unfold BinDoc.wf_field at 1. cbn [bin_fieldx BinDoc.bf_key BinDoc.bf_val fst snd].
      destruct (str_wf decode cfg _ _ _ Hk) as [Hk1 Hk2]. rewrite Hk1, Hk2, (binx_wf_val _ _ H1 He1), (IH _ H2 He2). reflexivity. }
    rewrite (H3 _ _ Hw He). destruct d as [|x r].
    - cbn. rewrite (Hem eq_refl). reflexivity.
    - cbn [to_binx_fields BinDoc.first_no_ghost bin_fieldx BinDoc.bf_ghost fst]. rewrite Hg. reflexivity.
  Qed.
End WfX.

Lemma binx_not_rgb e v : is_xrgb v = false -> match to_binx_val e v with BinDoc.VRgb _ => False | _ => True end.
Proof. destruct v; try discriminate; intros _; [exact I|rewrite to_binx_arr; exact I|rewrite to_binx_obj; exact I]. Qed.

Lemma binx_tape_ok v : forall e, rgbpos_v v = true -> BinDoc.tape_ok (to_binx_val e v) = true.
Proof.
  induction v as [l|c|vs IH|fs IH] using xval_ind'; intros e H.
  - reflexivity.
  - reflexivity.
  - rewrite to_binx_arr. cbn [BinDoc.tape_ok]. rewrite rgbpos_arr in H. generalize 0%nat.
    induction IH as [|x r Hx Hr IHr]; intros i; [reflexivity|].
    cbn [rgbpos_vals] in H. apply andb_prop in H as [H H2]. apply andb_prop in H as [H0 H1]. apply negb_true_iff in H0.
    cbn [to_binx_vals forallb]. rewrite (IHr H2).
    pose proof (binx_not_rgb (sub e i) x H0) as Hn. specialize (Hx (sub e i) H1).
    destruct (to_binx_val (sub e i) x); [| contradiction | |]; rewrite Hx; reflexivity.
  - rewrite to_binx_obj. cbn [BinDoc.tape_ok]. rewrite rgbpos_obj in H. generalize 0%nat.
    induction IH as [|x r Hx Hr IHr]; intros i; [reflexivity|].
    cbn [rgbpos] in H. apply andb_prop in H as [H1 H2].
    cbn [to_binx_fields forallb bin_fieldx BinDoc.bf_val snd]. rewrite (Hx _ H1), (IHr H2). reflexivity.
Qed.

Lemma binx_tape_ok_doc e d : rgbpos d = true -> BinDoc.tape_ok_doc (fst (to_binx e d)) = true.
Proof.
  unfold to_binx, BinDoc.tape_ok_doc. cbn [fst]. generalize 0%nat.
  induction d as [|x r IH]; intros i H; [reflexivity|].
  cbn [rgbpos] in H. apply andb_prop in H as [H1 H2].
  cbn [to_binx_fields forallb bin_fieldx BinDoc.bf_val snd]. rewrite (binx_tape_ok _ _ H1), (IH _ H2). reflexivity.
Qed.

Lemma xtoks_size v : forall e, (xsize v <= length (BinDoc.toks_val (to_binx_val e v)))%nat.
Proof.
  induction v as [l|c|vs IH|fs IH] using xval_ind'; intros e.
  - cbn. lia.
  - cbn. lia.
  - rewrite to_binx_arr, xsize_arr. cbn [BinDoc.toks_val length]. rewrite app_length. cbn [length].
    assert (forall i, xsize_vals vs <= length (flat_map BinDoc.toks_val (to_binx_vals e i vs)))%nat as H.
    { induction IH as [|x r Hx Hr IHr]; intros i; [cbn; lia|].
      cbn [xsize_vals to_binx_vals flat_map]. rewrite app_length. specialize (Hx (sub e i)). specialize (IHr (S i)). lia. }
    specialize (H 0%nat). lia.
  - rewrite to_binx_obj, xsize_obj. cbn [BinDoc.toks_val length]. rewrite !app_length. cbn [length].
    assert (forall i, xsize_fields fs <= length (flat_map (fun f : BinDoc.bfield => BinDoc.ghost_toks (BinDoc.bf_ghost f) ++ BinDoc.tok_of (BinDoc.bf_key f) :: BEqual :: BinDoc.toks_val (BinDoc.bf_val f)) (to_binx_fields e i fs)))%nat as H.
    { induction IH as [|x r Hx Hr IHr]; intros i; [cbn; lia|].
      cbn [xsize_fields to_binx_fields flat_map]. rewrite !app_length. cbn [length bin_fieldx BinDoc.bf_val snd].
      specialize (Hx (sub e i)). specialize (IHr (S i)). lia. }
    specialize (H 0%nat). lia.
Qed.

Lemma xtoks_size_fields e d : forall i, (xsize_fields d <= length (BinDoc.toks_fields (to_binx_fields e i d)))%nat.
Proof.
  induction d as [|x r IH]; intros i; [cbn; lia|].
  cbn [xsize_fields to_binx_fields BinDoc.toks_fields flat_map]. unfold BinDoc.toks_field at 1. rewrite !app_length.
  cbn [length bin_fieldx BinDoc.bf_val snd]. pose proof (xtoks_size (xf_val x) (sub e i)). specialize (IH (S i)).
  unfold BinDoc.toks_fields in IH. lia.
Qed.

Lemma xdeser_fuel_covers sh e d : (bsize sh + xsize_fields d < deser_fuel sh (binx_bytes e d))%nat.
Proof.
  unfold deser_fuel, binx_bytes, BinDoc.enc_doc, to_binx. cbn [fst snd].
  pose proof (wbytes_len (BinDoc.toks_fields (to_binx_fields e 0 d) ++ BinDoc.ghost_toks (ch_ghost (e [])))) as H.
  rewrite app_length in H. pose proof (xtoks_size_fields e d 0). lia.
Qed.

(* ------------------------------------------------------------------ 4. the paths *)
Section ComposeX.
  Variable decode : bytes -> cow.
  Variable pf : bytes -> outcome N.
  Variable cfg : bcfg.
  Notation F := (c_fops cfg).

  Theorem xspec_of_agree tp sh d e :
    xshared tp decode pf cfg sh d -> enc_okx decode cfg e d ->
    spec_value2 tp decode pf F sh (to_textx d) = BinDoc.spec_of cfg sh (fst (to_binx e d)) (snd (to_binx e d)).
  Proof. intros Hs He. unfold BinDoc.spec_of. apply xspec_agree; [exact Hs|exact He|apply xdeser_fuel_covers]. Qed.

  (* the three binary paths return the text specification *)
  Lemma xbin_paths tp sh d e cap sched :
    wf_xdoc d = true -> rgbpos d = true -> xshared tp decode pf cfg sh d -> enc_okx decode cfg e d ->
    BinReader.no_fail sched = true -> BinLexer.fits cap (binx_bytes e d) = true ->
    let v := spec_value2 tp decode pf F sh (to_textx d) in
    v <> Err EC_UNFIT /\
    BinDeTape.deser_tape cfg sh (binx_bytes e d) = v /\
    BinDeOndemand.deser_ondemand cfg sh (binx_bytes e d) = v /\
    BinDeReader.deser_reader cfg cap sched sh (binx_bytes e d) = v.
  Proof.
    intros Hw Hp Hs He Hnf Hcap v.
    pose proof (xshared_fits tp decode pf cfg sh d e Hs He) as Hfit. unfold fits2 in Hfit. fold v in Hfit.
    pose proof (xspec_of_agree tp sh d e Hs He) as Hag. fold v in Hag.
    pose proof (binx_wf_doc decode cfg e d Hw He) as Hwf.
    pose proof (binx_tape_ok_doc e d Hp) as Htp.
    assert (Hfb : BinDoc.fits_shape cfg sh (fst (to_binx e d)) (snd (to_binx e d))).
    { unfold BinDoc.fits_shape. rewrite <- Hag. exact Hfit. }
    split; [exact Hfit|]. unfold binx_bytes in *.
    split; [rewrite (tape_eq_spec cfg sh _ _ eq_refl Hwf Htp Hfb); symmetry; exact Hag|].
    split; [rewrite (ondemand_eq_spec cfg sh _ _ Hwf Hfb); symmetry; exact Hag|].
    rewrite (reader_eq_spec cfg cap sched sh _ _ Hwf Hnf Hcap Hfb). symmetry. exact Hag.
  Qed.

  (* token level, any flag: the text tape path and the three binary paths *)
  Theorem xtext_bin_agree tp sh d e cap sched :
    wf_xdoc d = true -> rgbpos d = true -> xshared tp decode pf cfg sh d -> enc_okx decode cfg e d ->
    BinReader.no_fail sched = true -> BinLexer.fits cap (binx_bytes e d) = true ->
    let v := spec_value2 tp decode pf F sh (to_textx d) in
    v <> Err EC_UNFIT /\
    TextDeTape.deser_tape decode pf F sh (TextDoc.flatten (to_textx d)) = v /\
    BinDeTape.deser_tape cfg sh (binx_bytes e d) = v /\
    BinDeOndemand.deser_ondemand cfg sh (binx_bytes e d) = v /\
    BinDeReader.deser_reader cfg cap sched sh (binx_bytes e d) = v.
  Proof.
    intros Hw Hp Hs He Hnf Hcap v.
    destruct (xbin_paths tp sh d e cap sched Hw Hp Hs He Hnf Hcap) as (Hu & H3 & H4 & H5).
    split; [exact Hu|]. split; [|auto].
    apply tape_path_spec2; [apply (ext_textx d Hp)|exact Hu].
  Qed.

  (* token level, tp = false: the text STREAM path as well -- all five paths *)
  Theorem xtext_bin_agree_stream sh d e cap sched :
    wf_xdoc d = true -> rgbpos d = true -> xshared false decode pf cfg sh d -> enc_okx decode cfg e d ->
    BinReader.no_fail sched = true -> BinLexer.fits cap (binx_bytes e d) = true ->
    let v := spec_value2 false decode pf F sh (to_textx d) in
    v <> Err EC_UNFIT /\
    TextDeTape.deser_tape decode pf F sh (TextDoc.flatten (to_textx d)) = v /\
    TextDeStream.deser_stream decode pf F sh (tokens (to_textx d)) = v /\
    BinDeTape.deser_tape cfg sh (binx_bytes e d) = v /\
    BinDeOndemand.deser_ondemand cfg sh (binx_bytes e d) = v /\
    BinDeReader.deser_reader cfg cap sched sh (binx_bytes e d) = v.
  Proof.
    intros Hw Hp Hs He Hnf Hcap v.
    destruct (xtext_bin_agree false sh d e cap sched Hw Hp Hs He Hnf Hcap) as (Hu & H1 & H3 & H4 & H5).
    split; [exact Hu|]. split; [exact H1|]. split; [|auto].
    apply stream_path_spec2; [apply (ext_textx d Hp)|exact Hu].
  Qed.

  (* from the BYTES of both renderings, any flag: from_*_slice on any layout of the text rendering and the three binary
     entry points on the binary rendering *)
  Theorem xbytes_agree tp sh d e l cap sched :
    wf_xdoc d = true -> rgbpos d = true -> xshared tp decode pf cfg sh d -> enc_okx decode cfg e d ->
    TextDoc.wf_doc (to_textx d) -> TextDoc.wf_layout (to_textx d) l ->
    BinReader.no_fail sched = true -> BinLexer.fits cap (binx_bytes e d) = true ->
    let v := spec_value2 tp decode pf F sh (to_textx d) in
    v <> Err EC_UNFIT /\
    TextDeBytes.deser_slice decode pf F sh (TextDoc.render (to_textx d) l) = v /\
    BinDeTape.deser_tape cfg sh (binx_bytes e d) = v /\
    BinDeOndemand.deser_ondemand cfg sh (binx_bytes e d) = v /\
    BinDeReader.deser_reader cfg cap sched sh (binx_bytes e d) = v.
  Proof.
    intros Hw Hp Hs He Hwt Hl Hnf Hcap v.
    destruct (xbin_paths tp sh d e cap sched Hw Hp Hs He Hnf Hcap) as (Hu & H3 & H4 & H5).
    split; [exact Hu|]. split; [|auto].
    apply slice_path_ext_bytes; assumption.
  Qed.

  (* from the BYTES, tp = false: the text STREAM deserializer fed from the bytes through the streaming reader, under
     every read schedule without I/O failure and every buffer capacity >= need -- all five paths from bytes *)
  Theorem xbytes_agree_stream sh d e l capv sch cap sched :
    wf_xdoc d = true -> rgbpos d = true -> xshared false decode pf cfg sh d -> enc_okx decode cfg e d ->
    TextDoc.wf_doc (to_textx d) -> TextDoc.wf_layout (to_textx d) l ->
    plain_fields (to_textx d) = true -> wf_bytes (TextDoc.render (to_textx d) l) ->
    TextRef.no_fail sch -> (TextRef.need (TextDoc.render (to_textx d) l) <= capv)%nat ->
    BinReader.no_fail sched = true -> BinLexer.fits cap (binx_bytes e d) = true ->
    let v := spec_value2 false decode pf F sh (to_textx d) in
    v <> Err EC_UNFIT /\
    TextDeBytes.deser_slice decode pf F sh (TextDoc.render (to_textx d) l) = v /\
    TextDeBytes.deser_reader decode pf F sh capv sch (TextDoc.render (to_textx d) l) = v /\
    BinDeTape.deser_tape cfg sh (binx_bytes e d) = v /\
    BinDeOndemand.deser_ondemand cfg sh (binx_bytes e d) = v /\
    BinDeReader.deser_reader cfg cap sched sh (binx_bytes e d) = v.
  Proof.
    intros Hw Hp Hs He Hwt Hl Hpl Hwb Hnfs Hneed Hnf Hcap v.
    destruct (xbytes_agree false sh d e l cap sched Hw Hp Hs He Hwt Hl Hnf Hcap) as (Hu & H1 & H3 & H4 & H5).
    split; [exact Hu|]. split; [exact H1|]. split; [|auto].
    apply reader_path_ext_bytes; assumption.
  Qed.

  (* the five-path theorem of Props/C10_link.v (C10_text_bin_agree_partial) is the XBase, colour-free instance *)
  Theorem logicdoc_five_paths sh d e cap sched :
    wf_ldoc d = true -> norgb_fields d = true -> shared decode pf cfg sh d -> enc_ok decode cfg e d ->
    BinReader.no_fail sched = true -> BinLexer.fits cap (BinDoc.enc_doc (fst (to_bin e d)) (snd (to_bin e d))) = true ->
    let v := spec_value2 false decode pf F sh (to_text d) in
    let b := BinDoc.enc_doc (fst (to_bin e d)) (snd (to_bin e d)) in
    v <> Err EC_UNFIT /\
    TextDeTape.deser_tape decode pf F sh (TextDoc.flatten (to_text d)) = v /\
    TextDeStream.deser_stream decode pf F sh (tokens (to_text d)) = v /\
    BinDeTape.deser_tape cfg sh b = v /\ BinDeOndemand.deser_ondemand cfg sh b = v /\ BinDeReader.deser_reader cfg cap sched sh b = v.
  Proof.
    intros Hw Hn Hs He Hnf Hcap.
    assert (Hb : binx_bytes e (of_ldoc d) = BinDoc.enc_doc (fst (to_bin e d)) (snd (to_bin e d))) by (unfold binx_bytes; rewrite of_ldoc_bin; reflexivity).
    pose proof (xtext_bin_agree_stream sh (of_ldoc d) e cap sched) as H.
    rewrite of_ldoc_text, Hb in H. apply H.
    - rewrite wf_embed. exact Hw.
    - apply rgbpos_embed, Hn.
    - apply shared_embed, Hs.
    - apply enc_embed, He.
    - exact Hnf.
    - exact Hcap.
  Qed.
End ComposeX.
