(* C19, token level (wave 4, a_c19): the binary slice lexer, the bufferless slice reader and the
   streaming reader on a PREFIX of an input that lexes cleanly.

   The documented loop `while let Some(t) = lexer.next_token()? { .. }` ([run_lexer]) on the first k
   bytes returns exactly the first n tokens of the complete token list, for some n, and then
     - ends cleanly having consumed all k bytes (the cut is a token boundary), or
     - reports Eof (the cut falls inside token n: after its id, inside a length prefix, a payload or
       an rgb block).
   No token is altered, none is invented, the InvalidRgb verdict is never produced by a cut.
   Built on [lexfn read_token] (BinLexProofs): more data never changes an answer other than Eof. *)
From JV Require Import Bytes Tables BinPrim BufWin BinLexer BinReader.
From JV.proofs Require Import BinLexProofs BinStreamProofs BinSkipProofs BinStreamMoreProofs.
From Coq Require Import List Lia.
Import ListNotations.
Open Scope nat_scope.

Lemma read_token_nil : read_token [] = Err E_LexEof.
Proof. reflexivity. Qed.

(* one token: on a prefix of the data the same token with the rest cut short, or Eof *)
Lemma read_token_prefix_cases : forall P X t R, read_token (P ++ X) = Ok (t, R) ->
  (exists r, read_token P = Ok (t, r) /\ R = r ++ X) \/ read_token P = Err E_LexEof.
Proof.
  intros P X t R H. destruct (read_token_total P) as [[t' [r E]]|[E|E]].
  - left. pose proof (prefix_stable _ _ _ X E) as H1. rewrite H in H1. inversion H1; subst. eauto.
  - right. exact E.
  - pose proof (prefix_stable_invalid_rgb _ X E) as H1. rewrite H in H1. discriminate.
Qed.

Lemma lex_run_prefix : forall f2 P X o o' f1 ts pos,
  lex_run f1 (mklx (P ++ X) o) = (ts, (Ok tt, pos)) ->
  length P < f2 ->
  exists n, n <= length ts /\
    (lex_run f2 (mklx P o') = (firstn n ts, (Ok tt, o')) \/
     (n < length ts /\ exists p, lex_run f2 (mklx P o') = (firstn n ts, (Err E_LexEof, p)))).
Proof.
  induction f2 as [|f2 IH]; intros P X o o' f1 ts pos H L; [lia|].
  destruct P as [|b P'].
  - exists 0. split; [lia|]. left. cbn [lex_run]. unfold lx_next_token, lx_next_of. cbn [lx_data lx_orig].
    rewrite read_token_nil. cbn. unfold lx_position. cbn [lx_data lx_orig length]. now rewrite Nat.sub_0_r.
  - destruct f1 as [|f1]; [cbn in H; discriminate|].
    cbn [lex_run] in H. unfold lx_next_token, lx_next_of in H. cbn [lx_data lx_orig] in H.
    destruct (read_token ((b :: P') ++ X)) as [[t R]|e|s|s|] eqn:E.
    + destruct (lex_run f1 (mklx R o)) as [ts' e'] eqn:E2. inversion H; subst ts e'. clear H.
      destruct (read_token_prefix_cases _ _ _ _ E) as [[r [E3 ER]]|E3].
      * subst R. pose proof (read_token_len _ _ _ E3) as L3.
        destruct (IH r X o o' f1 ts' pos E2) as [n [Ln Hn]]; [cbn [length] in *; lia|].
        exists (S n). split; [cbn [length]; lia|].
        cbn [lex_run]. unfold lx_next_token, lx_next_of. cbn [lx_data lx_orig]. rewrite E3.
        destruct Hn as [Hn|[Ln2 [p Hn]]].
        -- left. rewrite Hn. reflexivity.
        -- right. split; [cbn [length]; lia|]. exists p. rewrite Hn. reflexivity.
      * exists 0. split; [lia|]. right. split; [cbn [length]; lia|].
        cbn [lex_run]. unfold lx_next_token, lx_next_of. cbn [lx_data lx_orig]. rewrite E3.
        cbn. eexists. reflexivity.
    + cbn [app] in H. destruct ((e =? E_LexEof)%N); cbn in H; inversion H.
    + cbn in H. inversion H.
    + cbn in H. inversion H.
    + cbn in H. inversion H.
Qed.

Theorem lexer_trunc : forall D ts pos k,
  run_lexer D = (ts, (Ok tt, pos)) -> k <= length D ->
  exists n, n <= length ts /\
    (run_lexer (firstn k D) = (firstn n ts, (Ok tt, k)) \/
     (n < length ts /\ exists p, run_lexer (firstn k D) = (firstn n ts, (Err E_LexEof, p)))).
Proof.
  intros D ts pos k H Hk. unfold run_lexer, lx_new in *.
  rewrite <- (firstn_skipn k D) in H at 2.
  rewrite (firstn_length_le D Hk).
  destruct (lex_run_prefix (S k) (firstn k D) (skipn k D) (length D) k _ ts pos H) as [n [Ln Hn]].
  - rewrite (firstn_length_le D Hk). lia.
  - exists n. split; [exact Ln|]. exact Hn.
Qed.

(* TokenReader::from_slice: the same, through slice_reader_eq_lexer *)
Theorem slice_reader_trunc : forall D ts pos k,
  run_slice_reader D = (ts, (Ok tt, pos)) -> k <= length D ->
  exists n, n <= length ts /\
    (run_slice_reader (firstn k D) = (firstn n ts, (Ok tt, k)) \/
     (n < length ts /\ exists p, run_slice_reader (firstn k D) = (firstn n ts, (Err E_LexEof, p)))).
Proof. intros D ts pos k. rewrite !slice_reader_eq_lexer. apply lexer_trunc. Qed.

(* the buffered reader, any fault-free read schedule, a buffer larger than the document *)
Theorem stream_trunc : forall D ts pos k cap sched,
  run_lexer D = (ts, (Ok tt, pos)) -> k <= length D ->
  no_fail sched = true -> length D < cap ->
  exists n, n <= length ts /\
    (run_stream cap sched (firstn k D) = (firstn n ts, (Ok tt, k)) \/
     (n < length ts /\ exists p, run_stream cap sched (firstn k D) = (firstn n ts, (Err E_LexEof, p)))).
Proof.
  intros D ts pos k cap sched H Hk Hs Hc.
  rewrite (stream_eq_lexer (firstn k D) sched cap Hs).
  - eapply lexer_trunc; eauto.
  - apply fits_whole. rewrite firstn_length. lia.
Qed.

(* a clean end on the prefix means the prefix itself is a complete token sequence: it lexes, alone,
   to exactly those tokens ([lex_all], the specification-side token list of C08) *)
Lemma lex_run_clean_lex_all : forall f l ts pos,
  lex_run f l = (ts, (Ok tt, pos)) -> forall f', length (lx_data l) < f' -> lex_all_fuel f' (lx_data l) = Some ts.
Proof.
  induction f as [|f IH]; intros l ts pos H f' L; [cbn in H; discriminate|].
  destruct f' as [|f']; [lia|].
  cbn [lex_run] in H. unfold lx_next_token, lx_next_of in H.
  destruct l as [d o]. cbn [lx_data lx_orig] in *.
  destruct d as [|b d'].
  - rewrite read_token_nil in H. cbn in H. inversion H. reflexivity.
  - cbn [lex_all_fuel]. destruct (read_token (b :: d')) as [[t R]|e|s|s|] eqn:E.
    + destruct (lex_run f (mklx R o)) as [ts' e'] eqn:E2. inversion H; subst ts e'.
      pose proof (read_token_len _ _ _ E) as L3.
      assert (Q : lex_all_fuel f' R = Some ts').
      { apply (IH (mklx R o) ts' pos E2 f'). cbn [lx_data length] in *. lia. }
      rewrite Q. reflexivity.
    + destruct ((e =? E_LexEof)%N); cbn in H; inversion H.
    + cbn in H. inversion H.
    + cbn in H. inversion H.
    + cbn in H. inversion H.
Qed.

Theorem lexer_clean_prefix_is_token_boundary : forall D ts pos k n,
  run_lexer D = (ts, (Ok tt, pos)) ->
  run_lexer (firstn k D) = (firstn n ts, (Ok tt, k)) ->
  lex_all (firstn k D) = Some (firstn n ts).
Proof.
  intros D ts pos k n _ H. unfold run_lexer, lx_new, lex_all in *.
  apply (lex_run_clean_lex_all _ _ _ _ H). cbn [lx_data]. lia.
Qed.
