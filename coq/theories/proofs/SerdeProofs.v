From JV Require Import Bytes Scalar Derive Serde.
From JV.proofs Require Import DeriveProofs.
From Coq Require Import Lia.
Open Scope N_scope.

Section T.
  Variable decode : bytes -> bytes.

  (* a typed unsigned hint yields exactly the number Scalar.to_u64 reads, or nothing *)
  Lemma text_u_exact : forall bits raw v,
    text_scalar decode (SU bits) raw = Ok v -> exists n, to_u64 raw = Ok n /\ v = VU n /\ n < 2 ^ bits.
  Proof.
    intros bits raw v H. unfold text_scalar in H.
    destruct (to_u64 raw) as [n| | | |] eqn:E; cbn in H; try discriminate.
    destruct (N.ltb_spec n (2 ^ bits)); [|discriminate]. inversion H; subst. eauto.
  Qed.

  Lemma text_u_refuses : forall bits raw, is_ok (to_u64 raw) = false -> text_scalar decode (SU bits) raw = Err E_DE.
  Proof. intros bits raw H. unfold text_scalar. destruct (to_u64 raw); cbn in *; try reflexivity. discriminate. Qed.

  Lemma text_i_exact : forall bits raw v,
    text_scalar decode (SI bits) raw = Ok v ->
    exists z, to_i64 raw = Ok z /\ v = VI z /\ (- Z.of_N (2 ^ (bits - 1)) <= z < Z.of_N (2 ^ (bits - 1)))%Z.
  Proof.
    intros bits raw v H. unfold text_scalar in H.
    destruct (to_i64 raw) as [z| | | |] eqn:E; cbn in H; try discriminate.
    destruct (Z.leb_spec (- Z.of_N (2 ^ (bits - 1))) z); cbn in H; [|discriminate].
    destruct (Z.ltb_spec z (Z.of_N (2 ^ (bits - 1)))); [|discriminate]. inversion H; subst. exists z. repeat split; auto.
  Qed.

  Lemma text_bool_exact : forall raw v,
    text_scalar decode SBool raw = Ok v -> exists b, to_bool raw = Ok b /\ v = VBool b.
  Proof.
    intros raw v H. unfold text_scalar in H. destruct (to_bool raw) as [b| | | |] eqn:E; cbn in H; try discriminate.
    inversion H; subst. eauto.
  Qed.

  Lemma text_str_decodes : forall raw, text_scalar decode SStr raw = Ok (VStr (decode raw)).
  Proof. reflexivity. Qed.

  Lemma text_scalar_no_crash : forall sh raw, is_crash (text_scalar decode sh raw) = false.
  Proof.
    intros sh raw. destruct sh; unfold text_scalar; cbn; try reflexivity.
    - destruct (to_bool raw); cbn; reflexivity.
    - destruct (to_u64 raw) as [n| | | |]; cbn; try reflexivity. destruct (n <? 2 ^ bits); reflexivity.
    - destruct (to_i64 raw) as [z| | | |]; cbn; try reflexivity.
      destruct ((- Z.of_N (2 ^ (bits - 1)) <=? z)%Z && (z <? Z.of_N (2 ^ (bits - 1)))%Z); reflexivity.
  Qed.

  (* binary: integers and booleans verbatim *)
  Lemma bin_int_verbatim : forall bits t v,
    bin_scalar decode (SU bits) t = Ok v ->
    exists n, v = VU n /\ n < 2 ^ bits /\
      (t = BU32 n \/ t = BU64 n \/ (exists z, (t = BI32 z \/ t = BI64 z) /\ (0 <= z)%Z /\ n = Z.to_N z)).
  Proof.
    intros bits t v H. destruct t; cbn in H; try discriminate.
    - destruct (Z.leb_spec 0 z); cbn in H; [|discriminate]. destruct (N.ltb_spec (Z.to_N z) (2 ^ bits)); [|discriminate].
      inversion H; subst. exists (Z.to_N z). repeat split; auto. right; right. exists z. auto.
    - destruct (N.ltb_spec n (2 ^ bits)); [|discriminate]. inversion H; subst. exists n. auto.
    - destruct (Z.leb_spec 0 z); cbn in H; [|discriminate]. destruct (N.ltb_spec (Z.to_N z) (2 ^ bits)); [|discriminate].
      inversion H; subst. exists (Z.to_N z). repeat split; auto. right; right. exists z. auto.
    - destruct (N.ltb_spec n (2 ^ bits)); [|discriminate]. inversion H; subst. exists n. auto.
  Qed.

  Lemma bin_bool_verbatim : forall t v, bin_scalar decode SBool t = Ok v -> exists b, t = BBool b /\ v = VBool b.
  Proof. intros t v H. destruct t; cbn in H; try discriminate. inversion H; subst. eauto. Qed.

  Lemma bin_str_decodes : forall t v, bin_scalar decode SStr t = Ok v -> exists s, t = BStr s /\ v = VStr (decode s).
  Proof. intros t v H. destruct t; cbn in H; try discriminate. inversion H; subst. eauto. Qed.

  (* text and binary agree on the shared integers: the number the text scalar denotes, stored in any
     integer token that can hold it, gives the same value for every integer target *)
  Lemma text_bin_unsigned_agree : forall dec2 bits raw n t,
    to_u64 raw = Ok n ->
    (t = BU32 n \/ t = BU64 n \/ t = BI32 (Z.of_N n) \/ t = BI64 (Z.of_N n)) ->
    bin_scalar dec2 (SU bits) t = text_scalar decode (SU bits) raw.
  Proof.
    intros dec2 bits raw n t E T. unfold text_scalar. rewrite E.
    destruct T as [->|[->|[->| ->]]]; cbn; try reflexivity;
      rewrite N2Z.id; destruct (Z.leb_spec 0 (Z.of_N n)); try lia; cbn; reflexivity.
  Qed.

  Lemma text_bin_bool_agree : forall dec2 raw b,
    to_bool raw = Ok b -> bin_scalar dec2 SBool (BBool b) = text_scalar decode SBool raw.
  Proof. intros dec2 raw b E. unfold text_scalar. rewrite E. reflexivity. Qed.

  Lemma text_bin_str_agree : forall dec2 raw s,
    dec2 s = decode raw -> bin_scalar dec2 SStr (BStr s) = text_scalar decode SStr raw.
  Proof. intros dec2 raw s E. cbn. rewrite E. reflexivity. Qed.
End T.

(* struct targets: unknown fields are dropped, whatever they contain; a missing Option is None *)
Lemma struct_unknown_ignored : forall specs l1 k r l2,
  match_field value specs k = None ->
  spec_struct specs (l1 ++ (k, r) :: l2) = spec_struct specs (l1 ++ l2).
Proof. intros. unfold spec_struct. rewrite unknown_ignored by assumption. reflexivity. Qed.

Lemma struct_order_independent : forall specs kvs kvs',
  values_ok value specs kvs -> (forall i, occ value specs i kvs = occ value specs i kvs') ->
  spec_struct specs kvs = spec_struct specs kvs'.
Proof. intros. unfold spec_struct. rewrite (perm_invariant value specs kvs kvs') by assumption. reflexivity. Qed.

Lemma struct_missing_option_none : forall k, visit value [option_field k] [] = Ok [OVal VNone].
Proof. reflexivity. Qed.
