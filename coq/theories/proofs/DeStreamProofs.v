From JV Require Import Bytes BinDeStream.
From Coq Require Import Lia.

(* text key loop: a one-shot fault is either not reached (same answer) or reported as the I/O error *)
Lemma text_key_fault_sound_n : forall n root l1 l2, (length l1 <= n)%nat ->
  text_next_key root (l1 ++ RIo :: l2) = KErrIo \/
  text_next_key root (l1 ++ RIo :: l2) = text_next_key root (l1 ++ l2).
Proof.
  induction n as [|n IH]; intros root l1 l2 L.
  - destruct l1; [|cbn in L; lia]. left. reflexivity.
  - destruct l1 as [|a l1]; [left; reflexivity|]. cbn [app].
    destruct a as [t| |]; [|right; reflexivity|right; reflexivity].
    destruct t; try (right; reflexivity).
    (* Open: skip_container result is the next entry *)
    destruct l1 as [|b l1]; [left; reflexivity|]. cbn [app text_next_key].
    destruct b; try (right; reflexivity).
    apply IH. cbn in L. lia.
Qed.

Lemma text_key_fault_sound : forall root l1 l2,
  text_next_key root (l1 ++ RIo :: l2) = KErrIo \/
  text_next_key root (l1 ++ RIo :: l2) = text_next_key root (l1 ++ l2).
Proof. intros. apply (text_key_fault_sound_n (length l1)). lia. Qed.

(* binary key loop: the same statement is false (finding G) *)
Lemma bin_key_fault_unsound : exists root l1 l2,
  bin_next_key root (l1 ++ RIo :: l2) <> KErrIo /\
  bin_next_key root (l1 ++ RIo :: l2) <> bin_next_key root (l1 ++ l2).
Proof.
  exists false, [RTok TOpen], [RTok TClose; RTok (TScalar 1)]. split; cbn; discriminate.
Qed.

(* without a ghost object in key position the binary loop is sound as well *)
Lemma bin_key_fault_sound_no_ghost : forall root l1 l2,
  (forall x, In x l1 -> x <> RTok TOpen) ->
  bin_next_key root (l1 ++ RIo :: l2) = KErrIo \/
  bin_next_key root (l1 ++ RIo :: l2) = bin_next_key root (l1 ++ l2).
Proof.
  intros root l1 l2 H. destruct l1 as [|a l1]; [left; reflexivity|]. cbn [app].
  destruct a as [t| |]; [|right; reflexivity|right; reflexivity].
  destruct t; try (right; reflexivity). exfalso. apply (H (RTok TOpen)); [left|]; reflexivity.
Qed.
