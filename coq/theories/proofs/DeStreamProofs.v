From JV Require Import Bytes Tables BinDeStream.
From Coq Require Import Lia List.
Import ListNotations.

(* a key loop that propagates: a one-shot fault is either not reached (same answer) or reported
   as the I/O error *)
Lemma key_fault_sound_n : forall n root l1 l2, (length l1 <= n)%nat ->
  next_key true root (l1 ++ RIo :: l2) = KErrIo \/
  next_key true root (l1 ++ RIo :: l2) = next_key true root (l1 ++ l2).
Proof.
  induction n as [|n IH]; intros root l1 l2 L.
  - destruct l1; [|cbn in L; lia]. left. reflexivity.
  - destruct l1 as [|a l1]; [left; reflexivity|]. cbn [app].
    destruct a as [t| |]; [|right; reflexivity|right; reflexivity].
    destruct t; try (right; reflexivity).
    destruct l1 as [|b l1]; [left; reflexivity|]. cbn [app next_key].
    destruct b; try (right; reflexivity).
    apply IH. cbn in L. lia.
Qed.

Lemma key_fault_sound : forall root l1 l2,
  next_key true root (l1 ++ RIo :: l2) = KErrIo \/
  next_key true root (l1 ++ RIo :: l2) = next_key true root (l1 ++ l2).
Proof. intros. apply (key_fault_sound_n (length l1)). lia. Qed.

(* a key loop that discards the result is unsound (this was finding G in binary/de.rs) *)
Lemma discarding_key_loop_unsound : exists root l1 l2,
  next_key false root (l1 ++ RIo :: l2) <> KErrIo /\
  next_key false root (l1 ++ RIo :: l2) <> next_key false root (l1 ++ l2).
Proof.
  exists false, [RTok TOpen], [RTok TClose; RTok (TScalar 1)]. split; cbn; discriminate.
Qed.

Lemma text_key_fault_sound : text_key_loop_propagates = true -> forall root l1 l2,
  text_next_key root (l1 ++ RIo :: l2) = KErrIo \/
  text_next_key root (l1 ++ RIo :: l2) = text_next_key root (l1 ++ l2).
Proof. unfold text_next_key. intros ->. apply key_fault_sound. Qed.

Lemma bin_key_fault_sound : bin_key_loop_propagates = true -> forall root l1 l2,
  bin_next_key root (l1 ++ RIo :: l2) = KErrIo \/
  bin_next_key root (l1 ++ RIo :: l2) = bin_next_key root (l1 ++ l2).
Proof. unfold bin_next_key. intros ->. apply key_fault_sound. Qed.
