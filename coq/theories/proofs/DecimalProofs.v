(* Decimal printing (Date.dec_N / fmt_int, the model of core::fmt's `{}` / `{:0w}`) and decimal
   parsing (Scalar.to_u64_t2 / to_i64_t) are mutually inverse. *)
From JV Require Import Bytes Tables U64Swar Scalar Date.
From Coq Require Import NArith ZArith Lia List Bool.
Import ListNotations.
Open Scope N_scope.

(* value of a digit string continuing from an accumulator *)
Definition dacc (acc : N) (l : bytes) : N := fold_left (fun a b => 10 * a + (b - 48)) l acc.
Definition all_digits (l : bytes) : bool := forallb is_digit l.
(* the unread rest must not start with a digit *)
Definition stops (rest : bytes) : bool := match rest with [] => true | c :: _ => negb (is_digit c) end.

Lemma is_digit_range b : is_digit b = true <-> 48 <= b <= 57.
Proof. unfold is_digit. rewrite andb_true_iff, !N.leb_le. tauto. Qed.

Lemma is_digit_48 k : k < 10 -> is_digit (48 + k) = true.
Proof. intros H. apply is_digit_range. lia. Qed.

Lemma dacc_ge l : forall acc, acc <= dacc acc l.
Proof.
  induction l as [|b l IH]; intros acc; [cbn; lia|].
  cbn [dacc fold_left]. fold (dacc (10 * acc + (b - 48)) l). specialize (IH (10 * acc + (b - 48))). lia.
Qed.

Lemma dacc_app l1 l2 acc : dacc acc (l1 ++ l2) = dacc (dacc acc l1) l2.
Proof. unfold dacc. apply fold_left_app. Qed.

Lemma dacc_mono l : forall a b, a <= b -> dacc a l <= dacc b l.
Proof. induction l as [|x l IH]; intros a b H; [exact H|]. cbn [dacc fold_left]. apply IH. lia. Qed.

(* ---------- parsing a digit string ---------- *)
Lemma to_u64_t2_digits ds : forall rest acc,
  all_digits ds = true -> stops rest = true -> dacc acc ds < U64_LIM ->
  to_u64_t2 (ds ++ rest) acc = Ok (dacc acc ds, rest).
Proof.
  induction ds as [|x ds IH]; intros rest acc Hd Hs Hlim.
  - cbn [app dacc fold_left]. destruct rest as [|c r]; [reflexivity|].
    cbn [stops] in Hs. cbn [to_u64_t2]. apply negb_true_iff in Hs. rewrite Hs. reflexivity.
  - cbn [all_digits forallb] in Hd. apply andb_prop in Hd as [Hx Hd].
    cbn [app to_u64_t2]. rewrite Hx.
    cbn [dacc fold_left] in *. fold (dacc (10 * acc + (x - 48)) ds) in *.
    pose proof (dacc_ge ds (10 * acc + (x - 48))) as Hge.
    unfold overflow_mul_add.
    replace (U64_LIM <=? acc * 10) with false by (symmetry; apply N.leb_gt; lia).
    rewrite (N.mod_small (acc * 10)) by lia.
    replace (U64_LIM <=? acc * 10 + (x - 48)) with false by (symmetry; apply N.leb_gt; lia).
    cbn [orb]. replace (acc * 10 + (x - 48)) with (10 * acc + (x - 48)) by lia.
    apply IH; assumption.
Qed.

(* ---------- printing ---------- *)
(* canonical: digits only, the right value, no leading zero except for "0" itself *)
Definition canonical (n : N) (ds : bytes) : Prop :=
  all_digits ds = true /\ dacc 0 ds = n /\
  ((n < 10 /\ ds = [48 + n]) \/ (10 <= n /\ exists c tl, ds = c :: tl /\ c <> 48 /\ tl <> [])).

Lemma all_digits_app l1 l2 : all_digits (l1 ++ l2) = all_digits l1 && all_digits l2.
Proof. apply forallb_app. Qed.

Lemma digits_fuel_spec f : forall n acc, f <> O -> n < 10 ^ N.of_nat f ->
  exists ds, digits_fuel f n acc = ds ++ acc /\ canonical n ds.
Proof.
  induction f as [|f IH]; intros n acc Hf Hn; [congruence|].
  cbn [digits_fuel]. destruct (n <? 10) eqn:E.
  - apply N.ltb_lt in E. exists [48 + n mod 10]. split; [reflexivity|].
    rewrite N.mod_small by exact E. split; [|split].
    + unfold all_digits. cbn [forallb]. rewrite is_digit_48 by exact E. reflexivity.
    + cbn [dacc fold_left]. lia.
    + left. auto.
  - apply N.ltb_ge in E.
    assert (Hf' : f <> O).
    { intros ->. cbn in Hn. lia. }
    assert (Hn' : n / 10 < 10 ^ N.of_nat f).
    { apply N.div_lt_upper_bound; [lia|]. rewrite Nat2N.inj_succ, N.pow_succ_r' in Hn. exact Hn. }
    destruct (IH (n / 10) ((48 + n mod 10) :: acc) Hf' Hn') as (ds' & Hds' & Hall & Hval & Hshape).
    exists (ds' ++ [48 + n mod 10]). split; [rewrite Hds', <- app_assoc; reflexivity|].
    pose proof (N.mod_lt n 10 ltac:(lia)) as Hm. pose proof (N.div_mod' n 10) as Hdm.
    split; [|split].
    + rewrite all_digits_app, Hall. unfold all_digits. cbn [forallb]. rewrite is_digit_48 by exact Hm. reflexivity.
    + rewrite dacc_app, Hval. cbn [dacc fold_left]. clear - Hm Hdm. set (q := n / 10) in *. set (r := n mod 10) in *. clearbody q r. lia.
    + right. split; [exact E|].
      destruct Hshape as [[Hlt ->]|[Hge (c & tl & -> & Hc & Htl)]].
      * exists (48 + n / 10), [48 + n mod 10]. split; [reflexivity|]. split; [|discriminate].
        assert (1 <= n / 10) by (apply N.div_le_lower_bound; lia). lia.
      * exists c, (tl ++ [48 + n mod 10]). split; [reflexivity|]. split; [exact Hc|].
        destruct tl; discriminate.
Qed.

Theorem dec_N_canonical n : n < 10 ^ 40 -> canonical n (dec_N n).
Proof.
  intros Hn. destruct (digits_fuel_spec 40 n [] ltac:(discriminate) Hn) as (ds & Hds & Hc).
  unfold dec_N. rewrite Hds, app_nil_r. exact Hc.
Qed.

(* consequences of canonicity *)
Lemma canonical_nonempty n ds : canonical n ds -> exists c tl, ds = c :: tl /\ is_digit c = true /\ all_digits tl = true.
Proof.
  intros (Hall & _ & [[_ ->]|[_ (c & tl & -> & _)]]).
  - cbn in Hall. apply andb_prop in Hall as [H _]. eauto.
  - cbn in Hall. apply andb_prop in Hall as [H1 H2]. eauto.
Qed.

Lemma dacc_lower l : forall acc, acc * 10 ^ N.of_nat (length l) <= dacc acc l.
Proof.
  induction l as [|x l IH]; intros acc; [cbn; lia|].
  cbn [length dacc fold_left]. fold (dacc (10 * acc + (x - 48)) l).
  rewrite Nat2N.inj_succ, N.pow_succ_r'. specialize (IH (10 * acc + (x - 48))). nia.
Qed.

Lemma dacc_upper l : forall acc, all_digits l = true -> dacc acc l < (acc + 1) * 10 ^ N.of_nat (length l).
Proof.
  induction l as [|x l IH]; intros acc Hd; [cbn; lia|].
  cbn [all_digits forallb] in Hd. apply andb_prop in Hd as [Hx Hd]. apply is_digit_range in Hx.
  cbn [length dacc fold_left]. fold (dacc (10 * acc + (x - 48)) l).
  rewrite Nat2N.inj_succ, N.pow_succ_r'. specialize (IH (10 * acc + (x - 48)) Hd). nia.
Qed.

(* the length of the canonical form is the number of decimal digits *)
Theorem canonical_length n ds : canonical n ds ->
  n < 10 ^ N.of_nat (length ds) /\ (10 <= n -> 10 ^ N.of_nat (length ds - 1) <= n).
Proof.
  intros (Hall & Hval & Hshape). split.
  - rewrite <- Hval. pose proof (dacc_upper ds 0 Hall). lia.
  - intros Hge. destruct Hshape as [[Hlt _]|[_ (c & tl & -> & Hc & _)]]; [lia|].
    cbn [length]. replace (S (length tl) - 1)%nat with (length tl) by lia.
    cbn [all_digits forallb] in Hall. apply andb_prop in Hall as [Hd _]. apply is_digit_range in Hd.
    rewrite <- Hval. cbn [dacc fold_left]. fold (dacc (10 * 0 + (c - 48)) tl).
    pose proof (dacc_lower tl (10 * 0 + (c - 48))). nia.
Qed.

Lemma dec_N_length_le n k : n < 10 ^ 40 -> k <> O -> n < 10 ^ N.of_nat k -> (1 <= length (dec_N n) <= k)%nat.
Proof.
  intros Hn Hk Hlt. pose proof (dec_N_canonical n Hn) as Hc.
  destruct (canonical_nonempty _ _ Hc) as (c & tl & E & _).
  destruct (canonical_length _ _ Hc) as [_ Hlow]. split; [rewrite E; cbn; lia|].
  destruct (N.lt_ge_cases n 10) as [H10|H10].
  - destruct Hc as (_ & _ & [[_ ->]|[Hge _]]); [cbn; lia|lia].
  - specialize (Hlow H10).
    assert (10 ^ N.of_nat (length (dec_N n) - 1) < 10 ^ N.of_nat k) by lia.
    apply N.pow_lt_mono_r_iff in H; lia.
Qed.

(* zero padding keeps digits and value *)
Lemma pad0_digits k ds : all_digits ds = true -> all_digits (pad0 k ds) = true.
Proof. intros H. induction k; [exact H|]. cbn [pad0 all_digits forallb]. fold (all_digits (pad0 k ds)). rewrite IHk. reflexivity. Qed.
Lemma pad0_val k ds : dacc 0 (pad0 k ds) = dacc 0 ds.
Proof. induction k; [reflexivity|]. cbn [pad0 dacc fold_left]. exact IHk. Qed.
Lemma pad0_length k ds : length (pad0 k ds) = (k + length ds)%nat.
Proof. induction k; [reflexivity|]. cbn [pad0 length]. lia. Qed.
Lemma pad0_nonempty k ds : ds <> [] -> pad0 k ds <> [].
Proof. intros H. destruct k; [exact H|discriminate]. Qed.

(* ---------- print then parse: signed, any width ---------- *)
Theorem to_i64_t_fmt_int w z rest :
  (Z.abs z < 2 ^ 63)%Z -> stops rest = true ->
  to_i64_t (fmt_int w z ++ rest) = Ok (z, rest).
Proof.
  intros Hz Hs. unfold fmt_int.
  assert (Hn : Z.abs_N z < 10 ^ 40) by (change (10 ^ 40) with 10000000000000000000000000000000000000000; lia).
  pose proof (dec_N_canonical _ Hn) as Hc. set (ds := dec_N (Z.abs_N z)) in *.
  destruct Hc as (Hall & Hval & Hshape).
  assert (Hne : ds <> []).
  { destruct Hshape as [[_ ->]|[_ (c & tl & -> & _)]]; discriminate. }
  destruct (z <? 0)%Z eqn:Ez.
  - apply Z.ltb_lt in Ez. set (k := (w - 1 - length ds)%nat).
    cbn [app to_i64_t]. change (is_digit 45) with false. change (45 =? 45) with true. cbn [orb].
    rewrite (to_u64_t2_digits (pad0 k ds) rest 0 (pad0_digits k ds Hall) Hs)
      by (rewrite pad0_val, Hval; unfold U64_LIM; lia).
    cbn [obind]. rewrite pad0_val, Hval.
    replace (Z.abs_N z <=? I64_MAX) with true by (symmetry; apply N.leb_le; unfold I64_MAX; lia).
    f_equal. f_equal. lia.
  - apply Z.ltb_ge in Ez. set (k := (w - length ds)%nat).
    pose proof (pad0_digits k ds Hall) as Hpd. pose proof (pad0_val k ds) as Hpv.
    pose proof (pad0_nonempty k ds Hne) as Hpn.
    destruct (pad0 k ds) as [|c data]; [congruence|].
    cbn [all_digits forallb] in Hpd. apply andb_prop in Hpd as [Hc Hd].
    cbn [app to_i64_t]. rewrite Hc. cbn [orb].
    pose proof (proj1 (is_digit_range c) Hc) as Hr.
    replace (c =? 45) with false by (symmetry; apply N.eqb_neq; lia).
    cbn [dacc fold_left] in Hpv. fold (dacc (10 * 0 + (c - 48)) data) in Hpv.
    replace (10 * 0 + (c - 48)) with (c - 48) in Hpv by lia.
    rewrite (to_u64_t2_digits data rest (c - 48) Hd Hs) by (rewrite Hpv, Hval; unfold U64_LIM; lia).
    cbn [obind]. rewrite Hpv, Hval.
    replace (Z.abs_N z <=? I64_MAX) with true by (symmetry; apply N.leb_le; unfold I64_MAX; lia).
    f_equal. f_equal. lia.
Qed.

(* unsigned: to_u64_t2 reads back exactly what dec_N printed *)
Theorem to_u64_t2_dec_N n rest :
  n < U64_LIM -> stops rest = true -> to_u64_t2 (dec_N n ++ rest) 0 = Ok (n, rest).
Proof.
  intros Hn Hs.
  assert (Hn' : n < 10 ^ 40) by (unfold U64_LIM in Hn; change (10 ^ 40) with 10000000000000000000000000000000000000000; lia).
  destruct (dec_N_canonical n Hn') as (Hall & Hval & _).
  rewrite (to_u64_t2_digits (dec_N n) rest 0 Hall Hs) by (rewrite Hval; exact Hn). rewrite Hval. reflexivity.
Qed.

Example dec_examples :
  dec_N 0 = [48] /\ dec_N 1444 = [49; 52; 52; 52] /\ fmt_int 2 7 = [48; 55] /\ fmt_int 4 (-3) = [45; 48; 48; 51] /\
  to_i64_t (fmt_int 0 (-32768) ++ [46; 49]) = Ok ((-32768)%Z, [46; 49]).
Proof. repeat split; vm_compute; reflexivity. Qed.
