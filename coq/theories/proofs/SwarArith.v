(* SWAR arithmetic facts for util.rs helpers modelled in U64Swar.v:
     fast_digit_parse_spec (via fdp_is_digits_spec + fdp_value_spec),
     count_chunk_spec (via repeat_byte_spec, bytewise_equal_spec, sum_usize_spec).
   Self-contained lane toolkit (words as lists of 8-bit lanes, [lw]); finite facts are
   checked by vm_compute over the complete byte domain (256 or 256x256 values). *)
From JV Require Import Bytes Tables U64Swar.
From Coq Require Import NArith ZArith Lia List Bool.
Import ListNotations. Open Scope N_scope.

(* lia on N with division / modulo by constants *)
Local Ltac Zify.zify_post_hook ::= Z.to_euclidean_division_equations.

(* ------------------------------------------------------------------ *)
(* Finite domains                                                      *)
(* ------------------------------------------------------------------ *)

Definition rangeN (n : nat) : list N := map N.of_nat (seq 0 n).

Lemma rangeN_In : forall n b, b < N.of_nat n -> In b (rangeN n).
Proof.
  intros n b H. unfold rangeN.
  rewrite <- (N2Nat.id b). apply in_map. apply in_seq. lia.
Qed.

Lemma all_below : forall (n : nat) (P : N -> bool),
  forallb P (rangeN n) = true -> forall b, b < N.of_nat n -> P b = true.
Proof.
  intros n P H b Hb. rewrite forallb_forall in H. apply H. now apply rangeN_In.
Qed.

Lemma all_bytes : forall P : N -> bool,
  forallb P (rangeN 256) = true -> forall b, b < 256 -> P b = true.
Proof. intros P H b Hb. apply (all_below 256 P H). exact Hb. Qed.

Lemma all_bytes2 : forall P : N -> N -> bool,
  forallb (fun a => forallb (P a) (rangeN 256)) (rangeN 256) = true ->
  forall a b, a < 256 -> b < 256 -> P a b = true.
Proof.
  intros P H a b Ha Hb.
  apply (all_bytes (P a)); [|exact Hb].
  apply (all_bytes (fun a => forallb (P a) (rangeN 256)) H a Ha).
Qed.

(* ------------------------------------------------------------------ *)
(* Lane toolkit                                                        *)
(* ------------------------------------------------------------------ *)

Lemma lane_bits : forall k a w n, a < 2 ^ k ->
  N.testbit (a + 2 ^ k * w) n = if n <? k then N.testbit a n else N.testbit w (n - k).
Proof.
  intros k a w n Ha. destruct (N.ltb_spec n k) as [Hn|Hn].
  - rewrite <- (N.mod_pow2_bits_low (a + 2 ^ k * w) k n) by assumption.
    f_equal. symmetry. apply N.mod_unique with (q := w); [assumption|lia].
  - replace n with (n - k + k) at 1 by lia.
    rewrite <- N.div_pow2_bits. f_equal. symmetry.
    apply N.div_unique with (r := a); [assumption|lia].
Qed.

Lemma high_bits_lt : forall k x, (forall n, k <= n -> N.testbit x n = false) -> x < 2 ^ k.
Proof.
  intros k x H.
  assert (E : x = x mod 2 ^ k).
  { apply N.bits_inj. intro n. destruct (N.lt_ge_cases n k).
    - now rewrite N.mod_pow2_bits_low.
    - rewrite N.mod_pow2_bits_high by assumption. now apply H. }
  rewrite E. apply N.mod_lt. apply N.pow_nonzero. lia.
Qed.

Lemma lt_high_bits : forall k x n, x < 2 ^ k -> k <= n -> N.testbit x n = false.
Proof.
  intros k x n Hx Hn. rewrite <- (N.mod_small x (2 ^ k)) by assumption.
  now apply N.mod_pow2_bits_high.
Qed.

Section BitOp.
  Variable op : N -> N -> N.
  Variable f : bool -> bool -> bool.
  Hypothesis f00 : f false false = false.
  Hypothesis op_spec : forall a b n, N.testbit (op a b) n = f (N.testbit a n) (N.testbit b n).

  Lemma op_lt : forall k a b, a < 2 ^ k -> b < 2 ^ k -> op a b < 2 ^ k.
  Proof.
    intros k a b Ha Hb. apply high_bits_lt. intros n Hn.
    now rewrite op_spec, (lt_high_bits k a n), (lt_high_bits k b n).
  Qed.

  Lemma op_lanes : forall k a a' b b', a < 2 ^ k -> b < 2 ^ k ->
    op (a + 2 ^ k * a') (b + 2 ^ k * b') = op a b + 2 ^ k * op a' b'.
  Proof.
    intros k a a' b b' Ha Hb. apply N.bits_inj. intro n.
    rewrite op_spec, !lane_bits by (try apply op_lt; assumption).
    destruct (n <? k); now rewrite op_spec.
  Qed.
End BitOp.

Definition land_lanes := op_lanes N.land andb eq_refl N.land_spec.
Definition lor_lanes := op_lanes N.lor orb eq_refl N.lor_spec.
Definition lxor_lanes := op_lanes N.lxor xorb eq_refl N.lxor_spec.
Definition land_lt := op_lt N.land andb eq_refl N.land_spec.
Definition lor_lt := op_lt N.lor orb eq_refl N.lor_spec.
Definition lxor_lt := op_lt N.lxor xorb eq_refl N.lxor_spec.

(* ------------------------------------------------------------------ *)
(* Words as lists of 8-bit lanes                                       *)
(* ------------------------------------------------------------------ *)

Fixpoint lw (bs : list N) : N :=
  match bs with [] => 0 | b :: r => b + 256 * lw r end.

Definition lanes (bs : list N) : Prop := Forall (fun b => b < 256) bs.

Definition bytes8 (bs : list N) : Prop := length bs = 8%nat /\ Forall (fun b => b < 256) bs.

Fixpoint map2 {A B C} (f : A -> B -> C) (xs : list A) (ys : list B) : list C :=
  match xs, ys with
  | x :: xs', y :: ys' => f x y :: map2 f xs' ys'
  | _, _ => []
  end.

Lemma le_word_lw : forall bs, length bs = 8%nat -> le_word 8 bs = lw bs.
Proof.
  intros bs H.
  do 8 (destruct bs as [|? bs]; [discriminate H|]).
  destruct bs; [reflexivity|discriminate H].
Qed.

Lemma lw_lt : forall bs, lanes bs -> lw bs < 256 ^ N.of_nat (length bs).
Proof.
  induction 1 as [|b r Hb Hr IH]; [reflexivity|].
  cbn [lw length]. rewrite Nat2N.inj_succ, N.pow_succ_r'. lia.
Qed.

Lemma lw_lt8 : forall bs, lanes bs -> length bs = 8%nat -> lw bs < W64.
Proof. intros bs H L. generalize (lw_lt bs H). rewrite L. trivial. Qed.

Lemma lw_inj : forall xs ys, lanes xs -> lanes ys -> length xs = length ys ->
  lw xs = lw ys -> xs = ys.
Proof.
  induction xs as [|x xs IH]; intros [|y ys] Hx Hy L E; try discriminate L; [reflexivity|].
  inversion Hx; inversion Hy; subst. cbn [lw] in E.
  assert (x = y) by lia. subst y.
  f_equal. apply IH; auto. lia.
Qed.

Lemma lw_add : forall xs ys, length xs = length ys ->
  lw xs + lw ys = lw (map2 N.add xs ys).
Proof.
  induction xs as [|x xs IH]; intros [|y ys] L; try discriminate L; [reflexivity|].
  cbn [lw map2]. rewrite <- IH by (now injection L). lia.
Qed.

Section LwOp.
  Variable op : N -> N -> N.
  Hypothesis op00 : op 0 0 = 0.
  Hypothesis oplanes : forall a a' b b', a < 256 -> b < 256 ->
    op (a + 256 * a') (b + 256 * b') = op a b + 256 * op a' b'.
  Hypothesis oplt : forall a b, a < 256 -> b < 256 -> op a b < 256.

  Lemma lw_op : forall xs ys, lanes xs -> lanes ys -> length xs = length ys ->
    op (lw xs) (lw ys) = lw (map2 op xs ys).
  Proof.
    induction xs as [|x xs IH]; intros [|y ys] Hx Hy L; try discriminate L; [exact op00|].
    inversion Hx; inversion Hy; subst. cbn [lw map2].
    rewrite oplanes by assumption. rewrite IH; auto.
  Qed.

  Lemma lanes_op : forall xs ys, lanes xs -> lanes ys -> lanes (map2 op xs ys).
  Proof.
    induction xs as [|x xs IH]; intros [|y ys] Hx Hy; try constructor;
      inversion Hx; inversion Hy; subst; auto. now apply IH.
  Qed.
End LwOp.

Definition lw_land := lw_op N.land eq_refl (land_lanes 8).
Definition lw_lor := lw_op N.lor eq_refl (lor_lanes 8).
Definition lw_lxor := lw_op N.lxor eq_refl (lxor_lanes 8).
Definition lanes_land := lanes_op N.land (land_lt 8).
Definition lanes_lor := lanes_op N.lor (lor_lt 8).
Definition lanes_lxor := lanes_op N.lxor (lxor_lt 8).

(* ------------------------------------------------------------------ *)
(* bytewise_equal                                                      *)
(* ------------------------------------------------------------------ *)

(* x >> 7 in lane form: bit 7 of lane i lands on bit 0 of lane i, bits 1..7 of
   lane i receive the low 7 bits of lane i+1 *)
Fixpoint shr7l (ys : list N) : list N :=
  match ys with
  | [] => []
  | y :: r => (y / 128 + 2 * (hd 0 r mod 128)) :: shr7l r
  end.

Lemma lw_shr7 : forall ys, lanes ys -> wshr (lw ys) 7 = lw (shr7l ys).
Proof.
  unfold wshr. intros ys H. rewrite N.shiftr_div_pow2. change (2 ^ 7) with 128.
  induction H as [|y r Hy Hr IH]; [reflexivity|].
  cbn [lw shr7l]. rewrite <- IH.
  destruct Hr as [|y1 r1 Hy1 Hr1]; cbn [lw hd]; lia.
Qed.

Lemma lanes_shr7 : forall ys, lanes ys -> lanes (shr7l ys).
Proof.
  induction 1 as [|y r Hy Hr IH]; [constructor|].
  cbn [shr7l]. constructor; [|exact IH]. lia.
Qed.

Lemma wnot_lanes : forall zs, lanes zs -> length zs = 8%nat ->
  wnot (lw zs) = lw (map (fun z => 255 - z) zs).
Proof.
  intros zs H L. unfold wnot, w64. rewrite N.mod_small by (now apply lw_lt8).
  do 8 (destruct zs as [|? zs]; [discriminate L|]).
  destruct zs; [|discriminate L].
  repeat match goal with H : lanes _ |- _ => inversion H; clear H; subst | H : Forall _ _ |- _ => inversion H; clear H; subst end.
  cbn [lw map]. unfold W64. lia.
Qed.

Ltac inv_lanes :=
  repeat match goal with
         | H : lanes (_ :: _) |- _ => inversion H; clear H; subst
         | H : Forall _ (_ :: _) |- _ => inversion H; clear H; subst
         | H : lanes [] |- _ => clear H
         | H : Forall _ [] |- _ => clear H
         end.

Ltac list8 bs L :=
  do 8 (destruct bs as [|? bs]; [discriminate L|]);
  destruct bs; [|discriminate L].

Definition eqb01 (x y : N) : N := if x =? y then 1 else 0.

(* per-lane carry-free step of bytewise_equal *)
Definition beq_g (x : N) : N := N.lor (N.land x 127 + 127) x.

Lemma beq_add_lt : forall x, x < 256 -> N.land x 127 + 127 < 256.
Proof.
  intros x H. apply N.ltb_lt.
  apply (all_bytes (fun x => N.land x 127 + 127 <? 256)); [vm_compute; reflexivity|exact H].
Qed.

Lemma beq_g_lt : forall x, x < 256 -> beq_g x < 256.
Proof.
  intros x H. apply N.ltb_lt.
  apply (all_bytes (fun x => beq_g x <? 256)); [vm_compute; reflexivity|exact H].
Qed.

Lemma beq_lane : forall x y, x < 256 -> y < 256 ->
  N.land (255 - (beq_g x / 128 + 2 * (y mod 128))) 1 = if x =? 0 then 1 else 0.
Proof.
  intros x y Hx Hy. apply N.eqb_eq.
  apply (all_bytes2 (fun x y => N.land (255 - (beq_g x / 128 + 2 * (y mod 128))) 1 =? if x =? 0 then 1 else 0));
    [vm_compute; reflexivity|exact Hx|exact Hy].
Qed.

Lemma c_lo : u64_max / 255 = lw [1;1;1;1;1;1;1;1].
Proof. vm_compute. reflexivity. Qed.
Lemma c_nhi : wnot (wshl (u64_max / 255) 7) = lw [127;127;127;127;127;127;127;127].
Proof. vm_compute. reflexivity. Qed.

Lemma lanes_const8 : forall m, m < 256 -> lanes [m;m;m;m;m;m;m;m].
Proof. intros. repeat constructor; assumption. Qed.

Lemma lanes_not : forall zs, lanes (map (fun z => 255 - z) zs).
Proof. induction zs; constructor; [lia|assumption]. Qed.

Lemma beq_core : forall X, lanes X -> length X = 8%nat ->
  N.land (wnot (wshr (N.lor (wadd (N.land (lw X) (wnot (wshl (u64_max / 255) 7)))
                                  (wnot (wshl (u64_max / 255) 7))) (lw X)) 7)) (u64_max / 255)
  = lw (map (fun x => if x =? 0 then 1 else 0) X).
Proof.
  intros X H L. rewrite c_nhi, c_lo.
  list8 X L. inv_lanes.
  assert (K127 : lanes [127;127;127;127;127;127;127;127]) by (apply lanes_const8; lia).
  assert (K1 : lanes [1;1;1;1;1;1;1;1]) by (apply lanes_const8; lia).
  rewrite lw_land by (try reflexivity; try assumption; repeat constructor; assumption).
  cbn [map2].
  unfold wadd, w64. rewrite lw_add by reflexivity. cbn [map2].
  rewrite N.mod_small
    by (apply lw_lt8; [repeat constructor; apply beq_add_lt; assumption|reflexivity]).
  rewrite lw_lor
    by (try reflexivity; repeat constructor; try apply beq_add_lt; assumption).
  cbn [map2]. fold (beq_g n). fold (beq_g n0). fold (beq_g n1). fold (beq_g n2).
  fold (beq_g n3). fold (beq_g n4). fold (beq_g n5). fold (beq_g n6).
  assert (G : lanes [beq_g n; beq_g n0; beq_g n1; beq_g n2; beq_g n3; beq_g n4; beq_g n5; beq_g n6])
    by (repeat constructor; apply beq_g_lt; assumption).
  rewrite lw_shr7 by exact G.
  rewrite wnot_lanes by (try reflexivity; apply lanes_shr7; exact G).
  rewrite lw_land; [|apply lanes_not|exact K1|reflexivity].
  cbn [shr7l map map2 hd].
  rewrite !beq_lane by (try assumption; try apply beq_g_lt; try assumption; lia).
  reflexivity.
Qed.

Lemma map2_length : forall {A B C} (f : A -> B -> C) xs ys,
  length xs = length ys -> length (map2 f xs ys) = length xs.
Proof.
  induction xs as [|x xs IH]; intros [|y ys] L; try discriminate L; [reflexivity|].
  cbn [map2 length]. f_equal. apply IH. now injection L.
Qed.

Lemma map_map2 : forall {A B C D} (g : C -> D) (f : A -> B -> C) xs ys,
  map g (map2 f xs ys) = map2 (fun x y => g (f x y)) xs ys.
Proof.
  induction xs as [|x xs IH]; intros [|y ys]; try reflexivity.
  cbn [map2 map]. now rewrite IH.
Qed.

Lemma map2_ext : forall {A B C} (f g : A -> B -> C), (forall x y, f x y = g x y) ->
  forall xs ys, map2 f xs ys = map2 g xs ys.
Proof.
  intros A B C f g E. induction xs as [|x xs IH]; intros [|y ys]; try reflexivity.
  cbn [map2]. now rewrite E, IH.
Qed.

Theorem bytewise_equal_spec : forall xs ys, bytes8 xs -> bytes8 ys ->
  bytewise_equal (le_word 8 xs) (le_word 8 ys) =
  le_word 8 (map2 (fun x y => if x =? y then 1 else 0) xs ys).
Proof.
  intros xs ys [Lx Hx] [Ly Hy].
  rewrite !le_word_lw by (try assumption; rewrite map2_length; congruence).
  unfold bytewise_equal. cbv zeta.
  rewrite lw_lxor by (try assumption; congruence).
  rewrite beq_core; [|apply lanes_lxor; assumption|rewrite map2_length; congruence].
  rewrite map_map2. f_equal. apply map2_ext. intros x y.
  destruct (N.eqb_spec x y) as [->|Hne].
  - now rewrite N.lxor_nilpotent.
  - destruct (N.eqb_spec (N.lxor x y) 0) as [E|]; [|reflexivity].
    apply N.lxor_eq in E. contradiction.
Qed.
Print Assumptions bytewise_equal_spec.

(* ------------------------------------------------------------------ *)
(* repeat_byte, sum_usize, count_chunk                                 *)
(* ------------------------------------------------------------------ *)

Lemma repeat_byte_spec : forall c, c < 256 -> repeat_byte c = le_word 8 (repeat c 8).
Proof.
  intros c H. unfold repeat_byte, wmul, w64.
  change (u64_max / 255) with 72340172838076673.
  cbn [repeat le_word]. unfold W64. lia.
Qed.

Definition sumN (bs : list N) : N := fold_right N.add 0 bs.

Lemma c_eob_lo : u64_max / 65535 = 281479271743489.
Proof. vm_compute. reflexivity. Qed.
Lemma c_eob : wmul (u64_max / 65535) 255 = lw [255;0;255;0;255;0;255;0].
Proof. vm_compute. reflexivity. Qed.

Lemma land_255 : forall x, x < 256 -> N.land x 255 = x.
Proof.
  intros x H. change 255 with (N.ones 8). rewrite N.land_ones.
  apply N.mod_small. exact H.
Qed.

Lemma shr8_lanes : forall b r, b < 256 -> wshr (lw (b :: r)) 8 = lw r.
Proof.
  intros b r H. unfold wshr. rewrite N.shiftr_div_pow2. change (2 ^ 8) with 256.
  cbn [lw]. lia.
Qed.

Lemma sum_core : forall p0 p1 p2 p3, p0 <= 510 -> p1 <= 510 -> p2 <= 510 -> p3 <= 510 ->
  ((p0 + 65536 * p1 + 4294967296 * p2 + 281474976710656 * p3) * 281479271743489)
    mod 18446744073709551616 / 281474976710656 = p0 + p1 + p2 + p3.
Proof.
  intros p0 p1 p2 p3 H0 H1 H2 H3.
  rewrite <- (N.mod_unique _ 18446744073709551616
                ((p1 + p2 + p3) + 65536 * (p2 + p3) + 4294967296 * p3)
                (p0 + 65536 * (p0 + p1) + 4294967296 * (p0 + p1 + p2)
                 + 281474976710656 * (p0 + p1 + p2 + p3))); [|lia|lia].
  symmetry.
  apply N.div_unique with (r := p0 + 65536 * (p0 + p1) + 4294967296 * (p0 + p1 + p2)); lia.
Qed.

Theorem sum_usize_spec : forall bs, bytes8 bs -> sum_usize (le_word 8 bs) = sumN bs.
Proof.
  intros bs [L H]. rewrite le_word_lw by assumption.
  unfold sum_usize. cbv zeta. rewrite c_eob, c_eob_lo.
  list8 bs L. inv_lanes.
  rewrite shr8_lanes by assumption.
  change (lw [n0; n1; n2; n3; n4; n5; n6]) with (lw [n0; n1; n2; n3; n4; n5; n6; 0]).
  rewrite !lw_land by (try reflexivity; repeat constructor; try assumption; lia).
  cbn [map2]. rewrite !N.land_0_r, !land_255 by assumption.
  unfold wadd, wmul, wshr, w64, W64. rewrite N.shiftr_div_pow2.
  change (2 ^ 48) with 281474976710656.
  cbn [lw sumN fold_right].
  rewrite (N.mod_small (_ + _)) by lia.
  match goal with |- context [(?A * 281479271743489)] => replace A
    with ((n + n0) + 65536 * (n1 + n2) + 4294967296 * (n3 + n4) + 281474976710656 * (n5 + n6)) by lia end.
  rewrite sum_core by lia. lia.
Qed.
Print Assumptions sum_usize_spec.

Lemma bytes8_repeat : forall c, c < 256 -> bytes8 (repeat c 8).
Proof. intros c H. split; [reflexivity|]. cbn [repeat]. repeat constructor; assumption. Qed.

Lemma lanes_eqb01 : forall xs ys,
  lanes (map2 (fun x y => if x =? y then 1 else 0) xs ys).
Proof.
  induction xs as [|x xs IH]; intros [|y ys]; try constructor; [|apply IH].
  destruct (x =? y); lia.
Qed.

Lemma sum_eqb01 : forall bs c,
  sumN (map2 (fun x y => if x =? y then 1 else 0) bs (repeat c (length bs))) =
  N.of_nat (length (filter (fun b => b =? c) bs)).
Proof.
  induction bs as [|b bs IH]; intro c; [reflexivity|].
  cbn [length repeat map2 sumN fold_right filter]. fold (sumN (map2 (fun x y => if x =? y then 1 else 0) bs (repeat c (length bs)))).
  rewrite IH. destruct (b =? c); cbn [length]; lia.
Qed.

Theorem count_chunk_spec : forall bs c, bytes8 bs -> c < 256 ->
  count_chunk (le_word 8 bs) c = N.of_nat (length (filter (fun b => b =? c) bs)).
Proof.
  intros bs c Hb Hc. unfold count_chunk.
  rewrite repeat_byte_spec by assumption.
  rewrite bytewise_equal_spec by (try assumption; now apply bytes8_repeat).
  destruct Hb as [L H].
  rewrite sum_usize_spec.
  - rewrite <- L. apply sum_eqb01.
  - split; [|apply lanes_eqb01]. rewrite map2_length; [exact L|now rewrite L].
Qed.
Print Assumptions count_chunk_spec.

(* ------------------------------------------------------------------ *)
(* fast_digit_parse: the is-digits test                                *)
(* ------------------------------------------------------------------ *)

(* val + 0x0606..06 with explicit inter-lane carries *)
Fixpoint addc6 (bs : list N) (c : N) : list N :=
  match bs with
  | [] => []
  | b :: r => (b + 6 + c) mod 256 :: addc6 r ((b + 6 + c) / 256)
  end.

Fixpoint cout6 (bs : list N) (c : N) : N :=
  match bs with
  | [] => c
  | b :: r => cout6 r ((b + 6 + c) / 256)
  end.

Lemma addc6_sum : forall bs c,
  lw bs + lw (repeat 6 (length bs)) + c =
  lw (addc6 bs c) + 256 ^ N.of_nat (length bs) * cout6 bs c.
Proof.
  induction bs as [|b r IH]; intro c.
  - cbn [length repeat lw addc6 cout6 N.of_nat]. change (256 ^ 0) with 1. lia.
  - cbn [length repeat lw addc6 cout6].
    rewrite Nat2N.inj_succ, N.pow_succ_r'.
    specialize (IH ((b + 6 + c) / 256)).
    set (P := 256 ^ N.of_nat (length r)) in *.
    set (K := cout6 r ((b + 6 + c) / 256)) in *.
    assert (E : 256 * P * K = 256 * (P * K)) by lia.
    rewrite E. generalize dependent (P * K). intros PK IH.
    generalize (N.div_mod (b + 6 + c) 256). lia.
Qed.

Lemma lanes_addc6 : forall bs c, lanes (addc6 bs c).
Proof.
  induction bs as [|b r IH]; intro c; constructor; [|apply IH].
  apply N.mod_lt. lia.
Qed.

Lemma addc6_length : forall bs c, length (addc6 bs c) = length bs.
Proof. induction bs as [|b r IH]; intro c; [reflexivity|]. cbn [addc6 length]. now rewrite IH. Qed.

Lemma wadd6_lanes : forall bs, length bs = 8%nat ->
  wadd (lw bs) (lw (repeat 6 8)) = lw (addc6 bs 0).
Proof.
  intros bs L. unfold wadd, w64.
  generalize (addc6_sum bs 0). rewrite L. intro E. rewrite N.add_0_r in E.
  rewrite E. change (256 ^ N.of_nat 8) with W64.
  rewrite (N.mul_comm W64), N.mod_add by discriminate.
  apply N.mod_small. apply lw_lt8; [apply lanes_addc6|]. now rewrite addc6_length.
Qed.

(* x >> 4 on a word whose lanes are multiples of 16 *)
Lemma lw_div16 : forall xs, Forall (fun x => x mod 16 = 0) xs ->
  lw xs = 16 * lw (map (fun x => x / 16) xs).
Proof.
  induction 1 as [|x r Hx Hr IH]; [reflexivity|].
  cbn [lw map]. rewrite IH at 1. generalize (N.div_mod x 16). lia.
Qed.

Lemma lw_shr4 : forall xs, Forall (fun x => x mod 16 = 0) xs ->
  wshr (lw xs) 4 = lw (map (fun x => x / 16) xs).
Proof.
  intros xs H. unfold wshr. rewrite N.shiftr_div_pow2. change (2 ^ 4) with 16.
  rewrite (lw_div16 xs H). rewrite N.mul_comm. apply N.div_mul. discriminate.
Qed.

Lemma land240_mod16 : forall x, x < 256 -> N.land x 240 mod 16 = 0.
Proof.
  intros x H. apply N.eqb_eq.
  apply (all_bytes (fun x => N.land x 240 mod 16 =? 0)); [vm_compute; reflexivity|exact H].
Qed.

Lemma map2_repeat : forall {A B C} (f : A -> B -> C) xs m,
  map2 f xs (repeat m (length xs)) = map (fun x => f x m) xs.
Proof.
  induction xs as [|x xs IH]; intro m; [reflexivity|].
  cbn [length repeat map2 map]. now rewrite IH.
Qed.

Lemma lanes_repeat : forall m n, m < 256 -> lanes (repeat m n).
Proof. intros m n H. induction n; constructor; assumption. Qed.

(* the compared word, lane by lane, carries made explicit *)
Definition fdp_lane (b c : N) : N :=
  N.lor (N.land b 240) (N.land ((b + 6 + c) mod 256) 240 / 16).

Fixpoint fdp_tst (bs : list N) (c : N) : list N :=
  match bs with
  | [] => []
  | b :: r => fdp_lane b c :: fdp_tst r ((b + 6 + c) / 256)
  end.

Lemma fdp_tst_eq : forall bs c,
  map2 N.lor (map (fun x => N.land x 240) bs)
             (map (fun x => x / 16) (map (fun x => N.land x 240) (addc6 bs c)))
  = fdp_tst bs c.
Proof.
  induction bs as [|b r IH]; intro c; [reflexivity|].
  cbn [addc6 map map2 fdp_tst]. now rewrite IH.
Qed.

Lemma c_mask_hi : fdp_mask_hi = lw (repeat 240 8).
Proof. vm_compute. reflexivity. Qed.
Lemma c_add6 : fdp_add6 = lw (repeat 6 8).
Proof. vm_compute. reflexivity. Qed.
Lemma c_threes : fdp_threes = lw (repeat 51 8).
Proof. vm_compute. reflexivity. Qed.

Lemma fdp_test_word : forall bs, lanes bs -> length bs = 8%nat ->
  N.lor (N.land (lw bs) fdp_mask_hi)
        (wshr (N.land (wadd (lw bs) fdp_add6) fdp_mask_hi) 4) = lw (fdp_tst bs 0).
Proof.
  intros bs H L. rewrite c_mask_hi, c_add6.
  rewrite wadd6_lanes by exact L.
  assert (L' : length (addc6 bs 0) = 8%nat) by (now rewrite addc6_length).
  rewrite !lw_land; try (apply lanes_repeat; lia); try (rewrite repeat_length; congruence);
    try assumption; try apply lanes_addc6.
  assert (E1 : map2 N.land bs (repeat 240 8) = map (fun x => N.land x 240) bs)
    by (rewrite <- L; apply map2_repeat).
  assert (E2 : map2 N.land (addc6 bs 0) (repeat 240 8) = map (fun x => N.land x 240) (addc6 bs 0))
    by (rewrite <- L'; apply map2_repeat).
  rewrite E1, E2.
  rewrite lw_shr4.
  2:{ apply Forall_map. eapply Forall_impl; [|apply (lanes_addc6 bs 0)].
      intros a Ha. now apply land240_mod16. }
  rewrite lw_lor.
  - now rewrite fdp_tst_eq.
  - apply Forall_map. eapply Forall_impl; [|exact H]. intros a Ha. apply (land_lt 8); [exact Ha|reflexivity].
  - apply Forall_map. apply Forall_map. eapply Forall_impl; [|apply (lanes_addc6 bs 0)].
    intros a Ha. cbv beta.
    assert (N.land a 240 < 256) by (apply (land_lt 8); [exact Ha|reflexivity]). lia.
  - rewrite !map_length. congruence.
Qed.

(* per-lane facts, checked on all 256 byte values, carry-in 0 *)
Lemma fdp_lane_facts : forall b, b < 256 ->
  fdp_lane b 0 < 256 /\
  (is_digit b = true -> fdp_lane b 0 = 51 /\ (b + 6 + 0) / 256 = 0) /\
  (is_digit b = false -> fdp_lane b 0 <> 51).
Proof.
  intros b H.
  assert (K := all_bytes (fun b => (fdp_lane b 0 <? 256) &&
     (if is_digit b then (fdp_lane b 0 =? 51) && ((b + 6 + 0) / 256 =? 0)
      else negb (fdp_lane b 0 =? 51))) ltac:(vm_compute; reflexivity) b H).
  cbv beta in K. apply andb_true_iff in K. destruct K as [K1 K2].
  apply N.ltb_lt in K1. split; [exact K1|].
  destruct (is_digit b).
  - apply andb_true_iff in K2. destruct K2 as [K2 K3].
    apply N.eqb_eq in K2. apply N.eqb_eq in K3. split; [auto|discriminate].
  - apply negb_true_iff, N.eqb_neq in K2. split; [discriminate|auto].
Qed.

Lemma fdp_tst_digits : forall bs, lanes bs ->
  (lw (fdp_tst bs 0) =? lw (repeat 51 (length bs))) = forallb is_digit bs.
Proof.
  induction 1 as [|b r Hb Hr IH]; [reflexivity|].
  cbn [fdp_tst length repeat lw forallb].
  destruct (fdp_lane_facts b Hb) as (Hlt & Hd & Hn).
  destruct (is_digit b) eqn:D.
  - destruct (Hd eq_refl) as [E1 E2]. rewrite E1, E2. cbn [andb]. rewrite <- IH.
    destruct (N.eqb_spec (lw (fdp_tst r 0)) (lw (repeat 51 (length r)))) as [E|E].
    + rewrite E. apply N.eqb_refl.
    + apply N.eqb_neq. lia.
  - cbn [andb]. apply N.eqb_neq. specialize (Hn eq_refl). lia.
Qed.

Theorem fdp_is_digits_spec : forall bs, bytes8 bs ->
  (N.lor (N.land (le_word 8 bs) fdp_mask_hi)
         (wshr (N.land (wadd (le_word 8 bs) fdp_add6) fdp_mask_hi) 4) =? fdp_threes)
  = forallb is_digit bs.
Proof.
  intros bs [L H]. rewrite le_word_lw by exact L.
  rewrite fdp_test_word by assumption.
  rewrite c_threes, <- L. now apply fdp_tst_digits.
Qed.
Print Assumptions fdp_is_digits_spec.

(* ------------------------------------------------------------------ *)
(* fast_digit_parse: the three multiply-shift steps                    *)
(* ------------------------------------------------------------------ *)

Lemma modshr : forall x m s q R r Q,
  x = m * q + R -> R < m -> R = s * Q + r -> r < s -> (x mod m) / s = Q.
Proof.
  intros x m s q R r Q E1 H1 E2 H2.
  rewrite <- (N.mod_unique x m q R H1 E1).
  symmetry. now apply N.div_unique with (r := r).
Qed.

Lemma c_mask_lo : fdp_mask_lo = lw (repeat 15 8).
Proof. vm_compute. reflexivity. Qed.
Lemma c_mask2 : fdp_mask2 = lw [255;0;255;0;255;0;255;0].
Proof. vm_compute. reflexivity. Qed.
Lemma c_mask3 : fdp_mask3 = 65535 + 2 ^ 32 * 65535.
Proof. vm_compute. reflexivity. Qed.

Lemma digit_low_nibble : forall b, b < 256 -> is_digit b = true ->
  N.land b 15 = b - 48 /\ 48 <= b <= 57.
Proof.
  intros b H D.
  assert (K := all_bytes (fun b => implb (is_digit b)
     ((N.land b 15 =? b - 48) && (48 <=? b) && (b <=? 57))) ltac:(vm_compute; reflexivity) b H).
  cbv beta in K. rewrite D in K. cbn [implb] in K.
  apply andb_true_iff in K. destruct K as [K K3].
  apply andb_true_iff in K. destruct K as [K1 K2].
  apply N.eqb_eq in K1. apply N.leb_le in K2. apply N.leb_le in K3. auto.
Qed.

Lemma fdp_stage1 : forall d0 d1 d2 d3 d4 d5 d6 d7,
  d0 <= 9 -> d1 <= 9 -> d2 <= 9 -> d3 <= 9 -> d4 <= 9 -> d5 <= 9 -> d6 <= 9 -> d7 <= 9 ->
  wshr (wmul (lw [d0;d1;d2;d3;d4;d5;d6;d7]) fdp_mul1) 8 =
  lw [10*d0+d1; 10*d1+d2; 10*d2+d3; 10*d3+d4; 10*d4+d5; 10*d5+d6; 10*d6+d7; 0].
Proof.
  intros. unfold wshr, wmul, w64, W64. rewrite N.shiftr_div_pow2.
  change (2 ^ 8) with 256. change fdp_mul1 with 2561.
  apply modshr with (q := 10 * d7)
    (R := d0 + 256 * lw [10*d0+d1; 10*d1+d2; 10*d2+d3; 10*d3+d4; 10*d4+d5; 10*d5+d6; 10*d6+d7; 0])
    (r := d0); cbn [lw]; lia.
Qed.

Lemma fdp_stage2 : forall p0 p1 p2 p3, p0 <= 99 -> p1 <= 99 -> p2 <= 99 -> p3 <= 99 ->
  wshr (wmul (lw [p0;0;p1;0;p2;0;p3;0]) fdp_mul2) 16 =
  ((100*p0+p1) + 65536 * (100*p1+p2)) + 2 ^ 32 * (100*p2+p3).
Proof.
  intros. unfold wshr, wmul, w64, W64. rewrite N.shiftr_div_pow2.
  change (2 ^ 16) with 65536. change (2 ^ 32) with 4294967296. change fdp_mul2 with 6553601.
  apply modshr with (q := 100 * p3)
    (R := p0 + 65536 * ((100*p0+p1) + 65536 * (100*p1+p2) + 4294967296 * (100*p2+p3)))
    (r := p0); cbn [lw]; lia.
Qed.

Lemma fdp_stage3 : forall q0 q1, q0 <= 9999 -> q1 <= 9999 ->
  wshr (wmul (q0 + 2 ^ 32 * q1) fdp_mul3) 32 = 10000 * q0 + q1.
Proof.
  intros. unfold wshr, wmul, w64, W64. rewrite N.shiftr_div_pow2.
  change (2 ^ 32) with 4294967296. change fdp_mul3 with 42949672960001.
  apply modshr with (q := 10000 * q1)
    (R := q0 + 4294967296 * (10000 * q0 + q1))
    (r := q0); lia.
Qed.

Lemma land_65535 : forall x, N.land x 65535 = x mod 65536.
Proof. intro x. change 65535 with (N.ones 16). now rewrite N.land_ones. Qed.

Theorem fdp_value_spec : forall bs, bytes8 bs -> forallb is_digit bs = true ->
  wshr (wmul (N.land
    (wshr (wmul (N.land
      (wshr (wmul (N.land (le_word 8 bs) fdp_mask_lo) fdp_mul1) 8)
      fdp_mask2) fdp_mul2) 16)
    fdp_mask3) fdp_mul3) 32
  = fold_left (fun a x => a * 10 + (x - 48)) bs 0.
Proof.
  intros bs [L H] D. rewrite le_word_lw by exact L.
  list8 bs L. inv_lanes.
  cbn [forallb] in D.
  repeat match type of D with (_ && _ = true) => apply andb_true_iff in D; destruct D as [? D] end.
  clear D.
  repeat match goal with
         | Hb : ?b < 256, Hd : is_digit ?b = true |- _ =>
           destruct (digit_low_nibble b Hb Hd) as [? [? ?]]; clear Hd
         end.
  rewrite c_mask_lo. cbn [repeat].
  rewrite lw_land by (try reflexivity; repeat constructor; try assumption; lia).
  cbn [map2].
  repeat match goal with E : N.land ?b 15 = _ |- _ => rewrite E; clear E end.
  rewrite fdp_stage1 by lia.
  rewrite c_mask2.
  rewrite lw_land by (try reflexivity; repeat constructor; lia).
  cbn [map2]. rewrite !N.land_0_r, !land_255 by lia.
  rewrite fdp_stage2 by lia.
  rewrite c_mask3.
  rewrite (land_lanes 32) by (change (2 ^ 32) with 4294967296; lia).
  rewrite !land_65535.
  match goal with |- context [(?A + 65536 * ?B) mod 65536] =>
    replace ((A + 65536 * B) mod 65536) with A by lia end.
  rewrite (N.mod_small (_ + _) 65536) by lia.
  rewrite fdp_stage3 by lia.
  cbn [fold_left]. lia.
Qed.
Print Assumptions fdp_value_spec.

Theorem fast_digit_parse_spec : forall bs, bytes8 bs ->
  fast_digit_parse (le_word 8 bs) =
  if forallb is_digit bs then Some (fold_left (fun a x => a * 10 + (x - 48)) bs 0) else None.
Proof.
  intros bs Hb. unfold fast_digit_parse. cbv zeta.
  rewrite fdp_is_digits_spec by exact Hb.
  destruct (forallb is_digit bs) eqn:D; cbn [negb]; [|reflexivity].
  f_equal. now apply fdp_value_spec.
Qed.
Print Assumptions fast_digit_parse_spec.

(* sanity: b"14441111" parses to 14441111 (first byte = most significant digit) *)
Example fdp_example : fast_digit_parse (le_word 8 [49;52;52;52;49;49;49;49]) = Some 14441111.
Proof. vm_compute. reflexivity. Qed.
Example count_chunk_example : count_chunk (le_word 8 [10;1;10;255;0;10;9;11]) 10 = 3.
Proof. vm_compute. reflexivity. Qed.
