(* C05, binary TAPE deserializer walk: the facts about BinTape.parse's output that the walk needs
   beyond BinTapeWf.tape_wf (definitions; proofs in NoCrashTapeWalksInv.v, use in NoCrashTapeWalksBin.v).

   tok_ok     payloads are real: an I32 token is in the i32 range, string tokens hold bytes < 256
   kvgood b l the key/value walk of BinaryMap::next_key_seed over the value sequence l (laid out from
              absolute index b) never looks past the end of l:
                 - l is empty, or
                 - the token in key position is a container / End (KeyDeserializer refuses it: the walk
                   stops with an error) and at least one more token follows (`tokens[key + 1]` exists), or
                 - the key is a scalar, a complete value v follows it (one token, or a container whose
                   stored end is the index of v's last token), and the rest is kvgood again.
              NOTE the top level of an accepted tape is NOT always a sequence of key/value PAIRS
              (`a b c {}` parses to  Mixed a b c Array End  -- five values): what holds is kvgood. *)
From JV.proofs Require Import SwarLanes.
From JV Require Import Bytes Tables Date BinPrim BinTape BinTapeWf SerdeShape.
From Coq Require Import List NArith ZArith Bool Lia Arith.
Import ListNotations.
Open Scope nat_scope.

Definition tok_ok (x : tok) : Prop :=
  match x with
  | TI32 z => in_i32 z = true
  | TQuoted s | TUnquoted s => wfl s
  | _ => True
  end.

(* v, whose first token sits at absolute index p, is one value as `next_key_seed` skips it *)
Definition value1 (p : nat) (v : tape) : Prop :=
  exists x rest, v = x :: rest /\
    match container_end x with Some e => e = p + length rest | None => rest = [] end.

Inductive kvgood : nat -> tape -> Prop :=
| KG_nil : forall b, kvgood b []
| KG_doom : forall b c r, is_scalar c = false -> r <> [] -> kvgood b (c :: r)
| KG_pair : forall b k v r, is_scalar k = true -> value1 (S b) v -> kvgood (S b + length v) r ->
    kvgood b (k :: v ++ r).
