(* C06 (binary), wave 4: SOUNDNESS of the executable checker [BinTapeWf.tape_wfb] (the one-pass stack
   checker that harness/src/fam_bintape.rs `wf` mirrors on the real tapes): a tape the checker accepts
   satisfies the declarative predicate [tape_wf] (links both ways, no index 0, grammar).  Together with
   BinTapeSim.closed_checker (completeness) the checker DECIDES the grammar. *)
From JV Require Import Bytes Tables BinPrim BinTape BinTapeWf.
From JV.proofs Require Import BinTapeWfProofs BinTapeSim.
Require Import Lia.
Open Scope nat_scope.

(* what an accepting run of the checker proves about the list it walks: with an empty stack the
   list is a sequence of complete values; with (p, e) on top it is  inner ++ End p :: rest  where
   inner is a sequence of complete values, e is the absolute index of that End, and the checker
   accepts rest below. *)
Lemma dyck_split : forall n l pos stack, length l <= n -> dyck pos stack l = true ->
  (stack = [] -> closed_seq pos l) /\
  (forall p e s, stack = (p, e) :: s ->
     exists inner rest, l = inner ++ TEnd p :: rest /\ closed_seq pos inner /\
                        e = pos + length inner /\ dyck (S e) s rest = true).
Proof.
  induction n as [|n IH]; intros l pos stack Hlen H.
  - destruct l; [|cbn in Hlen; lia]. cbn in H. split.
    + intros _. constructor.
    + intros p e s ->. discriminate.
  - destruct l as [|x r].
    { cbn in H. split; [intros _; constructor|intros p e s ->; discriminate]. }
    cbn [length] in Hlen.
    assert (Hscalar : is_scalar x = true -> dyck (S pos) stack r = true ->
      (stack = [] -> closed_seq pos (x :: r)) /\
      (forall p e s, stack = (p, e) :: s ->
         exists inner rest, x :: r = inner ++ TEnd p :: rest /\ closed_seq pos inner /\
                            e = pos + length inner /\ dyck (S e) s rest = true)).
    { intros Hs Hd. destruct (IH r (S pos) stack ltac:(lia) Hd) as [A B]. split.
      - intros E. apply CS_scalar; auto.
      - intros p e s E. destruct (B p e s E) as (inner & rest & -> & Hc & -> & Hr).
        exists (x :: inner), rest. repeat split; auto.
        + apply CS_scalar; auto.
        + cbn [length]. lia. }
    assert (Hcont : forall e0, container_end x = Some e0 ->
      pos <> 0 -> dyck (S pos) ((pos, e0) :: stack) r = true ->
      (stack = [] -> closed_seq pos (x :: r)) /\
      (forall p e s, stack = (p, e) :: s ->
         exists inner rest, x :: r = inner ++ TEnd p :: rest /\ closed_seq pos inner /\
                            e = pos + length inner /\ dyck (S e) s rest = true)).
    { intros e0 Hce Hp Hd.
      destruct (IH r (S pos) ((pos, e0) :: stack) ltac:(lia) Hd) as [_ B].
      destruct (B pos e0 stack eq_refl) as (inner & rest & -> & Hc & He0 & Hr).
      assert (Hl : length rest <= n).
      { rewrite app_length in Hlen. cbn [length] in Hlen. lia. }
      destruct (IH rest (S e0) stack Hl Hr) as [A2 B2]. split.
      - intros E. eapply CS_container; eauto.
      - intros p e s E. destruct (B2 p e s E) as (inner2 & rest2 & -> & Hc2 & -> & Hr2).
        exists (x :: inner ++ TEnd pos :: inner2), rest2. repeat split; auto.
        + cbn [app]. rewrite <- app_assoc. reflexivity.
        + eapply CS_container; eauto.
        + cbn [length]. rewrite app_length. cbn [length]. lia. }
    destruct x; cbn [dyck] in H;
      try (apply Hscalar; [reflexivity|exact H]).
    + (* TArray *) apply andb_prop in H. destruct H as [Hp Hd].
      apply (Hcont e eq_refl); auto. intros ->. discriminate.
    + (* TObject *) apply andb_prop in H. destruct H as [Hp Hd].
      apply (Hcont e eq_refl); auto. intros ->. discriminate.
    + (* TEnd *) destruct stack as [|[p e] s]; [discriminate|].
      apply andb_prop in H. destruct H as [H Hd]. apply andb_prop in H. destruct H as [Hp He].
      apply Nat.eqb_eq in Hp. apply Nat.eqb_eq in He. subst p e.
      split; [discriminate|]. intros p' e' s' E. inversion E; subst p' e' s'.
      exists [], r. repeat split; auto. constructor.
Qed.

Lemma dyck_not_cont_hd : forall t, dyck 0 [] t = true -> not_cont_hd t.
Proof.
  intros t H c Hc. destruct t as [|x r]; [discriminate|]. cbn in Hc. inversion Hc; subst c.
  destruct x; try reflexivity; cbn in H; discriminate.
Qed.

Theorem checker_closed : forall t, tape_wfb t = true -> closed_seq 0 t /\ not_cont_hd t.
Proof.
  intros t H. unfold tape_wfb in H. split.
  - destruct (dyck_split (length t) t 0 [] (le_n _) H) as [A _]. auto.
  - apply dyck_not_cont_hd; auto.
Qed.

Theorem checker_sound : forall t, tape_wfb t = true -> tape_wf t.
Proof. intros t H. destruct (checker_closed t H). apply closed_is_wf; auto. Qed.

(* the checker decides the grammar (+ "no container at index 0") *)
Theorem checker_iff : forall t, tape_wfb t = true <-> (closed_seq 0 t /\ not_cont_hd t).
Proof.
  intros t. split; [apply checker_closed|]. intros [A B]. apply closed_checker; auto.
Qed.
