(* C07: next_opt_fallback's scan [fb] on a window that is a prefix of the remaining stream agrees
   with the reference tokenizer on the whole remaining stream: a token found in the window is
   the reference token; an [ARefill st carry offset] describes a pending atom faithfully
   ([pend]): restarting (None), resuming the quote scan at [offset] (Quote) or the boundary
   scan at [carry] (Unquoted) on ANY continuation gives what the reference gives. *)
From JV Require Import Bytes Tables U64Swar BufWin TextTok TextReader TextRef.
From JV.proofs Require Import BufWinProofs TextReaderProofs TextRefProofs.
From Coq Require Import Lia List Arith.
Import ListNotations.
Open Scope nat_scope.

(* ---------- list helpers ---------- *)
Lemma firstn_app_le {A} n (l x : list A) : n <= length l -> firstn n (l ++ x) = firstn n l.
Proof. intros H. rewrite firstn_app. replace (n - length l) with 0 by lia. cbn [firstn]. apply app_nil_r. Qed.
Lemma skipn_app_le {A} n (l x : list A) : n <= length l -> skipn n (l ++ x) = skipn n l ++ x.
Proof. intros H. rewrite skipn_app. replace (n - length l) with 0 by lia. reflexivity. Qed.
Lemma skipn_app_pre {A} (pre l : list A) k : skipn (length pre + k) (pre ++ l) = skipn k l.
Proof.
  rewrite skipn_app. rewrite skipn_all2 by lia. replace (length pre + k - length pre) with k by lia. reflexivity.
Qed.
Lemma skipn_skipn {A} x y (l : list A) : skipn x (skipn y l) = skipn (x + y) l.
Proof.
  revert l. induction y as [|y IH]; intros l.
  - rewrite Nat.add_0_r. reflexivity.
  - replace (x + S y) with (S (x + y)) by lia. destruct l; cbn [skipn]; [destruct x; reflexivity|apply IH].
Qed.
Lemma b_is_eq c x : b_is c x = true -> c = x.
Proof. unfold b_is. apply N.eqb_eq. Qed.

Lemma find_from_shift p l k d : find_from p l (k + d) = option_map (fun i => i + d) (find_from p l k).
Proof.
  revert k. induction l as [|c l IH]; intros k; cbn [find_from option_map]; [reflexivity|].
  destruct (p c); [reflexivity|]. apply (IH (S k)).
Qed.
Lemma find_from_none_app p a b k : find_from p a k = None -> find_from p (a ++ b) k = find_from p b (k + length a).
Proof. intros H. rewrite find_from_app, H. reflexivity. Qed.
Lemma find_from_some_app p a b k i : find_from p a k = Some i -> find_from p (a ++ b) k = Some i.
Proof. intros H. rewrite find_from_app, H. reflexivity. Qed.

(* ---------- quote scans ---------- *)
Lemma rq_scan_bounds : forall n l k i, length l <= n -> rq_scan l k = inl i -> k <= i < k + length l.
Proof.
  induction n as [|n IH]; intros l k i Hn.
  - destruct l; [discriminate|cbn in Hn; lia].
  - destruct l as [|c l']; [discriminate|]. cbn [rq_scan]. destruct (b_is c 92).
    + destruct l' as [|x l'']; [discriminate|]. intros H. apply IH in H; cbn [length] in *; lia.
    + destruct (b_is c 34).
      * intros H; inversion H; subst. cbn [length]. lia.
      * intros H. apply IH in H; cbn [length] in *; lia.
Qed.
Lemma qscan_bounds : forall n l k i, length l <= n -> qscan l k = QFound i -> k <= i < k + length l.
Proof.
  induction n as [|n IH]; intros l k i Hn.
  - destruct l; [discriminate|cbn in Hn; lia].
  - destruct l as [|c l']; [discriminate|]. cbn [qscan]. destruct (b_is c 92).
    + destruct l' as [|x l'']; [discriminate|]. destruct l'' as [|y l3]; [discriminate|].
      intros H. apply IH in H; cbn [length] in *; lia.
    + destruct (b_is c 34).
      * intros H; inversion H; subst. cbn [length]. lia.
      * intros H. apply IH in H; cbn [length] in *; lia.
Qed.

(* a scan that ran off the end of c1 cannot find its quote inside c1 when more data follows *)
Lemma rq_scan_inr_ge : forall n c1 c2 k o i, length c1 <= n ->
  rq_scan c1 k = inr o -> rq_scan (c1 ++ c2) k = inl i -> k + length c1 <= i.
Proof.
  induction n as [|n IH]; intros c1 c2 k o i Hn.
  - destruct c1; [|cbn in Hn; lia]. cbn [app length]. intros _ H. apply rq_scan_bounds with (n := length c2) in H; lia.
  - destruct c1 as [|c l']; [cbn [app length]; intros _ H; apply rq_scan_bounds with (n := length c2) in H; lia|].
    cbn [rq_scan app]. destruct (b_is c 92) eqn:E92.
    + destruct l' as [|x l''].
      * cbn [app]. intros _. destruct c2 as [|y c2']; [discriminate|].
        intros H. apply rq_scan_bounds with (n := length c2') in H; cbn [length]; lia.
      * cbn [app]. intros H1 H2. eapply IH in H2; [|cbn [length] in Hn; lia|exact H1]. cbn [length]. lia.
    + destruct (b_is c 34) eqn:E34; [discriminate|].
      intros H1 H2. eapply IH in H2; [|cbn [length] in Hn; lia|exact H1]. cbn [length]. lia.
Qed.

Lemma qscan_notfound_ge : forall n c1 c2 k i, length c1 <= n ->
  (forall j, qscan c1 k <> QFound j) -> rq_scan (c1 ++ c2) k = inl i -> k + length c1 <= i.
Proof.
  induction n as [|n IH]; intros c1 c2 k i Hn.
  - destruct c1; [|cbn in Hn; lia]. cbn [app length]. intros _ H. apply rq_scan_bounds with (n := length c2) in H; lia.
  - destruct c1 as [|c l']; [cbn [app length]; intros _ H; apply rq_scan_bounds with (n := length c2) in H; lia|].
    cbn [qscan rq_scan app]. destruct (b_is c 92) eqn:E92.
    + destruct l' as [|x l''].
      * cbn [app]. intros _. destruct c2 as [|y c2']; [discriminate|].
        intros H. apply rq_scan_bounds with (n := length c2') in H; cbn [length]; lia.
      * cbn [app]. destruct l'' as [|y l3].
        -- cbn [app]. intros _ H. apply rq_scan_bounds with (n := length c2) in H; cbn [length]; lia.
        -- intros H1 H2. eapply IH in H2; [|cbn [length] in Hn |- *; lia|exact H1]. cbn [length] in *. lia.
    + destruct (b_is c 34) eqn:E34; [intros H; exfalso; eapply H; reflexivity|].
      intros H1 H2. eapply IH in H2; [|cbn [length] in Hn; lia|exact H1]. cbn [length]. lia.
Qed.

(* ---------- pending atoms ---------- *)
Definition qinv (cb : bytes) (o : nat) : Prop :=
  o <= length cb /\ (forall y, rq_scan (cb ++ y) 0 = rq_scan (skipn o (cb ++ y)) o) /\
  (forall y i, rq_scan (cb ++ y) 0 = inl i -> length cb <= i).

Definition uinv (start : bool) (cb : bytes) : Prop :=
  cb <> [] /\ find_from is_boundary (tl cb) 0 = None /\
  forall y, exists m, m <= length cb /\ item start (cb ++ y) = bump_item m (unq_item (cb ++ y)).

Definition ninv (start : bool) (cb : bytes) : Prop :=
  match item start cb with
  | IEnd n => n <= S (length cb)
  | IEof k n => k = length cb /\ n <= S (length cb)
  | _ => False
  end /\
  (cb = [] \/ forall y, length cb < inee (item start (cb ++ y))).

Definition pend (st : pstate) (start : bool) (cb : bytes) (o : nat) : Prop :=
  match st with
  | PNone => ninv start cb
  | PQuote => start = false /\ qinv cb o
  | PUnq => uinv start cb /\ o = length cb
  end.
Definition patom (st : pstate) (cb : bytes) : bytes :=
  match st with PQuote => 34%N :: cb | _ => cb end.

Lemma qinv_end l' : (forall j, qscan l' 0 <> QFound j) ->
  match qscan l' 0 with QFound _ => False | QEnd => qinv l' (length l') | QEndEsc i => qinv l' i end.
Proof.
  intros Hnf.
  assert (H3 : forall y i, rq_scan (l' ++ y) 0 = inl i -> length l' <= i).
  { intros y i H. apply qscan_notfound_ge with (n := length l') in H; [lia|lia|exact Hnf]. }
  destruct (qscan l' 0) as [j| |j] eqn:E.
  - eapply Hnf; reflexivity.
  - split; [lia|]. split; [|exact H3]. intros y. pose proof (fallback_quote_resume l' y) as H. rewrite E in H. exact H.
  - pose proof (fun y => fallback_quote_resume l' y) as H. rewrite E in H.
    split; [destruct (H []); lia|]. split; [|exact H3]. intros y. apply H.
Qed.

(* ---------- the post-condition of one fb scan ---------- *)
Definition fbpost (start : bool) (bom : N) (l : bytes) (ptr : nat) (x : bytes) (res : act * N) : Prop :=
  (N.eqb bom 0 = false -> snd res = bom) /\
  match fst res with
  | ACrash _ => False
  | ATok t adv => exists k m, adv = ptr + k /\ 0 < k <= length l /\ m <= length l /\
                   tk start (l ++ x) = (RTok t (skipn k (l ++ x)), m)
  | ARefill st c o => c <= length l /\
      pend st (start && Nat.eqb c (length l)) (skipn (length l - c) l) o /\
      (st = PNone -> start && Nat.eqb c (length l) = true -> snd res = bom) /\
      exists m, m <= length l /\ tk start (l ++ x) =
                bump m (tk (start && Nat.eqb c (length l)) (patom st (skipn (length l - c) l) ++ x))
  end.

Lemma fbpost_skip start bom bom2 pre l2 ptr x n res :
  pre <> [] -> n <= length (pre ++ l2) ->
  tk start ((pre ++ l2) ++ x) = bump n (tk false (l2 ++ x)) ->
  (N.eqb bom 0 = false -> bom2 = bom) ->
  fbpost false bom2 l2 (ptr + length pre) x res -> fbpost start bom (pre ++ l2) ptr x res.
Proof.
  intros Hpre Hnle Htk Hb [Hbom H]. assert (Hd : 0 < length pre) by (destruct pre; [congruence|cbn; lia]).
  split.
  { intros Hz. rewrite Hbom; [apply Hb; exact Hz|]. rewrite (Hb Hz). exact Hz. }
  destruct (fst res) as [st c o|t adv|site]; [| |exact H].
  - destruct H as (Hc & Hp & _ & (m & Hmle & Hm)). rewrite app_length in *.
    assert (Hne : Nat.eqb c (length pre + length l2) = false) by (apply Nat.eqb_neq; lia).
    rewrite Hne, andb_false_r. cbn [andb] in Hp, Hm.
    replace (length pre + length l2 - c) with (length pre + (length l2 - c)) by lia. rewrite skipn_app_pre.
    split; [lia|]. split; [exact Hp|]. split; [discriminate|].
    exists (Nat.max n m). split; [lia|]. rewrite Htk, Hm. apply bump_bump.
  - destruct H as (k & m & Hadv & Hk & Hmle & Hm). exists (length pre + k), (Nat.max n m).
    split; [lia|]. rewrite app_length in *. split; [lia|]. split; [lia|].
    rewrite Htk, Hm. unfold bump; cbn [fst snd]. rewrite <- app_assoc, skipn_app_pre. reflexivity.
Qed.

(* ---------- reference-side computation of [item] per leading byte ---------- *)
Lemma item_ws start c s : is_ws c = true -> item start (c :: s) = ISkip s 1.
Proof. intros H. cbn [item]. rewrite H. reflexivity. Qed.
Lemma item_hash start s :
  item start (35%N :: s) = match find_from (fun x => b_is x 10) s 0 with
                           | None => IEnd (S (S (length s)))
                           | Some k => ISkip (skipn k s) (k + 2)
                           end.
Proof. reflexivity. Qed.
Lemma item_quote start s :
  item start (34%N :: s) = match rq_scan s 0 with
                           | inl i => ITok (RQuo (firstn i s)) (skipn (S i) s) (S i)
                           | inr _ => IEof (length s) (S (length s))
                           end.
Proof. reflexivity. Qed.
Lemma item_at start s :
  item start (64%N :: s) = match s with
      | [] => IEof 1 2
      | c2 :: s'' =>
        if b_is c2 91 then
          match find_from (fun x => b_is x 93) s'' 0 with
          | None => IEof (S (length s)) (S (S (length s)))
          | Some k => ITok (RUnq (firstn (k + 3) (64%N :: s))) (skipn (k + 3) (64%N :: s)) (k + 3)
          end
        else unq_item (64%N :: s)
      end.
Proof. reflexivity. Qed.
Lemma item_default start c s :
  is_ws c = false -> b_is c 35 = false -> b_is c 123 = false -> b_is c 125 = false -> b_is c 34 = false ->
  b_is c 64 = false -> b_is c 61 = false -> b_is c 60 = false -> b_is c 33 = false -> b_is c 63 = false ->
  b_is c 62 = false ->
  item start (c :: s) =
    if b_is c 239 && start then
      match s with
      | b1 :: b2 :: s3 =>
          if b_is b1 187 && b_is b2 191 then ISkip s3 3 else bump_item 3 (unq_item (c :: s))
      | _ => IEof (length (c :: s)) (S (length (c :: s)))
      end
    else unq_item (c :: s).
Proof. intros. cbn [item]. repeat match goal with H : _ = false |- _ => rewrite H; clear H end. reflexivity. Qed.

Lemma unq_post start bom bom' c l' ptr x :
  (N.eqb bom 0 = false -> bom' = bom) ->
  (forall y, exists m, m <= S (length l') /\ item start (c :: l' ++ y) = bump_item m (unq_item (c :: l' ++ y))) ->
  fbpost start bom (c :: l') ptr x
    (match find_from is_boundary l' 0 with
     | None => (ARefill PUnq (length (c :: l')) (length (c :: l')), bom')
     | Some k => (ATok (RUnq (firstn (S k) (c :: l'))) (ptr + S k), bom')
     end).
Proof.
  intros Hb Hi.
  destruct (find_from is_boundary l' 0) as [k|] eqn:E; (split; [exact Hb|]); cbn [fst snd].
  - pose proof (find_from_bounds _ _ _ _ E) as Hk. destruct (Hi x) as (m & Hmle & Hm).
    exists (S k), (Nat.max m (S (S k))). split; [reflexivity|]. split; [cbn [length]; lia|]. split; [cbn [length]; lia|].
    rewrite tk_unfold. cbn [app]. rewrite Hm. unfold unq_item. cbn [tl].
    rewrite (find_from_some_app _ l' x 0 k E). cbn [bump_item].
    f_equal. f_equal. cbn [firstn]. f_equal. f_equal. apply firstn_app_le. lia.
  - rewrite Nat.eqb_refl, andb_true_r, Nat.sub_diag. cbn [skipn].
    split; [lia|]. split.
    + split; [|reflexivity]. split; [discriminate|]. split; [exact E|]. exact Hi.
    + split; [discriminate|]. exists 0. split; [lia|]. rewrite bump_0. reflexivity.
Qed.

Lemma two_char_post start bom c l' ptr x single double strict :
  (forall y, item start (c :: y) = op_item y single double) ->
  fbpost start bom (c :: l') ptr x (two_char l' ptr single double strict, bom).
Proof.
  intros Hi. split; [reflexivity|]. cbn [fst snd]. unfold two_char. destruct l' as [|c2 l''].
  - cbn [length]. rewrite Nat.eqb_refl, andb_true_r. cbn [skipn Nat.sub].
    split; [lia|]. split.
    + split.
      * rewrite (Hi []). cbn [op_item length]. split; [reflexivity|lia].
      * right. intros y. cbn [app]. rewrite (Hi y). cbn [length]. unfold op_item. destruct y as [|c3 y']; [cbn; lia|].
        destruct (b_is c3 61); cbn [inee]; lia.
    + split; [reflexivity|]. exists 0. split; [lia|]. rewrite bump_0. reflexivity.
  - rewrite tk_unfold. cbn [app]. rewrite (Hi (c2 :: l'' ++ x)). cbn [op_item]. destruct (b_is c2 61).
    + exists 2, 2. split; [reflexivity|]. split; [cbn [length]; lia|]. split; [cbn [length]; lia|]. reflexivity.
    + exists 1, 2. split; [reflexivity|]. split; [cbn [length]; lia|]. split; [cbn [length]; lia|]. reflexivity.
Qed.

Lemma bom_cond_eq c bom ptr pos0 :
  b_is c 239 && N.eqb bom 0 && Nat.eqb ptr 0 && pos0 = b_is c 239 && (pos0 && N.eqb bom 0 && Nat.eqb ptr 0).
Proof. destruct (b_is c 239), (N.eqb bom 0), (Nat.eqb ptr 0), pos0; reflexivity. Qed.

Theorem fb_sound : forall fuel pos0 w l ptr bom x,
  l = skipn ptr w -> ptr <= length w ->
  length l + (if N.eqb bom 0 then 1 else 0) < fuel ->
  fbpost (pos0 && N.eqb bom 0 && Nat.eqb ptr 0) bom l ptr x (fb fuel pos0 w l ptr bom).
Proof.
  induction fuel as [|f IH]; intros pos0 w l ptr bom x Hl Hptr Hfuel; [lia|].
  set (start := pos0 && N.eqb bom 0 && Nat.eqb ptr 0).
  destruct l as [|c l'].
  { (* window exhausted *)
    cbn [fb]. split; [reflexivity|]. cbn [fst snd length]. rewrite Nat.eqb_refl, andb_true_r. cbn [skipn Nat.sub].
    split; [lia|]. split; [split; [cbn; lia|left; reflexivity]|]. split; [reflexivity|].
    exists 0. split; [lia|]. rewrite bump_0. reflexivity. }
  cbn [fb].
  destruct (is_ws c) eqn:Ews.
  { (* whitespace *)
    apply (fbpost_skip start bom bom [c] l' ptr x 1); [discriminate|cbn [length app]; lia| |auto|].
    - rewrite tk_unfold. cbn [app]. rewrite item_ws by exact Ews. reflexivity.
    - cbn [length]. replace (ptr + 1) with (S ptr) by lia.
      pose proof (IH pos0 w l' (S ptr) bom x) as H. replace (Nat.eqb (S ptr) 0) with false in H by reflexivity.
      rewrite andb_false_r in H. apply H.
      + replace (S ptr) with (1 + ptr) by lia. rewrite <- skipn_skipn, <- Hl. reflexivity.
      + assert (length (c :: l') = length (skipn ptr w)) by (rewrite Hl; reflexivity).
        rewrite skipn_length in H0. cbn [length] in H0. lia.
      + cbn [length] in Hfuel. lia. }
  destruct (b_is c 35) eqn:E35.
  { (* comment *)
    apply b_is_eq in E35. subst c.
    destruct (find_from (fun x0 => b_is x0 10) l' 0) as [k|] eqn:Ek.
    - pose proof (find_from_bounds _ _ _ _ Ek) as Hk.
      assert (Hsplit : (35%N :: l') = (35%N :: firstn k l') ++ skipn k l') by (cbn [app]; rewrite firstn_skipn; reflexivity).
      rewrite Hsplit at 1.
      apply (fbpost_skip start bom bom (35%N :: firstn k l') (skipn k l') ptr x (k + 2)); [discriminate|rewrite <- Hsplit; cbn [length]; lia| |auto|].
      + rewrite <- Hsplit. rewrite tk_unfold. cbn [app]. rewrite item_hash.
        rewrite (find_from_some_app _ l' x 0 k Ek). rewrite skipn_app_le by lia. reflexivity.
      + cbn [length]. rewrite firstn_length. replace (Nat.min k (length l')) with k by lia.
        replace (ptr + S k) with (S ptr + k) by lia.
        pose proof (IH pos0 w (skipn k l') (S ptr + k) bom x) as H.
        replace (Nat.eqb (S ptr + k) 0) with false in H by reflexivity.
        rewrite andb_false_r in H. apply H.
        * replace (S ptr + k) with (k + (1 + ptr)) by lia. rewrite <- skipn_skipn. rewrite <- (skipn_skipn 1 ptr), <- Hl. reflexivity.
        * assert (length (35%N :: l') = length (skipn ptr w)) by (rewrite Hl; reflexivity).
          rewrite skipn_length in H0. cbn [length] in H0. lia.
        * rewrite skipn_length. cbn [length] in Hfuel. lia.
    - split; [reflexivity|]. cbn [fst snd]. rewrite Nat.eqb_refl, andb_true_r, Nat.sub_diag. cbn [skipn].
      split; [lia|]. split.
      + split.
        * rewrite item_hash, Ek. cbn [length]. lia.
        * right. intros y. cbn [app]. rewrite item_hash. rewrite (find_from_none_app _ l' y 0 Ek).
          destruct (find_from _ y (0 + length l')) as [k|] eqn:Ey.
          -- apply find_from_bounds in Ey. cbn [inee length]. lia.
          -- cbn [inee length]. rewrite app_length. lia.
      + split; [reflexivity|]. exists 0. split; [lia|]. rewrite bump_0. reflexivity. }
  destruct (b_is c 123) eqn:E123.
  { apply b_is_eq in E123. subst c. split; [reflexivity|]. cbn [fst snd].
    exists 1, 1. split; [lia|]. split; [cbn [length]; lia|]. split; [cbn [length]; lia|]. rewrite tk_unfold. reflexivity. }
  destruct (b_is c 125) eqn:E125.
  { apply b_is_eq in E125. subst c. split; [reflexivity|]. cbn [fst snd].
    exists 1, 1. split; [lia|]. split; [cbn [length]; lia|]. split; [cbn [length]; lia|]. rewrite tk_unfold. reflexivity. }
  destruct (b_is c 34) eqn:E34.
  { (* quoted *)
    apply b_is_eq in E34. subst c. split.
    { destruct (qscan l' 0); reflexivity. }
    destruct (qscan l' 0) as [i| |i] eqn:Eq; cbn [fst snd].
    - pose proof (qscan_bounds (length l') l' 0 i (le_n _) Eq) as Hi.
      pose proof (qscan_app_gen (length l') l' x 0 (le_n _)) as Hq. rewrite Eq in Hq.
      exists (i + 2), (S i). split; [lia|]. split; [cbn [length]; lia|]. split; [cbn [length]; lia|].
      rewrite tk_unfold. cbn [app]. rewrite item_quote, Hq.
      replace (i + 2) with (S (S i)) by lia. cbn [skipn]. rewrite firstn_app_le by lia. reflexivity.
    - assert (Hne : Nat.eqb (length l') (length (34%N :: l')) = false) by (apply Nat.eqb_neq; cbn [length]; lia).
      rewrite Hne, andb_false_r. replace (length (34%N :: l') - length l') with 1 by (cbn [length]; lia). cbn [skipn].
      pose proof (qinv_end l') as Hqi. rewrite Eq in Hqi.
      split; [cbn [length]; lia|]. split; [split; [reflexivity|apply Hqi; intros j; discriminate]|].
      split; [discriminate|]. exists 0. split; [lia|]. rewrite bump_0. reflexivity.
    - assert (Hne : Nat.eqb (length l') (length (34%N :: l')) = false) by (apply Nat.eqb_neq; cbn [length]; lia).
      rewrite Hne, andb_false_r. replace (length (34%N :: l') - length l') with 1 by (cbn [length]; lia). cbn [skipn].
      pose proof (qinv_end l') as Hqi. rewrite Eq in Hqi.
      split; [cbn [length]; lia|]. split; [split; [reflexivity|apply Hqi; intros j; discriminate]|].
      split; [discriminate|]. exists 0. split; [lia|]. rewrite bump_0. reflexivity. }
  destruct (b_is c 64) eqn:E64.
  { (* '@' *)
    apply b_is_eq in E64. subst c. destruct l' as [|c2 l''].
    - split; [reflexivity|]. cbn [fst snd length]. rewrite Nat.eqb_refl, andb_true_r. cbn [skipn Nat.sub].
      split; [lia|]. split.
      + split; [rewrite item_at; cbn [length]; split; [reflexivity|lia]|]. right. intros y. cbn [app]. rewrite item_at. cbn [length].
        destruct y as [|c2 y']; [cbn; lia|]. destruct (b_is c2 91).
        * destruct (find_from _ y' 0); cbn [inee]; lia.
        * unfold unq_item. destruct (find_from _ _ 0); cbn [inee length]; lia.
      + split; [reflexivity|]. exists 0. split; [lia|]. rewrite bump_0. reflexivity.
    - destruct (b_is c2 91) eqn:E91.
      + destruct (find_from (fun x0 => b_is x0 93) l'' 0) as [k|] eqn:Ek.
        * pose proof (find_from_bounds _ _ _ _ Ek) as Hk. split; [reflexivity|]. cbn [fst snd].
          exists (k + 3), (k + 3). split; [lia|]. split; [cbn [length]; lia|]. split; [cbn [length]; lia|].
          rewrite tk_unfold. cbn [app]. rewrite item_at, E91. rewrite (find_from_some_app _ l'' x 0 k Ek).
          f_equal. f_equal. f_equal. change (64%N :: c2 :: l'' ++ x) with ((64%N :: c2 :: l'') ++ x).
          apply firstn_app_le. cbn [length]. lia.
        * split; [reflexivity|]. cbn [fst snd]. rewrite Nat.eqb_refl, andb_true_r, Nat.sub_diag. cbn [skipn].
          split; [lia|]. split.
          -- split; [rewrite item_at, E91, Ek; cbn [length]; split; [reflexivity|lia]|]. right. intros y. cbn [app]. rewrite item_at, E91.
             rewrite (find_from_none_app _ l'' y 0 Ek).
             destruct (find_from _ y (0 + length l'')) as [k|] eqn:Ey.
             ++ apply find_from_bounds in Ey. cbn [inee length]. lia.
             ++ cbn [inee length]. rewrite app_length. lia.
          -- split; [reflexivity|]. exists 0. split; [lia|]. rewrite bump_0. reflexivity.
      + apply unq_post; [auto|]. intros y. exists 0. split; [lia|]. rewrite bump_item_0. cbn [app]. rewrite item_at, E91. reflexivity. }
  destruct (b_is c 61) eqn:E61. { apply b_is_eq in E61. subst c. apply two_char_post. reflexivity. }
  destruct (b_is c 60) eqn:E60. { apply b_is_eq in E60. subst c. apply two_char_post. reflexivity. }
  destruct (b_is c 33) eqn:E33. { apply b_is_eq in E33. subst c. apply two_char_post. reflexivity. }
  destruct (b_is c 63) eqn:E63. { apply b_is_eq in E63. subst c. apply two_char_post. reflexivity. }
  destruct (b_is c 62) eqn:E62. { apply b_is_eq in E62. subst c. apply two_char_post. reflexivity. }
  pose proof (fun s => item_default start c s Ews E35 E123 E125 E34 E64 E61 E60 E33 E63 E62) as Hdef.
  rewrite bom_cond_eq. fold start.
  destruct (b_is c 239 && start) eqn:Ebom.
  { (* BOM probe: only at the very start of the stream *)
    apply andb_prop in Ebom as [E239 Est]. unfold start in Est.
    apply andb_prop in Est as [Est Eptr]. apply andb_prop in Est as [Epos Ebz].
    apply Nat.eqb_eq in Eptr. subst ptr. cbn [skipn] in Hl. subst w.
    assert (Hst : start = true) by (unfold start; rewrite Epos, Ebz; reflexivity).
    apply N.eqb_eq in Ebz. subst bom.
    destruct l' as [|b1 [|b2 l3]].
    - (* one byte buffered *)
      split; [reflexivity|]. cbn [fst snd length]. rewrite Nat.eqb_refl, andb_true_r. cbn [skipn Nat.sub].
      split; [lia|]. split.
      + split; [rewrite Hdef; cbn [length]; split; [reflexivity|lia]|]. right. intros y. cbn [app]. rewrite Hdef. cbn [andb].
        destruct y as [|y1 [|y2 y3]]; [cbn [inee length]; lia|cbn [inee length]; lia|]. destruct (b_is y1 187 && b_is y2 191); [cbn [inee length]; lia|].
        destruct (unq_item _); cbn [bump_item inee length]; lia.
      + split; [reflexivity|]. exists 0. split; [lia|]. rewrite bump_0. reflexivity.
    - split; [reflexivity|]. cbn [fst snd length]. rewrite Nat.eqb_refl, andb_true_r. cbn [skipn Nat.sub].
      split; [lia|]. split.
      + split; [rewrite Hdef; cbn [length]; split; [reflexivity|lia]|]. right. intros y. cbn [app]. rewrite Hdef. cbn [andb].
        destruct y as [|y1 y2]; [cbn [inee length]; lia|]. destruct (b_is b1 187 && b_is y1 191); [cbn [inee length]; lia|].
        destruct (unq_item _); cbn [bump_item inee length]; lia.
      + split; [reflexivity|]. exists 0. split; [lia|]. rewrite bump_0. reflexivity.
    - rewrite E239. cbn [andb]. destruct (b_is b1 187 && b_is b2 191) eqn:Ebb.
      + (* present: skip three bytes *)
        cbn [skipn].
        apply (fbpost_skip start 0%N 2%N [c; b1; b2] l3 0 x 3); [discriminate|cbn [length app]; lia| |discriminate|].
        * rewrite tk_unfold. cbn [app]. rewrite Hdef. cbn [andb]. rewrite Ebb. reflexivity.
        * cbn [length]. pose proof (IH pos0 (c :: b1 :: b2 :: l3) l3 3 2%N x) as H.
          replace (pos0 && N.eqb 2 0 && Nat.eqb 3 0) with false in H by (destruct pos0; reflexivity).
          apply H; [reflexivity|cbn [length]; lia|cbn [length N.eqb] in *; lia].
      + (* not a BOM: an ordinary scalar byte *)
        destruct f as [|f']; [cbn [length] in Hfuel; lia|]. cbn [fb].
        rewrite Ews, E35, E123, E125, E34, E64, E61, E60, E33, E63, E62.
        replace (b_is c 239 && N.eqb 1 0 && Nat.eqb 0 0 && pos0) with false by (destruct (b_is c 239); reflexivity).
        apply unq_post; [discriminate|]. intros y. exists 3. split; [cbn [length]; lia|].
        cbn [app]. rewrite Hdef. cbn [andb]. rewrite Ebb. reflexivity. }
  apply unq_post; [auto|]. intros y. exists 0. split; [lia|]. rewrite bump_item_0. rewrite Hdef. reflexivity.
Qed.
