(* C02, wave 4 (a_c02): the extended stream theorem composed with the BYTE level -- from the bytes of
   any rendering of a well-formed, reader-plain document (TextDeBytes.plain_fields: no parameter
   blocks, no bare word starting with '?'), under every layout, read schedule and fitting buffer. *)
From JV Require Import Bytes Utf8 BufWin TextTok TextTape TextReader TextRef TextDoc SerdeShape TextDeCommon TextDeTape
  TextDeStream TextDeSpec TextDeSpec2 TextDeBytes.
From JV.proofs Require Import TextParseProofs TextDeTapeProofs TextDeStreamProofs TextDeMoreTape TextDeMoreBytes TextDeExtSpec TextDeExtStream.
Open Scope nat_scope.

Lemma wf_plain_sx :
  (forall v, wf_value v = true -> plain_value v = true -> sx_value v = true) /\
  (forall f, wf_field f = true -> plain_field f = true -> sx_field f = true) /\
  (forall fs, (wf_fields fs = true -> plain_fields fs = true -> sx_fields fs = true) /\ (wf_kvs fs = true -> sx_fields fs = true)) /\
  (forall vs, (wf_items vs = true -> plain_values vs = true -> sx_items vs = true) /\
              (wf_tail vs = true -> plain_values vs = true -> sx_items vs = true)).
Proof.
  apply doc_mutind.
  - reflexivity.
  - intros fs [Hfs _] tl [_ Htl] Hw Hp. cbn [wf_value plain_value sx_value] in *. andb_split.
    rewrite Hfs, Htl by assumption. reflexivity.
  - intros items [Hi _] Hw Hp. cbn [wf_value plain_value sx_value] in *. andb_split. now apply Hi.
  - intros items [Hi _] kvs [_ Hk] Hw Hp. cbn [wf_value plain_value sx_value] in *. andb_split.
    rewrite Hi, Hk by assumption. reflexivity.
  - intros name v Hv Hw Hp. cbn [wf_value plain_value sx_value] in *. andb_split. rewrite Hv by assumption.
    match goal with H : is_container v = true |- _ => rewrite H end. reflexivity.
  - intros k key op v Hv Hw Hp. cbn [wf_field plain_field sx_field] in *. andb_split. now apply Hv.
  - intros; discriminate.
  - intros; discriminate.
  - split; reflexivity.
  - intros f Hf fs [Hfs Hk]. split.
    + intros Hw Hp. cbn [wf_fields plain_fields sx_fields] in *. andb_split. rewrite Hf, Hfs by assumption. reflexivity.
    + intros Hw. destruct f as [k key op v| |]; try discriminate. cbn [wf_kvs sx_fields sx_field] in *. andb_split.
      rewrite Hk by assumption. destruct v; try discriminate. reflexivity.
  - split; reflexivity.
  - intros v Hv vs [Hi Ht]. split; intros Hw Hp.
    + cbn [wf_items plain_values sx_items] in *. andb_split. rewrite Hv, Hi by assumption.
      match goal with H : negb (is_header v) = true |- _ => rewrite H end. reflexivity.
    + cbn [wf_tail plain_values sx_items] in *. andb_split. rewrite Hv, Ht by assumption.
      destruct v; try discriminate. reflexivity.
Qed.

Lemma wf_plain_sx_doc d : wf_doc d -> plain_fields d = true -> sx_fields d = true.
Proof. intros Hw Hp. exact (proj1 (proj1 (proj2 (proj2 wf_plain_sx)) d) Hw Hp). Qed.

Theorem reader_path_ext_bytes decode pf F sh d l sch capv :
  plain_fields d = true -> wf_doc d -> wf_layout d l -> wf_bytes (render d l) ->
  no_fail sch -> need (render d l) <= capv -> fits2 false decode pf F sh d ->
  deser_reader decode pf F sh capv sch (render d l) = spec_value2 false decode pf F sh d.
Proof.
  intros Hp Hw Hl Hb Hnf Hn Hf. unfold deser_reader.
  rewrite (proj2 (reader_tokens_bytes d l sch capv Hw Hp Hl Hb Hnf Hn)). cbn [obind].
  apply stream_path_spec2; [apply wf_plain_sx_doc; assumption | exact Hf].
Qed.

Theorem slice_path_ext_bytes tp decode pf F sh d l :
  wf_doc d -> wf_layout d l -> fits2 tp decode pf F sh d ->
  deser_slice decode pf F sh (render d l) = spec_value2 tp decode pf F sh d.
Proof.
  intros Hw Hl Hf. unfold deser_slice.
  rewrite (TextParseProofs.parse_render d l Hw Hl). cbn [obind fst].
  apply tape_path_spec2; [apply wf_ext; exact Hw | exact Hf].
Qed.

Theorem paths_agree_ext_bytes decode pf F sh d l sch capv :
  plain_fields d = true -> wf_doc d -> wf_layout d l -> wf_bytes (render d l) ->
  no_fail sch -> need (render d l) <= capv -> fits2 false decode pf F sh d ->
  deser_slice decode pf F sh (render d l) = deser_reader decode pf F sh capv sch (render d l).
Proof.
  intros. rewrite (slice_path_ext_bytes false), reader_path_ext_bytes by assumption. reflexivity.
Qed.
