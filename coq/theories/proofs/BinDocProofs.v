(* Facts about abstract binary documents (BinDoc.v) shared by the three path proofs:
   induction principle, tokens of well-formed documents are well-formed tokens, lexing the
   encoding token by token, balanced reading / value_read of an encoded value (what the C09 skip
   theorems need). *)
From JV Require Import Bytes Tables BinPrim BinLexer SerdeShape BinDeCommon BinDoc.
From JV.proofs Require Import BinLexProofs BinRoundProofs BinSkipProofs.
Open Scope N_scope.

Section BvalInd.
  Variable P : bval -> Prop.
  Hypothesis HS : forall s, P (VScalar s).
  Hypothesis HR : forall c, P (VRgb c).
  Hypothesis HA : forall vs, Forall P vs -> P (VArr vs).
  Hypothesis HO : forall fs g, Forall (fun f : bfield => P (bf_val f)) fs -> P (VObj fs g).
  Fixpoint bval_ind' (v : bval) : P v :=
    match v with
    | VScalar s => HS s
    | VRgb c => HR c
    | VArr vs => HA vs ((fix go (l : list bval) : Forall P l :=
                           match l with [] => Forall_nil _ | x :: r => Forall_cons _ (bval_ind' x) (go r) end) vs)
    | VObj fs g => HO fs g ((fix go (l : list bfield) : Forall (fun f : bfield => P (bf_val f)) l :=
                               match l with [] => Forall_nil _ | x :: r => Forall_cons _ (bval_ind' (bf_val x)) (go r) end) fs)
    end.
End BvalInd.

(* ---------------------------------------------------------------- bytes of token lists *)
Lemma wbytes_nil : wbytes [] = [].
Proof. reflexivity. Qed.
Lemma wbytes_cons t ts : wbytes (t :: ts) = write_token t ++ wbytes ts.
Proof. reflexivity. Qed.
Lemma wbytes_app a b : wbytes (a ++ b) = wbytes a ++ wbytes b.
Proof. unfold wbytes. rewrite map_app, concat_app. reflexivity. Qed.

Lemma read_token_wbytes t ts X : wf_tok t -> read_token (wbytes (t :: ts) ++ X) = Ok (t, wbytes ts ++ X).
Proof. intros H. rewrite wbytes_cons, <- app_assoc. apply read_write_token, H. Qed.

Lemma wbytes_len ts : (2 * length ts <= length (wbytes ts))%nat.
Proof. apply concat_write_len. Qed.

(* ---------------------------------------------------------------- well-formedness *)
Lemma wf_scalar_tok s : wf_scalar s = true -> wf_tok (tok_of s).
Proof.
  destruct s; cbn [wf_scalar tok_of wf_tok]; intros H.
  - apply andb_prop in H as [H1 H2]. split; [exact H1|apply N.ltb_lt, H2].
  - apply N.ltb_lt, H.
  - apply N.ltb_lt, H.
  - apply andb_prop in H as [H1 H2]. apply Z.leb_le in H1. apply Z.ltb_lt in H2. lia.
  - apply N.ltb_lt, H.
  - apply N.ltb_lt, H.
  - apply andb_prop in H as [H1 H2]. apply Z.leb_le in H1. apply Z.ltb_lt in H2. lia.
  - exact I.
  - apply Nat.eqb_eq, H.
  - apply Nat.eqb_eq, H.
Qed.

Lemma wf_rgbb_ok c : wf_rgbb c = true -> wf_rgb c.
Proof.
  unfold wf_rgbb, wf_rgb, u32_ok. intros H.
  apply andb_prop in H as [H Ha]. apply andb_prop in H as [H Hb]. apply andb_prop in H as [Hr Hg].
  apply N.ltb_lt in Hr, Hg, Hb. repeat split; try assumption.
  destruct (rgb_a c); [apply N.ltb_lt, Ha|exact I].
Qed.

Lemma ghost_wf g : Forall wf_tok (ghost_toks g).
Proof. destruct g; cbn; repeat constructor. Qed.

Lemma Forall_flat_map {A B} (P : B -> Prop) (f : A -> list B) l :
  Forall (fun x => Forall P (f x)) l -> Forall P (flat_map f l).
Proof. induction 1; cbn [flat_map]; [constructor|apply Forall_app; split; assumption]. Qed.

Lemma wf_val_toks v : wf_val v = true -> Forall wf_tok (toks_val v).
Proof.
  induction v as [s|c|vs IH|fs g IH] using bval_ind'; cbn [wf_val toks_val]; intros H.
  - constructor; [apply wf_scalar_tok, H|constructor].
  - constructor; [apply wf_rgbb_ok, H|constructor].
  - constructor; [exact I|]. apply Forall_app; split; [|repeat constructor].
    apply Forall_flat_map. rewrite forallb_forall in H. rewrite Forall_forall in IH |- *.
    intros x Hx. apply IH; [exact Hx|apply H, Hx].
  - constructor; [exact I|].
    apply andb_prop in H as [_ H].
    apply Forall_app; split; [|apply Forall_app; split; [apply ghost_wf|repeat constructor]].
    apply Forall_flat_map. rewrite forallb_forall in H. rewrite Forall_forall in IH |- *.
    intros f Hf. specialize (H f Hf). apply andb_prop in H as [H Hv]. apply andb_prop in H as [_ Hk].
    apply Forall_app; split; [apply ghost_wf|].
    constructor; [apply wf_scalar_tok, Hk|]. constructor; [exact I|]. apply IH; assumption.
Qed.

Lemma wf_field_toks f : wf_field f = true -> Forall wf_tok (toks_field f).
Proof.
  unfold wf_field, toks_field. intros H. apply andb_prop in H as [H Hv]. apply andb_prop in H as [_ Hk].
  apply Forall_app; split; [apply ghost_wf|].
  constructor; [apply wf_scalar_tok, Hk|]. constructor; [exact I|]. apply wf_val_toks, Hv.
Qed.

Lemma wf_fields_toks fs : forallb wf_field fs = true -> Forall wf_tok (toks_fields fs).
Proof.
  intros H. apply Forall_flat_map. rewrite forallb_forall in H. rewrite Forall_forall.
  intros f Hf. apply wf_field_toks, H, Hf.
Qed.

(* the first token of a value *)
Definition head_tok (v : bval) : btoken :=
  match v with VScalar s => tok_of s | VRgb c => BRgb c | VArr _ | VObj _ _ => BOpen end.
Lemma toks_val_head v : exists ts, toks_val v = head_tok v :: ts.
Proof. destruct v; cbn [toks_val head_tok]; eexists; reflexivity. Qed.

(* ---------------------------------------------------------------- balanced reading *)
(* running depth over a token list; None = the close that ends the container was met *)
Fixpoint bal (ts : list btoken) (d : nat) : option nat :=
  match ts with
  | [] => Some d
  | BClose :: r => if Nat.eqb d 1 then None else bal r (d - 1)
  | BOpen :: r => bal r (S d)
  | _ :: r => bal r d
  end.

Lemma bal_app a b d : bal (a ++ b) d = match bal a d with Some d' => bal b d' | None => None end.
Proof.
  revert d. induction a as [|t a IH]; intros d; [reflexivity|].
  cbn [app]. destruct t; cbn [bal]; try apply IH.
  destruct (Nat.eqb d 1); [reflexivity|apply IH].
Qed.

Lemma bal_run ts : forall fuel d d' X, Forall wf_tok ts -> bal ts d = Some d' -> (length ts <= fuel)%nat ->
  balanced_fuel fuel d (wbytes ts ++ X) = balanced_fuel (fuel - length ts) d' X.
Proof.
  induction ts as [|t ts IH]; intros fuel d d' X W B L.
  - cbn in B. inversion B; subst. cbn [length wbytes map concat app]. rewrite Nat.sub_0_r. reflexivity.
  - inversion W as [|? ? Wt Wts]; subst. cbn [length] in L. destruct fuel as [|fuel]; [lia|].
    cbn [balanced_fuel]. rewrite read_token_wbytes by exact Wt. cbn [length Nat.sub].
    destruct t; cbn [bal] in B; try (apply IH; [assumption|assumption|lia]).
    destruct (Nat.eqb d 1); [discriminate|apply IH; [assumption|assumption|lia]].
Qed.

Lemma bal_ghost g d : (1 <= d)%nat -> bal (ghost_toks g) d = Some d.
Proof.
  intros L. destruct g; cbn [ghost_toks bal]; [|reflexivity].
  destruct d; [lia|]. reflexivity.
Qed.

Lemma bal_flat {A} (f : A -> list btoken) l d : (1 <= d)%nat ->
  Forall (fun x => forall d, (1 <= d)%nat -> bal (f x) d = Some d) l -> bal (flat_map f l) d = Some d.
Proof.
  intros L. induction 1 as [|x r Hx _ IH]; cbn [flat_map]; [reflexivity|]. rewrite bal_app, Hx by exact L. exact IH.
Qed.

Lemma bal_val v : forall d, (1 <= d)%nat -> bal (toks_val v) d = Some d.
Proof.
  induction v as [s|c|vs IH|fs g IH] using bval_ind'; intros d L; cbn [toks_val].
  - destruct s; reflexivity.
  - reflexivity.
  - cbn [bal]. rewrite bal_app, (bal_flat toks_val vs (S d)) by (try lia; exact IH).
    destruct d; [lia|reflexivity].
  - cbn [bal]. rewrite bal_app.
    rewrite (bal_flat (fun f : bfield => ghost_toks (bf_ghost f) ++ tok_of (bf_key f) :: BEqual :: toks_val (bf_val f)) fs (S d)).
    + rewrite bal_app, bal_ghost by lia. destruct d; [lia|reflexivity].
    + lia.
    + rewrite Forall_forall in IH |- *. intros f Hf d0 L0. rewrite bal_app, bal_ghost by exact L0.
      destruct (bf_key f); cbn [tok_of bal]; apply IH; assumption.
Qed.

(* from just after the Open of an encoded container: the matching close is its own *)
Lemma balanced_inner inner X : Forall wf_tok inner -> bal inner 1 = Some 1%nat ->
  balanced_read (wbytes (inner ++ [BClose]) ++ X) = Some X.
Proof.
  intros W B. unfold balanced_read. rewrite wbytes_app, <- app_assoc.
  pose proof (wbytes_len inner) as L1.
  rewrite (bal_run inner _ 1 1 _ W B) by (rewrite !app_length; lia).
  remember (_ - length inner)%nat as fuel eqn:Ef.
  assert (1 <= fuel)%nat.
  { subst fuel. rewrite !app_length. cbn [wbytes map concat]. rewrite app_nil_r.
    pose proof (write_token_len BClose). lia. }
  destruct fuel as [|fuel]; [lia|]. cbn [balanced_fuel].
  rewrite (read_token_wbytes BClose [] X I). reflexivity.
Qed.

Lemma balanced_arr vs X : forallb wf_val vs = true ->
  balanced_read (wbytes (flat_map toks_val vs ++ [BClose]) ++ X) = Some X.
Proof.
  intros W. apply balanced_inner.
  - apply Forall_flat_map. rewrite forallb_forall in W. apply Forall_forall. intros x Hx. apply wf_val_toks, W, Hx.
  - apply bal_flat; [lia|]. apply Forall_forall. intros x _ d. apply bal_val.
Qed.

Lemma balanced_obj fs g X : forallb wf_field fs = true ->
  balanced_read (wbytes (toks_fields fs ++ ghost_toks g ++ [BClose]) ++ X) = Some X.
Proof.
  intros W. rewrite app_assoc. apply balanced_inner.
  - apply Forall_app; split; [apply wf_fields_toks, W|apply ghost_wf].
  - rewrite bal_app. unfold toks_fields. rewrite (bal_flat toks_field fs 1).
    + apply bal_ghost. lia.
    + lia.
    + apply Forall_forall. intros f _ d L0. unfold toks_field. rewrite bal_app, bal_ghost by exact L0.
      destruct (bf_key f); cbn [tok_of bal]; apply bal_val; exact L0.
Qed.

Lemma wf_obj_fields fs g : wf_val (VObj fs g) = true -> forallb wf_field fs = true.
Proof. cbn [wf_val]. intros H. apply andb_prop in H as [_ H]. exact H. Qed.

Lemma value_read_val v X : wf_val v = true -> value_read (wbytes (toks_val v) ++ X) = Some X.
Proof.
  intros W. pose proof (wf_val_toks v W) as WT. unfold value_read.
  destruct v as [s|c|vs|fs g]; cbn [toks_val] in *.
  - inversion WT; subst. rewrite read_token_wbytes by assumption. destruct s; reflexivity.
  - inversion WT; subst. rewrite read_token_wbytes by assumption. reflexivity.
  - rewrite read_token_wbytes by exact I. apply balanced_arr, W.
  - rewrite read_token_wbytes by exact I. apply (balanced_obj fs g X), (wf_obj_fields _ _ W).
Qed.

(* ---------------------------------------------------------------- cursors as token sequences
   (shared by the on-demand and the streaming-reader proofs): what is still to come at a document
   cursor, inside a frame (the root, or a container followed by [rest]) *)
Inductive frame := FRoot | FIn (rest : bytes).
Definition frame_rest (phi : frame) : bytes := match phi with FRoot => [] | FIn r => r end.
Definition close_toks (phi : frame) : list btoken := match phi with FRoot => [] | FIn _ => [BClose] end.
Definition pend_toks (p : option bval) : list btoken :=
  match p with Some v => BEqual :: toks_val v | None => [] end.
Definition cur_toks (phi : frame) (c : dcur) : list btoken :=
  match c with
  | CSeq vs => flat_map toks_val vs ++ [BClose]
  | CMap fs g p => pend_toks p ++ toks_fields fs ++ ghost_toks g ++ close_toks phi
  | CDone => []
  end.
Definition wf_cur (c : dcur) : bool :=
  match c with
  | CSeq vs => forallb wf_val vs
  | CMap fs g p => forallb wf_field fs && match p with Some v => wf_val v | None => true end
  | CDone => true
  end.
Definition tail (phi : frame) (c : dcur) : bytes := wbytes (cur_toks phi c) ++ frame_rest phi.
Definition is_root (root : bool) (phi : frame) : Prop :=
  match phi with FRoot => root = true | FIn _ => root = false end.
Definition cur_done (c : dcur) : Prop := c = CDone.

Ltac wb_norm :=
  repeat (rewrite wbytes_app || rewrite wbytes_cons || rewrite <- app_assoc || rewrite <- app_comm_cons
          || rewrite wbytes_nil || rewrite app_nil_l).

Lemma tail_done phi : tail phi CDone = frame_rest phi.
Proof. reflexivity. Qed.

Lemma tail_seq_cons phi v vs : tail phi (CSeq (v :: vs)) = wbytes (toks_val v) ++ tail phi (CSeq vs).
Proof. unfold tail. cbn [cur_toks flat_map]. wb_norm. reflexivity. Qed.

Lemma tail_seq_nil phi : tail phi (CSeq []) = write_token BClose ++ frame_rest phi.
Proof. unfold tail. cbn [cur_toks flat_map]. wb_norm. reflexivity. Qed.

Lemma tail_map_pending phi fs g v :
  tail phi (CMap fs g (Some v)) = write_token BEqual ++ wbytes (toks_val v) ++ tail phi (CMap fs g None).
Proof. unfold tail. cbn [cur_toks pend_toks]. wb_norm. reflexivity. Qed.

Lemma tail_map_cons phi f fs g :
  tail phi (CMap (f :: fs) g None) =
  wbytes (ghost_toks (bf_ghost f)) ++ write_token (tok_of (bf_key f)) ++ tail phi (CMap fs g (Some (bf_val f))).
Proof.
  unfold tail. cbn [cur_toks pend_toks]. change (toks_fields (f :: fs)) with (toks_field f ++ toks_fields fs).
  unfold toks_field. wb_norm. reflexivity.
Qed.

Lemma tail_map_nil phi g :
  tail phi (CMap [] g None) = wbytes (ghost_toks g) ++ wbytes (close_toks phi) ++ frame_rest phi.
Proof. unfold tail. cbn [cur_toks pend_toks]. change (toks_fields []) with (@nil btoken). wb_norm. reflexivity. Qed.
