(* C13, part 2: totality of from_binary over i32 and re-encoding; date arithmetic. *)
From JV Require Import Bytes Tables U64Swar Scalar Date.
From JV.proofs Require Import DateProofs.
From Coq Require Import ZArith Lia List Bool.
Import ListNotations.
Open Scope Z_scope.

(* ---------- no crash in the constructors ---------- *)
Lemma raw_from_ymdh_some y m d h r :
  raw_from_ymdh_opt y m d h = Some r ->
  m <> 0 /\ m < 13 /\ d <> 0 /\ d < 32 /\ h < 25 /\ r = mkraw y (m * 4096 + d * 128 + h * 4).
Proof.
  unfold raw_from_ymdh_opt.
  destruct (m =? 0) eqn:E1; cbn [negb andb]; [discriminate|].
  destruct (m <? 13) eqn:E2; cbn [andb]; [|discriminate].
  destruct (d =? 0) eqn:E3; cbn [negb andb]; [discriminate|].
  destruct (d <? 32) eqn:E4; cbn [andb]; [|discriminate].
  destruct (h <? 25) eqn:E5; [|discriminate].
  intros H. inversion H. apply Z.eqb_neq in E1, E3. apply Z.ltb_lt in E2, E4, E5. repeat split; auto.
Qed.

Lemma dpm_ok m : m < 13 -> exists v, dpm m = Ok v.
Proof.
  intros Hm. unfold dpm.
  destruct (nth_error days_per_month (Z.to_nat m)) as [v|] eqn:E; [eauto|].
  apply nth_error_None in E. change (length days_per_month) with 13%nat in E. lia.
Qed.

Lemma date_from_ymd_nocrash y m d : is_crash (date_from_ymd_opt y m d) = false.
Proof.
  unfold date_from_ymd_opt. destruct (raw_from_ymdh_opt y m d 0) as [r|] eqn:E; [|reflexivity].
  apply raw_from_ymdh_some in E as (_ & Hm & _). destruct (dpm_ok m Hm) as (v & ->).
  cbn [obind]. destruct (d <=? v); reflexivity.
Qed.

Lemma datehour_from_ymdh_nocrash y m d h : is_crash (datehour_from_ymdh_opt y m d h) = false.
Proof.
  unfold datehour_from_ymdh_opt. destruct (raw_from_ymdh_opt y m d h) as [r|] eqn:E; [|reflexivity].
  apply raw_from_ymdh_some in E as (_ & Hm & _). destruct (dpm_ok m Hm) as (v & ->).
  cbn [obind]. destruct ((0 <? h) && (d <=? v)); reflexivity.
Qed.

Lemma date_from_expanded_nocrash x : is_crash (date_from_expanded x) = false.
Proof. unfold date_from_expanded. destruct (negb (xh x =? 0)); [reflexivity|apply date_from_ymd_nocrash]. Qed.

(* ---------- x_from_binary: total over i32, and exact shape of what it returns ---------- *)
Lemma x_from_binary_shape s :
  x_from_binary s = Ok None \/
  exists y o h m d j, x_from_binary s = Ok (Some (mkx y m d h)) /\
    s = ((y + 5000) * 365 + o) * 24 + h /\ h = Z.rem s 24 /\ 0 <= h <= 23 /\ 0 <= o <= 364 /\
    in_i16 y = true /\ valid_md m d = true /\ julian_ordinal_day m = Ok j /\ j + d = o.
Proof.
  unfold x_from_binary.
  pose proof (Z.quot_rem' s 24) as E1. pose proof (Z.quot_rem' (Z.quot s 24) 365) as E2.
  pose proof (Z.rem_bound_abs s 24 ltac:(lia)) as B1.
  pose proof (Z.rem_bound_abs (Z.quot s 24) 365 ltac:(lia)) as B2.
  set (h := Z.rem s 24) in *. set (s1 := Z.quot s 24) in *.
  set (o := Z.rem s1 365) in *. set (s2 := Z.quot s1 365) in *.
  destruct (h <? 0) eqn:Eh; [left; reflexivity|].
  destruct (o <? 0) eqn:Eo; [left; reflexivity|]. cbn [orb].
  apply Z.ltb_ge in Eh, Eo.
  destruct (in_i32 (s2 - 5000)); cbn [negb]; [|left; reflexivity].
  destruct (in_i16 (s2 - 5000)) eqn:Ey; cbn [negb]; [|left; reflexivity].
  assert (Ho : 0 <= o <= 364) by lia.
  destruct (dm_roundtrip o Ho) as (m & d & j & Hmd & Hv & Hj & Hjd).
  right. exists (s2 - 5000), o, h, m, d, j. rewrite Hmd. cbn [obind].
  repeat split; auto; try lia.
Qed.

Lemma x_from_binary_nocrash s : is_crash (x_from_binary s) = false.
Proof.
  destruct (x_from_binary_shape s) as [-> | (y & o & h & m & d & j & -> & _)]; reflexivity.
Qed.

Lemma olift_nocrash {A B} (x : outcome (option A)) (f : A -> outcome (option B)) :
  is_crash x = false -> (forall a, is_crash (f a) = false) -> is_crash (olift x f) = false.
Proof.
  intros Hx Hf. unfold olift. destruct x as [[a|]| | | |]; cbn [obind]; auto.
Qed.

Lemma date_from_binary_nocrash s : is_crash (date_from_binary s) = false.
Proof.
  apply olift_nocrash; [apply x_from_binary_nocrash|]. intros x. apply date_from_expanded_nocrash.
Qed.

Lemma date_from_binary_heuristic_nocrash s : is_crash (date_from_binary_heuristic s) = false.
Proof.
  apply olift_nocrash; [apply x_from_binary_nocrash|]. intros x.
  destruct (-100 <? xy x); [apply date_from_expanded_nocrash|reflexivity].
Qed.

Lemma datehour_from_binary_nocrash s : is_crash (datehour_from_binary s) = false.
Proof.
  apply olift_nocrash; [apply x_from_binary_nocrash|]. intros x. apply datehour_from_ymdh_nocrash.
Qed.

Lemma datehour_from_binary_heuristic_nocrash s : is_crash (datehour_from_binary_heuristic s) = false.
Proof.
  apply olift_nocrash; [apply datehour_from_binary_nocrash|]. intros r.
  cbv zeta. match goal with |- is_crash (if ?c then _ else _) = _ => destruct c end; reflexivity.
Qed.

(* ---------- whatever from_binary accepts re-encodes to the same day (and hour) ---------- *)
Lemma in_i32_true x : in_i32 x = true <-> -2147483648 <= x <= 2147483647.
Proof. unfold in_i32. rewrite andb_true_iff, !Z.leb_le. tauto. Qed.
Lemma in_i16_true x : in_i16 x = true <-> -32768 <= x <= 32767.
Proof. unfold in_i16. rewrite andb_true_iff, !Z.leb_le. tauto. Qed.

Lemma date_from_binary_reencode s r :
  in_i32 s = true -> date_from_binary s = Ok (Some r) -> date_to_binary r = Ok (s - Z.rem s 24).
Proof.
  intros Hs. unfold date_from_binary.
  destruct (x_from_binary_shape s) as [-> | (y & o & h & m & d & j & -> & Es & Eh & Hh & Ho & Hy & Hv & Hj & Hjd)];
    [discriminate|].
  unfold olift. cbn [obind xy xm xd xh]. unfold date_from_expanded. cbn [xh xy xm xd Z.eqb negb].
  destruct (date_from_ymd_valid y m d Hv) as (r' & Hr' & H1 & H2 & H3 & H4). rewrite Hr'.
  intros H. inversion H. subst r'. clear H.
  unfold date_to_binary. rewrite H2, Hj. cbn [obind]. unfold to_binary_z. rewrite H1, H3.
  change (0 <=? 1) with true. cbv iota.
  apply in_i32_true in Hs.
  assert (Hneg : s < 0 -> h = 0).
  { intros Hn. pose proof (Z.rem_nonpos s 24 ltac:(lia) ltac:(lia)). lia. }
  replace (in_i32 (((y + 5000) * 365 + (j + d)) * 24 + 0)) with true
    by (symmetry; apply in_i32_true; lia).
  f_equal. lia.
Qed.

Lemma datehour_from_binary_reencode s r :
  in_i32 s = true -> datehour_from_binary s = Ok (Some r) -> datehour_to_binary r = Ok s.
Proof.
  intros Hs. unfold datehour_from_binary.
  destruct (x_from_binary_shape s) as [-> | (y & o & h & m & d & j & -> & Es & Eh & Hh & Ho & Hy & Hv & Hj & Hjd)];
    [discriminate|].
  unfold olift. cbn [obind xy xm xd xh]. unfold datehour_from_expanded. cbn [xh xy xm xd].
  pose proof (valid_md_bounds _ _ Hv) as [Hm Hd].
  destruct (raw_fields y m d (h + 1) Hm Hd ltac:(lia)) as (r' & Hr' & H1 & H2 & H3 & H4).
  destruct (dpm_valid _ _ Hv) as (v & Hdp & Hle).
  unfold datehour_from_ymdh_opt. rewrite Hr'. cbn [obind]. rewrite Hdp. cbn [obind].
  replace ((0 <? h + 1) && (d <=? v)) with true
    by (symmetry; apply andb_true_intro; split; [apply Z.ltb_lt|apply Z.leb_le]; lia).
  intros H. inversion H. subst r'. clear H.
  unfold datehour_to_binary. rewrite H2, Hj. cbn [obind]. unfold to_binary_z. rewrite H1, H3, H4.
  apply in_i32_true in Hs.
  destruct (h + 1 <=? 1) eqn:Hh1.
  - apply Z.leb_le in Hh1.
    replace (in_i32 (((y + 5000) * 365 + (j + d)) * 24 + 0)) with true by (symmetry; apply in_i32_true; lia).
    f_equal. lia.
  - replace (in_i32 (((y + 5000) * 365 + (j + d)) * 24 + (h + 1 - 1))) with true by (symmetry; apply in_i32_true; lia).
    f_equal. lia.
Qed.

Theorem from_binary_total s :
  in_i32 s = true ->
  is_crash (date_from_binary s) = false /\ is_crash (datehour_from_binary s) = false /\
  is_crash (date_from_binary_heuristic s) = false /\ is_crash (datehour_from_binary_heuristic s) = false /\
  (forall r, date_from_binary s = Ok (Some r) -> date_to_binary r = Ok (s - Z.rem s 24)) /\
  (forall r, datehour_from_binary s = Ok (Some r) -> datehour_to_binary r = Ok s).
Proof.
  intros Hs. repeat split.
  - apply date_from_binary_nocrash.
  - apply datehour_from_binary_nocrash.
  - apply date_from_binary_heuristic_nocrash.
  - apply datehour_from_binary_heuristic_nocrash.
  - intros r. apply date_from_binary_reencode; auto.
  - intros r. apply datehour_from_binary_reencode; auto.
Qed.

(* ====================== date arithmetic ====================== *)
Lemma date_from_ymd_raw y m d r :
  date_from_ymd_opt y m d = Ok (Some r) -> raw_from_ymdh_opt y m d 0 = Some r.
Proof.
  unfold date_from_ymd_opt. destruct (raw_from_ymdh_opt y m d 0) as [r0|]; [|discriminate].
  destruct (dpm m) as [v| | | |]; cbn [obind]; try discriminate.
  destruct (d <=? v); intros H; inversion H; reflexivity.
Qed.

Lemma is_date_fields r :
  is_date r ->
  exists y m d j, in_i16 y = true /\ valid_md m d = true /\ date_from_ymd_opt y m d = Ok (Some r) /\
    ry r = y /\ raw_month r = m /\ raw_day r = d /\ raw_hour r = 0 /\ rdata r = m * 4096 + d * 128 /\
    julian_ordinal_day m = Ok j /\ 0 <= j + d <= 364.
Proof.
  intros (y & m & d & Hy & Hv & Hr).
  destruct (date_from_ymd_valid y m d Hv) as (r' & Hr' & H1 & H2 & H3 & H4).
  rewrite Hr in Hr'. inversion Hr'. subst r'.
  destruct (md_roundtrip m d Hv) as (j & Hj & _ & Ho).
  exists y, m, d, j. repeat split; auto; try lia.
  apply date_from_ymd_raw in Hr. apply raw_from_ymdh_some in Hr as (_ & _ & _ & _ & _ & ->).
  cbn [rdata]. lia.
Qed.

Lemma date_days_eq r y m d j :
  ry r = y -> raw_month r = m -> raw_day r = d -> julian_ordinal_day m = Ok j ->
  date_days r = Ok (if y * 365 <? 0 then y * 365 - j - d else y * 365 + j + d).
Proof. intros <- <- <- Hj. unfold date_days. rewrite Hj. reflexivity. Qed.

Lemma is_date_days r :
  is_date r -> exists D o, date_days r = Ok D /\ 0 <= o <= 364 /\
    ((0 <= ry r /\ D = ry r * 365 + o) \/ (ry r < 0 /\ D = ry r * 365 - o)).
Proof.
  intros H. destruct (is_date_fields r H) as (y & m & d & j & Hy & Hv & Hr & H1 & H2 & H3 & H4 & H5 & Hj & Ho).
  rewrite (date_days_eq r y m d j H1 H2 H3 Hj). rewrite H1.
  destruct (y * 365 <? 0) eqn:E; [apply Z.ltb_lt in E|apply Z.ltb_ge in E].
  - exists (y * 365 - j - d), (j + d). split; [reflexivity|]. split; [lia|]. right. lia.
  - exists (y * 365 + j + d), (j + d). split; [reflexivity|]. split; [lia|]. left. lia.
Qed.

(* the date with year [y] and ordinal [o] *)
Lemma date_of_ordinal y o :
  in_i16 y = true -> 0 <= o <= 364 ->
  exists m d r, month_day_from_julian o = Ok (m, d) /\ raw_from_ymdh_opt y m d 0 = Some r /\ is_date r /\
    ry r = y /\ date_days r = Ok (if y * 365 <? 0 then y * 365 - o else y * 365 + o).
Proof.
  intros Hy Ho. destruct (dm_roundtrip o Ho) as (m & d & j & Hmd & Hv & Hj & Hjd).
  destruct (date_from_ymd_valid y m d Hv) as (r & Hr & H1 & H2 & H3 & H4).
  exists m, d, r. split; [exact Hmd|]. split; [apply date_from_ymd_raw; exact Hr|].
  split; [exists y, m, d; auto|]. split; [exact H1|].
  rewrite (date_days_eq r y m d j H1 H2 H3 Hj). destruct (y * 365 <? 0); f_equal; lia.
Qed.

Theorem add_days_until r n D :
  is_date r -> date_days r = Ok D ->
  0 <= D + n < 11960320 \/ -11960685 < D + n <= -365 ->
  exists r', add_days r n = Ok r' /\ is_date r' /\ date_days r' = Ok (D + n) /\ days_until r r' = Ok n.
Proof.
  intros Hd HD Hside.
  destruct (is_date_fields r Hd) as (y & m & d & j & Hy & Hv & Hr & H1 & H2 & H3 & H4 & H5 & Hj & Ho).
  destruct (is_date_days r Hd) as (D' & o & HD' & Hor & Hcase). rewrite HD in HD'. inversion HD'. subst D'. clear HD'.
  rewrite H1 in Hcase. apply in_i16_true in Hy.
  assert (Hn32 : in_i32 (D + n) = true) by (apply in_i32_true; lia).
  assert (Hyear : in_i16 (Z.quot (D + n) 365) = true).
  { apply in_i16_true. destruct Hside as [Hs|Hs]; Z.to_euclidean_division_equations; lia. }
  assert (Hdsj : 0 <= Z.abs (Z.rem (D + n) 365) <= 364) by (Z.to_euclidean_division_equations; lia).
  destruct (date_of_ordinal _ _ Hyear Hdsj) as (m' & d' & r' & Hmd' & Hraw' & Hd' & Hy' & Hdays').
  assert (Hdays'' : date_days r' = Ok (D + n)).
  { rewrite Hdays'. f_equal.
    destruct (Z.quot (D + n) 365 * 365 <? 0) eqn:E; [apply Z.ltb_lt in E|apply Z.ltb_ge in E];
      destruct Hside as [Hs|Hs]; Z.to_euclidean_division_equations; lia. }
  exists r'. split; [|split; [exact Hd'|split; [exact Hdays''|]]].
  - unfold add_days. rewrite HD. cbn [obind]. rewrite Hn32. cbn [negb]. rewrite Hmd'. cbn [obind].
    rewrite Hyear. cbn [negb]. rewrite H4, Hraw'. reflexivity.
  - unfold days_until. rewrite HD, Hdays''. cbn [obind].
    replace (D + n - D) with n by lia.
    replace (in_i32 n) with true by (symmetry; apply in_i32_true; lia). reflexivity.
Qed.

(* ordering: packed month/day compares like the ordinal day *)
Definition ord_check (m1 d1 m2 d2 : Z) : bool :=
  negb (valid_md m1 d1 && valid_md m2 d2) ||
  match julian_ordinal_day m1, julian_ordinal_day m2 with
  | Ok j1, Ok j2 =>
      match m1 * 4096 + d1 * 128 ?= m2 * 4096 + d2 * 128, j1 + d1 ?= j2 + d2 with
      | Lt, Lt | Eq, Eq | Gt, Gt => true | _, _ => false end
  | _, _ => false end.

Lemma ord_check_all :
  forallb (fun m1 => forallb (fun d1 => forallb (fun m2 => forallb (fun d2 => ord_check m1 d1 m2 d2)
     (zrange 1 31)) (zrange 1 12)) (zrange 1 31)) (zrange 1 12) = true.
Proof. vm_compute. reflexivity. Qed.

Lemma ord_packed m1 d1 m2 d2 j1 j2 :
  valid_md m1 d1 = true -> valid_md m2 d2 = true ->
  julian_ordinal_day m1 = Ok j1 -> julian_ordinal_day m2 = Ok j2 ->
  (m1 * 4096 + d1 * 128 ?= m2 * 4096 + d2 * 128) = (j1 + d1 ?= j2 + d2).
Proof.
  intros V1 V2 J1 J2. pose proof (valid_md_bounds _ _ V1) as [Hm1 Hd1]. pose proof (valid_md_bounds _ _ V2) as [Hm2 Hd2].
  pose proof ord_check_all as Hall.
  rewrite forallb_forall in Hall. specialize (Hall m1 (zrange_in 1 12 m1 ltac:(lia))).
  rewrite forallb_forall in Hall. specialize (Hall d1 (zrange_in 1 31 d1 ltac:(lia))).
  rewrite forallb_forall in Hall. specialize (Hall m2 (zrange_in 1 12 m2 ltac:(lia))).
  rewrite forallb_forall in Hall. specialize (Hall d2 (zrange_in 1 31 d2 ltac:(lia))).
  unfold ord_check in Hall. rewrite V1, V2, J1, J2 in Hall. cbn [andb negb orb] in Hall.
  destruct (m1 * 4096 + d1 * 128 ?= m2 * 4096 + d2 * 128), (j1 + d1 ?= j2 + d2); try discriminate; reflexivity.
Qed.

Theorem ord_sign r1 r2 :
  is_date r1 -> is_date r2 -> 0 <= ry r1 -> 0 <= ry r2 ->
  exists n, days_until r1 r2 = Ok n /\ (raw_cmp r1 r2 = Lt <-> 0 < n) /\ (raw_cmp r1 r2 = Eq <-> n = 0)
            /\ (raw_cmp r1 r2 = Gt <-> n < 0).
Proof.
  intros Hd1 Hd2 Hy1 Hy2.
  destruct (is_date_fields r1 Hd1) as (y1 & m1 & d1 & j1 & Hi1 & V1 & _ & A1 & A2 & A3 & _ & A5 & J1 & O1).
  destruct (is_date_fields r2 Hd2) as (y2 & m2 & d2 & j2 & Hi2 & V2 & _ & B1 & B2 & B3 & _ & B5 & J2 & O2).
  unfold days_until.
  rewrite (date_days_eq r1 y1 m1 d1 j1 A1 A2 A3 J1), (date_days_eq r2 y2 m2 d2 j2 B1 B2 B3 J2). cbn [obind].
  rewrite A1 in Hy1. rewrite B1 in Hy2. apply in_i16_true in Hi1, Hi2.
  replace (y1 * 365 <? 0) with false by (symmetry; apply Z.ltb_ge; lia).
  replace (y2 * 365 <? 0) with false by (symmetry; apply Z.ltb_ge; lia).
  set (n := y2 * 365 + j2 + d2 - (y1 * 365 + j1 + d1)).
  replace (in_i32 n) with true by (symmetry; apply in_i32_true; unfold n; lia).
  exists n. split; [reflexivity|].
  unfold raw_cmp. rewrite A1, B1, A5, B5, (ord_packed m1 d1 m2 d2 j1 j2 V1 V2 J1 J2).
  destruct (Z.compare_spec y1 y2) as [Ey|Ey|Ey].
  - rewrite Z.compare_lt_iff, Z.compare_eq_iff, Z.compare_gt_iff. unfold n. lia.
  - unfold n. repeat split; intros; try discriminate; lia.
  - unfold n. repeat split; intros; try discriminate; lia.
Qed.
