(* C13, part 2: totality of from_binary over i32 and re-encoding; date arithmetic. *)
From JV Require Import Bytes Tables U64Swar Scalar Date.
From JV.proofs Require Import DateProofs.
From Coq Require Import ZArith Lia List Bool.
Import ListNotations.
Open Scope Z_scope.

(* ---------- no crash in the constructors ---------- *)
Lemma raw_from_ymdh_some y m d h r :
  raw_from_ymdh_opt y m d h = Some r ->
  m <> 0 /\ m < 13 /\ d <> 0 /\ d < 32 /\ h < 25 /\ r = mkraw y (m * 4096 + d * 128 + h * 4).
Proof.
  unfold raw_from_ymdh_opt.
  destruct (m =? 0) eqn:E1; cbn [negb andb]; [discriminate|].
  destruct (m <? 13) eqn:E2; cbn [andb]; [|discriminate].
  destruct (d =? 0) eqn:E3; cbn [negb andb]; [discriminate|].
  destruct (d <? 32) eqn:E4; cbn [andb]; [|discriminate].
  destruct (h <? 25) eqn:E5; [|discriminate].
  intros H. inversion H. apply Z.eqb_neq in E1, E3. apply Z.ltb_lt in E2, E4, E5. repeat split; auto.
Qed.

Lemma dpm_ok m : m < 13 -> exists v, dpm m = Ok v.
Proof.
  intros Hm. unfold dpm.
  destruct (nth_error days_per_month (Z.to_nat m)) as [v|] eqn:E; [eauto|].
  apply nth_error_None in E. change (length days_per_month) with 13%nat in E. lia.
Qed.

Lemma date_from_ymd_nocrash y m d : is_crash (date_from_ymd_opt y m d) = false.
Proof.
  unfold date_from_ymd_opt. destruct (raw_from_ymdh_opt y m d 0) as [r|] eqn:E; [|reflexivity].
  apply raw_from_ymdh_some in E as (_ & Hm & _). destruct (dpm_ok m Hm) as (v & ->).
  cbn [obind]. destruct (d <=? v); reflexivity.
Qed.

Lemma datehour_from_ymdh_nocrash y m d h : is_crash (datehour_from_ymdh_opt y m d h) = false.
Proof.
  unfold datehour_from_ymdh_opt. destruct (raw_from_ymdh_opt y m d h) as [r|] eqn:E; [|reflexivity].
  apply raw_from_ymdh_some in E as (_ & Hm & _). destruct (dpm_ok m Hm) as (v & ->).
  cbn [obind]. destruct ((0 <? h) && (d <=? v)); reflexivity.
Qed.

Lemma date_from_expanded_nocrash x : is_crash (date_from_expanded x) = false.
Proof. unfold date_from_expanded. destruct (negb (xh x =? 0)); [reflexivity|apply date_from_ymd_nocrash]. Qed.

(* ---------- x_from_binary: total over i32, and exact shape of what it returns ---------- *)
Lemma x_from_binary_shape s :
  x_from_binary s = Ok None \/
  exists y o h m d j, x_from_binary s = Ok (Some (mkx y m d h)) /\
    s = ((y + 5000) * 365 + o) * 24 + h /\ h = Z.rem s 24 /\ 0 <= h <= 23 /\ 0 <= o <= 364 /\
    in_i16 y = true /\ valid_md m d = true /\ julian_ordinal_day m = Ok j /\ j + d = o.
Proof.
  unfold x_from_binary.
  pose proof (Z.quot_rem' s 24) as E1. pose proof (Z.quot_rem' (Z.quot s 24) 365) as E2.
  pose proof (Z.rem_bound_abs s 24 ltac:(lia)) as B1.
  pose proof (Z.rem_bound_abs (Z.quot s 24) 365 ltac:(lia)) as B2.
  set (h := Z.rem s 24) in *. set (s1 := Z.quot s 24) in *.
  set (o := Z.rem s1 365) in *. set (s2 := Z.quot s1 365) in *.
  destruct (h <? 0) eqn:Eh; [left; reflexivity|].
  destruct (o <? 0) eqn:Eo; [left; reflexivity|]. cbn [orb].
  apply Z.ltb_ge in Eh, Eo.
  destruct (in_i32 (s2 - 5000)); cbn [negb]; [|left; reflexivity].
  destruct (in_i16 (s2 - 5000)) eqn:Ey; cbn [negb]; [|left; reflexivity].
  assert (Ho : 0 <= o <= 364) by lia.
  destruct (dm_roundtrip o Ho) as (m & d & j & Hmd & Hv & Hj & Hjd).
  right. exists (s2 - 5000), o, h, m, d, j. rewrite Hmd. cbn [obind].
  repeat split; auto; try lia.
Qed.

Lemma x_from_binary_nocrash s : is_crash (x_from_binary s) = false.
Proof.
  destruct (x_from_binary_shape s) as [-> | (y & o & h & m & d & j & -> & _)]; reflexivity.
Qed.

Lemma olift_nocrash {A B} (x : outcome (option A)) (f : A -> outcome (option B)) :
  is_crash x = false -> (forall a, is_crash (f a) = false) -> is_crash (olift x f) = false.
Proof.
  intros Hx Hf. unfold olift. destruct x as [[a|]| | | |]; cbn [obind]; auto.
Qed.

Lemma date_from_binary_nocrash s : is_crash (date_from_binary s) = false.
Proof.
  apply olift_nocrash; [apply x_from_binary_nocrash|]. intros x. apply date_from_expanded_nocrash.
Qed.

Lemma date_from_binary_heuristic_nocrash s : is_crash (date_from_binary_heuristic s) = false.
Proof.
  apply olift_nocrash; [apply x_from_binary_nocrash|]. intros x.
  destruct (-100 <? xy x); [apply date_from_expanded_nocrash|reflexivity].
Qed.

Lemma datehour_from_binary_nocrash s : is_crash (datehour_from_binary s) = false.
Proof.
  apply olift_nocrash; [apply x_from_binary_nocrash|]. intros x. apply datehour_from_ymdh_nocrash.
Qed.

Lemma datehour_from_binary_heuristic_nocrash s : is_crash (datehour_from_binary_heuristic s) = false.
Proof.
  apply olift_nocrash; [apply datehour_from_binary_nocrash|]. intros r.
  cbv zeta. match goal with |- is_crash (if ?c then _ else _) = _ => destruct c end; reflexivity.
Qed.

(* ---------- whatever from_binary accepts re-encodes to the same day (and hour) ---------- *)
Lemma in_i32_true x : in_i32 x = true <-> -2147483648 <= x <= 2147483647.
Proof. unfold in_i32. rewrite andb_true_iff, !Z.leb_le. tauto. Qed.
Lemma in_i16_true x : in_i16 x = true <-> -32768 <= x <= 32767.
Proof. unfold in_i16. rewrite andb_true_iff, !Z.leb_le. tauto. Qed.

Lemma date_from_binary_reencode s r :
  in_i32 s = true -> date_from_binary s = Ok (Some r) -> date_to_binary r = Ok (s - Z.rem s 24).
Proof.
  intros Hs. unfold date_from_binary.
  destruct (x_from_binary_shape s) as [-> | (y & o & h & m & d & j & -> & Es & Eh & Hh & Ho & Hy & Hv & Hj & Hjd)];
    [discriminate|].
  unfold olift. cbn [obind xy xm xd xh]. unfold date_from_expanded. cbn [xh xy xm xd Z.eqb negb].
  destruct (date_from_ymd_valid y m d Hv) as (r' & Hr' & H1 & H2 & H3 & H4). rewrite Hr'.
  intros H. inversion H. subst r'. clear H.
  unfold date_to_binary. rewrite H2, Hj. cbn [obind]. unfold to_binary_z. rewrite H1, H3.
  change (0 <=? 1) with true. cbv iota.
  apply in_i32_true in Hs.
  assert (Hneg : s < 0 -> h = 0).
  { intros Hn. pose proof (Z.rem_nonpos s 24 ltac:(lia) ltac:(lia)). lia. }
  replace (in_i32 (((y + 5000) * 365 + (j + d)) * 24 + 0)) with true
    by (symmetry; apply in_i32_true; lia).
  f_equal. lia.
Qed.

Lemma datehour_from_binary_reencode s r :
  in_i32 s = true -> datehour_from_binary s = Ok (Some r) -> datehour_to_binary r = Ok s.
Proof.
  intros Hs. unfold datehour_from_binary.
  destruct (x_from_binary_shape s) as [-> | (y & o & h & m & d & j & -> & Es & Eh & Hh & Ho & Hy & Hv & Hj & Hjd)];
    [discriminate|].
  unfold olift. cbn [obind xy xm xd xh]. unfold datehour_from_expanded. cbn [xh xy xm xd].
  pose proof (valid_md_bounds _ _ Hv) as [Hm Hd].
  destruct (raw_fields y m d (h + 1) Hm Hd ltac:(lia)) as (r' & Hr' & H1 & H2 & H3 & H4).
  destruct (dpm_valid _ _ Hv) as (v & Hdp & Hle).
  unfold datehour_from_ymdh_opt. rewrite Hr'. cbn [obind]. rewrite Hdp. cbn [obind].
  replace ((0 <? h + 1) && (d <=? v)) with true
    by (symmetry; apply andb_true_intro; split; [apply Z.ltb_lt|apply Z.leb_le]; lia).
  intros H. inversion H. subst r'. clear H.
  unfold datehour_to_binary. rewrite H2, Hj. cbn [obind]. unfold to_binary_z. rewrite H1, H3, H4.
  apply in_i32_true in Hs.
  destruct (h + 1 <=? 1) eqn:Hh1.
  - apply Z.leb_le in Hh1.
    replace (in_i32 (((y + 5000) * 365 + (j + d)) * 24 + 0)) with true by (symmetry; apply in_i32_true; lia).
    f_equal. lia.
  - replace (in_i32 (((y + 5000) * 365 + (j + d)) * 24 + (h + 1 - 1))) with true by (symmetry; apply in_i32_true; lia).
    f_equal. lia.
Qed.

Theorem from_binary_total s :
  in_i32 s = true ->
  is_crash (date_from_binary s) = false /\ is_crash (datehour_from_binary s) = false /\
  is_crash (date_from_binary_heuristic s) = false /\ is_crash (datehour_from_binary_heuristic s) = false /\
  (forall r, date_from_binary s = Ok (Some r) -> date_to_binary r = Ok (s - Z.rem s 24)) /\
  (forall r, datehour_from_binary s = Ok (Some r) -> datehour_to_binary r = Ok s).
Proof.
  intros Hs. repeat split.
  - apply date_from_binary_nocrash.
  - apply datehour_from_binary_nocrash.
  - apply date_from_binary_heuristic_nocrash.
  - apply datehour_from_binary_heuristic_nocrash.
  - intros r. apply date_from_binary_reencode; auto.
  - intros r. apply datehour_from_binary_reencode; auto.
Qed.
