(* C01, trailing white space / comments, for EVERY accepted byte string:

     parse d = Ok (t, b) -> gap_ok g -> starts_boundary g -> parse (d ++ g) = Ok (t, b)

   (right-hand counterpart of left_padding_all_inputs), and the sharper form in which the side
   condition on g is replaced by "d ends with a boundary byte" (then a gap that starts with ';'
   is fine too).  Plan:
   1. every scanner is local under extension of the data D by a tail g:
      - skip_ws (Some: any tail; None: a gap continues white space or an unterminated comment);
      - split_at_scalar when first_boundary (D ++ g) = first_boundary D; this holds for every
        non-empty suffix of the data ([stable g D]) when the first byte of g is a boundary byte, and
        also when D ends with a boundary byte;
      - parse_quote_scalar (via tq_scan): any tail;
      - parse_variable, op2, the `?=` look-ahead, parse_param: the first byte of g is none of
        [ = ! ([tail_ne]; true of every gap);
   2. [step_app]: step s = Next s' -> step (s +g) = Next (s' +g) (and the data of s' is a suffix of
      the data of s, which keeps [stable] alive), one lemma per state arm;
      [step_app_done]: step s = Done t -> step (s +g) = Done t for a gap g;
   3. ploop: the run on d ++ g follows the run on d (any larger fuel);
   4. the BOM test sees the same three bytes (the first byte of a gap is none of EF BB BF).
   The side condition is necessary: ';' is white space for skip_ws but not a boundary byte for the
   scalar scanner ([parse_trailing_gap_semicolon_refuted]). *)
From JV Require Import Bytes Tables TextTok TextTape TextTapeWf TextDoc.
From JV.proofs Require Import TextTapeWfProofs TextTapeInvProofs TextScanProofs TruncProofs TruncMainProofs.
From Coq Require Import Lia List Arith Bool.
Import ListNotations.
Open Scope nat_scope.

(* ------------------------------------------------------------------ tails, suffixes *)
(* what the one-byte look-aheads need of the first byte of the appended tail *)
Definition tail_ne (g : bytes) : Prop :=
  match g with
  | [] => True
  | c :: _ => N.eqb c 61 = false /\ N.eqb c 91 = false /\ N.eqb c 33 = false
  end.

Definition appS (g : bytes) (s : pstate) : pstate :=
  mkps (pdata s ++ g) (pst_ s) (pmixed s) (pparent s) (ptape s).

Definition sfx (D' D : bytes) : Prop := exists pre, D = pre ++ D'.

(* the bare-word scanner stops at the same place in every non-empty suffix of D when g follows *)
Definition stable (g D : bytes) : Prop :=
  forall D', sfx D' D -> D' <> [] -> first_boundary (D' ++ g) = first_boundary D'.

Definition ends_boundary (d : bytes) : Prop := exists d0 c, d = d0 ++ [c] /\ is_boundary c = true.

Lemma gap_head g : gap_ok g ->
  match g with [] => True | c :: _ => is_ws_t c = true \/ c = 35%N end.
Proof. intros H. inversion H; subst; auto. Qed.

Lemma gap_tail_ne g : gap_ok g -> tail_ne g.
Proof.
  intros Hg. pose proof (gap_head g Hg) as H. destruct g as [|c g']; [exact I|]. cbn [tail_ne].
  destruct H as [Hc| ->]; [|repeat split; reflexivity].
  unfold is_ws_t, beq in Hc.
  repeat (apply orb_prop in Hc; destruct Hc as [Hc|Hc]);
    apply N.eqb_eq in Hc; subst c; repeat split; reflexivity.
Qed.

Lemma sfx_refl D : sfx D D.
Proof. exists []. reflexivity. Qed.

Lemma sfx_trans A B C : sfx A B -> sfx B C -> sfx A C.
Proof. intros (p & ->) (q & ->). exists (q ++ p). apply app_assoc. Qed.

Lemma sfx_cons c D : sfx D (c :: D).
Proof. exists [c]. reflexivity. Qed.

Lemma sfx_skipn n D : sfx (skipn n D) D.
Proof. exists (firstn n D). symmetry. apply firstn_skipn. Qed.

Lemma sfx_skip_ws D D' : skip_ws_t D = Some D' -> sfx D' D.
Proof. intros H. apply skip_ws_t_spec in H. destruct H as (_ & pre & ->). exists pre. reflexivity. Qed.

Lemma sfx_tl c X D : sfx (c :: X) D -> sfx X D.
Proof. intros H. exact (sfx_trans _ _ _ (sfx_cons c X) H). Qed.

Lemma sfx_cons_r c X D : sfx X D -> sfx X (c :: D).
Proof. intros H. exact (sfx_trans _ _ _ H (sfx_cons c D)). Qed.

Lemma stable_sfx g D D' : stable g D -> sfx D' D -> stable g D'.
Proof. intros H S X SX. apply H. exact (sfx_trans _ _ _ SX S). Qed.

Lemma stable_self g D : stable g D -> D <> [] -> first_boundary (D ++ g) = first_boundary D.
Proof. intros H. apply H. apply sfx_refl. Qed.

Lemma first_boundary_app_has D g : find_idx is_boundary D 0 <> None ->
  first_boundary (D ++ g) = first_boundary D.
Proof.
  intros H. unfold first_boundary. rewrite find_idx_app.
  destruct (find_idx is_boundary D 0) as [i|]; [reflexivity|congruence].
Qed.

Lemma first_boundary_app D g : starts_boundary g -> first_boundary (D ++ g) = first_boundary D.
Proof.
  intros Hg. unfold first_boundary. rewrite find_idx_app.
  destruct (find_idx is_boundary D 0) as [i|]; [reflexivity|].
  destruct g as [|c g']; cbn [find_idx].
  - rewrite app_nil_r. reflexivity.
  - cbn [starts_boundary] in Hg. rewrite Hg. reflexivity.
Qed.

Lemma stable_starts g D : starts_boundary g -> stable g D.
Proof. intros Hg X _ _. apply first_boundary_app. exact Hg. Qed.

Lemma stable_ends g D : ends_boundary D -> stable g D.
Proof.
  intros (d0 & c & -> & Hc) X (pre & E) Hne.
  destruct (exists_last Hne) as (X0 & x & ->).
  rewrite app_assoc in E. apply app_inj_tail in E. destruct E as [_ <-].
  apply first_boundary_app_has. rewrite find_idx_app.
  destruct (find_idx is_boundary X0 0); [discriminate|]. cbn [find_idx]. rewrite Hc. discriminate.
Qed.

Lemma stable_nil D : stable [] D.
Proof. apply stable_starts. exact I. Qed.

(* ------------------------------------------------------------------ white space *)
Lemma skip_ws_c_app_some g : forall D b d', skip_ws_c b D = Some d' -> skip_ws_c b (D ++ g) = Some (d' ++ g).
Proof.
  induction D as [|c D IH]; intros b d'; cbn [app skip_ws_c]; [discriminate|].
  destruct b.
  - destruct (beq c 10); apply IH.
  - destruct (is_ws_t c); [apply IH|]. destruct (beq c 35); [apply IH|].
    intros H. injection H as <-. reflexivity.
Qed.

Lemma skip_ws_t_app_some g D d' : skip_ws_t D = Some d' -> skip_ws_t (D ++ g) = Some (d' ++ g).
Proof. apply skip_ws_c_app_some. Qed.

(* a gap is skipped whole, also when it is read from inside a comment *)
Lemma skip_ws_c_gap_none g : gap_ok g -> forall b, skip_ws_c b g = None.
Proof.
  induction 1 as [|c g Hc Hg IH|body g Hb Hg IH]; intros b.
  - reflexivity.
  - cbn [skip_ws_c]. rewrite Hc. destruct b; [|apply IH]. destruct (beq c 10); apply IH.
  - destruct b.
    + cbn [skip_ws_c]. change (beq 35 10) with false. cbv iota.
      rewrite skip_ws_comment by exact Hb. apply IH.
    + cbn [skip_ws_c]. change (is_ws_t 35) with false. change (beq 35 35) with true. cbv iota.
      rewrite skip_ws_comment by exact Hb. apply IH.
Qed.

Lemma skip_ws_c_app_none g : gap_ok g -> forall D b, skip_ws_c b D = None -> skip_ws_c b (D ++ g) = None.
Proof.
  intros Hg. induction D as [|c D IH]; intros b; cbn [app].
  - intros _. apply skip_ws_c_gap_none. exact Hg.
  - cbn [skip_ws_c]. destruct b.
    + destruct (beq c 10); apply IH.
    + destruct (is_ws_t c); [apply IH|]. destruct (beq c 35); [apply IH|]. discriminate.
Qed.

Lemma skip_ws_t_app_none g D : gap_ok g -> skip_ws_t D = None -> skip_ws_t (D ++ g) = None.
Proof. intros Hg. apply skip_ws_c_app_none. exact Hg. Qed.

(* ------------------------------------------------------------------ scanners *)
Lemma first_boundary_le D : first_boundary D <= length D.
Proof.
  unfold first_boundary. destruct (find_idx is_boundary D 0) as [i|] eqn:E; [|lia].
  apply find_idx_bounds in E. lia.
Qed.

Lemma firstn_app_le {A} n (D g : list A) : n <= length D -> firstn n (D ++ g) = firstn n D.
Proof. intros H. rewrite firstn_app. replace (n - length D) with 0 by lia. cbn [firstn]. apply app_nil_r. Qed.

Lemma skipn_app_le {A} n (D g : list A) : n <= length D -> skipn n (D ++ g) = skipn n D ++ g.
Proof. intros H. rewrite skipn_app. replace (n - length D) with 0 by lia. reflexivity. Qed.

Lemma split_at_scalar_sfx D a r : split_at_scalar D = Ok (a, r) -> sfx r D.
Proof.
  destruct D as [|c D']; [discriminate|]. unfold split_at_scalar. intros H. injection H as _ <-. apply sfx_skipn.
Qed.

Lemma split_at_scalar_app D g a r : stable g D -> D <> [] ->
  split_at_scalar D = Ok (a, r) -> split_at_scalar (D ++ g) = Ok (a, r ++ g).
Proof.
  intros Hg Hne.
  assert (Hne' : D ++ g <> []) by (destruct D; [congruence|discriminate]).
  rewrite (TextScanProofs.split_at_scalar_spec D Hne), (TextScanProofs.split_at_scalar_spec _ Hne').
  rewrite (stable_self g D Hg Hne).
  pose proof (first_boundary_le D) as Hle.
  assert (Hl : Nat.max 1 (first_boundary D) <= length D) by (destruct D; [congruence|cbn [length] in *; lia]).
  intros H. injection H as <- <-.
  rewrite firstn_app_le, skipn_app_le by exact Hl. reflexivity.
Qed.

Lemma tq_scan_app g : forall h k i, tq_scan h k = Some i -> tq_scan (h ++ g) k = Some i.
Proof.
  induction h as [h IH] using len_ind. intros k i.
  destruct h as [|c h1]; [discriminate|]. cbn [app tq_scan].
  destruct (beq c 92).
  - destruct h1 as [|x h2]; [discriminate|]. cbn [app]. apply IH. cbn [length]. lia.
  - destruct (beq c 34); [auto|]. apply IH. cbn [length]. lia.
Qed.

Lemma parse_quote_scalar_app D g a r :
  parse_quote_scalar D = Ok (a, r) -> parse_quote_scalar (D ++ g) = Ok (a, r ++ g) /\ sfx r D.
Proof.
  destruct D as [|c h]; [discriminate|]. cbn [app]. rewrite !quote_scalar_spec.
  destruct (tq_scan h 0) as [i|] eqn:E; [|discriminate].
  rewrite (tq_scan_app g _ _ _ E). pose proof (tq_scan_bound0 _ _ E) as Hi.
  intros H. injection H as <- <-.
  rewrite firstn_app_le, skipn_app_le by lia. split; [reflexivity|].
  exact (sfx_cons_r c _ _ (sfx_skipn (S i) h)).
Qed.

Lemma parse_variable_app D g a r : tail_ne g -> stable g D -> D <> [] ->
  parse_variable D = Ok (a, r) -> parse_variable (D ++ g) = Ok (a, r ++ g) /\ sfx r D.
Proof.
  intros Hn Hg Hne. destruct D as [|c0 [|c1 d2]]; [congruence| |].
  - (* a lone '@': the first byte of the tail is not '[' *)
    intros H. change (parse_variable [c0]) with (split_at_scalar [c0]) in H.
    assert (E : parse_variable ([c0] ++ g) = split_at_scalar ([c0] ++ g)).
    { destruct g as [|x g']; [reflexivity|]. cbn [app parse_variable].
      destruct Hn as (_ & H91 & _). unfold beq. rewrite H91. reflexivity. }
    rewrite E. split; [apply split_at_scalar_app; assumption | exact (split_at_scalar_sfx _ _ _ H)].
  - cbn [app parse_variable]. destruct (beq c1 91).
    + rewrite find_idx_app.
      destruct (find_idx (fun b => beq b 93) d2 2) as [pos|] eqn:Ef; [|discriminate].
      pose proof (find_idx_bounds _ _ _ _ Ef) as Hb.
      intros H. injection H as <- <-.
      change (c0 :: c1 :: d2 ++ g) with ((c0 :: c1 :: d2) ++ g).
      rewrite firstn_app_le, skipn_app_le by (cbn [length]; lia). split; [reflexivity|exact (sfx_skipn (S pos) (c0 :: c1 :: d2))].
    + change (c0 :: c1 :: d2 ++ g) with ((c0 :: c1 :: d2) ++ g). intros H.
      split; [apply split_at_scalar_app; assumption | exact (split_at_scalar_sfx _ _ _ H)].
Qed.

Lemma scalar_step_app D g c tok d' : tail_ne g -> stable g D -> D <> [] ->
  scalar_step D c = Ok (tok, d') -> scalar_step (D ++ g) c = Ok (tok, d' ++ g) /\ sfx d' D.
Proof.
  intros Hn Hg Hne. unfold scalar_step.
  destruct (beq c 34).
  - destruct (parse_quote_scalar D) as [[a r]| | | |] eqn:E; cbn [omap]; try discriminate.
    destruct (parse_quote_scalar_app _ g _ _ E) as [-> S]. cbn [omap fst snd].
    intros H. injection H as <- <-. auto.
  - destruct (beq c 64).
    + destruct (parse_variable D) as [[a r]| | | |] eqn:E; cbn [omap]; try discriminate.
      destruct (parse_variable_app _ g _ _ Hn Hg Hne E) as [-> S]. cbn [omap fst snd].
      intros H. injection H as <- <-. auto.
    + destruct (split_at_scalar D) as [[a r]| | | |] eqn:E; cbn [omap]; try discriminate.
      rewrite (split_at_scalar_app _ g _ _ Hg Hne E). cbn [omap fst snd].
      intros H. injection H as <- <-. split; [reflexivity | exact (split_at_scalar_sfx _ _ _ E)].
Qed.

Lemma next_is_eq_app l g : tail_ne g -> next_is_eq (l ++ g) = next_is_eq l.
Proof.
  intros Hg. destruct l as [|x l']; [|reflexivity]. cbn [app].
  destruct g as [|c g']; [reflexivity|]. cbn [next_is_eq]. destruct Hg as (H61 & _). exact H61.
Qed.

Lemma op2_app c l g : tail_ne g -> op2 ((c :: l) ++ g) = op2 (c :: l).
Proof. intros Hg. cbn [app]. rewrite !op2_char, next_is_eq_app by exact Hg. reflexivity. Qed.

(* ------------------------------------------------------------------ parse_parameter_definition *)
Lemma parse_param_app d g p st t (initial : bool) s' : tail_ne g -> stable g d ->
  parse_param d p st t initial = Next s' ->
  parse_param (d ++ g) p st t initial = Next (appS g s') /\ sfx (pdata s') d.
Proof.
  intros Hn Hg. unfold parse_param. rewrite !match_o91.
  destruct (nth_error d 1) as [c1|] eqn:E1; [|discriminate].
  destruct (N.eqb c1 91) eqn:E91; [|discriminate].
  assert (L1 : 1 < length d) by (apply nth_error_Some; congruence).
  rewrite (nth_error_app1 d g L1), E1, E91.
  match goal with |- context [if initial then ?a else ?b] => destruct (if initial then a else b) as [[t2 p2]|] end; [|discriminate].
  rewrite !match_o33.
  destruct (Nat.le_gt_cases (length d) 2) as [Hs|Hl].
  { (* `[[` and nothing else: rejected *)
    rewrite (proj2 (nth_error_None d 2)) by lia.
    destruct (Nat.ltb (length d) 2); [discriminate|]. rewrite skipn_all2 by lia. discriminate. }
  rewrite (nth_error_app1 d g Hl).
  set (undefined := match nth_error d 2 with Some c => if N.eqb c 33 then true else false | None => false end).
  set (off := if undefined then 3 else 2).
  assert (Hoff : 2 <= off <= 3) by (subst off; destruct undefined; lia).
  destruct (Nat.ltb_spec (length d) off) as [|Hlen]; [discriminate|].
  destruct (Nat.ltb_spec (length (d ++ g)) off) as [Hc|_]; [rewrite app_length in Hc; lia|].
  rewrite skipn_app_le by lia.
  pose proof (sfx_skipn off d) as S0.
  remember (skipn off d) as dd eqn:Edd.
  destruct dd as [|x dd']; [discriminate|].
  change ((x :: dd') ++ g) with (x :: dd' ++ g). cbv iota. change (x :: dd' ++ g) with ((x :: dd') ++ g).
  destruct (split_at_scalar (x :: dd')) as [[name d2]| | | |] eqn:Es; try discriminate.
  assert (Hne0 : x :: dd' <> []) by discriminate.
  rewrite (split_at_scalar_app _ g _ _ (stable_sfx _ _ _ Hg S0) Hne0 Es).
  pose proof (sfx_trans _ _ _ (split_at_scalar_sfx _ _ _ Es) S0) as S2.
  rewrite !match_b93. destruct d2 as [|c2 d3]; [discriminate|]. cbn [app].
  destruct (N.eqb c2 93) eqn:E93; [|discriminate].
  apply sfx_tl in S2.
  destruct (skip_ws_t d3) as [d4|] eqn:E4; [|discriminate].
  rewrite (skip_ws_t_app_some g _ _ E4).
  pose proof (skip_ws_nonempty _ _ E4) as Hne4.
  pose proof (sfx_trans _ _ _ (sfx_skip_ws _ _ E4) S2) as S4.
  destruct (split_at_scalar d4) as [[kv d5]| | | |] eqn:Es4; try discriminate.
  rewrite (split_at_scalar_app _ g _ _ (stable_sfx _ _ _ Hg S4) Hne4 Es4).
  pose proof (sfx_trans _ _ _ (split_at_scalar_sfx _ _ _ Es4) S4) as S5.
  destruct (skip_ws_t d5) as [d6|] eqn:E6; [|discriminate].
  rewrite (skip_ws_t_app_some g _ _ E6).
  pose proof (sfx_trans _ _ _ (sfx_skip_ws _ _ E6) S5) as S6.
  rewrite !match_b93.
  destruct d6 as [|c6 d7]; [apply skip_ws_nonempty in E6; congruence|]. cbn [app].
  destruct (N.eqb c6 93); intros H; injection H as <-; (split; [reflexivity|]); cbn [pdata].
  - exact (sfx_tl _ _ _ S6).
  - exact S6.
Qed.

Lemma keep_mixed_app g m d p st t (initial : bool) s' : tail_ne g -> stable g d ->
  keep_mixed m (parse_param d p st t initial) = Next s' ->
  keep_mixed m (parse_param (d ++ g) p st t initial) = Next (appS g s') /\ sfx (pdata s') d.
Proof.
  intros Hn Hg. destruct (parse_param d p st t initial) as [s1| | |] eqn:E; cbn [keep_mixed]; try discriminate.
  intros H. injection H as <-. destruct (parse_param_app _ g _ _ _ _ _ Hn Hg E) as [-> S]. split; [reflexivity|exact S].
Qed.

(* ------------------------------------------------------------------ one step on the extended data *)
Ltac fin_app :=
  let H := fresh "H" in intros H;
  first [ discriminate H
        | injection H as <-; split; [reflexivity | cbn [pdata]; auto using sfx_refl, sfx_cons, sfx_skipn, sfx_cons_r] ].

Lemma cons_app_assoc {A} (c : A) d g : c :: d ++ g = (c :: d) ++ g.
Proof. reflexivity. Qed.

Lemma scalar_arm_app (site : N) g c d1 m p t st' s' : tail_ne g -> stable g (c :: d1) ->
  match scalar_step (c :: d1) c with
  | Ok (tok, d') => Next (mkps d' st' m p (tpush t tok))
  | Err e => Fail e
  | _ => Crash site
  end = Next s' ->
  match scalar_step (c :: d1 ++ g) c with
  | Ok (tok, d') => Next (mkps d' st' m p (tpush t tok))
  | Err e => Fail e
  | _ => Crash site
  end = Next (appS g s') /\ sfx (pdata s') (c :: d1).
Proof.
  intros Hn Hg. destruct (scalar_step (c :: d1) c) as [[tok d']| | | |] eqn:Es; try discriminate.
  assert (Hne : c :: d1 <> []) by discriminate.
  destruct (scalar_step_app _ g _ _ _ Hn Hg Hne Es) as [E S].
  rewrite cons_app_assoc, E. fin_app.
Qed.

Lemma step_app_SKey g c d1 dfull dext m p t s' : tail_ne g -> stable g (c :: d1) ->
  skip_ws_t dfull = Some (c :: d1) -> skip_ws_t dext = Some (c :: d1 ++ g) ->
  step (mkps dfull SKey m p t) = Next s' ->
  step (mkps dext SKey m p t) = Next (appS g s') /\ sfx (pdata s') (c :: d1).
Proof.
  intros Hn Hg Hf Hc. step_open Hf Hc.
  destruct (beq c 125 || beq c 93).
  { destruct (restore t (slot t p)) as [st' m'].
    destruct (Nat.eqb p 0 && Nat.eqb (slot t p) 0); [fin_app|].
    destruct (tset (tpush t (TEnd p)) p (TObject (length t) m)); fin_app. }
  destruct (beq c 123).
  { destruct (skip_ws_t d1) as [d2|] eqn:E2; [|discriminate].
    pose proof (skip_ws_nonempty _ _ E2) as Hne.
    pose proof (sfx_skip_ws _ _ E2) as S2.
    rewrite (skip_ws_t_app_some g _ _ E2). rewrite !match_b125.
    destruct d2 as [|c2 d3]; [congruence|]. cbn [app].
    pose proof (sfx_tl _ _ _ S2) as S3.
    destruct (N.eqb c2 125); [fin_app|].
    destruct (tlast t) as [x|]; [|discriminate].
    destruct x; try discriminate.
    destruct (tset t (length t - 1) (THeader s)); fin_app. }
  destruct (beq c 91).
  { rewrite cons_app_assoc. apply keep_mixed_app; assumption. }
  apply scalar_arm_app; assumption.
Qed.

Lemma step_app_SObjVal g c d1 dfull dext m p t s' : tail_ne g -> stable g (c :: d1) ->
  skip_ws_t dfull = Some (c :: d1) -> skip_ws_t dext = Some (c :: d1 ++ g) ->
  step (mkps dfull SObjVal m p t) = Next s' ->
  step (mkps dext SObjVal m p t) = Next (appS g s') /\ sfx (pdata s') (c :: d1).
Proof.
  intros Hn Hg Hf Hc. step_open Hf Hc.
  destruct (beq c 123); [fin_app|].
  destruct (beq c 125); [discriminate|].
  apply scalar_arm_app; assumption.
Qed.

Lemma step_app_SOpen g c d1 dfull dext m p t s' : tail_ne g -> stable g (c :: d1) ->
  skip_ws_t dfull = Some (c :: d1) -> skip_ws_t dext = Some (c :: d1 ++ g) ->
  step (mkps dfull SOpen m p t) = Next s' ->
  step (mkps dext SOpen m p t) = Next (appS g s') /\ sfx (pdata s') (c :: d1).
Proof.
  intros Hn Hg Hf Hc. step_open Hf Hc.
  destruct (beq c 125).
  { destruct (length t) as [|ind]; [discriminate|].
    destruct (restore t p) as [st' m'].
    destruct (tset t ind (TArray (S ind) false)); fin_app. }
  destruct (beq c 91).
  { destruct m; [discriminate|]. rewrite cons_app_assoc. apply keep_mixed_app; assumption. }
  destruct (beq c 123).
  { destruct (skip_ws_t d1) as [d2|] eqn:E2; [|discriminate].
    pose proof (skip_ws_nonempty _ _ E2) as Hne.
    pose proof (sfx_skip_ws _ _ E2) as S2.
    rewrite (skip_ws_t_app_some g _ _ E2). rewrite !match_b125.
    destruct d2 as [|c2 d3]; [congruence|]. cbn [app].
    pose proof (sfx_tl _ _ _ S2) as S3.
    destruct (N.eqb c2 125); [fin_app|].
    destruct (length t) as [|ind]; [discriminate|].
    destruct (tset t ind (TArray p false)); fin_app. }
  destruct (scalar_step (c :: d1) c) as [[tok d']| | | |] eqn:Es; try discriminate.
  assert (Hne : c :: d1 <> []) by discriminate.
  destruct (scalar_step_app _ g _ _ _ Hn Hg Hne Es) as [E S].
  rewrite cons_app_assoc, E.
  match goal with |- context [Nat.ltb (length ?T) 2] => generalize T end. intros t2.
  destruct (skip_ws_t d') as [d2|] eqn:E2; [|discriminate].
  rewrite (skip_ws_t_app_some g _ _ E2).
  pose proof (sfx_trans _ _ _ (sfx_skip_ws _ _ E2) S) as S2.
  destruct d2 as [|c2 d3]; [discriminate|]. cbn [app].
  destruct (Nat.ltb (length t2) 2); [discriminate|].
  destruct (beq c2 61 || beq c2 62 || beq c2 60).
  + destruct (tset t2 (length t2 - 2) (TObject p false)); fin_app.
  + destruct (tset t2 (length t2 - 2) (TArray p false)); fin_app.
Qed.

Lemma look_eq (l : bytes) : match l with 61%N :: _ => true | _ => false end = next_is_eq l.
Proof.
  rewrite (match_b61 _ l (fun _ => true) false). destruct l as [|x l']; [reflexivity|].
  cbn [next_is_eq]. destruct (N.eqb x 61); reflexivity.
Qed.

Lemma skipn_op2_app o n c d1 g : op2 (c :: d1) = Some (o, n) ->
  skipn n (c :: d1 ++ g) = skipn n (c :: d1) ++ g.
Proof. intros H. apply op2_spec in H. rewrite cons_app_assoc. apply skipn_app_le. lia. Qed.

Lemma step_app_SKvs g c d1 dfull dext m p t s' : tail_ne g ->
  skip_ws_t dfull = Some (c :: d1) -> skip_ws_t dext = Some (c :: d1 ++ g) ->
  step (mkps dfull SKvs m p t) = Next s' ->
  step (mkps dext SKvs m p t) = Next (appS g s') /\ sfx (pdata s') (c :: d1).
Proof.
  intros Hn Hf Hc. step_open Hf Hc.
  rewrite !look_eq, next_is_eq_app by exact Hn.
  rewrite (cons_app_assoc c d1 g) at 1. rewrite (op2_app c d1 g Hn).
  destruct (op2 (c :: d1)) as [[o n]|] eqn:Eo.
  - rewrite (skipn_op2_app _ _ _ _ g Eo). destruct o; try fin_app. destruct m; fin_app.
  - destruct (beq c 63 && next_is_eq d1) eqn:E63.
    + apply andb_prop in E63. destruct E63 as [_ E]. destruct d1 as [|x d2]; [discriminate|]. cbn [app skipn]. fin_app.
    + destruct (beq c 123); [fin_app|].
      destruct (tinsert_before_last t TMixedContainer); fin_app.
Qed.

Lemma arr_op_app g c d1 t' (m' : bool) p s' : tail_ne g ->
  match op2 (c :: d1) with
  | Some (o, n) => Next (mkps (skipn n (c :: d1)) SArrVal m' p (tpush t' (TOperator o)))
  | None => Fail E_TextErr
  end = Next s' ->
  match op2 (c :: d1 ++ g) with
  | Some (o, n) => Next (mkps (skipn n (c :: d1 ++ g)) SArrVal m' p (tpush t' (TOperator o)))
  | None => Fail E_TextErr
  end = Next (appS g s') /\ sfx (pdata s') (c :: d1).
Proof.
  intros Hn. rewrite (cons_app_assoc c d1 g) at 1. rewrite (op2_app c d1 g Hn).
  destruct (op2 (c :: d1)) as [[o n]|] eqn:Eo; [|discriminate].
  rewrite (skipn_op2_app _ _ _ _ g Eo). fin_app.
Qed.

Lemma step_app_SArrVal g c d1 dfull dext m p t s' : tail_ne g -> stable g (c :: d1) ->
  skip_ws_t dfull = Some (c :: d1) -> skip_ws_t dext = Some (c :: d1 ++ g) ->
  step (mkps dfull SArrVal m p t) = Next s' ->
  step (mkps dext SArrVal m p t) = Next (appS g s') /\ sfx (pdata s') (c :: d1).
Proof.
  intros Hn Hg Hf Hc. step_open Hf Hc.
  destruct (beq c 123); [fin_app|].
  destruct (beq c 125).
  { destruct (tget t p) as [x|]; [destruct x|]; cbv iota beta;
      (match goal with |- context [restore t ?g] => destruct (restore t g) as [st' m'] end;
       match goal with |- context [Nat.eqb p 0 && ?b] => destruct (Nat.eqb p 0 && b) end; [discriminate|];
       match goal with |- context [tset t p ?x] => destruct (tset t p x) end; fin_app). }
  destruct (beq c 34 || beq c 64); [apply scalar_arm_app; assumption|].
  destruct (beq c 60 || beq c 62 || beq c 33 || beq c 61); [|apply scalar_arm_app; assumption].
  destruct m.
  { apply arr_op_app; assumption. }
  destruct (tlast t) as [x|]; [|discriminate].
  destruct (is_scalar_tok x); [|discriminate].
  destruct (tinsert_before_last t TMixedContainer); [|discriminate].
  apply arr_op_app; assumption.
Qed.

(* locality of [step] under extension of the data, for EVERY tail (not only gaps) whose first
   byte is none of = [ ! and that does not move the end of a bare word; the data of the successor
   is a suffix of the data *)
Theorem step_app g s s' : tail_ne g -> stable g (pdata s) -> step s = Next s' ->
  step (appS g s) = Next (appS g s') /\ sfx (pdata s') (pdata s).
Proof.
  intros Hn Hg H. destruct s as [d st m p t]. cbn [pdata] in Hg |- *.
  destruct (skip_ws_t d) as [d0|] eqn:E0.
  2:{ exfalso. unfold step in H. cbn [pdata pst_ pmixed pparent ptape] in H. rewrite E0 in H.
      destruct st; try discriminate. destruct (Nat.eqb p 0); [discriminate|].
      destruct (Nat.eqb (slot t p) 0); [|discriminate].
      destruct (tset _ _ _); discriminate. }
  pose proof (skip_ws_t_app_some g _ _ E0) as Hc.
  pose proof (sfx_skip_ws _ _ E0) as S0.
  pose proof (stable_sfx _ _ _ Hg S0) as Hg0.
  destruct d0 as [|c d1]; [apply skip_ws_nonempty in E0; congruence|]. cbn [app] in Hc.
  unfold appS at 1. cbn [pdata pst_ pmixed pparent ptape].
  assert (G : forall X, X = Next (appS g s') /\ sfx (pdata s') (c :: d1) -> X = Next (appS g s') /\ sfx (pdata s') d).
  { intros X [A B]. split; [exact A | exact (sfx_trans _ _ _ B S0)]. }
  apply G. destruct st.
  - exact (step_app_SKey g c d1 d _ m p t s' Hn Hg0 E0 Hc H).
  - exact (step_app_SKvs g c d1 d _ m p t s' Hn E0 Hc H).
  - exact (step_app_SObjVal g c d1 d _ m p t s' Hn Hg0 E0 Hc H).
  - exact (step_app_SArrVal g c d1 d _ m p t s' Hn Hg0 E0 Hc H).
  - exact (step_app_SOpen g c d1 d _ m p t s' Hn Hg0 E0 Hc H).
Qed.

(* the end of the data stays the end of the data when a gap follows (also from inside an
   unterminated comment) *)
Theorem step_app_done g s F : gap_ok g -> step s = Done F -> step (appS g s) = Done F.
Proof.
  intros Hg H. pose proof (step_done_eof _ _ H) as E0.
  destruct s as [d st m p t]. unfold appS. cbn [pdata pst_ pmixed pparent ptape] in *.
  rewrite <- H. apply step_same_skip. rewrite E0. apply skip_ws_t_app_none; assumption.
Qed.

(* the two in the form quoted by Props/C01_trail.v *)
Theorem step_trailing_gap g s : gap_ok g -> starts_boundary g ->
  (forall s', step s = Next s' -> step (appS g s) = Next (appS g s')) /\
  (forall F, step s = Done F -> step (appS g s) = Done F).
Proof.
  intros Hg Hb. split.
  - intros s' H. apply (step_app g s s' (gap_tail_ne g Hg) (stable_starts g _ Hb) H).
  - intros F. apply step_app_done. exact Hg.
Qed.

(* ------------------------------------------------------------------ the loop *)
Lemma ploop_app g : gap_ok g -> forall fuel s t extra, stable g (pdata s) ->
  ploop fuel s = Ok t -> ploop (fuel + extra) (appS g s) = Ok t.
Proof.
  intros Hg. pose proof (gap_tail_ne g Hg) as Hn.
  induction fuel as [|f IH]; intros s t extra Hs; [discriminate|].
  cbn [Nat.add ploop]. destruct (step s) as [s1|F|e|site] eqn:E; try discriminate.
  - destruct (step_app g _ _ Hn Hs E) as [-> S]. apply IH. exact (stable_sfx _ _ _ Hs S).
  - rewrite (step_app_done g _ _ Hg E). auto.
Qed.

(* ------------------------------------------------------------------ the BOM test *)
Lemma bom_app d g : gap_ok g ->
  has_bom (d ++ g) = has_bom d /\
  (if has_bom d then skipn 3 (d ++ g) else d ++ g) = (if has_bom d then skipn 3 d else d) ++ g.
Proof.
  intros Hg. destruct (has_bom d) eqn:HB.
  - destruct (has_bom_inv _ HB) as (r & ->). split; reflexivity.
  - split; [|reflexivity].
    destruct (has_bom (d ++ g)) eqn:HBg; [|reflexivity]. exfalso.
    destruct (has_bom_inv _ HBg) as (r & E).
    (* fewer than three bytes in d: the first byte of the gap would be one of EF BB BF *)
    assert (K : forall x g', g = x :: g' -> x <> 239%N /\ x <> 187%N /\ x <> 191%N).
    { intros x g' ->. apply gap_head in Hg. destruct Hg as [Hc| ->]; [|repeat split; discriminate].
      unfold is_ws_t, beq in Hc.
      repeat (apply orb_prop in Hc; destruct Hc as [Hc|Hc]);
        apply N.eqb_eq in Hc; subst x; repeat split; discriminate. }
    destruct d as [|a [|b0 [|c d']]]; cbn [app] in E.
    + destruct (K _ _ E) as (K1 & _). congruence.
    + injection E as _ E. destruct (K _ _ E) as (_ & K2 & _). congruence.
    + injection E as _ _ E. destruct (K _ _ E) as (_ & _ & K3). congruence.
    + injection E as -> -> -> _. discriminate.
Qed.

(* ------------------------------------------------------------------ main theorems *)
Theorem parse_trailing_gap_gen : forall d g t b,
  parse d = Ok (t, b) -> gap_ok g -> starts_boundary g \/ ends_boundary d ->
  parse (d ++ g) = Ok (t, b).
Proof.
  intros d g t b HP Hg Hb.
  assert (Hs : stable g d) by (destruct Hb; [apply stable_starts | apply stable_ends]; assumption).
  rewrite parse_unfold' in HP |- *.
  destruct (ploop (2 * length d + 8) _) as [F| | | |] eqn:EF; try discriminate.
  cbn [omap] in HP. injection HP as <- <-.
  destruct (bom_app d g Hg) as [E1 E2]. rewrite E1.
  match goal with |- context [mkps ?X SKey false 0 []] =>
    replace X with ((if has_bom d then skipn 3 d else d) ++ g) by (symmetry; exact E2) end.
  rewrite app_length.
  replace (2 * (length d + length g) + 8) with ((2 * length d + 8) + 2 * length g) by lia.
  change (mkps ((if has_bom d then skipn 3 d else d) ++ g) SKey false 0 [])
    with (appS g (mkps (if has_bom d then skipn 3 d else d) SKey false 0 [])).
  rewrite (ploop_app g Hg _ _ F (2 * length g)); [reflexivity| |exact EF].
  cbn [pdata]. destruct (has_bom d); [|exact Hs]. exact (stable_sfx _ _ _ Hs (sfx_skipn 3 d)).
Qed.

Theorem parse_trailing_gap : forall d g t b,
  parse d = Ok (t, b) -> gap_ok g -> starts_boundary g -> parse (d ++ g) = Ok (t, b).
Proof. intros d g t b HP Hg Hb. apply parse_trailing_gap_gen; auto. Qed.

(* no condition on the gap when the accepted text ends with a boundary byte (white space, a
   closing brace or bracket, an operator, ..., or any such byte inside an unterminated comment) *)
Theorem parse_trailing_gap_after_boundary : forall d0 c g t b,
  parse (d0 ++ [c]) = Ok (t, b) -> is_boundary c = true -> gap_ok g ->
  parse (d0 ++ [c] ++ g) = Ok (t, b).
Proof.
  intros d0 c g t b HP Hc Hg. rewrite app_assoc. apply parse_trailing_gap_gen; [exact HP|exact Hg|].
  right. exists d0, c. auto.
Qed.

(* the side condition is necessary: `a=b` followed by `;` has the value `b;` *)
Theorem parse_trailing_gap_semicolon_refuted :
  exists d g t b, parse d = Ok (t, b) /\ gap_ok g /\ parse (d ++ g) <> Ok (t, b).
Proof.
  exists [97; 61; 98]%N, [59%N], [TUnquoted [97%N]; TUnquoted [98%N]], false.
  split; [vm_compute; reflexivity|]. split; [apply gap_okb_sound; reflexivity|].
  vm_compute. discriminate.
Qed.
