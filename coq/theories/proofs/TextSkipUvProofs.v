(* C09 (text half), part 4: skip_unquoted_value on the streaming reader = the windowless
   reference [uv_ref]: whitespace and comments are skipped (a comment may span refills), a
   container that follows is skipped with skip_container, anything else is left in the stream. *)
From JV Require Import Bytes Tables U64Swar BufWin TextTok TextReader TextRef TextSkipRef.
From JV.proofs Require Import BufWinProofs TextReaderProofs TextRefProofs TextFbProofs TextReaderMainProofs
  TextSkipProofs TextSkipStreamProofs.
From Coq Require Import Lia List Arith ZArith.
Import ListNotations.
Open Scope nat_scope.

Definition uv_shift (k : nat) (u : uvres) : uvres :=
  match u with UvOpen n => UvOpen (n + k) | UvStop n => UvStop (n + k) | UvEnd => UvEnd end.

Lemma uv_scan_shift : forall s ic k, uv_scan s ic k = uv_shift k (uv_scan s ic 0).
Proof.
  induction s as [|c s IH]; intros ic k; [reflexivity|]. cbn [uv_scan].
  assert (H : forall ic2, uv_scan s ic2 (S k) = uv_shift k (uv_scan s ic2 1)).
  { intros ic2. rewrite (IH _ (S k)), (IH _ 1). destruct (uv_scan s ic2 0); cbn [uv_shift]; try reflexivity; f_equal; lia. }
  destruct ic; [apply H|].
  destruct (b_is c 123); [reflexivity|].
  destruct (is_ws c); [apply H|].
  destruct (b_is c 35); [apply H|].
  reflexivity.
Qed.

(* the window scan against the reference; x = what follows the scanned bytes *)
Lemma suv_window : forall l x ptr ic k,
  match suv_scan l ptr ic with
  | inl (Some (true, i)) => ptr <= i < ptr + length l /\ uv_scan (l ++ x) ic k = UvOpen (k + (i - ptr))
  | inl (Some (false, i)) => ptr <= i < ptr + length l /\ uv_scan (l ++ x) ic k = UvStop (k + (i - ptr))
  | inl None => False
  | inr ic' => uv_scan (l ++ x) ic k = uv_scan x ic' (k + length l)
  end.
Proof.
  induction l as [|c l IH]; intros x ptr ic k.
  - cbn [suv_scan app length]. f_equal. lia.
  - cbn [suv_scan app uv_scan length].
    assert (Hstep : forall ic2,
      match suv_scan l (S ptr) ic2 with
      | inl (Some (true, i)) => ptr <= i < ptr + S (length l) /\ uv_scan (l ++ x) ic2 (S k) = UvOpen (k + (i - ptr))
      | inl (Some (false, i)) => ptr <= i < ptr + S (length l) /\ uv_scan (l ++ x) ic2 (S k) = UvStop (k + (i - ptr))
      | inl None => False
      | inr ic' => uv_scan (l ++ x) ic2 (S k) = uv_scan x ic' (k + S (length l))
      end).
    { intros ic2. specialize (IH x (S ptr) ic2 (S k)).
      destruct (suv_scan l (S ptr) ic2) as [[[[|] i]|]|ic']; [| |exact IH|].
      - destruct IH as [H1 H2]. split; [lia|]. rewrite H2. f_equal. lia.
      - destruct IH as [H1 H2]. split; [lia|]. rewrite H2. f_equal. lia.
      - rewrite IH. f_equal. lia. }
    destruct ic; [apply Hstep|].
    destruct (b_is c 123). { split; [lia|]. f_equal. lia. }
    destruct (is_ws c); [apply Hstep|].
    destruct (b_is c 35); [apply Hstep|].
    split; [lia|]. f_equal. lia.
Qed.

(* the LF TAB TAB TAB word test *)
Lemma word_ws4 (w : bytes) : wf_bytes w -> 4 <= length w -> N.eqb (le_word 4 w) 151587082 = true ->
  exists t, w = 10%N :: 9%N :: 9%N :: 9%N :: t.
Proof.
  intros Hw Hl He. apply N.eqb_eq in He.
  destruct w as [|a [|b [|c [|d t]]]]; cbn [length] in Hl; try lia.
  unfold wf_bytes in Hw.
  inversion Hw as [|? ? Ha Hw1]; subst. inversion Hw1 as [|? ? Hb Hw2]; subst.
  inversion Hw2 as [|? ? Hc Hw3]; subst. inversion Hw3 as [|? ? Hd Hw4]; subst.
  unfold wf_byte in *. cbn [le_word] in He.
  assert (a = 10 /\ b = 9 /\ c = 9 /\ d = 9)%N as (-> & -> & -> & ->) by lia.
  exists t. reflexivity.
Qed.

Lemma uv_p0 (w x : bytes) ic : wf_bytes w ->
  let p0 := if negb ic && Nat.leb 4 (length w) && N.eqb (le_word 4 w) 151587082 then 4 else 0 in
  p0 <= length w /\ uv_scan (w ++ x) ic 0 = uv_scan (skipn p0 w ++ x) ic p0.
Proof.
  intros Hw. cbv zeta.
  destruct (negb ic && Nat.leb 4 (length w) && N.eqb (le_word 4 w) 151587082) eqn:E; [|split; [lia|reflexivity]].
  apply andb_true_iff in E. destruct E as [E E3]. apply andb_true_iff in E. destruct E as [E1 E2].
  apply Nat.leb_le in E2. destruct ic; [discriminate|].
  destruct (word_ws4 w Hw E2 E3) as [t ->]. split; [cbn [length]; lia|]. reflexivity.
Qed.

Lemma skip_lands_shift input r r2 a n out :
  stream_of r2 = skipn a (stream_of r) -> reader_position r2 = reader_position r + a ->
  cap (rbw r2) = cap (rbw r) ->
  skip_lands input r2 n out -> skip_lands input r (a + n) out.
Proof.
  intros Hs Hp Hc (r' & H1 & H2 & H3 & H4 & H5). exists r'. split; [exact H1|]. split; [exact H2|].
  split; [rewrite H3, Hs, skipn_skipn; f_equal; lia|]. split; [lia|congruence].
Qed.

(* what the caller gets, per reference result *)
Definition uv_post (input : bytes) (r : reader) (u : uvres) (out : outcome reader) : Prop :=
  match u with
  | UvOpen n =>
      match skip_ref (skipn (S n) (stream_of r)) with
      | Some m => skip_lands input r (S n + m) out
      | None => out = Err E_Eof
      end
  | UvStop n => skip_lands input r n out
  | UvEnd => skip_lands input r (length (stream_of r)) out
  end.

Definition uvcap (r : reader) (ic : bool) : Prop :=
  (cap (rbw r) = 0 /\ rest (rrd r) = []) \/
  (0 < cap (rbw r) /\
   match uv_scan (stream_of r) ic 0 with
   | UvOpen n => skip_need (skipn (S n) (stream_of r)) <= cap (rbw r)
   | _ => True
   end).

Theorem uv_loop_spec input : wf_bytes input -> forall fuel r ic,
  rok input r -> uvcap r ic -> S (length (rest (rrd r))) < fuel ->
  uv_post input r (uv_scan (stream_of r) ic 0) (skip_unquoted_value_loop fuel r ic).
Proof.
  intros Hwf. induction fuel as [|f IH]; intros r ic Hrok Hcap Hf; [lia|].
  destruct r as [b rd0 bom]. unfold uvcap in Hcap. unfold stream_of in *. cbn [rbw rrd] in *.
  cbn [skip_unquoted_value_loop rbw rrd rbom].
  pose proof (rok_wf input _ Hwf Hrok) as Hww. cbn [rbw] in Hww.
  set (w := win b) in *.
  destruct (uv_p0 w (rest rd0) ic Hww) as [Hp0 Hscan0]. cbv zeta in Hp0, Hscan0.
  set (p0 := if negb ic && Nat.leb 4 (length w) && N.eqb (le_word 4 w) 151587082 then 4 else 0) in *.
  pose proof (suv_window (skipn p0 w) (rest rd0) p0 ic p0) as Hwin.
  rewrite <- Hscan0 in Hwin. rewrite skipn_length in Hwin.
  destruct (suv_scan (skipn p0 w) p0 ic) as [[[[|] i]|]|ic']; [| |contradiction|].
  - (* a container follows *)
    destruct Hwin as [Hi Hu]. rewrite Hu in *. replace (p0 + (i - p0)) with i in * by lia.
    destruct (rok_advance input b rd0 bom bom (S i) Hrok ltac:(fold w; lia)) as [Hadv Hr1].
    rewrite Hadv. fold w in Hr1 |- *. unfold with_bw. cbn [rbw rrd rbom].
    set (r1 := mkreader (mkbw (cap b) (skipn (S i) w) (consumed b + S i) (prior b)) rd0 bom) in *.
    assert (Hs1 : stream_of r1 = skipn (S i) (w ++ rest rd0)).
    { unfold stream_of, r1. cbn [rbw rrd win]. rewrite skipn_app_le by lia. reflexivity. }
    assert (Hc1 : skip_cap_ok r1).
    { unfold skip_cap_ok. rewrite Hs1. unfold r1. cbn [rbw rrd cap].
      destruct Hcap as [H|[H1 H2]]; [left; exact H|right; exact H2]. }
    pose proof (skip_container_stream input f r1 Hwf Hr1 Hc1 ltac:(unfold r1; cbn [rrd]; lia)) as Hsk.
    rewrite Hs1 in Hsk. cbn [uv_post]. unfold stream_of. cbn [rbw rrd]. fold w.
    destruct (skip_ref (skipn (S i) (w ++ rest rd0))) as [m|]; [|exact Hsk].
    apply (skip_lands_shift input _ r1 (S i) m); [exact Hs1| |reflexivity|exact Hsk].
    unfold reader_position, bw_position, r1. cbn [rbw prior consumed]. lia.
  - (* another byte follows: nothing but the gap is consumed *)
    destruct Hwin as [Hi Hu]. rewrite Hu in *. replace (p0 + (i - p0)) with i in * by lia.
    destruct (rok_advance input b rd0 bom bom i Hrok ltac:(fold w; lia)) as [Hadv Hr1].
    rewrite Hadv. cbn [uv_post]. eexists. split; [reflexivity|]. unfold with_bw. cbn [rbw rrd rbom].
    split; [exact Hr1|]. unfold stream_of, reader_position, bw_position. cbn [rbw rrd win cap prior consumed]. fold w.
    split; [rewrite skipn_app_le by lia; reflexivity|]. split; [lia|reflexivity].
  - (* the window is used up *)
    replace (p0 + (length w - p0)) with (length w) in Hwin by lia.
    destruct (rok_advance input b rd0 bom bom (length w) Hrok ltac:(fold w; lia)) as [Hadv _].
    rewrite Hadv. fold w.
    pose proof (refill_fill input b rd0 bom 0 Hrok ltac:(lia)) as Hfill.
    fold w in Hfill. cbv zeta in Hfill. rewrite Nat.sub_0_r in Hfill.
    destruct Hfill as [Hcb Hfill].
    assert (Hnil : skipn (length w) w = []) by apply skipn_all.
    destruct (bw_fill_buf (mkbw (cap b) (skipn (length w) w) (consumed b + length w) (prior b)) rd0) as [n b2 d2|b2 d2|b2 d2];
      [|contradiction|lia].
    destruct Hfill as (bs & Hbs & Hrest & Hwin2 & Hcap2 & Hpos2 & Hrok2 & Hz).
    rewrite Hnil in Hwin2. cbn [app] in Hwin2.
    destruct n as [|n].
    + (* end of the data: everything was whitespace or comment *)
      assert (Hr : rest rd0 = []).
      { destruct Hcap as [[_ Hr]|[Hc1 _]]; [exact Hr|]. destruct (Hz eq_refl) as [Hc0|[Hr _]]; [lia|exact Hr]. }
      destruct bs; [|discriminate]. rewrite Hr in Hrest. cbn [app] in Hrest.
      rewrite Hwin, Hr. cbn [uv_scan uv_post]. exists (mkreader b2 d2 bom). split; [reflexivity|]. split; [apply Hrok2|].
      unfold stream_of, reader_position. cbn [rbw rrd]. rewrite Hwin2, <- Hrest, Hr, app_nil_r.
      rewrite app_nil_r. fold w.
      split; [rewrite skipn_all; reflexivity|]. split; [rewrite Hpos2; lia|exact Hcap2].
    + (* more data *)
      assert (Hstream : win b2 ++ rest d2 = rest rd0) by (rewrite Hwin2, Hrest; reflexivity).
      specialize (IH (mkreader b2 d2 bom) ic' (Hrok2 bom)).
      unfold uvcap, stream_of in IH. cbn [rbw rrd] in IH. rewrite Hstream, Hcap2 in IH.
      rewrite Hwin, uv_scan_shift in Hcap |- *.
      assert (Hsk : forall j, skipn (S j) (rest rd0) = skipn (S (j + length w)) (w ++ rest rd0)).
      { intros j. replace (S (j + length w)) with (length w + S j) by lia. rewrite skipn_app_pre. reflexivity. }
      assert (Hcap' : cap b = 0 /\ rest d2 = [] \/
                0 < cap b /\ match uv_scan (rest rd0) ic' 0 with
                             | UvOpen n0 => skip_need (skipn (S n0) (rest rd0)) <= cap b
                             | _ => True end).
      { destruct Hcap as [[Hc0 Hr]|[Hc1 Hc2]].
        - rewrite Hr in Hrest. destruct bs; discriminate.
        - right. split; [exact Hc1|]. destruct (uv_scan (rest rd0) ic' 0); cbn [uv_shift] in Hc2; [|exact I|exact I].
          rewrite Hsk. exact Hc2. }
      specialize (IH Hcap').
      assert (Hlen : S (length (rest d2)) < f) by (rewrite Hrest, app_length, Hbs in Hf; lia).
      specialize (IH Hlen).
      assert (Hpos : reader_position (mkreader b2 d2 bom) = reader_position (mkreader b rd0 bom) + length w).
      { unfold reader_position. cbn [rbw]. rewrite Hpos2. reflexivity. }
      assert (Hs2 : stream_of (mkreader b2 d2 bom) = skipn (length w) (stream_of (mkreader b rd0 bom))).
      { unfold stream_of. cbn [rbw rrd]. fold w. rewrite Hstream. rewrite <- (Nat.add_0_r (length w)), skipn_app_pre. reflexivity. }
      destruct (uv_scan (rest rd0) ic' 0) as [j|j|]; cbn [uv_shift uv_post] in *.
      * unfold stream_of in *. cbn [rbw rrd] in *. fold w. rewrite Hstream in IH. rewrite <- Hsk.
        destruct (skip_ref (skipn (S j) (rest rd0))) as [m|]; [|exact IH].
        replace (S (j + length w) + m) with (length w + (S j + m)) by lia.
        apply (skip_lands_shift input _ (mkreader b2 d2 bom) (length w) (S j + m)); auto.
      * replace (j + length w) with (length w + j) by lia.
        apply (skip_lands_shift input _ (mkreader b2 d2 bom) (length w) j); auto.
      * unfold stream_of in *. cbn [rbw rrd] in *. fold w. rewrite Hstream in IH. rewrite app_length.
        apply (skip_lands_shift input _ (mkreader b2 d2 bom) (length w) (length (rest rd0))); auto.
Qed.

Definition uv_cap_ok (r : reader) : Prop := uvcap r false.

Theorem skip_unquoted_value_stream input fuel r :
  wf_bytes input -> rok input r -> uv_cap_ok r -> S (length (rest (rrd r))) < fuel ->
  uv_post input r (uv_scan (stream_of r) false 0) (skip_unquoted_value fuel r).
Proof. intros. apply uv_loop_spec; assumption. Qed.

Corollary skip_unquoted_value_ref input fuel r :
  wf_bytes input -> rok input r -> uv_cap_ok r -> S (length (rest (rrd r))) < fuel ->
  match uv_ref (stream_of r) with
  | Some n => skip_lands input r n (skip_unquoted_value fuel r)
  | None => skip_unquoted_value fuel r = Err E_Eof
  end.
Proof.
  intros Hwf Hrok Hcap Hf. pose proof (skip_unquoted_value_stream input fuel r Hwf Hrok Hcap Hf) as H.
  unfold uv_ref. destruct (uv_scan (stream_of r) false 0) as [n|n|]; cbn [uv_post] in H; [|exact H|exact H].
  destruct (skip_ref (skipn (S n) (stream_of r))); exact H.
Qed.
