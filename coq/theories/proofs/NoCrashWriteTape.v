(* C05, entry point TextWriter::write_tape on a text tape: no panic, no fuel exhaustion.

   Writer.wt has five crash outcomes: site 10 (tokens[idx] out of bounds), 11 (unreachable!() in
   write_value: a Parameter / UndefinedParameter / End token in value position), 12 (unwrap of the
   header's array view), 13 (debug_assert on a non-key token in FieldsIter::next), and running
   out of fuel.  Shown here: on every well-formed tape (TapeWf.tape_wf, which every parsed tape
   satisfies) on which no field value / array item is a parameter token
   (WriteTapeSide.no_param_valuesb, executable), none of them is reachable with the fuel
   Writer.tape_fuel, for every configuration (debug profile included).  With
   WriterTapeProofs.wt_balanced (never Err) the result is WOk.

   What is NOT proved: that the parser never puts a parameter token in value position
   (TextTape.parse_param only pushes them as keys, but the grammar invariant of
   TextTapeGrammar.v -- gvalue / gvals accept any is_key / is_leaf token -- does not record it;
   getting it means re-proving the step invariant with a finer grammar).  Hence the theorems are
   named ..._partial and keep the side condition as a hypothesis. *)
From JV Require Import Bytes Tables TextTok Date TapeWf Dom Json TextTape WriteTapeSide Writer.
From JV.proofs Require Import DomProofs JsonProofs WriterTapeProofs TextTapeGrammarProofs.
Require Import Lia.
Open Scope nat_scope.

(* the three copies of tget are the same function *)
Ltac wtg := change Writer.tget with TapeWf.tget in *.

(* ================================================================ results that are not a crash *)
Definition nocrash (r : wres) : Prop := match r with WCrash _ _ => False | _ => True end.

Lemma okd_nc : forall r n, okd r n -> nocrash r.
Proof. intros [w o|w o e|p s] n H; cbn in *; auto. Qed.

Lemma wbind_nc : forall r f, nocrash r -> (forall w, nocrash (f w)) -> nocrash (wbind r f).
Proof.
  intros [w o|w o e|p s] f H F; cbn [wbind nocrash] in *; auto.
  specialize (F w). destruct (f w); cbn [nocrash] in *; auto.
Qed.

Lemma write_end_nc : forall c w, nocrash (write_end c w).
Proof. intros c w. unfold write_end. destruct (w_depth w); exact I. Qed.

Ltac nc_prim :=
  first [ exact I
        | apply write_end_nc
        | eapply okd_nc;
          first [ apply write_preamble_okd | apply write_raw_okd | apply write_escaped_quotes_okd
                | apply write_header_okd | apply write_array_start_okd | apply write_object_start_okd
                | apply write_operator_okd | apply start_mixed_okd ] ].

(* ================================================================ Writer's index arithmetic *)
Lemma w_next_idx_value_end : forall f t v n,
  value_end t v = Some n -> Writer.next_idx (S f) t v = Ok n.
Proof.
  intros f t v n H. unfold value_end in H. cbn [Writer.next_idx]. wtg.
  destruct (TapeWf.tget t v) as [k|] eqn:K; try discriminate.
  destruct k; cbn [is_key] in H; try discriminate; try (inversion H; reflexivity).
  unfold Writer.next_idx_header. wtg.
  destruct (TapeWf.tget t (S v)) as [k'|]; try discriminate.
  destruct k'; try discriminate; inversion H; reflexivity.
Qed.

Lemma w_next_idx_values : forall t i k,
  TapeWf.tget t i = Some k -> Writer.next_idx_values t i = Some (item_next i k).
Proof.
  intros t i k K. unfold Writer.next_idx_values. wtg. rewrite K.
  destruct k; reflexivity.
Qed.

Lemma le_vend : forall t a, conts_ok t -> a <= vend t a.
Proof.
  intros t a W. unfold vend. destruct (TapeWf.tget t a) as [ka|] eqn:KA; auto. destruct ka; auto.
  - destruct (cont_lt t a _ e W KA eq_refl); lia.
  - destruct (cont_lt t a _ e W KA eq_refl); lia.
  - destruct (TapeWf.tget t (S a)) as [kb|] eqn:KB; auto. destruct kb; auto.
    + destruct (cont_lt t (S a) _ e W KB eq_refl); lia.
    + destruct (cont_lt t (S a) _ e W KB eq_refl); lia.
Qed.

(* ================================================================ the side condition, one step *)
(* tokens write_value accepts *)
Definition vtokb (k : ttok) : bool :=
  match k with TParameter _ | TUndefinedParameter _ | TEnd _ => false | _ => true end.

Lemma np_fieldsb_step : forall fu t i e k n,
  np_fieldsb fu t i e = true -> i < e -> TapeWf.tget t i = Some k -> is_key k = true ->
  value_end t (value_ind_of t i) = Some n ->
  param_at t (value_ind_of t i) = false /\ exists fu', np_fieldsb fu' t n e = true.
Proof.
  intros fu t i e k n H L K HK V. destruct fu as [|fu]; cbn [np_fieldsb] in H; try discriminate.
  replace (Nat.leb e i) with false in H by (symmetry; apply Nat.leb_gt; lia).
  rewrite K in H.
  assert (H' : negb (param_at t (value_ind_of t i)) && np_fieldsb fu t n e = true).
  { rewrite V in H. destruct k; cbn [is_key] in HK, H; try discriminate; exact H. }
  apply andb_true_iff in H'. destruct H' as [A B]. apply negb_true_iff in A. eauto.
Qed.

Lemma np_itemsb_step : forall fu t i e k,
  np_itemsb fu t i e = true -> i < e -> TapeWf.tget t i = Some k ->
  is_param k = false /\ exists fu', np_itemsb fu' t (item_next i k) e = true.
Proof.
  intros fu t i e k H L K. destruct fu as [|fu]; cbn [np_itemsb] in H; try discriminate.
  replace (Nat.leb e i) with false in H by (symmetry; apply Nat.leb_gt; lia).
  rewrite K in H. apply andb_true_iff in H. destruct H as [A B]. apply negb_true_iff in A. eauto.
Qed.

(* a field value that is not a parameter token is a token write_value accepts *)
Lemma value_end_vtok : forall t v n, value_end t v = Some n -> param_at t v = false ->
  exists k, TapeWf.tget t v = Some k /\ vtokb k = true.
Proof.
  intros t v n V P. unfold value_end in V. unfold param_at in P.
  destruct (TapeWf.tget t v) as [k|]; try discriminate. exists k. split; auto.
  destruct k; cbn [is_key is_param] in *; try discriminate; reflexivity.
Qed.

(* one step of ValuesIter over a Dyck range *)
Lemma dyck_item_step : forall t i e k, dyck t i e -> i < e -> TapeWf.tget t i = Some k ->
  dyck t (item_next i k) e /\ i < item_next i k /\ (forall j, k <> TEnd j).
Proof.
  intros t i e k D L K. split; [|split].
  - unfold item_next. destruct (container_end k) as [e'|] eqn:C.
    + destruct (dyck_inv_cont t i e k e' D L K C) as (_ & _ & _ & _ & D2). exact D2.
    + inversion D; subst; try lia; auto.
      match goal with H : TapeWf.tget t i = Some ?x, H' : container_end ?x = Some _ |- _ =>
        rewrite K in H; inversion H; subst; congruence end.
  - unfold item_next. destruct (container_end k) as [e'|] eqn:C; [|lia].
    destruct (dyck_inv_cont t i e k e' D L K C). lia.
  - intros j E. subst k. exact (dyck_no_end t i e j D L K).
Qed.

(* ================================================================ the traversal *)
(* what each job of Writer.wt needs of the tape *)
Definition np_ok (t : ttape) : Prop := forall i, i < length t -> np_contb t i = true.

Definition job_ok (t : ttape) (j : job) : Prop :=
  match j with
  | JCore ti ei =>
      ei <= length t /\ (exists r, fields_end t ti ei r) /\ exists fu, np_fieldsb fu t ti ei = true
  | JValue vi => exists k, TapeWf.tget t vi = Some k /\ vtokb k = true
  | JArrayLoop ti ei =>
      ei <= length t /\ dyck t ti ei /\ exists fu, np_itemsb fu t ti ei = true
  end.

(* fuel a job needs: the recursion depth of wt is bounded by twice the span of the job *)
Definition jneed (t : ttape) (j : job) : nat :=
  match j with
  | JCore ti ei | JArrayLoop ti ei => 2 * (ei - ti) + 1
  | JValue vi => 2 * (S (vend t vi) - vi)
  end.

Section Walk.
  Variable c : cfg.
  Variable t : ttape.
  Hypothesis WF : tape_wf t.
  Hypothesis NP : np_ok t.

  Let W : conts_ok t := WFC t WF.

  Lemma obj_job : forall vi e m, TapeWf.tget t vi = Some (TObject e m) ->
    job_ok t (JCore (S vi) e) /\ vend t vi = e /\ vi < e.
  Proof.
    intros vi e m K. pose proof (tget_lt _ _ _ K) as L.
    destruct (cont_lt t vi _ e W K eq_refl) as (A & B & _ & _).
    pose proof (W vi L) as C. unfold cont_ok in C. rewrite K in C.
    destruct C as (_ & _ & _ & _ & r & FE & _).
    pose proof (NP vi L) as N. unfold np_contb in N. rewrite K in N.
    split; [|split]; auto.
    - cbn [job_ok]. split; [lia|]. split; eauto.
    - unfold vend. rewrite K. reflexivity.
  Qed.

  Lemma arr_job : forall vi e m, TapeWf.tget t vi = Some (TArray e m) ->
    job_ok t (JArrayLoop (S vi) e) /\ vend t vi = e /\ vi < e.
  Proof.
    intros vi e m K. pose proof (tget_lt _ _ _ K) as L.
    destruct (cont_lt t vi _ e W K eq_refl) as (A & B & _ & D).
    pose proof (NP vi L) as N. unfold np_contb in N. rewrite K in N.
    split; [|split]; auto.
    - cbn [job_ok]. split; [lia|]. split; eauto.
    - unfold vend. rewrite K. reflexivity.
  Qed.

  Lemma wt_nc : forall fuel j w, job_ok t j -> jneed t j <= fuel -> nocrash (wt fuel c t j w).
  Proof.
    induction fuel as [|f IH]; intros j w JO NE.
    { destruct j as [ti ei|vi|ti ei]; cbn [jneed] in NE; try lia. pose proof (le_vend t vi W). lia. }
    destruct j as [ti ei|vi|ti ei]; cbn [wt].
    - (* write_object_core *)
      destruct JO as (LE & [r FE] & [fu NPF]). cbn [jneed] in NE.
      destruct (Nat.leb_spec ei ti) as [G|G]; [exact I|].
      inversion FE as [ | ? ? M _ | ? ? ? k n K HK V LN FE']; subst; [lia | | ].
      + wtg. rewrite M. exact I.
      + destruct (np_fieldsb_step _ _ _ _ _ _ NPF G K HK V) as (PV & NPF').
        destruct (value_end_vtok _ _ _ V PV) as (kv & KV & VT).
        pose proof (value_ind_gt t ti) as VG. pose proof (value_end_gt _ _ _ W V) as NG.
        pose proof (value_end_vend _ _ _ V) as NV.
        assert (REST : forall w', nocrash (wt f c t (JCore n ei) w')).
        { intro w'. apply IH; [cbn [job_ok]; eauto | cbn [jneed]; lia]. }
        assert (VAL : forall w', nocrash (wt f c t (JValue (value_ind_of t ti)) w')).
        { intro w'. apply IH; [cbn [job_ok]; eauto | cbn [jneed]; lia]. }
        assert (NX : Writer.next_idx f t (value_ind_of t ti) = Ok n).
        { destruct f; [lia|]. apply w_next_idx_value_end. exact V. }
        assert (exists nt, TapeWf.tget t (S ti) = Some nt) as [nt K1].
        { destruct (TapeWf.tget t (S ti)) as [nt|] eqn:E; eauto.
          unfold value_ind_of in KV. rewrite E in KV. congruence. }
        assert (VI : match nt with TOperator _ => S (S ti) | _ => S ti end = value_ind_of t ti).
        { unfold value_ind_of. rewrite K1. reflexivity. }
        wtg. rewrite K.
        destruct k; cbn [is_key] in HK; try discriminate; cbn [negb]; rewrite K1;
          (replace (snd match nt with TOperator o => (Some o, S (S ti)) | _ => (None, S ti) end)
             with (value_ind_of t ti) by (rewrite <- VI; destruct nt; reflexivity));
          rewrite NX; (apply wbind_nc; [|intro; apply REST]).
        * apply wbind_nc; [nc_prim|intro w1]. apply wbind_nc; [|intro; apply VAL].
          destruct (fst _); nc_prim.
        * apply wbind_nc; [nc_prim|intro w1]. apply wbind_nc; [|intro; apply VAL].
          destruct (fst _); nc_prim.
        * apply wbind_nc; [nc_prim|intro w1]. apply wbind_nc; [exact I|intro w2].
          apply wbind_nc; [|intro; exact I]. rewrite KV.
          destruct kv; try apply VAL.
          -- destruct (arr_job _ _ _ KV) as (_ & VE & L).
             apply wbind_nc; [|intro; exact I]. apply IH; [|cbn [jneed]; lia].
             cbn [job_ok]. split; [pose proof (vend_lt_len t _ W (tget_lt _ _ _ KV)); lia|].
             split; [exists e; constructor|exists 1; cbn [np_fieldsb]; rewrite Nat.leb_refl; reflexivity].
          -- destruct (obj_job _ _ _ KV) as (J & VE & L).
             apply wbind_nc; [|intro; exact I]. apply IH; [exact J|cbn [jneed]; lia].
        * apply wbind_nc; [nc_prim|intro w1]. apply wbind_nc; [exact I|intro w2].
          apply wbind_nc; [|intro; exact I]. rewrite KV.
          destruct kv; try apply VAL.
          -- destruct (arr_job _ _ _ KV) as (_ & VE & L).
             apply wbind_nc; [|intro; exact I]. apply IH; [|cbn [jneed]; lia].
             cbn [job_ok]. split; [pose proof (vend_lt_len t _ W (tget_lt _ _ _ KV)); lia|].
             split; [exists e; constructor|exists 1; cbn [np_fieldsb]; rewrite Nat.leb_refl; reflexivity].
          -- destruct (obj_job _ _ _ KV) as (J & VE & L).
             apply wbind_nc; [|intro; exact I]. apply IH; [exact J|cbn [jneed]; lia].
    - (* write_value *)
      destruct JO as (k & K & VT). cbn [jneed] in NE. wtg. rewrite K.
      destruct k as [e m|e m| |x|x|x|x|o|i|x]; cbn [vtokb] in VT; try discriminate.
      + destruct (arr_job _ _ _ K) as (J & VE & L). rewrite VE in NE.
        apply wbind_nc; [nc_prim|intro w1].
        apply wbind_nc; [apply IH; [exact J|cbn [jneed]; lia]|intro w2]. nc_prim.
      + destruct (obj_job _ _ _ K) as (J & VE & L). rewrite VE in NE.
        apply wbind_nc; [nc_prim|intro w1].
        apply wbind_nc; [apply IH; [exact J|cbn [jneed]; lia]|intro w2]. nc_prim.
      + nc_prim.
      + nc_prim.
      + nc_prim.
      + destruct (mmode_eqb (w_mixed w) MDisabled); exact I.
      + (* header *)
        pose proof (W vi (tget_lt _ _ _ K)) as C. unfold cont_ok in C. rewrite K in C.
        destruct (TapeWf.tget t (S vi)) as [k'|] eqn:K'; [|contradiction].
        assert (exists e', container_end k' = Some e') as [e' CE] by (destruct k'; try discriminate; cbn; eauto).
        destruct (cont_lt t (S vi) _ e' W K' CE) as (A & B & _ & _).
        assert (VE : vend t vi = e').
        { unfold vend. rewrite K, K'. destruct k'; try discriminate; inversion CE; reflexivity. }
        assert (VE' : vend t (S vi) = e').
        { unfold vend. rewrite K'. destruct k'; try discriminate; inversion CE; reflexivity. }
        rewrite VE in NE.
        assert (NX : Writer.next_idx f t (S vi) = Ok (S e')).
        { destruct f; [lia|]. apply w_next_idx_value_end. unfold value_end. rewrite K'.
          destruct k'; try discriminate; inversion CE; reflexivity. }
        rewrite NX. apply wbind_nc; [nc_prim|intro w1]. cbv beta.
        replace (Nat.ltb vi (S e')) with true by (symmetry; apply Nat.ltb_lt; lia). cbn [negb].
        rewrite (w_next_idx_values _ _ _ K). change (item_next vi (THeader x)) with (S vi).
        replace (Nat.ltb (S vi) (S e')) with true by (symmetry; apply Nat.ltb_lt; lia). cbn [negb].
        rewrite (w_next_idx_values _ _ _ K').
        apply IH; [|cbn [jneed]; lia].
        exists k'. split; auto. destruct k'; try discriminate; reflexivity.
    - (* the values loop of write_array *)
      destruct JO as (LE & D & [fu NPI]). cbn [jneed] in NE.
      destruct (Nat.ltb_spec ti ei) as [G|G]; [|exact I].
      assert (exists k, TapeWf.tget t ti = Some k) as [k K].
      { destruct (TapeWf.tget t ti) eqn:E; eauto. apply nth_error_None in E. lia. }
      rewrite (w_next_idx_values _ _ _ K).
      destruct (np_itemsb_step _ _ _ _ _ NPI G K) as (NP1 & NPI').
      destruct (dyck_item_step _ _ _ _ D G K) as (D' & LT & NE').
      apply wbind_nc; [|intro w1]; apply IH.
      + exists k. split; auto. destruct k; try reflexivity; try discriminate.
        exfalso. eapply NE'. reflexivity.
      + cbn [jneed]. pose proof (dyck_vend t ti ei W D G). lia.
      + cbn [job_ok]. auto.
      + cbn [jneed]. lia.
  Qed.
End Walk.

(* ================================================================ write_tape *)
Lemma no_param_valuesb_ok : forall t, no_param_valuesb t = true ->
  np_fieldsb (S (length t)) t 0 (length t) = true /\ np_ok t.
Proof.
  intros t H. unfold no_param_valuesb in H. apply andb_true_iff in H. destruct H as [A B].
  split; auto. intros i L. rewrite forallb_forall in B. apply B. apply in_seq. lia.
Qed.

(* any fuel from 2 * length t + 1 on is enough; Writer.tape_fuel is 4 * length t + 16 *)
Theorem write_tape_wf_nocrash_fuel_partial : forall c t fuel,
  tape_wf t -> no_param_valuesb t = true -> 2 * length t + 1 <= fuel ->
  exists w out, write_tape fuel c t = WOk w out /\ w_depth w = [].
Proof.
  intros c t fuel WF H F. destruct (no_param_valuesb_ok t H) as [A B].
  assert (NC : nocrash (write_tape fuel c t)).
  { unfold write_tape. apply wt_nc; auto.
    - cbn [job_ok]. destruct WF as (_ & FE & _). split; [lia|]. split; eauto.
    - cbn [jneed]. lia. }
  pose proof (write_tape_balanced fuel c t) as BAL.
  destruct (write_tape fuel c t) as [w o|w o e|p s]; cbn [nocrash okdc] in *; try contradiction.
  exists w, o. split; auto. unfold dep in BAL. destruct (w_depth w); [reflexivity|discriminate].
Qed.

Theorem write_tape_wf_nocrash_partial : forall c t,
  tape_wf t -> no_param_valuesb t = true ->
  exists w out, write_tape (tape_fuel t) c t = WOk w out.
Proof.
  intros c t WF H.
  destruct (write_tape_wf_nocrash_fuel_partial c t (tape_fuel t) WF H) as (w & o & E & _).
  - unfold tape_fuel. lia.
  - eauto.
Qed.

(* every tape the text parser returns is well formed; the side condition stays a hypothesis *)
Theorem write_tape_parsed_nocrash_partial : forall input t bom c,
  TextTape.parse input = Ok (t, bom) -> no_param_valuesb t = true ->
  exists w out, write_tape (tape_fuel t) c t = WOk w out.
Proof.
  intros input t bom c P H. apply write_tape_wf_nocrash_partial; auto.
  eapply parse_tape_wf; eauto.
Qed.

(* the same with the two executable checkers (what the oracle runs on a real tape) *)
Theorem write_tape_checked_nocrash_partial : forall c t,
  tape_wfb t = true -> no_param_valuesb t = true ->
  exists w out, write_tape (tape_fuel t) c t = WOk w out.
Proof. intros c t A B. apply write_tape_wf_nocrash_partial; auto. apply tape_wfb_sound; auto. Qed.
