(* C19 (text), main theorem: the tape parser on a truncated input either fails or returns a tape
   consistent with the tape of the complete input.

   Route: (1) locality of every scanner and of [step] under removal of the last r bytes of the
   data ([chop r]): the run on the prefix follows the run on the complete input, state by state,
   until the step that looks at a missing byte; that step either fails, or sees the end of the
   data (exit analysis), or leaves a state from which no success is possible, or pushes a
   shortened unquoted scalar as the value of a field; (2) tokens of the complete run that are not
   open containers and not the last token never change again ([frozen]); (3) the exit analysis
   in state Key with at most one open container. *)
From JV Require Import Bytes Tables TextTok TextTape TextTapeWf TextDoc TextTrunc.
From JV.proofs Require Import TextTapeWfProofs TextTapeInvProofs TextScanProofs TruncProofs.
From Coq Require Import Lia List Arith Bool.
Import ListNotations.
Open Scope nat_scope.

(* ------------------------------------------------------------------ chop *)
Definition chop (r : nat) (l : bytes) : bytes := firstn (length l - r) l.
Definition chopS (r : nat) (s : pstate) : pstate :=
  mkps (chop r (pdata s)) (pst_ s) (pmixed s) (pparent s) (ptape s).

Lemma chop_nil r : chop r [] = [].
Proof. unfold chop. apply firstn_nil. Qed.

Lemma chop_cons r c d : r <= length d -> chop r (c :: d) = c :: chop r d.
Proof. intros H. unfold chop. cbn [length]. replace (S (length d) - r) with (S (length d - r)) by lia. reflexivity. Qed.

Lemma chop_all r d : length d <= r -> chop r d = [].
Proof. intros H. unfold chop. replace (length d - r) with 0 by lia. reflexivity. Qed.

Lemma chop_length r d : length (chop r d) = length d - r.
Proof. unfold chop. rewrite firstn_length. lia. Qed.

Lemma chop_0 d : chop 0 d = d.
Proof. unfold chop. rewrite Nat.sub_0_r. apply firstn_all. Qed.

Lemma chop_skipn r n d : n + r <= length d -> skipn n (chop r d) = chop r (skipn n d).
Proof.
  intros H. unfold chop. rewrite skipn_length, skipn_firstn_comm. f_equal. lia.
Qed.

Lemma chop_firstn r n d : n + r <= length d -> firstn n (chop r d) = firstn n d.
Proof. intros H. unfold chop. rewrite firstn_firstn. f_equal. lia. Qed.

Lemma chop_app_r r a b : r <= length b -> chop r (a ++ b) = a ++ chop r b.
Proof.
  intros H. unfold chop. rewrite app_length.
  replace (length a + length b - r) with (length a + (length b - r)) by lia.
  rewrite firstn_app_2. reflexivity.
Qed.

Lemma firstn_chop k d : k <= length d -> firstn k d = chop (length d - k) d.
Proof. intros H. unfold chop. f_equal. lia. Qed.

Lemma nth_error_firstn_lt {A} (l : list A) : forall k i, i < k -> nth_error (firstn k l) i = nth_error l i.
Proof.
  induction l as [|x l IH]; intros k i H; [rewrite firstn_nil; reflexivity|].
  destruct k as [|k]; [lia|]. destruct i as [|i]; [reflexivity|]. cbn [firstn nth_error]. apply IH. lia.
Qed.

Lemma nth_error_chop r d i : i + r < length d -> nth_error (chop r d) i = nth_error d i.
Proof. intros H. unfold chop. apply nth_error_firstn_lt. lia. Qed.

Lemma nth_error_chop_none r d i : length d <= i + r -> nth_error (chop r d) i = None.
Proof. intros H. apply nth_error_None. rewrite chop_length. lia. Qed.

(* ------------------------------------------------------------------ white space *)
Lemma skip_ws_c_chop r : forall d b,
  match skip_ws_c b d with
  | None => skip_ws_c b (chop r d) = None
  | Some d2 => skip_ws_c b (chop r d) = None \/
               (r < length d2 /\ skip_ws_c b (chop r d) = Some (chop r d2))
  end.
Proof.
  induction d as [|c d IH]; intros b.
  - rewrite chop_nil. reflexivity.
  - destruct (Nat.le_gt_cases r (length d)) as [Hr|Hr].
    + rewrite chop_cons by exact Hr. cbn [skip_ws_c].
      destruct b.
      * destruct (beq c 10); apply IH.
      * destruct (is_ws_t c); [apply IH|]. destruct (beq c 35); [apply IH|].
        right. split; [cbn [length]; lia|]. rewrite chop_cons by lia. reflexivity.
    + rewrite chop_all by (cbn [length]; lia).
      destruct (skip_ws_c b (c :: d)); [left|]; reflexivity.
Qed.

Lemma skip_ws_t_chop_some r d d2 : skip_ws_t d = Some d2 ->
  skip_ws_t (chop r d) = None \/ (r < length d2 /\ skip_ws_t (chop r d) = Some (chop r d2)).
Proof. intros H. pose proof (skip_ws_c_chop r d false) as P. unfold skip_ws_t in *. rewrite H in P. exact P. Qed.

Lemma skip_ws_t_chop_none r d : skip_ws_t d = None -> skip_ws_t (chop r d) = None.
Proof. intros H. pose proof (skip_ws_c_chop r d false) as P. unfold skip_ws_t in *. rewrite H in P. exact P. Qed.

(* ------------------------------------------------------------------ scanners *)
Lemma first_boundary_firstn k d : first_boundary (firstn k d) = Nat.min k (first_boundary d).
Proof.
  unfold first_boundary. rewrite find_idx_firstn, firstn_length.
  destruct (find_idx is_boundary d 0) as [i|] eqn:E.
  - pose proof (find_idx_bounds _ _ _ _ E) as Hb. rewrite Nat.sub_0_r.
    destruct (Nat.ltb_spec i k); lia.
  - lia.
Qed.

(* split_at_scalar on a chopped, still non-empty input: the same scalar and the chopped rest, or
   a shorter scalar and nothing left *)
Lemma split_at_scalar_chop r d a b :
  r < length d -> split_at_scalar d = Ok (a, b) ->
  split_at_scalar (chop r d) = Ok (a, chop r b) \/
  (exists a', split_at_scalar (chop r d) = Ok (a', []) /\ bytes_prefix a' a /\ a' <> []).
Proof.
  intros Hr H.
  assert (Hd : d <> []) by (intros ->; cbn in Hr; lia).
  assert (Hc : chop r d <> []).
  { intros E. apply (f_equal (@length _)) in E. rewrite chop_length in E. cbn in E. lia. }
  rewrite (TextScanProofs.split_at_scalar_spec d Hd) in H.
  rewrite (TextScanProofs.split_at_scalar_spec _ Hc).
  set (k := length d - r). assert (Hk : 0 < k <= length d) by (unfold k; lia).
  unfold chop. fold k. rewrite first_boundary_firstn.
  remember (first_boundary d) as fb eqn:Efb. clear Efb.
  remember (Nat.max 1 fb) as i eqn:Ei.
  remember (Nat.max 1 (Nat.min k fb)) as i' eqn:Ei'.
  inversion H; subst a b; clear H.
  destruct (Nat.le_gt_cases i k) as [Hle|Hgt].
  - left. assert (i' = i) by lia. subst i'. rewrite H.
    rewrite firstn_firstn. replace (Nat.min i k) with i by lia.
    f_equal. f_equal. rewrite skipn_length, skipn_firstn_comm. f_equal. unfold k. lia.
  - right. assert (i' = k) by lia. subst i'. rewrite H.
    exists (firstn k d). rewrite firstn_firstn, Nat.min_id. split.
    + f_equal. f_equal. rewrite skipn_all2; [reflexivity|]. rewrite firstn_length. lia.
    + split.
      * exists (firstn (i - k) (skipn k d)).
        rewrite <- firstn_add. f_equal. lia.
      * intros E. apply (f_equal (@length _)) in E. rewrite firstn_length in E. cbn in E. lia.
Qed.

Lemma tq_scan_bound0 l i : tq_scan l 0 = Some i -> i < length l.
Proof. intros H. apply tq_scan_bound in H. lia. Qed.

Lemma parse_quote_scalar_chop r c h a b :
  r <= length h -> parse_quote_scalar (c :: h) = Ok (a, b) ->
  parse_quote_scalar (c :: chop r h) = Ok (a, chop r b) \/ parse_quote_scalar (c :: chop r h) = Err E_TextErr.
Proof.
  intros Hr. rewrite !quote_scalar_spec.
  destruct (tq_scan h 0) as [i|] eqn:E; [|discriminate]. intros H. injection H as <- <-.
  pose proof (tq_scan_bound0 _ _ E) as Hi.
  destruct (tq_scan_cut h (length h - r) i E) as [H1 H2]. fold (chop r h) in H1, H2.
  destruct (Nat.le_gt_cases (length h - r) i) as [Hle|Hgt].
  - right. rewrite (H1 Hle). reflexivity.
  - left. rewrite (H2 Hgt). rewrite chop_firstn by lia. rewrite chop_skipn by lia. reflexivity.
Qed.

Lemma find_idx_firstn_some p d k j i :
  find_idx p d j = Some i -> i - j < k -> find_idx p (firstn k d) j = Some i.
Proof. intros H Hk. rewrite find_idx_firstn, H. destruct (Nat.ltb_spec (i - j) k); [reflexivity|lia]. Qed.

Lemma find_idx_firstn_none p d k j i :
  find_idx p d j = Some i -> k <= i - j -> find_idx p (firstn k d) j = None.
Proof. intros H Hk. rewrite find_idx_firstn, H. destruct (Nat.ltb_spec (i - j) k); [lia|reflexivity]. Qed.

(* the result of a scalar scanner on the chopped data, relative to the result (a, b) on the data *)
Definition scan_cut (r : nat) (a b : bytes) (res : outcome (bytes * bytes)) : Prop :=
  res = Ok (a, chop r b) \/ res = Err E_TextErr \/
  (exists a', res = Ok (a', []) /\ bytes_prefix a' a /\ a' <> []).

Lemma scan_cut_of_split r d a b :
  r < length d -> split_at_scalar d = Ok (a, b) -> scan_cut r a b (split_at_scalar (chop r d)).
Proof.
  intros Hr H. destruct (split_at_scalar_chop r d a b Hr H) as [E|E]; [left; exact E|right; right; exact E].
Qed.

Lemma parse_variable_chop r d a b :
  r < length d -> parse_variable d = Ok (a, b) -> scan_cut r a b (parse_variable (chop r d)).
Proof.
  intros Hr H. destruct d as [|c0 d1]; [cbn in Hr; lia|].
  cbn [length] in Hr. rewrite chop_cons by lia.
  destruct d1 as [|c1 d2].
  - (* single byte *) rewrite chop_nil. cbn [parse_variable] in *.
    assert (r = 0) by (cbn [length] in Hr; lia). subst r. left. rewrite chop_0. exact H.
  - cbn [length] in Hr.
    destruct (Nat.eq_dec r (S (length d2))) as [->|Hne].
    + (* only the '@' is left *)
      rewrite chop_all by (cbn [length]; lia).
      change (parse_variable [c0]) with (split_at_scalar [c0]).
      assert (Hs : split_at_scalar [c0] = Ok ([c0], [])).
      { rewrite (TextScanProofs.split_at_scalar_spec [c0]) by discriminate.
        assert (E : Nat.max 1 (first_boundary [c0]) = 1).
        { unfold first_boundary. cbn [find_idx length]. destruct (is_boundary c0); reflexivity. }
        rewrite E. reflexivity. }
      right. right. exists [c0]. split; [exact Hs|]. split; [|discriminate].
      cbn [parse_variable] in H. destruct (beq c1 91).
      * destruct (find_idx _ d2 2) as [pos|]; [|discriminate]. injection H as <- <-. exists (firstn pos (c1 :: d2)). reflexivity.
      * rewrite (TextScanProofs.split_at_scalar_spec (c0 :: c1 :: d2)) in H by discriminate.
        remember (Nat.max 1 (first_boundary (c0 :: c1 :: d2))) as n0 eqn:E.
        destruct n0 as [|n]; [lia|]. injection H as <- <-.
        exists (firstn n (c1 :: d2)). reflexivity.
    + rewrite chop_cons by lia. cbn [parse_variable] in *.
      destruct (beq c1 91) eqn:E91.
      * destruct (find_idx (fun b0 => beq b0 93) d2 2) as [pos|] eqn:Ef; [|discriminate].
        injection H as <- <-.
        pose proof (find_idx_bounds _ _ _ _ Ef) as Hb. unfold chop at 1.
        destruct (Nat.le_gt_cases (length d2 - r) (pos - 2)) as [Hle|Hgt].
        -- right. left. rewrite (find_idx_firstn_none _ _ _ _ _ Ef Hle). reflexivity.
        -- left. rewrite (find_idx_firstn_some _ _ _ _ _ Ef Hgt).
           replace (c0 :: c1 :: chop r d2) with (chop r (c0 :: c1 :: d2))
             by (rewrite !chop_cons by (cbn [length]; lia); reflexivity).
           rewrite chop_firstn by (cbn [length]; lia). rewrite chop_skipn by (cbn [length]; lia). reflexivity.
      * replace (c0 :: c1 :: chop r d2) with (chop r (c0 :: c1 :: d2))
          by (rewrite !chop_cons by (cbn [length]; lia); reflexivity).
        apply scan_cut_of_split; [cbn [length]; lia|exact H].
Qed.

(* scalar_step on the chopped data *)
Definition sstep_cut (r : nat) (tok : ttok) (d' : bytes) (res : outcome (ttok * bytes)) : Prop :=
  res = Ok (tok, chop r d') \/ res = Err E_TextErr \/
  (exists s s', tok = TUnquoted s /\ res = Ok (TUnquoted s', []) /\ bytes_prefix s' s /\ s' <> []).

Lemma scalar_step_chop r c d1 tok d' :
  r <= length d1 -> scalar_step (c :: d1) c = Ok (tok, d') ->
  sstep_cut r tok d' (scalar_step (c :: chop r d1) c).
Proof.
  intros Hr. unfold scalar_step.
  assert (Ec : c :: chop r d1 = chop r (c :: d1)) by (rewrite chop_cons by exact Hr; reflexivity).
  assert (Hlen : r < length (c :: d1)) by (cbn [length]; lia).
  destruct (beq c 34).
  - destruct (parse_quote_scalar (c :: d1)) as [[a b]| | | |] eqn:E; cbn [omap]; try discriminate.
    intros H. inversion H; subst tok d'; clear H. cbn [fst snd].
    destruct (parse_quote_scalar_chop r c d1 a b Hr E) as [-> | ->]; cbn [omap fst snd]; [left|right; left]; reflexivity.
  - assert (G : forall (f : bytes -> outcome (bytes * bytes)),
               (forall a b, f (c :: d1) = Ok (a, b) -> scan_cut r a b (f (chop r (c :: d1)))) ->
               omap (fun p => (TUnquoted (fst p), snd p)) (f (c :: d1)) = Ok (tok, d') ->
               sstep_cut r tok d' (omap (fun p => (TUnquoted (fst p), snd p)) (f (c :: chop r d1)))).
    { intros f Hf. destruct (f (c :: d1)) as [[a b]| | | |] eqn:E; cbn [omap]; try discriminate.
      intros H. inversion H; subst tok d'; clear H. cbn [fst snd]. rewrite Ec.
      destruct (Hf a b eq_refl) as [-> | [-> | (a' & -> & Hp & Hn)]]; cbn [omap fst snd].
      - left. reflexivity.
      - right. left. reflexivity.
      - right. right. exists a, a'. auto. }
    destruct (beq c 64).
    + apply G. intros a b. apply parse_variable_chop. exact Hlen.
    + apply G. intros a b. apply scan_cut_of_split. exact Hlen.
Qed.

(* ------------------------------------------------------------------ one step on the chopped data *)
Definition dead (s : pstate) : Prop := forall fuel t, ploop fuel s <> Ok t.

Lemma dead_eof s : pst_ s <> SKey -> skip_ws_t (pdata s) = None -> dead s.
Proof.
  intros Hs Hw fuel t. destruct fuel as [|f]; [discriminate|]. cbn [ploop].
  rewrite (eof_mid_field s Hw Hs). discriminate.
Qed.

Definition bad (res : step_res) : Prop := match res with Fail _ | Crash _ => True | _ => False end.

(* [res] = the step on the chopped data, [s'] = the successor on the complete data *)
Inductive cut_res (r : nat) (s' : pstate) (res : step_res) : Prop :=
| cr_sync : res = Next (chopS r s') -> cut_res r s' res
| cr_bad : bad res -> cut_res r s' res
| cr_dead s'' : res = Next s'' -> dead s'' -> cut_res r s' res
| cr_short d' m p t x x' :
    s' = mkps d' SKey m p (tpush t x) -> res = Next (mkps [] SKey m p (tpush t x')) -> tok_cut x' x ->
    cut_res r s' res.

Ltac fin :=
  let H := fresh "H" in intros H;
  first [ discriminate H
        | injection H as <-; apply cr_sync; unfold chopS; cbn [pdata pst_ pmixed pparent ptape];
          rewrite ?chop_cons by (cbn [length] in *; lia); reflexivity ].

Lemma skip_ws_nonempty d d2 : skip_ws_t d = Some d2 -> d2 <> [].
Proof. intros H. apply skip_ws_t_spec in H. tauto. Qed.

(* parse_parameter_definition *)
Lemma parse_param_chop r d p st t (initial : bool) s' :
  r < length d -> parse_param d p st t initial = Next s' ->
  parse_param (chop r d) p st t initial = Next (chopS r s') \/ bad (parse_param (chop r d) p st t initial).
Proof.
  intros Hr. unfold parse_param. rewrite !match_o91.
  destruct (nth_error d 1) as [c1|] eqn:E1; [|discriminate].
  destruct (N.eqb c1 91) eqn:E91; [|discriminate].
  destruct (Nat.le_gt_cases (length d) (2 + r)) as [Hshort|Hlong].
  { (* at most two bytes left: `[[` alone is rejected *)
    intros _. right.
    destruct (nth_error (chop r d) 1) as [c1'|] eqn:E1'; [|exact I].
    destruct (N.eqb c1' 91); [|exact I].
    match goal with |- context [if initial then ?a else ?b] => destruct (if initial then a else b) as [[t2 p2]|] end; [|exact I].
    rewrite (nth_error_chop_none r d 2) by lia.
    destruct (Nat.ltb (length (chop r d)) 2); [exact I|].
    rewrite skipn_all2 by (rewrite chop_length; lia). exact I. }
  rewrite (nth_error_chop r d 1) by lia. rewrite E1, E91.
  match goal with |- context [if initial then ?a else ?b] => destruct (if initial then a else b) as [[t2 p2]|] end; [|discriminate].
  rewrite !match_o33. rewrite (nth_error_chop r d 2) by lia.
  set (undefined := match nth_error d 2 with Some c => if N.eqb c 33 then true else false | None => false end).
  set (off := if undefined then 3 else 2).
  assert (Hoff : 2 <= off <= 3) by (subst off; destruct undefined; lia).
  destruct (Nat.ltb_spec (length d) off) as [|Hlen]; [discriminate|].
  destruct (Nat.ltb_spec (length (chop r d)) off) as [Hc|_]; [rewrite chop_length in Hc; lia|].
  rewrite chop_skipn by lia.
  remember (skipn off d) as dd eqn:Edd.
  destruct dd as [|x dd']; [discriminate|].
  destruct (chop r (x :: dd')) as [|y yy] eqn:Ec; [intros _; right; exact I|]. rewrite <- Ec.
  assert (Hr1 : r < length (x :: dd')).
  { apply (f_equal (@length _)) in Ec. rewrite chop_length in Ec. cbn [length] in *. lia. }
  destruct (split_at_scalar (x :: dd')) as [[name d2]| | | |] eqn:Es; try discriminate.
  destruct (split_at_scalar_chop r _ _ _ Hr1 Es) as [-> | (a' & -> & _ & _)]; [|intros _; right; exact I].
  rewrite !match_b93. destruct d2 as [|c2 d3]; [discriminate|].
  destruct (N.eqb c2 93) eqn:E93; [|discriminate].
  destruct (Nat.le_gt_cases r (length d3)) as [Hr3|Hr3]; [|rewrite chop_all by (cbn [length]; lia); intros _; right; exact I].
  rewrite chop_cons by exact Hr3. rewrite E93.
  destruct (skip_ws_t d3) as [d4|] eqn:E4; [|discriminate].
  destruct (skip_ws_t_chop_some r d3 d4 E4) as [-> | [Hr4 ->]]; [intros _; right; exact I|].
  destruct (split_at_scalar d4) as [[kv d5]| | | |] eqn:Es4; try discriminate.
  destruct (split_at_scalar_chop r _ _ _ Hr4 Es4) as [-> | (a' & -> & _ & _)]; [|intros _; right; exact I].
  destruct (skip_ws_t d5) as [d6|] eqn:E6; [|discriminate].
  destruct (skip_ws_t_chop_some r d5 d6 E6) as [-> | [Hr6 ->]]; [intros _; right; exact I|].
  rewrite !match_b93.
  destruct d6 as [|c6 d7]; [cbn [length] in Hr6; lia|]. cbn [length] in Hr6.
  rewrite chop_cons by lia.
  destruct (N.eqb c6 93).
  - intros H. injection H as <-. left. reflexivity.
  - intros H. injection H as <-. left. unfold chopS. cbn [pdata pst_ pmixed pparent ptape].
    rewrite chop_cons by lia. reflexivity.
Qed.

Lemma keep_mixed_chop r m d p st t (initial : bool) s' :
  r < length d -> keep_mixed m (parse_param d p st t initial) = Next s' ->
  cut_res r s' (keep_mixed m (parse_param (chop r d) p st t initial)).
Proof.
  intros Hr. destruct (parse_param d p st t initial) as [s1| | |] eqn:E; cbn [keep_mixed]; try discriminate.
  intros H. injection H as <-.
  destruct (parse_param_chop r d p st t initial s1 Hr E) as [-> | Hb].
  - apply cr_sync. reflexivity.
  - apply cr_bad. destruct (parse_param (chop r d) p st t initial); cbn [keep_mixed bad] in *; tauto.
Qed.

Lemma bytes_prefix_tok_cut s s' : bytes_prefix s' s -> s' <> [] -> tok_cut (TUnquoted s') (TUnquoted s).
Proof. intros Hp Hn. right. exists s', s. auto. Qed.

Ltac step_open Hf Hc :=
  unfold step; cbv zeta; cbn [pdata pst_ pmixed pparent ptape]; rewrite Hf, Hc.

(* the scalar arms: what the three outcomes of scalar_step on the chopped data lead to *)
Lemma scalar_arm_chop r c d1 m p t st' s' :
  r <= length d1 ->
  match scalar_step (c :: d1) c with
  | Ok (tok, d') => Next (mkps d' st' m p (tpush t tok))
  | Err e => Fail e
  | _ => Crash 0%N
  end = Next s' ->
  cut_res r s'
    match scalar_step (c :: chop r d1) c with
    | Ok (tok, d') => Next (mkps d' st' m p (tpush t tok))
    | Err e => Fail e
    | _ => Crash 0%N
    end.
Proof.
  intros Hr. destruct (scalar_step (c :: d1) c) as [[tok d']| | | |] eqn:Es; try discriminate.
  intros H. injection H as <-.
  destruct (scalar_step_chop r c d1 tok d' Hr Es) as [-> | [-> | (s0 & s1 & -> & -> & Hp & Hn)]].
  - apply cr_sync. reflexivity.
  - apply cr_bad. exact I.
  - destruct st'.
    + eapply cr_short; [reflexivity|reflexivity|]. apply bytes_prefix_tok_cut; assumption.
    + eapply cr_dead; [reflexivity|]. apply dead_eof; [discriminate|reflexivity].
    + eapply cr_dead; [reflexivity|]. apply dead_eof; [discriminate|reflexivity].
    + eapply cr_dead; [reflexivity|]. apply dead_eof; [discriminate|reflexivity].
    + eapply cr_dead; [reflexivity|]. apply dead_eof; [discriminate|reflexivity].
Qed.

(* the same with another crash-site number (the arms differ only in that constant) *)
Lemma scalar_arm_chop' (site : N) r c d1 m p t st' s' :
  r <= length d1 ->
  match scalar_step (c :: d1) c with
  | Ok (tok, d') => Next (mkps d' st' m p (tpush t tok))
  | Err e => Fail e
  | _ => Crash site
  end = Next s' ->
  cut_res r s'
    match scalar_step (c :: chop r d1) c with
    | Ok (tok, d') => Next (mkps d' st' m p (tpush t tok))
    | Err e => Fail e
    | _ => Crash site
    end.
Proof.
  intros Hr H. pose proof (scalar_arm_chop r c d1 m p t st' s' Hr) as P.
  destruct (scalar_step (c :: d1) c) as [[tok d']| | | |]; try discriminate.
  specialize (P H).
  destruct (scalar_step (c :: chop r d1) c) as [[tok2 d2]| | | |]; try exact P; apply cr_bad; exact I.
Qed.

Lemma step_chop_SKey r c d1 dfull dcut m p t s' :
  r <= length d1 ->
  skip_ws_t dfull = Some (c :: d1) -> skip_ws_t dcut = Some (c :: chop r d1) ->
  step (mkps dfull SKey m p t) = Next s' ->
  cut_res r s' (step (mkps dcut SKey m p t)).
Proof.
  intros Hr Hf Hc. step_open Hf Hc.
  destruct (beq c 125 || beq c 93).
  { destruct (restore t (slot t p)) as [st' m'].
    destruct (Nat.eqb p 0 && Nat.eqb (slot t p) 0); [fin|].
    destruct (tset (tpush t (TEnd p)) p (TObject (length t) m)); fin. }
  destruct (beq c 123).
  { destruct (skip_ws_t d1) as [d2|] eqn:E2; [|discriminate].
    pose proof (skip_ws_nonempty _ _ E2) as Hne.
    destruct (skip_ws_t_chop_some r d1 d2 E2) as [-> | [Hr2 ->]]; [intros _; apply cr_bad; exact I|].
    rewrite !match_b125.
    destruct d2 as [|c2 d3]; [congruence|]. cbn [length] in Hr2. rewrite chop_cons by lia.
    destruct (N.eqb c2 125); [fin|].
    destruct (tlast t) as [x|]; [|discriminate].
    destruct x; try discriminate.
    destruct (tset t (length t - 1) (THeader s)); fin. }
  destruct (beq c 91).
  { rewrite <- (chop_cons r c d1) by exact Hr. apply keep_mixed_chop. cbn [length]. lia. }
  apply scalar_arm_chop'. exact Hr.
Qed.

Lemma step_chop_SObjVal r c d1 dfull dcut m p t s' :
  r <= length d1 ->
  skip_ws_t dfull = Some (c :: d1) -> skip_ws_t dcut = Some (c :: chop r d1) ->
  step (mkps dfull SObjVal m p t) = Next s' ->
  cut_res r s' (step (mkps dcut SObjVal m p t)).
Proof.
  intros Hr Hf Hc. step_open Hf Hc.
  destruct (beq c 123); [fin|].
  destruct (beq c 125); [discriminate|].
  apply scalar_arm_chop'. exact Hr.
Qed.

Lemma step_chop_SOpen r c d1 dfull dcut m p t s' :
  r <= length d1 ->
  skip_ws_t dfull = Some (c :: d1) -> skip_ws_t dcut = Some (c :: chop r d1) ->
  step (mkps dfull SOpen m p t) = Next s' ->
  cut_res r s' (step (mkps dcut SOpen m p t)).
Proof.
  intros Hr Hf Hc. step_open Hf Hc.
  destruct (beq c 125).
  { destruct (length t) as [|ind]; [discriminate|].
    destruct (restore t p) as [st' m'].
    destruct (tset t ind (TArray (S ind) false)); fin. }
  destruct (beq c 91).
  { destruct m; [discriminate|].
    rewrite <- (chop_cons r c d1) by exact Hr. apply keep_mixed_chop. cbn [length]. lia. }
  destruct (beq c 123).
  { destruct (skip_ws_t d1) as [d2|] eqn:E2; [|discriminate].
    pose proof (skip_ws_nonempty _ _ E2) as Hne.
    destruct (skip_ws_t_chop_some r d1 d2 E2) as [-> | [Hr2 ->]]; [intros _; apply cr_bad; exact I|].
    rewrite !match_b125.
    destruct d2 as [|c2 d3]; [congruence|]. cbn [length] in Hr2. rewrite chop_cons by lia.
    destruct (N.eqb c2 125); [fin|].
    destruct (length t) as [|ind]; [discriminate|].
    destruct (tset t ind (TArray p false)); fin. }
  destruct (scalar_step (c :: d1) c) as [[tok d']| | | |] eqn:Es; try discriminate.
  destruct (scalar_step_chop r c d1 tok d' Hr Es) as [-> | [-> | (s0 & s1 & -> & -> & Hp & Hn)]].
  - match goal with |- context [Nat.ltb (length ?T) 2] => generalize T end. intros t2.
    destruct (skip_ws_t d') as [d2|] eqn:E2; [|discriminate].
    destruct (skip_ws_t_chop_some r d' d2 E2) as [-> | [Hr2 ->]]; [intros _; apply cr_bad; exact I|].
    destruct d2 as [|c2 d3]; [discriminate|]. cbn [length] in Hr2. rewrite chop_cons by lia.
    destruct (Nat.ltb (length t2) 2); [discriminate|].
    destruct (beq c2 61 || beq c2 62 || beq c2 60).
    + destruct (tset t2 (length t2 - 2) (TObject p false)); fin.
    + destruct (tset t2 (length t2 - 2) (TArray p false)); fin.
  - intros _. apply cr_bad. exact I.
  - intros _. apply cr_bad. exact I.
Qed.

(* ---- two-byte operators ---- *)
Definition next_is_eq (l : bytes) : bool := match l with c :: _ => N.eqb c 61 | [] => false end.

Lemma op2_char c l :
  op2 (c :: l) =
  if beq c 60 then Some (if next_is_eq l then (LessThanEqual, 2) else (LessThan, 1))
  else if beq c 62 then Some (if next_is_eq l then (GreaterThanEqual, 2) else (GreaterThan, 1))
  else if beq c 33 then (if next_is_eq l then Some (NotEqual, 2) else None)
  else if beq c 61 then Some (if next_is_eq l then (Exact, 2) else (Equal, 1))
  else None.
Proof.
  destruct c as [|pc]; [reflexivity|].
  do 8 (try destruct pc as [pc|pc|]; try reflexivity);
    (destruct l as [|x l']; [reflexivity|]; destruct x as [|px]; [reflexivity|];
     do 8 (try destruct px as [px|px|]; try reflexivity)).
Qed.

Lemma cut_res_0 s' : cut_res 0 s' (Next s').
Proof. apply cr_sync. destruct s' as [d st m p t]. unfold chopS. cbn [pdata pst_ pmixed pparent ptape]. rewrite chop_0. reflexivity. Qed.

Lemma dead_step s s1 : step s = Next s1 -> dead s1 -> dead s.
Proof. intros H Hd fuel t. destruct fuel as [|f]; [discriminate|]. cbn [ploop]. rewrite H. apply Hd. Qed.

Lemma dead_fail s e : step s = Fail e -> dead s.
Proof. intros H fuel t. destruct fuel as [|f]; [discriminate|]. cbn [ploop]. rewrite H. discriminate. Qed.

Lemma dead_bang p t : dead (mkps [33%N] SArrVal true p t).
Proof. apply (dead_fail _ E_TextErr). reflexivity. Qed.

Lemma dead_qmark p t : dead (mkps [63%N] SArrVal true p t).
Proof.
  eapply dead_step; [|apply (dead_eof (mkps [] SArrVal true p (tpush t (TUnquoted [63%N])))); [discriminate|reflexivity]].
  unfold step. cbn [pdata pst_ pmixed pparent ptape].
  change (skip_ws_t [63%N]) with (Some [63%N]). cbv iota.
  change (beq 63 123) with false. change (beq 63 125) with false. change (beq 63 34 || beq 63 64) with false.
  change (beq 63 60 || beq 63 62 || beq 63 33 || beq 63 61) with false. cbv iota.
  replace (scalar_step [63%N] 63) with (Ok (TUnquoted [63%N], @nil N)) by (vm_compute; reflexivity).
  reflexivity.
Qed.

Lemma beq_true c x : beq c x = true -> c = x.
Proof. apply N.eqb_eq. Qed.

Lemma step_same_skip d1 d2 st m p t : skip_ws_t d1 = skip_ws_t d2 -> step (mkps d1 st m p t) = step (mkps d2 st m p t).
Proof. intros H. unfold step. cbn [pdata pst_ pmixed pparent ptape]. rewrite H. reflexivity. Qed.

Lemma match_n61 (x : N) : match x with 61%N => true | _ => false end = N.eqb x 61.
Proof. destruct x as [|px]; [reflexivity|]. do 8 (try destruct px as [px|px|]; try reflexivity). Qed.

Lemma step_chop_SKvs r c d1 dfull dcut m p t s' :
  r <= length d1 ->
  skip_ws_t dfull = Some (c :: d1) -> skip_ws_t dcut = Some (c :: chop r d1) ->
  step (mkps dfull SKvs m p t) = Next s' ->
  cut_res r s' (step (mkps dcut SKvs m p t)).
Proof.
  intros Hr Hf Hc.
  destruct (Nat.eq_dec r 0) as [->|Hr0].
  { rewrite chop_0 in Hc. rewrite (step_same_skip dcut dfull) by congruence. intros ->. apply cut_res_0. }
  destruct d1 as [|x d2]; [cbn [length] in Hr; lia|]. cbn [length] in Hr.
  destruct (Nat.le_gt_cases r (length d2)) as [Hr2|Hr2].
  - (* both bytes of a two-byte operator are still there *)
    rewrite chop_cons in Hc by exact Hr2. step_open Hf Hc.
    rewrite !op2_char, !match_n61. cbn [next_is_eq].
    destruct (beq c 60); [destruct (N.eqb x 61); cbn [skipn]; fin|].
    destruct (beq c 62); [destruct (N.eqb x 61); cbn [skipn]; fin|].
    destruct (beq c 33).
    { destruct (N.eqb x 61); cbn [skipn]; [fin|].
      destruct (beq c 63 && false); [fin|]. destruct (beq c 123); [fin|].
      destruct (tinsert_before_last t TMixedContainer); fin. }
    destruct (beq c 61).
    { destruct (N.eqb x 61); cbn [skipn]; [fin|]. destruct m; fin. }
    destruct (beq c 63 && N.eqb x 61); [cbn [skipn]; fin|].
    destruct (beq c 123); [fin|].
    destruct (tinsert_before_last t TMixedContainer); fin.
  - (* only the first byte is left *)
    assert (Er : r = S (length d2)) by lia.
    rewrite chop_all in Hc by (cbn [length]; lia). step_open Hf Hc.
    rewrite !op2_char. cbn [next_is_eq].
    assert (Dead0 : forall st0 m0 t0, st0 <> SKey -> dead (mkps [] st0 m0 p t0))
      by (intros; apply dead_eof; [assumption|reflexivity]).
    destruct (beq c 60); [intros _; eapply cr_dead; [reflexivity|apply Dead0; discriminate]|].
    destruct (beq c 62); [intros _; eapply cr_dead; [reflexivity|apply Dead0; discriminate]|].
    destruct (beq c 33) eqn:E33.
    { apply beq_true in E33. subst c. intros _.
      change (beq 33 63 && false) with false. change (beq 33 123) with false. cbv iota.
      destruct (tinsert_before_last t TMixedContainer); [|apply cr_bad; exact I].
      eapply cr_dead; [reflexivity|apply dead_bang]. }
    destruct (beq c 61).
    { intros _. destruct m; (eapply cr_dead; [reflexivity|apply Dead0; discriminate]). }
    rewrite andb_false_r.
    destruct (beq c 63) eqn:E63.
    { apply beq_true in E63. subst c. intros _. change (beq 63 123) with false. cbv iota.
      destruct (tinsert_before_last t TMixedContainer); [|apply cr_bad; exact I].
      eapply cr_dead; [reflexivity|apply dead_qmark]. }
    cbn [andb].
    assert (Ech : [c] = chop r (c :: x :: d2)).
    { rewrite chop_cons by (cbn [length]; lia). rewrite chop_all by (cbn [length]; lia). reflexivity. }
    destruct (beq c 123).
    + intros H. injection H as <-. apply cr_sync. unfold chopS. cbn [pdata pst_ pmixed pparent ptape]. rewrite <- Ech. reflexivity.
    + destruct (tinsert_before_last t TMixedContainer); [|discriminate].
      intros H. injection H as <-. apply cr_sync. unfold chopS. cbn [pdata pst_ pmixed pparent ptape]. rewrite <- Ech. reflexivity.
Qed.

Lemma arr_op_chop r c d1 t' (m' : bool) p s' :
  r <> 0 -> r <= length d1 ->
  match op2 (c :: d1) with
  | Some (o, n) => Next (mkps (skipn n (c :: d1)) SArrVal m' p (tpush t' (TOperator o)))
  | None => Fail E_TextErr
  end = Next s' ->
  cut_res r s'
    match op2 (c :: chop r d1) with
    | Some (o, n) => Next (mkps (skipn n (c :: chop r d1)) SArrVal m' p (tpush t' (TOperator o)))
    | None => Fail E_TextErr
    end.
Proof.
  intros Hr0 Hr.
  destruct d1 as [|x d2]; [cbn [length] in Hr; lia|]. cbn [length] in Hr.
  destruct (Nat.le_gt_cases r (length d2)) as [Hr2|Hr2].
  - rewrite chop_cons by exact Hr2. rewrite !op2_char. cbn [next_is_eq].
    destruct (beq c 60); [destruct (N.eqb x 61); cbn [skipn]; fin|].
    destruct (beq c 62); [destruct (N.eqb x 61); cbn [skipn]; fin|].
    destruct (beq c 33); [destruct (N.eqb x 61); cbn [skipn]; fin|].
    destruct (beq c 61); [destruct (N.eqb x 61); cbn [skipn]; fin|].
    discriminate.
  - rewrite chop_all by (cbn [length]; lia). rewrite !op2_char. cbn [next_is_eq]. intros _.
    assert (Dead0 : forall t0 m0, dead (mkps [] SArrVal m0 p t0))
      by (intros; apply dead_eof; [discriminate|reflexivity]).
    destruct (beq c 60); [eapply cr_dead; [reflexivity|apply Dead0]|].
    destruct (beq c 62); [eapply cr_dead; [reflexivity|apply Dead0]|].
    destruct (beq c 33); [apply cr_bad; exact I|].
    destruct (beq c 61); [eapply cr_dead; [reflexivity|apply Dead0]|].
    apply cr_bad. exact I.
Qed.

Lemma step_chop_SArrVal r c d1 dfull dcut m p t s' :
  r <= length d1 ->
  skip_ws_t dfull = Some (c :: d1) -> skip_ws_t dcut = Some (c :: chop r d1) ->
  step (mkps dfull SArrVal m p t) = Next s' ->
  cut_res r s' (step (mkps dcut SArrVal m p t)).
Proof.
  intros Hr Hf Hc.
  destruct (Nat.eq_dec r 0) as [->|Hr0].
  { rewrite chop_0 in Hc. rewrite (step_same_skip dcut dfull) by congruence. intros ->. apply cut_res_0. }
  step_open Hf Hc.
  destruct (beq c 123); [fin|].
  destruct (beq c 125).
  { destruct (tget t p) as [x|]; [destruct x|]; cbv iota beta;
      (match goal with |- context [restore t ?g] => destruct (restore t g) as [st' m'] end;
       match goal with |- context [Nat.eqb p 0 && ?b] => destruct (Nat.eqb p 0 && b) end; [discriminate|];
       match goal with |- context [tset t p ?x] => destruct (tset t p x) end; fin). }
  destruct (beq c 34 || beq c 64); [apply scalar_arm_chop'; exact Hr|].
  destruct (beq c 60 || beq c 62 || beq c 33 || beq c 61); [|apply scalar_arm_chop'; exact Hr].
  destruct m.
  { apply arr_op_chop; assumption. }
  destruct (tlast t) as [x|]; [|discriminate].
  destruct (is_scalar_tok x); [|discriminate].
  destruct (tinsert_before_last t TMixedContainer); [|discriminate].
  apply arr_op_chop; assumption.
Qed.

(* ------------------------------------------------------------------ locality of [step] *)
Theorem step_chop r s s' :
  step s = Next s' ->
  skip_ws_t (chop r (pdata s)) = None \/ cut_res r s' (step (chopS r s)).
Proof.
  destruct s as [d st m p t]. intros H. cbn [pdata].
  destruct (skip_ws_t d) as [d0|] eqn:E0.
  2:{ exfalso. unfold step in H. cbn [pdata pst_ pmixed pparent ptape] in H. rewrite E0 in H.
      destruct st; try discriminate. destruct (Nat.eqb p 0); [discriminate|].
      destruct (Nat.eqb (slot t p) 0); [|discriminate].
      destruct (tset _ _ _); discriminate. }
  destruct (skip_ws_t_chop_some r d d0 E0) as [Hn | [Hr0 Hc]]; [left; exact Hn|]. right.
  destruct d0 as [|c d1]; [cbn [length] in Hr0; lia|]. cbn [length] in Hr0.
  rewrite chop_cons in Hc by lia. unfold chopS. cbn [pdata pst_ pmixed pparent ptape].
  assert (Hr : r <= length d1) by lia.
  destruct st.
  - exact (step_chop_SKey r c d1 d _ m p t s' Hr E0 Hc H).
  - exact (step_chop_SKvs r c d1 d _ m p t s' Hr E0 Hc H).
  - exact (step_chop_SObjVal r c d1 d _ m p t s' Hr E0 Hc H).
  - exact (step_chop_SArrVal r c d1 d _ m p t s' Hr E0 Hc H).
  - exact (step_chop_SOpen r c d1 d _ m p t s' Hr E0 Hc H).
Qed.

Ltac crush_H H :=
  repeat (match type of H with
          | context [match ?X with _ => _ end] => destruct X eqn:?; try discriminate H
          | context [if ?X then _ else _] => destruct X eqn:?; try discriminate H
          end).

Lemma parse_param_not_done d p st t (initial : bool) F : parse_param d p st t initial <> Done F.
Proof.
  unfold parse_param. intros H. crush_H H.
Qed.

(* only the end of the data ends the loop *)
Lemma step_done_eof s F : step s = Done F -> skip_ws_t (pdata s) = None.
Proof.
  destruct s as [d st m p t]. cbn [pdata]. intros H.
  unfold step in H. cbn [pdata pst_ pmixed pparent ptape] in H.
    destruct (skip_ws_t d) as [d0|]; [|reflexivity]. exfalso.
    destruct d0 as [|c d1]; [discriminate|].
    destruct st.
    - destruct (beq c 125 || beq c 93).
      { destruct (restore t (slot t p)). destruct (_ && _); [discriminate|]. destruct (tset _ _ _); discriminate. }
      destruct (beq c 123).
      { destruct (skip_ws_t d1) as [d2|]; [|discriminate]. rewrite match_b125 in H.
        destruct d2 as [|c2 d3]; [destruct (tlast t) as [[]|]; try discriminate; destruct (tset _ _ _); discriminate|].
        destruct (N.eqb c2 125); [discriminate|]. destruct (tlast t) as [[]|]; try discriminate; destruct (tset _ _ _); discriminate. }
      destruct (beq c 91).
      { destruct (parse_param _ _ _ _ _) eqn:Ep; try discriminate. exact (parse_param_not_done _ _ _ _ _ _ Ep). }
      destruct (scalar_step _ _) as [[]| | | |]; discriminate.
    - destruct (op2 (c :: d1)) as [[[] n]|]; try discriminate; try (destruct m; discriminate).
      destruct (_ && _); [discriminate|]. destruct (beq c 123); [discriminate|]. destruct (tinsert_before_last _ _); discriminate.
    - destruct (beq c 123); [discriminate|]. destruct (beq c 125); [discriminate|].
      destruct (scalar_step _ _) as [[]| | | |]; discriminate.
    - destruct (beq c 123); [discriminate|].
      destruct (beq c 125).
      { destruct (tget t p) as [[]|]; cbv iota beta in H;
          (match type of H with context [restore t ?g] => destruct (restore t g) end;
           match type of H with context [Nat.eqb p 0 && ?b] => destruct (Nat.eqb p 0 && b) end; [discriminate|];
           match type of H with context [tset t p ?x] => destruct (tset t p x) end; discriminate). }
      destruct (beq c 34 || beq c 64); [destruct (scalar_step _ _) as [[]| | | |]; discriminate|].
      destruct (_ || _).
      + destruct m.
        * destruct (op2 _) as [[]|]; discriminate.
        * destruct (tlast t) as [x|]; [|discriminate]. destruct (is_scalar_tok x); [|discriminate].
          destruct (tinsert_before_last _ _); [|discriminate]. destruct (op2 _) as [[]|]; discriminate.
      + destruct (scalar_step _ _) as [[]| | | |]; discriminate.
    - destruct (beq c 125).
      { destruct (length t); [discriminate|]. destruct (restore t p). destruct (tset _ _ _); discriminate. }
      destruct (beq c 91).
      { destruct m; [discriminate|]. destruct (parse_param _ _ _ _ _) eqn:Ep; try discriminate. exact (parse_param_not_done _ _ _ _ _ _ Ep). }
      destruct (beq c 123).
      { destruct (skip_ws_t d1) as [d2|]; [|discriminate]. rewrite match_b125 in H.
        destruct d2 as [|c2 d3].
        - destruct (length t); [discriminate|]. destruct (tset _ _ _); discriminate.
        - destruct (N.eqb c2 125); [discriminate|]. destruct (length t); [discriminate|]. destruct (tset _ _ _); discriminate. }
      destruct (scalar_step _ _) as [[tok d']| | | |]; try discriminate.
      match type of H with context [Nat.ltb (length ?T) 2] => generalize dependent T end. intros t2 H.
      destruct (skip_ws_t d') as [[|c2 d3]|]; try discriminate.
      destruct (Nat.ltb _ _); [discriminate|]. destruct (_ || _); destruct (tset _ _ _); discriminate.
Qed.

(* when the complete data ends here, so does the chopped data: the same exit *)
Lemma step_chop_done r s F : step s = Done F -> step (chopS r s) = Done F.
Proof.
  intros H. pose proof (step_done_eof _ _ H) as E0.
  destruct s as [d st m p t]. unfold chopS. cbn [pdata pst_ pmixed pparent ptape] in *.
  rewrite <- H. apply step_same_skip. rewrite E0. apply skip_ws_t_chop_none. exact E0.
Qed.

(* ------------------------------------------------------------------ frozen tokens *)
(* an open container holds the index of its parent (or 0) in its end slot: end <= own index;
   a closed one has end > index *)
Definition is_open (t : ttape) (i : nat) : bool :=
  match nth_error t i with
  | Some x => match cont_end x with Some e => Nat.leb e i | None => false end
  | None => false
  end.

(* t' extends t: every token of t that is neither an open container nor the last token is still
   there, at the same index *)
Definition ext (t t' : ttape) : Prop :=
  length t <= length t' /\
  forall i, i + 1 < length t -> is_open t i = false -> nth_error t' i = nth_error t i.

Lemma ext_refl t : ext t t.
Proof. split; [lia|auto]. Qed.

Lemma ext_trans a b c : ext a b -> ext b c -> ext a c.
Proof.
  intros [L1 H1] [L2 H2]. split; [lia|]. intros i Hi Ho.
  rewrite <- (H1 i Hi Ho). apply H2; [lia|]. unfold is_open in *. rewrite (H1 i Hi Ho). exact Ho.
Qed.

Lemma tset_spec : forall t q x t', tset t q x = Some t' ->
  length t' = length t /\ forall i, i <> q -> nth_error t' i = nth_error t i.
Proof.
  induction t as [|a t IH]; intros q x t' H; [destruct q; discriminate|].
  destruct q as [|q]; cbn [tset] in H.
  - injection H as <-. split; [reflexivity|]. intros [|i] Hi; [lia|reflexivity].
  - destruct (tset t q x) as [r'|] eqn:E; [|discriminate]. injection H as <-.
    destruct (IH _ _ _ E) as [L N]. split; [cbn [length]; lia|].
    intros [|i] Hi; [reflexivity|]. cbn [nth_error]. apply N. lia.
Qed.

Lemma ext_tset t q x t' : tset t q x = Some t' -> length t <= q + 1 \/ is_open t q = true -> ext t t'.
Proof.
  intros H Hq. destruct (tset_spec _ _ _ _ H) as [L N]. split; [lia|].
  intros i Hi Ho. apply N. intros ->. destruct Hq as [Hq|Hq]; [lia|congruence].
Qed.

Lemma ext_push t x : ext t (tpush t x).
Proof.
  unfold tpush. split; [rewrite app_length; lia|]. intros i Hi _. apply nth_error_app1. lia.
Qed.

Lemma ext_insert t x t' : tinsert_before_last t x = Some t' -> ext t t'.
Proof.
  unfold tinsert_before_last. destruct (length t) as [|n] eqn:L; [discriminate|]. intros H. injection H as <-.
  split.
  - rewrite app_length. cbn [length]. rewrite firstn_length, skipn_length. lia.
  - intros i Hi _. rewrite nth_error_app1 by (rewrite firstn_length; lia).
    apply nth_error_firstn_lt. lia.
Qed.

Lemma is_open_app t X i : i < length t -> is_open (t ++ X) i = is_open t i.
Proof. intros H. unfold is_open. rewrite nth_error_app1 by exact H. reflexivity. Qed.

Lemma chainrep_parent_open t p : chainrep t p -> p <> 0 -> is_open t p = true.
Proof.
  intros H Hp. destruct (chainrep_inv _ _ H) as [[-> _]|(t0 & p0 & c & V & -> & -> & H0 & N & Hc & _)]; [congruence|].
  unfold is_open. rewrite nth_error_mid, Nat.ltb_irrefl, Nat.eqb_refl, Hc.
  apply Nat.leb_le. pose proof (chainrep_nonnil_lt _ _ H0 N). lia.
Qed.

Lemma chainrep_open_app t p X : chainrep t p -> p <> 0 -> is_open (t ++ X) p = true.
Proof.
  intros H Hp. rewrite is_open_app; [apply chainrep_parent_open; assumption|].
  apply chainrep_nonnil_lt; [exact H|].
  destruct (chainrep_inv _ _ H) as [[-> _]|(t0 & p0 & c & V & -> & _)]; [congruence|]. destruct t0; discriminate.
Qed.

Lemma chainrep_pnz t p : chainrep t p -> ~ (p = 0 /\ slot t p = 0) -> p <> 0.
Proof. intros H Hn ->. apply Hn. split; [reflexivity|]. eapply chainrep_slot0; eauto. Qed.

Lemma andb_eqb_false p g : Nat.eqb p 0 && Nat.eqb g 0 = false -> ~ (p = 0 /\ g = 0).
Proof. intros H [-> ->]. discriminate. Qed.

Lemma parse_param_ext d p st t (initial : bool) s' :
  parse_param d p st t initial = Next s' -> ext t (ptape s').
Proof.
  unfold parse_param. intros H. rewrite match_o91 in H.
  destruct (nth_error d 1) as [c1|]; [|discriminate].
  destruct (N.eqb c1 91); [|discriminate].
  assert (exists t2 p2, (if initial
        then match length t with
             | 0 => None
             | S ind => match tset t ind (TObject p false) with Some t' => Some (t', ind) | None => None end
             end
        else Some (t, p)) = Some (t2, p2) /\ ext t t2) as (t2 & p2 & E & Hx).
  { destruct initial.
    - destruct (length t) as [|ind] eqn:L; [discriminate|].
      destruct (tset t ind (TObject p false)) as [t'|] eqn:Et; [|discriminate].
      exists t', ind. split; [reflexivity|]. eapply ext_tset; [exact Et|left; lia].
    - exists t, p. split; [reflexivity|apply ext_refl]. }
  rewrite E in H. clear E.
  crush_H H; injection H as <-; cbn [ptape];
    repeat (eapply ext_trans; [|apply ext_push]); exact Hx.
Qed.

Lemma keep_mixed_ext m d p st t (initial : bool) s' :
  keep_mixed m (parse_param d p st t initial) = Next s' -> ext t (ptape s').
Proof.
  destruct (parse_param d p st t initial) as [s1| | |] eqn:E; cbn [keep_mixed]; try discriminate.
  intros H. injection H as <-. cbn [ptape]. eapply parse_param_ext; eauto.
Qed.

Lemma scalar_arm_ext (site : N) c d m p t st' s' :
  match scalar_step d c with
  | Ok (tok, d') => Next (mkps d' st' m p (tpush t tok))
  | Err e => Fail e
  | _ => Crash site
  end = Next s' -> ext t (ptape s').
Proof.
  destruct (scalar_step d c) as [[tok d']| | | |]; try discriminate.
  intros H. injection H as <-. apply ext_push.
Qed.

Lemma flag_ext t1 p (m : bool) :
  is_open t1 p = true \/ (forall x, tget t1 p = Some x -> cont_end x = None) ->
  ext t1 (if m then
            match tget t1 p with
            | Some (TArray e _) => match tset t1 p (TArray e true) with Some x => x | None => t1 end
            | Some (TObject e _) => match tset t1 p (TObject e true) with Some x => x | None => t1 end
            | _ => t1
            end
          else t1).
Proof.
  intros Ho. destruct m; [|apply ext_refl].
  destruct (tget t1 p) as [x|] eqn:Eg; [|apply ext_refl].
  destruct x; try apply ext_refl.
  - destruct (tset t1 p (TArray e true)) eqn:Et; [|apply ext_refl].
    eapply ext_tset; [exact Et|]. destruct Ho as [Ho|Ho]; [right; exact Ho|]. specialize (Ho _ eq_refl). discriminate.
  - destruct (tset t1 p (TObject e true)) eqn:Et; [|apply ext_refl].
    eapply ext_tset; [exact Et|]. destruct Ho as [Ho|Ho]; [right; exact Ho|]. specialize (Ho _ eq_refl). discriminate.
Qed.

Ltac ext_fin :=
  let H := fresh "H" in intros H;
  first [ discriminate H
        | injection H as <-; cbn [ptape];
          first [ apply ext_refl | apply ext_push | assumption ] ].

Theorem step_ext s s' : Inv s -> step s = Next s' -> ext (ptape s) (ptape s').
Proof.
  destruct s as [d st m p t]. unfold Inv. cbn [pst_ pparent ptape]. intros HI.
  unfold step. cbv zeta. cbn [pdata pst_ pmixed pparent ptape].
  destruct (skip_ws_t d) as [d0|].
  2:{ destruct st; try discriminate. destruct (Nat.eqb p 0); [discriminate|].
      destruct (Nat.eqb (slot t p) 0); [|discriminate]. destruct (tset _ _ _); discriminate. }
  destruct d0 as [|c d1]; [discriminate|].
  destruct st; cbn [inv] in HI.
  - (* Key *)
    destruct (beq c 125 || beq c 93).
    { destruct (restore t (slot t p)) as [st' m'].
      destruct (Nat.eqb p 0 && Nat.eqb (slot t p) 0) eqn:Ez; [ext_fin|].
      destruct (tset (tpush t (TEnd p)) p (TObject (length t) m)) as [t'|] eqn:Et; [|discriminate].
      intros H. injection H as <-. cbn [ptape].
      eapply ext_trans; [apply ext_push|]. eapply ext_tset; [exact Et|]. right.
      apply chainrep_open_app; [exact HI|]. eapply chainrep_pnz; [exact HI|]. apply andb_eqb_false. exact Ez. }
    destruct (beq c 123).
    { destruct (skip_ws_t d1) as [d2|]; [|discriminate]. rewrite match_b125.
      assert (G : forall X, match tlast t with
                   | Some (TUnquoted h) => match tset t (length t - 1) (THeader h) with
                                           | Some t' => Next (mkps d2 SOpen m p (tpush t' (TArray 0 false)))
                                           | None => Crash 3023 end
                   | _ => Fail E_TextErr end = Next X -> ext t (ptape X)).
      { intros X. destruct (tlast t) as [[]|]; try discriminate.
        destruct (tset t (length t - 1) (THeader s)) as [t'|] eqn:Et; [|discriminate].
        intros H. injection H as <-. cbn [ptape]. eapply ext_trans; [|apply ext_push].
        eapply ext_tset; [exact Et|left; lia]. }
      destruct d2 as [|c2 d3]; [apply G|]. destruct (N.eqb c2 125); [ext_fin|apply G]. }
    destruct (beq c 91); [apply keep_mixed_ext|]. apply scalar_arm_ext.
  - (* Kvs *)
    destruct (op2 (c :: d1)) as [[[] n]|]; try ext_fin; try (destruct m; ext_fin).
    destruct (_ && _); [ext_fin|]. destruct (beq c 123); [ext_fin|].
    destruct (tinsert_before_last t TMixedContainer) as [t'|] eqn:Ei; [|discriminate].
    intros H. injection H as <-. cbn [ptape]. eapply ext_insert; eauto.
  - (* ObjVal *)
    destruct (beq c 123); [ext_fin|]. destruct (beq c 125); [discriminate|]. apply scalar_arm_ext.
  - (* ArrVal *)
    destruct HI as [HC HN].
    destruct (beq c 123); [ext_fin|].
    destruct (beq c 125).
    { assert (G : forall grand (is_array : bool) st' m' X,
                ~ (p = 0 /\ slot t p = 0) ->
                match tset t p (if is_array then TArray (length t) m else TObject (length t) m) with
                | Some t' => Next (mkps d1 st' m' grand (tpush t' (TEnd p)))
                | None => Crash 3036 end = Next X -> ext t (ptape X)).
      { intros grand is_array st' m' X Hn.
        destruct (tset t p _) as [t'|] eqn:Et; [|discriminate]. intros H. injection H as <-. cbn [ptape].
        eapply ext_trans; [|apply ext_push]. eapply ext_tset; [exact Et|]. right.
        apply chainrep_parent_open; [exact HC|]. eapply chainrep_pnz; eauto. }
      unfold slot in G.
      destruct (tget t p) as [x|]; [destruct x|]; cbv iota beta;
        (match goal with |- context [restore t ?g] => destruct (restore t g) as [st' m'] end;
         match goal with |- context [Nat.eqb p 0 && ?b] => destruct (Nat.eqb p 0 && b) eqn:Ez end; [discriminate|];
         first [apply (G _ true)|apply (G _ false)]; apply andb_eqb_false; exact Ez). }
    destruct (beq c 34 || beq c 64); [apply scalar_arm_ext|].
    destruct (_ || _); [|apply scalar_arm_ext].
    assert (G : forall t' (m' : bool) X, ext t t' ->
              match op2 (c :: d1) with
              | Some (o, n) => Next (mkps (skipn n (c :: d1)) SArrVal m' p (tpush t' (TOperator o)))
              | None => Fail E_TextErr end = Next X -> ext t (ptape X)).
    { intros t' m' X Hx. destruct (op2 _) as [[o n]|]; [|discriminate]. intros H. injection H as <-. cbn [ptape].
      eapply ext_trans; [exact Hx|apply ext_push]. }
    destruct m; [apply G; apply ext_refl|].
    destruct (tlast t) as [x|]; [|discriminate]. destruct (is_scalar_tok x); [|discriminate].
    destruct (tinsert_before_last t TMixedContainer) as [t'|] eqn:Ei; [|discriminate].
    apply G. eapply ext_insert; eauto.
  - (* Open *)
    destruct HI as (t0 & -> & HN & HC).
    assert (Hlen : length (t0 ++ [TArray 0 false]) = S (length t0)) by (rewrite app_length; cbn [length]; lia).
    destruct (beq c 125).
    { rewrite Hlen. destruct (restore _ p) as [st' m'].
      destruct (tset _ (length t0) _) as [t'|] eqn:Et; [|discriminate].
      intros H. injection H as <-. cbn [ptape]. eapply ext_trans; [|apply ext_push].
      eapply ext_tset; [exact Et|left; lia]. }
    destruct (beq c 91); [destruct m; [discriminate|apply keep_mixed_ext]|].
    destruct (beq c 123).
    { destruct (skip_ws_t d1) as [d2|]; [|discriminate]. rewrite match_b125, Hlen.
      assert (G : forall X, match tset (t0 ++ [TArray 0 false]) (length t0) (TArray p false) with
                   | Some t' => Next (mkps (c :: d1) SArrVal false (length t0) t')
                   | None => Crash 3030 end = Next X -> ext (t0 ++ [TArray 0 false]) (ptape X)).
      { intros X. destruct (tset _ _ _) as [t'|] eqn:Et; [|discriminate]. intros H. injection H as <-. cbn [ptape].
        eapply ext_tset; [exact Et|left; lia]. }
      destruct d2 as [|c2 d3]; [apply G|]. destruct (N.eqb c2 125); [ext_fin|apply G]. }
    destruct (scalar_step (c :: d1) c) as [[tok d']| | | |]; try discriminate.
    set (t1 := tpush (t0 ++ [TArray 0 false]) tok).
    assert (Hf : is_open t1 p = true \/ (forall x, tget t1 p = Some x -> cont_end x = None)).
    { destruct (Nat.eq_dec p 0) as [->|Hp].
      - right. intros x Hx. unfold t1, tpush, tget in Hx. rewrite <- app_assoc in Hx.
        destruct t0 as [|y t0']; [congruence|]. cbn [app nth_error] in Hx. injection Hx as <-.
        eapply chainrep_head; [exact HC|reflexivity].
      - left. unfold t1, tpush. rewrite <- app_assoc. apply chainrep_open_app; assumption. }
    pose proof (flag_ext t1 p m Hf) as Hx2.
    match goal with |- context [Nat.ltb (length ?T) 2] => set (t2 := T) in * end.
    assert (L2 : length t2 = S (S (length t0))).
    { destruct Hx2 as [L _]. unfold t1, tpush in L. rewrite !app_length in L. cbn [length] in L.
      assert (length t2 <= length t1).
      { unfold t2. destruct m; [|lia]. destruct (tget t1 p) as [[]|]; try lia.
        - destruct (tset t1 p (TArray e true)) eqn:Et; [apply tset_spec in Et; lia|lia].
        - destruct (tset t1 p (TObject e true)) eqn:Et; [apply tset_spec in Et; lia|lia]. }
      unfold t1, tpush in H. rewrite !app_length in H. cbn [length] in H. lia. }
    assert (Hx1 : ext (t0 ++ [TArray 0 false]) t2).
    { eapply ext_trans; [apply ext_push|exact Hx2]. }
    destruct (skip_ws_t d') as [[|c2 d3]|]; try discriminate.
    destruct (Nat.ltb (length t2) 2); [discriminate|].
    assert (G : forall X, tset t2 (length t2 - 2) X = None \/ exists t3, tset t2 (length t2 - 2) X = Some t3 /\ ext (t0 ++ [TArray 0 false]) t3).
    { intros X. destruct (tset t2 (length t2 - 2) X) as [t3|] eqn:Et; [|left; reflexivity]. right. exists t3. split; [reflexivity|].
      destruct (tset_spec _ _ _ _ Et) as [L3 N3]. destruct Hx1 as [L1 N1]. split; [lia|].
      intros i Hi Ho. rewrite Hlen in Hi. rewrite N3 by lia. apply N1; [rewrite Hlen; lia|exact Ho]. }
    destruct (beq c2 61 || beq c2 62 || beq c2 60).
    + destruct (G (TObject p false)) as [-> | (t3 & -> & Hx3)]; [discriminate|]. ext_fin.
    + destruct (G (TArray p false)) as [-> | (t3 & -> & Hx3)]; [discriminate|]. ext_fin.
Qed.

Lemma done_ext s F : Inv s -> step s = Done F -> ext (ptape s) F.
Proof.
  intros HI H. pose proof (step_done_eof _ _ H) as E0.
  destruct s as [d st m p t]. unfold Inv in HI. cbn [pdata pst_ pparent ptape] in *.
  unfold step in H. cbv zeta in H. cbn [pdata pst_ pmixed pparent ptape] in H. rewrite E0 in H.
  destruct st; try discriminate. cbn [inv] in HI.
  destruct (Nat.eqb p 0) eqn:Ep; [injection H as <-; apply ext_refl|].
  destruct (Nat.eqb (slot t p) 0); [|discriminate].
  destruct (tset (tpush t (TEnd p)) p (TObject (length t) false)) as [t'|] eqn:Et; [|discriminate].
  injection H as <-. eapply ext_trans; [apply ext_push|]. eapply ext_tset; [exact Et|]. right.
  apply chainrep_open_app; [exact HI|]. apply Nat.eqb_neq. exact Ep.
Qed.

(* ------------------------------------------------------------------ runs of the complete parse *)
Inductive runs : pstate -> pstate -> Prop :=
| runs_refl s : runs s s
| runs_step s s1 s2 : step s = Next s1 -> runs s1 s2 -> runs s s2.

Lemma Inv_step s s1 : Inv s -> step s = Next s1 -> Inv s1.
Proof. intros HI H. pose proof (step_post s HI) as P. rewrite H in P. exact (proj1 P). Qed.

Lemma runs_ext s sf F : runs s sf -> step sf = Done F -> Inv s -> ext (ptape s) F.
Proof.
  induction 1 as [s|s s1 s2 H1 _ IH]; intros HD HI.
  - apply done_ext; assumption.
  - eapply ext_trans; [apply step_ext; eassumption|]. apply IH; [exact HD|]. eapply Inv_step; eauto.
Qed.

Lemma ploop_ok_runs : forall fuel s F, ploop fuel s = Ok F -> exists sf, runs s sf /\ step sf = Done F.
Proof.
  induction fuel as [|f IH]; intros s F H; [discriminate|]. cbn [ploop] in H.
  destruct (step s) as [s1|t|e|x] eqn:E; try discriminate.
  - destruct (IH _ _ H) as (sf & R & D). exists sf. split; [eapply runs_step; eauto|exact D].
  - injection H as <-. exists s. split; [apply runs_refl|exact E].
Qed.

(* ------------------------------------------------------------------ closed tapes have no open container *)
Lemma closed_not_open off l k x e : closed off l -> nth_error l k = Some x -> cont_end x = Some e -> off + k < e.
Proof. intros C Hk He. destruct (closed_fwd _ _ C _ _ _ Hk He) as [A _]. exact A. Qed.

Lemma closed_last_plain off l x : closed off (l ++ [x]) -> cont_end x = None.
Proof.
  intros C. destruct (cont_end x) as [e|] eqn:E; [|reflexivity]. exfalso.
  destruct (closed_fwd _ _ C (length l) x e) as (A & B & _); [apply nth_error_snoc_len|exact E|].
  rewrite app_length in B. cbn [length] in B. lia.
Qed.

Lemma is_open_closed0 t i : closed 0 t -> is_open t i = false.
Proof.
  intros C. unfold is_open. destruct (nth_error t i) as [x|] eqn:E; [|reflexivity].
  destruct (cont_end x) as [e|] eqn:Ec; [|reflexivity].
  apply Nat.leb_gt. pose proof (closed_not_open _ _ _ _ _ C E Ec). lia.
Qed.

(* in t0 ++ c :: V with t0 closed and V closed, the only open container is c *)
Lemma is_open_chain1 t0 c V i : closed 0 t0 -> closed (S (length t0)) V -> i <> length t0 ->
  is_open (t0 ++ c :: V) i = false.
Proof.
  intros C0 CV Hi. unfold is_open. rewrite nth_error_mid.
  destruct (Nat.ltb_spec i (length t0)) as [Hlt|Hge].
  - apply (is_open_closed0 t0 i C0).
  - destruct (Nat.eqb_spec i (length t0)) as [->|_]; [congruence|].
    destruct (nth_error V (i - S (length t0))) as [x|] eqn:E; [|reflexivity].
    destruct (cont_end x) as [e|] eqn:Ec; [|reflexivity].
    apply Nat.leb_gt. pose proof (closed_not_open _ _ _ _ _ CV E Ec). lia.
Qed.

Lemma firstn_eq_nth {A} (F t0 : list A) :
  length t0 <= length F -> (forall i, i < length t0 -> nth_error F i = nth_error t0 i) -> firstn (length t0) F = t0.
Proof.
  revert F. induction t0 as [|a t0 IH]; intros F HL H; [reflexivity|].
  destruct F as [|b F]; [cbn in HL; lia|]. cbn [length firstn].
  pose proof (H 0 ltac:(cbn; lia)) as H0. cbn in H0. injection H0 as ->.
  f_equal. apply IH; [cbn in HL; lia|]. intros i Hi. apply (H (S i)). cbn. lia.
Qed.

(* ------------------------------------------------------------------ the last token in state Key *)
Definition hdr_rel (x y : ttok) : Prop := x = y \/ exists h, x = TUnquoted h /\ y = THeader h.

Lemma parse_param_app d p st t s1 :
  parse_param d p st t false = Next s1 -> exists X, X <> [] /\ ptape s1 = t ++ X.
Proof.
  unfold parse_param. intros H. crush_H H; injection H as <-; cbn [ptape]; unfold tpush; rewrite <- ?app_assoc;
    eexists; (split; [|reflexivity]); discriminate.
Qed.

Lemma nth_error_snoc_mid {A} (a : list A) y b : nth_error (a ++ y :: b) (length a) = Some y.
Proof. rewrite nth_error_mid, Nat.ltb_irrefl, Nat.eqb_refl. reflexivity. Qed.

Lemma nth_error_app_l {A} (t X : list A) i : i < length t -> nth_error (t ++ X) i = nth_error t i.
Proof. apply nth_error_app1. Qed.

Lemma restore_plain0 t : (forall z, nth_error t 0 = Some z -> cont_end z = None) -> restore t 0 = (SKey, false).
Proof.
  intros H. unfold restore, tget. destruct (nth_error t 0) as [z|]; [|reflexivity].
  specialize (H z eq_refl). destruct z; try reflexivity; discriminate.
Qed.

Lemma key_step_last s s1 t1 x :
  Inv s -> pst_ s = SKey -> step s = Next s1 -> ptape s = t1 ++ [x] -> cont_end x = None ->
  (pst_ s1 = SKey /\ ptape s1 = ptape s) \/
  (length (ptape s) < length (ptape s1) /\
   exists y, nth_error (ptape s1) (length t1) = Some y /\ cont_end y = None /\ hdr_rel x y).
Proof.
  destruct s as [d st m p t]. unfold Inv. cbn [pst_ pparent ptape]. intros HI -> H -> Hx. cbn [inv] in HI.
  assert (HL : length (t1 ++ [x]) = S (length t1)) by (rewrite app_length; cbn [length]; lia).
  assert (Hnx : nth_error (t1 ++ [x]) (length t1) = Some x) by apply nth_error_snoc_len.
  assert (Right0 : forall X d' st' m' p', X <> [] ->
            (length (t1 ++ [x]) < length (ptape (mkps d' st' m' p' ((t1 ++ [x]) ++ X))) /\
             exists y, nth_error (ptape (mkps d' st' m' p' ((t1 ++ [x]) ++ X))) (length t1) = Some y /\ cont_end y = None /\ hdr_rel x y)).
  { intros X d' st' m' p' HX. cbn [ptape]. split.
    - rewrite (app_length (t1 ++ [x])). destruct X; [congruence|cbn [length]; lia].
    - exists x. split; [rewrite nth_error_app_l by (rewrite HL; lia); exact Hnx|]. split; [exact Hx|left; reflexivity]. }
  unfold step in H. cbv zeta in H. cbn [pdata pst_ pmixed pparent ptape] in H.
  destruct (skip_ws_t d) as [d0|]; [|destruct (Nat.eqb p 0); [discriminate|destruct (Nat.eqb _ 0); [destruct (tset _ _ _)|]; discriminate]].
  destruct d0 as [|c d1]; [discriminate|].
  destruct (beq c 125 || beq c 93).
  { destruct (Nat.eqb p 0 && Nat.eqb (slot (t1 ++ [x]) p) 0) eqn:Ez.
    - apply andb_prop in Ez. destruct Ez as [Ep Eg]. apply Nat.eqb_eq in Ep, Eg. rewrite Eg in H.
      rewrite restore_plain0 in H by (intros z Hz; eapply chainrep_head; eauto).
      injection H as <-. left. split; reflexivity.
    - destruct (restore _ _) as [st' m'].
      destruct (tset (tpush (t1 ++ [x]) (TEnd p)) p (TObject (length (t1 ++ [x])) m)) as [t'|] eqn:Et; [|discriminate].
      injection H as <-. right. cbn [ptape]. destruct (tset_spec _ _ _ _ Et) as [L N].
      unfold tpush in *. rewrite app_length in L. cbn [length] in L. split; [lia|].
      exists x. split; [|split; [exact Hx|left; reflexivity]].
      rewrite N; [rewrite nth_error_app_l by (rewrite HL; lia); exact Hnx|].
      intros E. subst p. assert (Hp : length t1 <> 0).
      { eapply chainrep_pnz; [exact HI|]. apply andb_eqb_false. exact Ez. }
      pose proof (chainrep_parent_open _ _ HI Hp) as Ho. unfold is_open in Ho. rewrite Hnx, Hx in Ho. discriminate. }
  destruct (beq c 123).
  { destruct (skip_ws_t d1) as [d2|]; [|discriminate]. rewrite match_b125 in H.
    assert (G : match tlast (t1 ++ [x]) with
                | Some (TUnquoted h) => match tset (t1 ++ [x]) (length (t1 ++ [x]) - 1) (THeader h) with
                                        | Some t' => Next (mkps d2 SOpen m p (tpush t' (TArray 0 false)))
                                        | None => Crash 3023 end
                | _ => Fail E_TextErr end = Next s1 ->
                (length (t1 ++ [x]) < length (ptape s1) /\
                 exists y, nth_error (ptape s1) (length t1) = Some y /\ cont_end y = None /\ hdr_rel x y)).
    { rewrite tlast_snoc. destruct x; try discriminate.
      rewrite HL. cbn [Nat.sub]. rewrite Nat.sub_0_r, tset_last. intros H'. injection H' as <-. cbn [ptape]. unfold tpush.
      split; [rewrite !app_length; cbn [length]; lia|].
      exists (THeader s). split; [rewrite <- app_assoc; apply nth_error_snoc_mid|]. split; [reflexivity|right; eauto]. }
    destruct d2 as [|c2 d3]; [right; apply G; exact H|].
    destruct (N.eqb c2 125); [injection H as <-; left; split; reflexivity|right; apply G; exact H]. }
  destruct (beq c 91).
  { destruct (parse_param (c :: d1) p SKey (t1 ++ [x]) false) as [s2| | |] eqn:Ep; cbn [keep_mixed] in H; try discriminate.
    injection H as <-. destruct (parse_param_app _ _ _ _ _ Ep) as (X & HX & EX). right.
    destruct s2 as [d2 st2 m2 p2 tp2]. cbn [ptape pdata pst_ pparent] in *. subst tp2. apply (Right0 X d2 st2 m p2 HX). }
  destruct (scalar_step (c :: d1) c) as [[tok d']| | | |]; try discriminate.
  injection H as <-. right. apply (Right0 [tok] d' SKvs m p). discriminate.
Qed.

Lemma key_last s sf F : runs s sf -> step sf = Done F -> Inv s -> pst_ s = SKey ->
  forall t1 x, ptape s = t1 ++ [x] -> cont_end x = None ->
  exists y, nth_error F (length t1) = Some y /\ hdr_rel x y.
Proof.
  induction 1 as [s|s s1 s2 H1 R IH]; intros HD HI HK t1 x Et Hx.
  - pose proof (step_done_eof _ _ HD) as E0.
    destruct s as [d st m p t]. unfold Inv in HI. cbn [pdata pst_ pparent ptape] in *. subst st t. cbn [inv] in HI.
    unfold step in HD. cbv zeta in HD. cbn [pdata pst_ pmixed pparent ptape] in HD. rewrite E0 in HD.
    assert (Hnx : nth_error (t1 ++ [x]) (length t1) = Some x) by apply nth_error_snoc_len.
    destruct (Nat.eqb p 0) eqn:Ep; [injection HD as <-; exists x; split; [exact Hnx|left; reflexivity]|].
    destruct (Nat.eqb (slot _ p) 0); [|discriminate].
    destruct (tset _ p _) as [t'|] eqn:Es; [|discriminate]. injection HD as <-.
    destruct (tset_spec _ _ _ _ Es) as [L N]. exists x. split; [|left; reflexivity].
    rewrite N; [unfold tpush; rewrite nth_error_app_l by (rewrite app_length; cbn [length]; lia); exact Hnx|].
    intros E. subst p. apply Nat.eqb_neq in Ep.
    pose proof (chainrep_parent_open _ _ HI Ep) as Ho. unfold is_open in Ho. rewrite Hnx, Hx in Ho. discriminate.
  - destruct (key_step_last s s1 t1 x HI HK H1 Et Hx) as [[HK1 Et1] | (HL & y & Hy & Hcy & Hr)].
    + apply (IH HD (Inv_step _ _ HI H1) HK1 t1 x); [congruence|exact Hx].
    + pose proof (runs_ext _ _ _ R HD (Inv_step _ _ HI H1)) as [_ HE].
      exists y. split; [|exact Hr]. rewrite HE; [exact Hy| |].
      * rewrite Et, app_length in HL. cbn [length] in HL. lia.
      * unfold is_open. rewrite Hy, Hcy. reflexivity.
Qed.

(* ------------------------------------------------------------------ consistency: small facts *)
Lemma tok_cut_refl x : tok_cut x x.
Proof. left. reflexivity. Qed.

Lemma tok_cut_hdr x' x y : tok_cut x' x -> hdr_rel x y -> tok_cut x' y.
Proof.
  intros [->|(s & s' & -> & Hy & Hp & Hn)] Hr.
  - destruct Hr as [->|(h & -> & ->)]; [left; reflexivity|].
    right. exists h, h. split; [reflexivity|]. split; [right; reflexivity|]. split; [exists []; rewrite app_nil_r; reflexivity|].
    destruct h; [right; reflexivity|left; discriminate].
  - right. exists s, s'. split; [reflexivity|].
    destruct Hr as [<-|(h & E1 & ->)].
    + split; [exact Hy|auto].
    + destruct Hy as [E|E]; [|subst x; discriminate]. subst x. injection E1 as <-. split; [right; reflexivity|auto].
Qed.

Lemma nth_skipn {A} (l : list A) : forall n i, nth_error (skipn n l) i = nth_error l (n + i).
Proof.
  induction l as [|a l IH]; intros n i.
  - rewrite skipn_nil. destruct i, n; reflexivity.
  - destruct n as [|n]; [reflexivity|]. cbn [skipn Nat.add nth_error]. apply IH.
Qed.

Lemma prefix_cut_refl F : prefix_cut F F.
Proof.
  destruct (list_last_cases _ F) as [->|(t0 & x & ->)]; [left; reflexivity|].
  right. exists t0, x, x. split; [reflexivity|]. split.
  - rewrite firstn_app, Nat.sub_diag, firstn_all. cbn [firstn]. apply app_nil_r.
  - split; [apply nth_error_snoc_len|apply tok_cut_refl].
Qed.

Lemma tok_cut_cont x' x e : tok_cut x' x -> cont_end x = Some e -> x' = x.
Proof.
  intros [->|(s & s' & -> & [->| ->] & _)] H; [reflexivity|discriminate|discriminate].
Qed.

(* ------------------------------------------------------------------ containers stay containers *)
(* a container token is only ever rewritten into a container token, at the same index *)
Definition cext (t t' : ttape) : Prop :=
  forall i x, nth_error t i = Some x -> cont_end x <> None ->
  exists y, nth_error t' i = Some y /\ cont_end y <> None.

Lemma cext_refl t : cext t t.
Proof. intros i x Hx Hc. eauto. Qed.

Lemma cext_trans a b c : cext a b -> cext b c -> cext a c.
Proof. intros H1 H2 i x Hx Hc. destruct (H1 i x Hx Hc) as (y & Hy & Hcy). exact (H2 i y Hy Hcy). Qed.

Lemma cext_push t x : cext t (tpush t x).
Proof.
  intros i z Hz Hc. exists z. split; [|exact Hc]. unfold tpush. rewrite nth_error_app_l; [exact Hz|].
  apply nth_error_Some. congruence.
Qed.

Lemma cext_tset_cont t q x t' : tset t q x = Some t' -> cont_end x <> None -> cext t t'.
Proof.
  intros H Hx i z Hz Hc. destruct (tset_spec _ _ _ _ H) as [L N].
  destruct (Nat.eq_dec i q) as [->|Hne]; [|exists z; rewrite N by exact Hne; auto].
  exists x. split; [|exact Hx].
  assert (Hq : q < length t) by (apply nth_error_Some; congruence).
  clear -H Hq. revert q t' H Hq. induction t as [|a t IH]; intros q t' H Hq; [cbn in Hq; lia|].
  destruct q as [|q]; cbn [tset] in H.
  - injection H as <-. reflexivity.
  - destruct (tset t q x) as [r'|] eqn:E; [|discriminate]. injection H as <-. cbn [nth_error length] in *. apply (IH q r' E). lia.
Qed.

Lemma cext_tset_plain t q x t' : tset t q x = Some t' ->
  (forall z, nth_error t q = Some z -> cont_end z = None) -> cext t t'.
Proof.
  intros H Hq i z Hz Hc. destruct (tset_spec _ _ _ _ H) as [L N].
  destruct (Nat.eq_dec i q) as [->|Hne]; [|exists z; rewrite N by exact Hne; auto].
  rewrite (Hq z Hz) in Hc. congruence.
Qed.

Lemma cext_insert t x t' : tinsert_before_last t x = Some t' ->
  (forall z, tlast t = Some z -> cont_end z = None) -> cext t t'.
Proof.
  unfold tinsert_before_last, tlast. destruct (length t) as [|n] eqn:L; [discriminate|]. intros H Hl. injection H as <-.
  cbn [Nat.sub] in Hl. rewrite Nat.sub_0_r in Hl.
  intros i z Hz Hc. assert (Hi : i < S n) by (rewrite <- L; apply nth_error_Some; congruence).
  destruct (Nat.eq_dec i n) as [->|Hne]; [rewrite (Hl z Hz) in Hc; congruence|].
  exists z. split; [|exact Hc]. rewrite nth_error_app_l by (rewrite firstn_length; lia).
  rewrite nth_error_firstn_lt by lia. exact Hz.
Qed.

Lemma parse_param_cext d p st t (initial : bool) s' :
  parse_param d p st t initial = Next s' -> cext t (ptape s').
Proof.
  unfold parse_param. intros H. rewrite match_o91 in H.
  destruct (nth_error d 1) as [c1|]; [|discriminate].
  destruct (N.eqb c1 91); [|discriminate].
  assert (exists t2 p2, (if initial
        then match length t with
             | 0 => None
             | S ind => match tset t ind (TObject p false) with Some t' => Some (t', ind) | None => None end
             end
        else Some (t, p)) = Some (t2, p2) /\ cext t t2) as (t2 & p2 & E & Hx).
  { destruct initial.
    - destruct (length t) as [|ind] eqn:L; [discriminate|].
      destruct (tset t ind (TObject p false)) as [t'|] eqn:Et; [|discriminate].
      exists t', ind. split; [reflexivity|]. eapply cext_tset_cont; [exact Et|discriminate].
    - exists t, p. split; [reflexivity|apply cext_refl]. }
  rewrite E in H. clear E.
  crush_H H; injection H as <-; cbn [ptape];
    repeat (eapply cext_trans; [|apply cext_push]); exact Hx.
Qed.

Lemma keep_mixed_cext m d p st t (initial : bool) s' :
  keep_mixed m (parse_param d p st t initial) = Next s' -> cext t (ptape s').
Proof.
  destruct (parse_param d p st t initial) as [s1| | |] eqn:E; cbn [keep_mixed]; try discriminate.
  intros H. injection H as <-. cbn [ptape]. eapply parse_param_cext; eauto.
Qed.

Lemma scalar_arm_cext (site : N) c d m p t st' s' :
  match scalar_step d c with
  | Ok (tok, d') => Next (mkps d' st' m p (tpush t tok))
  | Err e => Fail e
  | _ => Crash site
  end = Next s' -> cext t (ptape s').
Proof.
  destruct (scalar_step d c) as [[tok d']| | | |]; try discriminate.
  intros H. injection H as <-. apply cext_push.
Qed.

Lemma flag_cext t1 p (m : bool) :
  cext t1 (if m then
            match tget t1 p with
            | Some (TArray e _) => match tset t1 p (TArray e true) with Some x => x | None => t1 end
            | Some (TObject e _) => match tset t1 p (TObject e true) with Some x => x | None => t1 end
            | _ => t1
            end
          else t1).
Proof.
  destruct m; [|apply cext_refl].
  destruct (tget t1 p) as [x|] eqn:Eg; [|apply cext_refl].
  destruct x; try apply cext_refl.
  - destruct (tset t1 p (TArray e true)) eqn:Et; [|apply cext_refl]. eapply cext_tset_cont; [exact Et|discriminate].
  - destruct (tset t1 p (TObject e true)) eqn:Et; [|apply cext_refl]. eapply cext_tset_cont; [exact Et|discriminate].
Qed.

Ltac cext_fin :=
  let H := fresh "H" in intros H;
  first [ discriminate H
        | injection H as <-; cbn [ptape];
          first [ apply cext_refl | apply cext_push | assumption ] ].

Theorem step_cext s s' : Inv s -> step s = Next s' -> cext (ptape s) (ptape s').
Proof.
  destruct s as [d st m p t]. unfold Inv. cbn [pst_ pparent ptape]. intros HI.
  unfold step. cbv zeta. cbn [pdata pst_ pmixed pparent ptape].
  destruct (skip_ws_t d) as [d0|].
  2:{ destruct st; try discriminate. destruct (Nat.eqb p 0); [discriminate|].
      destruct (Nat.eqb (slot t p) 0); [|discriminate]. destruct (tset _ _ _); discriminate. }
  destruct d0 as [|c d1]; [discriminate|].
  destruct st; cbn [inv] in HI.
  - (* Key *)
    destruct (beq c 125 || beq c 93).
    { destruct (restore t (slot t p)) as [st' m'].
      destruct (Nat.eqb p 0 && Nat.eqb (slot t p) 0) eqn:Ez; [cext_fin|].
      destruct (tset (tpush t (TEnd p)) p (TObject (length t) m)) as [t'|] eqn:Et; [|discriminate].
      intros H. injection H as <-. cbn [ptape].
      eapply cext_trans; [apply cext_push|]. eapply cext_tset_cont; [exact Et|discriminate]. }
    destruct (beq c 123).
    { destruct (skip_ws_t d1) as [d2|]; [|discriminate]. rewrite match_b125.
      assert (G : forall X, match tlast t with
                   | Some (TUnquoted h) => match tset t (length t - 1) (THeader h) with
                                           | Some t' => Next (mkps d2 SOpen m p (tpush t' (TArray 0 false)))
                                           | None => Crash 3023 end
                   | _ => Fail E_TextErr end = Next X -> cext t (ptape X)).
      { intros X. destruct (tlast t) as [[]|] eqn:El; try discriminate.
        destruct (tset t (length t - 1) (THeader s)) as [t'|] eqn:Et; [|discriminate].
        intros H. injection H as <-. cbn [ptape]. eapply cext_trans; [|apply cext_push].
        eapply cext_tset_plain; [exact Et|]. unfold tlast in El. intros z Hz. rewrite El in Hz. injection Hz as <-. reflexivity. }
      destruct d2 as [|c2 d3]; [apply G|]. destruct (N.eqb c2 125); [cext_fin|apply G]. }
    destruct (beq c 91); [apply keep_mixed_cext|]. apply scalar_arm_cext.
  - (* Kvs *)
    destruct HI as (HC & t0 & x0 & -> & Hx0).
    destruct (op2 (c :: d1)) as [[[] n]|]; try cext_fin; try (destruct m; cext_fin).
    destruct (_ && _); [cext_fin|]. destruct (beq c 123); [cext_fin|].
    destruct (tinsert_before_last (t0 ++ [x0]) TMixedContainer) as [t'|] eqn:Ei; [|discriminate].
    intros H. injection H as <-. cbn [ptape]. eapply cext_insert; [exact Ei|].
    intros z Hz. rewrite tlast_snoc in Hz. injection Hz as <-. apply plain_not_cont. exact Hx0.
  - (* ObjVal *)
    destruct (beq c 123); [cext_fin|]. destruct (beq c 125); [discriminate|]. apply scalar_arm_cext.
  - (* ArrVal *)
    destruct HI as [HC HN].
    destruct (beq c 123); [cext_fin|].
    destruct (beq c 125).
    { assert (G : forall grand (is_array : bool) st' m' X,
                match tset t p (if is_array then TArray (length t) m else TObject (length t) m) with
                | Some t' => Next (mkps d1 st' m' grand (tpush t' (TEnd p)))
                | None => Crash 3036 end = Next X -> cext t (ptape X)).
      { intros grand is_array st' m' X.
        destruct (tset t p _) as [t'|] eqn:Et; [|discriminate]. intros H. injection H as <-. cbn [ptape].
        eapply cext_trans; [|apply cext_push]. eapply cext_tset_cont; [exact Et|]. destruct is_array; discriminate. }
      destruct (tget t p) as [x|]; [destruct x|]; cbv iota beta;
        (match goal with |- context [restore t ?g] => destruct (restore t g) as [st' m'] end;
         match goal with |- context [Nat.eqb p 0 && ?b] => destruct (Nat.eqb p 0 && b) eqn:Ez end; [discriminate|];
         first [apply (G _ true)|apply (G _ false)]). }
    destruct (beq c 34 || beq c 64); [apply scalar_arm_cext|].
    destruct (_ || _); [|apply scalar_arm_cext].
    assert (G : forall t' (m' : bool) X, cext t t' ->
              match op2 (c :: d1) with
              | Some (o, n) => Next (mkps (skipn n (c :: d1)) SArrVal m' p (tpush t' (TOperator o)))
              | None => Fail E_TextErr end = Next X -> cext t (ptape X)).
    { intros t' m' X Hx. destruct (op2 _) as [[o n]|]; [|discriminate]. intros H. injection H as <-. cbn [ptape].
      eapply cext_trans; [exact Hx|apply cext_push]. }
    destruct m; [apply G; apply cext_refl|].
    destruct (tlast t) as [x|] eqn:El; [|discriminate]. destruct (is_scalar_tok x) eqn:Ex; [|discriminate].
    destruct (tinsert_before_last t TMixedContainer) as [t'|] eqn:Ei; [|discriminate].
    apply G. eapply cext_insert; [exact Ei|]. intros z Hz. rewrite El in Hz. injection Hz as <-.
    apply plain_not_cont. apply scalar_tok_plain. exact Ex.
  - (* Open *)
    destruct HI as (t0 & -> & HN & HC).
    assert (Hlen : length (t0 ++ [TArray 0 false]) = S (length t0)) by (rewrite app_length; cbn [length]; lia).
    destruct (beq c 125).
    { rewrite Hlen. destruct (restore _ p) as [st' m'].
      destruct (tset _ (length t0) _) as [t'|] eqn:Et; [|discriminate].
      intros H. injection H as <-. cbn [ptape]. eapply cext_trans; [|apply cext_push].
      eapply cext_tset_cont; [exact Et|discriminate]. }
    destruct (beq c 91); [destruct m; [discriminate|apply keep_mixed_cext]|].
    destruct (beq c 123).
    { destruct (skip_ws_t d1) as [d2|]; [|discriminate]. rewrite match_b125, Hlen.
      assert (G : forall X, match tset (t0 ++ [TArray 0 false]) (length t0) (TArray p false) with
                   | Some t' => Next (mkps (c :: d1) SArrVal false (length t0) t')
                   | None => Crash 3030 end = Next X -> cext (t0 ++ [TArray 0 false]) (ptape X)).
      { intros X. destruct (tset _ _ _) as [t'|] eqn:Et; [|discriminate]. intros H. injection H as <-. cbn [ptape].
        eapply cext_tset_cont; [exact Et|discriminate]. }
      destruct d2 as [|c2 d3]; [apply G|]. destruct (N.eqb c2 125); [cext_fin|apply G]. }
    destruct (scalar_step (c :: d1) c) as [[tok d']| | | |]; try discriminate.
    set (t1 := tpush (t0 ++ [TArray 0 false]) tok).
    pose proof (flag_cext t1 p m) as Hx2.
    match goal with |- context [Nat.ltb (length ?T) 2] => set (t2 := T) in * end.
    assert (Hx1 : cext (t0 ++ [TArray 0 false]) t2) by (eapply cext_trans; [apply cext_push|exact Hx2]).
    destruct (skip_ws_t d') as [[|c2 d3]|]; try discriminate.
    destruct (Nat.ltb (length t2) 2); [discriminate|].
    destruct (beq c2 61 || beq c2 62 || beq c2 60).
    + destruct (tset t2 (length t2 - 2) (TObject p false)) as [t3|] eqn:Et; [|discriminate].
      intros H. injection H as <-. cbn [ptape]. eapply cext_trans; [exact Hx1|]. eapply cext_tset_cont; [exact Et|discriminate].
    + destruct (tset t2 (length t2 - 2) (TArray p false)) as [t3|] eqn:Et; [|discriminate].
      intros H. injection H as <-. cbn [ptape]. eapply cext_trans; [exact Hx1|]. eapply cext_tset_cont; [exact Et|discriminate].
Qed.

Lemma done_cext s F : step s = Done F -> cext (ptape s) F.
Proof.
  intros H. pose proof (step_done_eof _ _ H) as E0.
  destruct s as [d st m p t]. cbn [pdata pst_ pparent ptape] in *.
  unfold step in H. cbv zeta in H. cbn [pdata pst_ pmixed pparent ptape] in H. rewrite E0 in H.
  destruct st; try discriminate.
  destruct (Nat.eqb p 0); [injection H as <-; apply cext_refl|].
  destruct (Nat.eqb (slot t p) 0); [|discriminate].
  destruct (tset (tpush t (TEnd p)) p (TObject (length t) false)) as [t'|] eqn:Et; [|discriminate].
  injection H as <-. eapply cext_trans; [apply cext_push|]. eapply cext_tset_cont; [exact Et|discriminate].
Qed.

Lemma runs_cext s sf F : runs s sf -> step sf = Done F -> Inv s -> cext (ptape s) F.
Proof.
  induction 1 as [s|s s1 s2 H1 _ IH]; intros HD HI.
  - apply done_cext; assumption.
  - eapply cext_trans; [apply step_cext; eassumption|]. apply IH; [exact HD|]. eapply Inv_step; eauto.
Qed.

(* ------------------------------------------------------------------ exit analysis *)
Lemma exit_consistent s sf F t1 x x' m' tr :
  runs s sf -> step sf = Done F -> Inv s -> pst_ s = SKey -> ptape s = t1 ++ [x] -> tok_cut x' x ->
  step (mkps [] SKey m' (pparent s) (t1 ++ [x'])) = Done tr -> consistent_tape F tr.
Proof.
  intros R HD HI HK Et Hcut Hex.
  pose proof (runs_ext _ _ _ R HD HI) as [HL HE]. rewrite Et in HL, HE.
  assert (HLt : length (t1 ++ [x]) = S (length t1)) by (rewrite app_length; cbn [length]; lia).
  pose proof (key_last _ _ _ R HD HI HK t1 x Et) as KLst.
  destruct s as [d st m p t]. unfold Inv in HI. cbn [pst_ pparent ptape] in *. subst st t. cbn [inv] in HI.
  unfold step in Hex. cbv zeta in Hex. cbn [pdata pst_ pmixed pparent ptape] in Hex.
  change (skip_ws_t []) with (@None bytes) in Hex. cbv iota in Hex.
  destruct (Nat.eqb p 0) eqn:Ep.
  - (* top level *)
    apply Nat.eqb_eq in Ep. subst p. injection Hex as <-.
    pose proof (chainrep_top _ HI) as C0.
    destruct (KLst (closed_last_plain _ _ _ C0)) as (y & Hy & Hr).
    left. right. exists t1, x', y. split; [reflexivity|]. split; [|split; [exact Hy|eapply tok_cut_hdr; eauto]].
    apply firstn_eq_nth; [lia|]. intros i Hi.
    rewrite HE; [apply nth_error_app_l; exact Hi|lia|apply is_open_closed0; exact C0].
  - (* one open container *)
    apply Nat.eqb_neq in Ep.
    destruct (Nat.eqb (slot (t1 ++ [x']) p) 0) eqn:Es; [|discriminate]. apply Nat.eqb_eq in Es.
    destruct (chainrep_inv _ _ HI) as [[-> _]|(ta & p0 & c & V & EV & -> & Ha & Na & Hc & CV)]; [congruence|].
    assert (Hpos : 0 < length ta) by (destruct ta; [congruence|cbn; lia]).
    destruct (list_last_cases _ V) as [->|(V0 & x2 & ->)].
    + (* the container itself is the last token *)
      apply app_inj_tail in EV. destruct EV as [-> ->].
      rewrite (tok_cut_cont _ _ _ Hcut Hc) in *.
      rewrite (slot_mid ta c [] p0 Hc) in Es. subst p0.
      pose proof (chainrep_top _ Ha) as C0.
      unfold tpush in Hex. rewrite <- app_assoc in Hex. cbn [app] in Hex. rewrite tset_mid in Hex. injection Hex as <-.
      destruct (runs_cext _ _ _ R HD HI (length ta) c (nth_error_snoc_len _ _ _) ltac:(congruence)) as (y & Ey & Hcy).
      right. exists (length ta), [], y.
      assert (Hf : firstn (length ta) F = ta).
      { apply firstn_eq_nth; [lia|]. intros i Hi.
        rewrite HE; [apply nth_error_app_l; exact Hi|lia|].
        apply is_open_chain1; [exact C0|apply cl_nil|lia]. }
      split; [exact Hpos|]. split; [rewrite Hf, HLt; cbn [length app]; replace (length ta + 1 + 0) with (S (length ta)) by lia; reflexivity|].
      split; [rewrite Hf; reflexivity|]. split; [exact Ey|]. split; [exact Hcy|left; reflexivity].
    + assert (E1 : t1 = ta ++ c :: V0 /\ x = x2).
      { change (ta ++ c :: V0 ++ [x2]) with (ta ++ (c :: V0) ++ [x2]) in EV. rewrite app_assoc in EV.
        apply app_inj_tail in EV. destruct EV as [-> ->]. split; [reflexivity|reflexivity]. }
      destruct E1 as [-> <-].
      rewrite <- app_assoc in Es, Hex. cbn [app] in Es, Hex.
      rewrite (slot_mid ta c (V0 ++ [x']) p0 Hc) in Es. subst p0.
      pose proof (chainrep_top _ Ha) as C0.
      unfold tpush in Hex. rewrite <- app_assoc in Hex. cbn [app] in Hex. rewrite tset_mid in Hex. injection Hex as <-.
      destruct (KLst (closed_last_plain _ _ _ CV)) as (y & Hy & Hr).
      assert (Hlen1 : length (ta ++ c :: V0) = length ta + 1 + length V0) by (rewrite app_length; cbn [length]; lia).
      assert (Hnc : nth_error ((ta ++ c :: V0) ++ [x]) (length ta) = Some c)
        by (rewrite <- app_assoc; apply nth_error_snoc_mid).
      destruct (runs_cext _ _ _ R HD HI (length ta) c Hnc ltac:(congruence)) as (yc & Ey & Hcy).
      assert (Hop : forall i, i <> length ta -> is_open ((ta ++ c :: V0) ++ [x]) i = false).
      { intros i Hi. rewrite <- app_assoc. cbn [app]. apply is_open_chain1; assumption. }
      assert (Hf : firstn (length ta) F = ta).
      { apply firstn_eq_nth; [lia|]. intros i Hi.
        rewrite HE; [rewrite <- app_assoc; apply nth_error_app_l; exact Hi|lia|apply Hop; lia]. }
      right. exists (length ta), (V0 ++ [x']), yc.
      split; [exact Hpos|]. split.
      { rewrite Hf. rewrite <- app_assoc. cbn [app]. do 2 f_equal.
        f_equal. rewrite !app_length. cbn [length]. rewrite app_length. cbn [length]. lia. }
      split; [rewrite Hf; reflexivity|]. split; [exact Ey|]. split; [exact Hcy|].
      right. exists V0, x', y. split; [reflexivity|]. split; [|split].
      * apply firstn_eq_nth; [rewrite skipn_length; lia|]. intros j Hj. rewrite nth_skipn.
        rewrite HE; [|lia|apply Hop; lia].
        rewrite <- app_assoc. cbn [app]. rewrite nth_error_mid.
        destruct (Nat.ltb_spec (S (length ta) + j) (length ta)); [lia|].
        destruct (Nat.eqb_spec (S (length ta) + j) (length ta)); [lia|].
        replace (S (length ta) + j - S (length ta)) with j by lia. apply nth_error_app_l. exact Hj.
      * rewrite nth_skipn. rewrite Hlen1 in Hy. replace (S (length ta) + length V0) with (length ta + 1 + length V0) by lia. exact Hy.
      * eapply tok_cut_hdr; eauto.
Qed.

(* ------------------------------------------------------------------ the run on the chopped data *)
Lemma eof_exit_consistent s sf F r tr :
  runs s sf -> step sf = Done F -> Inv s ->
  skip_ws_t (chop r (pdata s)) = None -> step (chopS r s) = Done tr -> consistent_tape F tr.
Proof.
  intros R HD HI Hw Hex.
  destruct s as [d st m p t]. unfold chopS in Hex. cbn [pdata pst_ pmixed pparent ptape] in *.
  rewrite (step_same_skip _ [] st m p t) in Hex by (rewrite Hw; reflexivity).
  destruct st; try (rewrite eof_mid_field in Hex by (reflexivity || discriminate); discriminate).
  destruct (list_last_cases _ t) as [->|(t1 & x & ->)].
  - unfold Inv in HI. cbn [pst_ pparent ptape inv] in HI.
    assert (p = 0).
    { destruct (chainrep_inv _ _ HI) as [[-> _]|(t0 & p0 & c & V & E & _)]; [reflexivity|]. destruct t0; discriminate. }
    subst p. unfold step in Hex. cbn in Hex. injection Hex as <-. left. left. reflexivity.
  - eapply (exit_consistent _ sf F t1 x x m tr R HD HI); [reflexivity|reflexivity|apply tok_cut_refl|exact Hex].
Qed.

Theorem cut_run s sf F : runs s sf -> step sf = Done F -> Inv s ->
  forall r fuel tr, ploop fuel (chopS r s) = Ok tr -> consistent_tape F tr.
Proof.
  induction 1 as [s|s s1 s2 H1 R IH]; intros HD HI r fuel tr Hp.
  - destruct fuel as [|f]; [discriminate|]. cbn [ploop] in Hp.
    rewrite (step_chop_done r _ _ HD) in Hp. injection Hp as <-. left. apply prefix_cut_refl.
  - destruct fuel as [|f]; [discriminate|]. cbn [ploop] in Hp.
    assert (R0 : runs s s2) by (eapply runs_step; eauto).
    destruct (step_chop r s s1 H1) as [Hw | Hc].
    + destruct (step (chopS r s)) as [sx|tx|ex|cx] eqn:Ex; try discriminate.
      * exfalso. destruct s as [d st m p t]. unfold chopS in Ex. cbn [pdata pst_ pmixed pparent ptape] in *.
        unfold step in Ex. cbv zeta in Ex. cbn [pdata pst_ pmixed pparent ptape] in Ex. rewrite Hw in Ex.
        destruct st; try discriminate. destruct (Nat.eqb p 0); [discriminate|].
        destruct (Nat.eqb _ 0); [destruct (tset _ _ _)|]; discriminate.
      * injection Hp as <-. eapply eof_exit_consistent; eauto.
    + destruct Hc as [Hs | Hb | s'' Hs Hd | d' m p t x x' Es Hs Hcut].
      * rewrite Hs in Hp. eapply IH; [exact HD|eapply Inv_step; eauto|exact Hp].
      * destruct (step (chopS r s)); cbn [bad] in Hb; try contradiction; discriminate.
      * rewrite Hs in Hp. exfalso. exact (Hd _ _ Hp).
      * rewrite Hs in Hp. destruct f as [|f']; [discriminate|]. cbn [ploop] in Hp.
        destruct (step (mkps [] SKey m p (tpush t x'))) as [sx|tx|ex|cx] eqn:Ex; try discriminate.
        -- exfalso. unfold step in Ex. cbn in Ex. destruct (Nat.eqb p 0); [discriminate|].
           destruct (Nat.eqb _ 0); [destruct (tset _ _ _)|]; discriminate.
        -- injection Hp as <-. subst s1.
           eapply (exit_consistent _ s2 F t x x' m tx R HD (Inv_step _ _ HI H1)); [reflexivity|reflexivity|exact Hcut|exact Ex].
Qed.

(* ------------------------------------------------------------------ parse on a prefix *)
Lemma has_bom_inv l : has_bom l = true -> exists r, l = 239%N :: 187%N :: 191%N :: r.
Proof.
  destruct l as [|a [|b0 [|c r]]]; try discriminate.
  - destruct a as [|pa]; [discriminate|]. do 8 (try destruct pa as [pa|pa|]; try discriminate).
  - destruct a as [|pa]; [discriminate|]. do 8 (try destruct pa as [pa|pa|]; try discriminate).
    destruct b0 as [|pb]; [discriminate|]. do 8 (try destruct pb as [pb|pb|]; try discriminate).
  - destruct a as [|pa]; [discriminate|]. do 8 (try destruct pa as [pa|pa|]; try discriminate).
    destruct b0 as [|pb]; [discriminate|]. do 8 (try destruct pb as [pb|pb|]; try discriminate).
    destruct c as [|pc]; [discriminate|]. do 8 (try destruct pc as [pc|pc|]; try discriminate).
    intros _. eexists. reflexivity.
Qed.

Lemma has_bom_firstn k d : has_bom (firstn k d) = true -> has_bom d = true /\ 3 <= k.
Proof.
  intros H. apply has_bom_inv in H. destruct H as (r & E).
  destruct k as [|[|[|k]]]; destruct d as [|a [|b0 [|c d]]]; cbn [firstn] in E; try discriminate.
  injection E as -> -> -> _. split; [reflexivity|lia].
Qed.

Lemma parse_unfold' input :
  parse input =
  omap (fun t => (t, has_bom input))
       (ploop (2 * length input + 8) (mkps (if has_bom input then skipn 3 input else input) SKey false 0 [])).
Proof. reflexivity. Qed.

Theorem trunc_generic D F b k :
  parse D = Ok (F, b) ->
  (exists e, parse (firstn k D) = Err e) \/
  (exists t b', parse (firstn k D) = Ok (t, b') /\ consistent_tape F t).
Proof.
  intros HP.
  pose proof (parse_no_crash (firstn k D)) as NC.
  destruct (parse (firstn k D)) as [[t b']| e | | |] eqn:EP; try contradiction; [|left; eauto].
  right. exists t, b'. split; [reflexivity|].
  destruct (Nat.le_gt_cases (length D) k) as [Hk|Hk].
  { rewrite firstn_all2 in EP by exact Hk. rewrite HP in EP. injection EP as <- <-. left. apply prefix_cut_refl. }
  rewrite parse_unfold' in HP, EP.
  destruct (ploop _ (mkps (if has_bom D then _ else _) _ _ _ _)) as [F'| | | |] eqn:EF; try discriminate.
  cbn [omap] in HP. injection HP as -> <-.
  destruct (ploop_ok_runs _ _ _ EF) as (sf & R & HD).
  destruct (ploop (2 * length (firstn k D) + 8) _) as [t'| | | |] eqn:Et; try discriminate.
  cbn [omap] in EP. injection EP as -> <-.
  pose proof (cut_run _ _ _ R HD (Inv_init _)) as CR.
  destruct (has_bom D) eqn:HB.
  - destruct (has_bom (firstn k D)) eqn:HBk.
    + apply has_bom_firstn in HBk. destruct HBk as [_ H3].
      refine (CR (length D - k) (2 * length (firstn k D) + 8) t _). unfold chopS. cbn [pdata pst_ pmixed pparent ptape].
      replace (chop (length D - k) (skipn 3 D)) with (skipn 3 (firstn k D)); [exact Et|].
      unfold chop. rewrite skipn_length, skipn_firstn_comm. f_equal. lia.
    + (* fewer than 3 bytes of a text that starts with a BOM *)
      destruct (has_bom_inv _ HB) as (D' & ->).
      destruct k as [|[|[|k]]]; cbn [firstn] in *.
      * vm_compute in Et. injection Et as <-. left. left. reflexivity.
      * vm_compute in Et. discriminate.
      * vm_compute in Et. discriminate.
      * discriminate.
  - destruct (has_bom (firstn k D)) eqn:HBk.
    + apply has_bom_firstn in HBk. destruct HBk as [HBD _]. congruence.
    + refine (CR (length D - k) (2 * length (firstn k D) + 8) t _). unfold chopS. cbn [pdata pst_ pmixed pparent ptape].
      rewrite <- firstn_chop by lia. exact Et.
Qed.

(* ------------------------------------------------------------------ rendered documents *)
From JV.proofs Require TextParseProofs.

Theorem trunc_text d l k :
  wf_doc d -> wf_layout d l ->
  let r := parse (firstn k (render d l)) in
  (exists e, r = Err e) \/ consistent d r.
Proof.
  intros Hd Hl r. pose proof (TextParseProofs.parse_render d l Hd Hl) as HP.
  destruct (trunc_generic _ _ _ k HP) as [He | (t & b' & E & Hc)]; [left; exact He|].
  right. exists t, b'. split; [exact E|exact Hc].
Qed.

(* what [consistent_tape] implies position by position: a token of the result below the cut
   container / last token is literally the original's *)
Lemma prefix_cut_nth t F i : prefix_cut t F -> i + 1 < length t -> nth_error t i = nth_error F i.
Proof.
  intros [->|(t0 & x & y & -> & Hf & _)] Hi; [cbn in Hi; lia|].
  rewrite app_length in Hi. cbn [length] in Hi.
  rewrite nth_error_app_l by lia. rewrite <- Hf at 1. apply nth_error_firstn_lt. lia.
Qed.

Lemma prefix_cut_last t0 x F : prefix_cut (t0 ++ [x]) F -> exists y, nth_error F (length t0) = Some y /\ tok_cut x y.
Proof.
  intros [E|(t0' & x' & y & E & _ & Hy & Hc)]; [destruct t0; discriminate|].
  apply app_inj_tail in E. destruct E as [-> ->]. eauto.
Qed.

Lemma prefix_cut_length t F : prefix_cut t F -> length t <= length F.
Proof.
  intros [->|(t0 & x & y & -> & _ & Hy & _)]; [cbn; lia|].
  rewrite app_length. cbn [length]. assert (length t0 < length F) by (apply nth_error_Some; congruence). lia.
Qed.

(* every scalar of the result is a prefix of (or equal to) the scalar at the same index of the
   original tape: never extended, never merged with its neighbour, never invented *)
Lemma tok_cut_scalar x y s : tok_cut x y -> TextTapeWf.scalar_bytes x = Some s ->
  exists s', TextTapeWf.scalar_bytes y = Some s' /\ bytes_prefix s s'.
Proof.
  intros [->|(s0 & s' & -> & Hy & Hp & _)] Hs.
  - exists s. split; [exact Hs|exists []; rewrite app_nil_r; reflexivity].
  - cbn [TextTapeWf.scalar_bytes] in Hs. injection Hs as <-. exists s'. split; [destruct Hy as [->| ->]; reflexivity|exact Hp].
Qed.

Lemma prefix_cut_scalars t F i x s : prefix_cut t F -> nth_error t i = Some x -> TextTapeWf.scalar_bytes x = Some s ->
  exists y s', nth_error F i = Some y /\ TextTapeWf.scalar_bytes y = Some s' /\ bytes_prefix s s'.
Proof.
  intros Hc Hx Hs.
  assert (Hi : i < length t) by (apply nth_error_Some; congruence).
  destruct (Nat.eq_dec (i + 1) (length t)) as [E|E].
  - destruct Hc as [->|(t0 & x0 & y & -> & _ & Hy & Hcut)]; [cbn in Hi; lia|].
    rewrite app_length in E. cbn [length] in E. assert (i = length t0) by lia. subst i.
    rewrite nth_error_snoc_len in Hx. injection Hx as <-.
    destruct (tok_cut_scalar _ _ _ Hcut Hs) as (s' & H1 & H2). eauto.
  - rewrite (prefix_cut_nth t F i Hc) in Hx by lia. exists x, s. split; [exact Hx|]. split; [exact Hs|].
    exists []. rewrite app_nil_r. reflexivity.
Qed.

Theorem consistent_scalars F t i x s :
  consistent_tape F t -> nth_error t i = Some x -> TextTapeWf.scalar_bytes x = Some s ->
  exists y s', nth_error F i = Some y /\ TextTapeWf.scalar_bytes y = Some s' /\ bytes_prefix s s'.
Proof.
  intros [Hc|(p & body & y0 & Hp & -> & Hlen & Hy0 & Hcy0 & Hb)] Hx Hs; [eapply prefix_cut_scalars; eauto|].
  destruct (Nat.lt_ge_cases i p) as [Hlt|Hge].
  - rewrite nth_error_app_l in Hx by lia. rewrite nth_error_firstn_lt in Hx by lia.
    exists x, s. split; [exact Hx|]. split; [exact Hs|]. exists []. rewrite app_nil_r. reflexivity.
  - rewrite nth_error_app2 in Hx by lia. rewrite Hlen in Hx.
    destruct (i - p) as [|j] eqn:Ej; [cbn in Hx; injection Hx as <-; discriminate|].
    cbn [nth_error] in Hx.
    destruct (Nat.lt_ge_cases j (length body)) as [Hj|Hj].
    + rewrite nth_error_app_l in Hx by exact Hj.
      destruct (prefix_cut_scalars _ _ _ _ _ Hb Hx Hs) as (y & s' & H1 & H2 & H3).
      rewrite nth_skipn in H1. replace (S p + j) with i in H1 by lia. eauto.
    + rewrite nth_error_app2 in Hx by exact Hj.
      destruct (j - length body) as [|j']; [cbn in Hx; injection Hx as <-; discriminate|].
      destruct j'; discriminate.
Qed.

