(* Corollaries at the level of the entry points (deser_tape / deser_ondemand / deser_reader on the bytes
   of a document), the two refuted combinations, and facts that characterise the specification
   itself: ghost objects are invisible, an rgb block is its components. *)
From JV Require Import Bytes Tables BinPrim BufWin BinLexer BinReader BinTape SerdeShape BinDeCommon
  BinDeOndemand BinDeReader BinDeTape BinDoc.
From JV.proofs Require Import BinDeSim BinDocProofs BinDeOdProofs BinDeRdProofs BinDeTpProofs BinDeParseProofs.
Open Scope N_scope.

Theorem ondemand_eq_spec cfg sh fs g :
  wf_doc fs g = true -> fits_shape cfg sh fs g -> deser_ondemand cfg sh (enc_doc fs g) = spec_of cfg sh fs g.
Proof. intros W F. apply sim_eq_result; [apply ondemand_eq_spec_fuel, W|exact F]. Qed.

Theorem reader_eq_spec cfg cap sched sh fs g :
  wf_doc fs g = true -> no_fail sched = true -> fits cap (enc_doc fs g) = true -> fits_shape cfg sh fs g ->
  deser_reader cfg cap sched sh (enc_doc fs g) = spec_of cfg sh fs g.
Proof. intros W NF HF F. apply sim_eq_result; [apply reader_eq_spec_fuel; assumption|exact F]. Qed.

Theorem tape_eq_spec cfg sh fs g : fast_path_excludes_i64 = true ->
  wf_doc fs g = true -> tape_ok_doc fs = true -> fits_shape cfg sh fs g ->
  deser_tape cfg sh (enc_doc fs g) = spec_of cfg sh fs g.
Proof.
  intros FX W T F. unfold deser_tape. rewrite (parse_opt_doc fs g FX W T).
  apply sim_eq_result; [apply tape_tokens_eq_spec_fuel|exact F].
Qed.

Theorem paths_agree cfg cap sched sh fs g : fast_path_excludes_i64 = true ->
  wf_doc fs g = true -> tape_ok_doc fs = true -> fits_shape cfg sh fs g ->
  no_fail sched = true -> fits cap (enc_doc fs g) = true ->
  deser_tape cfg sh (enc_doc fs g) = deser_ondemand cfg sh (enc_doc fs g) /\
  deser_ondemand cfg sh (enc_doc fs g) = deser_reader cfg cap sched sh (enc_doc fs g).
Proof.
  intros FX W T F NF HF.
  rewrite (tape_eq_spec cfg sh fs g FX W T F), (ondemand_eq_spec cfg sh fs g W F),
          (reader_eq_spec cfg cap sched sh fs g W NF HF F). split; reflexivity.
Qed.

(* ---------- rgb: the visitor sees ("rgb", [r, g, b(, a)]) ---------- *)
Definition channels (c : rgb) : list N :=
  rgb_r c :: rgb_g c :: rgb_b c :: match rgb_a c with Some a => [a] | None => [] end.

Theorem rgb_components_any cfg n c :
  color_visit cfg n ShAny c = Ok (DSeq [DStr RGB_NAME; DSeq (map DU (channels c))]).
Proof. destruct c as [r g b [a|]]; reflexivity. Qed.

Theorem rgb_components_typed cfg n bits c : forallb (fun x => in_u bits (Z.of_N x)) (channels c) = true ->
  color_visit cfg n (ShTup [ShStr; ShSeq (ShU bits)]) c = Ok (DSeq [DStr RGB_NAME; DSeq (map DU (channels c))]).
Proof.
  destruct c as [r g b [a|]]; unfold channels; cbn [rgb_r rgb_g rgb_b rgb_a forallb]; intros H;
    repeat (apply andb_prop in H as [?H H]).
  all: unfold color_visit; cbn [visit_seq tup_loop]; unfold color_elem at 1; cbn [Nat.leb Nat.eqb visit_prim obind];
       unfold color_elem at 1; cbn [Nat.leb Nat.eqb obind visit_seq seq_loop].
  all: repeat (unfold inner_elem at 1; cbn [rgb_a rgb_r rgb_g rgb_b Nat.leb obind visit_prim prim_int];
               rewrite ?H0, ?H1, ?H2, ?H3, ?N2Z.id; cbn [obind]).
  all: reflexivity.
Qed.

(* ---------- the two combinations on which the paths genuinely differ ---------- *)
Definition cfg0 : bcfg :=
  mkcfg (fun id => if id =? 4660 then Some [97; 98; 99] else None) SError (fun d => Ok d) (fun _ => 0) (fun _ => 0)
        (mkfops (fun x => x) (fun x => x) (fun _ => 0) (fun _ => 0)).

(* x = <token id 0x1234> into struct { x : u16 } *)
Definition doc_u16 : list bfield := [(false, SQuoted [120], VScalar (SId 4660))].
Definition shape_u16 : shape := ShStruct false [([120], None, MOnce, ShU 16)].
Theorem u16_on_id_value_refuted :
  wf_doc doc_u16 false = true /\ tape_ok_doc doc_u16 = true /\
  deser_ondemand cfg0 shape_u16 (enc_doc doc_u16 false) = Ok (DStruct [([120], DU 4660)]) /\
  deser_reader cfg0 64 [] shape_u16 (enc_doc doc_u16 false) = Ok (DStruct [([120], DU 4660)]) /\
  deser_tape cfg0 shape_u16 (enc_doc doc_u16 false) = Err EC_DE /\
  spec_of cfg0 shape_u16 doc_u16 false = Err EC_UNFIT.
Proof. vm_compute. repeat split; reflexivity. Qed.

(* x = { rgb { 1 2 3 } } into struct { x : seq(any) } *)
Definition doc_rgb_arr : list bfield := [(false, SQuoted [120], VArr [VRgb (mkrgb 1 2 3 None)])].
Definition shape_rgb_arr : shape := ShStruct false [([120], None, MOnce, ShSeq ShAny)].
Theorem rgb_in_array_refuted :
  wf_doc doc_rgb_arr false = true /\ tape_ok_doc doc_rgb_arr = false /\
  deser_ondemand cfg0 shape_rgb_arr (enc_doc doc_rgb_arr false)
    = Ok (DStruct [([120], DSeq [DSeq [DStr RGB_NAME; DSeq [DU 1; DU 2; DU 3]]])]) /\
  deser_tape cfg0 shape_rgb_arr (enc_doc doc_rgb_arr false) <> deser_ondemand cfg0 shape_rgb_arr (enc_doc doc_rgb_arr false).
Proof. vm_compute. repeat split; try reflexivity. discriminate. Qed.

(* non-vacuity of the main theorems: a document with a token key, a ghost, a nested object, an array,
   an rgb value, an unknown field; a partial struct target; the specification has a value *)
Definition doc_ex : list bfield :=
  [ (false, SId 4660, VScalar (SI32 7));
    (true,  SQuoted [107], VObj [(false, SUnquoted [97], VScalar (SBool true)); (true, SUnquoted [53], VArr [VScalar (SU32 1); VScalar (SU64 2)])] true);
    (false, SUnquoted [117], VArr [VObj [(false, SQuoted [122], VScalar (SQuoted [113]))] false; VArr []]);
    (false, SQuoted [99], VRgb (mkrgb 1 2 3 (Some 4))) ].
Definition shape_ex : shape :=
  ShStruct false [ ([97; 98; 99], None, MOnce, ShU 8);
                   ([107], None, MOnce, ShMap ShAny);
                   ([99], None, MOnce, ShTup [ShStr; ShSeq (ShU 8)]);
                   ([109], None, MOnce, ShOpt ShStr) ].
Example example_fits :
  wf_doc doc_ex true = true /\ tape_ok_doc doc_ex = true /\ fits 32 (enc_doc doc_ex true) = true /\ fits 24 (enc_doc doc_ex true) = false /\
  spec_of cfg0 shape_ex doc_ex true =
    Ok (DStruct [ ([97; 98; 99], DU 7);
                  ([107], DMap [([97], DBool true); ([53], DSeq [DU 1; DU 2])]);
                  ([99], DSeq [DStr RGB_NAME; DSeq [DU 1; DU 2; DU 3; DU 4]]);
                  ([109], DNone) ]).
Proof. vm_compute. repeat split; reflexivity. Qed.

(* ---------- ghost objects are invisible to the specification ---------- *)
Definition erase_cur (c : dcur) : dcur :=
  match c with
  | CSeq vs => CSeq (map erase_val vs)
  | CMap fs _ p => CMap (erase_fields fs) false (option_map erase_val p)
  | CDone => CDone
  end.

Section Ghost.
  Variable cfg : bcfg.
  Definition R_g (_ : unit) (c1 c2 : dcur) : Prop := c2 = erase_cur c1.
  Definition RT_g (_ : unit) (v1 : bval) (c1 : dcur) (v2 : bval) (c2 : dcur) : Prop :=
    v2 = erase_val v1 /\ c2 = erase_cur c1.
  Notation AR := (act_rel (ops_doc cfg) (ops_doc cfg) R_g (fun _ => True) (fun _ _ => True) (fun (_ : hint) (a b : prim) => a = b)).

  Lemma erase_obj fs g : erase_val (VObj fs g) = VObj (erase_fields fs) false.
  Proof. reflexivity. Qed.

  Lemma ghost_exit h c sub dr :
    sim (R_g tt) (doc_seq_exit h c sub dr) (doc_seq_exit h (erase_cur c) (erase_cur sub) dr).
  Proof.
    destruct h, dr; cbn [doc_seq_exit]; try (apply sim_ok; reflexivity).
    destruct sub as [[|x xs]|? ? ?|]; cbn [erase_cur map doc_seq_exit]; try (left; reflexivity).
    apply sim_ok. reflexivity.
  Qed.

  Lemma ghost_H_disp u iskey h v1 c1 v2 c2 : RT_g u v1 c1 v2 c2 ->
    sim (AR u h) (doc_dispatch cfg iskey h v1 c1) (doc_dispatch cfg iskey h v2 c2).
  Proof.
    intros [-> ->]. destruct u. destruct v1 as [s|c0|vs|fs g].
    - cbn [erase_val].
      assert (E : forall c, doc_dispatch cfg iskey h (VScalar s) c =
                  do a <- (do (a, _) <- doc_dispatch cfg iskey h (VScalar s) CDone; Ok a); Ok (a, c)).
      { intros c. destruct h, s, iskey; cbn [doc_dispatch obind]; try reflexivity;
          destruct (scalar_prim cfg _); reflexivity. }
      rewrite (E c1), (E (erase_cur c1)).
      destruct (do (a, _) <- doc_dispatch cfg iskey h (VScalar s) CDone; Ok a) as [a|e| | |] eqn:Ea; cbn [obind];
        try (right; reflexivity); try (right; exact I).
      assert (Pa : exists p, a = APrim p).
      { destruct h, s, iskey; cbn [doc_dispatch obind] in Ea; try discriminate;
          try (inversion Ea; eexists; reflexivity);
          destruct (scalar_prim cfg _); cbn [obind] in Ea; inversion Ea; eexists; reflexivity. }
      destruct Pa as [p ->]. apply sim_ok. split; reflexivity.
    - cbn [erase_val]. destruct iskey; [left; reflexivity|].
      destruct h; cbn [doc_dispatch]; try (left; reflexivity); apply sim_ok; split; reflexivity.
    - cbn [erase_val]. destruct iskey; [left; reflexivity|].
      assert (HS : sim (AR tt h) (Ok (ASeq (C:=rgb) (CSeq vs), c1)) (Ok (ASeq (C:=rgb) (CSeq (map erase_val vs)), erase_cur c1))).
      { apply sim_ok. exists tt. split; [reflexivity|]. intros sub1' sub2' dr -> _ _. cbn [snd p_seq_exit ops_doc].
        apply ghost_exit. }
      destruct h; cbn [doc_dispatch]; try exact HS; try (apply sim_ok; split; reflexivity).
      destruct vs as [|v vs]; cbn [map]; [|left; reflexivity].
      apply sim_ok. exists tt. split; [exact I|]. split; [reflexivity|].
      intros sub1' sub2' _ _. cbn [snd p_map_exit ops_doc]. apply sim_ok. reflexivity.
    - rewrite erase_obj. destruct iskey; [left; reflexivity|].
      destruct h; cbn [doc_dispatch]; try (left; reflexivity); try (apply sim_ok; split; reflexivity).
      apply sim_ok. exists tt. split; [exact I|]. split; [reflexivity|].
      intros sub1' sub2' _ _. cbn [snd p_map_exit ops_doc]. apply sim_ok. reflexivity.
  Qed.

  Theorem ghost_ops_sim : ops_sim (c_fops cfg) (ops_doc cfg) (ops_doc cfg) R_g RT_g (fun _ => True) (fun _ _ => True) (fun (_ : hint) (a b : prim) => a = b).
  Proof.
    constructor.
    - intros. apply ghost_H_disp. assumption.
    - intros u c1 c2 ->. destruct c1 as [[|v vs]|? ? ?|]; cbn [erase_cur map p_next_elem ops_doc doc_next_elem];
        try (left; reflexivity); apply sim_ok; unfold tok_rel; cbn [fst snd]; repeat split.
    - intros u root c1 c2 _ ->. destruct c1 as [?|[|f fs] g [v|]|]; cbn [erase_cur erase_fields map option_map p_next_key ops_doc doc_next_key];
        try (left; reflexivity); apply sim_ok; unfold tok_rel; cbn [fst snd]; repeat split.
    - intros u c1 c2 ->. destruct c1 as [?|fs g [v|]|]; cbn [erase_cur option_map p_next_value ops_doc doc_next_value];
        try (left; reflexivity); apply sim_ok; cbn [fst snd]; repeat split.
    - reflexivity.
    - intros; subst; reflexivity.
    - intros; subst; reflexivity.
    - intros; subst; reflexivity.
  Qed.

  Theorem ghost_skipped_spec fuel sh fs g :
    spec_value cfg fuel sh (erase_fields fs) false <> Err EC_UNFIT ->
    spec_value cfg fuel sh fs g = spec_value cfg fuel sh (erase_fields fs) false.
  Proof.
    intros N. apply sim_eq_result; [|exact N]. unfold spec_value.
    apply (walk_root_sim (c_fops cfg) (ops_doc cfg) (ops_doc cfg) R_g RT_g (fun _ => True) (fun _ _ => True) (fun (_ : hint) (a b : prim) => a = b) ghost_ops_sim fuel tt).
    - exact I.
    - reflexivity.
  Qed.
End Ghost.

(* ---------- unknown fields are dropped in their entirety ---------- *)
Section Unknown.
  Variable cfg : bcfg.
  Notation F := (c_fops cfg).
  Notation W := (walk F (ops_doc cfg)).

  (* the specification walk never looks at (or changes) the cursor it is handed *)
  Lemma doc_dispatch_cursor iskey h v c :
    doc_dispatch cfg iskey h v c = do r <- doc_dispatch cfg iskey h v CDone; Ok (fst r, c).
  Proof.
    destruct v as [s|c0|vs|fs g].
    - destruct h, s, iskey; cbn [doc_dispatch obind fst]; try reflexivity; destruct (scalar_prim cfg _); reflexivity.
    - destruct iskey, h; reflexivity.
    - destruct iskey, h; try reflexivity; destruct vs; reflexivity.
    - destruct iskey, h; reflexivity.
  Qed.

  Lemma doc_seq_exit_cursor h c sub dr :
    doc_seq_exit h c sub dr = do r <- doc_seq_exit h CDone sub dr; Ok c.
  Proof. destruct h, dr, sub as [[|? ?]|? ? ?|]; reflexivity. Qed.

  Lemma doc_walk_cursor fuel : forall iskey sh v c,
    W fuel iskey sh v c = do r <- W fuel iskey sh v CDone; Ok (fst r, c).
  Proof.
    induction fuel as [|f IH]; intros iskey sh v c; [reflexivity|].
    assert (P : walk_plain F (ops_doc cfg) (W f) f iskey sh v c
                = do r <- walk_plain F (ops_doc cfg) (W f) f iskey sh v CDone; Ok (fst r, c)).
    { unfold walk_plain. cbn [p_dispatch ops_doc]. rewrite (doc_dispatch_cursor iskey (hint_of sh) v c).
      destruct (doc_dispatch cfg iskey (hint_of sh) v CDone) as [[a st]| | | |]; cbn [obind fst]; try reflexivity.
      destruct a as [p|sub|c0|sub]; cbn [p_color p_seq_exit p_map_exit ops_doc].
      - destruct (visit_prim F sh p); reflexivity.
      - destruct (visit_seq _ f sh sub) as [[[dv s'] dr]| | | |]; cbn [obind fst snd]; try reflexivity.
        rewrite (doc_seq_exit_cursor (hint_of sh) c s' dr), (doc_seq_exit_cursor (hint_of sh) st s' dr).
        destruct (doc_seq_exit (hint_of sh) CDone s' dr); reflexivity.
      - destruct (color_visit cfg f sh c0); reflexivity.
      - destruct (visit_map _ _ f sh sub) as [[dv s']| | | |]; reflexivity. }
    destruct sh; cbn [walk]; try exact P.
    - rewrite (IH iskey sh v c). destruct (W f iskey sh v CDone) as [[dv s']| | | |]; reflexivity.
    - reflexivity.
    - unfold walk_enum. cbn [p_dispatch ops_doc]. rewrite (doc_dispatch_cursor iskey HIdent v c).
      destruct (doc_dispatch cfg iskey HIdent v CDone) as [[a st]| | | |]; cbn [obind fst]; try reflexivity.
      destruct a; try reflexivity. destruct (visit_variant variants p); reflexivity.
  Qed.

  Variable fuel : nat.
  Variable tk : bool.
  Variable fields : list field.
  Variable g : bool.
  Notation K := (key_of (ops_doc cfg) (W fuel) true).
  Notation V := (value_of (ops_doc cfg) (W fuel)).
  Notation SL := (struct_loop K V).

  (* what one field does to the slots: independent of the fields that follow *)
  Definition field_eff (x : bfield) (sl : slots) : outcome slots :=
    do r <- doc_dispatch cfg true (if tk then HU16 else HIdent) (VScalar (bf_key x)) CDone;
    match fst r with
    | APrim p =>
      do i <- visit_field fields p;
      match i with
      | None => do _ <- W fuel false ShIgn (bf_val x) CDone; Ok sl
      | Some i =>
        match nth_error fields i with
        | None => Panic 9004
        | Some fd => do _ <- slot_pre sl (f_mode fd) i;
                     do r <- W fuel false (f_shape fd) (bf_val x) CDone;
                     Ok (slot_put sl (f_mode fd) i (fst r))
        end
      end
    | _ => Err EC_DE
    end.

  Lemma loop_step n x r sl :
    SL (S n) tk fields (CMap (x :: r) g None) sl = do sl' <- field_eff x sl; SL n tk fields (CMap r g None) sl'.
  Proof.
    cbn [struct_loop]. unfold key_of at 1. cbn [p_next_key p_dispatch ops_doc doc_next_key obind].
    unfold field_eff. rewrite (doc_dispatch_cursor true _ (VScalar (bf_key x)) (CMap r g (Some (bf_val x)))).
    destruct (doc_dispatch cfg true (if tk then HU16 else HIdent) (VScalar (bf_key x)) CDone) as [[a st]| | | |];
      cbn [obind fst]; try reflexivity.
    destruct a as [p| | |]; try reflexivity.
    destruct (visit_field fields p) as [[i|]| | | |]; cbn [obind]; try reflexivity.
    - destruct (nth_error fields i) as [fd|]; [|reflexivity].
      destruct (slot_pre sl (f_mode fd) i); cbn [obind]; try reflexivity.
      unfold value_of. cbn [p_next_value ops_doc doc_next_value obind].
      rewrite (doc_walk_cursor fuel false (f_shape fd) (bf_val x) (CMap r g None)).
      destruct (W fuel false (f_shape fd) (bf_val x) CDone) as [[dv s']| | | |]; reflexivity.
    - unfold value_of. cbn [p_next_value ops_doc doc_next_value obind].
      rewrite (doc_walk_cursor fuel false ShIgn (bf_val x) (CMap r g None)).
      destruct (W fuel false ShIgn (bf_val x) CDone) as [[dv s']| | | |]; reflexivity.
  Qed.

  Local Open Scope nat_scope.
  Lemma loop_fuel l : forall n m sl, length l < n -> length l < m ->
    SL n tk fields (CMap l g None) sl = SL m tk fields (CMap l g None) sl.
  Proof.
    induction l as [|x r IH]; intros n m sl Ln Lm; (destruct n as [|n]; [cbn in Ln; lia|]); (destruct m as [|m]; [cbn in Lm; lia|]).
    - reflexivity.
    - rewrite !loop_step. destruct (field_eff x sl); cbn [obind]; try reflexivity. apply IH; cbn [length] in *; lia.
  Qed.

  (* the key of the field does not name a field of the target *)
  Definition unknown_key (x : bfield) : Prop :=
    exists p, doc_dispatch cfg true (if tk then HU16 else HIdent) (VScalar (bf_key x)) CDone = Ok (APrim p, CDone) /\
              visit_field fields p = Ok None.

  Lemma field_eff_unknown x sl : unknown_key x -> 1 <= fuel -> field_eff x sl = Ok sl.
  Proof.
    intros (p & E & EV) L. unfold field_eff. rewrite E. cbn [obind fst]. rewrite EV. cbn [obind].
    destruct fuel as [|f]; [lia|]. cbn [walk]. unfold walk_plain. cbn [hint_of p_dispatch ops_doc].
    assert (ED : doc_dispatch cfg false HIgnored (bf_val x) CDone = Ok (APrim PUnit, CDone)).
    { destruct (bf_val x) as [s| | |]; try reflexivity; destruct s; reflexivity. }
    rewrite ED. reflexivity.
  Qed.

  Lemma loop_unknown l1 x l2 : unknown_key x -> 1 <= fuel -> forall n m sl,
    length (l1 ++ l2) < n -> length (l1 ++ x :: l2) < m ->
    SL m tk fields (CMap (l1 ++ x :: l2) g None) sl = SL n tk fields (CMap (l1 ++ l2) g None) sl.
  Proof.
    intros U L. induction l1 as [|y r IH]; intros n m sl Ln Lm.
    - cbn [app] in *. destruct m as [|m]; [cbn in Lm; lia|]. rewrite loop_step, (field_eff_unknown x sl U L). cbn [obind].
      apply loop_fuel; cbn [length] in *; lia.
    - cbn [app] in *. destruct n as [|n]; [cbn in Ln; lia|]. destruct m as [|m]; [cbn in Lm; lia|].
      rewrite !loop_step. destruct (field_eff y sl); cbn [obind]; try reflexivity. apply IH; cbn [length] in *; lia.
  Qed.

  Theorem unknown_field_skipped_spec l1 x l2 : unknown_key x -> length (l1 ++ x :: l2) < fuel ->
    spec_value cfg fuel (ShStruct tk fields) (l1 ++ x :: l2) g = spec_value cfg fuel (ShStruct tk fields) (l1 ++ l2) g.
  Proof.
    intros U L. unfold spec_value, walk_root. cbn [visit_map].
    rewrite (loop_unknown l1 x l2 U ltac:(lia) fuel fuel); [reflexivity| |exact L].
    rewrite app_length in *. cbn [length] in L. lia.
  Qed.
End Unknown.
