(* C10: a shared target FITS the text rendering -- TextDeSpec.spec_value never answers "unfit" on it, so the
   [fits] hypothesis of the C02 walk theorems is discharged by [shared]. *)
From JV Require Import Bytes Tables Utf8 Scalar Date TextTok BinPrim SerdeShape TextDeCommon BinDeCommon TextDeSpec LogicDoc.
From JV Require TextDoc BinDoc.
From JV.proofs Require Import DateFast C10LinkProofs C10SpecProofs.
From Coq Require Import NArith ZArith Lia List Bool.
Import ListNotations.
Open Scope N_scope.

(* ------------------------------------------------------------------ the date parsers never return an error CLASS *)
Definition noerr {A} (o : outcome A) : Prop := forall e, o <> Err e.

Lemma mdj_noerr d : noerr (month_day_from_julian d).
Proof. unfold month_day_from_julian. repeat match goal with |- context [match ?x with _ => _ end] => destruct x end; intros ee; discriminate. Qed.

Lemma xfb_noerr s : noerr (x_from_binary s).
Proof.
  unfold x_from_binary.
  repeat match goal with |- context [if ?x then _ else _] => destruct x end; try (intros ee; discriminate).
  pose proof (mdj_noerr (Z.rem (Z.quot s 24) 365)) as H. destruct (month_day_from_julian _) as [[m d]|e | | |]; cbn; intros ee; try discriminate.
  exfalso. exact (H e eq_refl).
Qed.

Lemma x_parse_noerr s : noerr (x_parse s).
Proof.
  unfold x_parse. destruct (to_i64_t s) as [[year data]| | | |]; try (intros ee; discriminate).
  destruct data as [|c0 data']; [destruct (in_i32 year); [apply xfb_noerr|intros ee; discriminate]|].
  repeat match goal with
         | |- context [if ?x then _ else _] => destruct x
         | |- context [match ?x with _ => _ end] => destruct x
         end; intros ee; discriminate.
Qed.

Lemma dpm_noerr m : noerr (dpm m).
Proof. unfold dpm. destruct (nth_error _ _); intros ee; discriminate. Qed.

Lemma date_from_ymd_noerr y m d : noerr (date_from_ymd_opt y m d).
Proof.
  unfold date_from_ymd_opt. destruct (raw_from_ymdh_opt y m d 0); [|intros ee; discriminate].
  pose proof (dpm_noerr m) as H. destruct (dpm m) as [v|e| | |]; cbn [obind]; try (intros ee; discriminate).
  - destruct (d <=? v)%Z; intros ee; discriminate.
  - exfalso. exact (H e eq_refl).
Qed.
Lemma date_from_expanded_noerr x : noerr (date_from_expanded x).
Proof. unfold date_from_expanded. destruct (negb _); [intros ee; discriminate|apply date_from_ymd_noerr]. Qed.

Lemma datehour_from_expanded_noerr x : noerr (datehour_from_expanded x).
Proof.
  unfold datehour_from_expanded, datehour_from_ymdh_opt. destruct (raw_from_ymdh_opt _ _ _ _); [|intros ee; discriminate].
  pose proof (dpm_noerr (xm x)) as H. destruct (dpm (xm x)) as [v|e| | |]; cbn [obind]; try (intros ee; discriminate).
  - destruct (_ && _); intros ee; discriminate.
  - exfalso. exact (H e eq_refl).
Qed.

Lemma olift_noerr {A B} (o : outcome (option A)) (f : A -> outcome (option B)) :
  noerr o -> (forall a, noerr (f a)) -> noerr (olift o f).
Proof.
  intros Ho Hf. unfold olift. destruct o as [[a|]|e| | |]; cbn [obind]; try (intros ee; discriminate).
  - apply Hf.
  - exfalso. exact (Ho e eq_refl).
Qed.

Lemma date_fallback_noerr s : noerr (date_fallback s).
Proof. apply olift_noerr; [apply x_parse_noerr|apply date_from_expanded_noerr]. Qed.

Lemma fast_noerr r s : noerr (match date_fast_parse_u64 r with Some x => x | None => date_fallback s end).
Proof.
  unfold date_fast_parse_u64. destruct (U64Swar.fast_digit_parse r); [apply date_from_expanded_noerr|apply date_fallback_noerr].
Qed.

Lemma date_parse_noerr s : noerr (date_parse s).
Proof.
  rewrite date_parse_is_alt. unfold date_parse_alt. destruct (shape s); [apply fast_noerr|].
  unfold date_default. destruct (Nat.eqb (length s) 8).
  - destruct (N.land _ _ =? _); [apply fast_noerr|apply date_fallback_noerr].
  - destruct s as [|c t]; [intros ee; discriminate|]. destruct (_ || _); [intros ee; discriminate|apply date_fallback_noerr].
Qed.

Lemma datehour_parse_noerr s : noerr (datehour_parse s).
Proof. apply olift_noerr; [apply x_parse_noerr|apply datehour_from_expanded_noerr]. Qed.

Lemma date_from_binary_noerr z : noerr (date_from_binary z).
Proof. apply olift_noerr; [apply xfb_noerr|intros a; apply date_from_expanded_noerr]. Qed.
Lemma datehour_from_binary_noerr z : noerr (datehour_from_binary z).
Proof. apply olift_noerr; [apply xfb_noerr|intros a; apply datehour_from_expanded_noerr]. Qed.

Definition nounfit {A} (o : outcome A) : Prop := o <> Err EC_UNFIT.

Lemma date_val_nounfit b o : noerr o -> nounfit (date_val b o).
Proof.
  intros H. unfold date_val, nounfit. destruct o as [[r|]|e| | |]; cbn [obind]; try discriminate.
  exfalso. exact (H e eq_refl).
Qed.

Lemma visit_prim_nounfit F sh p : nounfit (visit_prim F sh p).
Proof.
  destruct sh; destruct p; cbn [visit_prim prim_int];
    try (unfold nounfit; discriminate);
    try (apply date_val_nounfit; first [apply date_parse_noerr|apply datehour_parse_noerr|apply date_from_binary_noerr|apply datehour_from_binary_noerr]);
    unfold nounfit; repeat match goal with |- context [if ?x then _ else _] => destruct x end; discriminate.
Qed.

Lemma nounfit_bind {A B} (o : outcome A) (f : A -> outcome B) :
  nounfit o -> (forall a, nounfit (f a)) -> nounfit (obind o f).
Proof. intros Ho Hf. destruct o; cbn [obind]; try (unfold nounfit; discriminate); [apply Hf|intros H; apply Ho; injection H as ->; reflexivity]. Qed.
Lemma nounfit_ok {A} (a : A) : nounfit (Ok a).
Proof. unfold nounfit; discriminate. Qed.
Lemma nounfit_omap {A B} (g : A -> B) (o : outcome A) : nounfit o -> nounfit (omap g o).
Proof. intros H. unfold omap. apply nounfit_bind; [exact H|intros; apply nounfit_ok]. Qed.

Section Fits.
  Variable decode : bytes -> cow.
  Variable pf : bytes -> outcome N.
  Variable cfg : bcfg.
  Notation F := (c_fops cfg).
  Notation tspec_v := (TextDeSpec.spec_v decode pf F).
  Notation shv := (shared_v decode pf cfg).

  Lemma scalar_nounfit core l : scalar_shared decode pf cfg core l ->
    nounfit (spec_scalar decode pf F core (snd (text_scalar l))).
  Proof.
    intros Hs. destruct l; destruct core; cbn [scalar_shared] in Hs; try tauto; cbn [spec_scalar];
      try (unfold tvisit_prim; apply visit_prim_nounfit).
    unfold tvisit_variant, visit_variant, pstr. cbn [sprim]. destruct (existsb _ _); unfold nounfit; discriminate.
  Qed.

  Definition fits_at (v : lval) : Prop := forall sh o, shv sh v -> nounfit (tspec_v (to_text_val v) sh o).

  Lemma fits_opt_lift v :
    (forall sh o, strip_opt sh = sh -> shv sh v -> nounfit (tspec_v (to_text_val v) sh o)) -> fits_at v.
  Proof.
    intros Hcore sh. induction sh; intros o Hs; try (apply Hcore; [reflexivity|assumption]).
    apply -> (shared_opt decode pf cfg) in Hs. rewrite tspec_opt. apply nounfit_omap. apply IHsh. exact Hs.
  Qed.

  Lemma items_nounfit s vs : Forall fits_at vs -> shared_seq decode pf cfg s vs ->
    nounfit (spec_items decode pf F (to_text_vals vs) s).
  Proof.
    induction 1 as [|x r Hx Hr IH]; intros Hs; [apply nounfit_ok|].
    destruct Hs as [H1 H2]. cbn [to_text_vals]. rewrite spec_items_cons.
    apply nounfit_bind; [apply Hx, H1|]. intros a. apply nounfit_bind; [apply IH, H2|]. intros; apply nounfit_ok.
  Qed.

  Lemma tuple_nounfit vs : Forall fits_at vs -> forall ss, shared_tup decode pf cfg vs ss ->
    nounfit (spec_tuple decode pf F (to_text_vals vs) ss).
  Proof.
    induction 1 as [|x r Hx Hr IH]; intros ss Hs.
    - destruct ss; cbn; unfold nounfit; discriminate.
    - destruct ss as [|s ss]; [contradiction|]. destruct Hs as [H1 H2]. cbn [to_text_vals]. rewrite spec_tuple_cons.
      apply nounfit_bind; [apply Hx, H1|]. intros a. apply nounfit_bind; [apply IH, H2|]. intros; apply nounfit_ok.
  Qed.

  Lemma map_fields_nounfit s fs : Forall (fun fl : lfield => fits_at (lf_val fl)) fs -> shared_map decode pf cfg s fs ->
    forall a, nounfit (spec_fields decode pf F (to_text_fields fs) (WMap s) a).
  Proof.
    induction 1 as [|x r Hx Hr IH]; intros Hs a; [apply nounfit_ok|].
    destruct Hs as [H1 H2]. cbn [to_text_fields]. unfold to_text_field. rewrite spec_fields_cons.
    apply nounfit_bind; [|intros; apply IH, H2].
    cbn [entry]. apply nounfit_bind; [apply nounfit_omap, Hx, H1|]. intros [d u]. apply nounfit_ok.
  Qed.

  Lemma struct_fields_nounfit fds fs : Forall (fun fl : lfield => fits_at (lf_val fl)) fs -> shared_struct decode pf cfg fds fs ->
    forall a, nounfit (spec_fields decode pf F (to_text_fields fs) (WStruct false fds) a).
  Proof.
    induction 1 as [|x r Hx Hr IH]; intros Hs a; [apply nounfit_ok|].
    destruct Hs as [H1 H2]. cbn [to_text_fields]. unfold to_text_field. rewrite spec_fields_cons.
    apply nounfit_bind; [|intros; apply IH, H2].
    cbn [entry andb]. fold (tdec decode (text_raw (lf_kind x) (lf_key x))).
    destruct (find_name fds (tdec decode (text_raw (lf_kind x) (lf_key x))) 0) as [[j fd]|].
    - destruct (f_mode fd); [destruct (slot_full a j); [unfold nounfit; discriminate|]| |];
        (apply nounfit_bind; [apply nounfit_omap, Hx, H1|]; intros [d u]; apply nounfit_ok).
    - apply nounfit_bind; [rewrite tspec_ign; apply nounfit_ok|]. intros [d u]. apply nounfit_ok.
  Qed.

  Lemma finish_fields_nounfit fds : forall sl, nounfit (finish_fields fds sl).
  Proof.
    induction fds as [|f fds IH]; intros sl; [apply nounfit_ok|].
    destruct sl as [|[o c] sl]; [unfold nounfit; discriminate|]. cbn [finish_fields].
    apply nounfit_bind.
    - destruct (f_mode f); destruct o; try apply nounfit_ok; destruct (is_opt (f_shape f)); unfold nounfit; discriminate.
    - intros v. apply nounfit_bind; [apply IH|]. intros; apply nounfit_ok.
  Qed.

  Theorem val_fits v : fits_at v.
  Proof.
    induction v as [l|c|vs IH|fs IH] using lval_ind'; apply fits_opt_lift; intros sh o Hc Hs;
      (destruct (shape_eq_ign sh) as [-> | Hni]; [rewrite tspec_ign; apply nounfit_ok|]).
    - apply (shared_scalar decode pf cfg) in Hs; [|rewrite Hc; exact Hni]. rewrite Hc in Hs.
      cbn [to_text_val]. rewrite tspec_scalar; [apply scalar_nounfit; exact Hs| |exact Hni].
      destruct sh; try exact I.
      + exfalso. eapply strip_opt_not_opt. exact Hc.
      + destruct l; cbn [scalar_shared] in Hs; tauto.
    - exfalso. cbn [shared_v] in Hs. rewrite Hc in Hs. destruct sh; try contradiction; congruence.
    - rewrite to_text_arr.
      destruct sh; try (exfalso; cbn [shared_v strip_opt] in Hs; try contradiction; try congruence; eapply strip_opt_not_opt; exact Hc).
      + apply (shared_seq_eq decode pf cfg) in Hs. rewrite tspec_seq. apply nounfit_omap, items_nounfit; assumption.
      + apply (shared_tup_eq decode pf cfg) in Hs. rewrite tspec_tup. apply nounfit_omap, tuple_nounfit; assumption.
    - rewrite to_text_obj.
      destruct sh; try (exfalso; eapply strip_opt_not_opt; exact Hc);
        try (exfalso; cbn [shared_v strip_opt] in Hs; destruct Hs as [_ Hs]; try contradiction; congruence).
      + apply (shared_map_eq decode pf cfg) in Hs. destruct Hs as [_ Hs]. rewrite tspec_map.
        apply nounfit_bind; [apply map_fields_nounfit; assumption|]. intros a. apply nounfit_ok.
      + destruct token; [exfalso; cbn [shared_v strip_opt] in Hs; tauto|].
        apply (shared_struct_eq decode pf cfg) in Hs. destruct Hs as [_ Hs]. rewrite tspec_struct.
        apply nounfit_bind; [apply struct_fields_nounfit; assumption|]. intros a. cbn [finish].
        apply nounfit_omap, finish_fields_nounfit.
  Qed.

  Theorem shared_fits sh d : shared decode pf cfg sh d -> TextDeSpec.fits decode pf F sh (to_text d).
  Proof.
    intros Hs. unfold TextDeSpec.fits, TextDeSpec.spec_value, to_text.
    assert (Hall : Forall (fun fl : lfield => fits_at (lf_val fl)) d) by (apply Forall_forall; intros x _; apply val_fits).
    destruct sh; cbn [shared] in Hs; try contradiction; cbn [wmode_core].
    - apply nounfit_bind; [apply map_fields_nounfit; assumption|]. intros a. apply nounfit_ok.
    - destruct token; [contradiction|].
      apply nounfit_bind; [apply struct_fields_nounfit; assumption|]. intros a. cbn [finish].
      apply nounfit_omap, finish_fields_nounfit.
  Qed.
End Fits.
