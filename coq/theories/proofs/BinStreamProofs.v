(* C08: the streaming TokenReader (BinReader over BufWin) yields what the slice lexer yields, for
   every fault-free read schedule and every capacity that fits the input. *)
From JV Require Import Bytes Tables BinPrim BufWin BinLexer BinReader.
From JV.proofs Require Import BinLexProofs.
From Coq Require Import List NArith ZArith Bool Lia Arith.
Import ListNotations.
Open Scope nat_scope.

(* the reader state [s] stands for: remaining data [d], stream position [pos], capacity [c],
   and the rest of the schedule has no fault *)
Definition st_ok (s : rstate) (d : bytes) (pos c : nat) : Prop :=
  rdr_pending s = d /\ rdr_position s = pos /\ cap (fst s) = c /\ no_fail (sched (snd s)) = true.

Lemma no_fail_tl l : no_fail l = true -> no_fail (tl l) = true.
Proof. destruct l as [|[n|] l]; cbn; auto; discriminate. Qed.

Lemma rd_read_nofail r free : no_fail (sched r) = true ->
  exists k, k <= free /\ k <= length (rest r) /\ (k = 0 -> free = 0 \/ rest r = []) /\
    rd_read r free = Ok (firstn k (rest r), mkrd (skipn k (rest r)) (tl (sched r)) (S (calls r)) (delivered r + k)).
Proof.
  intros H. unfold rd_read.
  assert (G : forall n : N,
    let k := N.to_nat (N.min (N.max n 1) (N.of_nat (Nat.min free (length (rest r))))) in
    k <= free /\ k <= length (rest r) /\ (k = 0 -> free = 0 \/ rest r = [])).
  { intros n k. subst k. repeat split; try lia.
    intros K. destruct (rest r); [right; reflexivity|]. cbn [length] in K. left. lia. }
  destruct (sched r) as [|[n|] l].
  - destruct (G 1000000000%N) as (A & B & C). eexists. repeat split; eauto.
  - destruct (G n) as (A & B & C). eexists. repeat split; eauto.
  - cbn in H. discriminate.
Qed.

Inductive fill_view (s : rstate) (d : bytes) (pos c : nat) : fill_class -> Prop :=
| fv_full : c <= length (win (fst s)) -> fill_view s d pos c (FcErr E_BufferFull s)
| fv_end s' : length (win (fst s)) < c -> rest (snd s) = [] -> st_ok s' d pos c ->
              win (fst s') = win (fst s) -> rest (snd s') = [] -> fill_view s d pos c (FcZero s')
| fv_more s' k : length (win (fst s)) < c -> 0 < k -> st_ok s' d pos c ->
              win (fst s') = win (fst s) ++ firstn k (rest (snd s)) -> rest (snd s') = skipn k (rest (snd s)) ->
              k <= length (rest (snd s)) ->
              fill_view s d pos c (FcMore s').

Lemma st_ok_intro b r d pos c :
  win b ++ rest r = d -> prior b + consumed b = pos -> cap b = c -> no_fail (sched r) = true ->
  st_ok (b, r) d pos c.
Proof. intros. unfold st_ok, rdr_pending, rdr_position, bw_position. cbn [fst snd]. auto. Qed.

Lemma st_ok_elim b r d pos c : st_ok (b, r) d pos c ->
  win b ++ rest r = d /\ prior b + consumed b = pos /\ cap b = c /\ no_fail (sched r) = true.
Proof. unfold st_ok, rdr_pending, rdr_position, bw_position. cbn [fst snd]. auto. Qed.

Lemma rdr_fill_spec s d pos c : st_ok s d pos c -> 0 < c -> fill_view s d pos c (rdr_fill s).
Proof.
  destruct s as [b r]. intros Hok Hc0. pose proof (st_ok_elim _ _ _ _ _ Hok) as (Hp & Hpos & Hc & Hnf).
  unfold rdr_fill, bw_fill_buf. cbn [fst snd].
  destruct (Nat.leb (cap b) (length (win b))) eqn:L.
  - apply Nat.leb_le in L. replace (Nat.eqb (cap b) 0) with false by (symmetry; apply Nat.eqb_neq; lia).
    apply fv_full. cbn [fst]. lia.
  - apply Nat.leb_gt in L.
    destruct (rd_read_nofail r (cap b - length (win b)) Hnf) as (k & K1 & K2 & K3 & E).
    rewrite E. rewrite firstn_length_le by assumption.
    destruct k as [|k].
    + cbn [Nat.eqb]. destruct (K3 eq_refl) as [K3'|K3']; [lia|]. clear K3. rename K3' into K3.
      apply fv_end; cbn [fst snd win rest]; try lia; try assumption.
      * apply st_ok_intro; cbn [win rest cap prior consumed sched].
        -- rewrite K3 in *. cbn [firstn skipn]. rewrite app_nil_r. assumption.
        -- lia.
        -- assumption.
        -- apply no_fail_tl; assumption.
      * rewrite K3. cbn [firstn]. apply app_nil_r.
    + cbn [Nat.eqb]. apply fv_more with (k := S k); cbn [fst snd win rest]; try lia; try reflexivity.
      apply st_ok_intro; cbn [win rest cap prior consumed sched].
      * rewrite <- app_assoc, firstn_skipn. assumption.
      * lia.
      * assumption.
      * apply no_fail_tl; assumption.
Qed.

(* what the slice lexer's next_token does on data d: result and remaining data *)
Definition next_res (d : bytes) : outcome (option btoken) * bytes :=
  (fst (lx_next_token (mklx d 0)), lx_data (snd (lx_next_token (mklx d 0)))).

Lemma next_res_lx d orig :
  lx_next_token (mklx d orig) = (fst (next_res d), mklx (snd (next_res d)) orig).
Proof.
  unfold next_res, lx_next_token, lx_next_of. cbn [lx_data lx_orig].
  destruct (read_token d) as [[t r]|e| | |]; cbn [fst snd lx_data]; try reflexivity.
  destruct ((e =? E_LexEof)%N && match d with [] => true | _ => false end); reflexivity.
Qed.

Lemma next_res_ok d t r : read_token d = Ok (t, r) -> next_res d = (Ok (Some t), r).
Proof. intros H. unfold next_res, lx_next_token, lx_next_of. cbn [lx_data]. rewrite H. reflexivity. Qed.

Lemma next_res_eof d : read_token d = Err E_LexEof ->
  next_res d = (match d with [] => Ok None | _ => Err E_LexEof end, d).
Proof.
  intros H. unfold next_res, lx_next_token, lx_next_of. cbn [lx_data]. rewrite H.
  destruct d; reflexivity.
Qed.

Lemma next_res_rgb d : read_token d = Err E_InvalidRgb -> next_res d = (Err E_InvalidRgb, d).
Proof. intros H. unfold next_res, lx_next_token, lx_next_of. cbn [lx_data]. rewrite H. reflexivity. Qed.

Lemma tok_fits_pos c d : tok_fits c d = true -> 0 < c.
Proof.
  unfold tok_fits. destruct (is_eof (read_token d)).
  - intros H. apply Nat.ltb_lt in H. lia.
  - destruct c; [|lia]. cbn [firstn]. vm_compute. discriminate.
Qed.

(* a window that fills the buffer and still does not hold a whole token contradicts tok_fits *)
Lemma full_window_fits c w r :
  tok_fits c (w ++ r) = true -> c <= length w -> read_token w = Err E_LexEof -> False.
Proof.
  unfold tok_fits. intros F L E.
  destruct (is_eof (read_token (w ++ r))) eqn:I.
  - apply Nat.ltb_lt in F. rewrite app_length in F. lia.
  - rewrite firstn_app in F. replace (c - length w) with 0 in F by lia. cbn [firstn] in F. rewrite app_nil_r in F.
    rewrite <- (firstn_skipn c w) in E.
    destruct (read_token_total (firstn c w)) as [[t [r' E']]|[E'|E']].
    + rewrite (prefix_stable _ _ _ (skipn c w) E') in E. discriminate.
    + rewrite E' in F. cbn in F. discriminate.
    + rewrite (prefix_stable_invalid_rgb _ (skipn c w) E') in E. discriminate.
Qed.

(* ---------- one next() of the reader = one next_token of the lexer ---------- *)
Definition next_post (d : bytes) (pos c : nat) (s' : rstate) : Prop :=
  st_ok s' (snd (next_res d)) (pos + (length d - length (snd (next_res d)))) c.

Lemma next_step_tok s d pos c t w' :
  st_ok s d pos c -> read_token (win (fst s)) = Ok (t, w') ->
  exists s', rdr_next_step s = inr (fst (next_res d), s') /\ next_post d pos c s'.
Proof.
  destruct s as [b r]. intros Hok E. pose proof (st_ok_elim _ _ _ _ _ Hok) as (Hp & Hpos & Hc & Hnf).
  cbn [fst snd] in *.
  destruct (read_token_consumed _ _ _ E) as [c0 [Ew _]].
  assert (Ed : read_token d = Ok (t, w' ++ rest r)) by (rewrite <- Hp; apply prefix_stable; assumption).
  unfold rdr_next_step, next_post. cbn [fst snd]. rewrite E. rewrite (next_res_ok _ _ _ Ed). cbn [fst snd].
  unfold rdr_advance, bw_advance. cbn [fst snd].
  replace (Nat.ltb (length (win b)) (length (win b) - length w')) with false
    by (symmetry; apply Nat.ltb_ge; lia).
  eexists. split; [reflexivity|].
  apply st_ok_intro; cbn [win rest cap prior consumed sched]; try assumption.
  - rewrite Ew at 1 2. rewrite app_length, Nat.add_sub, skipn_app, skipn_all, Nat.sub_diag. reflexivity.
  - rewrite <- Hp, Ew, !app_length. lia.
Qed.

Lemma next_step_rgb s d pos c :
  st_ok s d pos c -> read_token (win (fst s)) = Err E_InvalidRgb ->
  exists s', rdr_next_step s = inr (fst (next_res d), s') /\ next_post d pos c s'.
Proof.
  destruct s as [b r]. intros Hok E. pose proof (st_ok_elim _ _ _ _ _ Hok) as (Hp & Hpos & Hc & Hnf).
  cbn [fst snd] in *.
  assert (Ed : read_token d = Err E_InvalidRgb) by (rewrite <- Hp; apply prefix_stable_invalid_rgb; assumption).
  unfold rdr_next_step, next_post. cbn [fst snd]. rewrite E. rewrite (next_res_rgb _ Ed). cbn [fst snd].
  replace (E_InvalidRgb =? E_LexEof)%N with false by reflexivity.
  eexists. split; [reflexivity|]. rewrite Nat.sub_diag, Nat.add_0_r. assumption.
Qed.

Lemma next_step_eof s :
  read_token (win (fst s)) = Err E_LexEof ->
  rdr_next_step s =
    match rdr_fill s with
    | FcZero s' => if Nat.eqb (bw_window_len (fst s')) 0 then inr (Ok None, s') else inr (Err E_LexEof, s')
    | FcMore s' => inl s'
    | FcErr e' s' => inr (Err e', s')
    end.
Proof. intros E. unfold rdr_next_step. rewrite E. reflexivity. Qed.

Lemma next_steps_spec : forall n s d pos c fuel,
  st_ok s d pos c -> tok_fits c d = true -> length (rest (snd s)) <= n -> n < fuel ->
  exists s', run_steps rdr_next_step fuel s = Some (fst (next_res d), s') /\ next_post d pos c s'.
Proof.
  induction n as [|n IH]; intros s d pos c fuel Hok Hfit Hn Hf;
    (destruct fuel as [|fuel]; [lia|]).
  all: pose proof (tok_fits_pos _ _ Hfit) as Hc0.
  all: pose proof Hok as (Hp & Hpos & Hc & Hnf).
  all: destruct (read_token_total (win (fst s))) as [[t [w' E]]|[E|E]].
  all: try (destruct (next_step_tok _ _ _ _ _ _ Hok E) as [s' [Es Hs]];
            exists s'; split; [apply run_steps_inr; assumption | assumption]).
  all: try (destruct (next_step_rgb _ _ _ _ Hok E) as [s' [Es Hs]];
            exists s'; split; [apply run_steps_inr; assumption | assumption]).
  all: pose proof (next_step_eof s E) as Es.
  all: destruct (rdr_fill_spec s d pos c Hok Hc0) as [Hfull | s' Hlt Hr Hok' Hw Hr' | s' k Hlt Hk Hok' Hw Hr' Hkl].
  all: try (exfalso; rewrite <- Hp in Hfit; unfold rdr_pending in Hfit;
            exact (full_window_fits _ _ _ Hfit Hfull E)).
  - (* end of the stream *)
    assert (Ed : d = win (fst s)) by (rewrite <- Hp; unfold rdr_pending; rewrite Hr; apply app_nil_r).
    rewrite <- Ed in E. unfold next_post. rewrite (next_res_eof _ E). cbn [fst snd].
    unfold bw_window_len in Es. rewrite Hw, <- Ed in Es.
    exists s'. rewrite Nat.sub_diag, Nat.add_0_r. split; [|assumption].
    apply run_steps_inr. rewrite Es. destruct d; reflexivity.
  - (* n = 0 but the reader delivered bytes: impossible *) lia.
  - assert (Ed : d = win (fst s)) by (rewrite <- Hp; unfold rdr_pending; rewrite Hr; apply app_nil_r).
    rewrite <- Ed in E. unfold next_post. rewrite (next_res_eof _ E). cbn [fst snd].
    unfold bw_window_len in Es. rewrite Hw, <- Ed in Es.
    exists s'. rewrite Nat.sub_diag, Nat.add_0_r. split; [|assumption].
    apply run_steps_inr. rewrite Es. destruct d; reflexivity.
  - (* more bytes arrived *)
    rewrite (run_steps_inl _ _ _ _ Es).
    apply IH; try assumption.
    + rewrite Hr', skipn_length. lia.
    + lia.
Qed.

Lemma rdr_next_spec s d pos c :
  st_ok s d pos c -> tok_fits c d = true ->
  exists s', rdr_next s = (fst (next_res d), s') /\
             st_ok s' (snd (next_res d)) (pos + (length d - length (snd (next_res d)))) c.
Proof.
  intros Hok Hfit. fold (next_post d pos c).
  destruct (next_steps_spec (length (rest (snd s))) s d pos c (rdr_fuel s) Hok Hfit (le_n _)) as [s' [E H]].
  { unfold rdr_fuel. lia. }
  exists s'. split; [|assumption]. unfold rdr_next. rewrite E. reflexivity.
Qed.

(* ---------- whole runs ---------- *)
Lemma stream_run_eq : forall fuel s l c,
  st_ok s (lx_data l) (lx_position l) c -> length (lx_data l) <= lx_orig l ->
  fits_fuel fuel c (lx_data l) = true -> stream_run fuel s = lex_run fuel l.
Proof.
  induction fuel as [|fuel IH]; intros s [d orig] c Hok Hwf Hfit; cbn [lx_data lx_orig] in *.
  - cbn [stream_run lex_run]. destruct Hok as (_ & Hpos & _). rewrite Hpos. reflexivity.
  - cbn [fits_fuel] in Hfit. apply andb_prop in Hfit as [Hfit Hrest].
    destruct (rdr_next_spec s d _ c Hok Hfit) as [s' [En Hok']].
    cbn [stream_run lex_run]. rewrite En, next_res_lx.
    unfold lx_position in *. cbn [lx_data lx_orig] in *.
    destruct (read_token_total d) as [[t [r E]]|[E|E]].
    + rewrite (next_res_ok _ _ _ E) in *. cbn [fst snd] in *. rewrite E in Hrest.
      pose proof (read_token_len _ _ _ E) as L.
      rewrite (IH s' (mklx r orig) c); [reflexivity | | cbn [lx_data lx_orig]; lia | assumption].
      unfold lx_position. cbn [lx_data lx_orig].
      replace (orig - length r) with (orig - length d + (length d - length r)) by lia. assumption.
    + rewrite (next_res_eof _ E) in *. cbn [fst snd] in *.
      destruct Hok' as (_ & Hpos' & _). rewrite Hpos'. rewrite Nat.sub_diag, Nat.add_0_r.
      destruct d; reflexivity.
    + rewrite (next_res_rgb _ E) in *. cbn [fst snd] in *.
      destruct Hok' as (_ & Hpos' & _). rewrite Hpos'. rewrite Nat.sub_diag, Nat.add_0_r. reflexivity.
Qed.

Lemma st_ok_new cap sched input : no_fail sched = true -> st_ok (rdr_new cap sched input) input 0 cap.
Proof. intros H. unfold st_ok, rdr_new, rdr_pending, rdr_position, bw_position. cbn. auto. Qed.

Theorem stream_eq_lexer input sched cap :
  no_fail sched = true -> fits cap input = true -> run_stream cap sched input = run_lexer input.
Proof.
  intros Hnf Hfit. unfold run_stream, run_lexer, fits in *.
  apply (stream_run_eq _ _ (lx_new input) cap).
  - unfold lx_new, lx_position. cbn [lx_data lx_orig]. rewrite Nat.sub_diag. apply st_ok_new. assumption.
  - cbn. lia.
  - assumption.
Qed.

(* the per-step statement in terms of the two cursor models *)
Theorem next_eq_lexer s l c :
  st_ok s (lx_data l) (lx_position l) c -> length (lx_data l) <= lx_orig l -> tok_fits c (lx_data l) = true ->
  exists s', rdr_next s = (fst (lx_next_token l), s') /\
             st_ok s' (lx_data (snd (lx_next_token l))) (lx_position (snd (lx_next_token l))) c.
Proof.
  destruct l as [d orig]. cbn [lx_data lx_orig]. intros Hok Hwf Hfit.
  destruct (rdr_next_spec s d _ c Hok Hfit) as [s' [En Hok']].
  exists s'. rewrite next_res_lx. cbn [fst snd lx_data]. split; [assumption|].
  unfold lx_position in *. cbn [lx_data lx_orig] in *.
  assert (L : length (snd (next_res d)) <= length d).
  { destruct (read_token_total d) as [[t [r E]]|[E|E]].
    - rewrite (next_res_ok _ _ _ E). cbn. pose proof (read_token_len _ _ _ E). lia.
    - rewrite (next_res_eof _ E). cbn. lia.
    - rewrite (next_res_rgb _ E). cbn. lia. }
  replace (orig - length (snd (next_res d))) with (orig - length d + (length d - length (snd (next_res d)))) by lia.
  assumption.
Qed.
